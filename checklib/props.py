"""Per-property configuration of ./check: Coq targets, correspondence streams, which
mismatch tags concern the property, evidence wording."""

TRUSTED_BASE = [
    "Coq 8.16.1 kernel incl. its vm_compute machine (every finite sweep) ; no native_compute",
    "Spec/*.v: the hand-written executable specification (FIDE rules, geometry, FEN, SAN) is what the theorems mean",
    "translator/gen.py: parses $OUT_DIR/magic_gen.rs + zobrist_gen.rs of the fresh cargo build, the harness's `dumpfns` tabulation and three source regexes into coq/Gen/*.v",
    "hand-written Model/*.v tied to the code by the correspondence check only (extraction: ExtrOcamlBasic and nothing else: Extract Inductive bool/option/unit/list/prod/sumbool/sumor, Extract Inlined Constant andb/orb)",
    "OCaml 4.13 compiler, ocaml/*.ml driver, Rust harness (harness/src), cargo/rustc",
    "Rust integer/shift/str semantics as transcribed in Base/*.v; usize = 64 bits",
]

def H(*a): return ('H',) + tuple(a)
def D(k): return ('D', k)

# tags = regular expressions (fullmatch) of the MISMATCH tags that make this property fail
COMMON_MODEL_TAGS = ['driver_exception', 'driver', 'sane', 'replay_rejected']

def sz(tier, q, t): return q if tier == 'quick' else t

PROPS = {}

PROPS['C15'] = dict(
    coq_targets=['Proofs/WalkDep.vo', 'Proofs/MagicSweep.vo', 'Proofs/PextFacts.vo', 'Proofs/MagicBmiSweep.vo'],
    prop_files=['C15', 'C15b'],
    scope='all 64 squares x all 2^64 occupancies, both build configurations (magic multiplication tables and BMI2 pext/pdep tables, each translated from its own build); tables re-swept by the kernel whenever they change',
    streams=lambda tier: [
        dict(stages=[H('magic', sz(tier, 2, 24)), D('magic')], shards=16, min_stat={'magic_lookups': 107648}),
        dict(stages=[H('magic', sz(tier, 1, 8)), D('magic')], shards=16, build='bmi2', min_stat={'magic_lookups': 107648, 'bmi2_build': 1}, seed_off=5),
    ],
    needs_bmi=True,
    tags=['oracle_magic', 'oracle_magic_bmi', 'magic_line'] + COMMON_MODEL_TAGS,
    eval_stat='magic_lookups',
    rule='Rust-side complete sweep of the relevant-occupancy subsets of every (piece type, square) x random noise on the irrelevant squares, default build and target-feature=+bmi2 build (magic vs BMI entry points), each compared with the extracted ray walk; distinct = distinct (piece, square, relevant subset)',
    exhaustive=True,
)

PROPS['C19'] = dict(
    coq_targets=['Proofs/CacheTableRefine.vo'],
    scope='all operation sequences, all sizes, all hashes, any entry type',
    streams=lambda tier: [
        dict(stages=[H('cache', sz(tier, 3000, 60000)), D('cache')], shards=16),
        dict(stages=[H('cache', sz(tier, 600, 6000)), D('cache')], shards=8, build='debug', seed_off=3),
    ],
    tags=['cache_.*', 'oracle_cache_.*'] + COMMON_MODEL_TAGS,
    eval_stat='cache_ops',
    rule='random add/replace_if/get sequences over a small hash pool (colliding and non-colliding hashes, 0, u64::MAX), power-of-two sizes 1..2^16 and invalid sizes; release build and debug-assertion build (an out-of-range unchecked index aborts there); distinct = distinct sequences',
)

PROPS['C20'] = dict(
    coq_targets=['Proofs/BitsFacts.vo', 'Proofs/BitsIter.vo', 'Proofs/BitsSwap.vo'],
    scope='all 64-bit values (N with b < 2^64), all squares',
    streams=lambda tier: [dict(stages=[H('bits', sz(tier, 20000, 1000000)), D('bits')], shards=16)],
    tags=['bits_.*', 'oracle_bits_.*'] + COMMON_MODEL_TAGS,
    eval_stat='bits_cases',
    rule='structured (ranks, files, diagonal, single squares, sparse, dense, 0, all) and random 64-bit pairs through every owned/borrowed/assigning operator form, iteration, popcnt, to_square, reverse_colors, to_size; distinct = distinct value pairs',
)

PROPS['C16'] = dict(
    coq_targets=['Proofs/TablesLib.vo', 'Proofs/TablesEq.vo', 'Proofs/TablesMeaning.vo', 'Proofs/SweepBetween.vo', 'Proofs/SweepLine.vo', 'Proofs/FiniteFnsEq.vo'],
    prop_files=['C16a', 'C16b'],
    scope='complete domains (64 squares, 64x64 pairs, 64^3 triples, 2 colours, 8 ranks/files) of the translated tables and of the tabulated public functions; all 2^64 blocker words for the three pawn accessors',
    streams=lambda tier: [dict(stages=[H('pawnfns', sz(tier, 8, 400)), D('pawnfns')], shards=1, min_stat={'pawn_calls': 4464}),
                          dict(stages=[H('dumpfns'), D('fns')], shards=1, min_stat={'fn_points': 9000})],
    tags=['pawn_.*', 'oracle_pawn_.*', 'oracle_table'] + COMMON_MODEL_TAGS,
    eval_stat='pawn_calls',
    rule='the tabulation of every finite-domain function is exhaustive (translator, re-proved by Coq each run); the three blocker accessors additionally run on every combination of their relevant squares x random noise elsewhere against the model and the movement rule; distinct = (colour, square, blockers) triples',
    exhaustive=True,
)

PROPS['C13'] = dict(
    coq_targets=['Proofs/UciText.vo'],
    scope='all 20480 move values and 64 squares (complete sweeps); all strings (lists of Unicode scalar values) for totality, the prefix law and the decoded value',
    streams=lambda tier: [dict(stages=[H('uci', sz(tier, 20000, 1500000)), D('uci')], shards=16, min_stat={'uci_moves': 20480, 'uci_squares': 64})],
    tags=['uci_.*', 'oracle_uci_.*'] + COMMON_MODEL_TAGS,
    eval_stat='uci_strings',
    rule='exhaustive: all 20480 moves and 64 squares rendered and re-parsed by the library; plus random / mutated / truncated / over-long / non-ASCII strings through both parsers (under catch_unwind), compared with the model and with the prefix law; distinct = distinct strings that parse',
    exhaustive=True,
)

PROPS['C14'] = dict(
    coq_targets=['Proofs/IterBits.vo', 'Proofs/IterLists.vo', 'Proofs/IterCore.vo', 'Proofs/IterPart.vo', 'Proofs/IterMask.vo', 'Proofs/IterExamples.vo'],
    scope='all well-formed entry lists, all sequences of masks (each drained to exhaustion) and removals, every reachable iterator state',
    streams=lambda tier: [dict(stages=[H('iter', sz(tier, 12, 400)), D('iter')], shards=16)],
    tags=['prop_.*', 'iter_.*', 'size_hint', 'script'] + COMMON_MODEL_TAGS,
    eval_stat='scripts',
    rule='playout and set-up positions x 3 random scripts: removals of legal moves (en-passant captures and promotions preferred) and destination sets on the fresh generator, 1-3 random masks each drained to exhaustion, final full mask; len() and size_hint() before every next(); the oracle checks the contract on the implementation output alone (batch = not-yet-yielded legal moves on the mask, len = moves still yielded, removed never yielded, total = legal minus removed exactly once); distinct = scripts with a mask or a removal',
    assumptions=['the entry list handed to the iterator is well formed (non-empty destination sets < 2^64, no (source,destination) pair twice): provided by move generation (C01)'],
)

PROPS['C09'] = dict(
    coq_targets=['Proofs/ZobristKeys.vo', 'Proofs/HashSeparation.vo', 'Proofs/ZobristSpan.vo', 'Proofs/ZobristIndep4.vo'],
    prop_files=['C09', 'C09b', 'C09c'],
    scope='all boards / all builder states paired with each single-component variant; key facts by complete sweeps of the translated Zobrist tables (768 + 8 + 16 + 1 keys); GF(2) span / rank of the 768 piece keys, all 64-bit values',
    streams=lambda tier: [dict(stages=[H('zob', sz(tier, 25, 1500)), D('zob')], shards=16, min_stat={'zob_sib_side': 10, 'zob_sib_rights': 10, 'zob_sib_ep': 5, 'zob_sib_piece': 100})],
    tags=['hash_model', 'oracle_hash_.*', 'zob_line'] + COMMON_MODEL_TAGS,
    eval_stat='zob_siblings',
    rule='every playout / set-up position paired with single-component variants built through the builder or a null move (side to move, either colour\'s rights, en-passant file, one piece on one square): hashes must differ; census of all (position, hash) pairs of the run for collisions and for the width of the hash (distinct values of each 32-bit half and 16-bit quarter, balance of each bit, with chance-calibrated thresholds); distinct = distinct base positions',
    assumptions=['the clause "no more collisions than chance among millions of positions" is statistical: measured by the census, not a theorem'],
)

# ---- position-stream properties ----------------------------------------------------------
POS_RULE = ('biased random playouts (captures, checks, double checks, pawn moves, king moves / promotions, '
            'en-passant-creating pushes preferred) from ~110 roots (initial position, Kiwipete, the 27 perft roots, '
            'constructed positions for rare branches: en passant exposing the king along a rank / diagonal, pinned '
            'en-passant capturer, en passant in check, double checks, pins, castling through / into attack, '
            'promotions with capture and check) plus random sparse set-ups with en-passant situations, with null '
            'moves interleaved; positions outside PosValid are recognised by the extracted pos_valid and only '
            'compared model-vs-implementation; distinct_nontrivial = distinct PosValid positions that are in check, '
            'have a pinned man, en-passant state, a promotion available or are terminal')

def pos_stream(tier, q, t, mode='full'):
    return dict(stages=[H('pos', sz(tier, q, t), mode), D('pos')], shards=16, min_stat={'valid_positions': 500})

PROPS['C01'] = dict(
    coq_crosscheck=True,
    coq_targets=['Proofs/GenWF.vo', 'Proofs/GenWFBoard.vo', 'Proofs/StatusModel.vo', 'Proofs/GenSafeMain.vo', 'Proofs/GenKingMain.vo', 'Proofs/GenCastleMain.vo', 'Proofs/GenEpMain.vo', 'Proofs/GenEpOne.vo', 'Proofs/GenPseudoMain.vo', 'Proofs/GenAsmMain.vo', 'Proofs/GenAsmFinal.vo', 'Proofs/CorAReach.vo', 'Proofs/CorAQuick.vo', 'Proofs/CorAGame.vo'],
    prop_files=['C01a', 'C01', 'C01c'],
    scope='see theorem list; the full refinement statement is kept as C01_full',
    streams=lambda tier: [pos_stream(tier, 14, 900, 'full')] + ([dict(stages=[H('endgame', 1), D('pos')], shards=16, seed_off=9)] if tier == 'thorough' else []),
    tags=['moves', 'oracle_moves', 'oracle_dup', 'legal_query.*', 'legal_quick.*', 'len0', 'len_vs_count', 'enumerate_moves', 'overflow', 'size_hint', 'obs_ch', 'obs_pin'] + COMMON_MODEL_TAGS,
    rule=POS_RULE + '; every 16th position additionally runs Board::legal on all 20480 triples',
)
PROPS['C02'] = dict(
    coq_targets=['Proofs/MakeMoveTwin.vo', 'Proofs/ApplySpecLib.vo', 'Proofs/ApplySpec.vo', 'Proofs/ApplySpecEp.vo', 'Proofs/ApplySpecExamples.vo', 'Proofs/StepShape.vo', 'Proofs/StepApply.vo', 'Proofs/StepModel.vo', 'Proofs/StepClean.vo', 'Proofs/StepGeom.vo', 'Proofs/StepLink.vo', 'Proofs/StepPass.vo', 'Proofs/StepHash.vo', 'Proofs/StepClosed.vo', 'Proofs/StepExamples.vo', 'Proofs/StepMain.vo', 'Proofs/StepCache.vo', 'Proofs/StepCanon.vo', 'Proofs/StepMain2.vo'],
    prop_files=['C02', 'C02b'],
    scope='see theorem list',
    streams=lambda tier: [pos_stream(tier, 14, 900, 'succ')],
    tags=['succ_model.*', 'succ_flags', 'succ_parse', 'succ_ch', 'succ_pin', 'succ_pcs', 'succ_col', 'succ_comb', 'succ_hash', 'oracle_apply', 'oracle_ep'] + COMMON_MODEL_TAGS,
    eval_stat='successors',
    rule=POS_RULE + '; every legal move of every position is applied through both entry points (the in-place one with an unrelated pre-filled output board) and compared with Spec.apply',
)
PROPS['C03'] = dict(
    coq_crosscheck=True,
    coq_targets=['Proofs/AbsBoard.vo', 'Proofs/NullMove.vo', 'Proofs/CanonAttack.vo', 'Proofs/CanonCheckers.vo', 'Proofs/CanonPinned.vo', 'Proofs/CanonNullMove.vo', 'Proofs/CanonScratch.vo', 'Proofs/CorAReach.vo', 'Proofs/CorAQuick.vo', 'Proofs/CorAGame.vo'],
    prop_files=['C03', 'C03b'],
    scope='see theorem list',
    streams=lambda tier: [pos_stream(tier, 14, 900, 'succ')],
    tags=['obs_.*', 'oracle_checkers', 'oracle_pinned', 'reparse', 'succfs_.*', 'succ_ch', 'succ_pin', 'succ_flags', 'null_.*', 'nullfs_.*', 'impl_sane'] + COMMON_MODEL_TAGS,
    rule=POS_RULE,
)
# C04: the thorough tier enumerates every K+X v K placement (X any piece of either colour, either
# side to move: about 4.3 million accepted positions); the quick tier samples every 400th.
PROPS['C04'] = dict(
    coq_targets=['Proofs/GenWF.vo', 'Proofs/GenWFBoard.vo', 'Proofs/StatusModel.vo', 'Proofs/CorAReach.vo', 'Proofs/CorAQuick.vo', 'Proofs/CorAGame.vo'],
    prop_files=['C04', 'C04b'],
    scope='see theorem list',
    streams=lambda tier: [pos_stream(tier, 20, 1200, 'nosucc'),
                          dict(stages=[H('endgame', sz(tier, 400, 1)), D('pos')], shards=16, seed_off=9, min_stat={'valid_positions': 500})],
    tags=['status_model', 'oracle_status', 'len0', 'len_vs_count', 'moves', 'obs_ch'] + COMMON_MODEL_TAGS,
    rule=POS_RULE,
)
PROPS['C05'] = dict(
    coq_targets=['Proofs/SpecInvBase.vo', 'Proofs/SpecInvMoves.vo', 'Proofs/SpecInvEffect.vo', 'Proofs/SpecInvGoals.vo', 'Proofs/SpecInvExamples.vo', 'Proofs/RoundTripAbs.vo', 'Proofs/RoundTripSane.vo', 'Proofs/RoundTripMain.vo', 'Proofs/CorAReach.vo', 'Proofs/CorAQuick.vo', 'Proofs/CorAGame.vo'],
    prop_files=['C05', 'C05b', 'C05c'],
    scope='see theorem list',
    streams=lambda tier: [pos_stream(tier, 14, 900, 'succ')],
    tags=['oracle_valid_succ', 'oracle_monotone', 'impl_sane', 'sane', 'succ_flags', 'succ_model'] + COMMON_MODEL_TAGS,
    eval_stat='successors',
    rule=POS_RULE + '; every successor of every PosValid position must again be PosValid and accepted by is_sane, with rights / men / pawns not growing',
)
PROPS['C08'] = dict(
    coq_crosscheck=True,
    coq_targets=['Proofs/StepShape.vo', 'Proofs/StepApply.vo', 'Proofs/StepModel.vo', 'Proofs/StepClean.vo', 'Proofs/StepGeom.vo', 'Proofs/StepLink.vo', 'Proofs/StepPass.vo', 'Proofs/StepHash.vo', 'Proofs/StepClosed.vo', 'Proofs/StepExamples.vo', 'Proofs/StepMain.vo', 'Proofs/StepCache.vo', 'Proofs/StepCanon.vo', 'Proofs/StepMain2.vo'],
    scope='see theorem list',
    streams=lambda tier: [pos_stream(tier, 14, 900, 'succ')],
    tags=['obs_hash', 'succ_hash', 'succfs_hash', 'null_hash', 'nullfs_hash', 'reparse', 'succ_flags'] + COMMON_MODEL_TAGS,
    eval_stat='successors',
    rule=POS_RULE + '; the hash of every position reached by moves or null moves is compared with the hash of the same position built from scratch from its neutral encoding (path independence) and std Hash with the FEN re-parse',
)
PROPS['C17'] = dict(
    coq_targets=['Proofs/MirrorLib.vo', 'Proofs/MirrorGeneric.vo', 'Proofs/MirrorV.vo', 'Proofs/MirrorH.vo', 'Proofs/MirrorMain.vo', 'Proofs/CorB17Valid.vo', 'Proofs/CorB17.vo', 'Proofs/CorB17Main.vo'],
    prop_files=['C17', 'C17b'],
    scope='see theorem list',
    streams=lambda tier: [dict(stages=[H('mirror', sz(tier, 8, 500)), D('mirror')], shards=16, min_stat={'mirror_pairs': 500})],
    tags=['mirror_.*'] + COMMON_MODEL_TAGS,
    eval_stat='mirror_pairs',
    rule=POS_RULE + '; every position is paired with its colour-swapped vertical mirror image (and, without castling rights, its left-right mirror image) built through the neutral encoding; moves, status, checkers, pinned and all successors must be mirror images',
)
PROPS['C18'] = dict(
    coq_crosscheck=True,
    coq_targets=['Proofs/AbsBoard.vo', 'Proofs/NullMove.vo', 'Proofs/CanonAttack.vo', 'Proofs/CanonCheckers.vo', 'Proofs/CanonPinned.vo', 'Proofs/CanonNullMove.vo', 'Proofs/CanonScratch.vo', 'Proofs/CorAReach.vo', 'Proofs/CorAQuick.vo', 'Proofs/CorAGame.vo'],
    prop_files=['C18', 'C18b'],
    scope='see theorem list',
    streams=lambda tier: [pos_stream(tier, 20, 1200, 'nosucc')],
    tags=['null_.*', 'nullfs_.*'] + COMMON_MODEL_TAGS,
    eval_stat='null_moves',
    rule=POS_RULE,
)

# ---- text / game properties -------------------------------------------------------------
PROPS['C06'] = dict(
    coq_targets=['Proofs/FenSplit.vo', 'Proofs/FenPlacement.vo', 'Proofs/FenRoundtrip.vo', 'Proofs/FenWellformed.vo', 'Proofs/FenStd.vo', 'Proofs/FenBoard.vo', 'Proofs/FenCanon.vo', 'Proofs/CorB06.vo'],
    prop_files=['C06', 'C06b'],
    scope='see theorem list',
    streams=lambda tier: [
        dict(stages=[H('fen', sz(tier, 30, 2000)), D('fengen'), H('fenparse'), D('fen')], shards=16, min_stat={'fen_valid_positions': 1000, 'fen_with_ep_field': 5}),
        dict(stages=[H('builder', sz(tier, 2500, 200000)), D('builder')], shards=16, seed_off=2),
    ],
    tags=['fen_.*', 'oracle_fen_.*', 'oracle_builder_.*', 'builder_display_model', 'builder_parse_model', 'model_panic'] + COMMON_MODEL_TAGS,
    eval_stat='fen_positions',
    rule='positions along biased playouts (with the square passed over tracked by the harness when the last move was a double push) rendered by the library, re-parsed (6 and 4 fields), compared with the independent standard writer of Spec/Text.v whose text is parsed by the library too; plus arbitrary builder states rendered and re-parsed; distinct = distinct positions with an en-passant field or partial castling rights',
)
PROPS['C07'] = dict(
    miri=True,
    coq_targets=['Proofs/PopcntFacts.vo', 'Proofs/AcceptSound.vo', 'Proofs/MoveListCap.vo', 'Proofs/ParseTotal.vo', 'Proofs/CorB07.vo'],
    prop_files=['C07', 'C07b'],
    scope='see theorem list',
    streams=lambda tier: [
        dict(stages=[H('fenfuzz', sz(tier, 4000, 400000)), D('fenfuzz')], shards=16),
        dict(stages=[H('builder', sz(tier, 4000, 400000)), D('builder')], shards=16, seed_off=1),
        dict(stages=[H('crowded', sz(tier, 1500, 100000)), D('builder')], shards=16, seed_off=2),
        dict(stages=[H('fenfuzz', sz(tier, 1500, 60000)), D('fenfuzz')], shards=8, build='debug', seed_off=3),
        dict(stages=[H('builder', sz(tier, 1500, 60000)), D('builder')], shards=8, build='debug', seed_off=4),
        dict(stages=[H('crowded', sz(tier, 600, 30000)), D('builder')], shards=8, build='debug', seed_off=5),
    ],
    tags=['oracle_panic', 'oracle_accept_.*', 'oracle_unsafe', 'model_overflow', 'model_panic', 'tryfrom_model', 'fen_parse_model', 'builder_parse_model', 'builder_display_model'] + COMMON_MODEL_TAGS,
    eval_stat='fuzz_texts',
    rule='mutated / truncated / structured-random FEN-like text and arbitrary Unicode through BoardBuilder::from_str and Board::from_str; arbitrary builder states (any piece anywhere, several kings, junk rights and en-passant file) and crowded boards (up to 55 men) through TryFrom; every accepted board goes through move generation, status, rendering and both move applications two plies deep; release build under catch_unwind and debug-assertion build (unchecked index / push past capacity abort the process there); distinct = distinct accepted inputs',
)
PROPS['C10'] = dict(
    coq_targets=['Proofs/GameBase.vo', 'Proofs/GameThreefold.vo', 'Proofs/GameScan.vo', 'Proofs/GameProtocol.vo', 'Proofs/GameClaims.vo', 'Proofs/GameExamples.vo', 'Proofs/CorAReach.vo', 'Proofs/CorAQuick.vo', 'Proofs/CorAGame.vo'],
    prop_files=['C10', 'C10b'],
    scope='see theorem list',
    streams=lambda tier: [dict(stages=[H('game', sz(tier, 150, 20000), 'mix'), D('game')], shards=16, min_stat={'game_ops': 5000}),
                          dict(stages=[H('game', sz(tier, 3, 200), 'draw'), D('game')], shards=16, seed_off=3)],
    tags=['game_.*', 'oracle_game_.*'] + COMMON_MODEL_TAGS,
    eval_stat='game_ops',
    rule='random interleavings of legal / illegal / random move attempts, draw offers by either colour, accepts, resignations and draw declarations from ongoing, near-terminal and already-finished start positions; every return value and result / side_to_move / can_declare_draw / log length after every step; distinct = distinct games with at least two accepted actions',
)
PROPS['C11'] = dict(
    coq_targets=['Proofs/GameBase.vo', 'Proofs/GameThreefold.vo', 'Proofs/GameScan.vo', 'Proofs/GameProtocol.vo', 'Proofs/GameClaims.vo', 'Proofs/GameExamples.vo', 'Proofs/DrawMeasure.vo', 'Proofs/DrawHistory.vo', 'Proofs/DrawExamples.vo'],
    prop_files=['C11', 'C11b'],
    scope='see theorem list',
    streams=lambda tier: [
        dict(stages=[H('game', sz(tier, 5, 300), 'draw'), D('game')], shards=16, min_stat={'games_with_threefold': 3, 'games_with_fifty': 3}),
        dict(stages=[H('game', sz(tier, 60, 5000), 'mix'), D('game')], shards=16, seed_off=7),
    ],
    tags=['oracle_draw_.*', 'game_state_model', 'game_ret_model', 'game_model_panic'] + COMMON_MODEL_TAGS,
    eval_stat='game_ops',
    rule='long reversible histories on sparse boards (quiet moves, a taste for returning to earlier positions, castling rights lost midway, occasional irreversible moves) with can_declare_draw after every step and declare_draw attempts, compared with Spec/Draw.v (threefold repetition of placement+turn+rights+en-passant state, or 100 half-moves without pawn move or capture); distinct = distinct games',
)
PROPS['C12'] = dict(
    coq_targets=['Proofs/SanFilter.vo', 'Proofs/SanScan.vo', 'Proofs/SanShape.vo', 'Proofs/SanSweepA.vo', 'Proofs/SanSweepB.vo', 'Proofs/SanSpecShape.vo', 'Proofs/SanRoundtrip.vo', 'Proofs/SanLink.vo', 'Proofs/SanLinkCheck.vo', 'Proofs/CorB12.vo'],
    prop_files=['C12', 'C12b'],
    scope='see theorem list',
    streams=lambda tier: [
        dict(stages=[H('pos', sz(tier, 4, 300), 'nosucc'), D('sangen'), H('sanparse'), D('san')], shards=16, min_stat={'san_spellings': 20000}),
        dict(stages=[H('san', sz(tier, 20, 2000)), D('sanfuzz')], shards=16, seed_off=4),
    ],
    tags=['san_.*', 'oracle_san_.*'] + COMMON_MODEL_TAGS,
    eval_stat='san_texts',
    rule='for every legal move of every PosValid playout position all admissible spellings of Spec/Text.v (piece letter, every correct disambiguation, x on captures incl. en passant, promotion letter, truthful + / #, optional " e.p.", O-O / O-O-O) are parsed by the library; plus under-disambiguated and wrong-capture-flag texts, mutated and random strings incl. non-ASCII; distinct = distinct positions',
)

# Extended model (Model/Extra.v): API next to the properties; drift is a NOTE, never a violation.
PROPS['C13']['ext'] = dict(files=['X13'], targets=['Proofs/Extra13.vo'], tags=['extra_cmp.*', 'extra_file.*', 'extra_rank.*', 'oracle_extra_cmp', 'oracle_extra_panic', 'extra_line'])
PROPS['C20']['ext'] = dict(files=['X20'], targets=['Proofs/Extra20.vo'], tags=['extra_bbdisplay.*'])
PROPS['C10']['ext'] = dict(files=['X10'], targets=['Proofs/Extra10.vo'], tags=['extra_default.*', 'oracle_extra_default'])
PROPS['C03']['ext'] = dict(files=['X03'], targets=['Proofs/Extra03.vo'], tags=['extra_edit.*'])
PROPS['C01']['ext'] = dict(files=['X01'], targets=['Proofs/PerftSpec.vo', 'Proofs/PerftExamples.vo', 'Proofs/PerftBuilder.vo', 'Proofs/PerftGame.vo', 'Proofs/PerftPublished.vo'], stream='extra2', size=(12, 400), shards=8, tags=['extra2_.*', 'oracle_extra2_.*', 'extra_line'])
PROPS['C07']['ext'] = dict(files=['X07', 'X07b'], targets=['Proofs/UnsafeAudit.vo', 'Proofs/AcceptGap.vo', 'Proofs/AcceptGapWitness.vo', 'Proofs/AcceptGapPins.vo'], stream=None, tags=[])
PROPS['C12']['ext'] = dict(files=['X12'], targets=['Proofs/KnownGames.vo'], stream=None, tags=[])
PROPS['C17']['ext'] = dict(files=['X17'], targets=['Proofs/PerftMirror.vo'], stream=None, tags=[])
PROPS['C06']['ext'] = dict(files=['X06'], targets=['Proofs/FenAccepted.vo'], stream=None, tags=[])
PROPS['C14']['ext'] = dict(files=['X14'], targets=['Proofs/IterOnBoards.vo', 'Proofs/IterOnBoardsExamples.vo'], stream=None, tags=[])
PROPS['C14']['miri'] = True
PROPS['C19']['miri'] = True
PROPS['C02']['miri'] = True
PROPS['C11']['ext'] = dict(files=['X11'], targets=['Proofs/DrawScripts.vo'], stream=None, tags=[])
