(** * Spec.Geometry — closed-form board geometry.  This is the *definition* of
    "between", "line", "ray walking", king / knight / pawn steps that theorems refer to.
    Squares are [N] in 0..63, index = rank*8 + file. *)
From Chess Require Export Base.Bits.
Open Scope N_scope.

Definition fileZ (s:N) : Z := Z.of_N (N.land s 7).
Definition rankZ (s:N) : Z := Z.of_N (N.shiftr s 3).
Definition on_board (f r:Z) : bool := ((0 <=? f) && (f <? 8) && (0 <=? r) && (r <? 8))%Z.
Definition idx (f r:Z) : N := Z.to_N (r*8+f).
(** one step from [s] by (df,dr): [Some] target or [None] off the board *)
Definition step (s:N) (d:Z*Z) : option N :=
  let f := (fileZ s + fst d)%Z in let r := (rankZ s + snd d)%Z in
  if on_board f r then Some (idx f r) else None.
Definition step_bb (s:N) (d:Z*Z) : N := match step s d with Some t => bit t | None => 0 end.
Definition steps_bb (s:N) (ds:list (Z*Z)) : N := fold_left (fun a d => N.lor a (step_bb s d)) ds 0.

Definition rook_dirs : list (Z*Z) := [(1,0);(-1,0);(0,1);(0,-1)]%Z.
Definition bishop_dirs : list (Z*Z) := [(1,1);(-1,1);(1,-1);(-1,-1)]%Z.
Definition king_dirs : list (Z*Z) := rook_dirs ++ bishop_dirs.
Definition knight_dirs : list (Z*Z) := [(1,2);(2,1);(-1,2);(-2,1);(1,-2);(2,-1);(-1,-2);(-2,-1)]%Z.

(** Ray walk: squares from (f,r) in direction (df,dr), up to and including the first
    occupied one. *)
Fixpoint walk (fuel:nat) (occ:N) (f r df dr:Z) : N :=
  match fuel with O => 0 | S n =>
    let f' := (f+df)%Z in let r' := (r+dr)%Z in
    if on_board f' r' then
      let s := idx f' r' in
      if N.testbit occ s then bit s else N.lor (bit s) (walk n occ f' r' df dr)
    else 0 end.
Definition slide (dirs:list (Z*Z)) (s occ:N) : N :=
  fold_left (fun a d => N.lor a (walk 7 occ (fileZ s) (rankZ s) (fst d) (snd d))) dirs 0.
Definition rook_walk : N -> N -> N := slide rook_dirs.
Definition bishop_walk : N -> N -> N := slide bishop_dirs.

(** relevant-occupancy mask of a ray: its squares except the last one *)
Fixpoint rmask (fuel:nat) (f r df dr:Z) : N :=
  match fuel with O => 0 | S n =>
    let f' := (f+df)%Z in let r' := (r+dr)%Z in
    if on_board f' r' then
      if on_board (f'+df) (r'+dr) then N.lor (bit (idx f' r')) (rmask n f' r' df dr) else 0
    else 0 end.
Definition slide_mask (dirs:list (Z*Z)) (s:N) : N :=
  fold_left (fun a d => N.lor a (rmask 7 (fileZ s) (rankZ s) (fst d) (snd d))) dirs 0.

Definition aligned_d (a b:N) : bool :=
  (Z.abs (fileZ a - fileZ b) =? Z.abs (rankZ a - rankZ b))%Z && negb (a =? b).
Definition aligned_o (a b:N) : bool :=
  ((fileZ a =? fileZ b)%Z || (rankZ a =? rankZ b)%Z) && negb (a =? b).
Definition betw (x t y:Z) : bool := ((x <? t) && (t <? y) || (y <? t) && (t <? x))%Z.
(** [c] lies strictly between the aligned squares [a] and [b] *)
Definition between_b (a b c:N) : bool :=
  if aligned_d a b then aligned_d a c && aligned_d b c && betw (rankZ a) (rankZ c) (rankZ b)
  else if aligned_o a b then
         ((rankZ a =? rankZ c)%Z && (rankZ b =? rankZ c)%Z && betw (fileZ a) (fileZ c) (fileZ b))
      || ((fileZ a =? fileZ c)%Z && (fileZ b =? fileZ c)%Z && betw (rankZ a) (rankZ c) (rankZ b))
  else false.
(** [c] lies on the full line through the aligned squares [a] and [b] *)
Definition line_b (a b c:N) : bool :=
  if aligned_d a b then
    ((Z.abs (fileZ a - fileZ c) =? Z.abs (rankZ a - rankZ c))%Z
     && (Z.abs (fileZ b - fileZ c) =? Z.abs (rankZ b - rankZ c))%Z
     && ((fileZ a - fileZ c) * (rankZ b - rankZ c) =? (fileZ b - fileZ c) * (rankZ a - rankZ c))%Z)
  else if aligned_o a b then
       ((rankZ a =? rankZ c)%Z && (rankZ b =? rankZ c)%Z)
    || ((fileZ a =? fileZ c)%Z && (fileZ b =? fileZ c)%Z)
  else false.

Definition rank_bb (r:N) : N := N.shiftl 255 (8 * N.land r 7).
Definition file_bb (f:N) : N := N.shiftl 72340172838076673 (N.land f 7).
Definition adjacent_files_bb (f:N) : N :=
  N.lor (if f =? 0 then 0 else file_bb (f-1)) (if f =? 7 then 0 else file_bb (f+1)).
Definition edges_bb : N :=
  N.lor (N.lor (rank_bb 0) (rank_bb 7)) (N.lor (file_bb 0) (file_bb 7)).

(** colours: [true] = White *)
Definition fwd (c:bool) : Z := if c then 1%Z else (-1)%Z.
Definition pawn_attack_f (c:bool) (s:N) : N := steps_bb s [(1,fwd c);(-1,fwd c)]%Z.
Definition second_rank (c:bool) : Z := if c then 1%Z else 6%Z.
(** push targets ignoring blockers: one step, and two from the start rank *)
Definition pawn_push_f (c:bool) (s:N) : N :=
  if (rankZ s =? second_rank c)%Z
  then N.lor (step_bb s (0,fwd c)%Z) (step_bb s (0,2*fwd c)%Z)
  else step_bb s (0,fwd c)%Z.

(** ** Pre-evaluated tables of the closed forms (for speed; equal by computation) *)
Definition tab64 (f:N->N) : list N := map f all_sq.
Definition KING : list N := Eval vm_compute in tab64 (fun s => steps_bb s king_dirs).
Definition KNIGHT : list N := Eval vm_compute in tab64 (fun s => steps_bb s knight_dirs).
Definition RRAYS : list N := Eval vm_compute in tab64 (fun s => rook_walk s 0).
Definition BRAYS : list N := Eval vm_compute in tab64 (fun s => bishop_walk s 0).
Definition PATT_W : list N := Eval vm_compute in tab64 (pawn_attack_f true).
Definition PATT_B : list N := Eval vm_compute in tab64 (pawn_attack_f false).
Definition PPUSH_W : list N := Eval vm_compute in tab64 (pawn_push_f true).
Definition PPUSH_B : list N := Eval vm_compute in tab64 (pawn_push_f false).
Definition BETWEEN : list (list N) :=
  Eval vm_compute in map (fun a => tab64 (fun b => bb_of (between_b a b))) all_sq.
Definition LINE : list (list N) :=
  Eval vm_compute in map (fun a => tab64 (fun b => bb_of (line_b a b))) all_sq.

Definition king_moves (s:N) : N := nthN KING s 0.
Definition knight_moves (s:N) : N := nthN KNIGHT s 0.
Definition rook_rays (s:N) : N := nthN RRAYS s 0.
Definition bishop_rays (s:N) : N := nthN BRAYS s 0.
Definition pawn_attack_tab (c:bool) (s:N) : N := nthN (if c then PATT_W else PATT_B) s 0.
Definition pawn_push_tab (c:bool) (s:N) : N := nthN (if c then PPUSH_W else PPUSH_B) s 0.
Definition between (a b:N) : N := nthN (nthN BETWEEN a []) b 0.
Definition line (a b:N) : N := nthN (nthN LINE a []) b 0.
