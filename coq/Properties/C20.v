(** * C20 — a [BitBoard] (a [u64], modelled as [N] below [2^64]) behaves as the set of squares
    whose bits are set: enumeration, cardinality, minimum, the iterator, the operators,
    singletons, and colour reversal. *)
From Coq Require Import Sorted.
From Chess Require Import Base.Bits Model.BitBoard Gen.FiniteFns
  Proofs.BitsFacts Proofs.BitsIter Proofs.BitsSwap.
Open Scope N_scope.

(** ** 1. [squares_of] = the set bits, ascending, no repetition, all below 64 *)
Theorem C20_squares_of_spec : forall b s, In s (squares_of b) <-> N.testbit b s = true.
Proof. exact squares_of_spec. Qed.
Theorem C20_squares_of_sorted : forall b, StronglySorted N.lt (squares_of b).
Proof. exact squares_of_sorted. Qed.
Theorem C20_squares_of_NoDup : forall b, NoDup (squares_of b).
Proof. exact squares_of_NoDup. Qed.
Theorem C20_squares_of_lt64 : forall b, b < 2^64 -> forall s, In s (squares_of b) -> s < 64.
Proof. exact squares_of_lt64. Qed.
Theorem C20_squares_of_inj : forall a b, squares_of a = squares_of b -> a = b.
Proof. exact squares_of_inj. Qed.

(** ** 2. [popcnt] = cardinality *)
Theorem C20_popcnt_length : forall b, popcnt b = N.of_nat (length (squares_of b)).
Proof. exact popcnt_length. Qed.
Theorem C20_squares_of_length64 : forall b, b < 2^64 -> (length (squares_of b) <= 64)%nat.
Proof. exact squares_of_length64. Qed.

(** ** 3. [to_square] = least member (0 on the empty board) *)
Theorem C20_to_square_min : forall b, b <> 0 -> b < 2^64 ->
  to_square b = hd 0 (squares_of b) /\ N.testbit b (to_square b) = true /\
  forall s, N.testbit b s = true -> to_square b <= s.
Proof. exact to_square_min. Qed.
Theorem C20_to_square_0 : to_square 0 = 0.
Proof. exact to_square_0. Qed.

(** ** 4. The iterator *)
Theorem C20_bb_next_none : forall b, bb_next b = None <-> b = 0.
Proof. exact bb_next_none. Qed.
Theorem C20_bb_next_some : forall b, b <> 0 -> b < 2^64 ->
  exists s b', bb_next b = Some (s, b') /\ s = to_square b /\
    squares_of b = s :: squares_of b' /\ b' < 2^64 /\
    (forall x, N.testbit b' x = N.testbit b x && negb (x =? s)).
Proof. exact bb_next_some. Qed.
Theorem C20_bb_iter_spec : forall b, b < 2^64 -> bb_iter 64 b = squares_of b.
Proof. exact bb_iter_spec. Qed.
Theorem C20_bb_iter_fuel : forall b n, b < 2^64 -> (64 <= n)%nat -> bb_iter n b = squares_of b.
Proof. exact bb_iter_fuel. Qed.
Theorem C20_bb_iter_members : forall b s, b < 2^64 ->
  (In s (bb_iter 64 b) <-> N.testbit b s = true).
Proof. exact bb_iter_members. Qed.
Theorem C20_bb_iter_NoDup : forall b, b < 2^64 -> NoDup (bb_iter 64 b).
Proof. exact bb_iter_NoDup. Qed.
Theorem C20_bb_iter_length : forall b, b < 2^64 -> N.of_nat (length (bb_iter 64 b)) = bb_popcnt b.
Proof. exact bb_iter_length. Qed.

(** ** 5. Operators = set operations *)
Theorem C20_bb_and_spec : forall a b s, N.testbit (bb_and a b) s = N.testbit a s && N.testbit b s.
Proof. exact bb_and_spec. Qed.
Theorem C20_bb_or_spec : forall a b s, N.testbit (bb_or a b) s = N.testbit a s || N.testbit b s.
Proof. exact bb_or_spec. Qed.
Theorem C20_bb_xor_spec : forall a b s,
  N.testbit (bb_xor a b) s = xorb (N.testbit a s) (N.testbit b s).
Proof. exact bb_xor_spec. Qed.
Theorem C20_bb_not_spec : forall a s, a < 2^64 -> s < 64 ->
  N.testbit (bb_not a) s = negb (N.testbit a s).
Proof. exact bb_not_spec. Qed.
Theorem C20_bb_not_lt64 : forall a, a < 2^64 -> bb_not a < 2^64.
Proof. exact bb_not_lt64. Qed.
Theorem C20_bb_not_involutive : forall a, bb_not (bb_not a) = a.
Proof. exact bb_not_involutive. Qed.
Theorem C20_bb_and_lt64 : forall a b, a < 2^64 -> b < 2^64 -> bb_and a b < 2^64.
Proof. exact bb_and_lt64. Qed.
Theorem C20_bb_or_lt64 : forall a b, a < 2^64 -> b < 2^64 -> bb_or a b < 2^64.
Proof. exact bb_or_lt64. Qed.
Theorem C20_bb_xor_lt64 : forall a b, a < 2^64 -> b < 2^64 -> bb_xor a b < 2^64.
Proof. exact bb_xor_lt64. Qed.
Theorem C20_bb_mul_spec : forall a b, bb_mul a b = (a * b) mod 2^64.
Proof. exact bb_mul_spec. Qed.
Theorem C20_squares_of_and : forall a b s,
  In s (squares_of (bb_and a b)) <-> In s (squares_of a) /\ In s (squares_of b).
Proof. exact squares_of_and. Qed.
Theorem C20_squares_of_or : forall a b s,
  In s (squares_of (bb_or a b)) <-> In s (squares_of a) \/ In s (squares_of b).
Proof. exact squares_of_or. Qed.
Theorem C20_squares_of_xor : forall a b s,
  In s (squares_of (bb_xor a b)) <->
  (In s (squares_of a) /\ ~ In s (squares_of b)) \/ (~ In s (squares_of a) /\ In s (squares_of b)).
Proof. exact squares_of_xor. Qed.
Theorem C20_squares_of_not : forall a s, a < 2^64 ->
  In s (squares_of (bb_not a)) <-> s < 64 /\ ~ In s (squares_of a).
Proof. exact squares_of_not. Qed.

(** ** 6. Singletons *)
Theorem C20_from_to_square : forall s, s < 64 -> bb_to_square (bb_from_square s) = s.
Proof. exact from_to_square. Qed.
Theorem C20_bb_from_square_bit : forall s, s < 64 -> bb_from_square s = bit s.
Proof. exact bb_from_square_bit. Qed.
Theorem C20_bb_from_square_lt64 : forall s, bb_from_square s < 2^64.
Proof. exact bb_from_square_lt64. Qed.
Theorem C20_squares_of_from_square : forall s, s < 64 -> squares_of (bb_from_square s) = [s].
Proof. exact squares_of_from_square. Qed.
Theorem C20_to_from_square : forall b, b < 2^64 -> popcnt b = 1 ->
  bb_from_square (bb_to_square b) = b.
Proof. exact to_from_square. Qed.
Theorem C20_F_from_square : F_from_square = map bb_from_square all_sq.
Proof. exact F_from_square_model. Qed.
Theorem C20_F_to_square_single : F_to_square_single = all_sq.
Proof. exact F_to_square_single_model. Qed.

(** ** 7. Colour reversal mirrors the ranks *)
Theorem C20_reverse_colors_spec : forall b r f, b < 2^64 -> r < 8 -> f < 8 ->
  N.testbit (bb_reverse_colors b) (8*(7-r)+f) = N.testbit b (8*r+f).
Proof. exact reverse_colors_spec. Qed.
Theorem C20_reverse_colors_lt64 : forall b, bb_reverse_colors b < 2^64.
Proof. exact reverse_colors_lt64. Qed.
Theorem C20_reverse_colors_involutive : forall b, b < 2^64 ->
  bb_reverse_colors (bb_reverse_colors b) = b.
Proof. exact reverse_colors_involutive. Qed.

(** ** Pins *)
Check C20_squares_of_spec : forall b s : N, In s (squares_of b) <-> N.testbit b s = true.
Print Assumptions C20_squares_of_spec.
Check C20_squares_of_sorted : forall b : N, StronglySorted N.lt (squares_of b).
Print Assumptions C20_squares_of_sorted.
Check C20_squares_of_NoDup : forall b : N, NoDup (squares_of b).
Print Assumptions C20_squares_of_NoDup.
Check C20_squares_of_lt64 : forall b : N, b < 2^64 -> forall s : N, In s (squares_of b) -> s < 64.
Print Assumptions C20_squares_of_lt64.
Check C20_squares_of_inj : forall a b : N, squares_of a = squares_of b -> a = b.
Print Assumptions C20_squares_of_inj.
Check C20_popcnt_length : forall b : N, popcnt b = N.of_nat (length (squares_of b)).
Print Assumptions C20_popcnt_length.
Check C20_squares_of_length64 : forall b : N, b < 2^64 -> (length (squares_of b) <= 64)%nat.
Print Assumptions C20_squares_of_length64.
Check C20_to_square_min : forall b : N, b <> 0 -> b < 2^64 ->
  to_square b = hd 0 (squares_of b) /\ N.testbit b (to_square b) = true /\
  forall s : N, N.testbit b s = true -> to_square b <= s.
Print Assumptions C20_to_square_min.
Check C20_to_square_0 : to_square 0 = 0.
Print Assumptions C20_to_square_0.
Check C20_bb_next_none : forall b : N, bb_next b = None <-> b = 0.
Print Assumptions C20_bb_next_none.
Check C20_bb_next_some : forall b : N, b <> 0 -> b < 2^64 ->
  exists s b' : N, bb_next b = Some (s, b') /\ s = to_square b /\
    squares_of b = s :: squares_of b' /\ b' < 2^64 /\
    (forall x : N, N.testbit b' x = N.testbit b x && negb (x =? s)).
Print Assumptions C20_bb_next_some.
Check C20_bb_iter_spec : forall b : N, b < 2^64 -> bb_iter 64 b = squares_of b.
Print Assumptions C20_bb_iter_spec.
Check C20_bb_iter_fuel : forall (b : N) (n : nat), b < 2^64 -> (64 <= n)%nat ->
  bb_iter n b = squares_of b.
Print Assumptions C20_bb_iter_fuel.
Check C20_bb_iter_members : forall b s : N, b < 2^64 ->
  (In s (bb_iter 64 b) <-> N.testbit b s = true).
Print Assumptions C20_bb_iter_members.
Check C20_bb_iter_NoDup : forall b : N, b < 2^64 -> NoDup (bb_iter 64 b).
Print Assumptions C20_bb_iter_NoDup.
Check C20_bb_iter_length : forall b : N, b < 2^64 ->
  N.of_nat (length (bb_iter 64 b)) = bb_popcnt b.
Print Assumptions C20_bb_iter_length.
Check C20_bb_and_spec : forall a b s : N,
  N.testbit (bb_and a b) s = N.testbit a s && N.testbit b s.
Print Assumptions C20_bb_and_spec.
Check C20_bb_or_spec : forall a b s : N,
  N.testbit (bb_or a b) s = N.testbit a s || N.testbit b s.
Print Assumptions C20_bb_or_spec.
Check C20_bb_xor_spec : forall a b s : N,
  N.testbit (bb_xor a b) s = xorb (N.testbit a s) (N.testbit b s).
Print Assumptions C20_bb_xor_spec.
Check C20_bb_not_spec : forall a s : N, a < 2^64 -> s < 64 ->
  N.testbit (bb_not a) s = negb (N.testbit a s).
Print Assumptions C20_bb_not_spec.
Check C20_bb_not_lt64 : forall a : N, a < 2^64 -> bb_not a < 2^64.
Print Assumptions C20_bb_not_lt64.
Check C20_bb_not_involutive : forall a : N, bb_not (bb_not a) = a.
Print Assumptions C20_bb_not_involutive.
Check C20_bb_and_lt64 : forall a b : N, a < 2^64 -> b < 2^64 -> bb_and a b < 2^64.
Print Assumptions C20_bb_and_lt64.
Check C20_bb_or_lt64 : forall a b : N, a < 2^64 -> b < 2^64 -> bb_or a b < 2^64.
Print Assumptions C20_bb_or_lt64.
Check C20_bb_xor_lt64 : forall a b : N, a < 2^64 -> b < 2^64 -> bb_xor a b < 2^64.
Print Assumptions C20_bb_xor_lt64.
Check C20_bb_mul_spec : forall a b : N, bb_mul a b = (a * b) mod 2^64.
Print Assumptions C20_bb_mul_spec.
Check C20_squares_of_and : forall a b s : N,
  In s (squares_of (bb_and a b)) <-> In s (squares_of a) /\ In s (squares_of b).
Print Assumptions C20_squares_of_and.
Check C20_squares_of_or : forall a b s : N,
  In s (squares_of (bb_or a b)) <-> In s (squares_of a) \/ In s (squares_of b).
Print Assumptions C20_squares_of_or.
Check C20_squares_of_xor : forall a b s : N,
  In s (squares_of (bb_xor a b)) <->
  (In s (squares_of a) /\ ~ In s (squares_of b)) \/ (~ In s (squares_of a) /\ In s (squares_of b)).
Print Assumptions C20_squares_of_xor.
Check C20_squares_of_not : forall a s : N, a < 2^64 ->
  In s (squares_of (bb_not a)) <-> s < 64 /\ ~ In s (squares_of a).
Print Assumptions C20_squares_of_not.
Check C20_from_to_square : forall s : N, s < 64 -> bb_to_square (bb_from_square s) = s.
Print Assumptions C20_from_to_square.
Check C20_bb_from_square_bit : forall s : N, s < 64 -> bb_from_square s = bit s.
Print Assumptions C20_bb_from_square_bit.
Check C20_bb_from_square_lt64 : forall s : N, bb_from_square s < 2^64.
Print Assumptions C20_bb_from_square_lt64.
Check C20_squares_of_from_square : forall s : N, s < 64 -> squares_of (bb_from_square s) = [s].
Print Assumptions C20_squares_of_from_square.
Check C20_to_from_square : forall b : N, b < 2^64 -> popcnt b = 1 ->
  bb_from_square (bb_to_square b) = b.
Print Assumptions C20_to_from_square.
Check C20_F_from_square : F_from_square = map bb_from_square all_sq.
Print Assumptions C20_F_from_square.
Check C20_F_to_square_single : F_to_square_single = all_sq.
Print Assumptions C20_F_to_square_single.
Check C20_reverse_colors_spec : forall b r f : N, b < 2^64 -> r < 8 -> f < 8 ->
  N.testbit (bb_reverse_colors b) (8*(7-r)+f) = N.testbit b (8*r+f).
Print Assumptions C20_reverse_colors_spec.
Check C20_reverse_colors_lt64 : forall b : N, bb_reverse_colors b < 2^64.
Print Assumptions C20_reverse_colors_lt64.
Check C20_reverse_colors_involutive : forall b : N, b < 2^64 ->
  bb_reverse_colors (bb_reverse_colors b) = b.
Print Assumptions C20_reverse_colors_involutive.
