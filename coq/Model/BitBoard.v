(** * Model.BitBoard — transcription of src/bitboard.rs.  Every operator impl (owned /
    borrowed / assigning forms) has the same body; each family is one function here. *)
From Chess Require Export Base.Bits.
Open Scope N_scope.

Definition bb_and (a b:N) : N := N.land a b.      (* BitAnd x4, BitAndAssign x2 *)
Definition bb_or (a b:N) : N := N.lor a b.        (* BitOr x4, BitOrAssign x2 *)
Definition bb_xor (a b:N) : N := N.lxor a b.      (* BitXor x4, BitXorAssign x2 *)
Definition bb_not (a:N) : N := lnot64 a.          (* Not x2 *)
Definition bb_mul (a b:N) : N := mul64 a b.       (* Mul x4: wrapping_mul *)
Definition bb_from_square (s:N) : N := N.land (N.shiftl 1 s) M64.   (* 1u64 << sq.to_int() *)
Definition bb_to_square (b:N) : N := to_square b.
Definition bb_popcnt (b:N) : N := popcnt b.
Definition bb_reverse_colors (b:N) : N := bswap64 b.
Definition bb_to_size (b:N) (rightshift:N) : N := N.shiftr b rightshift.
(** [impl Iterator for BitBoard]::next *)
Definition bb_next (b:N) : option (N * N) :=
  if b =? 0 then None else let s := to_square b in Some (s, N.lxor b (bb_from_square s)).
(** iterate to exhaustion (fuel 64 suffices for a 64-bit word) *)
Fixpoint bb_iter (fuel:nat) (b:N) : list N :=
  match fuel with O => [] | S f =>
    match bb_next b with None => [] | Some (s,b') => s :: bb_iter f b' end end.
(** [BitBoard::set(rank, file)] = from_square(make_square(rank, file)) *)
Definition bb_set (r f:N) : N := bb_from_square (N.lxor (N.shiftl (N.land r 7) 3) (N.land f 7)).
