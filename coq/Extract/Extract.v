(** Extraction of the executable model and specification for the correspondence check.
    ExtrOcamlBasic only: bool, option, unit, list, prod, sumbool, sumor map to OCaml's own
    types and andb/orb are inlined; positive/N/Z/nat stay the inductive types. *)
From Coq Require Extraction ExtrOcamlBasic.
From Chess Require Import Proofs.GenInterface.
From Chess Require Import Spec.Rules Spec.Text Spec.Draw Model.Board Model.MoveGen Model.Fen Model.San Model.Game Model.CacheTable Model.Extra Model.Perft.
Extraction Language OCaml.
Extraction "/verif/build/ocaml/model.ml"
  (* Base *) bit lnot64 mul64 squares_of popcnt to_square trailing_zeros bswap64 pext64 pdep64 M64 all_sq
  (* Spec *) rook_walk bishop_walk slide_mask between line king_moves knight_moves rook_rays bishop_rays
             pawn_attack_tab pawn_push_tab rank_bb file_bb adjacent_files_bb edges_bb between_b line_b
             legal_moves apply status in_check checkers_of pinned_of pos_valid pass mirror_v mirror_h
             mirror_v_move mirror_h_move startpos perft men pawns attacked_by
             std_fen fen_wellformed san_spellings is_capture_move can_claim clock rep_count final_pos
  (* Model *) from_builder_raw try_from_builder from_scratch abs_board builder_of_board builder_of_pos
             is_sane get_hash null_move make_move_new make_move update_pin_info piece_on color_on
             enumerate_moves movelist_overflow movelist_cap new_legal next len set_iterator_mask remove_mask remove_move
             moves_of legal legal_in legal_quick board_status expand board_eqb king_square
             get_pawn_attacks get_pawn_quiets get_pawn_moves
             uup udown uleft uright uforward ubackward sq_up sq_down sq_left sq_right mk_sq
             square_to_castle_rights unmoved_rooks kingside_squares queenside_squares cr_add cr_remove
             square_display square_from_str builder_display builder_from_str board_from_str board_display
             move_display move_from_str from_san
             new_with_board current_position side_to_move result g_make_move g_offer_draw g_resign
             g_accept_draw g_declare_draw can_declare_draw
             ct_new ct_get ct_add ct_replace_if
             test_interfaces
             cmove_cmp file_from_str rank_from_str set_piece clear_square board_default game_new bitboard_display
             movegen_perft board_enumerate_moves board_from_fen game_from_str game_new_from_fen
             bb_setup bb_side_to_move bb_castle_rights bb_piece bb_clear_square bb_en_passant bb_get_castle_rights bb_index.
