#!/bin/sh
# MANIFEST.setup_cmd: build the whole framework from files on disk, offline.
#   harness (release, debug-assertions, +bmi2) -> translator -> full Coq build -> OCaml driver
set -e
cd /verif
export CARGO_NET_OFFLINE=true
python3 - <<'PY'
import sys, os
sys.path.insert(0, '/verif')
import importlib.machinery, importlib.util
loader = importlib.machinery.SourceFileLoader('chk', '/verif/check')
spec = importlib.util.spec_from_loader('chk', loader); chk = importlib.util.module_from_spec(spec); loader.exec_module(chk)
os.makedirs(chk.BUILD, exist_ok=True)
binp, outdir = chk.cargo_build('release')
chk.cargo_build('debug')
try:
    bmi_bin, bmi_out = chk.cargo_build('release', rustflags='-C target-feature=+bmi2', target_subdir='cargo-bmi2')
except chk.Fail as e:
    print('setup: bmi2 build failed:', e); bmi_out = None
chk.translate(binp, outdir, bmi_out)
chk.coq_makefile()
ok, out = chk.coq_make(['Extract/Extract.vo'])
if not ok: print(out[-3000:]); sys.exit(1)
chk.build_driver()
ok, out = chk.coq_make([])          # everything in _CoqProject
if not ok: print(out[-3000:]); sys.exit(1)
print('setup: done')
PY
