(** * Proofs.SpecInvBase — C05 (specification level), part 1: infrastructure.
    List updates and counting, the board as a list of cells, [in_check] depends only on the
    placement, unpacking of [pos_valid], and elementary square geometry. *)
From Coq Require Import Lia ZifyBool ZifyN ZifyNat FinFun.
From Chess Require Import Spec.Rules Proofs.TablesLib Proofs.TablesMeaning.
Open Scope N_scope.

(** ** [upd] / [nth] *)
Lemma upd_length {A} (l:list A) i x : length (upd l i x) = length l.
Proof.
  revert i. induction l as [|h t IH]; intro i; [reflexivity|].
  destruct i as [|i]; cbn [upd length]; [reflexivity|]. rewrite IH. reflexivity.
Qed.

Lemma nth_upd_same {A} (l:list A) i x d : (i < length l)%nat -> nth i (upd l i x) d = x.
Proof.
  revert i. induction l as [|h t IH]; intros i Hi; cbn [length] in Hi; [lia|].
  destruct i as [|i]; cbn [upd nth]; [reflexivity|]. apply IH. lia.
Qed.

Lemma nth_upd_other {A} (l:list A) i j x d : i <> j -> nth j (upd l i x) d = nth j l d.
Proof.
  revert i j. induction l as [|h t IH]; intros i j Hij; [reflexivity|].
  destruct i as [|i], j as [|j]; cbn [upd nth]; try reflexivity; try congruence.
  apply IH. congruence.
Qed.

Lemma upd_upd_same {A} (l:list A) i x y : upd (upd l i x) i y = upd l i y.
Proof.
  revert i. induction l as [|h t IH]; intro i; [reflexivity|].
  destruct i as [|i]; cbn [upd]; [reflexivity|]. rewrite IH. reflexivity.
Qed.

Lemma upd_comm {A} (l:list A) i j x y : i <> j -> upd (upd l i x) j y = upd (upd l j y) i x.
Proof.
  revert i j. induction l as [|h t IH]; intros i j Hij; [reflexivity|].
  destruct i as [|i], j as [|j]; cbn [upd]; try reflexivity; try congruence.
  rewrite IH by congruence. reflexivity.
Qed.

Lemma upd_nth_id {A} (l:list A) i d : upd l i (nth i l d) = l.
Proof.
  revert i. induction l as [|h t IH]; intro i; [destruct i; reflexivity|].
  destruct i as [|i]; cbn [upd nth]; [reflexivity|]. rewrite IH. reflexivity.
Qed.

(** ** counting cells of a list *)
Definition cntl {A} (q:A->bool) (l:list A) : nat := length (filter q l).
Definition b2n (b:bool) : nat := if b then 1%nat else 0%nat.

Lemma cntl_upd {A} (q:A->bool) (l:list A) i x d : (i < length l)%nat ->
  (cntl q (upd l i x) + b2n (q (nth i l d)) = cntl q l + b2n (q x))%nat.
Proof.
  unfold cntl. revert i. induction l as [|h t IH]; intros i Hi; cbn [length] in Hi; [lia|].
  destruct i as [|i]; cbn [upd nth filter].
  - destruct (q x), (q h); cbn [length b2n]; lia.
  - specialize (IH i ltac:(lia)). destruct (q h); cbn [length]; lia.
Qed.

Lemma filter_map_len {A B} (g:A->B) (f:B->bool) l :
  length (filter f (map g l)) = length (filter (fun x => f (g x)) l).
Proof.
  induction l as [|x l IH]; [reflexivity|]. cbn [map filter].
  destruct (f (g x)); cbn [length]; rewrite IH; reflexivity.
Qed.

Lemma cntl_seq {A} (q:A->bool) (l:list A) d :
  cntl q l = length (filter (fun i => q (nth i l d)) (seq 0 (length l))).
Proof.
  unfold cntl. induction l as [|h t IH]; [reflexivity|].
  cbn [length]. rewrite <- cons_seq, <- seq_shift. cbn [filter nth].
  destruct (q h); cbn [length]; rewrite filter_map_len; cbn [nth]; rewrite IH; reflexivity.
Qed.

(** ** the board as a list of cells *)
Notation cell := (option (ptype*color)) (only parsing).
Definition atl (l:list cell) (s:N) : cell := nth (N.to_nat s) l None.
Lemma at_atl p s : at_ p s = atl (placement p) s.
Proof. reflexivity. Qed.

Lemma updN_length {A} (l:list A) i x : length (updN l i x) = length l.
Proof. apply upd_length. Qed.

Lemma atl_updN_same l i x : (N.to_nat i < length l)%nat -> atl (updN l i x) i = x.
Proof. intro H. apply nth_upd_same, H. Qed.

Lemma atl_updN_other l i s x : i <> s -> atl (updN l i x) s = atl l s.
Proof. intro H. apply nth_upd_other. lia. Qed.

Lemma atl_updN l i s x : (N.to_nat i < length l)%nat ->
  atl (updN l i x) s = if i =? s then x else atl l s.
Proof.
  intro H. destruct (N.eqb_spec i s) as [->|Hne].
  - apply atl_updN_same, H.
  - apply atl_updN_other, Hne.
Qed.

Lemma cntl_updN (q:cell->bool) l i x : (N.to_nat i < length l)%nat ->
  (cntl q (updN l i x) + b2n (q (atl l i)) = cntl q l + b2n (q x))%nat.
Proof. intro H. apply cntl_upd, H. Qed.

Lemma atl_high l s : (length l <= N.to_nat s)%nat -> atl l s = None.
Proof. intro H. apply nth_overflow, H. Qed.

(** NB: never let the kernel compare [count_if f] with its unfolding by conversion (the
    literal [all_sq] makes that exponential); always rewrite with this lemma. *)
Lemma count_if_unfold f : count_if f = N.of_nat (length (filter f all_sq)).
Proof. reflexivity. Qed.

Lemma count_if_cntl (q:cell->bool) l : length l = 64%nat ->
  count_if (fun s => q (atl l s)) = N.of_nat (cntl q l).
Proof.
  intro Hl. rewrite count_if_unfold. f_equal. rewrite all_sq_seq, filter_map_len.
  rewrite (cntl_seq q l None), Hl. apply (f_equal (@length nat)). apply filter_ext.
  intro i. unfold atl. rewrite Nat2N.id. reflexivity.
Qed.

Lemma count_if_ext f g : (forall s, s < 64 -> f s = g s) -> count_if f = count_if g.
Proof.
  intro H. rewrite !count_if_unfold. f_equal. apply (f_equal (@length N)). apply filter_ext_in.
  intros s Hs. apply H, in_all_sq, Hs.
Qed.

Definition q_own (c:color) (x:cell) : bool :=
  match x with Some (_,c') => color_eqb c c' | None => false end.
Definition q_has (t:ptype) (c:color) (x:cell) : bool :=
  match x with Some (t',c') => ptype_eqb t t' && color_eqb c c' | None => false end.

Lemma own_q p c s : own p c s = q_own c (at_ p s).
Proof. unfold own, colour_at, q_own. destruct (at_ p s) as [[t c']|]; reflexivity. Qed.
Lemma has_q p s t c : has p s t c = q_has t c (at_ p s).
Proof. reflexivity. Qed.
Lemma enemy_q p c s : enemy p c s = match at_ p s with Some (_,c') => negb (color_eqb c c') | None => false end.
Proof. unfold enemy, colour_at. destruct (at_ p s) as [[t c']|]; reflexivity. Qed.
Lemma occ_q p s : occ p s = match at_ p s with Some _ => true | None => false end.
Proof. reflexivity. Qed.

Lemma kings_unfold p c : kings p c = count_if (fun s => has p s King c).
Proof. reflexivity. Qed.
Lemma pawns_unfold p c : pawns p c = count_if (fun s => has p s Pawn c).
Proof. reflexivity. Qed.
Lemma men_unfold p c : men p c = count_if (own p c).
Proof. reflexivity. Qed.
Lemma king_sq_unfold p c : king_sq p c = find (fun s => has p s King c) all_sq.
Proof. reflexivity. Qed.

Lemma men_cntl p c : length (placement p) = 64%nat -> men p c = N.of_nat (cntl (q_own c) (placement p)).
Proof.
  intro Hl. rewrite men_unfold. rewrite <- (count_if_cntl _ _ Hl). apply count_if_ext.
  intros s _. apply own_q.
Qed.
Lemma has_cntl p t c : length (placement p) = 64%nat ->
  count_if (fun s => has p s t c) = N.of_nat (cntl (q_has t c) (placement p)).
Proof. intro Hl. rewrite <- (count_if_cntl _ _ Hl). reflexivity. Qed.
Lemma pawns_cntl p c : length (placement p) = 64%nat -> pawns p c = N.of_nat (cntl (q_has Pawn c) (placement p)).
Proof. intro Hl. rewrite pawns_unfold. apply has_cntl, Hl. Qed.
Lemma kings_cntl p c : length (placement p) = 64%nat -> kings p c = N.of_nat (cntl (q_has King c) (placement p)).
Proof. intro Hl. rewrite kings_unfold. apply has_cntl, Hl. Qed.

(** ** colours and piece types *)
Lemma color_eqb_eq a b : color_eqb a b = true <-> a = b.
Proof. destruct a, b; cbn; split; congruence. Qed.
Lemma color_eqb_refl a : color_eqb a a = true.
Proof. destruct a; reflexivity. Qed.
Lemma color_eqb_opp a : color_eqb a (opp a) = false.
Proof. destruct a; reflexivity. Qed.
Lemma color_eqb_opp' a : color_eqb (opp a) a = false.
Proof. destruct a; reflexivity. Qed.
Lemma opp_opp a : opp (opp a) = a.
Proof. destruct a; reflexivity. Qed.
Lemma ptype_eqb_eq a b : ptype_eqb a b = true <-> a = b.
Proof. destruct a, b; cbn; split; congruence. Qed.
Lemma ptype_eqb_refl a : ptype_eqb a a = true.
Proof. destruct a; reflexivity. Qed.
Lemma color_cases c c0 : c = c0 \/ c = opp c0.
Proof. destruct c, c0; auto. Qed.
Lemma fwdc_opp c : fwdc (opp c) = (- fwdc c)%Z.
Proof. destruct c; reflexivity. Qed.

(** ** uniqueness from a count of one *)
Lemma filter_two_le {A} (f:A->bool) (l:list A) a b :
  NoDup l -> In a l -> In b l -> a <> b -> f a = true -> f b = true ->
  (2 <= length (filter f l))%nat.
Proof.
  intros Hnd Ha Hb Hab Hfa Hfb.
  change 2%nat with (length [a;b]). apply NoDup_incl_length.
  - constructor; [intros [H|[]]; congruence|]. constructor; [intros []|constructor].
  - intros x [<-|[<-|[]]]; apply filter_In; auto.
Qed.

Lemma all_sq_nodup : NoDup all_sq.
Proof. rewrite all_sq_seq. apply Injective_map_NoDup; [intros x y; lia|apply seq_NoDup]. Qed.

Lemma count_one_aux n : (2 <= n)%nat -> N.of_nat n = 1 -> False.
Proof. lia. Qed.
Lemma count_one_unique f a b : count_if f = 1 -> a < 64 -> b < 64 -> f a = true -> f b = true -> a = b.
Proof.
  intros Hc Ha Hb Hfa Hfb. destruct (N.eq_dec a b) as [E|E]; [exact E|exfalso].
  pose proof (filter_two_le f all_sq a b all_sq_nodup (proj2 (in_all_sq a) Ha) (proj2 (in_all_sq b) Hb) E Hfa Hfb) as H.
  rewrite count_if_unfold in Hc. exact (count_one_aux _ H Hc).
Qed.

Lemma king_sq_unique p c k : kings p c = 1 -> k < 64 -> has p k King c = true -> king_sq p c = Some k.
Proof.
  intros Hc Hk Hh. rewrite king_sq_unfold. rewrite kings_unfold in Hc.
  destruct (find (fun s => has p s King c) all_sq) as [k'|] eqn:E.
  - apply find_some in E as [Hin Hh']. apply in_all_sq in Hin. f_equal.
    exact (count_one_unique _ k' k Hc Hin Hk Hh' Hh).
  - exfalso. pose proof (find_none _ _ E k (proj2 (in_all_sq k) Hk)) as H. cbv beta in H. congruence.
Qed.

(** ** [in_check] and friends depend only on the placement *)
Section Ext.
Variables p q : pos.
Hypothesis E : placement p = placement q.
Lemma at_ext s : at_ p s = at_ q s.
Proof. unfold at_. rewrite E. reflexivity. Qed.
Lemma occ_ext s : occ p s = occ q s.
Proof. unfold occ. rewrite at_ext. reflexivity. Qed.
Lemma has_ext s t c : has p s t c = has q s t c.
Proof. unfold has. rewrite at_ext. reflexivity. Qed.
Lemma own_ext c s : own p c s = own q c s.
Proof. unfold own, colour_at. rewrite at_ext. reflexivity. Qed.
Lemma ray_ext s d n : ray p s d n = ray q s d n.
Proof.
  revert s. induction n as [|n IH]; intro s; [reflexivity|]. cbn [ray].
  destruct (step s d) as [s'|]; [|reflexivity]. rewrite occ_ext, IH. reflexivity.
Qed.
Lemma slides_ext s ds : slides p s ds = slides q s ds.
Proof.
  unfold slides. induction ds as [|d ds IH]; [reflexivity|]. cbn [flat_map].
  rewrite ray_ext, IH. reflexivity.
Qed.
Lemma attack_set_ext s : attack_set p s = attack_set q s.
Proof. unfold attack_set. rewrite at_ext, !slides_ext. reflexivity. Qed.
Lemma attackers_ext c t : attackers p c t = attackers q c t.
Proof.
  unfold attackers. apply filter_ext. intro s. unfold attacks. rewrite own_ext, attack_set_ext. reflexivity.
Qed.
Lemma attacked_by_ext c t : attacked_by p c t = attacked_by q c t.
Proof. unfold attacked_by. rewrite attackers_ext. reflexivity. Qed.
End Ext.

Lemma king_sq_ext' p q c : placement p = placement q -> king_sq p c = king_sq q c.
Proof.
  intro E. rewrite !king_sq_unfold.
  assert (H : forall l, find (fun s => has p s King c) l = find (fun s => has q s King c) l).
  { induction l as [|x l IH]; [reflexivity|]. cbn [find]. rewrite (has_ext p q E), IH. reflexivity. }
  apply H.
Qed.

Lemma in_check_ext p q c : placement p = placement q -> in_check p c = in_check q c.
Proof.
  intro E. unfold in_check. rewrite (king_sq_ext' p q c E).
  destruct (king_sq q c) as [k|]; [|reflexivity]. apply attacked_by_ext, E.
Qed.

(** ** squares *)
Lemma rankZ_rank s : rankZ s = Z.of_N (rank_of s).
Proof. reflexivity. Qed.
Lemma fileZ_file s : fileZ s = Z.of_N (file_of s).
Proof. reflexivity. Qed.
Lemma rank_of_div s : rank_of s = s / 8.
Proof. unfold rank_of. rewrite N.shiftr_div_pow2. reflexivity. Qed.
Lemma file_of_mod s : file_of s = s mod 8.
Proof. unfold file_of. change 7 with (N.ones 3). rewrite N.land_ones. reflexivity. Qed.
Lemma file_of_lt s : file_of s < 8.
Proof. rewrite file_of_mod. apply N.mod_lt. discriminate. Qed.
Lemma rank_of_lt s : s < 64 -> rank_of s < 8.
Proof. intro H. rewrite rank_of_div. apply N.div_lt_upper_bound; lia. Qed.
Lemma sq_rank_file s : s = rank_of s * 8 + file_of s.
Proof. rewrite rank_of_div, file_of_mod. rewrite N.mul_comm. apply N.div_mod. discriminate. Qed.
Lemma rank_of_mk r f : f < 8 -> rank_of (r*8+f) = r.
Proof.
  intro H. rewrite rank_of_div. rewrite N.add_comm, N.div_add by discriminate.
  rewrite N.div_small by exact H. reflexivity.
Qed.
Lemma file_of_mk r f : f < 8 -> file_of (r*8+f) = f.
Proof.
  intro H. rewrite file_of_mod. rewrite N.add_comm, N.mod_add by discriminate.
  apply N.mod_small, H.
Qed.
Lemma mk_lt r f : r < 8 -> f < 8 -> r*8+f < 64.
Proof. lia. Qed.
Lemma sq_eq_rf s t : rank_of s = rank_of t -> file_of s = file_of t -> s = t.
Proof. intros Hr Hf. rewrite (sq_rank_file s), (sq_rank_file t), Hr, Hf. reflexivity. Qed.

(** one step: the target is on the board and its coordinates are the shifted ones
    (no assumption on the origin) *)
Lemma step_some a d c : step a d = Some c ->
  c < 64 /\ fileZ c = (fileZ a + fst d)%Z /\ rankZ c = (rankZ a + snd d)%Z.
Proof.
  unfold step. destruct (on_board (fileZ a + fst d) (rankZ a + snd d)) eqn:Hob; [|discriminate].
  intro H. injection H as <-. apply on_board_iff in Hob. destruct Hob as [Hf Hr].
  apply idx_coords; assumption.
Qed.

Lemma step_some_N a df dr c : step a (df,dr) = Some c ->
  c < 64 /\ Z.of_N (file_of c) = (Z.of_N (file_of a) + df)%Z /\ Z.of_N (rank_of c) = (Z.of_N (rank_of a) + dr)%Z.
Proof. intro H. apply step_some in H. exact H. Qed.

Lemma in_steps s ds x : In x (steps s ds) <-> exists d, In d ds /\ step s d = Some x.
Proof.
  unfold steps. rewrite in_flat_map. split.
  - intros [d [Hd Hx]]. exists d. split; [exact Hd|]. destruct (step s d) as [y|]; [|destruct Hx].
    destruct Hx as [<-|[]]. reflexivity.
  - intros [d [Hd Hx]]. exists d. split; [exact Hd|]. rewrite Hx. left. reflexivity.
Qed.

Lemma in_ray_lt p s d n x : In x (ray p s d n) -> x < 64.
Proof.
  revert s. induction n as [|n IH]; intros s H; [destruct H|]. cbn [ray] in H.
  destruct (step s d) as [s'|] eqn:Es; [|destruct H]. destruct H as [<-|H].
  - apply step_some in Es. apply Es.
  - destruct (occ p s'); [destruct H|]. apply IH in H. exact H.
Qed.

Lemma in_slides_lt p s ds x : In x (slides p s ds) -> x < 64.
Proof. unfold slides. rewrite in_flat_map. intros [d [_ H]]. eapply in_ray_lt, H. Qed.

Lemma in_steps_lt s ds x : In x (steps s ds) -> x < 64.
Proof. rewrite in_steps. intros [d [_ H]]. apply step_some in H. apply H. Qed.

Lemma in_attack_set_lt p s x : In x (attack_set p s) -> x < 64.
Proof.
  unfold attack_set. destruct (at_ p s) as [[[] c]|]; try (apply in_steps_lt); try (apply in_slides_lt).
  intros [].
Qed.

(** ** attacked squares *)
Lemma mem_In x l : mem x l = true <-> In x l.
Proof.
  unfold mem. rewrite existsb_exists. split.
  - intros [y [Hy He]]. apply N.eqb_eq in He. subst y. exact Hy.
  - intro H. exists x. split; [exact H|apply N.eqb_refl].
Qed.

Lemma attacked_by_intro p c s t : s < 64 -> own p c s = true -> In t (attack_set p s) -> attacked_by p c t = true.
Proof.
  intros Hs Ho Hin. unfold attacked_by.
  assert (H : In s (attackers p c t)).
  { unfold attackers. apply filter_In. split; [apply in_all_sq, Hs|].
    rewrite Ho. unfold attacks. cbn [andb]. apply mem_In, Hin. }
  destruct (attackers p c t); [destruct H|reflexivity].
Qed.

(** ** unpacking [pos_valid] *)
Definition back_squares : list N := [0;1;2;3;4;5;6;7;56;57;58;59;60;61;62;63].
Lemma in_back_squares s : s < 64 -> (In s back_squares <-> rank_of s = 0 \/ rank_of s = 7).
Proof.
  intro Hs. rewrite rank_of_div. split.
  - intro H. cbn in H. repeat (destruct H as [<-|H]; [cbn; auto|]). destruct H.
  - intro H. assert (s < 8 \/ 56 <= s) as [H'|H'].
    { destruct H as [H|H]; [left|right].
      - destruct (N.ltb_spec s 8) as [L|L]; [exact L|]. assert (1 <= s/8) by (apply N.div_le_lower_bound; lia). lia.
      - destruct (N.leb_spec 56 s) as [L|L]; [exact L|]. assert (s/8 < 7) by (apply N.div_lt_upper_bound; lia). lia. }
    + apply in_range8 in H'. cbn in H'. cbn. tauto.
    + assert (s - 56 < 8) as H8 by lia. apply in_range8 in H8. cbn in H8.
      assert (forall k, k = s - 56 -> s = 56 + k) as Hk by (intros; lia).
      cbn. repeat (destruct H8 as [H8|H8]; [apply Hk in H8; cbn in H8; subst s; tauto|]). destruct H8.
Qed.

Record valid (p:pos) : Prop := {
  v_len : length (placement p) = 64%nat;
  v_kw : kings p White = 1;
  v_kb : kings p Black = 1;
  v_mw : men p White <= 16;
  v_mb : men p Black <= 16;
  v_pw : pawns p White <= 8;
  v_pb : pawns p Black <= 8;
  v_back : forall s c, In s back_squares -> has p s Pawn c = false;
  v_chk : in_check p (opp (turn p)) = false;
  v_wk : wk p = true -> has p 4 King White = true /\ has p 7 Rook White = true;
  v_wq : wq p = true -> has p 4 King White = true /\ has p 0 Rook White = true;
  v_bk : bk p = true -> has p 60 King Black = true /\ has p 63 Rook Black = true;
  v_bq : bq p = true -> has p 60 King Black = true /\ has p 56 Rook Black = true;
  v_ep : ep_ok p = true }.

Lemma implb_and a x y : implb a (x && y) = true <-> (a = true -> x = true /\ y = true).
Proof. destruct a, x, y; cbn; intuition congruence. Qed.

Lemma pos_valid_spec p : pos_valid p = true <-> valid p.
Proof.
  unfold pos_valid. fold back_squares.
  rewrite !andb_true_iff, !implb_and, forallb_forall, Nat.eqb_eq, !N.eqb_eq, !N.leb_le, negb_true_iff.
  split.
  - intros [[[[[[[[[[[[[H1 H2] H3] H4] H5] H6] H7] H8] H9] H10] H11] H12] H13] H14].
    constructor; try assumption.
    intros s c Hs. specialize (H8 s Hs). apply negb_true_iff, orb_false_iff in H8.
    destruct c; tauto.
  - intros [H1 H2 H3 H4 H5 H6 H7 H8 H9 H10 H11 H12 H13 H14].
    repeat split; try assumption; try (apply H10; assumption); try (apply H11; assumption);
      try (apply H12; assumption); try (apply H13; assumption).
    intros s Hs. apply negb_true_iff, orb_false_iff. split; apply H8, Hs.
Qed.

Lemma valid_kings p c : valid p -> kings p c = 1.
Proof. intros V. destruct c; [apply (v_kw p V)|apply (v_kb p V)]. Qed.
Lemma valid_men p c : valid p -> men p c <= 16.
Proof. intros V. destruct c; [apply (v_mw p V)|apply (v_mb p V)]. Qed.
Lemma valid_pawns p c : valid p -> pawns p c <= 8.
Proof. intros V. destruct c; [apply (v_pw p V)|apply (v_pb p V)]. Qed.

Example startpos_valid : valid startpos.
Proof. apply pos_valid_spec. vm_compute. reflexivity. Qed.
