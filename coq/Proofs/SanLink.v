(** * Proofs.SanLink — C12 round trip against the specification's spellings, reduced to four
    explicit link facts about a board ([san_link]): the generator enumerates the specification's
    legal moves, [piece_on] agrees with the abstract placement, legal moves stay on the board
    with a sensible promotion, and a specification castling move is the model's king move. *)
From Coq Require Import Lia ZifyBool ZifyN ZifyNat Permutation.
From Chess Require Import Model.San Spec.Text Proofs.SanFilter Proofs.SanScan Proofs.SanShape
  Proofs.SanSpecShape Proofs.SanRoundtrip.
Open Scope N_scope.

Definition san_link (b:board) : Prop :=
  let p := abs_board b in
  Permutation (moves_of b) (map of_spec_move (legal_moves p))
  /\ (forall s, s < 64 -> piece_on b s = piece_at p s)
  /\ (forall m, In m (legal_moves p) -> src m < 64 /\ dst m < 64 /\ promo_ok (promo m))
  /\ (forall m, In m (legal_moves p) -> is_castle p m = true ->
        of_spec_move m = castle_km b (file_of (dst m) =? 6)).

(** ** square arithmetic: the model's and the specification's coordinates agree on 0..63 *)
Lemma in_all_sq64 s : s < 64 -> In s all_sq.
Proof.
  intro H. change all_sq with (map N.of_nat (seq 0 64)). apply in_map_iff.
  exists (N.to_nat s). split; [apply N2Nat.id|]. apply in_seq. lia.
Qed.
Lemma sq_coords_sweep :
  forallb (fun s => (sq_rank s =? rank_of s) && (mk_sq (rank_of s) (file_of s) =? s) && (rank_of s <? 8)) all_sq = true.
Proof. vm_compute. reflexivity. Qed.
Lemma sq_coords s : s < 64 -> sq_rank s = rank_of s /\ mk_sq (rank_of s) (file_of s) = s /\ rank_of s < 8.
Proof.
  intro H. pose proof sq_coords_sweep as S. rewrite forallb_forall in S. specialize (S s (in_all_sq64 s H)).
  apply andb_prop in S as [S S3]. apply andb_prop in S as [S1 S2].
  apply N.eqb_eq in S1, S2. apply N.ltb_lt in S3. tauto.
Qed.
Lemma file_of_lt8 s : file_of s < 8.
Proof.
  unfold file_of. change 7 with (N.ones 3). rewrite N.land_ones. apply N.mod_lt. discriminate.
Qed.
Lemma sq_file_file_of s : sq_file s = file_of s. Proof. reflexivity. Qed.

(** ** list facts *)
Lemma Permutation_filter' {A} (f:A->bool) l l' : Permutation l l' -> Permutation (filter f l) (filter f l').
Proof.
  induction 1 as [|x l l' H IH|x y l|l l' l'' H1 IH1 H2 IH2]; cbn [filter].
  - constructor.
  - destruct (f x); [constructor|]; exact IH.
  - destruct (f x), (f y); try apply Permutation_refl. apply perm_swap.
  - eapply perm_trans; eassumption.
Qed.
Lemma filter_map_comm {A B} (g:A->B) (f:B->bool) l : filter f (map g l) = map g (filter (fun x => f (g x)) l).
Proof.
  induction l as [|x l IH]; [reflexivity|]. cbn [map filter]. destruct (f (g x)); cbn [map]; rewrite IH; reflexivity.
Qed.
Lemma ptype_eqb_sym a c : ptype_eqb a c = ptype_eqb c a.
Proof. destruct a, c; reflexivity. Qed.
Lemma move_eqb_eq x m : move_eqb x m = true -> x = m.
Proof.
  unfold move_eqb. intro H. apply andb_prop in H as [H H3]. apply andb_prop in H as [H1 H2].
  apply N.eqb_eq in H1, H2. change (promo_eqb (promo x) (promo m) = true) in H3. apply promo_eqb_eq in H3.
  destruct x, m; cbn in *; subst; reflexivity.
Qed.

(** ** a specification fact: a (pseudo-)legal move starts from a man of the side to move *)
Lemma pawn_to_src c s d m : In m (pawn_to c s d) -> src m = s.
Proof.
  unfold pawn_to, promos. destruct (rank_of d =? last_rank c).
  - intro H. apply in_map_iff in H as [x [<- _]]. reflexivity.
  - intros [<-|[]]. reflexivity.
Qed.
Lemma pawn_moves_src p c s m : In m (pawn_moves p c s) -> src m = s.
Proof.
  unfold pawn_moves. intro H. apply in_app_or in H as [H|H].
  - destruct (step s (0, fwdc c)%Z) as [d1|]; [|destruct H].
    destruct (occ p d1); [destruct H|]. apply in_app_or in H as [H|H]; [eapply pawn_to_src, H|].
    destruct (rank_of s =? start_rank c); [|destruct H].
    destruct (step d1 (0, fwdc c)%Z) as [d2|]; [|destruct H].
    destruct (occ p d2); [destruct H|]. destruct H as [<-|[]]. reflexivity.
  - apply in_flat_map in H as [d [_ H]]. destruct (enemy p c d); [eapply pawn_to_src, H|].
    destruct (ep p) as [e|]; [|destruct H]. destruct (e =? d); [|destruct H]. destruct H as [<-|[]]. reflexivity.
Qed.
Lemma castle_moves_src p c m : In m (castle_moves p c) -> src m = home_rank c * 8 + 4.
Proof.
  unfold castle_moves. destruct (has p _ King c && _); [|intros []]. intro H. apply in_app_or in H as [H|H].
  - destruct (can_k p c && _ && _ && _ && _ && _); [|destruct H]. destruct H as [<-|[]]. reflexivity.
  - destruct (can_q p c && _ && _ && _ && _ && _ && _); [|destruct H]. destruct H as [<-|[]]. reflexivity.
Qed.
Lemma map_mv_src s l m : In m (map (mv s) l) -> src m = s.
Proof. intro H. apply in_map_iff in H as [d [<- _]]. reflexivity. Qed.
Lemma pseudo_from_src p s m : In m (pseudo_from p s) -> src m = s /\ exists t, at_ p s = Some (t, turn p).
Proof.
  unfold pseudo_from. destruct (at_ p s) as [[t c']|]; [|intros []].
  destruct (color_eqb (turn p) c') eqn:Ec; [|intros []].
  assert (c' = turn p) by (destruct (turn p), c'; (reflexivity || discriminate)). subst c'.
  intro H. split; [|exists t; reflexivity].
  destruct t; try (eapply map_mv_src, H).
  - eapply pawn_moves_src, H.
  - apply in_app_or in H as [H|H]; [eapply map_mv_src, H|].
    destruct (s =? home_rank (turn p) * 8 + 4) eqn:Es; [|destruct H].
    apply N.eqb_eq in Es. rewrite Es. eapply castle_moves_src, H.
Qed.
Lemma legal_src_turn p m : In m (legal_moves p) -> exists t, at_ p (src m) = Some (t, turn p).
Proof.
  unfold legal_moves, pseudo. intro H. apply filter_In in H as [H _].
  apply in_flat_map in H as [s [_ H]]. apply pseudo_from_src in H as [-> H]. exact H.
Qed.

Section Link.
Variable b : board.
Notation p := (abs_board b).
Hypothesis L : san_link b.

Let Lperm := proj1 L.
Let Lpiece := proj1 (proj2 L).
Let Ldom := proj1 (proj2 (proj2 L)).
Let Lcastle := proj2 (proj2 (proj2 L)).

(** the model's "fits the text" test on a generated move = the specification's on the same move *)
Lemma san_pred_spec t sf sr m' x : In x (legal_moves p) ->
  san_pred b t sr sf (dst m') (promo m') (of_spec_move x) =
  (match piece_at p (src x) with Some t' => ptype_eqb t t' | None => false end)
  && (dst x =? dst m') && promo_opt_eqb (promo x) (promo m')
  && (match sf with Some f => file_of (src x) =? f | None => true end)
  && (match sr with Some r => rank_of (src x) =? r | None => true end).
Proof.
  intro Hx. destruct (Ldom x Hx) as [Hs [Hd _]].
  unfold san_pred, of_spec_move. cbn [msrc mdst mpromo].
  rewrite (Lpiece _ Hs), sq_file_file_of, (proj1 (sq_coords _ Hs)).
  change (promo_opt_eqb (promo x) (promo m')) with (promo_eqb (promo x) (promo m')).
  unfold piece_opt_eqb. destruct (piece_at p (src x)) as [t'|].
  - rewrite (ptype_eqb_sym t' t).
    destruct (ptype_eqb t t'), (dst x =? dst m'), (promo_eqb (promo x) (promo m')), sf, sr; cbn [andb];
      repeat match goal with |- context[?a =? ?c] => destruct (a =? c) end; reflexivity.
  - reflexivity.
Qed.

(** the moves the loop considers are the specification's [san_matches] *)
Theorem matches_link t sf sr m' :
  Permutation (filter (san_pred b t sr sf (dst m') (promo m')) (moves_of b))
              (map of_spec_move (san_matches p t sf sr m')).
Proof.
  eapply perm_trans; [apply Permutation_filter', Lperm|].
  rewrite filter_map_comm. unfold san_matches.
  rewrite (filter_ext_in _ _ _ (fun x Hx => san_pred_spec t sf sr m' x Hx)). apply Permutation_refl.
Qed.

Lemma dest_occ_spec m : dst m < 64 -> dest_occ b (of_spec_move m) = occ p (dst m).
Proof.
  intro Hd. unfold dest_occ, of_spec_move. cbn [mdst]. rewrite (Lpiece _ Hd).
  unfold piece_at, occ. destruct (at_ p (dst m)) as [[t c]|]; reflexivity.
Qed.

(** a spelled capture marker always passes the parser's capture tests: the specification writes
    'x' exactly on captures (occupied destination or en passant), and the parser's notion of a
    capture coincides with it on legal moves *)
Lemma is_cap_spec m t : In m (legal_moves p) -> piece_at p (src m) = Some t ->
  is_cap b t (of_spec_move m) = is_capture_move p m.
Proof.
  intros Hm Ht. destruct (Ldom m Hm) as [Hs [Hd _]].
  unfold is_cap, is_capture_move. rewrite (dest_occ_spec m Hd).
  destruct (occ p (dst m)) eqn:Eo; cbn [orb]; [reflexivity|].
  unfold pawn_diag, is_ep. rewrite Eo.
  change (sq_file (msrc (of_spec_move m))) with (file_of (src m)).
  change (sq_file (mdst (of_spec_move m))) with (file_of (dst m)).
  destruct (legal_src_turn _ _ Hm) as [t' Ha]. unfold piece_at in Ht. unfold has. rewrite Ha in *.
  injection Ht as ->.
  assert (Ec : color_eqb (turn p) (turn p) = true) by (destruct (turn p); reflexivity). rewrite Ec.
  rewrite (ptype_eqb_sym Pawn t). cbn [negb]. rewrite !andb_true_r. reflexivity.
Qed.
Lemma cap_ok_spec m t e : In m (legal_moves p) -> piece_at p (src m) = Some t ->
  cap_ok b t (is_capture_move p m) e (of_spec_move m) = true.
Proof.
  intros Hm Ht. rewrite cap_ok_char, (is_cap_spec m t Hm Ht).
  destruct (is_capture_move p m); [apply orb_true_r|reflexivity].
Qed.

Lemma legal_link m : In m (legal_moves p) -> In (of_spec_move m) (moves_of b).
Proof.
  intro H. apply (Permutation_in _ (Permutation_sym Lperm)), in_map, H.
Qed.

(** ** Round trip: every specification spelling of every legal move parses to that move *)
Theorem san_roundtrip_from_link m s :
  In m (legal_moves p) -> In s (san_spellings p m) -> from_san b s = Ok (of_spec_move m).
Proof.
  intros Hm Hs. destruct (Ldom m Hm) as [Hsrc [Hdst Hpr]].
  destruct (is_castle p m) eqn:Ec.
  - destruct (san_spellings_castle p m s Ec Hs) as [mk [Hmk ->]].
    pose proof (Lcastle m Hm Ec) as Ek. pose proof (legal_link m Hm) as Hin.
    assert (Hk : piece_opt_eqb (piece_on b (msrc (of_spec_move m))) King = true).
    { cbn [of_spec_move msrc]. rewrite (Lpiece _ Hsrc).
      unfold is_castle in Ec. apply andb_prop in Ec as [Eh _]. unfold has in Eh. unfold piece_at.
      destruct (at_ p (src m)) as [[t' c']|]; [|discriminate]. apply andb_prop in Eh as [Eh _].
      cbn [piece_opt_eqb]. rewrite ptype_eqb_sym. exact Eh. }
    rewrite Ek in *. apply existsb_cmove_In in Hin.
    destruct (file_of (dst m) =? 6).
    + rewrite from_san_castle_kingside by exact Hmk. unfold legal, legal_in. rewrite Hk, Hin. reflexivity.
    + rewrite from_san_castle_queenside by exact Hmk. unfold legal, legal_in. rewrite Hk, Hin. reflexivity.
  - destruct (san_spellings_shape p m s Ec Hs) as (t & sf & sr & mk & e & Ht & -> & Hmk & Hsf & Hsr & He & x & Hx & Hxm).
    apply move_eqb_eq in Hxm. subst x.
    destruct (sq_coords _ Hsrc) as [_ [_ Hrs]]. destruct (sq_coords _ Hdst) as [_ [Hmk_sq Hrd]].
    apply san_roundtrip_model.
    + destruct Hsf as [->| ->]; cbn; [exact I|apply file_of_lt8].
    + destruct Hsr as [->| ->]; cbn; [exact I|exact Hrs].
    + apply file_of_lt8.
    + exact Hrd.
    + exact Hpr.
    + exact Hmk.
    + rewrite Hmk_sq. apply Permutation_length_1_inv.
      pose proof (matches_link t sf sr m) as Hp. rewrite Hx in Hp. apply Permutation_sym. exact Hp.
    + apply cap_ok_spec; assumption.
Qed.

(** ** Rejection, in the specification's terms: a text of the documented shape whose fields
    fit no legal move, or (piece letter, or pawn text with its source file) two or more legal
    moves, is refused *)
Section Reject.
Variables (t:ptype) (sf sr:option N) (cap:bool) (f r:N) (pr:option ptype) (mk:str) (e:bool).
Hypotheses (Hsf : opt_lt8 sf) (Hsr : opt_lt8 sr) (Hf : f < 8) (Hr : r < 8) (Hpr : promo_ok pr) (Hmk : In mk marks).
Notation target := {| src := 0; dst := mk_sq r f; promo := pr |}.

Theorem san_reject_none_from_link :
  san_matches p t sf sr target = [] -> from_san b (san_text t sf sr cap f r pr mk e) = Err.
Proof.
  intro H. pose proof (matches_link t sf sr target) as Hp. rewrite H in Hp. cbn [map dst promo] in Hp.
  apply Permutation_sym, Permutation_nil in Hp.
  rewrite from_san_shape_exact by assumption. rewrite Hp. reflexivity.
Qed.

Theorem san_reject_ambiguous_from_link x y rest :
  t <> Pawn \/ sf <> None -> san_matches p t sf sr target = x :: y :: rest ->
  from_san b (san_text t sf sr cap f r pr mk e) = Err.
Proof.
  intros Ht H. pose proof (matches_link t sf sr target) as Hp. rewrite H in Hp. cbn [map dst promo] in Hp.
  apply Permutation_length in Hp. cbn [length map] in Hp.
  destruct (filter (san_pred b t sr sf (mk_sq r f) pr) (moves_of b)) as [|x' [|y' rest']] eqn:E;
    cbn [length] in Hp; try discriminate.
  eapply san_reject_model_ambiguous; eassumption.
Qed.

(** the capture marker is checked against the specification's notion of capture *)
Theorem san_reject_marker_from_link x :
  san_matches p t sf sr target = [x] -> cap <> is_capture_move p x ->
  from_san b (san_text t sf sr cap f r pr mk false) = Err.
Proof.
  intros H Hc. pose proof (matches_link t sf sr target) as Hp. rewrite H in Hp. cbn [map dst promo] in Hp.
  apply Permutation_sym, Permutation_length_1_inv in Hp.
  assert (Hx : In x (san_matches p t sf sr target)) by (rewrite H; left; reflexivity).
  unfold san_matches in Hx. apply filter_In in Hx as [Hl Hq].
  repeat (apply andb_prop in Hq as [Hq _]).
  destruct (piece_at p (src x)) as [t'|] eqn:Ht; [|discriminate]. apply ptype_eqb_eq in Hq. subst t'.
  apply (san_reject_model_marker b t sf sr cap f r pr mk (of_spec_move x)); try assumption.
  rewrite (is_cap_spec x t Hl Ht). exact Hc.
Qed.
Theorem san_accept_marker_from_link x :
  san_matches p t sf sr target = [x] -> cap = is_capture_move p x ->
  from_san b (san_text t sf sr cap f r pr mk false) = Ok (of_spec_move x).
Proof.
  intros H Hc. pose proof (matches_link t sf sr target) as Hp. rewrite H in Hp. cbn [map dst promo] in Hp.
  apply Permutation_sym, Permutation_length_1_inv in Hp.
  assert (Hx : In x (san_matches p t sf sr target)) by (rewrite H; left; reflexivity).
  unfold san_matches in Hx. apply filter_In in Hx as [Hl Hq].
  repeat (apply andb_prop in Hq as [Hq _]).
  destruct (piece_at p (src x)) as [t'|] eqn:Ht; [|discriminate]. apply ptype_eqb_eq in Hq. subst t'.
  apply (san_roundtrip_model_marker b t sf sr cap f r pr mk (of_spec_move x)); try assumption.
  rewrite (is_cap_spec x t Hl Ht). exact Hc.
Qed.
End Reject.
End Link.

(** the full statement over all valid positions, and the single obligation it reduces to *)
Definition san_roundtrip_full : Prop :=
  forall p, pos_valid p = true ->
  forall m s, In m (legal_moves p) -> In s (san_spellings p m) ->
  from_san (from_scratch p) s = Ok (of_spec_move m).
Definition san_link_obligation : Prop :=
  forall p, pos_valid p = true -> abs_board (from_scratch p) = p /\ san_link (from_scratch p).
Theorem san_roundtrip_full_from_obligation : san_link_obligation -> san_roundtrip_full.
Proof.
  intros H p Hv m s Hm Hs. destruct (H p Hv) as [Ha Hl].
  apply (san_roundtrip_from_link _ Hl); rewrite Ha; assumption.
Qed.
