(** * Proofs.GenAsmMain — assembly of the move-generator refinement theorem T_gen
    (property C01: legal move generation is exact — no missing, extra or duplicate moves)
    from the layer statements of [Proofs/GenInterface.v], taken as explicit premises. *)
From Coq Require Import NArith List Bool Lia ZifyBool ZifyN ZifyNat Permutation Sorted.
From Chess Require Import Base.Bits Spec.Geometry Spec.Rules Model.Board Model.MoveGen.
From Chess Require Import Proofs.BitsFacts Proofs.TablesLib Proofs.TablesMeaning Proofs.FiniteFnsEq
  Proofs.IterBits Proofs.IterCore Proofs.AbsBoard Proofs.NullMove Proofs.CanonAttack
  Proofs.CanonCheckers Proofs.CanonPinned Proofs.CanonNullMove Proofs.CanonScratch
  Proofs.GenWF Proofs.GenWFBoard Proofs.GenInterface
  Proofs.GenAsmLists Proofs.GenAsmGeom Proofs.GenAsmCode Proofs.GenAsmSpec.
Import ListNotations.
Open Scope N_scope.
#[local] Arguments N.add : simpl never.
#[local] Arguments N.sub : simpl never.
#[local] Arguments N.mul : simpl never.
#[local] Arguments N.shiftl : simpl never.
#[local] Arguments N.shiftr : simpl never.
#[local] Arguments N.land : simpl never.
#[local] Arguments N.lor : simpl never.
#[local] Arguments N.lxor : simpl never.
#[local] Arguments N.testbit : simpl never.
#[local] Arguments N.eqb : simpl never.
#[local] Arguments N.ltb : simpl never.
#[local] Arguments N.leb : simpl never.
#[local] Arguments N.pow : simpl never.

(** ** 0. The additional premise: en passant and double check
    The six layer statements do not say what happens to an en-passant capture when the side
    to move is in double check (the code then generates king moves only, the specification
    keeps the capture iff it is safe).  In a valid position this cannot happen: *)
Definition stmt_ep_one_checker : Prop := forall b,
  b = from_scratch (abs_board b) -> pos_valid (abs_board b) = true -> epsq b <> None ->
  popcnt (checkers b) <= 1.
(** the weaker form that is actually enough *)
Definition stmt_ep_double : Prop := forall b e s,
  b = from_scratch (abs_board b) -> pos_valid (abs_board b) = true -> epsq b = Some e -> s < 64 ->
  has (abs_board b) s Pawn (stm b) = true ->
  N.testbit (N.land (get_rank (sq_rank e)) (get_adjacent_files (sq_file e))) s = true ->
  2 <= popcnt (checkers b) ->
  safe (abs_board b) (mv s (uforward (stm b) e)) = false.
Theorem ep_one_checker_double : stmt_ep_one_checker -> stmt_ep_double.
Proof.
  intros H b e s Hcan Hv He _ _ _ H2. exfalso.
  assert (Hne : epsq b <> None) by (rewrite He; discriminate).
  pose proof (H b Hcan Hv Hne). lia.
Qed.

(** ** 1. Small specification-side facts *)
Lemma has_at q s t c : has q s t c = true -> at_ q s = Some (t,c).
Proof.
  unfold has. destruct (at_ q s) as [[t' c']|]; [|discriminate]. intro H.
  apply andb_prop in H. destruct H as [H1 H2].
  destruct t, t'; try discriminate H1; destruct c, c'; try discriminate H2; reflexivity.
Qed.

Lemma at_has q s t c : at_ q s = Some (t,c) -> has q s t c = true.
Proof. unfold has. intros ->. destruct t, c; reflexivity. Qed.

Lemma at_has_other q s t c t' : at_ q s = Some (t,c) -> t' <> t -> has q s t' c = false.
Proof. unfold has. intros -> Hne. destruct t, t'; try reflexivity; contradiction Hne; reflexivity. Qed.

Lemma color_eqb_eq c c' : color_eqb c c' = true -> c = c'.
Proof. destruct c, c'; try discriminate; reflexivity. Qed.
Lemma color_eqb_refl c : color_eqb c c = true.
Proof. destruct c; reflexivity. Qed.

Lemma legal_in q m : In m (legal_moves q) <-> In m (pseudo q) /\ safe q m = true.
Proof. unfold legal_moves, safe. rewrite filter_In. reflexivity. Qed.

Lemma ep_valid q t : pos_valid q = true -> ep q = Some t ->
  t < 64 /\ rank_of t = sixth_rank (turn q) /\ occ q t = false.
Proof.
  intros H He. unfold pos_valid in H. apply andb_prop in H. destruct H as [_ H].
  unfold ep_ok in H. rewrite He in H. cbv zeta in H.
  apply andb_prop in H. destruct H as [H H3]. apply andb_prop in H. destruct H as [H1 H2].
  apply N.ltb_lt in H1. apply N.eqb_eq in H2. split; [exact H1|]. split; [exact H2|].
  destruct (step t (0, - fwdc (turn q))%Z); [|discriminate H3].
  destruct (step t (0, fwdc (turn q))%Z); [|discriminate H3].
  destruct (occ q t); [|reflexivity]. exfalso.
  cbn [negb] in H3. rewrite ?andb_false_r in H3. cbn [andb] in H3. discriminate H3.
Qed.

Lemma castle_nonempty_king q c m : In m (castle_moves q c) -> has q (home_rank c * 8 + 4) King c = true.
Proof.
  unfold castle_moves. cbv zeta.
  destruct (has q (home_rank c * 8 + 4) King c); [reflexivity|]. cbn [andb]. intros [].
Qed.

Lemma spec_castle_in q ks :
  spec_castle q ks = true <->
  In (mv (home_rank (turn q) * 8 + 4) (if ks then home_rank (turn q) * 8 + 6 else home_rank (turn q) * 8 + 2))
     (castle_moves q (turn q)).
Proof.
  unfold spec_castle. cbv zeta. rewrite existsb_exists. split.
  - intros [m [Hm Hq]]. apply andb_prop in Hq. destruct Hq as [H1 H2].
    apply N.eqb_eq in H1. apply N.eqb_eq in H2.
    destruct (castle_moves_in _ _ _ Hm) as [->| ->]; cbn [src dst mv] in *.
    + destruct ks; [exact Hm|]. exfalso. destruct (turn q); cbn [home_rank] in H2; lia.
    + destruct ks; [|exact Hm]. exfalso. destruct (turn q); cbn [home_rank] in H2; lia.
  - intro Hm. eexists. split; [exact Hm|]. cbn [src dst mv]. rewrite !N.eqb_refl. reflexivity.
Qed.

Lemma of_spec_move_inj m m' : of_spec_move m = of_spec_move m' -> m = m'.
Proof.
  destruct m as [s d pr], m' as [s' d' pr']. unfold of_spec_move. cbn [src dst promo].
  intro H. injection H as -> -> ->. reflexivity.
Qed.

Lemma popcnt_zero x : popcnt x = 0 -> x = 0.
Proof.
  intro H. apply IterBits.squares_of_nil. rewrite IterBits.popcnt_length in H.
  destruct (squares_of x); [reflexivity|]. cbn [length] in H. lia.
Qed.

(** ** 2. A canonical board of a valid position *)
Section Asm.
Variable b : board.
Hypothesis Hcan : b = from_scratch (abs_board b).
Hypothesis Hv : pos_valid (abs_board b) = true.
Notation p := (abs_board b).
Notation me := (stm b).
Notation k := (kq b).

Lemma Hrt : abs_board (from_scratch p) = p.
Proof. rewrite <- Hcan. reflexivity. Qed.
Lemma HC : Consistent b.
Proof. exact (canonical_consistent b Hcan). Qed.
Lemma HWF : BoardWF b.
Proof. rewrite Hcan. apply from_scratch_wf. Qed.
Lemma Hk1 : popcnt (N.land (pK b) (color_combined b me)) = 1.
Proof.
  destruct (scratch_facts p Hv Hrt) as [_ [_ [_ [H _]]]]. rewrite <- Hcan in H. exact H.
Qed.
Lemma k_lt : k < 64.
Proof. apply king_square_lt64. Qed.
Lemma king_bit : N.land (pK b) (color_combined b me) = bit k.
Proof. exact (proj2 (one_king_bit b me HC Hk1)). Qed.
Lemma king_sq_k : king_sq p me = Some k.
Proof. exact (king_square_spec b me HC Hk1). Qed.
Lemma kingsq_k : kingsq p = k.
Proof. unfold kingsq. change (turn p) with me. rewrite king_sq_k. reflexivity. Qed.
Lemma Hkk : N.testbit (pK b) k = true.
Proof. exact (proj1 (king_square_has b me HC Hk1)). Qed.
Lemma own_bounded_b : bounded (own_bb b).
Proof. exact (own_bounded' b HC). Qed.

Lemma has_own s t : s < 64 ->
  has p s t me = N.testbit (pieces b t) s && N.testbit (own_bb b) s.
Proof. intro Hs. exact (has_abs b s t me HC Hs). Qed.

Lemma has_king_iff s : s < 64 -> (has p s King me = true <-> s = k).
Proof.
  intro Hs. rewrite (has_own s King Hs). cbn [pieces]. unfold own_bb.
  rewrite <- N.land_spec, king_bit, TablesLib.testbit_bit, N.eqb_eq. split; intro H; symmetry; exact H.
Qed.

Lemma at_king : at_ p k = Some (King, me).
Proof. apply has_at. apply (has_king_iff k k_lt). reflexivity. Qed.

(** the check cache is the list of checkers *)
Lemma checkers_bounded : bounded (checkers b).
Proof. apply lt_bounded. pose proof HWF as H. unfold BoardWF in H. tauto. Qed.

Lemma Hch s : s < 64 -> (N.testbit (checkers b) s = true <-> In s (checkers_of p)).
Proof.
  intro Hs. pose proof (from_scratch_checkers p Hv Hrt s Hs) as H. rewrite <- Hcan in H. exact H.
Qed.

Lemma checkers_of_sorted : StronglySorted N.lt (checkers_of p).
Proof.
  unfold checkers_of. destruct (king_sq p (turn p)); [|constructor].
  unfold attackers. apply CanonNullMove.filter_sorted, all_sq_sorted.
Qed.

Lemma checkers_of_lt64 s : In s (checkers_of p) -> s < 64.
Proof.
  unfold checkers_of. destruct (king_sq p (turn p)); [|intros []].
  unfold attackers. intro H. apply filter_In in H. apply TablesLib.in_all_sq. exact (proj1 H).
Qed.

Lemma sq_checkers : squares_of (checkers b) = checkers_of p.
Proof.
  apply ssorted_ext; [apply IterBits.squares_of_sorted|exact checkers_of_sorted|].
  intro x. rewrite IterBits.squares_of_spec. split.
  - intro H. apply Hch; [exact (checkers_bounded x H)|exact H].
  - intro H. apply Hch; [exact (checkers_of_lt64 x H)|exact H].
Qed.

(** the pin cache, on the mover's men, is the list of pinned men *)
Lemma mem_pinned s : s < 64 -> N.testbit (own_bb b) s = true ->
  mem s (pinned_of p) = N.testbit (pinned b) s.
Proof.
  intros Hs Ho. pose proof (from_scratch_pinned p Hv Hrt s Hs) as H. rewrite <- Hcan in H.
  change (turn p) with me in H. fold (own_bb b) in H. rewrite N.land_spec, Ho, andb_true_r in H.
  destruct (N.testbit (pinned b) s).
  - apply mem_in, H. reflexivity.
  - destruct (mem s (pinned_of p)) eqn:E; [|reflexivity]. apply mem_in, H in E. discriminate E.
Qed.

(** ** 3. The code's filter is the right-hand side of the safety statement *)
Definition code_guard (s d:N) : bool :=
  if checkers b =? 0 then guard_ic b false s d
  else if popcnt (checkers b) =? 1 then guard_ic b true s d else false.

Lemma code_guard_rhs m : src m < 64 -> dst m < 64 -> N.testbit (own_bb b) (src m) = true ->
  safe_nonking_rhs p m = code_guard (src m) (dst m).
Proof.
  intros Hs Hd Ho. unfold safe_nonking_rhs, code_guard. cbv zeta.
  rewrite kingsq_k, (mem_pinned _ Hs Ho). pose proof sq_checkers as Hsq.
  destruct (checkers_of p) as [|c [|c2 r]].
  - apply IterBits.squares_of_nil in Hsq. rewrite Hsq. cbn [N.eqb]. reflexivity.
  - assert (Hb : checkers b = bit c).
    { apply squares_of_inj. rewrite Hsq, BitsFacts.squares_of_bit. reflexivity. }
    assert (Hc : c < 64).
    { apply checkers_bounded. rewrite Hb, TablesLib.testbit_bit. apply N.eqb_refl. }
    rewrite Hb. destruct (N.eqb_spec (bit c) 0) as [Hz|_]; [exfalso; exact (bit_nonzero c Hz)|].
    rewrite popcnt_bit. cbn [N.eqb]. change (1 =? 1) with true. cbv iota.
    unfold guard_ic, guard_gen, chk_word. rewrite Hb, (AbsBoard.to_square_bit c Hc).
    rewrite N.lxor_spec, TablesLib.testbit_bit. f_equal.
    destruct (N.eqb_spec (dst m) c) as [->|Hne].
    + rewrite (proj1 (between_ends c k Hc k_lt)), N.eqb_refl. reflexivity.
    + destruct (N.eqb_spec c (dst m)) as [->|_]; [contradiction Hne; reflexivity|].
      rewrite xorb_false_r, orb_false_r. reflexivity.
  - assert (Hne : checkers b <> 0).
    { intro Hz. rewrite Hz in Hsq. discriminate Hsq. }
    destruct (N.eqb_spec (checkers b) 0) as [Hz|_]; [contradiction|].
    assert (Hp : popcnt (checkers b) <> 1).
    { rewrite IterBits.popcnt_length, Hsq. cbn [length]. lia. }
    destruct (N.eqb_spec (popcnt (checkers b)) 1) as [Hq|_]; [contradiction|]. reflexivity.
Qed.

(** ** 4. The layer statements *)
Hypothesis Lsafe : stmt_safe_nonking.
Hypothesis Lking : stmt_king_step.
Hypothesis Lcastle : stmt_castle.
Hypothesis Lep : stmt_ep.
Hypothesis Lpseudo : stmt_pseudo.
Hypothesis Lpromo : stmt_promo.
Hypothesis Lep1 : stmt_ep_one_checker.

Lemma epsq_lt64 e : epsq b = Some e -> e < 64.
Proof.
  intro He. pose proof HWF as H. unfold BoardWF in H. rewrite He in H.
  destruct H as [_ [_ [_ [_ [_ [_ [_ [_ [_ [_ [_ H]]]]]]]]]]]. exact H.
Qed.

Lemma ep_abs e : epsq b = Some e -> ep p = Some (uforward me e).
Proof. intro He. unfold abs_board. cbn [ep]. rewrite He. reflexivity. Qed.

Lemma code_dests_bounded t s d : N.testbit (code_dests b t s) d = true -> d < 64.
Proof.
  intro H. destruct t; unfold code_dests in H; cbv zeta in H; fold (mask_of b) in H;
    exact (pseudo_bounded b HC _ d H).
Qed.

Lemma is_ep_ext q m m' : src m = src m' -> dst m = dst m' -> is_ep q m = is_ep q m'.
Proof. unfold is_ep. intros -> ->. reflexivity. Qed.

Lemma pseudo_from_pawn s : at_ p s = Some (Pawn, me) -> pseudo_from p s = pawn_moves p me s.
Proof.
  intro Hat. unfold pseudo_from. cbv zeta. rewrite Hat. change (turn p) with me.
  rewrite color_eqb_refl. reflexivity.
Qed.

(** *** 4.1 Men other than the king, not en passant *)
Definition ordC (t:ptype) (c:cmove) : Prop :=
  N.testbit (pieces b t) (msrc c) = true /\ N.testbit (own_bb b) (msrc c) = true /\
  N.testbit (code_dests b t (msrc c)) (mdst c) = true /\ code_guard (msrc c) (mdst c) = true /\
  promo_ok (flag b t (msrc c)) (mpromo c).
(** a legal move of the specification made by a man of type [t]; [isep] says whether it is
    an en-passant capture *)
Definition specS (t:ptype) (isep:bool) (c:cmove) : Prop :=
  exists m, of_spec_move m = c /\ In m (legal_moves p) /\ has p (src m) t me = true /\ is_ep p m = isep.

Lemma ordC_to_spec t c : t <> King -> ordC t c -> specS t false c.
Proof.
  intros Ht H. destruct c as [s d pr]. unfold ordC in H. cbn [msrc mdst mpromo] in H.
  destruct H as [H1 [H2 [H3 [H4 H5]]]].
  assert (Hs : s < 64) by exact (own_bounded_b s H2).
  assert (Hd : d < 64) by exact (code_dests_bounded t s d H3).
  assert (Hhas : has p s t me = true) by (rewrite (has_own s t Hs), H1, H2; reflexivity).
  pose proof (has_at _ _ _ _ Hhas) as Hat.
  apply (Lpseudo b s t d Hcan Hv Hs Hd Hhas) in H3.
  unfold spec_dests in H3. apply in_map_iff in H3. destruct H3 as [m' [Hdm' Hm']].
  apply filter_In in Hm'. destruct Hm' as [Hm' Hf]. apply andb_prop in Hf. destruct Hf as [Hnep _].
  pose proof (pseudo_from_src _ _ _ Hm') as Hsm'.
  assert (Hpm' : In m' (pseudo p)) by (apply pseudo_in; rewrite Hsm'; split; assumption).
  pose proof (Lpromo b m' Hcan Hv Hpm') as Hpr. rewrite Hsm', Hat in Hpr.
  destruct m' as [s' d' pr']. cbn [src dst promo] in *. subst s' d'.
  assert (Hin : In {| src := s; dst := d; promo := pr |} (pseudo_from p s)).
  { destruct t.
    - rewrite (pseudo_from_pawn s Hat) in *. unfold flag in H5.
      destruct (sq_rank s =? seventh_rk me).
      + destruct pr' as [x|]; [|discriminate Hpr].
        destruct H5 as [y [Hy ->]].
        pose proof (pawn_moves_promo p me s _ Hm') as Hall. cbn [promo dst] in Hall.
        destruct Hall as [_ Hall]. exact (Hall y Hy).
      + destruct pr' as [x|]; [discriminate Hpr|]. cbn [promo_ok] in H5. subst pr. exact Hm'.
    - cbn [flag promo_ok] in H5. subst pr pr'. exact Hm'.
    - cbn [flag promo_ok] in H5. subst pr pr'. exact Hm'.
    - cbn [flag promo_ok] in H5. subst pr pr'. exact Hm'.
    - cbn [flag promo_ok] in H5. subst pr pr'. exact Hm'.
    - contradiction Ht. reflexivity. }
  set (m := {| src := s; dst := d; promo := pr |}) in *.
  assert (Hinp : In m (pseudo p)) by (apply pseudo_in; split; [exact Hs|exact Hin]).
  assert (Hepm : is_ep p m = false).
  { rewrite (is_ep_ext p m {| src := s; dst := d; promo := pr' |}); [|reflexivity|reflexivity].
    destruct (is_ep p {| src := s; dst := d; promo := pr' |}); [discriminate Hnep|reflexivity]. }
  assert (Hnk : piece_at_is p (src m) King = false).
  { unfold piece_at_is. change (src m) with s. rewrite Hat.
    destruct t; try reflexivity. contradiction Ht. reflexivity. }
  pose proof (Lsafe p m Hv Hinp Hnk Hepm) as Hsafe.
  rewrite (code_guard_rhs m Hs Hd H2) in Hsafe. change (src m) with s in Hsafe. change (dst m) with d in Hsafe.
  exists m. split; [reflexivity|]. split; [|split; [exact Hhas|exact Hepm]].
  apply legal_in. split; [exact Hinp|]. rewrite Hsafe. exact H4.
Qed.

Lemma spec_to_ordC t c : t <> King -> specS t false c -> ordC t c.
Proof.
  intros Ht [m [Hc [Hleg [Hhas Hnep]]]]. subst c. unfold ordC, of_spec_move. cbn [msrc mdst mpromo].
  apply legal_in in Hleg. destruct Hleg as [Hinp Hsafe].
  destruct (proj1 (pseudo_in p m) Hinp) as [Hs Hin].
  pose proof (pseudo_from_dst_lt64 p _ m Hs Hin) as Hd.
  pose proof (has_at _ _ _ _ Hhas) as Hat.
  pose proof Hhas as Hhas'. rewrite (has_own _ t Hs) in Hhas'. apply andb_prop in Hhas'.
  destruct Hhas' as [H1 H2].
  split; [exact H1|]. split; [exact H2|].
  assert (Hncs : is_castle p m = false).
  { unfold is_castle. change (turn p) with me. rewrite (at_has_other p (src m) t me King Hat); [reflexivity|].
    intro E. apply Ht. symmetry. exact E. }
  split.
  { apply (Lpseudo b (src m) t (dst m) Hcan Hv Hs Hd Hhas). unfold spec_dests. apply in_map.
    apply filter_In. split; [exact Hin|]. rewrite Hnep, Hncs. reflexivity. }
  assert (Hnk : piece_at_is p (src m) King = false).
  { unfold piece_at_is. rewrite Hat. destruct t; try reflexivity. contradiction Ht. reflexivity. }
  pose proof (Lsafe p m Hv Hinp Hnk Hnep) as Hs2. rewrite (code_guard_rhs m Hs Hd H2) in Hs2.
  split; [rewrite <- Hs2; exact Hsafe|].
  pose proof (Lpromo b m Hcan Hv Hinp) as Hpr. rewrite Hat in Hpr.
  destruct t; cbn [flag promo_ok]; try exact Hpr.
  - unfold promo_ok. rewrite <- Hpr. rewrite (pseudo_from_pawn _ Hat) in Hin.
    pose proof (pawn_moves_promo p me (src m) m Hin) as Hall.
    destruct (promo m) as [x|]; [|reflexivity].
    exists x. split; [exact (proj1 Hall)|reflexivity].
Qed.

(** *** 4.2 En passant *)
Lemma epc_to_spec c : epc b c -> specS Pawn true c.
Proof.
  intros [e [He [Hw [HP [Ho [Hl [Hd Hpr]]]]]]]. destruct c as [s d pr]. cbn [msrc mdst mpromo] in *.
  subst d pr.
  assert (Hs : s < 64) by exact (own_bounded_b s Ho).
  pose proof (epsq_lt64 e He) as He64. pose proof (ep_abs e He) as Hepp.
  destruct (ep_valid p _ Hv Hepp) as [Hdl [Hrk Hocc]]. change (turn p) with me in Hrk.
  destruct (ep_geom me e s He64 Hs Hrk) as [Hg1 Hg2].
  pose proof (proj1 Hg1 Hw) as Hstep. destruct (Hg2 Hw) as [Hfile _].
  assert (Hhas : has p s Pawn me = true) by (rewrite (has_own s Pawn Hs); cbn [pieces]; rewrite HP, Ho; reflexivity).
  pose proof (has_at _ _ _ _ Hhas) as Hat.
  assert (Hen : enemy p me (uforward me e) = false).
  { destruct (enemy p me (uforward me e)) eqn:E; [|reflexivity]. apply enemy_occ in E.
    rewrite Hocc in E. discriminate E. }
  pose proof (pawn_moves_ep_in p me s _ Hepp Hstep Hen) as Hin.
  assert (Hinp : In (mv s (uforward me e)) (pseudo p)).
  { apply pseudo_in. cbn [src mv]. split; [exact Hs|]. rewrite (pseudo_from_pawn s Hat). exact Hin. }
  pose proof (Lep b e s Hcan Hv He Hs Hhas Hw) as HL. rewrite Hl in HL. injection HL as HL.
  exists (mv s (uforward me e)). split; [reflexivity|]. split; [|split; [exact Hhas|]].
  - apply legal_in. split; [exact Hinp|]. symmetry. exact HL.
  - unfold is_ep. cbn [src dst mv]. change (turn p) with me. rewrite Hhas, Hocc.
    destruct (N.eqb_spec (file_of s) (file_of (uforward me e))) as [E|_]; [contradiction|reflexivity].
Qed.

Lemma spec_to_epc c : specS Pawn true c -> epc b c.
Proof.
  intros [m [Hc [Hleg [Hhas Hep]]]]. subst c. apply legal_in in Hleg. destruct Hleg as [Hinp Hsafe].
  destruct (proj1 (pseudo_in p m) Hinp) as [Hs Hin].
  pose proof (has_at _ _ _ _ Hhas) as Hat. rewrite (pseudo_from_pawn _ Hat) in Hin.
  unfold is_ep in Hep. change (turn p) with me in Hep. rewrite Hhas in Hep. cbn [andb] in Hep.
  apply andb_prop in Hep. destruct Hep as [Hf Ho].
  assert (Hfile : file_of (dst m) <> file_of (src m)).
  { intro E. rewrite E, N.eqb_refl in Hf. discriminate Hf. }
  assert (Hocc : occ p (dst m) = false) by (destruct (occ p (dst m)); [discriminate Ho|reflexivity]).
  destruct (pawn_moves_ep_only p me (src m) m Hs Hin Hfile Hocc) as [Hm [Hepp Hstep]].
  destruct (epsq b) as [e|] eqn:He; [|unfold abs_board in Hepp; cbn [ep] in Hepp; rewrite He in Hepp; discriminate Hepp].
  pose proof (ep_abs e He) as Hepp'. rewrite Hepp in Hepp'. injection Hepp' as Hdst.
  pose proof (epsq_lt64 e He) as He64.
  destruct (ep_valid p _ Hv Hepp) as [_ [Hrk _]]. change (turn p) with me in Hrk. rewrite Hdst in Hrk.
  destruct (ep_geom me e (src m) He64 Hs Hrk) as [Hg1 _].
  rewrite Hdst in Hstep. pose proof (proj2 Hg1 Hstep) as Hw.
  pose proof Hhas as Hhas'. rewrite (has_own _ Pawn Hs) in Hhas'. apply andb_prop in Hhas'.
  destruct Hhas' as [HP Hown]. cbn [pieces] in HP.
  pose proof (Lep b e (src m) Hcan Hv He Hs Hhas Hw) as HL.
  exists e. unfold of_spec_move. cbn [msrc mdst mpromo].
  split; [exact He|]. split; [exact Hw|]. split; [exact HP|]. split; [exact Hown|].
  split; [|split; [exact Hdst|rewrite Hm; reflexivity]].
  rewrite HL. f_equal. rewrite <- Hdst, <- Hm. exact Hsafe.
Qed.

(** *** 4.3 The king *)
Definition kingS (c:cmove) : Prop :=
  exists m, of_spec_move m = c /\ In m (legal_moves p) /\ has p (src m) King me = true.

Lemma pseudo_from_king :
  pseudo_from p k = map (mv k) (filter (fun d => negb (own p me d)) (steps k king_dirs))
                    ++ (if k =? home_rank me * 8 + 4 then castle_moves p me else []).
Proof.
  unfold pseudo_from, attack_set. cbv zeta. rewrite at_king. change (turn p) with me.
  rewrite color_eqb_refl. reflexivity.
Qed.

Lemma castle_in_k m : In m (castle_moves p me) -> k = home_rank me * 8 + 4.
Proof.
  intro H. apply castle_nonempty_king in H. destruct (castle_geom me) as [He _]. cbv zeta in He.
  symmetry. apply (has_king_iff _ He). exact H.
Qed.

Lemma ck_eq ic : negb ic = (checkers b =? 0) -> negb ic && castle_k_cond b = code_castle_k b.
Proof.
  intros ->. unfold castle_k_cond, code_castle_k, kq. cbv zeta. rewrite !andb_assoc. reflexivity.
Qed.
Lemma cq_eq ic : negb ic = (checkers b =? 0) -> negb ic && castle_q_cond b = code_castle_q b.
Proof.
  intros ->. unfold castle_q_cond, code_castle_q, kq. cbv zeta. rewrite !andb_assoc. reflexivity.
Qed.

Lemma mask_own d : d < 64 -> N.testbit (mask_of b) d = negb (own p me d).
Proof.
  intro Hd. unfold mask_of. rewrite (FiniteFnsEq.testbit_lnot64 _ _ Hd), (own_abs b me d HC Hd). reflexivity.
Qed.

Lemma kingc_to_spec ic c : negb ic = (checkers b =? 0) -> kingc b ic c -> kingS c.
Proof.
  intros Hic [Hs [Hw Hpr]]. destruct c as [s d pr]. cbn [msrc mdst mpromo] in *. subst s pr.
  rewrite (king_word_testbit b ic d) in Hw.
  destruct (Lcastle b Hcan Hv) as [Hck [Hcq Hcsafe]].
  rewrite <- (ck_eq ic Hic) in Hck. rewrite <- (cq_eq ic Hic) in Hcq.
  destruct (castle_geom me) as [_ [Hrr [Hll _]]]. cbv zeta in Hrr, Hll.
  assert (Hkhas : has p k King me = true) by (apply (has_king_iff k k_lt); reflexivity).
  assert (Hcastle : forall d', In (mv (home_rank me * 8 + 4) d') (castle_moves p me) ->
                               k = home_rank me * 8 + 4 -> kingS {| msrc := k; mdst := d'; mpromo := None |}).
  { intros d' Hm Hke. rewrite <- Hke in Hm. exists (mv k d'). split; [reflexivity|]. split; [|exact Hkhas].
    apply legal_in. split; [|exact (Hcsafe _ Hm)].
    apply pseudo_in. cbn [src mv]. split; [exact k_lt|]. rewrite pseudo_from_king. apply in_or_app. right.
    destruct (N.eqb_spec k (home_rank me * 8 + 4)) as [_|Hne]; [exact Hm|contradiction]. }
  destruct (negb ic && castle_k_cond b && (uright (uright k) =? d)) eqn:Bk.
  { apply andb_prop in Bk. destruct Bk as [Bk Bd]. apply N.eqb_eq in Bd.
    rewrite Bk in Hck. symmetry in Hck. apply spec_castle_in in Hck. change (turn p) with me in Hck.
    pose proof (castle_in_k _ Hck) as Hke. rewrite <- Hke in Hrr. rewrite <- Bd, Hrr.
    exact (Hcastle _ Hck Hke). }
  destruct (negb ic && castle_q_cond b && (uleft (uleft k) =? d)) eqn:Bq.
  { apply andb_prop in Bq. destruct Bq as [Bq Bd]. apply N.eqb_eq in Bd.
    rewrite Bq in Hcq. symmetry in Hcq. apply spec_castle_in in Hcq. change (turn p) with me in Hcq.
    pose proof (castle_in_k _ Hcq) as Hke. rewrite <- Hke in Hll. rewrite <- Bd, Hll.
    exact (Hcastle _ Hcq Hke). }
  rewrite !xorb_false_r in Hw. apply andb_prop in Hw. destruct Hw as [Hw Hlk].
  apply andb_prop in Hw. destruct Hw as [Hkm Hmask].
  assert (Hd : d < 64) by exact (mask_bounded b HC d Hmask).
  rewrite (mask_own d Hd) in Hmask.
  assert (Hown : own p me d = false) by (destruct (own p me d); [discriminate Hmask|reflexivity]).
  exists (mv k d). split; [reflexivity|]. split; [|exact Hkhas].
  apply legal_in. split.
  - apply pseudo_in. cbn [src mv]. split; [exact k_lt|]. rewrite pseudo_from_king. apply in_or_app. left.
    apply in_map. apply filter_In. split; [|exact Hmask]. apply (king_steps k d k_lt Hd). exact Hkm.
  - pose proof (Lking b d Hcan Hv Hd) as HK. rewrite kingsq_k in HK. rewrite (HK Hkm Hown). exact Hlk.
Qed.

Lemma spec_to_kingc ic c : negb ic = (checkers b =? 0) -> kingS c -> kingc b ic c.
Proof.
  intros Hic [m [Hc [Hleg Hhas]]]. subst c. apply legal_in in Hleg. destruct Hleg as [Hinp Hsafe].
  destruct (proj1 (pseudo_in p m) Hinp) as [Hs Hin].
  pose proof (pseudo_from_dst_lt64 p _ m Hs Hin) as Hd.
  apply (has_king_iff _ Hs) in Hhas. destruct m as [s d pr]. cbn [src dst promo] in *. subst s.
  rewrite pseudo_from_king in Hin.
  unfold kingc, of_spec_move. cbn [msrc mdst mpromo src dst promo].
  destruct (Lcastle b Hcan Hv) as [Hck [Hcq Hcsafe]].
  rewrite <- (ck_eq ic Hic) in Hck. rewrite <- (cq_eq ic Hic) in Hcq.
  rewrite (king_word_testbit b ic d).
  destruct (castle_geom me) as [He64 [Hrr [Hll [_ [_ [Hn6 [Hn2 Hne]]]]]]]. cbv zeta in He64, Hrr, Hll, Hn6, Hn2.
  apply in_app_or in Hin. destruct Hin as [Hin|Hin].
  - apply in_map_iff in Hin. destruct Hin as [d' [Hm Hdin]]. unfold mv in Hm. injection Hm as <- <-.
    apply filter_In in Hdin. destruct Hdin as [Hst Hown].
    split; [reflexivity|]. split; [|reflexivity].
    assert (Hkm : N.testbit (king_moves k) d' = true) by (apply (king_steps k d' k_lt Hd); exact Hst).
    assert (Hown' : own p me d' = false) by (destruct (own p me d'); [discriminate Hown|reflexivity]).
    pose proof (Lking b d' Hcan Hv Hd) as HK. rewrite kingsq_k in HK. specialize (HK Hkm Hown').
    change (safe p (mv k d') = true) in Hsafe. rewrite HK in Hsafe.
    rewrite Hkm, (mask_own d' Hd), Hown, Hsafe. cbn [andb].
    assert (Bk : negb ic && castle_k_cond b && (uright (uright k) =? d') = false).
    { destruct (negb ic && castle_k_cond b) eqn:E; [|reflexivity]. cbn [andb].
      symmetry in Hck. apply spec_castle_in in Hck. change (turn p) with me in Hck.
      pose proof (castle_in_k _ Hck) as Hke. rewrite <- Hke in Hrr, Hn6.
      destruct (N.eqb_spec (uright (uright k)) d') as [E'|_]; [|reflexivity].
      rewrite <- E', Hrr, Hn6 in Hkm. discriminate Hkm. }
    assert (Bq : negb ic && castle_q_cond b && (uleft (uleft k) =? d') = false).
    { destruct (negb ic && castle_q_cond b) eqn:E; [|reflexivity]. cbn [andb].
      symmetry in Hcq. apply spec_castle_in in Hcq. change (turn p) with me in Hcq.
      pose proof (castle_in_k _ Hcq) as Hke. rewrite <- Hke in Hll, Hn2.
      destruct (N.eqb_spec (uleft (uleft k)) d') as [E'|_]; [|reflexivity].
      rewrite <- E', Hll, Hn2 in Hkm. discriminate Hkm. }
    rewrite Bk, Bq. reflexivity.
  - destruct (N.eqb_spec k (home_rank me * 8 + 4)) as [Hke|_]; [|destruct Hin].
    rewrite <- Hke in Hrr, Hll, Hn6, Hn2.
    destruct (castle_moves_in _ _ _ Hin) as [Hm|Hm]; unfold mv in Hm; injection Hm as _ -> ->.
    + split; [reflexivity|]. split; [|reflexivity].
      assert (Hsc : spec_castle p true = true) by (apply spec_castle_in; change (turn p) with me; rewrite <- Hke; exact Hin).
      rewrite Hsc in Hck. rewrite Hck, Hn6, Hrr, N.eqb_refl, Hll. cbn [andb xorb].
      destruct (N.eqb_spec (home_rank me * 8 + 2) (home_rank me * 8 + 6)) as [E|_];
        [exfalso; apply Hne; symmetry; exact E|].
      rewrite andb_false_r. reflexivity.
    + split; [reflexivity|]. split; [|reflexivity].
      assert (Hsc : spec_castle p false = true) by (apply spec_castle_in; change (turn p) with me; rewrite <- Hke; exact Hin).
      rewrite Hsc in Hcq. rewrite Hcq, Hn2, Hll, N.eqb_refl, Hrr. cbn [andb xorb].
      destruct (N.eqb_spec (home_rank me * 8 + 6) (home_rank me * 8 + 2)) as [E|_];
        [exfalso; apply Hne; exact E|].
      rewrite andb_false_r. reflexivity.
Qed.

(** *** 4.4 The members of the specification's list, by kind *)
Lemma spec_members c :
  In c (map of_spec_move (legal_moves p)) <->
  (exists t, t <> King /\ specS t false c) \/ specS Pawn true c \/ kingS c.
Proof.
  rewrite in_map_iff. split.
  - intros [m [Hc Hleg]]. pose proof Hleg as Hleg'. apply legal_in in Hleg'. destruct Hleg' as [Hinp _].
    destruct (proj1 (pseudo_in p m) Hinp) as [Hs Hin].
    destruct (pseudo_from_cases p _ m Hin) as (t & c' & Hat & _).
    assert (Hc' : c' = me).
    { unfold pseudo_from in Hin. cbv zeta in Hin. rewrite Hat in Hin.
      destruct (color_eqb (turn p) c') eqn:E; [|destruct Hin]. apply color_eqb_eq in E. symmetry. exact E. }
    subst c'. pose proof (at_has _ _ _ _ Hat) as Hhas.
    destruct t.
    + destruct (is_ep p m) eqn:Eep.
      * right. left. exists m. repeat split; assumption.
      * left. exists Pawn. split; [discriminate|]. exists m. repeat split; assumption.
    + left. exists Knight. split; [discriminate|]. exists m. repeat split; try assumption.
      unfold is_ep. change (turn p) with me. rewrite (at_has_other _ _ _ _ Pawn Hat); [reflexivity|discriminate].
    + left. exists Bishop. split; [discriminate|]. exists m. repeat split; try assumption.
      unfold is_ep. change (turn p) with me. rewrite (at_has_other _ _ _ _ Pawn Hat); [reflexivity|discriminate].
    + left. exists Rook. split; [discriminate|]. exists m. repeat split; try assumption.
      unfold is_ep. change (turn p) with me. rewrite (at_has_other _ _ _ _ Pawn Hat); [reflexivity|discriminate].
    + left. exists Queen. split; [discriminate|]. exists m. repeat split; try assumption.
      unfold is_ep. change (turn p) with me. rewrite (at_has_other _ _ _ _ Pawn Hat); [reflexivity|discriminate].
    + right. right. exists m. repeat split; assumption.
  - intros [[t [_ [m [Hc [Hl _]]]]]|[[m [Hc [Hl _]]]|[m [Hc [Hl _]]]]]; exists m; split; assumption.
Qed.

(** *** 4.5 The three modes of [enumerate_moves] *)
Lemma code_guard_mode0 s d : checkers b = 0 -> code_guard s d = guard_ic b false s d.
Proof. intro H. unfold code_guard. rewrite H. reflexivity. Qed.
Lemma code_guard_mode1 s d : checkers b <> 0 -> popcnt (checkers b) = 1 -> code_guard s d = guard_ic b true s d.
Proof.
  intros H0 H1. unfold code_guard. destruct (N.eqb_spec (checkers b) 0) as [E|_]; [contradiction|].
  rewrite H1. reflexivity.
Qed.
Lemma code_guard_mode2 s d : checkers b <> 0 -> popcnt (checkers b) <> 1 -> code_guard s d = false.
Proof.
  intros H0 H1. unfold code_guard. destruct (N.eqb_spec (checkers b) 0) as [E|_]; [contradiction|].
  destruct (N.eqb_spec (popcnt (checkers b)) 1) as [E|_]; [contradiction|]. reflexivity.
Qed.

Lemma ordc_ordC ic t c : (forall s d, code_guard s d = guard_ic b ic s d) -> (ordc b ic t c <-> ordC t c).
Proof. intro H. unfold ordc, ordC. rewrite H. reflexivity. Qed.

Theorem gen_members c :
  In c (expand (enumerate_moves b)) <-> In c (map of_spec_move (legal_moves p)).
Proof.
  rewrite spec_members, enumerate_gen.
  destruct (N.eqb_spec (checkers b) 0) as [Hz|Hnz].
  - assert (Hic : negb false = (checkers b =? 0)) by (rewrite Hz; reflexivity).
    rewrite (gen_in b HC false c). split.
    + intros [[t [Ht H]]|[H|H]].
      * left. exists t. split; [exact Ht|]. apply (ordC_to_spec t c Ht).
        apply (ordc_ordC false t c (fun s d => code_guard_mode0 s d Hz)). exact H.
      * right. left. exact (epc_to_spec c H).
      * right. right. exact (kingc_to_spec false c Hic H).
    + intros [[t [Ht H]]|[H|H]].
      * left. exists t. split; [exact Ht|].
        apply (ordc_ordC false t c (fun s d => code_guard_mode0 s d Hz)). exact (spec_to_ordC t c Ht H).
      * right. left. exact (spec_to_epc c H).
      * right. right. exact (spec_to_kingc false c Hic H).
  - assert (Hic : negb true = (checkers b =? 0)).
    { destruct (N.eqb_spec (checkers b) 0) as [E|_]; [contradiction|reflexivity]. }
    destruct (N.eqb_spec (popcnt (checkers b)) 1) as [H1|Hn1].
    + rewrite (gen_in b HC true c). split.
      * intros [[t [Ht H]]|[H|H]].
        -- left. exists t. split; [exact Ht|]. apply (ordC_to_spec t c Ht).
           apply (ordc_ordC true t c (fun s d => code_guard_mode1 s d Hnz H1)). exact H.
        -- right. left. exact (epc_to_spec c H).
        -- right. right. exact (kingc_to_spec true c Hic H).
      * intros [[t [Ht H]]|[H|H]].
        -- left. exists t. split; [exact Ht|].
           apply (ordc_ordC true t c (fun s d => code_guard_mode1 s d Hnz H1)). exact (spec_to_ordC t c Ht H).
        -- right. left. exact (spec_to_epc c H).
        -- right. right. exact (spec_to_kingc true c Hic H).
    + rewrite (king_only_in b c). split.
      * intro H. right. right. exact (kingc_to_spec true c Hic H).
      * intros [[t [Ht H]]|[H|H]].
        -- exfalso. apply (spec_to_ordC t c Ht) in H. destruct H as [_ [_ [_ [H _]]]].
           rewrite (code_guard_mode2 _ _ Hnz Hn1) in H. discriminate H.
        -- exfalso. apply spec_to_epc in H. destruct H as [e [He _]].
           assert (Hne : epsq b <> None) by (rewrite He; discriminate).
           pose proof (Lep1 b Hcan Hv Hne) as Hle.
           assert (popcnt (checkers b) <> 0) by (intro E; apply Hnz, popcnt_zero, E). lia.
        -- exact (spec_to_kingc true c Hic H).
Qed.

(** *** 4.6 No duplicates *)
Lemma ep_target : ep_target_ok b.
Proof.
  intros e He. pose proof (epsq_lt64 e He) as He64. pose proof (ep_abs e He) as Hepp.
  destruct (ep_valid p _ Hv Hepp) as [Hdl [Hrk Hocc]]. change (turn p) with me in Hrk. split.
  - rewrite <- (occ_abs b _ HC Hdl). exact Hocc.
  - intros s Hs Hw. exact (proj2 (proj2 (ep_geom me e s He64 Hs Hrk) Hw)).
Qed.

Theorem gen_code_NoDup : NoDup (expand (enumerate_moves b)).
Proof.
  rewrite enumerate_gen.
  destruct (checkers b =? 0); [exact (gen_NoDup b HC Hkk false ep_target)|].
  destruct (popcnt (checkers b) =? 1); [exact (gen_NoDup b HC Hkk true ep_target)|].
  apply king_only_NoDup.
Qed.

Theorem gen_spec_NoDup : NoDup (map of_spec_move (legal_moves p)).
Proof.
  apply NoDup_map_inj; [exact of_spec_move_inj|]. unfold legal_moves. apply NoDup_filter', pseudo_NoDup.
Qed.
End Asm.

(** ** 5. The theorem *)
Theorem gen_from_layers :
  stmt_safe_nonking -> stmt_king_step -> stmt_castle -> stmt_ep -> stmt_pseudo -> stmt_promo ->
  stmt_ep_one_checker -> stmt_gen.
Proof.
  intros L1 L2 L3 L4 L5 L6 L7 b Hcan Hv. split.
  - apply perm_of_members.
    + exact (gen_code_NoDup b Hcan Hv).
    + exact (gen_spec_NoDup b).
    + intro c. exact (gen_members b Hcan Hv L1 L2 L3 L4 L5 L6 L7 c).
  - exact (gen_code_NoDup b Hcan Hv).
Qed.

Check gen_from_layers :
  stmt_safe_nonking -> stmt_king_step -> stmt_castle -> stmt_ep -> stmt_pseudo -> stmt_promo ->
  stmt_ep_one_checker ->
  forall b, b = from_scratch (abs_board b) -> pos_valid (abs_board b) = true ->
    Permutation (expand (enumerate_moves b)) (map of_spec_move (legal_moves (abs_board b)))
    /\ NoDup (expand (enumerate_moves b)).

(** ** 6. Corollaries for the iterator and the legality query
    ([moves_of] = a full iteration of [MoveGen::new_legal]; [legal] = [Board::legal]) *)
From Chess Require Import Proofs.StatusModel.

Theorem gen_moves_of : stmt_gen -> forall b,
  b = from_scratch (abs_board b) -> pos_valid (abs_board b) = true -> is_sane b = true ->
  Permutation (moves_of b) (map of_spec_move (legal_moves (abs_board b))) /\ NoDup (moves_of b).
Proof.
  intros G b Hcan Hv Hsane.
  assert (HWF : BoardWF b) by (rewrite Hcan; apply from_scratch_wf).
  rewrite (moves_of_expand b HWF Hsane). exact (G b Hcan Hv).
Qed.

Theorem gen_legal_query : stmt_gen -> forall b,
  b = from_scratch (abs_board b) -> pos_valid (abs_board b) = true -> is_sane b = true ->
  forall m, legal b m = true <-> In m (map of_spec_move (legal_moves (abs_board b))).
Proof.
  intros G b Hcan Hv Hsane m.
  assert (HWF : BoardWF b) by (rewrite Hcan; apply from_scratch_wf).
  rewrite (legal_iff b m HWF Hsane). destruct (G b Hcan Hv) as [HP _]. split.
  - apply Permutation_in. exact HP.
  - apply Permutation_in. apply Permutation_sym. exact HP.
Qed.

(** with the round-trip statement of the interface file, sanity is not a premise *)
Lemma roundtrip_sane : stmt_roundtrip -> forall b,
  b = from_scratch (abs_board b) -> pos_valid (abs_board b) = true -> is_sane b = true.
Proof. intros R b Hcan Hv. rewrite Hcan. exact (proj2 (R (abs_board b) Hv)). Qed.

(** ** 7. Examples: the premises are satisfiable — the start position, and a position with a
    live en-passant capture, a capture and a promotion (the two sides then have the same
    number of moves, as the theorem says) *)
Example gen_from_layers_ex_start :
  from_scratch startpos = from_scratch (abs_board (from_scratch startpos)) /\
  pos_valid (abs_board (from_scratch startpos)) = true /\ is_sane (from_scratch startpos) = true /\
  length (expand (enumerate_moves (from_scratch startpos))) = 20%nat /\
  length (legal_moves (abs_board (from_scratch startpos))) = 20%nat.
Proof. repeat (split; [vm_compute; reflexivity|]). vm_compute. reflexivity. Qed.

Example gen_from_layers_ex_ep :
  from_scratch gas_pos = from_scratch (abs_board (from_scratch gas_pos)) /\
  pos_valid (abs_board (from_scratch gas_pos)) = true /\ is_sane (from_scratch gas_pos) = true /\
  epsq (from_scratch gas_pos) = Some 35 /\
  length (expand (enumerate_moves (from_scratch gas_pos))) = 12%nat /\
  length (legal_moves (abs_board (from_scratch gas_pos))) = 12%nat /\
  In {| msrc := 36; mdst := 43; mpromo := None |} (expand (enumerate_moves (from_scratch gas_pos))) /\
  In {| msrc := 49; mdst := 57; mpromo := Some Knight |} (expand (enumerate_moves (from_scratch gas_pos))) /\
  In (mv 36 43) (legal_moves (abs_board (from_scratch gas_pos))).
Proof.
  repeat (split; [vm_compute; reflexivity|]).
  split; [vm_compute; tauto|]. split; [vm_compute; tauto|]. vm_compute. tauto.
Qed.

Print Assumptions gen_from_layers.
Print Assumptions ep_one_checker_double.
Print Assumptions gen_moves_of.
Print Assumptions gen_legal_query.
