(** * Proofs.PerftSpec — [MoveGen::movegen_perft_test] ([movegen_perft], [Model/Perft.v]) and the
    deprecated [Board::enumerate_moves] ([board_enumerate_moves]) against the FIDE-rules oracle
    [Spec.Rules.perft] / [legal_moves].

    For every canonical board of a valid position ([GoodBoard], [Proofs/CorAReach.v]) and every
    depth >= 1 the library's perft is defined (no [make_move_new] panics, no [depth - 1]
    underflow) and is exactly the number of legal lines of that length in the rules; depth 0 is
    defined only where there is no legal move.

    Ingredients: T_gen ([CorAReach.good_moves_of]: a full iteration of the generator is a
    duplicate-free permutation of the legal moves), T_step ([CorAReach.good_move]: the library's
    move application gives a good board showing the successor position; from scratch to scratch:
    [StepCanon.step_from_scratch_board]), T_inv ([pos_valid_preserved]), the round trip
    ([abs_from_scratch]) and [StatusModel.len_new_legal] ([MoveGen::len] of a fresh generator). *)
From Coq Require Import NArith List Bool Lia ZifyBool ZifyN ZifyNat Permutation.
From Chess Require Import Base.Bits Base.Text Spec.Geometry Spec.Rules Model.Board Model.MoveGen Model.Perft.
From Chess Require Import Proofs.NullMove Proofs.RoundTripMain Proofs.StatusModel Proofs.StepCanon
  Proofs.SpecInvGoals Proofs.CorAReach.
Import ListNotations.
Open Scope N_scope.

#[local] Arguments N.add : simpl never.
Local Opaque from_scratch abs_board moves_of new_legal len make_move_new legal_moves apply.

(** ** 0. Sums folded over a list: invariance under permutation, stated generally *)
Section FoldSum.
  Context {A:Type}.

  (** any step function whose steps commute gives a fold that is invariant under permutation *)
  Lemma fold_left_permutation {S:Type} (f:S -> A -> S) :
    (forall s x y, f (f s x) y = f (f s y) x) ->
    forall l l', Permutation l l' -> forall s, fold_left f l s = fold_left f l' s.
  Proof.
    intros Hc l l' HP. induction HP as [|x l l' HP IH|x y l|l l' l'' HP1 IH1 HP2 IH2]; intro s.
    - reflexivity.
    - cbn [fold_left]. apply IH.
    - cbn [fold_left]. rewrite Hc. reflexivity.
    - rewrite IH1. apply IH2.
  Qed.

  Lemma fold_add_permutation (g:A -> N) l l' a : Permutation l l' ->
    fold_left (fun acc x => acc + g x) l a = fold_left (fun acc x => acc + g x) l' a.
  Proof.
    intro HP. apply (fold_left_permutation (fun acc x => acc + g x)); [|exact HP].
    intros s x y. lia.
  Qed.

  Lemma fold_add_ext (g h:A -> N) l a : (forall x, In x l -> g x = h x) ->
    fold_left (fun acc x => acc + g x) l a = fold_left (fun acc x => acc + h x) l a.
  Proof.
    revert a. induction l as [|x l IH]; intros a H; [reflexivity|]. cbn [fold_left].
    rewrite (H x (or_introl eq_refl)). apply IH. intros y Hy. apply H. right. exact Hy.
  Qed.

  Lemma fold_add_map {B:Type} (k:B -> A) (g:A -> N) l a :
    fold_left (fun acc x => acc + g x) (map k l) a = fold_left (fun acc y => acc + g (k y)) l a.
  Proof. revert a. induction l as [|y l IH]; intro a; [reflexivity|]. cbn [map fold_left]. apply IH. Qed.

  Lemma fold_add_one (l:list A) a : fold_left (fun acc _ => acc + 1) l a = a + N.of_nat (length l).
  Proof.
    revert a. induction l as [|x l IH]; intro a; cbn [fold_left length]; [lia|]. rewrite IH. lia.
  Qed.

  (** the option-valued accumulation of [movegen_perft]: if every element has a defined
      contribution the result is defined and is the plain sum *)
  Lemma fold_opt_sum (step:A -> option N) (g:A -> N) l a :
    (forall x, In x l -> step x = Some (g x)) ->
    fold_left (fun acc x => match acc with
                            | None => None
                            | Some s => match step x with Some r => Some (s + r) | None => None end
                            end) l (Some a)
    = Some (fold_left (fun acc x => acc + g x) l a).
  Proof.
    revert a. induction l as [|x l IH]; intros a H; [reflexivity|]. cbn [fold_left].
    rewrite (H x (or_introl eq_refl)). apply IH. intros y Hy. apply H. right. exact Hy.
  Qed.

  (** ... and one undefined contribution makes the whole undefined *)
  Lemma fold_opt_none (step:A -> option N) l :
    fold_left (fun acc x => match acc with
                            | None => None
                            | Some s => match step x with Some r => Some (s + r) | None => None end
                            end) l None = None.
  Proof. induction l as [|x l IH]; [reflexivity|]. cbn [fold_left]. exact IH. Qed.
End FoldSum.

(** ** 1. The recursion equations of [movegen_perft] and of the oracle *)
Definition perft_step (b:board) (d:nat) (m:cmove) : option N :=
  match make_move_new b (msrc m) (mdst m) (mpromo m) with
  | None => None
  | Some nb => movegen_perft nb d
  end.

Lemma movegen_perft_0 b :
  movegen_perft b 0 = match moves_of b with [] => Some 0 | _ :: _ => None end.
Proof. reflexivity. Qed.

Lemma movegen_perft_1 b : movegen_perft b 1 = Some (len (new_legal b)).
Proof. reflexivity. Qed.

Lemma movegen_perft_SS b d :
  movegen_perft b (S (S d)) =
  fold_left (fun acc m => match acc with
                          | None => None
                          | Some s => match perft_step b (S d) m with Some r => Some (s + r) | None => None end
                          end) (moves_of b) (Some 0).
Proof.
  change (movegen_perft b (S (S d))) with
    (fold_left (fun acc m =>
                   match acc with
                   | None => None
                   | Some a =>
                     match make_move_new b (msrc m) (mdst m) (mpromo m) with
                     | None => None
                     | Some nb => match movegen_perft nb (S d) with Some r => Some (a + r) | None => None end
                     end
                   end) (moves_of b) (Some 0)).
  assert (E : forall l acc,
    fold_left (fun acc m =>
                   match acc with
                   | None => None
                   | Some a =>
                     match make_move_new b (msrc m) (mdst m) (mpromo m) with
                     | None => None
                     | Some nb => match movegen_perft nb (S d) with Some r => Some (a + r) | None => None end
                     end
                   end) l acc =
    fold_left (fun acc m => match acc with
                          | None => None
                          | Some s => match perft_step b (S d) m with Some r => Some (s + r) | None => None end
                          end) l acc).
  { induction l as [|m l IH]; intro acc; [reflexivity|]. cbn [fold_left]. rewrite IH. f_equal.
    destruct acc as [a|]; [|reflexivity]. unfold perft_step.
    destruct (make_move_new b (msrc m) (mdst m) (mpromo m)); reflexivity. }
  apply E.
Qed.

Lemma perft_S k p :
  perft (S k) p = fold_left (fun a m => a + perft k (apply p m)) (legal_moves p) 0.
Proof. reflexivity. Qed.

Lemma perft_1 p : perft 1 p = N.of_nat (length (legal_moves p)).
Proof.
  rewrite perft_S.
  change (fold_left (fun a m => a + perft 0 (apply p m)) (legal_moves p) 0)
    with (fold_left (fun a (_:move) => a + 1) (legal_moves p) 0).
  rewrite fold_add_one. lia.
Qed.

(** ** 2. The main theorem, over good boards *)
Lemma good_len b : GoodBoard b -> len (new_legal b) = N.of_nat (length (legal_moves (abs_board b))).
Proof.
  intro G. rewrite (len_new_legal b (good_wf b G) (good_sane b G)).
  destruct (good_moves_of b G) as [HP _].
  rewrite (Permutation_length HP), map_length. reflexivity.
Qed.

Theorem perft_good d : forall b, GoodBoard b ->
  movegen_perft b (S d) = Some (perft (S d) (abs_board b)).
Proof.
  induction d as [|d IH]; intros b G.
  - rewrite movegen_perft_1, perft_1, (good_len b G). reflexivity.
  - rewrite movegen_perft_SS.
    set (g := fun c : cmove => perft (S d) (apply (abs_board b) (to_spec_move c))).
    rewrite (fold_opt_sum (perft_step b (S d)) g).
    + f_equal. destruct (good_moves_of b G) as [HP _].
      rewrite (fold_add_permutation g _ _ 0 HP), fold_add_map.
      rewrite (perft_S (S d)). apply fold_add_ext. intros m _. unfold g.
      rewrite to_of_spec. reflexivity.
    + intros c Hc. apply (good_gen_spec b c G) in Hc. unfold perft_step, g.
      destruct (good_move_some b (to_spec_move c) G Hc) as [b' E].
      change (make_move_new b (msrc c) (mdst c) (mpromo c) = Some b') in E. rewrite E.
      destruct (good_cmove b c b' G Hc E) as [G' Ha]. rewrite (IH b' G'), Ha. reflexivity.
Qed.

Theorem perft_canonical d b : Canonical b -> pos_valid (abs_board b) = true ->
  movegen_perft b (S d) = Some (perft (S d) (abs_board b)).
Proof. intros HC HV. exact (perft_good d b (conj HC HV)). Qed.

Theorem perft_spec d p : pos_valid p = true ->
  movegen_perft (from_scratch p) (S d) = Some (perft (S d) p).
Proof.
  intro HV. rewrite (perft_good d (from_scratch p) (good_scratch p HV)), (abs_from_scratch p HV).
  reflexivity.
Qed.

(** every line the library's perft walks is a line of the oracle: the boards it visits are the
    from-scratch boards of the successor positions (T_step, whole board) *)
Theorem perft_child p m : pos_valid p = true -> In m (legal_moves p) ->
  make_move_new (from_scratch p) (src m) (dst m) (promo m) = Some (from_scratch (apply p m))
  /\ pos_valid (apply p m) = true.
Proof.
  intros HV HL. split; [exact (step_from_scratch_board p m HV HL)|exact (pos_valid_preserved p m HV HL)].
Qed.

(** ** 3. Depth 0 and depth 1 *)
Theorem perft_zero_good b : GoodBoard b ->
  movegen_perft b 0 = match legal_moves (abs_board b) with [] => Some 0 | _ :: _ => None end.
Proof.
  intro G. rewrite movegen_perft_0. destruct (good_moves_of b G) as [HP _].
  destruct (legal_moves (abs_board b)) as [|m l].
  - cbn [map] in HP. apply Permutation_sym, Permutation_nil in HP. rewrite HP. reflexivity.
  - destruct (moves_of b) as [|c r]; [|reflexivity].
    apply Permutation_nil in HP. discriminate HP.
Qed.

Theorem perft_zero p : pos_valid p = true ->
  movegen_perft (from_scratch p) 0 = match legal_moves p with [] => Some 0 | _ :: _ => None end.
Proof.
  intro HV. rewrite (perft_zero_good (from_scratch p) (good_scratch p HV)), (abs_from_scratch p HV).
  reflexivity.
Qed.

Theorem perft_depth1 p : pos_valid p = true ->
  movegen_perft (from_scratch p) 1 = Some (N.of_nat (length (legal_moves p))).
Proof. intro HV. rewrite (perft_spec 0 p HV), perft_1. reflexivity. Qed.

(** depth 0 is NOT the oracle's [perft 0 = 1] anywhere: it is 0 where there is no legal move and
    undefined (the [depth - 1] underflow) elsewhere *)
Theorem perft_zero_never_oracle p : pos_valid p = true ->
  movegen_perft (from_scratch p) 0 <> Some (perft 0 p).
Proof.
  intro HV. rewrite (perft_zero p HV). destruct (legal_moves p); cbn [perft]; discriminate.
Qed.

(** ** 4. The deprecated [Board::enumerate_moves] *)
Theorem enumerate_moves_none_iff b :
  board_enumerate_moves b = None <-> (256 < length (moves_of b))%nat.
Proof.
  unfold board_enumerate_moves. destruct (Nat.ltb 256 (length (moves_of b))) eqn:E.
  - apply Nat.ltb_lt in E. split; [intros _; exact E|reflexivity].
  - apply Nat.ltb_ge in E. split; [discriminate|intro H; lia].
Qed.

Theorem enumerate_moves_good b : GoodBoard b ->
  (length (legal_moves (abs_board b)) <= 256)%nat ->
  exists l, board_enumerate_moves b = Some (l, N.of_nat (length (legal_moves (abs_board b)))) /\
            Permutation l (map of_spec_move (legal_moves (abs_board b))) /\ NoDup l.
Proof.
  intros G Hle. destruct (good_moves_of b G) as [HP HN].
  assert (HL : length (moves_of b) = length (legal_moves (abs_board b))).
  { rewrite (Permutation_length HP), map_length. reflexivity. }
  exists (moves_of b). split; [|split; [exact HP|exact HN]].
  unfold board_enumerate_moves. rewrite HL.
  destruct (Nat.ltb 256 (length (legal_moves (abs_board b)))) eqn:E; [|reflexivity].
  apply Nat.ltb_lt in E. lia.
Qed.

(** We do not attempt the chess fact that no valid position has more than 256 legal moves (the
    known maximum is 218); it stays an explicit hypothesis. *)
Theorem enumerate_moves_spec p : pos_valid p = true -> (length (legal_moves p) <= 256)%nat ->
  exists l, board_enumerate_moves (from_scratch p) = Some (l, N.of_nat (length (legal_moves p))) /\
            Permutation l (map of_spec_move (legal_moves p)) /\ NoDup l.
Proof.
  intros HV Hle. pose proof (enumerate_moves_good (from_scratch p) (good_scratch p HV)) as H.
  rewrite (abs_from_scratch p HV) in H. exact (H Hle).
Qed.

(** the array is filled in iteration order and the count is [MoveGen::len] of a fresh generator *)
Theorem enumerate_moves_some b l n : board_enumerate_moves b = Some (l, n) ->
  l = moves_of b /\ n = N.of_nat (length l) /\ (length l <= 256)%nat.
Proof.
  unfold board_enumerate_moves. destruct (Nat.ltb 256 (length (moves_of b))) eqn:E; [discriminate|].
  apply Nat.ltb_ge in E. intro H. injection H as H1 H2. subst l n. repeat split. exact E.
Qed.
