(** * Proofs.AcceptSound — what [Board::is_sane] / [TryFrom<&BoardBuilder>] guarantee, read
    off the bitboards (C07, soundness of acceptance at the level of the model).
    The reading on [abs_board] (exactly one king, not [in_check], ...) is stated as
    [C07_accept_sound_full] and left to the abstraction lemmas. *)
From Coq Require Import Lia ZifyBool ZifyN ZifyNat.
From Chess Require Import Base.Bits Model.Board Proofs.BitsFacts.
Open Scope N_scope.
#[local] Arguments N.add : simpl never.
#[local] Arguments N.sub : simpl never.
#[local] Arguments N.mul : simpl never.
#[local] Arguments N.shiftl : simpl never.
#[local] Arguments N.shiftr : simpl never.
#[local] Arguments N.land : simpl never.
#[local] Arguments N.lor : simpl never.
#[local] Arguments N.lxor : simpl never.
#[local] Arguments N.testbit : simpl never.
#[local] Arguments N.eqb : simpl never.
#[local] Arguments N.ltb : simpl never.
#[local] Arguments N.leb : simpl never.
#[local] Arguments N.pow : simpl never.

(** ** small bit facts *)
Lemma land_bit_nz X x : negb (N.land X (bit x) =? 0) = true -> N.testbit X x = true.
Proof.
  intros H. destruct (N.testbit X x) eqn:E; [reflexivity|exfalso].
  assert (Hz : N.land X (bit x) = 0).
  { apply N.bits_inj. intro k. rewrite N.land_spec, testbit_bit, N.bits_0.
    destruct (N.eqb_spec x k) as [->|Hne]; [rewrite E; reflexivity|apply andb_false_r]. }
  rewrite Hz, N.eqb_refl in H. discriminate H.
Qed.

Lemma land_sub_testbit u x y s : N.land (N.land u x) y = u ->
  N.testbit u s = true -> N.testbit x s = true /\ N.testbit y s = true.
Proof.
  intros H Hs. rewrite <- H, !N.land_spec in Hs.
  destruct (N.testbit x s), (N.testbit y s), (N.testbit u s); cbn in Hs; try discriminate Hs.
  split; reflexivity.
Qed.

Lemma land7_lt8 x : N.land x 7 < 8.
Proof. change 7 with (N.ones 3). rewrite N.land_ones. apply N.mod_lt. discriminate. Qed.

Lemma lt8_cases x : x < 8 -> x = 0 \/ x = 1 \/ x = 2 \/ x = 3 \/ x = 4 \/ x = 5 \/ x = 6 \/ x = 7.
Proof. lia. Qed.

Lemma sq_rank_lt8 s : sq_rank s < 8.
Proof. apply land7_lt8. Qed.
Lemma sq_file_lt8 s : sq_file s < 8.
Proof. apply land7_lt8. Qed.

(** the double-push rank of either colour, whatever the file argument *)
Lemma sq_rank_mk_sq_fourth c f : sq_rank (mk_sq (fourth_rk c) f) = fourth_rk c.
Proof.
  unfold mk_sq. pose proof (land7_lt8 f) as Hf. destruct (lt8_cases _ Hf) as [E|[E|[E|[E|[E|[E|[E|E]]]]]]];
    rewrite E; destruct c; reflexivity.
Qed.
Lemma sq_file_mk_sq_fourth c f : sq_file (mk_sq (fourth_rk c) f) = N.land f 7.
Proof.
  unfold mk_sq. pose proof (land7_lt8 f) as Hf. destruct (lt8_cases _ Hf) as [E|[E|[E|[E|[E|[E|[E|E]]]]]]];
    rewrite E; destruct c; reflexivity.
Qed.

Lemma home_king_bb c : N.land (get_file 4) (get_rank (my_backrank c)) = bit (mk_sq (my_backrank c) 4).
Proof. destruct c; vm_compute; reflexivity. Qed.

Lemma in_all_ptypes x : In x all_ptypes.
Proof. destruct x; cbn; tauto. Qed.

(** ** [is_sane], conjunct by conjunct *)
Theorem is_sane_spec b : is_sane b = true ->
  (forall x y, ptype_eqb x y = false -> N.land (pieces b x) (pieces b y) = 0) /\
  N.land (cW b) (cB b) = 0 /\
  fold_left (fun cur p => N.lor cur (pieces b p)) all_ptypes 0 = comb b /\
  popcnt (cW b) <= 16 /\ popcnt (cB b) <= 16 /\
  popcnt (N.land (pK b) (cW b)) = 1 /\ popcnt (N.land (pK b) (cB b)) = 1 /\
  (forall e, epsq b = Some e -> N.testbit (N.land (pP b) (color_combined b (opp (stm b)))) e = true) /\
  checkers (update_pin_info (set_stm b (opp (stm b)))) = 0 /\
  (forall c, N.land (N.land (unmoved_rooks (castle_rights b c) c) (pR b)) (color_combined b c)
               = unmoved_rooks (castle_rights b c) c /\
             (castle_rights b c <> 0 ->
              N.land (pK b) (color_combined b c) = bit (mk_sq (my_backrank c) 4))) /\
  N.land (king_moves (king_square b White)) (pK b) = 0.
Proof.
  unfold is_sane. rewrite !andb_true_iff.
  intros [[[[[[[[[[H1 H2] H3] H4] H5] H6] H7] H8] H9] H10] H11].
  repeat split.
  - intros x y Hxy. rewrite forallb_forall in H1. specialize (H1 x (in_all_ptypes x)).
    rewrite forallb_forall in H1. specialize (H1 y (in_all_ptypes y)).
    rewrite Hxy in H1. cbn [orb] in H1. apply N.eqb_eq. exact H1.
  - apply N.eqb_eq. exact H2.
  - apply N.eqb_eq. exact H3.
  - destruct (N.ltb_spec 16 (popcnt (cW b))) as [Hlt|Hge]; [discriminate H4|exact Hge].
  - destruct (N.ltb_spec 16 (popcnt (cB b))) as [Hlt|Hge]; [discriminate H5|exact Hge].
  - apply N.eqb_eq. exact H6.
  - apply N.eqb_eq. exact H7.
  - intros e He. rewrite He in H8. apply land_bit_nz. exact H8.
  - apply N.eqb_eq. exact H9.
  - rewrite forallb_forall in H10.
    assert (Hin : In c [White;Black]) by (destruct c; cbn; tauto).
    specialize (H10 c Hin). cbv beta zeta in H10. apply andb_true_iff in H10.
    apply N.eqb_eq. apply H10.
  - intros Hnz. rewrite forallb_forall in H10.
    assert (Hin : In c [White;Black]) by (destruct c; cbn; tauto).
    specialize (H10 c Hin). cbv beta zeta in H10. apply andb_true_iff in H10.
    destruct H10 as [_ H10].
    destruct (N.eqb_spec (castle_rights b c) 0) as [Hz|_]; [contradiction|].
    rewrite <- home_king_bb. apply N.eqb_eq. exact H10.
  - apply N.eqb_eq. exact H11.
Qed.

(** ** fields preserved by the steps of [from_builder_raw] *)
Lemma stm_update_pin_info b : stm (update_pin_info b) = stm b.
Proof. unfold update_pin_info. cbv zeta. destruct (slider_scan _ _ _ _ _) as [pn ch]. reflexivity. Qed.
Lemma epsq_update_pin_info b : epsq (update_pin_info b) = epsq b.
Proof. unfold update_pin_info. cbv zeta. destruct (slider_scan _ _ _ _ _) as [pn ch]. reflexivity. Qed.
Lemma stm_add_castle_rights b c a : stm (add_castle_rights b c a) = stm b.
Proof. reflexivity. Qed.
Lemma epsq_add_castle_rights b c a : epsq (add_castle_rights b c a) = epsq b.
Proof. reflexivity. Qed.

Lemma epsq_place_fold pcs : forall l b0,
  epsq (fold_left (fun b s => match nth (N.to_nat s) pcs None with
                              | Some (p,c) => xor_piece b p (bit s) c | None => b end) l b0) = epsq b0.
Proof.
  induction l as [|s l IH]; intros b0; cbn [fold_left]; [reflexivity|].
  rewrite IH. destruct (nth (N.to_nat s) pcs None) as [[p c]|]; reflexivity.
Qed.
Lemma epsq_place_all pcs : epsq (place_all pcs) = None.
Proof. unfold place_all. rewrite epsq_place_fold. reflexivity. Qed.

Lemma epsq_set_ep b s : epsq (set_ep b s) = Some s \/ epsq (set_ep b s) = epsq b.
Proof. unfold set_ep. destruct (negb _); [left|right]; reflexivity. Qed.
Lemma stm_set_ep b s : stm (set_ep b s) = stm b.
Proof. unfold set_ep. destruct (negb _); reflexivity. Qed.

Theorem stm_from_builder_raw bb : stm (from_builder_raw bb) = bstm bb.
Proof.
  unfold from_builder_raw. cbv zeta.
  rewrite stm_update_pin_info, !stm_add_castle_rights.
  destruct (builder_get_en_passant bb) as [e|]; [|reflexivity].
  cbn [stm set_stm]. destruct (bstm bb); reflexivity.
Qed.

Lemma epsq_set_stm b c : epsq (set_stm b c) = epsq b.
Proof. reflexivity. Qed.

Lemma epsq_ep_step b0 c c' s e : epsq b0 = None ->
  epsq (set_stm (set_ep (set_stm b0 c) s) c') = Some e -> e = s.
Proof.
  intros H0 H. rewrite epsq_set_stm in H.
  destruct (epsq_set_ep (set_stm b0 c) s) as [E|E]; rewrite E in H.
  - injection H as H. symmetry. exact H.
  - rewrite epsq_set_stm, H0 in H. discriminate H.
Qed.

Theorem epsq_from_builder_raw bb e : epsq (from_builder_raw bb) = Some e ->
  exists f, bep bb = Some f /\ e = mk_sq (fourth_rk (opp (bstm bb))) f.
Proof.
  unfold from_builder_raw. cbv zeta.
  rewrite epsq_update_pin_info, !epsq_add_castle_rights.
  pose proof (epsq_place_all (bpieces bb)) as H0. revert H0.
  generalize (place_all (bpieces bb)). intros b0 H0.
  unfold builder_get_en_passant. destruct (bep bb) as [f|].
  - intros H. exists f. split; [reflexivity|].
    exact (epsq_ep_step _ _ _ _ _ (eq_trans (epsq_set_stm b0 (bstm bb)) H0) H).
  - rewrite epsq_set_stm, H0. discriminate.
Qed.

Theorem try_from_builder_spec bb b :
  try_from_builder bb = Some b <-> b = from_builder_raw bb /\ is_sane (from_builder_raw bb) = true.
Proof.
  unfold try_from_builder. cbv zeta. destruct (is_sane (from_builder_raw bb)).
  - split; [intros H; injection H as H; split; [symmetry; exact H|reflexivity] | intros [-> _]; reflexivity].
  - split; [discriminate | intros [_ H]; discriminate H].
Qed.

(** ** acceptance is sound (bitboard reading) *)
Theorem accept_sound_bits : forall bb b, try_from_builder bb = Some b ->
  b = from_builder_raw bb /\ is_sane b = true /\ stm b = bstm bb /\
  (* exactly one king per side *)
  popcnt (N.land (pK b) (cW b)) = 1 /\ popcnt (N.land (pK b) (cB b)) = 1 /\
  (* at most sixteen men per side *)
  popcnt (cW b) <= 16 /\ popcnt (cB b) <= 16 /\
  (* the side not to move is not in check, as the library computes check *)
  checkers (update_pin_info (set_stm b (opp (stm b)))) = 0 /\
  (* castling rights are backed by rooks and king on their home squares *)
  (forall c s, N.testbit (unmoved_rooks (castle_rights b c) c) s = true ->
               N.testbit (pR b) s = true /\ N.testbit (color_combined b c) s = true) /\
  (forall c, castle_rights b c <> 0 ->
             N.land (pK b) (color_combined b c) = bit (mk_sq (my_backrank c) 4)) /\
  (* a recorded en-passant square holds an enemy pawn on its double-push rank *)
  (forall e, epsq b = Some e ->
     N.testbit (N.land (pP b) (color_combined b (opp (stm b)))) e = true /\
     sq_rank e = fourth_rk (opp (stm b)) /\
     exists f, bep bb = Some f /\ sq_file e = N.land f 7) /\
  (* the remaining consistency conditions *)
  (forall x y, ptype_eqb x y = false -> N.land (pieces b x) (pieces b y) = 0) /\
  N.land (cW b) (cB b) = 0 /\
  N.land (king_moves (king_square b White)) (pK b) = 0.
Proof.
  intros bb b H. apply try_from_builder_spec in H. destruct H as [Hb Hs].
  rewrite <- Hb in Hs.
  destruct (is_sane_spec b Hs) as (H1 & H2 & H3 & H4 & H5 & H6 & H7 & H8 & H9 & H10 & H11).
  assert (Hstm : stm b = bstm bb) by (rewrite Hb; apply stm_from_builder_raw).
  split; [exact Hb|]. split; [exact Hs|]. split; [exact Hstm|].
  split; [exact H6|]. split; [exact H7|]. split; [exact H4|]. split; [exact H5|].
  split; [exact H9|].
  split.
  { intros c s Hbit. destruct (H10 c) as [Hr _]. exact (land_sub_testbit _ _ _ s Hr Hbit). }
  split.
  { intros c Hnz. destruct (H10 c) as [_ Hk]. exact (Hk Hnz). }
  split.
  { intros e He. split; [exact (H8 e He)|].
    rewrite Hb in He. destruct (epsq_from_builder_raw bb e He) as [f [Hf Hef]].
    rewrite Hstm. split.
    - rewrite Hef. apply sq_rank_mk_sq_fourth.
    - exists f. split; [exact Hf|]. rewrite Hef. apply sq_file_mk_sq_fourth. }
  split; [exact H1|]. split; [exact H2|exact H11].
Qed.

(** ** The specification-level reading (not proved here: needs the abstraction lemmas) *)
Definition C07_accept_sound_full : Prop :=
  forall bb b, try_from_builder bb = Some b ->
    kings (abs_board b) White = 1 /\ kings (abs_board b) Black = 1 /\
    in_check (abs_board b) (opp (stm b)) = false /\
    implb (wk (abs_board b)) (has (abs_board b) 4 King White && has (abs_board b) 7 Rook White) = true /\
    implb (wq (abs_board b)) (has (abs_board b) 4 King White && has (abs_board b) 0 Rook White) = true /\
    implb (bk (abs_board b)) (has (abs_board b) 60 King Black && has (abs_board b) 63 Rook Black) = true /\
    implb (bq (abs_board b)) (has (abs_board b) 60 King Black && has (abs_board b) 56 Rook Black) = true /\
    (forall t, ep (abs_board b) = Some t ->
       rank_of t = sixth_rank (stm b) /\
       exists pawn_sq, step t (0, - fwdc (stm b))%Z = Some pawn_sq /\
                       has (abs_board b) pawn_sq Pawn (opp (stm b)) = true) /\
    men (abs_board b) White <= 16 /\ men (abs_board b) Black <= 16.

(** completeness: every valid position of the specification is accepted, and the accepted
    board abstracts back to it (not proved here either) *)
Definition C07_accept_complete_full : Prop :=
  forall p, pos_valid p = true ->
    exists b, try_from_builder (builder_of_pos p) = Some b /\ abs_board b = p.
