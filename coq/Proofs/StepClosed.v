(** * Proofs.StepClosed — the C02b / C08 results with the two specification-level facts they were
    parametrised by discharged: [SpecInvGoals.pos_valid_preserved] (a legal move of a valid
    position leads to a valid position) and [RoundTripAbs.abs_from_scratch] (the from-scratch
    board of a valid position abstracts back to it). *)
From Chess Require Import Base.Bits Spec.Geometry Spec.Rules Model.Board.
From Chess Require Import Proofs.AbsBoard Proofs.NullMove Proofs.CanonScratch Proofs.StepLink Proofs.StepHash.
From Chess Require Proofs.SpecInvGoals Proofs.RoundTripAbs.
Open Scope N_scope.

Lemma valid_step : valid_step_hyp.
Proof. exact SpecInvGoals.pos_valid_preserved. Qed.

Lemma scratch_valid p : pos_valid p = true -> pos_valid (abs_board (from_scratch p)) = true.
Proof. intro H. rewrite (RoundTripAbs.abs_from_scratch p H). exact H. Qed.

Theorem inv_scratch p : pos_valid p = true -> Inv (from_scratch p).
Proof. intro H. apply inv_from_scratch, scratch_valid, H. Qed.

(** every board reached from the from-scratch board of a valid position satisfies the
    invariant, and shows a valid position *)
Theorem reach_inv_closed p0 b : pos_valid p0 = true -> ReachB p0 b -> Inv b.
Proof. intros H R. exact (reach_inv valid_step _ b (inv_scratch p0 H) R). Qed.

(** ... its hash is the specification-level hash of the position it shows *)
Theorem reach_hash_closed p0 b : pos_valid p0 = true -> ReachB p0 b -> get_hash b = Hspec (abs_board b).
Proof. intros H R. exact (reach_hash valid_step p0 b (scratch_valid p0 H) R). Qed.

(** ... which is the hash of the board built from scratch for that position: incremental
    update = recomputation, after any sequence of legal and null moves *)
Theorem reach_hash_scratch p0 b : pos_valid p0 = true -> ReachB p0 b ->
  get_hash b = get_hash (from_scratch (abs_board b)).
Proof.
  intros H R. pose proof (reach_inv_closed p0 b H R) as [_ _ _ _ _ HV].
  rewrite (reach_hash_closed p0 b H R).
  destruct (inv_scratch _ HV) as [_ Hh HW HB _ _].
  rewrite (get_hash_abs _ Hh HW HB), (RoundTripAbs.abs_from_scratch _ HV). reflexivity.
Qed.

(** path independence *)
Theorem reach_path_independent_closed p1 p2 b1 b2 :
  pos_valid p1 = true -> pos_valid p2 = true -> ReachB p1 b1 -> ReachB p2 b2 ->
  abs_board b1 = abs_board b2 -> get_hash b1 = get_hash b2.
Proof.
  intros V1 V2 R1 R2 E.
  exact (reach_path_independent valid_step p1 p2 b1 b2 (scratch_valid p1 V1) (scratch_valid p2 V2) R1 R2 E).
Qed.

(** one move, from scratch to scratch: the board after a legal move from the from-scratch
    board of a valid position has the hash (and the abstraction) of the from-scratch board of
    the successor position *)
Theorem step_from_scratch p m b' : pos_valid p = true -> In m (legal_moves p) ->
  make_move_new (from_scratch p) (src m) (dst m) (promo m) = Some b' ->
  abs_board b' = apply p m /\ get_hash b' = get_hash (from_scratch (apply p m)).
Proof.
  intros HV HL E.
  pose proof (RoundTripAbs.abs_from_scratch p HV) as Hrt.
  assert (R : ReachB p b').
  { apply (RF_move _ (from_scratch p) m b'); [apply RF_start|rewrite Hrt; exact HL|exact E]. }
  pose proof (reach_hash_scratch p b' HV R) as Hh.
  destruct (inv_scratch p HV) as [HC _ _ _ Hwf HV'].
  assert (HS : StepHyp (from_scratch p) m) by (constructor; [exact HC|exact HV'|rewrite Hrt; exact HL|exact Hwf]).
  pose proof (step_abs _ m b' HS E) as Ha. rewrite Hrt in Ha.
  split; [exact Ha|]. rewrite Hh, Ha. reflexivity.
Qed.
