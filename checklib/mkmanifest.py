#!/usr/bin/env python3
"""Writes /verif/MANIFEST.json from checklib/props.py (single source of truth)."""
import json, os, sys
sys.path.insert(0, '/verif')
from checklib import props as P
from checklib import claims as C

checks = []
for pid in sorted(P.PROPS):
    if pid not in C.CLAIMS: continue
    c = dict(C.CLAIMS[pid])
    # the number of theorems is taken from the last evidence file (measured, not typed)
    try:
        ev = json.load(open('/verif/evidence/%s.json' % pid)); n = ev['coverage']['discharged']
        import re as _re
        c['text'] = _re.sub(r'^\d+ machine-checked theorems', '%d machine-checked theorems' % n, c['text'])
    except Exception:
        pass
    checks.append({
        'property_id': pid,
        'quick_cmd': './check %s --tier quick' % pid,
        'thorough_cmd': './check %s --tier thorough' % pid,
        'evidence_file': '/verif/evidence/%s.json' % pid,
        'replay_cmd_template': './check %s --replay {path}' % pid,
        'engine': 'rocq-proof+correspondence',
        'level_claimed': {'category': 'proof', 'text': c['text'], 'design_ref': c.get('design_ref', 'DESIGN.md section 6, ' + pid)},
        'level_note': c['note'],
        'technique': c['technique'],
    })
all_ids = ['C%02d' % i for i in range(1, 21)]
na = [{'property_id': p, 'reason': C.NOT_YET.get(p, 'not claimed yet: the correspondence check exists (./check %s) but no theorem file is registered for it in this commit' % p)} for p in all_ids if p not in C.CLAIMS]
m = {
    'version': 1,
    'setup_cmd': './setup.sh',
    'hooks': {'guard': 'chess_verif', 'enable': 'RUSTFLAGS="--cfg chess_verif" (passed by ./check; no hook commit exists: every observable is reached through the public API, $OUT_DIR and source regexes)',
              'baseline_off_cmd': 'cd /repo && cargo test --workspace --no-fail-fast --offline', 'source_commits': [], 'add_only': True},
    'engines': [{'name': 'rocq-proof+correspondence', 'path': '/verif/check', 'serves_properties': sorted(C.CLAIMS),
                 'kind_free_text': 'Coq 8.16 theorems over a hand-written model + regenerated tables (translator), model tied to /repo by differential correspondence through OCaml extraction'}],
    'checks': checks,
    'notes': 'See DESIGN.md. fix: commits in /repo are listed in KNOWN_FINDINGS.txt.',
    'not_applicable': na,
}
json.dump(m, open('/verif/MANIFEST.json', 'w'), indent=1)
print('MANIFEST.json:', len(checks), 'checks,', len(na), 'not yet claimed')
