(** * Proofs.StepPass — passing the turn when not in check keeps a position valid
    (specification only; uses [in_check_ext] of [Proofs/SpecInvBase.v]: being in check depends
    on the placement alone). *)
From Chess Require Import Spec.Rules Proofs.SpecInvBase.
Open Scope N_scope.

Lemma kings_pass p c : kings (pass p) c = kings p c.
Proof. unfold kings. apply count_if_ext. intros s _. reflexivity. Qed.
Lemma men_pass p c : men (pass p) c = men p c.
Proof. unfold men. apply count_if_ext. intros s _. reflexivity. Qed.
Lemma pawns_pass p c : pawns (pass p) c = pawns p c.
Proof. unfold pawns. apply count_if_ext. intros s _. reflexivity. Qed.

Lemma pos_valid_pass p : pos_valid p = true -> in_check p (turn p) = false -> pos_valid (pass p) = true.
Proof.
  intros H Hc. unfold pos_valid in H |- *.
  change (ep_ok (pass p)) with true.
  change (turn (pass p)) with (opp (turn p)).
  rewrite opp_opp, (in_check_ext (pass p) p (turn p) eq_refl), Hc.
  rewrite (kings_pass p White), (kings_pass p Black), (men_pass p White), (men_pass p Black),
    (pawns_pass p White), (pawns_pass p Black).
  change (placement (pass p)) with (placement p).
  change (has (pass p)) with (has p).
  change (wk (pass p)) with (wk p). change (wq (pass p)) with (wq p).
  change (bk (pass p)) with (bk p). change (bq (pass p)) with (bq p).
  apply andb_prop in H as [H _]. apply andb_prop in H as [H R4]. apply andb_prop in H as [H R3].
  apply andb_prop in H as [H R2]. apply andb_prop in H as [H R1]. apply andb_prop in H as [H _].
  rewrite H, R1, R2, R3, R4. reflexivity.
Qed.
