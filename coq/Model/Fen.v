(** * Model.Fen — transcription of the text layer: Display/FromStr for Square, ChessMove,
    BoardBuilder and Board (src/square.rs, src/chess_move.rs, src/board_builder.rs). *)
From Chess Require Export Model.MoveGen Base.Text.
Open Scope N_scope.

Definition ch (c:nat) : N := N.of_nat c.
(** [impl Display for Square] *)
Definition square_display (s:N) : str := [97 + N.land s 7; 49 + N.shiftr s 3].
Definition in_range (c lo hi:N) : bool := (lo <=? c) && (c <=? hi).
(** [impl FromStr for Square]; [ch[1]] is a checked index: [Panic] if there is no second char *)
Definition square_from_str (s:str) : outcome N :=
  if byte_len s <? 2 then Err else
  match s with
  | [] => Panic                                   (* ch[0] out of range *)
  | c0 :: r =>
    if negb (in_range c0 97 104) then Err else
    match r with
    | [] => Panic                                 (* ch[1] out of range *)
    | c1 :: _ => if negb (in_range c1 49 56) then Err
                 else Ok (mk_sq (c1 - 49) (c0 - 97))
    end
  end.

(** [impl Display for Piece], [Piece::to_string(color)] *)
Definition piece_letter (p:ptype) : N :=
  match p with Pawn => 112 | Knight => 110 | Bishop => 98 | Rook => 114 | Queen => 113 | King => 107 end.
Definition piece_to_string (p:ptype) (c:color) : str :=
  match c with White => [piece_letter p - 32] | Black => [piece_letter p] end.
(** [CastleRights::to_string(color)] *)
Definition cr_to_string (cr:N) (c:color) : str :=
  let k := match c with White => 75 | Black => 107 end in
  let q := match c with White => 81 | Black => 113 end in
  (if cr_has_kingside cr then [k] else []) ++ (if cr_has_queenside cr then [q] else []).

(** decimal rendering of a small count ([write!(f, "{}", count)]) *)
Fixpoint dec_aux (fuel:nat) (n:N) (acc:str) : str :=
  match fuel with O => acc | S f =>
    let acc' := (48 + n mod 10) :: acc in
    if n / 10 =? 0 then acc' else dec_aux f (n / 10) acc' end.
Definition dec (n:N) : str := dec_aux 20 n [].

Definition rev_ranks : list N := [7;6;5;4;3;2;1;0].
Definition files8 : list N := [0;1;2;3;4;5;6;7].
(** [impl Display for BoardBuilder] (with the en-passant field of the fix: commit) *)
Definition builder_display (bb:builder) : str :=
  let placement :=
    fold_left (fun (out:str) rank =>
      let '(out,count) :=
        fold_left (fun (st:str*N) file => let (out,count) := st in
          let square := mk_sq rank file in
          let pc := nth (N.to_nat square) (bpieces bb) None in
          let '(out,count) := match pc with
                              | Some _ => if negb (count =? 0) then (out ++ dec count, 0) else (out,count)
                              | None => (out,count) end in
          match pc with
          | Some (p,c) => (out ++ piece_to_string p c, count)
          | None => (out, count + 1) end) files8 (out,0) in
      let out := if negb (count =? 0) then out ++ dec count else out in
      if negb (rank =? 0) then out ++ [47] else out) rev_ranks [] in
  placement ++ [32]
  ++ (match bstm bb with White => [119;32] | Black => [98;32] end)
  ++ cr_to_string (bcrW bb) White ++ cr_to_string (bcrB bb) Black
  ++ (if (bcrW bb =? 0) && (bcrB bb =? 0) then [45] else [])
  ++ [32]
  ++ (match builder_get_en_passant bb with
      | Some sq => square_display (ubackward (opp (bstm bb)) sq)
      | None => [45] end)
  ++ [32;48;32;49].

Definition piece_of_char (x:N) : option (ptype*color) :=
  if x =? 114 then Some (Rook,Black) else if x =? 82 then Some (Rook,White)
  else if x =? 110 then Some (Knight,Black) else if x =? 78 then Some (Knight,White)
  else if x =? 98 then Some (Bishop,Black) else if x =? 66 then Some (Bishop,White)
  else if x =? 112 then Some (Pawn,Black) else if x =? 80 then Some (Pawn,White)
  else if x =? 113 then Some (Queen,Black) else if x =? 81 then Some (Queen,White)
  else if x =? 107 then Some (King,Black) else if x =? 75 then Some (King,White)
  else None.
Definition builder_new : builder :=
  {| bpieces := repeat None 64; bstm := White; bcrW := 0; bcrB := 0; bep := None |}.

(** the placement loop of [impl FromStr for BoardBuilder]; [None] = the error return *)
Fixpoint parse_placement (cs:str) (pcs:list (option (ptype*color))) (cur_rank cur_file:N)
  : option (list (option (ptype*color))) :=
  match cs with
  | [] => Some pcs
  | x :: r =>
    if x =? 47 then parse_placement r pcs (N.land (cur_rank + 7) 7) 0
    else if in_range x 49 56 then parse_placement r pcs cur_rank (N.land (cur_file + (x - 48)) 7)
    else match piece_of_char x with
         | Some pc => parse_placement r (updN pcs (mk_sq cur_rank cur_file) (Some pc)) cur_rank (N.land (cur_file + 1) 7)
         | None => None end
  end.
Definition cr_of_field (castles:str) (k q:N) : N :=
  if contains_char castles k && contains_char castles q then 3
  else if contains_char castles k then 1 else if contains_char castles q then 2 else 0.
(** [impl FromStr for BoardBuilder] *)
Definition builder_from_str (value:str) : outcome builder :=
  match split_sp value with
  | pieces :: side :: castles :: ep :: _ =>
    match parse_placement pieces (repeat None 64) 7 0 with
    | None => Err
    | Some pcs =>
      let stm_o := if str_eqb side [119] || str_eqb side [87] then Some White
                   else if str_eqb side [98] || str_eqb side [66] then Some Black else None in
      match stm_o with
      | None => Err
      | Some c =>
        let crw := cr_of_field castles 75 81 in
        let crb := cr_of_field castles 107 113 in
        match square_from_str ep with
        | Panic => Panic
        | Ok sq => Ok {| bpieces := pcs; bstm := c; bcrW := crw; bcrB := crb; bep := Some (sq_file sq) |}
        | Err => Ok {| bpieces := pcs; bstm := c; bcrW := crw; bcrB := crb; bep := None |}
        end
      end
    end
  | _ => Err
  end.
(** [impl FromStr for Board] *)
Definition board_from_str (value:str) : outcome board :=
  match builder_from_str value with
  | Ok bb => match try_from_builder bb with Some b => Ok b | None => Err end
  | Err => Err | Panic => Panic end.
(** [impl Display for Board] *)
Definition board_display (b:board) : str := builder_display (builder_of_board b).

(** [impl Display for ChessMove] *)
Definition move_display (m:cmove) : str :=
  square_display (msrc m) ++ square_display (mdst m)
  ++ match mpromo m with Some p => [piece_letter p] | None => [] end.
(** [impl FromStr for ChessMove] *)
Definition move_from_str (s:str) : outcome cmove :=
  match get_range s 0 2 with
  | None => Err
  | Some a =>
    match square_from_str a with
    | Panic => Panic | Err => Err
    | Ok source =>
      match get_range s 2 4 with
      | None => Err
      | Some b =>
        match square_from_str b with
        | Panic => Panic | Err => Err
        | Ok dest =>
          if byte_len s =? 5 then
            match last_char s with
            | None => Err
            | Some c => if c =? 113 then Ok {| msrc:=source; mdst:=dest; mpromo:=Some Queen |}
                        else if c =? 114 then Ok {| msrc:=source; mdst:=dest; mpromo:=Some Rook |}
                        else if c =? 110 then Ok {| msrc:=source; mdst:=dest; mpromo:=Some Knight |}
                        else if c =? 98 then Ok {| msrc:=source; mdst:=dest; mpromo:=Some Bishop |}
                        else Err
            end
          else Ok {| msrc:=source; mdst:=dest; mpromo:=None |}
        end
      end
    end
  end.
