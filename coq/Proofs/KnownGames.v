(** * Proofs.KnownGames — the text layers (SAN parser, FEN writer, status, [Game] protocol) and
    the specification's SAN relation validated against three publicly known games: the Opera
    game (Morphy - Duke of Brunswick and Count Isouard, Paris 1858), the Fool's mate and the
    Scholar's mate.  Everything is obtained by EVALUATION of the model and of the oracle on the
    game texts as they are written in the books; the general theorems (C12b) are used only for
    the uniqueness clause of the spelling statement.

    - [play_san]: parse each text on the current board with [from_san], require [Ok], apply
      [make_move_new].
    - [sweep]: one pass that walks the model (boards) and the oracle (positions, [apply]) side by
      side and checks, at every ply, that the board is the from-scratch board of the oracle
      position, shows it, the position is valid, the library's FEN is the standard writer's, the
      oracle move is legal, the text played is one of its admissible spellings and the parser
      returns that move.  [sweep_sound] turns the boolean into the per-ply statements.
    - [game_play_san]: the same game through [Game::make_move], parsing each text on
      [Game::current_position]. *)
From Coq Require Import NArith List Bool String Lia.
From Chess Require Import Base.Bits Base.Text Spec.Geometry Spec.Rules Spec.Text Spec.Draw
  Model.Board Model.MoveGen Model.Fen Model.San Model.Game.
From Chess Require Import Proofs.ParseTotal Proofs.SanScan Proofs.SanLink Proofs.DrawMeasure
  Proofs.Extra10 Proofs.CorB12.
Import ListNotations.
Open Scope N_scope.

(** ** 1. Playing a list of SAN texts *)
Fixpoint play_san (b:board) (l:list str) : option board :=
  match l with
  | [] => Some b
  | t :: r => match from_san b t with
              | Ok m => match make_move_new b (msrc m) (mdst m) (mpromo m) with
                        | Some b' => play_san b' r
                        | None => None end
              | _ => None end
  end.

(** the moves the parser returned along the way *)
Fixpoint san_moves (b:board) (l:list str) : option (list cmove) :=
  match l with
  | [] => Some []
  | t :: r => match from_san b t with
              | Ok m => match make_move_new b (msrc m) (mdst m) (mpromo m) with
                        | Some b' => match san_moves b' r with Some ms => Some (m :: ms) | None => None end
                        | None => None end
              | _ => None end
  end.

(** the same through the [Game] object: [game.make_move(ChessMove::from_san(&game.current_position(), t)?)]
    must answer [true] every time *)
Fixpoint game_play_san (g:game) (l:list str) : option game :=
  match l with
  | [] => Some g
  | t :: r => match current_position g with
              | Some b => match from_san b t with
                          | Ok m => match g_make_move g m with
                                    | Some (true, g') => game_play_san g' r
                                    | _ => None end
                          | _ => None end
              | None => None end
  end.

(** ** 2. The side-by-side sweep *)
Definition state_ok (b:board) (p:pos) : bool :=
  board_eqb b (from_scratch p) && pos_eqb (abs_board b) p && pos_valid p
  && str_eqb (board_display b) (std_fen p (ep p)).

Fixpoint sweep (b:board) (p:pos) (ts:list str) (ms:list move) {struct ts} : bool :=
  state_ok b p &&
  match ts, ms with
  | [], [] => true
  | t :: ts', m :: ms' =>
    existsb (move_eqb m) (legal_moves p) && existsb (str_eqb t) (san_spellings p m) &&
    match from_san b t with
    | Ok c => cmove_eqb c (of_spec_move m) &&
              match make_move_new b (msrc c) (mdst c) (mpromo c) with
              | Some b' => sweep b' (apply p m) ts' ms'
              | None => false end
    | _ => false end
  | _, _ => false
  end.

(** what is established about ply [t] played as oracle move [m] on board [b] / position [p] *)
Definition ply_ok (b:board) (p:pos) (t:str) (m:move) : Prop :=
  In m (legal_moves p) /\ In t (san_spellings p m) /\ from_san b t = Ok (of_spec_move m).

Lemma state_ok_sound b p : state_ok b p = true ->
  b = from_scratch p /\ abs_board b = p /\ pos_valid p = true /\ board_display b = std_fen p (ep p).
Proof.
  unfold state_ok. intro H.
  apply andb_prop in H as [H H4]. apply andb_prop in H as [H H3]. apply andb_prop in H as [H1 H2].
  split; [apply board_eqb_eq, H1|]. split; [apply pos_eqb_eq, H2|]. split; [exact H3|].
  apply str_eqb_eq, H4.
Qed.

Lemma existsb_move_In m l : existsb (move_eqb m) l = true -> In m l.
Proof.
  intro H. apply existsb_exists in H as [x [Hx E]]. apply move_eqb_eq in E. subst x. exact Hx.
Qed.
Lemma existsb_str_In t l : existsb (str_eqb t) l = true -> In t l.
Proof.
  intro H. apply existsb_exists in H as [x [Hx E]]. apply str_eqb_eq in E. subst x. exact Hx.
Qed.
Lemma cmove_eqb_true a c : cmove_eqb a c = true -> a = c.
Proof.
  unfold cmove_eqb. intro H. apply andb_prop in H as [H H3]. apply andb_prop in H as [H1 H2].
  apply N.eqb_eq in H1, H2. destruct a as [a1 a2 a3], c as [c1 c2 c3].
  cbn [msrc mdst mpromo] in *. subst.
  destruct a3 as [x|], c3 as [y|]; cbn [promo_eqb] in H3; try discriminate H3; [|reflexivity].
  destruct x, y; try discriminate H3; reflexivity.
Qed.

Lemma sweep_unfold_cons b p t ts m ms : sweep b p (t :: ts) (m :: ms) = true ->
  state_ok b p = true /\ ply_ok b p t m /\
  exists b', make_move_new b (src m) (dst m) (promo m) = Some b' /\ sweep b' (apply p m) ts ms = true.
Proof.
  cbn [sweep]. intro H. apply andb_prop in H as [H0 H]. split; [exact H0|].
  apply andb_prop in H as [H H3]. apply andb_prop in H as [H1 H2].
  destruct (from_san b t) as [c| |] eqn:E; try discriminate H3.
  apply andb_prop in H3 as [H3 H4]. apply cmove_eqb_true in H3. subst c.
  cbn [of_spec_move msrc mdst mpromo] in H4.
  destruct (make_move_new b (src m) (dst m) (promo m)) as [b'|] eqn:E'; [|discriminate H4].
  split.
  - split; [apply existsb_move_In, H1|]. split; [apply existsb_str_In, H2|exact E].
  - exists b'. split; [reflexivity|exact H4].
Qed.

Lemma sweep_state b p ts ms : sweep b p ts ms = true -> state_ok b p = true.
Proof. destruct ts, ms; cbn [sweep]; intro H; apply andb_prop in H as [H _]; exact H. Qed.

Lemma sweep_length : forall ts ms b p, sweep b p ts ms = true -> length ms = length ts.
Proof.
  induction ts as [|t ts IH]; intros [|m ms] b p H.
  - reflexivity.
  - cbn [sweep] in H. apply andb_prop in H as [_ H]. discriminate H.
  - cbn [sweep] in H. apply andb_prop in H as [_ H]. discriminate H.
  - apply sweep_unfold_cons in H as [_ [_ [b' [_ H]]]]. cbn [length]. f_equal. exact (IH ms b' _ H).
Qed.

(** the main transfer: every prefix of the game *)
Theorem sweep_sound : forall ts ms b p, sweep b p ts ms = true ->
  forall k, (k <= length ts)%nat ->
  exists bk, play_san b (firstn k ts) = Some bk /\
    let pk := final_pos p (firstn k ms) in
    bk = from_scratch pk /\ abs_board bk = pk /\ pos_valid pk = true /\
    board_display bk = std_fen pk (ep pk) /\
    forall t, nth_error ts k = Some t -> exists m, nth_error ms k = Some m /\ ply_ok bk pk t m.
Proof.
  induction ts as [|t ts IH]; intros ms b p H k Hk.
  - assert (k = 0)%nat as -> by (cbn [length] in Hk; lia).
    exists b. split; [reflexivity|]. cbn zeta.
    destruct (state_ok_sound b p (sweep_state _ _ _ _ H)) as [S1 [S2 [S3 S4]]].
    replace (final_pos p (firstn 0 ms)) with p by reflexivity.
    split; [exact S1|]. split; [exact S2|]. split; [exact S3|]. split; [exact S4|].
    intros t Ht. discriminate Ht.
  - destruct ms as [|m ms]; [cbn [sweep] in H; apply andb_prop in H as [_ H]; discriminate H|].
    destruct (sweep_unfold_cons _ _ _ _ _ _ H) as [H0 [Hply [b' [Hmk Hrest]]]].
    destruct k as [|k].
    + exists b. split; [reflexivity|]. cbn zeta.
      destruct (state_ok_sound b p H0) as [S1 [S2 [S3 S4]]].
      replace (final_pos p (firstn 0 (m :: ms))) with p by reflexivity.
      split; [exact S1|]. split; [exact S2|]. split; [exact S3|]. split; [exact S4|].
      intros t' Ht'. cbn [nth_error] in Ht'. injection Ht' as <-. exists m. split; [reflexivity|exact Hply].
    + cbn [length] in Hk. assert (Hk' : (k <= length ts)%nat) by lia.
      destruct (IH ms b' (apply p m) Hrest k Hk') as [bk [Hplay Hrestk]].
      exists bk. split.
      * cbn [firstn play_san]. destruct Hply as [_ [_ Hp]]. rewrite Hp.
        cbn [of_spec_move msrc mdst mpromo]. rewrite Hmk. exact Hplay.
      * replace (final_pos p (firstn (S k) (m :: ms))) with (final_pos (apply p m) (firstn k ms)) by reflexivity.
        cbn [nth_error]. exact Hrestk.
Qed.

(** (c) every intermediate board is canonical and shows a valid position *)
Theorem sweep_boards ts ms b p : sweep b p ts ms = true ->
  forall k, (k <= length ts)%nat ->
  exists bk, play_san b (firstn k ts) = Some bk /\ bk = from_scratch (abs_board bk)
             /\ pos_valid (abs_board bk) = true.
Proof.
  intros H k Hk. destruct (sweep_sound ts ms b p H k Hk) as [bk [H1 HH]].
  cbn zeta in HH. destruct HH as [H2 [H3 [H4 _]]].
  exists bk. split; [exact H1|]. rewrite H3. split; [exact H2|exact H4].
Qed.

(** the library's FEN of every intermediate board is the standard writer's text of the position
    it shows, with the en-passant target the position records *)
Theorem sweep_fens ts ms b p : sweep b p ts ms = true ->
  forall k, (k <= length ts)%nat ->
  exists bk, play_san b (firstn k ts) = Some bk /\
             board_display bk = std_fen (abs_board bk) (ep (abs_board bk)).
Proof.
  intros H k Hk. destruct (sweep_sound ts ms b p H k Hk) as [bk [H1 HH]].
  cbn zeta in HH. destruct HH as [_ [H3 [_ [H5 _]]]].
  exists bk. split; [exact H1|]. rewrite H3. exact H5.
Qed.

(** the model walk and the oracle walk stay together *)
Theorem sweep_abs ts ms b p : sweep b p ts ms = true ->
  forall k, (k <= length ts)%nat ->
  exists bk, play_san b (firstn k ts) = Some bk /\ abs_board bk = final_pos p (firstn k ms).
Proof.
  intros H k Hk. destruct (sweep_sound ts ms b p H k Hk) as [bk [H1 HH]].
  cbn zeta in HH. destruct HH as [_ [H3 _]].
  exists bk. split; [exact H1|exact H3].
Qed.

Lemma of_spec_move_inj' m m' : of_spec_move m = of_spec_move m' -> m = m'.
Proof. destruct m, m'. cbn [of_spec_move]. intro H. injection H as -> -> ->. reflexivity. Qed.

(** a text spells at most one legal move of a valid position (from the round trip C12b) *)
Lemma spelling_unique p : pos_valid p = true -> forall t m m',
  In m (legal_moves p) -> In t (san_spellings p m) ->
  In m' (legal_moves p) -> In t (san_spellings p m') -> m' = m.
Proof.
  intros HV t m m' Hm Ht Hm' Ht'.
  pose proof (roundtrip_full p HV m t Hm Ht) as E.
  pose proof (roundtrip_full p HV m' t Hm' Ht') as E'.
  rewrite E in E'. symmetry. apply of_spec_move_inj'. congruence.
Qed.

(** (d) the text played at every ply is an admissible spelling of the oracle move — of that
    move only — in the oracle position, which is valid; and the parser, on the from-scratch board
    of the oracle position, returns the move *)
Theorem sweep_spellings ts ms b p : sweep b p ts ms = true ->
  forall k t, nth_error ts k = Some t ->
  exists m, nth_error ms k = Some m /\
    let pk := final_pos p (firstn k ms) in
    pos_valid pk = true /\ In m (legal_moves pk) /\ In t (san_spellings pk m) /\
    (forall m', In m' (legal_moves pk) -> In t (san_spellings pk m') -> m' = m) /\
    from_san (from_scratch pk) t = Ok (of_spec_move m).
Proof.
  intros H k t Ht.
  assert (Hk : (k <= length ts)%nat).
  { assert (k < length ts)%nat by (apply nth_error_Some; rewrite Ht; discriminate). lia. }
  destruct (sweep_sound ts ms b p H k Hk) as [bk [_ HH]].
  cbn zeta in HH. destruct HH as [H2 [_ [H4 [_ H6]]]].
  destruct (H6 t Ht) as [m [Hm [P1 [P2 P3]]]].
  exists m. split; [exact Hm|]. cbn zeta. split; [exact H4|]. split; [exact P1|]. split; [exact P2|].
  split.
  - intros m' L S. exact (spelling_unique _ H4 t m m' P1 P2 L S).
  - rewrite <- H2. exact P3.
Qed.

(** the final board shows the oracle's final position *)
Theorem sweep_final ts ms b p bf : sweep b p ts ms = true -> play_san b ts = Some bf ->
  abs_board bf = final_pos p ms /\ bf = from_scratch (final_pos p ms)
  /\ pos_valid (final_pos p ms) = true.
Proof.
  intros H Hf.
  destruct (sweep_sound ts ms b p H (length ts) (Nat.le_refl _)) as [bk [H1 HH]].
  cbn zeta in HH. destruct HH as [H2 [H3 [H4 _]]].
  rewrite firstn_all in H1. rewrite Hf in H1. injection H1 as <-.
  rewrite <- (sweep_length _ _ _ _ H), firstn_all in H2, H3, H4.
  split; [exact H3|]. split; [exact H2|exact H4].
Qed.

(** once the game has a result, [Game::make_move] refuses everything *)
Lemma over_refuses g : has_result g = Some true -> forall m, g_make_move g m = Some (false, g).
Proof. intros H m. unfold g_make_move. rewrite H. reflexivity. Qed.

#[local] Notation start := (from_scratch startpos) (only parsing).
(** a list of (source, destination) squares as oracle moves without promotion *)
Definition mvs (l:list (N*N)) : list move := map (fun sd => mv (fst sd) (snd sd)) l.
Definition spec_moves_of (o:option (list cmove)) : list move :=
  match o with Some l => map to_spec_move l | None => [] end.
Definition board_or_new (o:option board) : board := match o with Some b => b | None => board_new end.
Definition game_or_new (o:option game) : game := match o with Some g => g | None => new_with_board board_new end.
(** the legal moves of [p] that have [t] among their spellings *)
Definition spelled_by (p:pos) (t:str) : list move :=
  filter (fun m => existsb (str_eqb t) (san_spellings p m)) (legal_moves p).
Lemma spelled_by_nil p t : spelled_by p t = [] ->
  forall m, In m (legal_moves p) -> ~ In t (san_spellings p m).
Proof.
  intros H m Hm Ht.
  assert (Hin : In m (spelled_by p t)).
  { unfold spelled_by. apply filter_In. split; [exact Hm|]. apply existsb_exists. exists t.
    split; [exact Ht|]. apply str_eqb_eq. reflexivity. }
  rewrite H in Hin. exact Hin.
Qed.

(** ** 3. The Opera game (Morphy, Paris 1858), 33 plies *)
Definition opera_texts : list str := map s_of
  ["e4";"e5";"Nf3";"d6";"d4";"Bg4";"dxe5";"Bxf3";"Qxf3";"dxe5";"Bc4";"Nf6";"Qb3";"Qe7";"Nc3";"c6";
   "Bg5";"b5";"Nxb5";"cxb5";"Bxb5+";"Nbd7";"O-O-O";"Rd8";"Rxd7";"Rxd7";"Rd1";"Qe6";"Bxd7+";"Nxd7";
   "Qb8+";"Nxb8";"Rd8#"]%string.
Definition opera_fen : str := s_of "1n1Rkb1r/p4ppp/4q3/4p1B1/4P3/8/PPP2PPP/2K5 b k - 0 1"%string.
Definition opera_final : board := Eval vm_compute in board_or_new (play_san start opera_texts).
Definition opera_cmoves : list cmove := Eval vm_compute in
  match san_moves start opera_texts with Some l => l | None => [] end.
(** the oracle's moves: the same squares as [move] records *)
Definition opera_moves : list move := Eval vm_compute in map to_spec_move opera_cmoves.
Definition opera_game : game := Eval vm_compute in game_or_new (game_play_san (new_with_board start) opera_texts).

Lemma opera_len : length opera_texts = 33%nat. Proof. reflexivity. Qed.
Lemma opera_play : play_san start opera_texts = Some opera_final.
Proof. vm_cast_no_check (eq_refl (Some opera_final)). Qed.
Lemma opera_parsed : san_moves start opera_texts = Some opera_cmoves.
Proof. vm_cast_no_check (eq_refl (Some opera_cmoves)). Qed.
Lemma opera_moves_explicit : opera_moves = mvs
  [(12,28);(52,36);(6,21);(51,43);(11,27);(58,30);(27,36);(30,21);(3,21);(43,36);(5,26);(62,45);
   (21,17);(59,52);(1,18);(50,42);(2,38);(49,33);(18,33);(42,33);(26,33);(57,51);(4,2);(56,59);
   (3,51);(59,51);(7,3);(52,44);(33,51);(45,51);(17,57);(51,57);(3,59)].
Proof. vm_compute. reflexivity. Qed.
Lemma opera_moves_parsed : map of_spec_move opera_moves = opera_cmoves.
Proof. vm_cast_no_check (eq_refl opera_cmoves). Qed.
Lemma opera_moves_all : san_moves start opera_texts = Some (map of_spec_move opera_moves).
Proof. rewrite opera_moves_parsed. exact opera_parsed. Qed.
Lemma opera_display : board_display opera_final = opera_fen.
Proof. vm_cast_no_check (eq_refl opera_fen). Qed.
Lemma opera_model_status : board_status opera_final = Checkmate.
Proof. vm_cast_no_check (eq_refl Checkmate). Qed.
Lemma opera_oracle_status : status (abs_board opera_final) = Checkmate.
Proof. vm_cast_no_check (eq_refl Checkmate). Qed.
Lemma opera_sweep : sweep start startpos opera_texts opera_moves = true.
Proof. vm_cast_no_check (eq_refl true). Qed.

Lemma opera_fen_status : exists bf, play_san start opera_texts = Some bf /\
  board_display bf = opera_fen /\
  board_status bf = Checkmate /\ status (abs_board bf) = Checkmate.
Proof.
  exists opera_final.
  exact (conj opera_play (conj opera_display (conj opera_model_status opera_oracle_status))).
Qed.

Lemma opera_boards : forall k, (k <= 33)%nat ->
  exists b, play_san start (firstn k opera_texts) = Some b /\ b = from_scratch (abs_board b)
            /\ pos_valid (abs_board b) = true.
Proof. intros k Hk. rewrite <- opera_len in Hk. exact (sweep_boards _ _ _ _ opera_sweep k Hk). Qed.

Lemma opera_fens : forall k, (k <= 33)%nat ->
  exists b, play_san start (firstn k opera_texts) = Some b /\
            board_display b = std_fen (abs_board b) (ep (abs_board b)).
Proof. intros k Hk. rewrite <- opera_len in Hk. exact (sweep_fens _ _ _ _ opera_sweep k Hk). Qed.

Lemma opera_abs : forall k, (k <= 33)%nat ->
  exists b, play_san start (firstn k opera_texts) = Some b /\
            abs_board b = final_pos startpos (firstn k opera_moves).
Proof. intros k Hk. rewrite <- opera_len in Hk. exact (sweep_abs _ _ _ _ opera_sweep k Hk). Qed.

Lemma opera_spellings : forall k t, nth_error opera_texts k = Some t ->
  exists m, nth_error opera_moves k = Some m /\
    let pk := final_pos startpos (firstn k opera_moves) in
    pos_valid pk = true /\ In m (legal_moves pk) /\ In t (san_spellings pk m) /\
    (forall m', In m' (legal_moves pk) -> In t (san_spellings pk m') -> m' = m) /\
    from_san (from_scratch pk) t = Ok (of_spec_move m).
Proof. exact (sweep_spellings _ _ _ _ opera_sweep). Qed.

Lemma opera_oracle_final : abs_board opera_final = final_pos startpos opera_moves /\
  opera_final = from_scratch (final_pos startpos opera_moves) /\
  pos_valid (final_pos startpos opera_moves) = true.
Proof. exact (sweep_final _ _ _ _ _ opera_sweep opera_play). Qed.

(** the oracle's own FEN writer on the oracle's final position (the last move, Rd8#, is no double
    push: [None]) gives the library's text — all six fields, since both print "0 1" *)
Lemma opera_std_fen_eval : std_fen (abs_board opera_final) None = opera_fen.
Proof. vm_cast_no_check (eq_refl opera_fen). Qed.
Lemma opera_std_fen : exists bf, play_san start opera_texts = Some bf /\
  abs_board bf = final_pos startpos opera_moves /\
  pos_valid (final_pos startpos opera_moves) = true /\
  status (final_pos startpos opera_moves) = Checkmate /\
  std_fen (final_pos startpos opera_moves) None = opera_fen /\
  std_fen (final_pos startpos opera_moves) None = board_display bf.
Proof.
  exists opera_final. split; [exact opera_play|].
  destruct opera_oracle_final as [E [_ V]]. split; [exact E|]. split; [exact V|]. rewrite <- E.
  split; [exact opera_oracle_status|]. split; [exact opera_std_fen_eval|].
  rewrite opera_display. exact opera_std_fen_eval.
Qed.

(** (e) the [Game] protocol *)
Lemma opera_game_play : game_play_san (new_with_board start) opera_texts = Some opera_game.
Proof. vm_cast_no_check (eq_refl (Some opera_game)). Qed.
Lemma opera_game_log : actions opera_game = map MakeMove opera_cmoves.
Proof. vm_cast_no_check (eq_refl (actions opera_game)). Qed.
Lemma opera_game_position : current_position opera_game = Some opera_final.
Proof. vm_cast_no_check (eq_refl (Some opera_final)). Qed.
Lemma opera_game_result : result opera_game = Some (Some WhiteCheckmates).
Proof. vm_cast_no_check (eq_refl (Some (Some WhiteCheckmates))). Qed.
Lemma opera_game_has_result : has_result opera_game = Some true.
Proof. vm_cast_no_check (eq_refl (Some true)). Qed.
Lemma opera_game_all : exists gm, game_play_san (new_with_board start) opera_texts = Some gm /\
  actions gm = map MakeMove (map of_spec_move opera_moves) /\
  (exists bf, play_san start opera_texts = Some bf /\ current_position gm = Some bf) /\
  result gm = Some (Some WhiteCheckmates) /\
  forall m, g_make_move gm m = Some (false, gm).
Proof.
  exists opera_game. rewrite opera_moves_parsed.
  split; [exact opera_game_play|]. split; [exact opera_game_log|].
  split; [exists opera_final; exact (conj opera_play opera_game_position)|].
  split; [exact opera_game_result|exact (over_refuses _ opera_game_has_result)].
Qed.

(** negative example: before ply 22 (Black answers Bxb5+) both knights, b8 and f6, can interpose
    on d7: the text "Nd7" is rejected by the parser and is a spelling of no legal move; each of
    the disambiguated texts is accepted *)
Definition opera_b21 : board := Eval vm_compute in board_or_new (play_san start (firstn 21 opera_texts)).
Lemma opera_b21_play : play_san start (firstn 21 opera_texts) = Some opera_b21.
Proof. vm_cast_no_check (eq_refl (Some opera_b21)). Qed.
Lemma opera_b21_model :
  from_san opera_b21 (s_of "Nd7") = Err /\
  from_san opera_b21 (s_of "Nbd7") = Ok {| msrc := 57; mdst := 51; mpromo := None |} /\
  from_san opera_b21 (s_of "N8d7") = Ok {| msrc := 57; mdst := 51; mpromo := None |} /\
  from_san opera_b21 (s_of "Nfd7") = Ok {| msrc := 45; mdst := 51; mpromo := None |} /\
  from_san opera_b21 (s_of "N6d7") = Ok {| msrc := 45; mdst := 51; mpromo := None |} /\
  from_san opera_b21 (s_of "Ke7") = Err.
Proof. vm_compute. repeat split. Qed.
Lemma opera_b21_spec_eval : spelled_by (abs_board opera_b21) (s_of "Nd7") = [] /\
  existsb (move_eqb (mv 57 51)) (legal_moves (abs_board opera_b21)) = true /\
  existsb (move_eqb (mv 45 51)) (legal_moves (abs_board opera_b21)) = true.
Proof. vm_cast_no_check (conj (@eq_refl (list move) []) (conj (@eq_refl bool true) (@eq_refl bool true))). Qed.
Lemma opera_negative : exists b, play_san start (firstn 21 opera_texts) = Some b /\
  In (mv 57 51) (legal_moves (abs_board b)) /\ In (mv 45 51) (legal_moves (abs_board b)) /\
  from_san b (s_of "Nd7") = Err /\
  (forall m, In m (legal_moves (abs_board b)) -> ~ In (s_of "Nd7") (san_spellings (abs_board b) m)) /\
  from_san b (s_of "Nbd7") = Ok (of_spec_move (mv 57 51)) /\
  from_san b (s_of "Nfd7") = Ok (of_spec_move (mv 45 51)).
Proof.
  exists opera_b21. split; [exact opera_b21_play|].
  destruct opera_b21_spec_eval as [S1 [S2 S3]].
  destruct opera_b21_model as [M1 [M2 [_ [M4 _]]]].
  split; [exact (existsb_move_In _ _ S2)|]. split; [exact (existsb_move_In _ _ S3)|].
  split; [exact M1|]. split; [exact (spelled_by_nil _ _ S1)|]. split; [exact M2|exact M4].
Qed.

(** ** 4. Fool's mate, 4 plies *)
Definition fools_texts : list str := map s_of ["f3";"e5";"g4";"Qh4#"]%string.
Definition fools_fen : str := s_of "rnb1kbnr/pppp1ppp/8/4p3/6Pq/5P2/PPPPP2P/RNBQKBNR w KQkq - 0 1"%string.
Definition fools_final : board := Eval vm_compute in board_or_new (play_san start fools_texts).
Definition fools_cmoves : list cmove := Eval vm_compute in
  match san_moves start fools_texts with Some l => l | None => [] end.
Definition fools_moves : list move := Eval vm_compute in map to_spec_move fools_cmoves.
Definition fools_game : game := Eval vm_compute in game_or_new (game_play_san (new_with_board start) fools_texts).

Lemma fools_len : length fools_texts = 4%nat. Proof. reflexivity. Qed.
Lemma fools_play : play_san start fools_texts = Some fools_final.
Proof. vm_cast_no_check (eq_refl (Some fools_final)). Qed.
Lemma fools_parsed : san_moves start fools_texts = Some fools_cmoves.
Proof. vm_cast_no_check (eq_refl (Some fools_cmoves)). Qed.
Lemma fools_moves_explicit : fools_moves = mvs [(13,21);(52,36);(14,30);(59,31)].
Proof. vm_compute. reflexivity. Qed.
Lemma fools_moves_parsed : map of_spec_move fools_moves = fools_cmoves.
Proof. vm_cast_no_check (eq_refl fools_cmoves). Qed.
Lemma fools_moves_all : san_moves start fools_texts = Some (map of_spec_move fools_moves).
Proof. rewrite fools_moves_parsed. exact fools_parsed. Qed.
Lemma fools_display : board_display fools_final = fools_fen.
Proof. vm_cast_no_check (eq_refl fools_fen). Qed.
Lemma fools_model_status : board_status fools_final = Checkmate.
Proof. vm_cast_no_check (eq_refl Checkmate). Qed.
Lemma fools_oracle_status : status (abs_board fools_final) = Checkmate.
Proof. vm_cast_no_check (eq_refl Checkmate). Qed.
Lemma fools_sweep : sweep start startpos fools_texts fools_moves = true.
Proof. vm_cast_no_check (eq_refl true). Qed.

Lemma fools_fen_status : exists bf, play_san start fools_texts = Some bf /\
  board_display bf = fools_fen /\
  board_status bf = Checkmate /\ status (abs_board bf) = Checkmate.
Proof.
  exists fools_final.
  exact (conj fools_play (conj fools_display (conj fools_model_status fools_oracle_status))).
Qed.

Lemma fools_boards : forall k, (k <= 4)%nat ->
  exists b, play_san start (firstn k fools_texts) = Some b /\ b = from_scratch (abs_board b)
            /\ pos_valid (abs_board b) = true.
Proof. intros k Hk. rewrite <- fools_len in Hk. exact (sweep_boards _ _ _ _ fools_sweep k Hk). Qed.

Lemma fools_fens : forall k, (k <= 4)%nat ->
  exists b, play_san start (firstn k fools_texts) = Some b /\
            board_display b = std_fen (abs_board b) (ep (abs_board b)).
Proof. intros k Hk. rewrite <- fools_len in Hk. exact (sweep_fens _ _ _ _ fools_sweep k Hk). Qed.

Lemma fools_abs : forall k, (k <= 4)%nat ->
  exists b, play_san start (firstn k fools_texts) = Some b /\
            abs_board b = final_pos startpos (firstn k fools_moves).
Proof. intros k Hk. rewrite <- fools_len in Hk. exact (sweep_abs _ _ _ _ fools_sweep k Hk). Qed.

Lemma fools_spellings : forall k t, nth_error fools_texts k = Some t ->
  exists m, nth_error fools_moves k = Some m /\
    let pk := final_pos startpos (firstn k fools_moves) in
    pos_valid pk = true /\ In m (legal_moves pk) /\ In t (san_spellings pk m) /\
    (forall m', In m' (legal_moves pk) -> In t (san_spellings pk m') -> m' = m) /\
    from_san (from_scratch pk) t = Ok (of_spec_move m).
Proof. exact (sweep_spellings _ _ _ _ fools_sweep). Qed.

Lemma fools_oracle_final : abs_board fools_final = final_pos startpos fools_moves /\
  fools_final = from_scratch (final_pos startpos fools_moves) /\
  pos_valid (final_pos startpos fools_moves) = true.
Proof. exact (sweep_final _ _ _ _ _ fools_sweep fools_play). Qed.

Lemma fools_std_fen_eval : std_fen (abs_board fools_final) None = fools_fen.
Proof. vm_cast_no_check (eq_refl fools_fen). Qed.
Lemma fools_std_fen : exists bf, play_san start fools_texts = Some bf /\
  abs_board bf = final_pos startpos fools_moves /\
  pos_valid (final_pos startpos fools_moves) = true /\
  status (final_pos startpos fools_moves) = Checkmate /\
  std_fen (final_pos startpos fools_moves) None = fools_fen /\
  std_fen (final_pos startpos fools_moves) None = board_display bf.
Proof.
  exists fools_final. split; [exact fools_play|].
  destruct fools_oracle_final as [E [_ V]]. split; [exact E|]. split; [exact V|]. rewrite <- E.
  split; [exact fools_oracle_status|]. split; [exact fools_std_fen_eval|].
  rewrite fools_display. exact fools_std_fen_eval.
Qed.

Lemma fools_game_play : game_play_san (new_with_board start) fools_texts = Some fools_game.
Proof. vm_cast_no_check (eq_refl (Some fools_game)). Qed.
Lemma fools_game_log : actions fools_game = map MakeMove fools_cmoves.
Proof. vm_cast_no_check (eq_refl (actions fools_game)). Qed.
Lemma fools_game_position : current_position fools_game = Some fools_final.
Proof. vm_cast_no_check (eq_refl (Some fools_final)). Qed.
Lemma fools_game_result : result fools_game = Some (Some BlackCheckmates).
Proof. vm_cast_no_check (eq_refl (Some (Some BlackCheckmates))). Qed.
Lemma fools_game_has_result : has_result fools_game = Some true.
Proof. vm_cast_no_check (eq_refl (Some true)). Qed.
Lemma fools_game_all : exists gm, game_play_san (new_with_board start) fools_texts = Some gm /\
  actions gm = map MakeMove (map of_spec_move fools_moves) /\
  (exists bf, play_san start fools_texts = Some bf /\ current_position gm = Some bf) /\
  result gm = Some (Some BlackCheckmates) /\
  forall m, g_make_move gm m = Some (false, gm).
Proof.
  exists fools_game. rewrite fools_moves_parsed.
  split; [exact fools_game_play|]. split; [exact fools_game_log|].
  split; [exists fools_final; exact (conj fools_play fools_game_position)|].
  split; [exact fools_game_result|exact (over_refuses _ fools_game_has_result)].
Qed.

(** the check marker: the parser does not verify it ("Qh4", "Qh4+" and "Qh4#" all give d8-h4),
    whereas the specification lists "Qh4" and "Qh4#" (and their over-disambiguated forms "Qdh4", "Q8h4",
    "Qd8h4", each with and without "#") but not "Qh4+" (the move mates); a capture
    marker onto an empty square is rejected, and so is a square the queen cannot reach *)
Definition fools_b3 : board := Eval vm_compute in board_or_new (play_san start (firstn 3 fools_texts)).
Lemma fools_b3_play : play_san start (firstn 3 fools_texts) = Some fools_b3.
Proof. vm_cast_no_check (eq_refl (Some fools_b3)). Qed.
Lemma fools_b3_model :
  from_san fools_b3 (s_of "Qh4") = Ok {| msrc := 59; mdst := 31; mpromo := None |} /\
  from_san fools_b3 (s_of "Qh4+") = Ok {| msrc := 59; mdst := 31; mpromo := None |} /\
  from_san fools_b3 (s_of "Qh4#") = Ok {| msrc := 59; mdst := 31; mpromo := None |} /\
  from_san fools_b3 (s_of "Qxh4#") = Err /\
  from_san fools_b3 (s_of "Qh5") = Err.
Proof. vm_compute. repeat split. Qed.
Lemma fools_b3_spec_eval :
  san_spellings (abs_board fools_b3) (mv 59 31) = map s_of ["Qh4";"Qh4#";"Qdh4";"Qdh4#";"Q8h4";"Q8h4#";"Qd8h4";"Qd8h4#"]%string /\
  spelled_by (abs_board fools_b3) (s_of "Qh4+") = [].
Proof.
  vm_cast_no_check (conj (@eq_refl (list str) (map s_of ["Qh4";"Qh4#";"Qdh4";"Qdh4#";"Q8h4";"Q8h4#";"Qd8h4";"Qd8h4#"]%string))
                         (@eq_refl (list move) [])).
Qed.
Lemma fools_negative : exists b, play_san start (firstn 3 fools_texts) = Some b /\
  from_san b (s_of "Qxh4#") = Err /\ from_san b (s_of "Qh5") = Err /\
  from_san b (s_of "Qh4") = Ok (of_spec_move (mv 59 31)) /\
  from_san b (s_of "Qh4+") = Ok (of_spec_move (mv 59 31)) /\
  san_spellings (abs_board b) (mv 59 31) = map s_of ["Qh4";"Qh4#";"Qdh4";"Qdh4#";"Q8h4";"Q8h4#";"Qd8h4";"Qd8h4#"]%string /\
  (forall m, In m (legal_moves (abs_board b)) -> ~ In (s_of "Qh4+") (san_spellings (abs_board b) m)).
Proof.
  exists fools_b3. split; [exact fools_b3_play|].
  destruct fools_b3_model as [M1 [M2 [_ [M4 M5]]]].
  destruct fools_b3_spec_eval as [S1 S2].
  split; [exact M4|]. split; [exact M5|].
  split; [exact M1|]. split; [exact M2|]. split; [exact S1|exact (spelled_by_nil _ _ S2)].
Qed.

(** ** 5. Scholar's mate, 7 plies *)
Definition scholars_texts : list str := map s_of ["e4";"e5";"Bc4";"Nc6";"Qh5";"Nf6";"Qxf7#"]%string.
(** the FEN the library prints: the knight on g1 has not moved *)
Definition scholars_fen : str := s_of "r1bqkb1r/pppp1Qpp/2n2n2/4p3/2B1P3/8/PPPP1PPP/RNB1K1NR b KQkq - 0 1"%string.
(** the placement given in the task statement for this game (first rank "RNB1K2R": no knight on
    g1) is NOT what comes out — recorded below as a discrepancy of the transcription *)
Definition scholars_fen_as_transcribed : str :=
  s_of "r1bqkb1r/pppp1Qpp/2n2n2/4p3/2B1P3/8/PPPP1PPP/RNB1K2R b KQkq - 0 1"%string.
Definition scholars_final : board := Eval vm_compute in board_or_new (play_san start scholars_texts).
Definition scholars_cmoves : list cmove := Eval vm_compute in
  match san_moves start scholars_texts with Some l => l | None => [] end.
Definition scholars_moves : list move := Eval vm_compute in map to_spec_move scholars_cmoves.
Definition scholars_game : game := Eval vm_compute in game_or_new (game_play_san (new_with_board start) scholars_texts).

Lemma scholars_len : length scholars_texts = 7%nat. Proof. reflexivity. Qed.
Lemma scholars_play : play_san start scholars_texts = Some scholars_final.
Proof. vm_cast_no_check (eq_refl (Some scholars_final)). Qed.
Lemma scholars_parsed : san_moves start scholars_texts = Some scholars_cmoves.
Proof. vm_cast_no_check (eq_refl (Some scholars_cmoves)). Qed.
Lemma scholars_moves_explicit : scholars_moves = mvs [(12,28);(52,36);(5,26);(57,42);(3,39);(62,45);(39,53)].
Proof. vm_compute. reflexivity. Qed.
Lemma scholars_moves_parsed : map of_spec_move scholars_moves = scholars_cmoves.
Proof. vm_cast_no_check (eq_refl scholars_cmoves). Qed.
Lemma scholars_moves_all : san_moves start scholars_texts = Some (map of_spec_move scholars_moves).
Proof. rewrite scholars_moves_parsed. exact scholars_parsed. Qed.
Lemma scholars_display : board_display scholars_final = scholars_fen.
Proof. vm_cast_no_check (eq_refl scholars_fen). Qed.
Lemma scholars_display_not_as_transcribed : exists bf, play_san start scholars_texts = Some bf /\
  board_display bf <> scholars_fen_as_transcribed /\
  piece_on bf 6 = Some Knight /\ color_on bf 6 = Some White /\
  at_ (abs_board bf) 6 = Some (Knight, White).
Proof.
  exists scholars_final. split; [exact scholars_play|].
  split; [|vm_compute; repeat split].
  rewrite scholars_display. intro H.
  assert (E : str_eqb scholars_fen scholars_fen_as_transcribed = true) by (apply str_eqb_eq, H).
  vm_compute in E. discriminate E.
Qed.
Lemma scholars_model_status : board_status scholars_final = Checkmate.
Proof. vm_cast_no_check (eq_refl Checkmate). Qed.
Lemma scholars_oracle_status : status (abs_board scholars_final) = Checkmate.
Proof. vm_cast_no_check (eq_refl Checkmate). Qed.
Lemma scholars_sweep : sweep start startpos scholars_texts scholars_moves = true.
Proof. vm_cast_no_check (eq_refl true). Qed.

Lemma scholars_fen_status : exists bf, play_san start scholars_texts = Some bf /\
  board_display bf = scholars_fen /\
  board_status bf = Checkmate /\ status (abs_board bf) = Checkmate.
Proof.
  exists scholars_final.
  exact (conj scholars_play (conj scholars_display (conj scholars_model_status scholars_oracle_status))).
Qed.

Lemma scholars_boards : forall k, (k <= 7)%nat ->
  exists b, play_san start (firstn k scholars_texts) = Some b /\ b = from_scratch (abs_board b)
            /\ pos_valid (abs_board b) = true.
Proof. intros k Hk. rewrite <- scholars_len in Hk. exact (sweep_boards _ _ _ _ scholars_sweep k Hk). Qed.

Lemma scholars_fens : forall k, (k <= 7)%nat ->
  exists b, play_san start (firstn k scholars_texts) = Some b /\
            board_display b = std_fen (abs_board b) (ep (abs_board b)).
Proof. intros k Hk. rewrite <- scholars_len in Hk. exact (sweep_fens _ _ _ _ scholars_sweep k Hk). Qed.

Lemma scholars_abs : forall k, (k <= 7)%nat ->
  exists b, play_san start (firstn k scholars_texts) = Some b /\
            abs_board b = final_pos startpos (firstn k scholars_moves).
Proof. intros k Hk. rewrite <- scholars_len in Hk. exact (sweep_abs _ _ _ _ scholars_sweep k Hk). Qed.

Lemma scholars_spellings : forall k t, nth_error scholars_texts k = Some t ->
  exists m, nth_error scholars_moves k = Some m /\
    let pk := final_pos startpos (firstn k scholars_moves) in
    pos_valid pk = true /\ In m (legal_moves pk) /\ In t (san_spellings pk m) /\
    (forall m', In m' (legal_moves pk) -> In t (san_spellings pk m') -> m' = m) /\
    from_san (from_scratch pk) t = Ok (of_spec_move m).
Proof. exact (sweep_spellings _ _ _ _ scholars_sweep). Qed.

Lemma scholars_oracle_final : abs_board scholars_final = final_pos startpos scholars_moves /\
  scholars_final = from_scratch (final_pos startpos scholars_moves) /\
  pos_valid (final_pos startpos scholars_moves) = true.
Proof. exact (sweep_final _ _ _ _ _ scholars_sweep scholars_play). Qed.

Lemma scholars_std_fen_eval : std_fen (abs_board scholars_final) None = scholars_fen.
Proof. vm_cast_no_check (eq_refl scholars_fen). Qed.
Lemma scholars_std_fen : exists bf, play_san start scholars_texts = Some bf /\
  abs_board bf = final_pos startpos scholars_moves /\
  pos_valid (final_pos startpos scholars_moves) = true /\
  status (final_pos startpos scholars_moves) = Checkmate /\
  std_fen (final_pos startpos scholars_moves) None = scholars_fen /\
  std_fen (final_pos startpos scholars_moves) None = board_display bf.
Proof.
  exists scholars_final. split; [exact scholars_play|].
  destruct scholars_oracle_final as [E [_ V]]. split; [exact E|]. split; [exact V|]. rewrite <- E.
  split; [exact scholars_oracle_status|]. split; [exact scholars_std_fen_eval|].
  rewrite scholars_display. exact scholars_std_fen_eval.
Qed.

Lemma scholars_game_play : game_play_san (new_with_board start) scholars_texts = Some scholars_game.
Proof. vm_cast_no_check (eq_refl (Some scholars_game)). Qed.
Lemma scholars_game_log : actions scholars_game = map MakeMove scholars_cmoves.
Proof. vm_cast_no_check (eq_refl (actions scholars_game)). Qed.
Lemma scholars_game_position : current_position scholars_game = Some scholars_final.
Proof. vm_cast_no_check (eq_refl (Some scholars_final)). Qed.
Lemma scholars_game_result : result scholars_game = Some (Some WhiteCheckmates).
Proof. vm_cast_no_check (eq_refl (Some (Some WhiteCheckmates))). Qed.
Lemma scholars_game_has_result : has_result scholars_game = Some true.
Proof. vm_cast_no_check (eq_refl (Some true)). Qed.
Lemma scholars_game_all : exists gm, game_play_san (new_with_board start) scholars_texts = Some gm /\
  actions gm = map MakeMove (map of_spec_move scholars_moves) /\
  (exists bf, play_san start scholars_texts = Some bf /\ current_position gm = Some bf) /\
  result gm = Some (Some WhiteCheckmates) /\
  forall m, g_make_move gm m = Some (false, gm).
Proof.
  exists scholars_game. rewrite scholars_moves_parsed.
  split; [exact scholars_game_play|]. split; [exact scholars_game_log|].
  split; [exists scholars_final; exact (conj scholars_play scholars_game_position)|].
  split; [exact scholars_game_result|exact (over_refuses _ scholars_game_has_result)].
Qed.

(** negative example: before ply 7 the queen takes a pawn on f7; the text without the capture
    marker, "Qf7#", is rejected by the parser and is a spelling of no legal move; with the marker
    it is accepted whatever the check marker; "Bxf7+" is another legal move *)
Definition scholars_b6 : board := Eval vm_compute in board_or_new (play_san start (firstn 6 scholars_texts)).
Lemma scholars_b6_play : play_san start (firstn 6 scholars_texts) = Some scholars_b6.
Proof. vm_cast_no_check (eq_refl (Some scholars_b6)). Qed.
Lemma scholars_b6_model :
  from_san scholars_b6 (s_of "Qf7#") = Err /\
  from_san scholars_b6 (s_of "Qxf7") = Ok {| msrc := 39; mdst := 53; mpromo := None |} /\
  from_san scholars_b6 (s_of "Qxf7+") = Ok {| msrc := 39; mdst := 53; mpromo := None |} /\
  from_san scholars_b6 (s_of "Qxf7#") = Ok {| msrc := 39; mdst := 53; mpromo := None |} /\
  from_san scholars_b6 (s_of "Bxf7+") = Ok {| msrc := 26; mdst := 53; mpromo := None |}.
Proof. vm_compute. repeat split. Qed.
Lemma scholars_b6_spec_eval :
  spelled_by (abs_board scholars_b6) (s_of "Qf7#") = [] /\
  spelled_by (abs_board scholars_b6) (s_of "Qxf7#") = [mv 39 53].
Proof. vm_cast_no_check (conj (@eq_refl (list move) []) (@eq_refl (list move) [mv 39 53])). Qed.
Lemma scholars_negative : exists b, play_san start (firstn 6 scholars_texts) = Some b /\
  from_san b (s_of "Qf7#") = Err /\
  (forall m, In m (legal_moves (abs_board b)) -> ~ In (s_of "Qf7#") (san_spellings (abs_board b) m)) /\
  from_san b (s_of "Qxf7") = Ok (of_spec_move (mv 39 53)) /\
  from_san b (s_of "Qxf7+") = Ok (of_spec_move (mv 39 53)) /\
  from_san b (s_of "Bxf7+") = Ok (of_spec_move (mv 26 53)) /\
  spelled_by (abs_board b) (s_of "Qxf7#") = [mv 39 53].
Proof.
  exists scholars_b6. split; [exact scholars_b6_play|].
  destruct scholars_b6_model as [M1 [M2 [M3 [_ M5]]]].
  destruct scholars_b6_spec_eval as [S1 S2].
  split; [exact M1|]. split; [exact (spelled_by_nil _ _ S1)|].
  split; [exact M2|]. split; [exact M3|]. split; [exact M5|exact S2].
Qed.
