// Verification harness: drives the real library (path dependency on /repo) and prints
// canonical result lines that the extracted Coq model / specification are compared with.
mod common;
mod dumpfns;
mod pos;
mod text;
mod iter;
mod game;
mod misc;
mod extra;
mod replay;

fn main() {
    let args: Vec<String> = std::env::args().collect();
    let cmd = args.get(1).map(|s| s.as_str()).unwrap_or("");
    let n: u64 = args.get(2).and_then(|s| s.parse().ok()).unwrap_or(100);
    match cmd {
        "dumpfns" => dumpfns::run(),
        "pos" => pos::run(n, args.get(3).map(|s| s.as_str()).unwrap_or("full")),
        "replaypos" => pos::replay(&args[2]),
        "replayops" => replay::run(&args[2]),
        "mirror" => pos::mirror(n),
        "endgame" => pos::endgame(n),
        "fen" => text::fen(n),
        "fenfuzz" => text::fenfuzz(n),
        "builder" => text::builder(n),
        "san" => text::san(n),
        "sanparse" => text::parse_stage("sanparse"),
        "fenparse" => text::parse_stage("fenparse"),
        "uci" => text::uci(n),
        "iter" => iter::run(n),
        "game" => game::run(n, args.get(3).map(|s| s.as_str()).unwrap_or("mix")),
        "magic" => misc::magic(n),
        "pawnfns" => misc::pawnfns(n),
        "cache" => misc::cache(n),
        "bits" => misc::bits(n),
        "zob" => misc::zob(n),
        "crowded" => misc::crowded(n),
        "miri" => misc::miri_cases(),
        "extra" => extra::run(n),
        "extra2" => extra::run2(n),
        _ => { eprintln!("unknown command {}", cmd); std::process::exit(2); }
    }
}
