(** * C01 — legal move generation is exact: no missing, extra or duplicate moves.

    For every board [b] that is the canonical board of a valid position
    ([b = from_scratch (abs_board b)], [pos_valid (abs_board b) = true]), the moves produced
    by the library's generator are, up to order, exactly the legal moves of the FIDE
    specification [Spec.Rules.legal_moves] of the abstracted position, each once.

    Vocabulary:
    - [abs_board b] ([Model.Board]): the specification position a board denotes (placement,
      side to move, castling rights, en-passant target);
      [from_scratch p]: the board the library builds for position [p] (all words, caches, hash).
    - [pos_valid] ([Spec.Rules]): the valid positions (one king each, at most 16 men and 8
      pawns a side, no pawns on the back ranks, the side not to move is not in check, castling
      rights and en-passant target consistent with the placement).
    - [enumerate_moves b] ([Model.MoveGen]): the entry list (source, destination set, promotion
      flag) built by [MoveGen::enumerate_moves]; [expand]: its moves in iteration order;
      [moves_of b]: a full iteration of [MoveGen::new_legal(&b)]; [legal b m]: [Board::legal].
    - [legal_moves p] ([Spec.Rules]): pseudo-legal moves after which the mover is not in check;
      [of_spec_move]: the same move as a (source, destination, promotion) triple of the model.
    - [is_sane b]: [Board::is_sane] (needed only to bound the iteration fuel of [moves_of]).

    The proof ([Proofs/GenAsmMain.v : gen_from_layers]) assembles the layer theorems
    [GenSafeMain.safe_nonking], [GenKingMain.king_step], [GenCastleMain.castle_ok],
    [GenEpMain.ep_ok], [GenPseudoMain.pseudo_ok], [GenPseudoMain.promo_ok] and
    [GenEpOne.ep_one_checker] (in [Proofs/GenAsmFinal.v]). *)
From Coq Require Import NArith List Bool Permutation.
From Chess Require Import Base.Bits Spec.Geometry Spec.Rules Model.Board Model.MoveGen.
From Chess Require Import Proofs.GenAsmFinal.
Import ListNotations.
Open Scope N_scope.

(** the generated entries expand to exactly the legal moves, without repetition *)
Theorem C01_gen : forall b,
  b = from_scratch (abs_board b) -> pos_valid (abs_board b) = true ->
  Permutation (expand (enumerate_moves b)) (map of_spec_move (legal_moves (abs_board b)))
  /\ NoDup (expand (enumerate_moves b)).
Proof. exact T_gen. Qed.
Check C01_gen : forall b,
  b = from_scratch (abs_board b) -> pos_valid (abs_board b) = true ->
  Permutation (expand (enumerate_moves b)) (map of_spec_move (legal_moves (abs_board b)))
  /\ NoDup (expand (enumerate_moves b)).
Print Assumptions C01_gen.

(** a full iteration of the move generator yields exactly the legal moves, each once *)
Theorem C01_moves_of : forall b,
  b = from_scratch (abs_board b) -> pos_valid (abs_board b) = true -> is_sane b = true ->
  Permutation (moves_of b) (map of_spec_move (legal_moves (abs_board b))) /\ NoDup (moves_of b).
Proof. exact T_gen_moves_of. Qed.
Check C01_moves_of : forall b,
  b = from_scratch (abs_board b) -> pos_valid (abs_board b) = true -> is_sane b = true ->
  Permutation (moves_of b) (map of_spec_move (legal_moves (abs_board b))) /\ NoDup (moves_of b).
Print Assumptions C01_moves_of.

(** the legality query answers "yes" exactly for the legal moves — for every triple
    (source, destination, promotion) whatsoever, on or off the board *)
Theorem C01_legal_query : forall b,
  b = from_scratch (abs_board b) -> pos_valid (abs_board b) = true -> is_sane b = true ->
  forall m, legal b m = true <-> In m (map of_spec_move (legal_moves (abs_board b))).
Proof. exact T_gen_legal_query. Qed.
Check C01_legal_query : forall b,
  b = from_scratch (abs_board b) -> pos_valid (abs_board b) = true -> is_sane b = true ->
  forall m, legal b m = true <-> In m (map of_spec_move (legal_moves (abs_board b))).
Print Assumptions C01_legal_query.
