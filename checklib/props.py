"""Per-property configuration of ./check: Coq targets, correspondence streams, which
mismatch tags concern the property, evidence wording."""

TRUSTED_BASE = [
    "Coq 8.16.1 kernel incl. its vm_compute machine (every finite sweep) ; no native_compute",
    "Spec/*.v: the hand-written executable specification (FIDE rules, geometry, FEN, SAN) is what the theorems mean",
    "translator/gen.py: parses $OUT_DIR/magic_gen.rs + zobrist_gen.rs of the fresh cargo build, the harness's `dumpfns` tabulation and three source regexes into coq/Gen/*.v",
    "hand-written Model/*.v tied to the code by the correspondence check only (extraction: ExtrOcamlBasic and nothing else: Extract Inductive bool/option/unit/list/prod/sumbool/sumor, Extract Inlined Constant andb/orb)",
    "OCaml 4.13 compiler, ocaml/*.ml driver, Rust harness (harness/src), cargo/rustc",
    "Rust integer/shift/str semantics as transcribed in Base/*.v; usize = 64 bits",
]

def H(*a): return ('H',) + tuple(a)
def D(k): return ('D', k)

# tags = regular expressions (fullmatch) of the MISMATCH tags that make this property fail
COMMON_MODEL_TAGS = ['driver_exception', 'driver', 'sane', 'replay_rejected']

def sz(tier, q, t): return q if tier == 'quick' else t

PROPS = {}

PROPS['C15'] = dict(
    coq_targets=['Proofs/WalkDep.vo', 'Proofs/MagicSweep.vo'],
    scope='all 64 squares x all 2^64 occupancies, default (magic multiplication) configuration; translated tables re-swept by the kernel on every run',
    streams=lambda tier: [
        dict(stages=[H('magic', sz(tier, 2, 24)), D('magic')], shards=16, min_stat={'magic_lookups': 107648}),
        dict(stages=[H('magic', sz(tier, 1, 8)), D('magic')], shards=16, build='bmi2', min_stat={'magic_lookups': 107648, 'bmi2_build': 1}, seed_off=5),
    ],
    needs_bmi=True,
    tags=['oracle_magic', 'oracle_magic_bmi', 'magic_line'] + COMMON_MODEL_TAGS,
    eval_stat='magic_lookups',
    rule='Rust-side complete sweep of the relevant-occupancy subsets of every (piece type, square) x random noise on the irrelevant squares, default build and target-feature=+bmi2 build (magic vs BMI entry points), each compared with the extracted ray walk; distinct = distinct (piece, square, relevant subset)',
    exhaustive=True,
    assumptions=['the BMI2 (pext/pdep) tables are covered by the exhaustive Rust-side sweep against the extracted ray walk and against the magic lookups, not yet by a Coq theorem over the translated BMI tables'],
)

PROPS['C19'] = dict(
    coq_targets=['Proofs/CacheTableRefine.vo'],
    scope='all operation sequences, all sizes, all hashes, any entry type',
    streams=lambda tier: [
        dict(stages=[H('cache', sz(tier, 3000, 60000)), D('cache')], shards=16),
        dict(stages=[H('cache', sz(tier, 600, 6000)), D('cache')], shards=8, build='debug', seed_off=3),
    ],
    tags=['cache_.*', 'oracle_cache_.*'] + COMMON_MODEL_TAGS,
    eval_stat='cache_ops',
    rule='random add/replace_if/get sequences over a small hash pool (colliding and non-colliding hashes, 0, u64::MAX), power-of-two sizes 1..2^16 and invalid sizes; release build and debug-assertion build (an out-of-range unchecked index aborts there); distinct = distinct sequences',
)

PROPS['C20'] = dict(
    coq_targets=['Proofs/BitsFacts.vo', 'Proofs/BitsIter.vo', 'Proofs/BitsSwap.vo'],
    scope='all 64-bit values (N with b < 2^64), all squares',
    streams=lambda tier: [dict(stages=[H('bits', sz(tier, 20000, 1000000)), D('bits')], shards=16)],
    tags=['bits_.*', 'oracle_bits_.*'] + COMMON_MODEL_TAGS,
    eval_stat='bits_cases',
    rule='structured (ranks, files, diagonal, single squares, sparse, dense, 0, all) and random 64-bit pairs through every owned/borrowed/assigning operator form, iteration, popcnt, to_square, reverse_colors, to_size; distinct = distinct value pairs',
)

PROPS['C16'] = dict(
    coq_targets=['Proofs/TablesLib.vo', 'Proofs/TablesEq.vo', 'Proofs/TablesMeaning.vo', 'Proofs/SweepBetween.vo', 'Proofs/SweepLine.vo', 'Proofs/FiniteFnsEq.vo'],
    prop_files=['C16a', 'C16b'],
    scope='complete domains (64 squares, 64x64 pairs, 64^3 triples, 2 colours, 8 ranks/files) of the translated tables and of the tabulated public functions; all 2^64 blocker words for the three pawn accessors',
    streams=lambda tier: [dict(stages=[H('pawnfns', sz(tier, 8, 400)), D('pawnfns')], shards=1, min_stat={'pawn_calls': 4464})],
    tags=['pawn_.*', 'oracle_pawn_.*'] + COMMON_MODEL_TAGS,
    eval_stat='pawn_calls',
    rule='the tabulation of every finite-domain function is exhaustive (translator, re-proved by Coq each run); the three blocker accessors additionally run on every combination of their relevant squares x random noise elsewhere against the model and the movement rule; distinct = (colour, square, blockers) triples',
    exhaustive=True,
)
