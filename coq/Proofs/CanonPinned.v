(** * Proofs.CanonPinned — C03, part 4: the pin cache computed by [Board::update_pin_info],
    restricted to the mover's men, is the specification's set of absolutely pinned men.
    The xor accumulation of the single blockers is a disjoint union: two different sliders
    aligned with the king cannot have the same single blocker. *)
From Coq Require Import Lia ZifyBool ZifyN ZifyNat.
From Chess Require Import Base.Bits Spec.Geometry Spec.Rules Model.Board.
From Chess Require Import Proofs.BitsFacts Proofs.WalkDep Proofs.TablesLib Proofs.TablesEq
                          Proofs.TablesMeaning Proofs.AbsBoard Proofs.CanonAttack
                          Proofs.CanonCheckers.
Open Scope N_scope.

(** ** 1. Geometry of rays (small complete sweeps over the ray lists) *)
Definition dir_eqb (d d':Z*Z) : bool := ((fst d =? fst d') && (snd d =? snd d'))%Z.
Lemma dir_eqb_eq d d' : dir_eqb d d' = true -> d = d'.
Proof.
  destruct d as [x y], d' as [x' y']. unfold dir_eqb. cbn [fst snd].
  intro H. apply andb_prop in H. destruct H as [H1 H2].
  apply Z.eqb_eq in H1. apply Z.eqb_eq in H2. subst. reflexivity.
Qed.

Lemma on_dir_in k a d : on_dir k a d = true <-> In a (ray_sq k d 7).
Proof. unfold on_dir. apply mem_in. Qed.

(** F1: going on along the same ray: the far square is on the ray and the squares between
    it and the origin are those before the middle square, the middle square, and those after *)
Lemma ray_trans_sweep :
  forallb (fun d => forallb (fun k => forallb (fun a => forallb (fun sq =>
     mem sq (ray_sq k d 7)
     && (between sq k =? N.lor (N.lor (between k a) (bit a)) (between a sq)))
     (ray_sq a d 7)) (ray_sq k d 7)) all_sq) king_dirs = true.
Proof. vm_cast_no_check (eq_refl true). Qed.

Lemma ray_trans d k a sq : In d king_dirs -> k < 64 ->
  on_dir k a d = true -> on_dir a sq d = true ->
  on_dir k sq d = true /\ between sq k = N.lor (N.lor (between k a) (bit a)) (between a sq).
Proof.
  intros Hd Hk Ha Hsq. apply on_dir_in in Ha. apply on_dir_in in Hsq.
  pose proof ray_trans_sweep as H. rewrite forallb_forall in H. specialize (H d Hd).
  rewrite forallb_forall in H. specialize (H k (proj2 (in_all_sq k) Hk)).
  rewrite forallb_forall in H. specialize (H a Ha).
  rewrite forallb_forall in H. specialize (H sq Hsq).
  apply andb_prop in H. destruct H as [H1 H2]. apply N.eqb_eq in H2.
  split; [exact H1|exact H2].
Qed.

(** F2: a square between [sq] and [k] is on a ray from [k], and [sq] is further on that ray *)
Lemma between_ray_sweep :
  forallb (fun k => forallb (fun sq => forallb (fun a =>
     existsb (fun d => on_dir k a d && on_dir a sq d) king_dirs)
     (squares_of (between sq k))) all_sq) all_sq = true.
Proof. vm_cast_no_check (eq_refl true). Qed.

Lemma between_ray k sq a : k < 64 -> sq < 64 -> N.testbit (between sq k) a = true ->
  exists d, In d king_dirs /\ on_dir k a d = true /\ on_dir a sq d = true.
Proof.
  intros Hk Hsq Ha. pose proof (sweep64_2 _ between_ray_sweep k sq Hk Hsq) as H. cbv beta in H.
  rewrite forallb_forall in H. specialize (H a (proj2 (squares_of_spec _ a) Ha)).
  apply existsb_exists in H. destruct H as [d [Hd H]]. apply andb_prop in H.
  exists d. tauto.
Qed.

(** F4: a square lies on at most one ray from [k] *)
Lemma ray_unique_sweep :
  forallb (fun k => forallb (fun d => forallb (fun d' => forallb (fun a =>
     implb (mem a (ray_sq k d' 7)) (dir_eqb d d')) (ray_sq k d 7)) king_dirs) king_dirs) all_sq = true.
Proof. vm_cast_no_check (eq_refl true). Qed.

Lemma ray_unique k a d d' : k < 64 -> In d king_dirs -> In d' king_dirs ->
  on_dir k a d = true -> on_dir k a d' = true -> d = d'.
Proof.
  intros Hk Hd Hd' Ha Ha'. apply on_dir_in in Ha.
  pose proof (sweep64 _ ray_unique_sweep k Hk) as H. cbv beta in H.
  rewrite forallb_forall in H. specialize (H d Hd).
  rewrite forallb_forall in H. specialize (H d' Hd').
  rewrite forallb_forall in H. specialize (H a Ha).
  unfold on_dir in Ha'. rewrite Ha' in H. cbn [implb] in H. apply dir_eqb_eq, H.
Qed.

(** F5/F6: two different squares of one ray: one of them is between the origin and the other;
    and the origin is not on its own ray *)
Lemma ray_order_sweep :
  forallb (fun a => forallb (fun d =>
     negb (mem a (ray_sq a d 7))
     && forallb (fun sq => forallb (fun sq' =>
          (sq =? sq') || N.testbit (between a sq') sq || N.testbit (between a sq) sq')
          (ray_sq a d 7)) (ray_sq a d 7)) king_dirs) all_sq = true.
Proof. vm_cast_no_check (eq_refl true). Qed.

Lemma ray_order a d sq sq' : a < 64 -> In d king_dirs ->
  on_dir a sq d = true -> on_dir a sq' d = true ->
  sq = sq' \/ N.testbit (between a sq') sq = true \/ N.testbit (between a sq) sq' = true.
Proof.
  intros Ha Hd Hsq Hsq'. apply on_dir_in in Hsq. apply on_dir_in in Hsq'.
  pose proof (sweep64 _ ray_order_sweep a Ha) as H. cbv beta in H.
  rewrite forallb_forall in H. specialize (H d Hd). apply andb_prop in H. destruct H as [_ H].
  rewrite forallb_forall in H. specialize (H sq Hsq).
  rewrite forallb_forall in H. specialize (H sq' Hsq').
  apply orb_prop in H. destruct H as [H|H]; [|right; right; exact H].
  apply orb_prop in H. destruct H as [H|H]; [left; apply N.eqb_eq, H|right; left; exact H].
Qed.

Lemma ray_irrefl a d : a < 64 -> In d king_dirs -> on_dir a a d = false.
Proof.
  intros Ha Hd. pose proof (sweep64 _ ray_order_sweep a Ha) as H. cbv beta in H.
  rewrite forallb_forall in H. specialize (H d Hd). apply andb_prop in H. destruct H as [H _].
  unfold on_dir. destruct (mem a (ray_sq a d 7)); [discriminate H|reflexivity].
Qed.

(** F7: the end points are not between themselves *)
Lemma between_ends_sweep :
  forallb (fun x => forallb (fun y =>
     negb (N.testbit (between x y) x) && negb (N.testbit (between x y) y)) all_sq) all_sq = true.
Proof. vm_cast_no_check (eq_refl true). Qed.
Lemma between_ends x y : x < 64 -> y < 64 ->
  N.testbit (between x y) x = false /\ N.testbit (between x y) y = false.
Proof.
  intros Hx Hy. pose proof (sweep64_2 _ between_ends_sweep x y Hx Hy) as H. cbv beta in H.
  apply andb_prop in H. destruct H as [H1 H2].
  destruct (N.testbit (between x y) x); [discriminate H1|].
  destruct (N.testbit (between x y) y); [discriminate H2|]. split; reflexivity.
Qed.

Lemma between_lt64 x y a : x < 64 -> y < 64 -> N.testbit (between x y) a = true -> a < 64.
Proof.
  intros Hx Hy Ha. destruct (N.lt_ge_cases a 64) as [H|H]; [exact H|].
  rewrite (between_high x y a Hx Hy H) in Ha. discriminate Ha.
Qed.

Lemma king_dirs_split d : In d king_dirs <-> In d rook_dirs \/ In d bishop_dirs.
Proof. unfold king_dirs. apply in_app_iff. Qed.

(** ** 2. Small word facts *)
Lemma popcnt_bit a : popcnt (bit a) = 1.
Proof. rewrite popcnt_length, squares_of_bit. reflexivity. Qed.

Lemma single_bit x a : (popcnt x =? 1) && N.testbit x a = true <-> x = bit a.
Proof.
  split.
  - intro H. apply andb_prop in H. destruct H as [Hp Ha]. apply N.eqb_eq in Hp.
    destruct (popcnt1_bit x Hp) as [s [Hx _]]. subst x.
    rewrite TablesLib.testbit_bit in Ha. apply N.eqb_eq in Ha. subst s. reflexivity.
  - intros ->. rewrite popcnt_bit, TablesLib.testbit_bit, !N.eqb_refl. reflexivity.
Qed.

Lemma land_eq0_bits x y : N.land x y = 0 <-> forall i, N.testbit x i = true -> N.testbit y i = false.
Proof.
  split.
  - intros H i Hi. pose proof (land0_bits x y H i) as Hb. rewrite Hi in Hb. exact Hb.
  - intro H. apply bits_land0. intro i. destruct (N.testbit x i) eqn:E; [|reflexivity].
    rewrite (H i E). reflexivity.
Qed.

(** ** 3. The specification side *)
Section Pinned.
Variable b : board.
Hypothesis HC : Consistent b.
Hypothesis Hking : popcnt (N.land (pK b) (color_combined b (stm b))) = 1.
Notation p := (abs_board b).
Notation k := (king_square b (stm b)).
Notation w := (comb b).

Lemma Hocc : forall x, x < 64 -> occ p x = N.testbit w x.
Proof. intros x Hx. apply occ_abs; assumption. Qed.

Lemma first_occ_between s d a : s < 64 -> In d king_dirs ->
  (first_occ p s d 7 = Some a <->
   a < 64 /\ on_dir s a d = true /\ N.land (between s a) w = 0 /\ N.testbit w a = true).
Proof.
  intros Hs Hd. rewrite first_occ_ray. split.
  - intros [Hin Ho]. pose proof (ray_lt64 p d 7 s a Hs Hin) as Ha.
    apply (ray_walk p w Hocc d 7 s a Hs) in Hin.
    rewrite (walk_between d s a w Hd Hs Ha) in Hin. apply andb_prop in Hin.
    destruct Hin as [H1 H2]. apply N.eqb_eq in H2. rewrite (Hocc a Ha) in Ho. tauto.
  - intros [Ha [H1 [H2 H3]]]. split; [|rewrite (Hocc a Ha); exact H3].
    apply (ray_walk p w Hocc d 7 s a Hs). rewrite (walk_between d s a w Hd Hs Ha), H1, H2.
    reflexivity.
Qed.

Definition dirs8 : list (bool * (Z*Z)) :=
  map (fun d => (true,d)) rook_dirs ++ map (fun d => (false,d)) bishop_dirs.

Lemma dirs8_in o d : In (o,d) dirs8 <-> (o = true /\ In d rook_dirs) \/ (o = false /\ In d bishop_dirs).
Proof.
  unfold dirs8. rewrite in_app_iff, !in_map_iff. split.
  - intros [[x [E Hx]]|[x [E Hx]]]; injection E as <- <-; [left|right]; split; auto.
  - intros [[-> Hd]|[-> Hd]]; [left|right]; exists d; split; auto.
Qed.

Lemma pinned_of_in a :
  In a (pinned_of p) <->
  exists o d sq, In (o,d) dirs8 /\ first_occ p k d 7 = Some a /\ own p (stm b) a = true /\
                 first_occ p a d 7 = Some sq /\ slider_along p (opp (stm b)) o sq = true.
Proof.
  unfold pinned_of. change (turn p) with (stm b).
  rewrite (king_square_spec b (stm b) HC Hking). fold dirs8. rewrite in_flat_map. split.
  - intros [[o d] [Hod H]].
    destruct (first_occ p k d 7) as [a'|] eqn:E1; [|destruct H].
    destruct (own p (stm b) a') eqn:E2; [|destruct H].
    destruct (first_occ p a' d 7) as [sq|] eqn:E3; [|destruct H].
    destruct (slider_along p (opp (stm b)) o sq) eqn:E4; [|destruct H].
    destruct H as [<-|[]]. exists o, d, sq. auto.
  - intros [o [d [sq [Hod [E1 [E2 [E3 E4]]]]]]]. exists (o,d). split; [exact Hod|].
    rewrite E1, E2, E3, E4. left. reflexivity.
Qed.

Lemma slider_along_abs o sq : sq < 64 ->
  slider_along p (opp (stm b)) o sq
  = N.testbit (color_combined b (opp (stm b))) sq
    && (N.testbit (pQ b) sq || (if o then N.testbit (pR b) sq else N.testbit (pB b) sq)).
Proof.
  intro Hsq. unfold slider_along.
  rewrite (has_abs b sq Queen _ HC Hsq). destruct o.
  - rewrite (has_abs b sq Rook _ HC Hsq). cbn [pieces].
    destruct (N.testbit (pQ b) sq), (N.testbit (pR b) sq), (N.testbit (color_combined b (opp (stm b))) sq); reflexivity.
  - rewrite (has_abs b sq Bishop _ HC Hsq). cbn [pieces].
    destruct (N.testbit (pQ b) sq), (N.testbit (pB b) sq), (N.testbit (color_combined b (opp (stm b))) sq); reflexivity.
Qed.

Lemma k_lt : k < 64.
Proof. exact (proj1 (one_king_bit b (stm b) HC Hking)). Qed.

Lemma pinners_bit sq : sq < 64 ->
  N.testbit (pinners_of b) sq
  = N.testbit (color_combined b (opp (stm b))) sq
    && ((aligned_d k sq && (N.testbit (pB b) sq || N.testbit (pQ b) sq))
        || (aligned_o k sq && (N.testbit (pR b) sq || N.testbit (pQ b) sq))).
Proof.
  intro Hsq. unfold pinners_of. rewrite !N.land_spec, !N.lor_spec, !N.land_spec, !N.lor_spec.
  rewrite (bishop_rays_meaning k sq k_lt Hsq), (rook_rays_meaning k sq k_lt Hsq). reflexivity.
Qed.

Lemma colour_in_comb c x : N.testbit (color_combined b c) x = true -> N.testbit w x = true.
Proof.
  intro H. rewrite (cs_comb_colors b HC), N.lor_spec. destruct c; cbn [color_combined] in H; rewrite H.
  - reflexivity.
  - apply orb_true_r.
Qed.

(** the decomposition used in both directions *)
Lemma btw_single d a sq : In d king_dirs -> a < 64 -> sq < 64 ->
  on_dir k a d = true -> on_dir a sq d = true ->
  (btw b k sq = bit a <->
   N.land (between k a) w = 0 /\ N.testbit w a = true /\ N.land (between a sq) w = 0).
Proof.
  intros Hd Ha Hsq H1 H2. destruct (ray_trans d k a sq Hd k_lt H1 H2) as [_ Hbt].
  destruct (between_ends k a k_lt Ha) as [_ He1]. destruct (between_ends a sq Ha Hsq) as [He2 _].
  unfold btw. rewrite Hbt. split.
  - intro H.
    assert (Hbits : forall i, (N.testbit (between k a) i || (a =? i) || N.testbit (between a sq) i)
                              && N.testbit w i = (a =? i)).
    { intro i. rewrite <- (TablesLib.testbit_bit a i) at 2. rewrite <- H.
      rewrite N.land_spec, !N.lor_spec, TablesLib.testbit_bit. reflexivity. }
    split; [|split].
    + apply land_eq0_bits. intros i Hi. specialize (Hbits i). rewrite Hi in Hbits.
      cbn [orb andb] in Hbits. destruct (N.eqb_spec a i) as [Eai|_]; [subst i; congruence|exact Hbits].
    + specialize (Hbits a). rewrite N.eqb_refl, orb_true_r in Hbits. exact Hbits.
    + apply land_eq0_bits. intros i Hi. specialize (Hbits i). rewrite Hi, orb_true_r in Hbits.
      cbn [andb] in Hbits. destruct (N.eqb_spec a i) as [Eai|_]; [subst i; congruence|exact Hbits].
  - intros [G1 [G2 G3]]. apply N.bits_inj. intro i.
    rewrite N.land_spec, !N.lor_spec, !TablesLib.testbit_bit.
    pose proof (land0_bits _ _ G1 i) as B1. pose proof (land0_bits _ _ G3 i) as B3.
    destruct (N.eqb_spec a i) as [<-|_].
    + rewrite G2, orb_true_r. reflexivity.
    + rewrite orb_false_r.
      destruct (N.testbit (between k a) i), (N.testbit (between a sq) i), (N.testbit w i);
        cbn [andb orb] in B1, B3 |- *; congruence.
Qed.

(** ** 4. Uniqueness of the pinner of a square: the xor is a disjoint union *)
Lemma pinner_unique a sq sq' :
  N.testbit (pinners_of b) sq = true -> N.testbit (pinners_of b) sq' = true ->
  btw b k sq = bit a -> btw b k sq' = bit a -> sq = sq'.
Proof.
  intros Hp Hp' Hb Hb'.
  pose proof (testbit_lt64 _ _ (pinners_lt64 b HC) Hp) as Hsq.
  pose proof (testbit_lt64 _ _ (pinners_lt64 b HC) Hp') as Hsq'.
  assert (Hw : N.testbit w sq = true).
  { rewrite (pinners_bit sq Hsq) in Hp. apply andb_prop in Hp. exact (colour_in_comb _ _ (proj1 Hp)). }
  assert (Hw' : N.testbit w sq' = true).
  { rewrite (pinners_bit sq' Hsq') in Hp'. apply andb_prop in Hp'. exact (colour_in_comb _ _ (proj1 Hp')). }
  assert (Hta : N.testbit (between sq k) a = true).
  { assert (H : N.testbit (btw b k sq) a = true) by (rewrite Hb, TablesLib.testbit_bit; apply N.eqb_refl).
    unfold btw in H. rewrite N.land_spec in H. apply andb_prop in H. exact (proj1 H). }
  assert (Hta' : N.testbit (between sq' k) a = true).
  { assert (H : N.testbit (btw b k sq') a = true) by (rewrite Hb', TablesLib.testbit_bit; apply N.eqb_refl).
    unfold btw in H. rewrite N.land_spec in H. apply andb_prop in H. exact (proj1 H). }
  pose proof (between_lt64 sq k a Hsq k_lt Hta) as Ha.
  destruct (between_ray k sq a k_lt Hsq Hta) as [d [Hd [H1 H2]]].
  destruct (between_ray k sq' a k_lt Hsq' Hta') as [d' [Hd' [H1' H2']]].
  assert (d = d') by (apply (ray_unique k a d d' k_lt Hd Hd' H1 H1')). subst d'.
  destruct (proj1 (btw_single d a sq Hd Ha Hsq H1 H2) Hb) as [_ [_ G3]].
  destruct (proj1 (btw_single d a sq' Hd Ha Hsq' H1' H2') Hb') as [_ [_ G3']].
  destruct (ray_order a d sq sq' Ha Hd H2 H2') as [E|[E|E]]; [exact E| |]; exfalso.
  - pose proof (land0_bits _ _ G3' sq) as B. rewrite E, Hw in B. discriminate B.
  - pose proof (land0_bits _ _ G3 sq') as B. rewrite E, Hw' in B. discriminate B.
Qed.

Lemma pinned_bit a :
  N.testbit (pinned (update_pin_info b)) a = true <->
  exists sq, N.testbit (pinners_of b) sq = true /\ btw b k sq = bit a.
Proof.
  rewrite (proj2 (upi_caches b)), slider_scan_fold, scan_pn, N.bits_0, xorb_false_l.
  rewrite par_existsb.
  - rewrite existsb_exists. split.
    + intros [sq [Hin H]]. exists sq. split; [apply squares_of_spec, Hin|].
      apply single_bit. exact H.
    + intros [sq [Hp H]]. exists sq. split; [apply squares_of_spec, Hp|].
      apply single_bit. exact H.
  - apply squares_of_NoDup.
  - intros sq sq' Hin Hin' H H'. apply squares_of_spec in Hin. apply squares_of_spec in Hin'.
    apply single_bit in H. apply single_bit in H'.
    exact (pinner_unique a sq sq' Hin Hin' H H').
Qed.

(** ** 5. The theorem *)
Theorem pinned_canon s : s < 64 ->
  (N.testbit (N.land (pinned (update_pin_info b)) (color_combined b (stm b))) s = true
   <-> In s (pinned_of p)).
Proof.
  intro Hs. rewrite N.land_spec, andb_true_iff, pinned_bit, pinned_of_in. split.
  - intros [[sq [Hp Hb]] Hown].
    pose proof (testbit_lt64 _ _ (pinners_lt64 b HC) Hp) as Hsq.
    assert (Hta : N.testbit (between sq k) s = true).
    { assert (H : N.testbit (btw b k sq) s = true) by (rewrite Hb, TablesLib.testbit_bit; apply N.eqb_refl).
      unfold btw in H. rewrite N.land_spec in H. apply andb_prop in H. exact (proj1 H). }
    destruct (between_ray k sq s k_lt Hsq Hta) as [d [Hd [H1 H2]]].
    destruct (proj1 (btw_single d s sq Hd Hs Hsq H1 H2) Hb) as [G1 [G2 G3]].
    destruct (ray_trans d k s sq Hd k_lt H1 H2) as [H3 _].
    rewrite (pinners_bit sq Hsq) in Hp. apply andb_prop in Hp. destruct Hp as [Hc Hal].
    destruct (aligned_facts k sq k_lt Hsq) as [Ao [Ad [_ [_ Ax]]]].
    assert (Hd' := Hd). apply king_dirs_split in Hd'.
    assert (Hex : forall ds, In d ds -> existsb (on_dir k sq) ds = true)
      by (intros ds Hin; apply existsb_exists; exists d; split; assumption).
    destruct Hd' as [Hr|Hbi].
    + exists true, d, sq. split; [apply dirs8_in; left; split; [reflexivity|exact Hr]|].
      split; [apply (first_occ_between k d s k_lt Hd); tauto|].
      split; [rewrite (own_abs b (stm b) s HC Hs); exact Hown|].
      split; [apply (first_occ_between s d sq Hs Hd); split; [exact Hsq|];
              split; [exact H2|]; split; [exact G3|exact (colour_in_comb _ _ Hc)]|].
      rewrite (slider_along_abs true sq Hsq), Hc. cbn [andb].
      rewrite (Hex _ Hr) in Ao. rewrite Ao in Ax. cbn [andb] in Ax. rewrite Ax, Ao in Hal.
      cbn [andb orb] in Hal. rewrite orb_comm. exact Hal.
    + exists false, d, sq. split; [apply dirs8_in; right; split; [reflexivity|exact Hbi]|].
      split; [apply (first_occ_between k d s k_lt Hd); tauto|].
      split; [rewrite (own_abs b (stm b) s HC Hs); exact Hown|].
      split; [apply (first_occ_between s d sq Hs Hd); split; [exact Hsq|];
              split; [exact H2|]; split; [exact G3|exact (colour_in_comb _ _ Hc)]|].
      rewrite (slider_along_abs false sq Hsq), Hc. cbn [andb].
      rewrite (Hex _ Hbi) in Ad. rewrite Ad, andb_true_r in Ax. rewrite Ax, Ad in Hal.
      cbn [andb orb] in Hal. rewrite orb_false_r in Hal. rewrite orb_comm. exact Hal.
  - intros [o [d [sq [Hod [E1 [E2 [E3 E4]]]]]]].
    assert (Hd : In d king_dirs).
    { apply king_dirs_split. apply dirs8_in in Hod. tauto. }
    apply (first_occ_between k d s k_lt Hd) in E1. destruct E1 as [_ [H1 [G1 G2]]].
    apply (first_occ_between s d sq Hs Hd) in E3. destruct E3 as [Hsq [H2 [G3 G4]]].
    rewrite (own_abs b (stm b) s HC Hs) in E2. split; [|exact E2].
    exists sq. split.
    + rewrite (pinners_bit sq Hsq). rewrite (slider_along_abs o sq Hsq) in E4.
      apply andb_prop in E4. destruct E4 as [Hc Hpc]. rewrite Hc. cbn [andb].
      destruct (ray_trans d k s sq Hd k_lt H1 H2) as [H3 _].
      destruct (aligned_facts k sq k_lt Hsq) as [Ao [Ad _]].
      assert (Hex : forall ds, In d ds -> existsb (on_dir k sq) ds = true)
        by (intros ds Hin; apply existsb_exists; exists d; split; assumption).
      apply dirs8_in in Hod. destruct Hod as [[-> Hr]|[-> Hbi]].
      * rewrite Ao, (Hex _ Hr). cbn [andb]. rewrite (orb_comm (N.testbit (pR b) sq)), Hpc.
        apply orb_true_r.
      * rewrite Ad, (Hex _ Hbi). cbn [andb]. rewrite (orb_comm (N.testbit (pB b) sq)), Hpc.
        reflexivity.
    + apply (btw_single d s sq Hd Hs Hsq H1 H2). tauto.
Qed.
End Pinned.

(** ** 6. Examples *)
(** a pinned knight: white K e1, white N e2, black R e8, black K a8; white to move *)
Definition pinpos : pos :=
  {| placement := updN (updN (updN (updN (repeat None 64) 4 (Some (King,White))) 12 (Some (Knight,White)))
                       60 (Some (Rook,Black))) 56 (Some (King,Black));
     turn := White; wk := false; wq := false; bk := false; bq := false; ep := None |}.
Example pinned_ex :
  popcnt (N.land (pK (from_scratch pinpos)) (color_combined (from_scratch pinpos) (stm (from_scratch pinpos)))) = 1 /\
  pinned (from_scratch pinpos) = bit 12 /\ pinned_of pinpos = [12] /\ checkers (from_scratch pinpos) = 0 /\
  checkers_of pinpos = [] /\ abs_board (from_scratch pinpos) = pinpos.
Proof. vm_compute. repeat split. Qed.

(** without [kings_apart] the check cache misses the adjacent enemy king, which the
    specification's [checkers_of] lists: white K e1, black K e2 *)
Definition adjpos : pos :=
  {| placement := updN (updN (repeat None 64) 4 (Some (King,White))) 12 (Some (King,Black));
     turn := White; wk := false; wq := false; bk := false; bq := false; ep := None |}.
Example kings_apart_needed :
  abs_board (from_scratch adjpos) = adjpos /\
  popcnt (N.land (pK (from_scratch adjpos)) (color_combined (from_scratch adjpos) (stm (from_scratch adjpos)))) = 1 /\
  checkers (update_pin_info (from_scratch adjpos)) = 0 /\ checkers_of adjpos = [12].
Proof. vm_compute. repeat split. Qed.
