(** * Proofs.Extra20 — [impl Display for BitBoard] ([bitboard_display], [Model/Extra.v]):
    136 characters; the cell of square [k] is character [2*k + k/8]: 'X' if the bit is set
    and '.' otherwise; a space follows every cell and a newline every eighth cell.  These
    three families of positions are all 136 positions, so the text is determined. *)
From Coq Require Import Lia ZifyBool ZifyN ZifyNat.
From Chess Require Import Base.Bits Base.Text Model.Fen Model.Extra.
From Chess Require Import Proofs.TablesLib.
Open Scope N_scope.

(** the block of one square with the choice pushed into the character *)
Definition cell_block (f:N->bool) (x:N) : str :=
  [if f x then 88 else 46; 32] ++ (if x mod 8 =? 7 then [10] else []).
Definition display_of (f:N->bool) : str := flat_map (cell_block f) all_sq.

Lemma bitboard_display_of b : bitboard_display b = display_of (N.testbit b).
Proof.
  unfold bitboard_display, display_of. apply flat_map_ext. intro x. unfold cell_block.
  destruct (N.testbit b x); reflexivity.
Qed.

Lemma display_of_length f : length (display_of f) = 136%nat.
Proof. reflexivity. Qed.

Ltac each_sq Hin tac :=
  unfold all_sq in Hin; cbn [In] in Hin;
  repeat (destruct Hin as [Hin|Hin]; [subst; tac|]); contradiction Hin.

Lemma display_of_cell f k : k < 64 ->
  nthN (display_of f) (2 * k + k / 8) 0 = if f k then 88 else 46.
Proof.
  intro Hk. apply in_all_sq in Hk. each_sq Hk ltac:(reflexivity).
Qed.

Lemma display_of_space f k : k < 64 -> nthN (display_of f) (2 * k + k / 8 + 1) 0 = 32.
Proof.
  intro Hk. apply in_all_sq in Hk. each_sq Hk ltac:(reflexivity).
Qed.

Lemma display_of_newline f k : k < 64 -> k mod 8 = 7 -> nthN (display_of f) (2 * k + k / 8 + 2) 0 = 10.
Proof.
  intros Hk. apply in_all_sq in Hk.
  each_sq Hk ltac:(intro Hm; first [reflexivity | discriminate Hm]).
Qed.

Theorem bitboard_display_length b : length (bitboard_display b) = 136%nat.
Proof. rewrite bitboard_display_of. apply display_of_length. Qed.

Theorem bitboard_display_cell b k : k < 64 ->
  nthN (bitboard_display b) (2 * k + k / 8) 0 = if N.testbit b k then 88 else 46.
Proof. intro Hk. rewrite bitboard_display_of. apply display_of_cell, Hk. Qed.

Theorem bitboard_display_cell_iff b k : k < 64 ->
  (nthN (bitboard_display b) (2 * k + k / 8) 0 = 88 <-> N.testbit b k = true).
Proof.
  intro Hk. rewrite (bitboard_display_cell b k Hk).
  destruct (N.testbit b k); split; intro H; try reflexivity; discriminate H.
Qed.

Theorem bitboard_display_space b k : k < 64 -> nthN (bitboard_display b) (2 * k + k / 8 + 1) 0 = 32.
Proof. intro Hk. rewrite bitboard_display_of. apply display_of_space, Hk. Qed.

Theorem bitboard_display_newline b k : k < 64 -> k mod 8 = 7 ->
  nthN (bitboard_display b) (2 * k + k / 8 + 2) 0 = 10.
Proof. intros Hk Hm. rewrite bitboard_display_of. apply display_of_newline; assumption. Qed.

(** the newline closes each row of 17 characters *)
Theorem bitboard_display_rows b r : r < 8 -> nthN (bitboard_display b) (17 * r + 16) 0 = 10.
Proof.
  intro Hr. replace (17 * r + 16) with (2 * (8 * r + 7) + (8 * r + 7) / 8 + 2) by lia.
  apply bitboard_display_newline; lia.
Qed.

(** the three families cover every position: the text is determined by the word *)
Theorem display_positions_cover i : i < 136 ->
  exists k, k < 64 /\ (i = 2 * k + k / 8 \/ i = 2 * k + k / 8 + 1 \/ (k mod 8 = 7 /\ i = 2 * k + k / 8 + 2)).
Proof.
  intro Hi. set (r := i / 17). set (c := i mod 17).
  assert (Hr : r < 8) by (subst r; lia). assert (Hc : c < 17) by (subst c; lia).
  assert (Hi' : i = 17 * r + c) by (subst r c; lia).
  destruct (N.eq_dec c 16) as [E|E].
  - exists (8 * r + 7). split; [lia|]. right. right. split; lia.
  - exists (8 * r + c / 2). split; [lia|].
    destruct (N.eq_dec (c mod 2) 0) as [E2|E2]; [left|right; left]; lia.
Qed.

Example bitboard_display_ex :
  bitboard_display 129 =
  [88;32;46;32;46;32;46;32;46;32;46;32;46;32;88;32;10] ++
  flat_map (fun _ => [46;32;46;32;46;32;46;32;46;32;46;32;46;32;46;32;10]) [1;2;3;4;5;6;7].
Proof. vm_compute. reflexivity. Qed.
