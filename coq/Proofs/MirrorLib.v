(** * Proofs.MirrorLib — list / permutation / update lemmas used by the mirror-image proofs (C17). *)
From Coq Require Import Lia ZifyBool ZifyN ZifyNat Permutation.
From Chess Require Import Base.Bits Spec.Geometry Spec.Rules.
From Chess Require Import Proofs.TablesLib Proofs.TablesMeaning.
Open Scope N_scope.

(** ** Permutations and the list combinators *)
Lemma Permutation_filter {A} (f:A->bool) (l l':list A) :
  Permutation l l' -> Permutation (filter f l) (filter f l').
Proof.
  intro H. induction H as [|x l l' H IH|x y l|l l' l'' H1 IH1 H2 IH2]; cbn [filter].
  - constructor.
  - destruct (f x); [constructor|]; exact IH.
  - destruct (f x), (f y); try apply perm_swap; apply Permutation_refl.
  - eapply Permutation_trans; eassumption.
Qed.

Lemma filter_map_comm {A B} (g:B->bool) (h:A->B) (l:list A) :
  filter g (map h l) = map h (filter (fun x => g (h x)) l).
Proof.
  induction l as [|x xs IH]; cbn [map filter]; [reflexivity|].
  destruct (g (h x)); cbn [map]; rewrite IH; reflexivity.
Qed.

Lemma flat_map_ext_in {A B} (f g:A->list B) (l:list A) :
  (forall a, In a l -> f a = g a) -> flat_map f l = flat_map g l.
Proof.
  induction l as [|x xs IH]; intro H; cbn [flat_map]; [reflexivity|].
  rewrite (H x) by (left; reflexivity). rewrite IH; [reflexivity|].
  intros a Ha. apply H. right. exact Ha.
Qed.

Lemma Permutation_flat_map_pw {A B} (f g:A->list B) (l:list A) :
  (forall a, In a l -> Permutation (f a) (g a)) -> Permutation (flat_map f l) (flat_map g l).
Proof.
  induction l as [|x xs IH]; intro H; cbn [flat_map]; [constructor|].
  apply Permutation_app.
  - apply H. left. reflexivity.
  - apply IH. intros a Ha. apply H. right. exact Ha.
Qed.

Lemma Permutation_flat_map_l {A B} (f:A->list B) (l l':list A) :
  Permutation l l' -> Permutation (flat_map f l) (flat_map f l').
Proof. intro H. apply Permutation_flat_map. exact H. Qed.

Lemma flat_map_map {A B C} (f:B->list C) (g:A->B) (l:list A) :
  flat_map f (map g l) = flat_map (fun x => f (g x)) l.
Proof.
  induction l as [|x xs IH]; cbn [map flat_map]; [reflexivity|]. rewrite IH. reflexivity.
Qed.

Lemma map_flat_map {A B C} (h:B->C) (f:A->list B) (l:list A) :
  map h (flat_map f l) = flat_map (fun x => map h (f x)) l.
Proof.
  induction l as [|x xs IH]; cbn [map flat_map]; [reflexivity|].
  rewrite map_app, IH. reflexivity.
Qed.

Lemma existsb_perm {A} (f:A->bool) (l l':list A) :
  Permutation l l' -> existsb f l = existsb f l'.
Proof.
  intro H. induction H as [|x l l' H IH|x y l|l l' l'' H1 IH1 H2 IH2]; cbn [existsb].
  - reflexivity.
  - rewrite IH. reflexivity.
  - destruct (f x), (f y); reflexivity.
  - congruence.
Qed.

Lemma existsb_map {A B} (f:B->bool) (g:A->B) (l:list A) :
  existsb f (map g l) = existsb (fun x => f (g x)) l.
Proof.
  induction l as [|x xs IH]; cbn [map existsb]; [reflexivity|]. rewrite IH. reflexivity.
Qed.

Lemma existsb_ext_in {A} (f g:A->bool) (l:list A) :
  (forall a, In a l -> f a = g a) -> existsb f l = existsb g l.
Proof.
  induction l as [|x xs IH]; intro H; cbn [existsb]; [reflexivity|].
  rewrite (H x) by (left; reflexivity). rewrite IH; [reflexivity|].
  intros a Ha. apply H. right. exact Ha.
Qed.

Definition nonempty {A} (l:list A) : bool := match l with [] => false | _ => true end.
Lemma nonempty_perm_map {A B} (h:A->B) (l:list B) (l':list A) :
  Permutation l (map h l') -> nonempty l = nonempty l'.
Proof.
  intro H. apply Permutation_length in H. rewrite map_length in H.
  destruct l, l'; cbn in *; try reflexivity; discriminate.
Qed.

(** ** [mem] *)
Lemma mem_In (x:N) (l:list N) : mem x l = true <-> In x l.
Proof.
  unfold mem. rewrite existsb_exists. split.
  - intros [y [Hin Heq]]. apply N.eqb_eq in Heq. subst y. exact Hin.
  - intro Hin. exists x. split; [exact Hin|apply N.eqb_refl].
Qed.

Lemma mem_perm (x:N) (l l':list N) : Permutation l l' -> mem x l = mem x l'.
Proof. apply existsb_perm. Qed.

Lemma mem_map_inj (h:N->N) (x:N) (l:list N) :
  (forall a b, h a = h b -> a = b) -> mem (h x) (map h l) = mem x l.
Proof.
  intro Hinj. unfold mem. rewrite existsb_map. apply existsb_ext_in. intros a _.
  destruct (N.eqb_spec x a) as [->|Hne].
  - apply N.eqb_refl.
  - apply N.eqb_neq. intro Heq. apply Hne, Hinj, Heq.
Qed.

(** ** [upd] / [updN] *)
Lemma upd_length {A} (l:list A) (i:nat) (x:A) : length (upd l i x) = length l.
Proof.
  revert i. induction l as [|h t IH]; intros [|i]; cbn [upd length]; try reflexivity.
  rewrite IH. reflexivity.
Qed.

Lemma updN_length {A} (l:list A) (i:N) (x:A) : length (updN l i x) = length l.
Proof. apply upd_length. Qed.

Lemma nth_upd {A} (l:list A) (i j:nat) (x d:A) : (i < length l)%nat ->
  nth j (upd l i x) d = if Nat.eqb i j then x else nth j l d.
Proof.
  revert i j. induction l as [|h t IH]; intros i j Hi; cbn [length] in Hi; [lia|].
  destruct i as [|i], j as [|j]; cbn [upd nth Nat.eqb]; try reflexivity.
  apply IH. lia.
Qed.

Lemma nth_updN {A} (l:list A) (i j:N) (x d:A) : (N.to_nat i < length l)%nat ->
  nth (N.to_nat j) (updN l i x) d = if i =? j then x else nth (N.to_nat j) l d.
Proof.
  intro Hi. unfold updN. rewrite nth_upd by exact Hi.
  destruct (N.eqb_spec i j) as [->|Hne].
  - rewrite Nat.eqb_refl. reflexivity.
  - destruct (Nat.eqb_spec (N.to_nat i) (N.to_nat j)) as [Heq|_]; [|reflexivity].
    exfalso. apply Hne. lia.
Qed.

(** ** squares produced by [step] / [steps] / [ray] / [first_occ] are on the board *)
Lemma step_lt (s t:N) (d:Z*Z) : step s d = Some t -> t < 64.
Proof.
  unfold step. destruct (on_board (fileZ s + fst d) (rankZ s + snd d)) eqn:Hob; [|discriminate].
  intro H. injection H as <-. apply on_board_iff in Hob. destruct Hob as [Hf Hr].
  apply (idx_coords _ _ Hf Hr).
Qed.

Lemma in_steps (s t:N) (ds:list (Z*Z)) :
  In t (steps s ds) <-> exists d, In d ds /\ step s d = Some t.
Proof.
  unfold steps. rewrite in_flat_map. split.
  - intros [d [Hd Hin]]. exists d. split; [exact Hd|].
    destruct (step s d) as [x|]; [|contradiction]. destruct Hin as [->|[]]. reflexivity.
  - intros [d [Hd Hs]]. exists d. split; [exact Hd|]. rewrite Hs. left. reflexivity.
Qed.

Lemma steps_lt (s t:N) (ds:list (Z*Z)) : In t (steps s ds) -> t < 64.
Proof. intro H. apply in_steps in H. destruct H as [d [_ H]]. eapply step_lt, H. Qed.

Lemma ray_lt (p:pos) (s t:N) (d:Z*Z) (n:nat) : In t (ray p s d n) -> t < 64.
Proof.
  revert s. induction n as [|n IH]; intros s; cbn [ray]; [contradiction|].
  destruct (step s d) as [s'|] eqn:Hs; [|contradiction].
  intros [<-|Hin]; [eapply step_lt, Hs|].
  destruct (occ p s'); [contradiction|]. eapply IH, Hin.
Qed.

Lemma slides_lt (p:pos) (s t:N) (ds:list (Z*Z)) : In t (slides p s ds) -> t < 64.
Proof.
  unfold slides. rewrite in_flat_map. intros [d [_ H]]. eapply ray_lt, H.
Qed.

Lemma attack_set_lt (p:pos) (s t:N) : In t (attack_set p s) -> t < 64.
Proof.
  unfold attack_set. destruct (at_ p s) as [[[] c]|]; intro H;
    try (eapply steps_lt, H); try (eapply slides_lt, H). contradiction.
Qed.

Lemma first_occ_lt (p:pos) (s t:N) (d:Z*Z) (n:nat) : first_occ p s d n = Some t -> t < 64.
Proof.
  revert s. induction n as [|n IH]; intros s; cbn [first_occ]; [discriminate|].
  destruct (step s d) as [s'|] eqn:Hs; [|discriminate].
  destruct (occ p s').
  - intro H. injection H as <-. eapply step_lt, Hs.
  - apply IH.
Qed.

(** ** [at_] outside the board *)
Lemma at_high (p:pos) (s:N) : length (placement p) = 64%nat -> 64 <= s -> at_ p s = None.
Proof. intros Hl Hs. unfold at_. apply nth_overflow. lia. Qed.

Lemma has_lt (p:pos) (s:N) (t:ptype) (c:color) :
  length (placement p) = 64%nat -> has p s t c = true -> s < 64.
Proof.
  intros Hl H. destruct (N.lt_ge_cases s 64) as [Hlt|Hge]; [exact Hlt|].
  unfold has in H. rewrite at_high in H by assumption. discriminate.
Qed.

Lemma king_sq_some (p:pos) (c:color) (k:N) :
  king_sq p c = Some k -> k < 64 /\ has p k King c = true.
Proof.
  unfold king_sq. intro H. apply find_some in H. destruct H as [Hin Hk].
  split; [apply in_all_sq, Hin|exact Hk].
Qed.

(** ** at most one king of each colour *)
Definition uniq_king (p:pos) : Prop :=
  forall c s t, has p s King c = true -> has p t King c = true -> s = t.

Lemma NoDup_all_sq : NoDup all_sq.
Proof.
  rewrite all_sq_seq. apply FinFun.Injective_map_NoDup; [|apply seq_NoDup].
  intros a b H. lia.
Qed.

Lemma kings_unfold (p:pos) (c:color) :
  kings p c = N.of_nat (length (filter (fun s => has p s King c) all_sq)).
Proof. reflexivity. Qed.

Lemma kings_le1_uniq (p:pos) (c:color) : length (placement p) = 64%nat -> kings p c <= 1 ->
  forall s t, has p s King c = true -> has p t King c = true -> s = t.
Proof.
  intros Hl Hk s t Hs Ht.
  destruct (N.eq_dec s t) as [Heq|Hne]; [exact Heq|exfalso].
  rewrite kings_unfold in Hk.
  assert (NoDup (filter (fun s => has p s King c) all_sq)) as Hnd
    by (apply NoDup_filter, NoDup_all_sq).
  assert (NoDup [s;t]) as Hnd2.
  { constructor; [intros [H|[]]; congruence|]. constructor; [intros []|constructor]. }
  assert (incl [s;t] (filter (fun s => has p s King c) all_sq)) as Hincl.
  { intros x [<-|[<-|[]]]; apply filter_In; split; try assumption;
      apply in_all_sq; eapply has_lt; eassumption. }
  pose proof (NoDup_incl_length Hnd2 Hincl) as Hlen.
  change (length [s;t]) with 2%nat in Hlen.
  remember (length (filter (fun s => has p s King c) all_sq)) as n eqn:En. clear En Hnd Hincl.
  lia.
Qed.

Definition WFpos (p:pos) : Prop :=
  length (placement p) = 64%nat /\ kings p White <= 1 /\ kings p Black <= 1.

Lemma WFpos_uniq (p:pos) : WFpos p -> uniq_king p.
Proof.
  intros [Hl [Hw Hb]] c. destruct c; apply kings_le1_uniq; assumption.
Qed.

Lemma pos_valid_WF (p:pos) : pos_valid p = true -> WFpos p.
Proof.
  unfold pos_valid. intro H. rewrite !andb_true_iff in H.
  destruct H as [[[[[[[[[[[[[Hl Hkw] Hkb] _] _] _] _] _] _] _] _] _] _] _].
  apply Nat.eqb_eq in Hl. apply N.eqb_eq in Hkw. apply N.eqb_eq in Hkb.
  repeat split; [exact Hl|rewrite Hkw|rewrite Hkb]; apply N.le_refl.
Qed.

Lemma NoDup_all_eq_length {A} (l:list A) :
  NoDup l -> (forall a b, In a l -> In b l -> a = b) -> (length l <= 1)%nat.
Proof.
  intros Hnd H. destruct l as [|a [|b l']]; cbn [length]; try lia.
  exfalso. inversion Hnd as [|x xs Hnin _]. subst. apply Hnin.
  rewrite (H a b); [left; reflexivity|left; reflexivity|right; left; reflexivity].
Qed.

Lemma uniq_kings_le1 (p:pos) (c:color) : uniq_king p -> kings p c <= 1.
Proof.
  intro U. rewrite kings_unfold.
  assert (length (filter (fun s => has p s King c) all_sq) <= 1)%nat as H.
  { apply NoDup_all_eq_length; [apply NoDup_filter, NoDup_all_sq|].
    intros a b Ha Hb. apply filter_In in Ha, Hb. apply (U c); [apply Ha|apply Hb]. }
  remember (length (filter (fun s => has p s King c) all_sq)) as n eqn:En. clear En. lia.
Qed.

Lemma uniq_WFpos (p:pos) : length (placement p) = 64%nat -> uniq_king p -> WFpos p.
Proof. intros Hl U. repeat split; [exact Hl|apply uniq_kings_le1, U|apply uniq_kings_le1, U]. Qed.
