(** * Proofs.FenPlacement — property C06, part 2: the piece-placement field.
    (1) The nested [fold_left] of [builder_display] that prints the placement is the
        specification's run-length encoder: [join_slash] of [fen_rank] of the eight ranks,
        rank 8 first (two different programs, same text for every 64-entry — indeed every —
        piece list).
    (2) [parse_placement] on that text, started like [BoardBuilder::from_str] does, rebuilds
        exactly the piece list, for ANY 64-entry piece list. *)
From Coq Require Import Lia ZifyBool ZifyN ZifyNat.
From Chess Require Import Base.Bits Base.Text Spec.Geometry Spec.Rules Spec.Text
  Model.Board Model.MoveGen Model.Fen Proofs.FenSplit.
Open Scope N_scope.
Ltac Zify.zify_post_hook ::= Z.div_mod_to_equations.
#[local] Arguments N.add : simpl never.
#[local] Arguments N.sub : simpl never.
#[local] Arguments N.mul : simpl never.
#[local] Arguments N.shiftl : simpl never.
#[local] Arguments N.shiftr : simpl never.
#[local] Arguments N.land : simpl never.
#[local] Arguments N.lor : simpl never.
#[local] Arguments N.lxor : simpl never.
#[local] Arguments N.testbit : simpl never.
#[local] Arguments N.eqb : simpl never.
#[local] Arguments N.ltb : simpl never.
#[local] Arguments N.leb : simpl never.

Notation cellT := (option (ptype*color)).

(** ** 1. The printer *)

Definition cell (pcs:list cellT) (rank file:N) : cellT := nth (N.to_nat (mk_sq rank file)) pcs None.
Definition row (pcs:list cellT) (rank:N) : list cellT := map (cell pcs rank) files8.

(** the body of the inner loop of [builder_display], verbatim *)
Definition rank_step (pcs:list cellT) (rank:N) (st:str*N) (file:N) : str*N :=
  let (out,count) := st in
  let square := mk_sq rank file in
  let pc := nth (N.to_nat square) pcs None in
  let '(out,count) := match pc with
                      | Some _ => if negb (count =? 0) then (out ++ dec count, 0) else (out,count)
                      | None => (out,count) end in
  match pc with
  | Some (p,c) => (out ++ piece_to_string p c, count)
  | None => (out, count + 1) end.
(** the body of the outer loop, verbatim *)
Definition ranks_step (pcs:list cellT) (out:str) (rank:N) : str :=
  let '(out,count) := fold_left (rank_step pcs rank) files8 (out,0) in
  let out := if negb (count =? 0) then out ++ dec count else out in
  if negb (rank =? 0) then out ++ [47] else out.
Definition placement_fold (pcs:list cellT) : str := fold_left (ranks_step pcs) rev_ranks [].

(** the six fields of the rendering *)
Definition side_text (c:color) : str := match c with White => [119] | Black => [98] end.
Definition castle_text (crw crb:N) : str :=
  cr_to_string crw White ++ cr_to_string crb Black
  ++ (if (crw =? 0) && (crb =? 0) then [45] else []).
Definition ep_text (bb:builder) : str :=
  match builder_get_en_passant bb with
  | Some sq => square_display (ubackward (opp (bstm bb)) sq)
  | None => [45] end.

Lemma builder_display_fields : forall bb,
  builder_display bb =
  join6 (placement_fold (bpieces bb)) (side_text (bstm bb)) (castle_text (bcrW bb) (bcrB bb))
        (ep_text bb) [48] [49].
Proof.
  intro bb. unfold builder_display, join6, castle_text, ep_text.
  change (fold_left _ rev_ranks []) with (placement_fold (bpieces bb)).
  destruct (bstm bb); cbn [side_text]; rewrite <- ?app_assoc; reflexivity.
Qed.

Lemma dec_small : forall n, 0 < n < 10 -> dec n = [48 + n].
Proof.
  intros n Hn.
  assert (H : n = 1 \/ n = 2 \/ n = 3 \/ n = 4 \/ n = 5 \/ n = 6 \/ n = 7 \/ n = 8 \/ n = 9) by lia.
  repeat destruct H as [H|H]; subst n; reflexivity.
Qed.
Lemma piece_to_string_fen : forall p c, piece_to_string p c = [fen_piece (p,c)].
Proof. intros p c. destruct p, c; reflexivity. Qed.

Lemma rank_step_none : forall pcs rank out count f,
  cell pcs rank f = None -> rank_step pcs rank (out,count) f = (out, count + 1).
Proof. intros pcs rank out count f E. unfold rank_step. unfold cell in E. rewrite E. reflexivity. Qed.
Lemma rank_step_some : forall pcs rank out count f p c,
  cell pcs rank f = Some (p,c) ->
  rank_step pcs rank (out,count) f
  = ((if count =? 0 then out else out ++ dec count) ++ piece_to_string p c, 0).
Proof.
  intros pcs rank out count f p c E. unfold rank_step. unfold cell in E. rewrite E.
  destruct (count =? 0) eqn:E0; [apply N.eqb_eq in E0; subst count|]; reflexivity.
Qed.

(** the inner loop is [fen_rank] *)
Lemma rank_fold : forall pcs rank fs out count,
  count + N.of_nat (length fs) < 10 ->
  (let '(o,c) := fold_left (rank_step pcs rank) fs (out,count) in
   if negb (c =? 0) then o ++ dec c else o)
  = out ++ fen_rank (map (cell pcs rank) fs) count.
Proof.
  intros pcs rank fs. induction fs as [|f fs IH]; intros out count Hc.
  - cbn [fold_left map fen_rank]. destruct (count =? 0) eqn:E; cbn [negb].
    + rewrite app_nil_r. reflexivity.
    + rewrite dec_small; [reflexivity|]. apply N.eqb_neq in E. cbn [length] in Hc. lia.
  - cbn [fold_left map fen_rank]. cbn [length] in Hc.
    destruct (cell pcs rank f) as [[p c]|] eqn:E.
    + rewrite (rank_step_some _ _ _ _ _ _ _ E). rewrite IH by lia.
      rewrite piece_to_string_fen. destruct (count =? 0) eqn:E0.
      * cbn [app]. rewrite <- app_assoc. reflexivity.
      * rewrite dec_small; [|apply N.eqb_neq in E0; lia]. rewrite <- !app_assoc. reflexivity.
    + rewrite (rank_step_none _ _ _ _ _ E). apply IH. lia.
Qed.

Lemma ranks_step_eq : forall pcs out rank,
  ranks_step pcs out rank = out ++ fen_rank (row pcs rank) 0 ++ (if rank =? 0 then [] else [47]).
Proof.
  intros pcs out rank. unfold ranks_step.
  pose proof (rank_fold pcs rank files8 out 0) as H.
  destruct (fold_left (rank_step pcs rank) files8 (out,0)) as [o c].
  rewrite H by (cbn [length files8]; lia). fold (row pcs rank).
  destruct (rank =? 0); cbn [negb]; rewrite <- ?app_assoc, ?app_nil_r; reflexivity.
Qed.

Lemma ranks_fold_eq : forall pcs ranks out,
  fold_left (ranks_step pcs) ranks out
  = out ++ concat (map (fun r => fen_rank (row pcs r) 0 ++ (if r =? 0 then [] else [47])) ranks).
Proof.
  intros pcs ranks. induction ranks as [|r ranks IH]; intro out.
  - cbn [fold_left map concat]. rewrite app_nil_r. reflexivity.
  - cbn [fold_left map concat]. rewrite IH, ranks_step_eq. rewrite <- !app_assoc. reflexivity.
Qed.

(** the placement text, in the specification's vocabulary *)
Definition placement_text (pcs:list cellT) : str :=
  join_slash (map (fun r => fen_rank (row pcs r) 0) rev_ranks).

Theorem placement_fold_text : forall pcs, placement_fold pcs = placement_text pcs.
Proof.
  intro pcs. unfold placement_fold. rewrite ranks_fold_eq. unfold placement_text, rev_ranks.
  cbn [map concat join_slash app].
  change (7 =? 0) with false. change (6 =? 0) with false. change (5 =? 0) with false.
  change (4 =? 0) with false. change (3 =? 0) with false. change (2 =? 0) with false.
  change (1 =? 0) with false. change (0 =? 0) with true.
  rewrite <- !app_assoc. cbn [app]. rewrite !app_nil_r. reflexivity.
Qed.

(** ** 2. The parser *)

Lemma land7 : forall x, N.land x 7 = x mod 8.
Proof. intro x. change 7 with (N.ones 3). rewrite N.land_ones. reflexivity. Qed.

Lemma mk_sq_small : forall r f, r < 8 -> f < 8 -> mk_sq r f = 8 * r + f.
Proof.
  intros r f Hr Hf.
  assert (H : r = 0 \/ r = 1 \/ r = 2 \/ r = 3 \/ r = 4 \/ r = 5 \/ r = 6 \/ r = 7) by lia.
  assert (G : f = 0 \/ f = 1 \/ f = 2 \/ f = 3 \/ f = 4 \/ f = 5 \/ f = 6 \/ f = 7) by lia.
  repeat destruct H as [H|H]; subst r; repeat destruct G as [G|G]; subst f; reflexivity.
Qed.

Lemma parse_digit : forall k r pcs rank f, 1 <= k <= 8 ->
  parse_placement ((48 + k) :: r) pcs rank f = parse_placement r pcs rank (N.land (f + k) 7).
Proof.
  intros k r pcs rank f Hk. cbn [parse_placement].
  replace (48 + k =? 47) with false by (symmetry; apply N.eqb_neq; lia).
  unfold in_range.
  replace (49 <=? 48 + k) with true by (symmetry; apply N.leb_le; lia).
  replace (48 + k <=? 56) with true by (symmetry; apply N.leb_le; lia).
  cbn [andb]. replace (48 + k - 48) with k by lia. reflexivity.
Qed.
Lemma parse_letter : forall pc r pcs rank f,
  parse_placement (fen_piece pc :: r) pcs rank f
  = parse_placement r (updN pcs (mk_sq rank f) (Some pc)) rank (N.land (f + 1) 7).
Proof. intros [p c] r pcs rank f. destruct p, c; reflexivity. Qed.
Lemma parse_slash : forall r pcs rank f,
  parse_placement (47 :: r) pcs rank f = parse_placement r pcs (N.land (rank + 7) 7) 0.
Proof. reflexivity. Qed.

(** what one rank of text writes into the piece array *)
Fixpoint fill (pcs:list cellT) (rank pos:N) (cells:list cellT) : list cellT :=
  match cells with
  | [] => pcs
  | None :: r => fill pcs rank (pos + 1) r
  | Some pc :: r => fill (updN pcs (mk_sq rank pos) (Some pc)) rank (pos + 1) r
  end.

(** parsing the text of the rest of a rank: the parser's file cursor is at [cf] (kept
    modulo 8), [cnt] empty squares are pending, [cells] remain *)
Lemma parse_rank : forall cells cnt cf pcs rank rest,
  cf + cnt + N.of_nat (length cells) = 8 ->
  parse_placement (fen_rank cells cnt ++ rest) pcs rank (N.land cf 7)
  = parse_placement rest (fill pcs rank (cf + cnt) cells) rank 0.
Proof.
  induction cells as [|x cells IH]; intros cnt cf pcs rank rest Hs.
  - cbn [fen_rank fill]. cbn [length] in Hs. destruct (cnt =? 0) eqn:E.
    + apply N.eqb_eq in E. replace cf with 8 by lia. reflexivity.
    + apply N.eqb_neq in E. cbn [app]. rewrite parse_digit by lia.
      replace (N.land (N.land cf 7 + cnt) 7) with 0; [reflexivity|]. rewrite !land7. lia.
  - cbn [length] in Hs. destruct x as [pc|].
    + cbn [fen_rank fill]. destruct (cnt =? 0) eqn:E.
      * apply N.eqb_eq in E. subst cnt. cbn [app]. rewrite parse_letter.
        replace (N.land cf 7) with cf by (rewrite land7; lia).
        replace (cf + 0) with cf by lia.
        rewrite (IH 0 (cf + 1)) by lia. replace (cf + 1 + 0) with (cf + 1) by lia. reflexivity.
      * apply N.eqb_neq in E. cbn [app]. rewrite parse_digit by lia. rewrite parse_letter.
        replace (N.land (N.land cf 7 + cnt) 7) with (cf + cnt) by (rewrite !land7; lia).
        rewrite (IH 0 (cf + cnt + 1)) by lia.
        replace (cf + cnt + 1 + 0) with (cf + cnt + 1) by lia. reflexivity.
    + cbn [fen_rank fill]. rewrite (IH (cnt + 1) cf) by lia.
      replace (cf + (cnt + 1)) with (cf + cnt + 1) by lia. reflexivity.
Qed.

Lemma upd_app : forall (A:Type) (a:list A) x c y, upd (a ++ x :: c) (length a) y = a ++ y :: c.
Proof.
  intros A a x c y. induction a as [|h a IH].
  - reflexivity.
  - cbn [app length upd]. rewrite IH. reflexivity.
Qed.

(** the array seen as: ranks below | squares of this rank already done | squares of this rank
    still to come (empty) | ranks above *)
Lemma fill_spec : forall cells A done B rank,
  length A = (8 * N.to_nat rank)%nat -> rank < 8 ->
  (length done + length cells = 8)%nat ->
  fill (A ++ done ++ repeat None (length cells) ++ B) rank (N.of_nat (length done)) cells
  = A ++ done ++ cells ++ B.
Proof.
  induction cells as [|x cells IH]; intros A done B rank HA Hr Hl.
  - reflexivity.
  - cbn [length] in Hl. destruct x as [pc|]; cbn [fill length repeat].
    + replace (updN (A ++ done ++ (None :: repeat None (length cells)) ++ B)
                    (mk_sq rank (N.of_nat (length done))) (Some pc))
        with (A ++ (done ++ [Some pc]) ++ repeat None (length cells) ++ B).
      * replace (N.of_nat (length done) + 1) with (N.of_nat (length (done ++ [Some pc])))
          by (rewrite app_length; cbn [length]; lia).
        rewrite IH; [|assumption|assumption|rewrite app_length; cbn [length]; lia].
        rewrite <- !app_assoc. reflexivity.
      * unfold updN. rewrite mk_sq_small by lia.
        replace (N.to_nat (8 * rank + N.of_nat (length done))) with (length (A ++ done))
          by (rewrite app_length; lia).
        rewrite (app_assoc A done). cbn [app]. rewrite upd_app.
        rewrite <- !app_assoc. reflexivity.
    + replace (A ++ done ++ (None :: repeat None (length cells)) ++ B)
        with (A ++ (done ++ [None]) ++ repeat None (length cells) ++ B)
        by (rewrite <- !app_assoc; reflexivity).
      replace (N.of_nat (length done) + 1) with (N.of_nat (length (done ++ [@None (ptype*color)])))
        by (rewrite app_length; cbn [length]; lia).
      rewrite IH; [|assumption|assumption|rewrite app_length; cbn [length]; lia].
      rewrite <- !app_assoc. reflexivity.
Qed.

(** parsing the text of ranks n, n-1, ..., 1 into an array whose upper part [B] is done *)
Lemma parse_ranks : forall rows B,
  Forall (fun c : list cellT => length c = 8%nat) rows -> (length rows <= 8)%nat ->
  parse_placement (join_slash (map (fun c => fen_rank c 0) rows))
                  (repeat None (8 * length rows) ++ B) (N.of_nat (length rows) - 1) 0
  = Some (concat (rev rows) ++ B).
Proof.
  induction rows as [|x rows IH]; intros B Hf Hl.
  - reflexivity.
  - inversion Hf as [|x' rows' Hx Hrows]; subst.
    assert (Hfill : forall rest,
      parse_placement (fen_rank x 0 ++ rest) (repeat None (8 * length (x :: rows)) ++ B)
                      (N.of_nat (length (x :: rows)) - 1) 0
      = parse_placement rest (repeat None (8 * length rows) ++ x ++ B)
                        (N.of_nat (length (x :: rows)) - 1) 0).
    { intro rest. change 0 with (N.land 0 7) at 2. rewrite parse_rank by (rewrite Hx; lia).
      f_equal. cbn [length].
      replace (8 * S (length rows))%nat with (8 * length rows + length x)%nat by lia.
      rewrite repeat_app.
      change (0 + 0) with (N.of_nat (length (@nil cellT))).
      rewrite <- app_assoc.
      change (repeat None (length x) ++ B) with ([] ++ repeat (@None (ptype*color)) (length x) ++ B).
      rewrite fill_spec.
      - reflexivity.
      - rewrite repeat_length. cbn [length] in Hl. lia.
      - cbn [length] in Hl. lia.
      - cbn [length]. lia. }
    destruct rows as [|y rows].
    + cbn [map join_slash]. rewrite <- (app_nil_r (fen_rank x 0)). rewrite Hfill.
      cbn [parse_placement length repeat rev concat app]. rewrite app_nil_r. reflexivity.
    + change (join_slash (map (fun c => fen_rank c 0) (x :: y :: rows)))
        with (fen_rank x 0 ++ 47 :: join_slash (map (fun c => fen_rank c 0) (y :: rows))).
      rewrite Hfill. rewrite parse_slash.
      replace (N.land (N.of_nat (length (x :: y :: rows)) - 1 + 7) 7)
        with (N.of_nat (length (y :: rows)) - 1)
        by (rewrite land7; cbn [length] in *; lia).
      rewrite IH; [|assumption|cbn [length] in *; lia].
      f_equal. cbn [rev]. rewrite !concat_app. cbn [concat]. rewrite !app_nil_r.
      rewrite <- !app_assoc. reflexivity.
Qed.

(** a 64-entry list is the concatenation of its eight ranks *)
Lemma rows_concat : forall pcs : list cellT,
  length pcs = 64%nat -> concat (rev (map (row pcs) rev_ranks)) = pcs.
Proof.
  intros pcs H.
  do 64 (destruct pcs as [|? pcs]; [discriminate H|]).
  destruct pcs; [|discriminate H]. reflexivity.
Qed.

Theorem parse_placement_text : forall pcs : list cellT,
  length pcs = 64%nat ->
  parse_placement (placement_text pcs) (repeat None 64) 7 0 = Some pcs.
Proof.
  intros pcs H. unfold placement_text. rewrite <- (map_map (row pcs) (fun c => fen_rank c 0)).
  pose proof (parse_ranks (map (row pcs) rev_ranks) []) as P.
  rewrite map_length in P. change (length rev_ranks) with 8%nat in P.
  rewrite app_nil_r in P. change (8 * 8)%nat with 64%nat in P.
  change (N.of_nat 8 - 1) with 7 in P. rewrite P.
  - rewrite app_nil_r, rows_concat by assumption. reflexivity.
  - apply Forall_forall. intros c Hc. apply in_map_iff in Hc. destruct Hc as [r [Hr _]].
    subst c. unfold row. rewrite map_length. reflexivity.
  - lia.
Qed.

(** the placement part of the round trip *)
Theorem placement_roundtrip : forall pcs : list cellT,
  length pcs = 64%nat ->
  parse_placement (placement_fold pcs) (repeat None 64) 7 0 = Some pcs.
Proof. intros pcs H. rewrite placement_fold_text. apply parse_placement_text. assumption. Qed.

Example fill_example :
  fill (repeat None 64) 7 0 [None; Some (Rook,Black); None; None; Some (King,White); None; None; None]
  = repeat None 57 ++ [Some (Rook,Black); None; None; Some (King,White); None; None; None].
Proof. reflexivity. Qed.
