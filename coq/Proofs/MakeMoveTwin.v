(** * Proofs.MakeMoveTwin — C02, the two textual copies of [make_move].
    [Model/Board.v] transcribes the shared body once ([make_move_gen]) and instantiates it with
    the rook-file arrays of the respective Rust copy ([Gen/Consts.v], regenerated from the Rust
    source on every run).  The copies agree iff their arrays agree; this file checks that on the
    generated constants (it breaks, as intended, when they differ) and states what the arrays mean. *)
From Coq Require Import Lia ZifyBool ZifyN ZifyNat.
From Chess Require Import Model.Board Gen.Consts Proofs.TablesLib.
Open Scope N_scope.

(** exactly two copies of each array *)
Lemma rook_consts_length : length C_ROOK_START = 2%nat /\ length C_ROOK_END = 2%nat.
Proof. split; reflexivity. Qed.

(** the two copies carry the same constants *)
Lemma rook_start_twin : nth 0 C_ROOK_START [] = nth 1 C_ROOK_START [].
Proof. vm_compute. reflexivity. Qed.
Lemma rook_end_twin : nth 0 C_ROOK_END [] = nth 1 C_ROOK_END [].
Proof. vm_compute. reflexivity. Qed.

(** Both move-application entry points return identical results, whatever the output board
    [r0] held before. *)
Theorem make_move_twin : forall b s d promo r0,
  make_move b s d promo r0 = make_move_new b s d promo.
Proof.
  intros b s d promo r0. unfold make_move, make_move_new.
  rewrite <- rook_start_twin, <- rook_end_twin. reflexivity.
Qed.

Theorem make_move_indep_r0 : forall b s d promo r0 r0',
  make_move b s d promo r0 = make_move b s d promo r0'.
Proof. intros. rewrite !make_move_twin. reflexivity. Qed.

(** What the constants say: indexed by the king's destination file, the rook starts on file 0 (a)
    and ends on file 3 (d) when that file is < 4, and starts on file 7 (h) and ends on file 5 (f)
    otherwise — in both copies.  (Sweep over the 8 files.) *)
Definition rook_consts_ok (k:nat) (i:N) : bool :=
  (nthN (nth k C_ROOK_START []) i 0 =? (if i <? 4 then 0 else 7))
  && (nthN (nth k C_ROOK_END []) i 0 =? (if i <? 4 then 3 else 5))
  && (length (nth k C_ROOK_START []) =? 8)%nat && (length (nth k C_ROOK_END []) =? 8)%nat.
Lemma rook_consts_sweep :
  forallb (fun i => rook_consts_ok 0 i && rook_consts_ok 1 i) range8 = true.
Proof. vm_compute. reflexivity. Qed.

Theorem rook_consts_meaning : forall k i, (k < 2)%nat -> i < 8 ->
  nthN (nth k C_ROOK_START []) i 0 = (if i <? 4 then 0 else 7) /\
  nthN (nth k C_ROOK_END []) i 0 = (if i <? 4 then 3 else 5).
Proof.
  intros k i Hk Hi. pose proof (sweep8 _ rook_consts_sweep i Hi) as H. cbv beta in H.
  apply andb_prop in H as [H0 H1].
  assert (Hc : rook_consts_ok k i = true).
  { destruct k as [|[|k]]; [exact H0|exact H1|lia]. }
  unfold rook_consts_ok in Hc.
  apply andb_prop in Hc as [Hc _]. apply andb_prop in Hc as [Hc _]. apply andb_prop in Hc as [Ha Hb].
  apply N.eqb_eq in Ha, Hb. split; assumption.
Qed.

(** the castling squares the model therefore uses: king-side (destination file 6) the rook goes
    h -> f, queen-side (destination file 2) a -> d *)
Example rook_consts_castle :
  nthN (nth 0 C_ROOK_START []) 6 0 = 7 /\ nthN (nth 0 C_ROOK_END []) 6 0 = 5 /\
  nthN (nth 0 C_ROOK_START []) 2 0 = 0 /\ nthN (nth 0 C_ROOK_END []) 2 0 = 3.
Proof. vm_compute. auto. Qed.

(** ** The refinement statement (NOT proved here; another file's task): on the board built for
    any valid position, the library's move application succeeds on every legal move and yields
    a board whose abstraction is the specification's successor [apply]. *)
Definition C02_refinement_full : Prop :=
  forall p m, pos_valid p = true -> In m (legal_moves p) ->
  exists b', make_move_new (from_scratch p) (src m) (dst m) (promo m) = Some b'
             /\ abs_board b' = apply p m.
