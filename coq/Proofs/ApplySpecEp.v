(** * Proofs.ApplySpecEp — C02, the en-passant clauses of the specification's [apply]:
    an en-passant opportunity is recorded only immediately after a double pawn push that lands
    beside an enemy pawn, and always when the pushed pawn can legally be captured en passant
    (indeed the recorded convention and the unconditional FIDE flag give the same legal moves). *)
From Coq Require Import Lia ZifyBool ZifyN ZifyNat.
From Chess Require Import Spec.Rules Proofs.TablesLib Proofs.TablesMeaning Proofs.ApplySpecLib
  Proofs.ApplySpec.
Open Scope N_scope.
Ltac Zify.zify_post_hook ::= Z.div_mod_to_equations.

(** the square between source and destination of a double push (the square passed over) *)
Definition ep_mid (m:move) : N := ((rank_of (src m) + rank_of (dst m)) / 2) * 8 + file_of (src m).
(** an enemy pawn stands horizontally adjacent to the destination *)
Definition enemy_pawn_beside (p:pos) (m:move) : bool :=
  existsb (fun d => match step (dst m) d with
                    | Some x => has p x Pawn (opp (turn p)) | None => false end) side_dirs.

Lemma ep_apply_eq p m :
  ep (apply p m) = if is_double p m then if enemy_pawn_beside p m then Some (ep_mid m) else None
                   else None.
Proof. reflexivity. Qed.

Lemma enemy_pawn_beside_iff p m : dst m < 64 ->
  (enemy_pawn_beside p m = true <->
   exists x, beside (dst m) x /\ has p x Pawn (opp (turn p)) = true).
Proof.
  intro Hd. unfold enemy_pawn_beside. rewrite existsb_exists. split.
  - intros [d [Hin H]]. destruct (step (dst m) d) as [x|] eqn:Es; [|discriminate].
    exists x. split; [|exact H]. apply (beside_step _ _ Hd). exists d. auto.
  - intros [x [Hb H]]. apply (beside_step _ _ Hd) in Hb as [d [Hin Es]].
    exists d. split; [exact Hin|]. rewrite Es. exact H.
Qed.

(** ** (d) recorded only after a double push beside an enemy pawn — and then always *)
Theorem ep_recorded_only p m t : dst m < 64 -> ep (apply p m) = Some t ->
  is_double p m = true /\ t = ep_mid m /\
  exists x, beside (dst m) x /\ has p x Pawn (opp (turn p)) = true.
Proof.
  intros Hd. rewrite ep_apply_eq. destruct (is_double p m); [|discriminate].
  destruct (enemy_pawn_beside p m) eqn:Eb; [|discriminate].
  intro H. injection H as <-. split; [reflexivity|]. split; [reflexivity|].
  apply enemy_pawn_beside_iff; assumption.
Qed.

Theorem ep_recorded_if p m : dst m < 64 -> is_double p m = true ->
  (exists x, beside (dst m) x /\ has p x Pawn (opp (turn p)) = true) ->
  ep (apply p m) = Some (ep_mid m).
Proof.
  intros Hd Hdb Hx. rewrite ep_apply_eq, Hdb.
  rewrite (proj2 (enemy_pawn_beside_iff p m Hd) Hx). reflexivity.
Qed.

Theorem ep_not_recorded_iff p m : dst m < 64 ->
  (ep (apply p m) = None <->
   is_double p m = false \/ forall x, beside (dst m) x -> has p x Pawn (opp (turn p)) = false).
Proof.
  intro Hd. rewrite ep_apply_eq. split.
  - destruct (is_double p m); [|auto]. destruct (enemy_pawn_beside p m) eqn:Eb; [discriminate|].
    intros _. right. intros x Hb. apply not_true_is_false. intro Hh.
    rewrite (proj2 (enemy_pawn_beside_iff p m Hd)) in Eb by eauto. discriminate.
  - intros [->|H]; [reflexivity|]. destruct (is_double p m); [|reflexivity].
    destruct (enemy_pawn_beside p m) eqn:Eb; [|reflexivity].
    apply (enemy_pawn_beside_iff p m Hd) in Eb as [x [Hb Hh]]. rewrite (H x Hb) in Hh. discriminate.
Qed.

(** what a legal double push is: a pawn of the side to move goes from its start rank straight
    ahead over the empty middle square [ep_mid m] onto an empty square; it is neither an
    en-passant capture nor castling *)
Record double_facts (p:pos) (m:move) : Prop := {
  df_pawn : at_ p (src m) = Some (Pawn, turn p);
  df_start : rank_of (src m) = start_rank (turn p);
  df_step1 : step (src m) (0, fwdc (turn p))%Z = Some (ep_mid m);
  df_step2 : step (ep_mid m) (0, fwdc (turn p))%Z = Some (dst m);
  df_mid_empty : at_ p (ep_mid m) = None;
  df_dst_empty : at_ p (dst m) = None;
  df_promo : promo m = None;
  df_not_ep : is_ep p m = false;
  df_not_castle : is_castle p m = false }.

Theorem legal_double_facts p m : In m (legal_moves p) -> is_double p m = true -> double_facts p m.
Proof.
  intros Hm Hdb. destruct (legal_kind p m Hm) as [Hs Hk].
  destruct (is_double_kind p m Hs Hk Hdb) as [d1 [E1 [E2 [O1 [O2 [Hr Hmv]]]]]].
  pose proof Hdb as Hh. unfold is_double in Hh. apply andb_prop in Hh as [Hh _]. apply has_iff in Hh.
  assert (Hmid : d1 = ep_mid m).
  { pose proof (step_fwd _ _ _ E1) as [Hl1 [Hf1 Hr1]]. pose proof (step_fwd _ _ _ E2) as [Hl2 [Hf2 Hr2]].
    cbn [fst snd] in *. pose proof (fwdc_cases (turn p)) as Hfw.
    rewrite (sq_split d1). unfold ep_mid. coords. }
  subst d1.
  assert (Hfile : file_of (src m) = file_of (dst m)).
  { pose proof (step_fwd _ _ _ E1) as [_ [Hf1 _]]. pose proof (step_fwd _ _ _ E2) as [_ [Hf2 _]].
    cbn [fst] in *. rewrite !fileZ_file_of in *. lia. }
  split; try assumption.
  - apply occ_false_at, O1.
  - apply occ_false_at, O2.
  - rewrite Hmv. reflexivity.
  - unfold is_ep. rewrite Hfile, N.eqb_refl. cbn [negb]. rewrite andb_false_r. reflexivity.
  - unfold is_castle, has. rewrite Hh. reflexivity.
Qed.

(** ** (e) the library's convention against the unconditional FIDE flag *)
Definition with_ep (p:pos) (e:option N) : pos :=
  {| placement := placement p; turn := turn p; wk := wk p; wq := wq p; bk := bk p; bq := bq p;
     ep := e |}.
(** [apply] with the en-passant target recorded after EVERY double push *)
Definition apply_fide (p:pos) (m:move) : pos :=
  with_ep (apply p m) (if is_double p m then Some (ep_mid m) else None).

Lemma with_ep_apply_same p m : with_ep (apply p m) (ep (apply p m)) = apply p m.
Proof. reflexivity. Qed.

(** only [pawn_moves] looks at the recorded target *)
Lemma at_with_ep q e s : at_ (with_ep q e) s = at_ q s.
Proof. reflexivity. Qed.
Lemma occ_with_ep q e s : occ (with_ep q e) s = occ q s.
Proof. reflexivity. Qed.
Lemma has_with_ep q e s t c : has (with_ep q e) s t c = has q s t c.
Proof. reflexivity. Qed.
Lemma own_with_ep q e c s : own (with_ep q e) c s = own q c s.
Proof. reflexivity. Qed.
Lemma enemy_with_ep q e c s : enemy (with_ep q e) c s = enemy q c s.
Proof. reflexivity. Qed.
Lemma ray_with_ep q e d n : forall s, ray (with_ep q e) s d n = ray q s d n.
Proof.
  induction n as [|n IH]; intro s; cbn [ray]; [reflexivity|].
  destruct (step s d) as [s'|]; [|reflexivity]. rewrite occ_with_ep, IH. reflexivity.
Qed.
Lemma slides_with_ep q e s ds : slides (with_ep q e) s ds = slides q s ds.
Proof. unfold slides. apply flat_map_ext. intro d. apply ray_with_ep. Qed.
Lemma attack_set_with_ep q e s : attack_set (with_ep q e) s = attack_set q s.
Proof.
  unfold attack_set. rewrite at_with_ep.
  destruct (at_ q s) as [[[] c]|]; try reflexivity; apply slides_with_ep.
Qed.
Lemma attackers_with_ep q e c t : attackers (with_ep q e) c t = attackers q c t.
Proof.
  unfold attackers. apply filter_ext. intro s. unfold attacks.
  rewrite own_with_ep, attack_set_with_ep. reflexivity.
Qed.
Lemma attacked_by_with_ep q e c t : attacked_by (with_ep q e) c t = attacked_by q c t.
Proof. unfold attacked_by. rewrite attackers_with_ep. reflexivity. Qed.
Lemma king_sq_with_ep q e c : king_sq (with_ep q e) c = king_sq q c.
Proof. unfold king_sq. reflexivity. Qed.
Lemma in_check_with_ep q e c : in_check (with_ep q e) c = in_check q c.
Proof.
  unfold in_check. rewrite king_sq_with_ep. destruct (king_sq q c); [|reflexivity].
  apply attacked_by_with_ep.
Qed.
Lemma castle_moves_with_ep q e c : castle_moves (with_ep q e) c = castle_moves q c.
Proof.
  unfold castle_moves. rewrite !has_with_ep, !occ_with_ep, !attacked_by_with_ep.
  change (can_k (with_ep q e) c) with (can_k q c). change (can_q (with_ep q e) c) with (can_q q c).
  reflexivity.
Qed.
Lemma is_ep_with_ep q e m : is_ep (with_ep q e) m = is_ep q m.
Proof. reflexivity. Qed.
Lemma is_castle_with_ep q e m : is_castle (with_ep q e) m = is_castle q m.
Proof. reflexivity. Qed.
Lemma is_double_with_ep q e m : is_double (with_ep q e) m = is_double q m.
Proof. reflexivity. Qed.
Lemma apply_with_ep q e m : apply (with_ep q e) m = apply q m.
Proof.
  unfold apply. rewrite is_ep_with_ep, is_castle_with_ep, is_double_with_ep.
  change (placement (with_ep q e)) with (placement q). change (turn (with_ep q e)) with (turn q).
  change (at_ (with_ep q e) (src m)) with (at_ q (src m)).
  change (wk (with_ep q e)) with (wk q). change (wq (with_ep q e)) with (wq q).
  change (bk (with_ep q e)) with (bk q). change (bq (with_ep q e)) with (bq q).
  reflexivity.
Qed.

Lemma flat_map_ext_in' {A B} (f g:A->list B) l :
  (forall a, In a l -> f a = g a) -> flat_map f l = flat_map g l.
Proof.
  induction l as [|x l IH]; intro H; cbn [flat_map]; [reflexivity|].
  rewrite (H x (or_introl eq_refl)), IH; [reflexivity|]. intros a Ha. apply H. right. exact Ha.
Qed.

(** a recorded target no pawn of the side to move could capture towards changes nothing *)
Lemma pawn_moves_with_ep q e c s : ep q = None ->
  (forall d, In d (steps s (pawn_caps c)) -> d <> e) ->
  pawn_moves (with_ep q (Some e)) c s = pawn_moves q c s.
Proof.
  intros Hn Hne. unfold pawn_moves. f_equal.
  apply flat_map_ext_in'. intros d Hd.
  change (enemy (with_ep q (Some e)) c d) with (enemy q c d).
  change (ep (with_ep q (Some e))) with (Some e). rewrite Hn.
  destruct (enemy q c d); [reflexivity|].
  destruct (N.eqb_spec e d) as [E|_]; [|reflexivity]. exfalso. apply (Hne d Hd). auto.
Qed.

Lemma legal_moves_with_ep q e : ep q = None ->
  (forall s d, at_ q s = Some (Pawn, turn q) -> In d (steps s (pawn_caps (turn q))) -> d <> e) ->
  legal_moves (with_ep q (Some e)) = legal_moves q.
Proof.
  intros Hn Hne. unfold legal_moves.
  change (turn (with_ep q (Some e))) with (turn q).
  assert (Hps : pseudo (with_ep q (Some e)) = pseudo q).
  { unfold pseudo. apply flat_map_ext_in'. intros s _. unfold pseudo_from.
    change (at_ (with_ep q (Some e)) s) with (at_ q s).
    change (turn (with_ep q (Some e))) with (turn q).
    destruct (at_ q s) as [[t c']|] eqn:Ea; [|reflexivity].
    destruct (color_eqb (turn q) c') eqn:Ec; [|reflexivity]. apply color_eqb_eq in Ec. subst c'.
    destruct t; rewrite ?attack_set_with_ep, ?castle_moves_with_ep;
      try (apply (f_equal (map (mv s))), filter_ext; intro d; rewrite own_with_ep; reflexivity).
    2: solve [f_equal].
    apply pawn_moves_with_ep; [exact Hn|]. intros d Hd. apply (Hne s d Ea Hd). }
  rewrite Hps. apply filter_ext. intro m. rewrite apply_with_ep. reflexivity.
Qed.

(** geometry: a pawn of the other side that could capture towards the middle square of a legal
    double push stands beside the pushed pawn (and not where that pawn came from) *)
Lemma mid_capturer_beside p m s : In m (legal_moves p) -> is_double p m = true -> s < 64 ->
  In (ep_mid m) (steps s (pawn_caps (opp (turn p)))) ->
  beside (dst m) s /\ s <> src m /\ s <> dst m.
Proof.
  intros Hm Hdb Hs Hin. pose proof (legal_double_facts p m Hm Hdb) as F.
  pose proof (step_fwd _ _ _ (df_step1 p m F)) as [_ [Hf1 Hr1]].
  pose proof (step_fwd _ _ _ (df_step2 p m F)) as [_ [Hf2 Hr2]].
  apply pawn_caps_step in Hin as [_ [Hr Hf]]. rewrite fwdc_opp in Hr.
  cbn [fst snd] in *. rewrite !rankZ_rank_of in *. rewrite !fileZ_file_of in *.
  split; [|split].
  - split; [exact Hs|]. split; lia.
  - intro E. rewrite E in Hf. lia.
  - intro E. rewrite E in Hf. lia.
Qed.

Section Fide.
Variables (p:pos) (m:move).
Hypothesis Hlen : length (placement p) = 64%nat.
Hypothesis Hlegal : In m (legal_moves p).

(** The two conventions allow exactly the same moves in the successor position. *)
Theorem legal_moves_fide_eq : legal_moves (apply_fide p m) = legal_moves (apply p m).
Proof.
  destruct (legal_dom p m Hlegal) as [Hs [Hd _]].
  unfold apply_fide. pose proof (ep_apply_eq p m) as He.
  destruct (is_double p m) eqn:Hdb; [|rewrite <- He; reflexivity].
  destruct (enemy_pawn_beside p m) eqn:Eb; [rewrite <- He; reflexivity|].
  apply legal_moves_with_ep; [exact He|].
  intros s d Ha Hin E. subst d. rewrite turn_apply in Ha, Hin.
  assert (Hslt : s < 64).
  { destruct (N.lt_ge_cases s 64) as [H|H]; [exact H|].
    rewrite (at_apply_high p m s Hlen H) in Ha. discriminate. }
  destruct (mid_capturer_beside p m s Hlegal Hdb Hslt Hin) as [Hb [Hn1 Hn2]].
  pose proof (legal_double_facts p m Hlegal Hdb) as F.
  rewrite (at_apply_other p m Hlen Hlegal s Hn2 Hn1) in Ha.
  - rewrite (proj2 (enemy_pawn_beside_iff p m Hd)) in Eb; [discriminate|].
    exists s. split; [exact Hb|]. apply has_iff, Ha.
  - rewrite (df_not_ep p m F). discriminate.
  - rewrite (df_not_castle p m F). discriminate.
Qed.

(** An en-passant opportunity is recorded whenever, under the unconditional FIDE flag, the
    pushed pawn could legally be captured en passant. *)
Theorem ep_recorded_when_capturable :
  (exists m', In m' (legal_moves (apply_fide p m)) /\ is_ep (apply_fide p m) m' = true) ->
  ep (apply p m) <> None.
Proof.
  intros [m' [Hm' He']] Hnone. rewrite legal_moves_fide_eq in Hm'.
  unfold apply_fide in He'. rewrite is_ep_with_ep in He'.
  pose proof (ef_target _ _ (legal_ep_facts _ _ Hm' He')) as Ht. congruence.
Qed.

(** the same in the terms of clause (d): then the move was a double push that landed beside an
    enemy pawn, and the recorded square is the one passed over *)
Corollary ep_capturable_shape :
  (exists m', In m' (legal_moves (apply_fide p m)) /\ is_ep (apply_fide p m) m' = true) ->
  ep (apply p m) = Some (ep_mid m) /\ is_double p m = true /\
  exists x, beside (dst m) x /\ has p x Pawn (opp (turn p)) = true.
Proof.
  intro H. apply ep_recorded_when_capturable in H.
  destruct (legal_dom p m Hlegal) as [_ [Hd _]].
  destruct (ep (apply p m)) as [t|] eqn:Et; [|contradiction].
  destruct (ep_recorded_only p m t Hd Et) as [H1 [-> H3]]. auto.
Qed.

(** a recorded target is a real capture opportunity in the pseudo-legal sense: the enemy pawn
    beside the pushed pawn has the en-passant capture among its pseudo-legal moves *)
Theorem ep_recorded_capture_pseudo t : ep (apply p m) = Some t ->
  exists x, beside (dst m) x /\ In (mv x t) (pseudo (apply p m)) /\ is_ep (apply p m) (mv x t) = true.
Proof.
  intro Et. destruct (legal_dom p m Hlegal) as [Hs [Hd Hne]].
  destruct (ep_recorded_only p m t Hd Et) as [Hdb [-> [x [Hb Hx]]]].
  pose proof (legal_double_facts p m Hlegal Hdb) as F.
  exists x. split; [exact Hb|].
  pose proof (step_fwd _ _ _ (df_step1 p m F)) as [Hml [Hf1 Hr1]].
  pose proof (step_fwd _ _ _ (df_step2 p m F)) as [_ [Hf2 Hr2]].
  cbn [fst snd] in *.
  destruct Hb as [Hxl [Hxr Hxf]].
  assert (Hxs : x <> src m).
  { intro E. rewrite E in Hxf. rewrite !fileZ_file_of in *. lia. }
  assert (Hxd : x <> dst m) by (intro E; rewrite E in Hxf; lia).
  assert (Hax : at_ (apply p m) x = Some (Pawn, opp (turn p))).
  { rewrite (at_apply_other p m Hlen Hlegal x Hxd Hxs).
    - apply has_iff, Hx.
    - rewrite (df_not_ep p m F). discriminate.
    - rewrite (df_not_castle p m F). discriminate. }
  assert (Hmid_ne : ep_mid m <> dst m).
  { intro E. rewrite E in Hr2. pose proof (fwdc_cases (turn p)). lia. }
  assert (Hmid_ns : ep_mid m <> src m).
  { intro E. rewrite E in Hr1. pose proof (fwdc_cases (turn p)). lia. }
  assert (Ham : at_ (apply p m) (ep_mid m) = None).
  { rewrite (at_apply_other p m Hlen Hlegal _ Hmid_ne Hmid_ns).
    - exact (df_mid_empty p m F).
    - rewrite (df_not_ep p m F). discriminate.
    - rewrite (df_not_castle p m F). discriminate. }
  assert (Hstep : In (ep_mid m) (steps x (pawn_caps (opp (turn p))))).
  { apply steps_in. unfold pawn_caps. rewrite fwdc_opp.
    rewrite !rankZ_rank_of in *. rewrite !fileZ_file_of in *.
    destruct Hxf as [Hxf|Hxf].
    - exists (-1, - fwdc (turn p))%Z. split; [right; left; reflexivity|].
      apply step_bwd; cbn [fst snd]; try assumption; rewrite ?rankZ_rank_of, ?fileZ_file_of; lia.
    - exists (1, - fwdc (turn p))%Z. split; [left; reflexivity|].
      apply step_bwd; cbn [fst snd]; try assumption; rewrite ?rankZ_rank_of, ?fileZ_file_of; lia. }
  split.
  - unfold pseudo. apply in_flat_map. exists x. split; [apply in_all_sq, Hxl|].
    unfold pseudo_from. rewrite Hax, turn_apply, color_eqb_refl.
    apply pawn_moves_kind. apply (PK_ep _ _ _ _ (ep_mid m)).
    + exact Hstep.
    + unfold enemy, colour_at. rewrite Ham. reflexivity.
    + exact Et.
    + reflexivity.
  - unfold is_ep. cbn [mv src dst]. rewrite turn_apply.
    rewrite (proj2 (has_iff _ _ _ _) Hax). cbn [andb].
    assert (Hoc : occ (apply p m) (ep_mid m) = false) by (apply occ_false_at, Ham). rewrite Hoc.
    apply pawn_caps_step in Hstep as [_ [_ Hf]]. rewrite !fileZ_file_of in Hf.
    destruct (N.eqb_spec (file_of x) (file_of (ep_mid m))) as [E|_]; [rewrite E in Hf; lia|reflexivity].
Qed.
End Fide.
