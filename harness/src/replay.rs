// "replayops <kind>": re-executes operation sequences given on stdin against the library and
// prints the same line format as the generating stream (used by the shrinker of ./check: a
// failing line is cut down to a minimal operation sequence that still fails).
//   game : "G <enc> | op op op"          ops: m<src>/<dst>/<promo>  ow ob  a  rw rb  d
//   iter : "I <enc> | op op op"          ops: r<src>/<dst>/<promo>  k<mask>  m<mask>  x
//   cache: "C <size> <default> | op ..." ops: a<hash>,<v>  r<hash>,<v>,<pred>  g<hash>
// Anything after '=' in an op token is ignored (so a line of the generating stream can be fed back).
use crate::common::*;
use chess::*;
use std::convert::TryFrom;
use std::io::{BufRead, Write};
use std::panic::{catch_unwind, AssertUnwindSafe};

fn opname(tok: &str) -> &str { match tok.find('=') { Some(i) => &tok[..i], None => tok } }
fn parse_mv(s: &str) -> Option<ChessMove> {
    let p: Vec<&str> = s.split('/').collect();
    if p.len() != 3 { return None; }
    Some(ChessMove::new(sq(p[0].parse().ok()?), sq(p[1].parse().ok()?), code_promo(p[2].parse().ok()?)))
}
fn board_of(e: &str) -> Option<Board> { builder_from_enc(e).and_then(|bb| Board::try_from(&bb).ok()) }

/// executes a sequence of game operations (tokens as in the "game" stream) and renders the
/// stream's line: used by `replayops game` and by the scripted games of the game stream
pub fn game_line(start: Board, ops: &[&str]) -> String {
    let mut g = Game::new_with_board(start);
    let mut s = format!("G {} | s={}", enc(&start), crate::game::state(&g));
    for op in ops {
        let op = opname(op);
        if op == "s" || op.is_empty() { continue; }
        let c = |ch: Option<char>| if ch == Some('w') { Color::White } else { Color::Black };
        let ret = match op.chars().next() {
            Some('m') => match parse_mv(&op[1..]) { Some(m) => g.make_move(m), None => continue },
            Some('o') => g.offer_draw(c(op.chars().nth(1))),
            Some('a') => g.accept_draw(),
            Some('r') => g.resign(c(op.chars().nth(1))),
            Some('d') => g.declare_draw(),
            _ => continue,
        };
        s.push_str(&format!(" {}={},{}", op, ret as u8, crate::game::state(&g)));
    }
    s.push_str(&format!(" | {}", enc(&g.current_position())));
    s
}

pub fn run(kind: &str) {
    std::panic::set_hook(Box::new(|_| {}));
    let stdin = std::io::stdin();
    let out = std::io::stdout(); let mut out = std::io::BufWriter::new(out.lock());
    for line in stdin.lock().lines() {
        let line = match line { Ok(l) => l, Err(_) => break };
        let parts: Vec<&str> = line.split('|').collect();
        if parts.len() < 2 || line.len() < 3 { continue; }
        let head = parts[0][2..].trim();
        let ops: Vec<&str> = parts[1].split_whitespace().map(opname).filter(|o| !o.is_empty()).collect();
        match kind {
            "game" => {
                let start = match board_of(head) { Some(b) => b, None => { writeln!(out, "REJECTED {}", line).unwrap(); continue; } };
                writeln!(out, "{}", game_line(start, &ops)).unwrap();
            }
            "iter" => {
                let b = match board_of(head) { Some(b) => b, None => { writeln!(out, "REJECTED {}", line).unwrap(); continue; } };
                let mut it = MoveGen::new_legal(&b);
                let mut s = format!("I {} |", enc(&b));
                for op in ops {
                    match op.chars().next() {
                        Some('r') => { if let Some(m) = parse_mv(&op[1..]) { let r = it.remove_move(m); s.push_str(&format!(" {}={}", op, r as u8)); } }
                        Some('k') => { if let Ok(m) = op[1..].parse::<u64>() { it.remove_mask(BitBoard(m)); s.push_str(&format!(" {}=0", op)); } }
                        Some('m') => { if let Ok(m) = op[1..].parse::<u64>() { it.set_iterator_mask(BitBoard(m)); s.push_str(&format!(" {}=0", op)); } }
                        Some('x') => {
                            let l = it.len(); let sh = it.size_hint();
                            let ok = (sh.0 == l && sh.1 == Some(l)) as u8;
                            match it.next() { Some(m) => s.push_str(&format!(" x={},{},{}", l, ok, mv_str(&m).replace(',', "/"))), None => s.push_str(&format!(" x={},{},-", l, ok)) }
                        }
                        _ => {}
                    }
                }
                writeln!(out, "{}", s).unwrap();
            }
            "cache" => {
                let hp: Vec<&str> = head.split_whitespace().collect();
                if hp.len() != 2 { continue; }
                let (size, default) = match (hp[0].parse::<usize>(), hp[1].parse::<u64>()) { (Ok(a), Ok(b)) => (a, b), _ => continue };
                write!(out, "C {} {} |", size, default).unwrap(); out.flush().unwrap();
                match catch_unwind(AssertUnwindSafe(|| CacheTable::<u64>::new(size, default))) {
                    Err(_) => { writeln!(out, " PANIC").unwrap(); }
                    Ok(_) if size.count_ones() != 1 => { writeln!(out, " ACCEPTED").unwrap(); }
                    Ok(mut t) => {
                        for op in ops {
                            let body: Vec<&str> = op[1..].split(',').collect();
                            match (op.chars().next(), body.len()) {
                                (Some('a'), 2) => { if let (Ok(h), Ok(v)) = (body[0].parse::<u64>(), body[1].parse::<u64>()) { t.add(h, v); write!(out, " a{},{}", h, v).unwrap(); } }
                                (Some('r'), 3) => { if let (Ok(h), Ok(v), Ok(pc)) = (body[0].parse::<u64>(), body[1].parse::<u64>(), body[2].parse::<u64>()) { t.replace_if(h, v, |x| crate::misc::pred(pc, x)); write!(out, " r{},{},{}", h, v, pc).unwrap(); } }
                                (Some('g'), 1) => { if let Ok(h) = body[0].parse::<u64>() { let r = t.get(h); write!(out, " g{}={}", h, match r { Some(v) => v.to_string(), None => "N".to_string() }).unwrap(); } }
                                _ => {}
                            }
                        }
                        writeln!(out).unwrap();
                    }
                }
            }
            _ => {}
        }
    }
}
