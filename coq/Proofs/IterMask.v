(** * Proofs.IterMask — destination masks partition the move set; removals; scripts of
    operations; the reachable-state invariant (property C14, goals G3, G4 and the
    "every reachable state" form of G2). *)
From Coq Require Import NArith List Bool Lia ZifyBool ZifyN ZifyNat Permutation.
From Chess Require Import Model.MoveGen Proofs.IterBits Proofs.IterLists Proofs.IterCore Proofs.IterPart.
Import ListNotations.
Open Scope N_scope.
Arguments N.land : simpl never.
Arguments N.ldiff : simpl never.
Arguments N.lxor : simpl never.
Arguments N.testbit : simpl never.
Arguments N.eqb : simpl never.

(** the destination of [c] is in the mask [m] *)
Definition dst_in (m:N) (c:cmove) : bool := N.testbit m (mdst c).
(** [c] goes from [s] to [d] (any promotion piece) *)
Definition is_move (s d:N) (c:cmove) : bool := (msrc c =? s) && (mdst c =? d).

(** ** [expand] of edited entry lists = filtered [expand] *)
Lemma in_emoves s pr d c : In c (emoves s pr d) -> msrc c = s /\ mdst c = d.
Proof.
  unfold emoves. destruct pr; cbn [map promotion_pieces In]; intros H;
    repeat (destruct H as [H|H]; [subst c; split; reflexivity|]); destruct H.
Qed.

Lemma in_expand_entry e c : In c (expand_entry e) -> msrc c = esq e /\ In (mdst c) (squares_of (ebb e)).
Proof.
  rewrite expand_entry_emoves, in_flat_map. intros [d [Hd Hc]].
  apply in_emoves in Hc. destruct Hc as [H1 H2]. subst d. split; assumption.
Qed.

Lemma in_expand L c : In c (expand L) -> exists e, In e L /\ msrc c = esq e /\ In (mdst c) (squares_of (ebb e)).
Proof.
  unfold expand. rewrite in_flat_map. intros [e [He Hc]]. exists e. split; [exact He|].
  apply in_expand_entry, Hc.
Qed.

Lemma expand_dst_lt64 L c : EB L -> In c (expand L) -> mdst c < 64.
Proof.
  intros HB Hc. destruct (in_expand L c Hc) as [e [He [_ Hd]]].
  eapply squares_of_lt64; [|exact Hd]. eapply EB_bounded; eauto.
Qed.

Lemma filter_const {A} (P:A->bool) (q:bool) : forall l, (forall x, In x l -> P x = q) ->
  filter P l = if q then l else [].
Proof.
  induction l as [|a l IH]; intros H; cbn [filter]; [destruct q; reflexivity|].
  rewrite (H a) by (left; reflexivity). rewrite IH by (intros x Hx; apply H; right; exact Hx).
  destruct q; reflexivity.
Qed.

Lemma expand_entry_sub e b' (Q:N->bool) :
  squares_of b' = filter Q (squares_of (ebb e)) ->
  expand_entry (set_bb e b') = filter (fun c => Q (mdst c)) (expand_entry e).
Proof.
  intros H. rewrite !expand_entry_emoves. cbn [set_bb esq ebb epromo].
  rewrite H, flat_map_filter, filter_flat_map. apply flat_map_ext. intros d.
  symmetry. apply filter_const. intros c Hc. apply in_emoves in Hc. destruct Hc as [_ ->]. reflexivity.
Qed.

Lemma expand_map_gen (F:entry->entry) (P:cmove->bool) : forall L,
  (forall e, In e L -> expand_entry (F e) = filter P (expand_entry e)) ->
  expand (map F L) = filter P (expand L).
Proof.
  induction L as [|e r IH]; intros H; cbn [map]; [reflexivity|].
  rewrite !expand_cons, filter_app, H by (left; reflexivity).
  rewrite IH by (intros x Hx; apply H; right; exact Hx). reflexivity.
Qed.

Lemma expand_restrict m L : expand (map (restrict m) L) = filter (dst_in m) (expand L).
Proof.
  apply expand_map_gen. intros e _. unfold restrict.
  apply (expand_entry_sub e _ (N.testbit m)). apply squares_of_land.
Qed.

Lemma expand_clear m L : expand (map (clear m) L) = filter (fun c => negb (dst_in m c)) (expand L).
Proof.
  apply expand_map_gen. intros e _. unfold clear.
  apply (expand_entry_sub e _ (fun s => negb (N.testbit m s))). apply squares_of_ldiff.
Qed.

Lemma expand_entry_nil e : expand_entry e = [] -> ebb e = 0.
Proof.
  rewrite expand_entry_emoves. intros H. apply squares_of_nil.
  destruct (squares_of (ebb e)) as [|d ds]; [reflexivity|].
  cbn [flat_map] in H. apply app_eq_nil in H. destruct H as [H _].
  unfold emoves in H. destruct (epromo e); discriminate H.
Qed.

Lemma clear_of_dead m : forall L, expand (map (restrict m) L) = [] -> map (clear m) L = L.
Proof.
  induction L as [|e r IH]; intros H; cbn [map] in *; [reflexivity|].
  rewrite expand_cons in H. apply app_eq_nil in H. destruct H as [He Hr].
  apply expand_entry_nil in He. cbn [restrict set_bb ebb] in He.
  rewrite IH by exact Hr. f_equal. unfold clear. rewrite ldiff_dead by exact He.
  destruct e; reflexivity.
Qed.

Lemma expand_perm (F:entry->entry) L L' : Permutation L L' ->
  Permutation (expand (map F L)) (expand (map F L')).
Proof. intros H. unfold expand. apply Permutation_flat_map, Permutation_map, H. Qed.

Lemma expand_perm_id L L' : Permutation L L' -> Permutation (expand L) (expand L').
Proof. intros H. unfold expand. apply Permutation_flat_map, H. Qed.

(** ** G3: one mask *)
Theorem set_mask_pending g m : promotion_index g = 0 -> EB (moves g) ->
  Permutation (pending (set_iterator_mask g m)) (filter (dst_in m) (expand (moves g))).
Proof.
  intros Hp HB. rewrite pending_Inv by (apply Inv_set_mask; assumption).
  change (promotion_index (set_iterator_mask g m)) with (promotion_index g). rewrite Hp.
  change (N.to_nat 0) with 0%nat. cbn [skipn].
  change (iterator_mask (set_iterator_mask g m)) with m.
  rewrite <- expand_restrict. apply expand_perm, set_mask_perm.
Qed.

(** after draining, nothing selected by the mask is left, and what is left is exactly the
    part of every entry outside the mask *)
Lemma drained_rest g fuel : Inv g -> promotion_index g = 0 -> (length (pending g) < fuel)%nat ->
  expand (moves (snd (drain fuel g))) =
  filter (fun c => negb (dst_in (iterator_mask g) c)) (expand (moves g)).
Proof.
  intros HI Hp Hf.
  destruct (drain_spec fuel g (inv_w g HI) Hf) as [_ [_ [_ [D4 [D5 [D6 [D7 D8]]]]]]].
  specialize (D8 HI). rewrite pending_Inv in D4 by exact D8.
  rewrite D5, D6 in D4. change (N.to_nat 0) with 0%nat in D4. cbn [skipn] in D4.
  apply clear_of_dead in D4. rewrite <- D4, D7. apply expand_clear.
Qed.

Theorem mask_batch g m fuel :
  promotion_index g = 0 -> EB (moves g) -> (length (expand (moves g)) < fuel)%nat ->
  Permutation (fst (drain fuel (set_iterator_mask g m))) (filter (dst_in m) (expand (moves g))) /\
  Permutation (expand (moves (snd (drain fuel (set_iterator_mask g m)))))
              (filter (fun c => negb (dst_in m c)) (expand (moves g))) /\
  promotion_index (snd (drain fuel (set_iterator_mask g m))) = 0 /\
  EB (moves (snd (drain fuel (set_iterator_mask g m)))) /\
  Inv (snd (drain fuel (set_iterator_mask g m))) /\
  iterator_mask (snd (drain fuel (set_iterator_mask g m))) = m /\
  next (snd (drain fuel (set_iterator_mask g m))) = (None, snd (drain fuel (set_iterator_mask g m))) /\
  len (snd (drain fuel (set_iterator_mask g m))) = 0.
Proof.
  intros Hp HB Hf.
  pose proof (Inv_set_mask g m Hp HB) as HI.
  pose proof (set_mask_pending g m Hp HB) as Hpend.
  assert (Hf1 : (length (pending (set_iterator_mask g m)) < fuel)%nat).
  { rewrite (Permutation_length Hpend).
    pose proof (length_filter_le (dst_in m) (expand (moves g))). lia. }
  destruct (drain_spec fuel _ (inv_w _ HI) Hf1) as [D1 [D2 [D3 [D4 [D5 [D6 [D7 D8]]]]]]].
  split; [rewrite D1; exact Hpend|]. split.
  { rewrite drained_rest by (auto; exact Hp).
    change (iterator_mask (set_iterator_mask g m)) with m.
    apply Permutation_filter, expand_perm_id, set_mask_perm. }
  split; [exact D5|]. split; [apply D2|]. split; [apply D8, HI|]. split; [exact D6|].
  split; [exact D3|]. rewrite len_pending, D4. reflexivity.
Qed.

(** ** G4: removals *)
Lemma expand_remove_mask L r : EB L ->
  expand (map (fun e => set_bb e (N.land (ebb e) (lnot64 r))) L) =
  filter (fun c => negb (dst_in r c)) (expand L).
Proof.
  intros HB. apply expand_map_gen. intros e He.
  apply (expand_entry_sub e _ (fun s => negb (N.testbit r s))).
  apply squares_of_land_lnot64. eapply EB_bounded; eauto.
Qed.

Lemma EB_map_land (f:entry->N) L : EB L -> EB (map (fun e => set_bb e (N.land (ebb e) (f e))) L).
Proof.
  intros HB. unfold EB in *. rewrite Forall_forall in *. intros x Hx.
  apply in_map_iff in Hx. destruct Hx as [e [<- He]]. cbn [set_bb ebb].
  apply bounded_lt, bounded_land, lt_bounded, HB, He.
Qed.

Lemma dst_in_bit d c : dst_in (bit d) c = (mdst c =? d).
Proof. unfold dst_in. rewrite testbit_bit. apply N.eqb_sym. Qed.

Lemma expand_remove_move L s d : EB L ->
  expand (map (fun e => if esq e =? s then set_bb e (N.land (ebb e) (lnot64 (bit d))) else e) L) =
  filter (fun c => negb (is_move s d c)) (expand L).
Proof.
  intros HB. apply expand_map_gen. intros e He.
  destruct (N.eqb_spec (esq e) s) as [Es|Hne].
  - rewrite (expand_entry_sub e _ (fun x => negb (N.testbit (bit d) x)))
      by (apply squares_of_land_lnot64; eapply EB_bounded; eauto).
    apply filter_ext_in. intros c Hc. apply in_expand_entry in Hc. destruct Hc as [Hs _].
    unfold is_move. rewrite Hs, Es, N.eqb_refl. cbn [andb]. f_equal. apply dst_in_bit.
  - symmetry. apply filter_all. intros c Hc. apply in_expand_entry in Hc. destruct Hc as [Hs _].
    unfold is_move. rewrite Hs. apply N.eqb_neq in Hne. rewrite Hne. reflexivity.
Qed.

Lemma EB_remove_move L s d : EB L ->
  EB (map (fun e => if esq e =? s then set_bb e (N.land (ebb e) (lnot64 (bit d))) else e) L).
Proof.
  intros HB. unfold EB in *. rewrite Forall_forall in *. intros x Hx.
  apply in_map_iff in Hx. destruct Hx as [e [<- He]]. destruct (esq e =? s); [|apply HB, He].
  cbn [set_bb ebb]. apply bounded_lt, bounded_land, lt_bounded, HB, He.
Qed.

Lemma filter_and_comm {A} (P Q:A->bool) l :
  filter (fun x => Q x && P x) l = filter (fun x => P x && Q x) l.
Proof. apply filter_ext. intros x. apply andb_comm. Qed.

Theorem remove_mask_spec g r : promotion_index g = 0 -> EB (moves g) ->
  Inv (remove_mask g r) /\
  promotion_index (remove_mask g r) = 0 /\
  EB (moves (remove_mask g r)) /\
  iterator_mask (remove_mask g r) = iterator_mask g /\
  Permutation (expand (moves (remove_mask g r)))
              (filter (fun c => negb (dst_in r c)) (expand (moves g))) /\
  Permutation (pending (remove_mask g r))
              (filter (fun c => dst_in (iterator_mask g) c && negb (dst_in r c)) (expand (moves g))).
Proof.
  intros Hp HB. unfold remove_mask.
  set (g1 := {| moves := map (fun e => set_bb e (N.land (ebb e) (lnot64 r))) (moves g);
                promotion_index := promotion_index g; iterator_mask := iterator_mask g;
                index := index g |}).
  assert (HB1 : EB (moves g1)) by (apply (EB_map_land (fun _ => lnot64 r)), HB).
  assert (Hp1 : promotion_index g1 = 0) by exact Hp.
  assert (HE : expand (moves g1) = filter (fun c => negb (dst_in r c)) (expand (moves g)))
    by (apply expand_remove_mask, HB).
  split; [apply Inv_set_mask; assumption|]. split; [exact Hp|].
  split; [eapply EB_perm; [symmetry; apply set_mask_perm|exact HB1]|].
  split; [reflexivity|]. split.
  - rewrite <- HE. apply expand_perm_id, set_mask_perm.
  - etransitivity; [apply set_mask_pending; assumption|].
    rewrite HE, filter_filter. change (iterator_mask g1) with (iterator_mask g).
    rewrite filter_and_comm. reflexivity.
Qed.

Theorem remove_move_spec g s d : promotion_index g = 0 -> EB (moves g) ->
  fst (remove_move g s d) = existsb (fun e => esq e =? s) (moves g) /\
  Inv (snd (remove_move g s d)) /\
  promotion_index (snd (remove_move g s d)) = 0 /\
  EB (moves (snd (remove_move g s d))) /\
  iterator_mask (snd (remove_move g s d)) = iterator_mask g /\
  Permutation (expand (moves (snd (remove_move g s d))))
              (filter (fun c => negb (is_move s d c)) (expand (moves g))) /\
  Permutation (pending (snd (remove_move g s d)))
              (filter (fun c => dst_in (iterator_mask g) c && negb (is_move s d c)) (expand (moves g))).
Proof.
  intros Hp HB. unfold remove_move. cbn [fst snd].
  set (g1 := {| moves := map (fun e => if esq e =? s then set_bb e (N.land (ebb e) (lnot64 (bit d))) else e) (moves g);
                promotion_index := promotion_index g; iterator_mask := iterator_mask g;
                index := index g |}).
  assert (HB1 : EB (moves g1)) by (apply EB_remove_move, HB).
  assert (Hp1 : promotion_index g1 = 0) by exact Hp.
  assert (HE : expand (moves g1) = filter (fun c => negb (is_move s d c)) (expand (moves g)))
    by (apply expand_remove_move, HB).
  split; [reflexivity|].
  split; [apply Inv_set_mask; assumption|]. split; [exact Hp|].
  split; [eapply EB_perm; [symmetry; apply set_mask_perm|exact HB1]|].
  split; [reflexivity|]. split.
  - rewrite <- HE. apply expand_perm_id, set_mask_perm.
  - etransitivity; [apply set_mask_pending; assumption|].
    rewrite HE, filter_filter. change (iterator_mask g1) with (iterator_mask g).
    rewrite filter_and_comm. reflexivity.
Qed.

(** draining right after a removal *)
Theorem drain_pending_perm g fuel (X:list cmove) : Inv g -> Permutation (pending g) X ->
  (length X < fuel)%nat -> Permutation (fst (drain fuel g)) X.
Proof.
  intros HI HP Hf. rewrite <- (Permutation_length HP) in Hf.
  destruct (drain_spec fuel g (inv_w g HI) Hf) as [D1 _]. rewrite D1. exact HP.
Qed.

Theorem remove_mask_drain g r fuel : promotion_index g = 0 -> EB (moves g) ->
  (length (expand (moves g)) < fuel)%nat ->
  Permutation (fst (drain fuel (remove_mask g r)))
    (filter (fun c => dst_in (iterator_mask g) c && negb (dst_in r c)) (expand (moves g))).
Proof.
  intros Hp HB Hf. destruct (remove_mask_spec g r Hp HB) as [HI [_ [_ [_ [_ HP]]]]].
  eapply drain_pending_perm; eauto.
  pose proof (length_filter_le (fun c => dst_in (iterator_mask g) c && negb (dst_in r c)) (expand (moves g))). lia.
Qed.

Theorem remove_move_drain g s d fuel : promotion_index g = 0 -> EB (moves g) ->
  (length (expand (moves g)) < fuel)%nat ->
  Permutation (fst (drain fuel (snd (remove_move g s d))))
    (filter (fun c => dst_in (iterator_mask g) c && negb (is_move s d c)) (expand (moves g))).
Proof.
  intros Hp HB Hf. destruct (remove_move_spec g s d Hp HB) as [_ [HI [_ [_ [_ [_ HP]]]]]].
  eapply drain_pending_perm; eauto.
  pose proof (length_filter_le (fun c => dst_in (iterator_mask g) c && negb (is_move s d c)) (expand (moves g))). lia.
Qed.

(** on a fresh generator the full mask selects everything *)
Lemma filter_M64 (P:cmove->bool) L : EB L ->
  filter (fun c => dst_in M64 c && P c) (expand L) = filter P (expand L).
Proof.
  intros HB. apply filter_ext_in. intros c Hc. unfold dst_in. rewrite testbit_M64.
  apply (expand_dst_lt64 L c HB) in Hc. apply N.ltb_lt in Hc. rewrite Hc. reflexivity.
Qed.

Theorem remove_mask_fresh L r fuel : WF L -> (length (expand L) < fuel)%nat ->
  Permutation (fst (drain fuel (remove_mask (g0 L) r))) (filter (fun c => negb (dst_in r c)) (expand L)).
Proof.
  intros HW Hf. rewrite <- (filter_M64 _ L (WF_EB L HW)).
  apply (remove_mask_drain (g0 L) r fuel); auto. apply WF_EB, HW.
Qed.

Theorem remove_move_fresh L s d fuel : WF L -> (length (expand L) < fuel)%nat ->
  Permutation (fst (drain fuel (snd (remove_move (g0 L) s d))))
              (filter (fun c => negb (is_move s d c)) (expand L)).
Proof.
  intros HW Hf. rewrite <- (filter_M64 _ L (WF_EB L HW)).
  apply (remove_move_drain (g0 L) s d fuel); auto. apply WF_EB, HW.
Qed.

(** ** scripts: masks (each drained to exhaustion) interleaved with removals *)
Inductive op := OMask (m:N) | ORemMask (r:N) | ORemMove (s d:N).

Fixpoint run (fuel:nat) (g:movegen) (ops:list op) : list (list cmove) * movegen :=
  match ops with
  | [] => ([], g)
  | OMask m :: r => let d := drain fuel (set_iterator_mask g m) in
                    let k := run fuel (snd d) r in (fst d :: fst k, snd k)
  | ORemMask x :: r => run fuel (remove_mask g x) r
  | ORemMove s d :: r => run fuel (snd (remove_move g s d)) r
  end.

(** the specification: a set [X] of not-yet-yielded moves; a mask takes out the moves landing
    on it (one batch), a removal silently deletes *)
Fixpoint spec (X:list cmove) (ops:list op) : list (list cmove) * list cmove :=
  match ops with
  | [] => ([], X)
  | OMask m :: r => let k := spec (filter (fun c => negb (dst_in m c)) X) r in
                    (filter (dst_in m) X :: fst k, snd k)
  | ORemMask x :: r => spec (filter (fun c => negb (dst_in x c)) X) r
  | ORemMove s d :: r => spec (filter (fun c => negb (is_move s d c)) X) r
  end.

Theorem run_spec fuel : forall ops g X,
  promotion_index g = 0 -> EB (moves g) -> Permutation (expand (moves g)) X ->
  (length X < fuel)%nat ->
  Forall2 (@Permutation cmove) (fst (run fuel g ops)) (fst (spec X ops)) /\
  Permutation (expand (moves (snd (run fuel g ops)))) (snd (spec X ops)) /\
  promotion_index (snd (run fuel g ops)) = 0 /\ EB (moves (snd (run fuel g ops))).
Proof.
  induction ops as [|o ops IH]; intros g X Hp HB HX Hf.
  - cbn [run spec fst snd]. repeat split; auto.
  - assert (Hf0 : (length (expand (moves g)) < fuel)%nat) by (rewrite (Permutation_length HX); exact Hf).
    destruct o as [m|x|s d]; cbn [run spec fst snd].
    + destruct (mask_batch g m fuel Hp HB Hf0) as [B1 [B2 [B3 [B4 _]]]].
      set (X' := filter (fun c => negb (dst_in m c)) X).
      assert (HX' : Permutation (expand (moves (snd (drain fuel (set_iterator_mask g m))))) X').
      { etransitivity; [exact B2|]. apply Permutation_filter, HX. }
      assert (Hf' : (length X' < fuel)%nat).
      { pose proof (length_filter_le (fun c => negb (dst_in m c)) X). unfold X'. lia. }
      destruct (IH _ X' B3 B4 HX' Hf') as [I1 [I2 [I3 I4]]].
      split; [|split; [exact I2|split; [exact I3|exact I4]]].
      constructor; [|exact I1]. etransitivity; [exact B1|]. apply Permutation_filter, HX.
    + destruct (remove_mask_spec g x Hp HB) as [_ [R2 [R3 [_ [R5 _]]]]].
      set (X' := filter (fun c => negb (dst_in x c)) X).
      assert (HX' : Permutation (expand (moves (remove_mask g x))) X').
      { etransitivity; [exact R5|]. apply Permutation_filter, HX. }
      assert (Hf' : (length X' < fuel)%nat).
      { pose proof (length_filter_le (fun c => negb (dst_in x c)) X). unfold X'. lia. }
      apply (IH _ X' R2 R3 HX' Hf').
    + destruct (remove_move_spec g s d Hp HB) as [_ [_ [R2 [R3 [_ [R5 _]]]]]].
      set (X' := filter (fun c => negb (is_move s d c)) X).
      assert (HX' : Permutation (expand (moves (snd (remove_move g s d)))) X').
      { etransitivity; [exact R5|]. apply Permutation_filter, HX. }
      assert (Hf' : (length X' < fuel)%nat).
      { pose proof (length_filter_le (fun c => negb (is_move s d c)) X). unfold X'. lia. }
      apply (IH _ X' R2 R3 HX' Hf').
Qed.

(** *** the pure mask sequence in closed form *)
Definition masks_spec (X:list cmove) (ms:list N) : list (list cmove) := fst (spec X (map OMask ms)).
Definition masks_rest (X:list cmove) (ms:list N) : list cmove := snd (spec X (map OMask ms)).

Lemma masks_rest_eq : forall ms X,
  masks_rest X ms = filter (fun c => forallb (fun m => negb (dst_in m c)) ms) X.
Proof.
  unfold masks_rest. induction ms as [|m ms IH]; intros X; cbn [map spec snd forallb].
  - symmetry. apply filter_all. reflexivity.
  - rewrite IH, filter_filter. reflexivity.
Qed.

(** batch [i] = the moves landing on mask [i] and on none of the earlier masks *)
Lemma masks_spec_nth : forall ms X i, (i < length ms)%nat ->
  nth i (masks_spec X ms) [] =
  filter (fun c => forallb (fun m => negb (dst_in m c)) (firstn i ms) && dst_in (nth i ms 0) c) X.
Proof.
  unfold masks_spec. induction ms as [|m ms IH]; intros X i Hi; cbn [length] in Hi; [lia|].
  cbn [map spec fst]. destruct i as [|i]; cbn [nth firstn forallb].
  - reflexivity.
  - rewrite IH by lia. rewrite filter_filter. apply filter_ext. intros c.
    rewrite andb_assoc. reflexivity.
Qed.

Lemma masks_spec_length : forall ms X, length (masks_spec X ms) = length ms.
Proof.
  unfold masks_spec. induction ms as [|m ms IH]; intros X; cbn [map spec fst length]; auto.
Qed.

Lemma masks_total : forall ms X, Permutation (concat (masks_spec X ms) ++ masks_rest X ms) X.
Proof.
  unfold masks_spec, masks_rest. induction ms as [|m ms IH]; intros X; cbn [map spec fst snd concat].
  - reflexivity.
  - rewrite <- app_assoc. etransitivity; [apply Permutation_app_head, IH|]. apply filter_split_perm.
Qed.

Lemma masks_spec_app ms m X :
  masks_spec X (ms ++ [m]) = masks_spec X ms ++ [filter (dst_in m) (masks_rest X ms)].
Proof.
  unfold masks_spec, masks_rest. revert X. induction ms as [|a ms IH]; intros X; cbn [app map spec fst snd].
  - reflexivity.
  - rewrite IH. reflexivity.
Qed.

(** G3, corollary: masks [m1..mk] then the full mask, from a fresh generator *)
Theorem masks_run L ms fuel : WF L -> (length (expand L) < fuel)%nat ->
  let out := fst (run fuel (g0 L) (map OMask (ms ++ [M64]))) in
  length out = S (length ms) /\
  (forall i, (i <= length ms)%nat ->
     Permutation (nth i out [])
       (filter (fun c => forallb (fun m => negb (dst_in m c)) (firstn i ms) &&
                         dst_in (nth i (ms ++ [M64]) 0) c) (expand L))) /\
  Permutation (concat out) (expand L) /\
  (NoDup (expand L) -> NoDup (concat out)).
Proof.
  intros HW Hf out.
  destruct (run_spec fuel (map OMask (ms ++ [M64])) (g0 L) (expand L) eq_refl (WF_EB L HW)
              (Permutation_refl _) Hf) as [R1 _].
  fold out in R1. fold (masks_spec (expand L) (ms ++ [M64])) in R1.
  assert (Hlen : length out = S (length ms)).
  { rewrite (Forall2_len _ _ _ R1), masks_spec_length, app_length. cbn [length]. lia. }
  assert (Hcat : Permutation (concat out) (expand L)).
  { etransitivity; [apply Forall2_perm_concat, R1|].
    rewrite masks_spec_app, concat_app. cbn [concat]. rewrite app_nil_r.
    etransitivity; [|apply (masks_total ms (expand L))]. apply Permutation_app_head.
    rewrite (filter_all (dst_in M64)); [reflexivity|].
    intros c Hc. rewrite masks_rest_eq in Hc. apply filter_In in Hc. destruct Hc as [Hc _].
    unfold dst_in. rewrite testbit_M64. apply N.ltb_lt. eapply expand_dst_lt64; [apply WF_EB, HW|exact Hc]. }
  split; [exact Hlen|]. split; [|split; [exact Hcat|]].
  - intros i Hi.
    assert (Hi' : (i < length (ms ++ [M64]))%nat) by (rewrite app_length; cbn [length]; lia).
    pose proof (masks_spec_nth (ms ++ [M64]) (expand L) i Hi') as Hn.
    replace (firstn i (ms ++ [M64])) with (firstn i ms) in Hn
      by (rewrite firstn_app; replace (i - length ms)%nat with 0%nat by lia; cbn [firstn]; rewrite app_nil_r; reflexivity).
    rewrite <- Hn.
    apply Forall2_perm_nth, R1.
  - intros Hnd. eapply Permutation_NoDup; [symmetry; exact Hcat|exact Hnd].
Qed.

(** ** every reachable state satisfies the invariant (so [len] is exact there: [len_exact]) *)
Inductive Reach (L:list entry) : movegen -> Prop :=
| Reach_new : Reach L (g0 L)
| Reach_next g : Reach L g -> Reach L (snd (next g))
| Reach_mask g m : Reach L g -> promotion_index g = 0 -> Reach L (set_iterator_mask g m)
| Reach_remove_mask g r : Reach L g -> promotion_index g = 0 -> Reach L (remove_mask g r)
| Reach_remove_move g s d : Reach L g -> promotion_index g = 0 -> Reach L (snd (remove_move g s d)).

Theorem Reach_Inv L g : WF L -> Reach L g -> Inv g.
Proof.
  intros HW H. induction H as [|g H IH|g m H IH Hp|g r H IH Hp|g s d H IH Hp].
  - apply Inv_g0, HW.
  - apply Inv_next, IH.
  - apply Inv_set_mask; [exact Hp|apply IH].
  - apply remove_mask_spec; [exact Hp|apply IH].
  - apply remove_move_spec; [exact Hp|apply IH].
Qed.

(** exhaustion implies that no promotion is in progress: the mask may then be changed *)
Theorem exhausted_p0 g : Inv g -> fst (next g) = None -> promotion_index g = 0.
Proof. intros H. apply next_none_p0, H. Qed.

Theorem Reach_len_exact L g fuel : WF L -> Reach L g -> (N.to_nat (len g) < fuel)%nat ->
  len g = N.of_nat (length (fst (drain fuel g))) /\
  match fst (next g) with
  | Some _ => len g = len (snd (next g)) + 1
  | None => len g = 0 /\ promotion_index g = 0
  end.
Proof.
  intros HW HR Hf. pose proof (Reach_Inv L g HW HR) as HI.
  split; [apply len_exact; [apply HI|exact Hf]|].
  pose proof (len_next g (inv_w g HI)) as Hn.
  destruct (fst (next g)) eqn:E; [exact Hn|]. split; [exact Hn|]. apply exhausted_p0; assumption.
Qed.

Lemma Reach_drain L : forall fuel g, Reach L g -> Reach L (snd (drain fuel g)).
Proof.
  induction fuel as [|f IH]; intros g H; cbn [drain]; [exact H|].
  pose proof (Reach_next L g H) as Hn.
  destruct (next g) as [[c|] g1]; cbn [snd] in *; [|exact Hn].
  specialize (IH g1 Hn). destruct (drain f g1) as [r g2]. exact IH.
Qed.

(** ** an a-priori fuel bound: at most 4 * 64 moves per entry *)
Lemma expand_entry_length e : ebb e < 2^64 -> (length (expand_entry e) <= 256)%nat.
Proof.
  intros H. rewrite expand_entry_emoves, length_flat_emoves.
  pose proof (squares_of_length_le (ebb e) (lt_bounded _ H)). destruct (epromo e); lia.
Qed.

Lemma expand_length L : EB L -> (length (expand L) <= 256 * length L)%nat.
Proof.
  induction L as [|e r IH]; intros H; [cbn; lia|].
  inversion H as [|? ? He Hr]; subst. rewrite expand_cons, app_length. cbn [length].
  pose proof (expand_entry_length e He). specialize (IH Hr). lia.
Qed.

Theorem drain_g0_bound L fuel : WF L -> (4 * 64 * length L + 1 <= fuel)%nat ->
  fst (drain fuel (g0 L)) = expand L /\
  next (snd (drain fuel (g0 L))) = (None, snd (drain fuel (g0 L))) /\
  len (snd (drain fuel (g0 L))) = 0.
Proof.
  intros HW Hf. apply drain_g0; [exact HW|].
  pose proof (expand_length L (WF_EB L HW)). lia.
Qed.

Theorem len_exact_Inv g fuel : Inv g -> (N.to_nat (len g) < fuel)%nat ->
  len g = N.of_nat (length (fst (drain fuel g))).
Proof. intros H. apply len_exact, H. Qed.

Theorem len_next_Inv g : Inv g ->
  match fst (next g) with
  | Some _ => len g = len (snd (next g)) + 1
  | None => len g = 0 /\ promotion_index g = 0
  end.
Proof.
  intros HI. pose proof (len_next g (inv_w g HI)) as Hn.
  destruct (fst (next g)) eqn:E; [exact Hn|]. split; [exact Hn|]. apply exhausted_p0; assumption.
Qed.

Theorem Inv_set_mask_Inv g m : Inv g -> promotion_index g = 0 -> Inv (set_iterator_mask g m).
Proof. intros HI Hp. apply Inv_set_mask; [exact Hp|apply HI]. Qed.

Theorem drain_pending fuel g : WInv g -> (length (pending g) < fuel)%nat ->
  fst (drain fuel g) = pending g.
Proof. intros H1 H2. exact (proj1 (drain_spec fuel g H1 H2)). Qed.
