(** * Proofs.Extra13 — the parts of the text / ordering API no given property mentions:
    [impl Ord for ChessMove] (hand-written) is the lexicographic total order on
    (source, destination, promotion) that the derived [PartialOrd] computes, and
    [File::from_str] / [Rank::from_str] never panic and accept exactly a first character
    in 'a'..'h' / '1'..'8'. *)
From Coq Require Import Lia ZifyBool ZifyN ZifyNat.
From Chess Require Import Base.Bits Base.Text Spec.Rules Model.Board Model.MoveGen Model.Fen Model.Extra.
Open Scope N_scope.
#[local] Arguments N.add : simpl never.
#[local] Arguments N.sub : simpl never.
#[local] Arguments N.eqb : simpl never.
#[local] Arguments N.ltb : simpl never.
#[local] Arguments N.leb : simpl never.

(** ** 1. [ChessMove::cmp] *)
(** the key the derived lexicographic comparison of [Option<Piece>] uses: [None] first, then
    the pieces in declaration order *)
Definition promo_key (o:option ptype) : N := match o with None => 0 | Some p => 1 + pidx p end.

(** the derived [PartialOrd] (lexicographic on the fields in declaration order) *)
Definition lex_lt (a b:cmove) : Prop :=
  msrc a < msrc b \/ (msrc a = msrc b /\ (mdst a < mdst b \/ (mdst a = mdst b /\
    promo_key (mpromo a) < promo_key (mpromo b)))).

Lemma n_cmp_spec a b :
  (n_cmp a b = Less <-> a < b) /\ (n_cmp a b = Equal <-> a = b) /\ (n_cmp a b = Greater <-> b < a).
Proof.
  unfold n_cmp. destruct (N.ltb_spec a b) as [H|H].
  - repeat split; intro H'; try discriminate H'; try reflexivity; lia.
  - destruct (N.eqb_spec a b) as [E|E].
    + repeat split; intro H'; try discriminate H'; try reflexivity; lia.
    + repeat split; intro H'; try discriminate H'; try reflexivity; lia.
Qed.

Lemma pidx_inj p q : pidx p = pidx q -> p = q.
Proof. destruct p, q; intro H; try reflexivity; discriminate H. Qed.

Lemma promo_key_inj x y : promo_key x = promo_key y -> x = y.
Proof.
  destruct x as [p|], y as [q|]; cbn [promo_key]; intro H; try reflexivity; try lia.
  f_equal. apply pidx_inj. lia.
Qed.

Lemma promo_cmp_key x y : promo_cmp x y = n_cmp (promo_key x) (promo_key y).
Proof. destruct x as [[]|], y as [[]|]; reflexivity. Qed.

Lemma promo_eqb_eq x y : promo_eqb x y = true <-> x = y.
Proof.
  destruct x as [[]|], y as [[]|]; cbn; split; intro H; try discriminate H; reflexivity.
Qed.

Lemma promo_eqb_key x y : promo_eqb x y = (promo_key x =? promo_key y).
Proof. destruct x as [[]|], y as [[]|]; reflexivity. Qed.

(** [cmove_cmp] is the three-level comparison of the key triples *)
Lemma cmove_cmp_unfold a b :
  cmove_cmp a b =
  if msrc a <? msrc b then Less else if msrc b <? msrc a then Greater
  else if mdst a <? mdst b then Less else if mdst b <? mdst a then Greater
  else n_cmp (promo_key (mpromo a)) (promo_key (mpromo b)).
Proof.
  unfold cmove_cmp. rewrite promo_cmp_key, promo_eqb_key. unfold n_cmp.
  destruct (N.ltb_spec (msrc a) (msrc b)) as [Hc1|Hc1], (N.ltb_spec (msrc b) (msrc a)) as [Hc2|Hc2],
    (N.eqb_spec (msrc a) (msrc b)) as [Hc3|Hc3]; cbn [negb]; try reflexivity; try lia.
  destruct (N.ltb_spec (mdst a) (mdst b)) as [Hc4|Hc4], (N.ltb_spec (mdst b) (mdst a)) as [Hc5|Hc5],
    (N.eqb_spec (mdst a) (mdst b)) as [Hc6|Hc6]; cbn [negb]; try reflexivity; try lia.
  destruct (N.ltb_spec (promo_key (mpromo a)) (promo_key (mpromo b))) as [Hc7|Hc7],
    (N.eqb_spec (promo_key (mpromo a)) (promo_key (mpromo b))) as [Hc8|Hc8]; cbn [negb]; try reflexivity; lia.
Qed.

Lemma cmove_ext a b : msrc a = msrc b -> mdst a = mdst b -> mpromo a = mpromo b -> a = b.
Proof. destruct a, b; cbn. intros -> -> ->. reflexivity. Qed.

Theorem cmove_cmp_equal a b : cmove_cmp a b = Equal <-> a = b.
Proof.
  rewrite cmove_cmp_unfold. split.
  - destruct (N.ltb_spec (msrc a) (msrc b)) as [Hc9|Hc9]; [discriminate|].
    destruct (N.ltb_spec (msrc b) (msrc a)) as [Hc10|Hc10]; [discriminate|].
    destruct (N.ltb_spec (mdst a) (mdst b)) as [Hc11|Hc11]; [discriminate|].
    destruct (N.ltb_spec (mdst b) (mdst a)) as [Hc12|Hc12]; [discriminate|].
    intro H. apply (proj1 (proj2 (n_cmp_spec _ _))) in H. apply promo_key_inj in H.
    apply cmove_ext; [lia|lia|exact H].
  - intros <-. rewrite !N.ltb_irrefl. apply (proj1 (proj2 (n_cmp_spec _ _))). reflexivity.
Qed.

Theorem cmove_cmp_lex a b : cmove_cmp a b = Less <-> lex_lt a b.
Proof.
  rewrite cmove_cmp_unfold. unfold lex_lt.
  pose proof (proj1 (n_cmp_spec (promo_key (mpromo a)) (promo_key (mpromo b)))) as Hk.
  destruct (N.ltb_spec (msrc a) (msrc b)) as [Hc13|Hc13]; [split; [intros _; left; assumption|reflexivity]|].
  destruct (N.ltb_spec (msrc b) (msrc a)) as [Hc14|Hc14]; [split; [discriminate|lia]|].
  destruct (N.ltb_spec (mdst a) (mdst b)) as [Hc15|Hc15]; [split; [intros _; right; lia|reflexivity]|].
  destruct (N.ltb_spec (mdst b) (mdst a)) as [Hc16|Hc16]; [split; [discriminate|lia]|].
  rewrite Hk. lia.
Qed.

Theorem cmove_cmp_greater_lex a b : cmove_cmp a b = Greater <-> lex_lt b a.
Proof.
  rewrite cmove_cmp_unfold. unfold lex_lt.
  pose proof (proj2 (proj2 (n_cmp_spec (promo_key (mpromo a)) (promo_key (mpromo b))))) as Hk.
  destruct (N.ltb_spec (msrc a) (msrc b)) as [Hc17|Hc17]; [split; [discriminate|lia]|].
  destruct (N.ltb_spec (msrc b) (msrc a)) as [Hc18|Hc18]; [split; [intros _; left; assumption|reflexivity]|].
  destruct (N.ltb_spec (mdst a) (mdst b)) as [Hc19|Hc19]; [split; [discriminate|lia]|].
  destruct (N.ltb_spec (mdst b) (mdst a)) as [Hc20|Hc20]; [split; [intros _; right; lia|reflexivity]|].
  rewrite Hk. lia.
Qed.

Theorem cmove_cmp_antisym a b : cmove_cmp a b = Less <-> cmove_cmp b a = Greater.
Proof. rewrite cmove_cmp_lex, cmove_cmp_greater_lex. reflexivity. Qed.

Theorem cmove_cmp_trans a b c : cmove_cmp a b = Less -> cmove_cmp b c = Less -> cmove_cmp a c = Less.
Proof. rewrite !cmove_cmp_lex. unfold lex_lt. lia. Qed.

(** exactly one of the three answers, determined by the lexicographic order *)
Theorem cmove_cmp_total a b : lex_lt a b \/ a = b \/ lex_lt b a.
Proof.
  destruct (cmove_cmp a b) eqn:E.
  - left. apply cmove_cmp_lex, E.
  - right. left. apply cmove_cmp_equal, E.
  - right. right. apply cmove_cmp_greater_lex, E.
Qed.

Theorem lex_lt_irrefl a : ~ lex_lt a a.
Proof. unfold lex_lt. lia. Qed.

(** the derived [PartialOrd::partial_cmp]: compare the fields in order, first difference decides *)
Definition derived_partial_cmp (a b:cmove) : option ordering :=
  match n_cmp (msrc a) (msrc b) with
  | Equal => match n_cmp (mdst a) (mdst b) with
             | Equal => Some (promo_cmp (mpromo a) (mpromo b))
             | o => Some o end
  | o => Some o end.

Theorem ord_agrees_with_partial_ord a b : derived_partial_cmp a b = Some (cmove_cmp a b).
Proof.
  unfold derived_partial_cmp. rewrite cmove_cmp_unfold, promo_cmp_key. unfold n_cmp.
  destruct (N.ltb_spec (msrc a) (msrc b)) as [Hc21|Hc21], (N.ltb_spec (msrc b) (msrc a)) as [Hc22|Hc22],
    (N.eqb_spec (msrc a) (msrc b)) as [Hc23|Hc23]; try reflexivity; try lia.
  destruct (N.ltb_spec (mdst a) (mdst b)) as [Hc24|Hc24], (N.ltb_spec (mdst b) (mdst a)) as [Hc25|Hc25],
    (N.eqb_spec (mdst a) (mdst b)) as [Hc26|Hc26]; try reflexivity; lia.
Qed.

Example cmove_cmp_ex :
  cmove_cmp {| msrc:=12; mdst:=28; mpromo:=None |} {| msrc:=12; mdst:=28; mpromo:=Some Knight |} = Less
  /\ cmove_cmp {| msrc:=52; mdst:=60; mpromo:=Some Queen |} {| msrc:=52; mdst:=60; mpromo:=Some Rook |} = Greater
  /\ cmove_cmp {| msrc:=6; mdst:=21; mpromo:=None |} {| msrc:=6; mdst:=21; mpromo:=None |} = Equal.
Proof. repeat split. Qed.

Example cmove_cmp_trans_ex :
  cmove_cmp {| msrc:=1; mdst:=18; mpromo:=None |} {| msrc:=12; mdst:=20; mpromo:=None |} = Less
  /\ cmove_cmp {| msrc:=12; mdst:=20; mpromo:=None |} {| msrc:=12; mdst:=28; mpromo:=None |} = Less.
Proof. split; reflexivity. Qed.

(** ** 2. [File::from_str] / [Rank::from_str] *)
Lemma utf8_len_pos c : 1 <= utf8_len c.
Proof. unfold utf8_len. destruct (c <? 128), (c <? 2048), (c <? 65536); lia. Qed.

Theorem file_from_str_no_panic s : file_from_str s <> Panic.
Proof.
  unfold file_from_str. destruct s as [|c r].
  - cbn [byte_len]. discriminate.
  - destruct (byte_len (c :: r) <? 1); [discriminate|]. destruct (in_range c 97 104); discriminate.
Qed.

Theorem rank_from_str_no_panic s : rank_from_str s <> Panic.
Proof.
  unfold rank_from_str. destruct s as [|c r].
  - cbn [byte_len]. discriminate.
  - destruct (byte_len (c :: r) <? 1); [discriminate|]. destruct (in_range c 49 56); discriminate.
Qed.

Theorem file_from_str_ok s f : file_from_str s = Ok f -> f < 8 /\ exists c r, s = c :: r /\ c = 97 + f.
Proof.
  unfold file_from_str. destruct s as [|c r].
  - cbn [byte_len]. discriminate.
  - destruct (byte_len (c :: r) <? 1); [discriminate|].
    unfold in_range. destruct (N.leb_spec 97 c) as [Hc27|Hc27]; [|discriminate].
    destruct (N.leb_spec c 104) as [Hc28|Hc28]; [|discriminate]. cbn [andb].
    intro H. injection H as <-. split; [lia|]. exists c, r. split; [reflexivity|lia].
Qed.

Theorem rank_from_str_ok s f : rank_from_str s = Ok f -> f < 8 /\ exists c r, s = c :: r /\ c = 49 + f.
Proof.
  unfold rank_from_str. destruct s as [|c r].
  - cbn [byte_len]. discriminate.
  - destruct (byte_len (c :: r) <? 1); [discriminate|].
    unfold in_range. destruct (N.leb_spec 49 c) as [Hc29|Hc29]; [|discriminate].
    destruct (N.leb_spec c 56) as [Hc30|Hc30]; [|discriminate]. cbn [andb].
    intro H. injection H as <-. split; [lia|]. exists c, r. split; [reflexivity|lia].
Qed.

(** conversely every string whose first character is in range is accepted *)
Theorem file_from_str_complete f r : f < 8 -> file_from_str ((97 + f) :: r) = Ok f.
Proof.
  intro Hf. unfold file_from_str. cbn [byte_len].
  pose proof (utf8_len_pos (97 + f)) as Hu.
  destruct (N.ltb_spec (utf8_len (97 + f) + byte_len r) 1) as [Hc31|Hc31]; [lia|].
  unfold in_range. destruct (N.leb_spec 97 (97 + f)) as [Hc32|Hc32]; [|lia].
  destruct (N.leb_spec (97 + f) 104) as [Hc33|Hc33]; [|lia]. cbn [andb]. f_equal. lia.
Qed.

Theorem rank_from_str_complete f r : f < 8 -> rank_from_str ((49 + f) :: r) = Ok f.
Proof.
  intro Hf. unfold rank_from_str. cbn [byte_len].
  pose proof (utf8_len_pos (49 + f)) as Hu.
  destruct (N.ltb_spec (utf8_len (49 + f) + byte_len r) 1) as [Hc34|Hc34]; [lia|].
  unfold in_range. destruct (N.leb_spec 49 (49 + f)) as [Hc35|Hc35]; [|lia].
  destruct (N.leb_spec (49 + f) 56) as [Hc36|Hc36]; [|lia]. cbn [andb]. f_equal. lia.
Qed.

Example from_str_ex :
  file_from_str [101; 52] = Ok 4 /\ rank_from_str [52] = Ok 3 /\ file_from_str [] = Err
  /\ rank_from_str [101] = Err /\ file_from_str [105] = Err.
Proof. repeat split. Qed.
