(** * Proofs.GenPseudoMain — interface P of [Proofs.GenInterface]: on a canonical board of a
    valid position, the destination word the move generator computes for a man of the side to
    move, before legality filtering ([code_dests]), has exactly the bits of the destinations of
    the specification's pseudo-legal moves of that man other than en passant and castling
    ([spec_dests]); and pseudo-legal moves carry a promotion piece exactly when a pawn leaves
    its seventh rank ([stmt_promo]). *)
From Coq Require Import Lia ZifyBool ZifyN ZifyNat.
From Chess Require Import Base.Bits Spec.Geometry Spec.Rules Model.Board Model.MoveGen.
From Chess Require Import Proofs.BitsFacts Proofs.TablesLib Proofs.TablesMeaning Proofs.AbsBoard
                          Proofs.NullMove Proofs.CanonAttack Proofs.FiniteFnsEq
                          Proofs.GenInterface Proofs.GenPseudoLib.
Open Scope N_scope.

#[local] Arguments N.add : simpl never.
#[local] Arguments N.sub : simpl never.
#[local] Arguments N.mul : simpl never.
#[local] Arguments N.shiftl : simpl never.
#[local] Arguments N.shiftr : simpl never.
#[local] Arguments N.land : simpl never.
#[local] Arguments N.lor : simpl never.
#[local] Arguments N.lxor : simpl never.
#[local] Arguments N.testbit : simpl never.
#[local] Arguments N.eqb : simpl never.
#[local] Arguments N.ltb : simpl never.
#[local] Arguments N.leb : simpl never.

(** ** 1. the mask "not my own men" *)
Lemma code_mask b X d : Consistent b -> d < 64 ->
  N.testbit (N.land X (lnot64 (color_combined b (stm b)))) d
  = N.testbit X d && negb (own (abs_board b) (stm b) d).
Proof.
  intros HC Hd. rewrite N.land_spec, FiniteFnsEq.testbit_lnot64 by exact Hd.
  rewrite (own_abs b (stm b) d HC Hd). reflexivity.
Qed.

(** ** 2. knights, bishops, rooks, queens, kings: the attack word minus own men *)
Lemma queen_xor_or s d w : s < 64 -> d < 64 ->
  N.testbit (N.lxor (rook_walk s w) (bishop_walk s w)) d
  = N.testbit (N.lor (rook_walk s w) (bishop_walk s w)) d.
Proof.
  intros Hs Hd. rewrite N.lxor_spec, N.lor_spec.
  rewrite (rook_walk_between s d w Hs Hd), (bishop_walk_between s d w Hs Hd).
  destruct (aligned_facts s d Hs Hd) as [_ [_ [_ [_ Hx]]]].
  destruct (aligned_o s d), (aligned_d s d), (N.land (between s d) w =? 0);
    try discriminate Hx; reflexivity.
Qed.

Lemma code_attack b s t d : Consistent b -> s < 64 -> d < 64 ->
  at_ (abs_board b) s = Some (t, stm b) -> t <> Pawn ->
  (N.testbit (code_dests b t s) d = true <->
   In d (attack_set (abs_board b) s) /\ own (abs_board b) (stm b) d = false).
Proof.
  intros HC Hs Hd Hat Hp. rewrite (attack_set_canon b s d HC Hs Hd). unfold attack_bb. rewrite Hat.
  unfold code_dests. cbv zeta.
  destruct t; try (contradiction Hp; reflexivity);
    rewrite (code_mask b _ d HC Hd), andb_true_iff, negb_true_iff; try reflexivity.
  unfold get_rook_moves, get_bishop_moves. rewrite (queen_xor_or s d (comb b) Hs Hd). reflexivity.
Qed.

Theorem pseudo_piece b s t d : Consistent b -> s < 64 -> d < 64 ->
  at_ (abs_board b) s = Some (t, stm b) -> t <> Pawn ->
  (N.testbit (code_dests b t s) d = true <-> In d (spec_dests (abs_board b) s)).
Proof.
  intros HC Hs Hd Hat Hp. rewrite (code_attack b s t d HC Hs Hd Hat Hp). symmetry.
  destruct t; try (contradiction Hp; reflexivity);
    try (apply (spec_dests_piece (abs_board b) s _ d Hat); discriminate).
  apply (spec_dests_king (abs_board b) s d Hs Hat).
Qed.

(** ** 3. pawns *)
Theorem pseudo_pawn b s d : Consistent b -> pos_valid (abs_board b) = true -> s < 64 -> d < 64 ->
  at_ (abs_board b) s = Some (Pawn, stm b) ->
  (N.testbit (code_dests b Pawn s) d = true <-> In d (spec_dests (abs_board b) s)).
Proof.
  intros HC Hval Hs Hd Hat.
  destruct (valid_facts _ Hval) as [Hpr Hepf].
  assert (Hrange : 8 <= s < 56).
  { apply (Hpr s (stm b) Hs). rewrite (at_has _ _ _ _ Hat). reflexivity. }
  rewrite (spec_dests_pawn (abs_board b) s d Hs Hat (fun e He => proj1 (Hepf e He))).
  change (turn (abs_board b)) with (stm b).
  unfold code_dests. cbv zeta. rewrite (code_mask b _ d HC Hd).
  rewrite pawn_moves_testbit, pawn_attacks_testbit_tab, (pawn_quiets_bits s d (stm b) (comb b) Hd).
  destruct (push_facts (stm b) s Hs) as [Hfwd [Hstep [_ Htab]]].
  specialize (Hfwd Hrange). rewrite (Htab d Hd). unfold push_b. rewrite Hfwd.
  destruct (Hstep _ Hfwd) as [Hu [_ [_ Hstep2]]].
  rewrite (pawn_steps (stm b) s d Hs Hd), enemy_occ_own, (occ_abs b d HC Hd).
  set (c := stm b) in *. set (u := uforward c s) in *. set (bl := comb b) in *.
  set (Q := negb (N.testbit bl u)
            && ((u =? d) || (rank_of s =? start_rank c)
                            && match step u (0, fwdc c)%Z with Some d2 => d2 =? d | None => false end)
            && negb (N.testbit bl d)).
  assert (HQ : push_dest (abs_board b) c s d <-> Q = true).
  { unfold push_dest, Q. rewrite !andb_true_iff, orb_true_iff, andb_true_iff, !negb_true_iff. split.
    - intros [d1 [E1 [O1 H]]]. rewrite Hfwd in E1. injection E1 as <-.
      rewrite (occ_abs b u HC Hu) in O1. fold bl in O1.
      destruct H as [->|[HR [d2 [E2 [O2 ->]]]]].
      + rewrite N.eqb_refl. auto.
      + rewrite E2, N.eqb_refl, (proj2 (N.eqb_eq _ _) HR).
        rewrite (occ_abs b d2 HC Hd) in O2. auto.
    - intros [[Hbu H] Hbd]. exists u. split; [exact Hfwd|].
      split; [rewrite (occ_abs b u HC Hu); exact Hbu|].
      destruct H as [H|[HR H]].
      + left. apply N.eqb_eq in H. symmetry. exact H.
      + right. split; [apply N.eqb_eq; exact HR|].
        destruct (step u (0, fwdc c)%Z) as [d2|]; [|discriminate H].
        apply N.eqb_eq in H. subst d2. exists d. split; [reflexivity|].
        split; [rewrite (occ_abs b d HC Hd); exact Hbd|reflexivity]. }
  rewrite HQ.
  assert (HQd : Q = true -> N.testbit bl d = false).
  { unfold Q. rewrite !andb_true_iff, !negb_true_iff. tauto. }
  assert (Hown : N.testbit bl d = false -> own (abs_board b) c d = false).
  { intro H. apply own_occ. rewrite (occ_abs b d HC Hd). exact H. }
  clearbody Q.
  destruct (N.testbit bl d), (N.testbit (pawn_attack_tab (is_white c) s) d),
           (own (abs_board b) c d), Q; cbn [andb orb negb]; intuition congruence.
Qed.

(** ** 4. the interface statements *)
Theorem pseudo_ok : stmt_pseudo.
Proof.
  intros b s t d Hcan Hval Hs Hd Hhas.
  pose proof (canonical_consistent b Hcan) as HC.
  pose proof (has_at _ _ _ _ Hhas) as Hat.
  destruct t.
  - exact (pseudo_pawn b s d HC Hval Hs Hd Hat).
  - apply (pseudo_piece b s _ d HC Hs Hd Hat). discriminate.
  - apply (pseudo_piece b s _ d HC Hs Hd Hat). discriminate.
  - apply (pseudo_piece b s _ d HC Hs Hd Hat). discriminate.
  - apply (pseudo_piece b s _ d HC Hs Hd Hat). discriminate.
  - apply (pseudo_piece b s _ d HC Hs Hd Hat). discriminate.
Qed.

Theorem promo_ok : stmt_promo.
Proof.
  intros b m _ Hval Hm.
  destruct (valid_facts _ Hval) as [_ Hepf].
  exact (pseudo_promo (abs_board b) m (fun e He => proj2 (Hepf e He)) Hm).
Qed.

(** per-type corollaries *)
Corollary pseudo_knight : forall b s d,
  b = from_scratch (abs_board b) -> pos_valid (abs_board b) = true -> s < 64 -> d < 64 ->
  has (abs_board b) s Knight (stm b) = true ->
  (N.testbit (N.land (knight_moves s) (lnot64 (color_combined b (stm b)))) d = true
   <-> In d (spec_dests (abs_board b) s)).
Proof. intros b s d. exact (pseudo_ok b s Knight d). Qed.
Corollary pseudo_queen : forall b s d,
  b = from_scratch (abs_board b) -> pos_valid (abs_board b) = true -> s < 64 -> d < 64 ->
  has (abs_board b) s Queen (stm b) = true ->
  (N.testbit (N.land (N.lxor (get_rook_moves s (comb b)) (get_bishop_moves s (comb b)))
                     (lnot64 (color_combined b (stm b)))) d = true
   <-> In d (spec_dests (abs_board b) s)).
Proof. intros b s d. exact (pseudo_ok b s Queen d). Qed.

(** ** 5. examples: the hypotheses are satisfiable, and the statement says something *)
Definition ex_board : board := from_scratch startpos.
Example pseudo_ok_ex :
  ex_board = from_scratch (abs_board ex_board) /\ pos_valid (abs_board ex_board) = true /\
  has (abs_board ex_board) 12 Pawn (stm ex_board) = true /\
  code_dests ex_board Pawn 12 = N.lor (bit 20) (bit 28) /\
  spec_dests (abs_board ex_board) 12 = [20;28] /\
  has (abs_board ex_board) 1 Knight (stm ex_board) = true /\
  code_dests ex_board Knight 1 = N.lor (bit 16) (bit 18) /\
  spec_dests (abs_board ex_board) 1 = [18;16] /\
  existsb (fun m => (src m =? 12) && (dst m =? 28)) (pseudo (abs_board ex_board)) = true.
Proof. vm_compute. repeat split. Qed.

Check pseudo_ok : stmt_pseudo.
Check promo_ok : stmt_promo.
Print Assumptions pseudo_ok.
Print Assumptions promo_ok.
