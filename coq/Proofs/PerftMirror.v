(** * Proofs.PerftMirror — perft is invariant under the two mirror images of the rules.

    [perft d (mirror_v p) = perft d p] for every valid position [p] (colours swapped, board flipped
    top to bottom), and [perft d (mirror_h p) = perft d p] for every valid position without
    castling rights (left-right flip; [mirror_h] drops the rights, and castling does not commute
    with it: [Properties/C17.v], [C17_ex_h_castle_breaks]).  Through [PerftSpec.perft_spec] the
    same holds of the library's [MoveGen::movegen_perft_test] on the from-scratch boards.

    Induction on the depth, position generalised.  Step: the legal moves of the mirror image are a
    permutation of the mirror images of the legal moves ([MirrorMain.mirror_v_main] /
    [mirror_h_main], i.e. C17), a sum folded over a list is invariant under permutation
    ([PerftSpec.fold_add_permutation]), [apply] commutes with mirroring on legal moves (C17), the
    successor is valid (T_inv, [SpecInvGoals.pos_valid_preserved]) and — for [mirror_h] — still has
    no castling rights ([no_rights_apply]).

    Concrete instances: by evaluation of the MODEL on the from-scratch boards (never of the
    oracle at depth), transported to the oracle by [perft_spec]. *)
From Coq Require Import NArith List Bool Lia ZifyBool ZifyN ZifyNat Permutation.
From Chess Require Import Base.Bits Base.Text Spec.Geometry Spec.Rules Model.Board Model.MoveGen Model.Perft.
From Chess Require Import Proofs.MirrorLib Proofs.MirrorH Proofs.MirrorMain Proofs.CorB17Valid
  Proofs.SpecInvGoals Proofs.PerftSpec Proofs.PerftExamples.
Import ListNotations.
Open Scope N_scope.

#[local] Arguments N.add : simpl never.

(** ** 0. One induction for both mirrors *)
Section Generic.
  Variable mir : pos -> pos.
  Variable mm : move -> move.
  Variable Q : pos -> Prop.      (* the side condition carried along the line *)
  Hypothesis H_moves : forall p, pos_valid p = true -> Q p ->
    Permutation (legal_moves (mir p)) (map mm (legal_moves p)).
  Hypothesis H_apply : forall p m, pos_valid p = true -> Q p -> In m (legal_moves p) ->
    apply (mir p) (mm m) = mir (apply p m).
  Hypothesis H_Q : forall p m, pos_valid p = true -> Q p -> In m (legal_moves p) -> Q (apply p m).

  Lemma perft_mirror_generic d : forall p, pos_valid p = true -> Q p ->
    perft d (mir p) = perft d p.
  Proof.
    induction d as [|d IH]; intros p HV HQ; [reflexivity|].
    rewrite !perft_S.
    rewrite (fold_add_permutation (fun m => perft d (apply (mir p) m)) _ _ 0 (H_moves p HV HQ)).
    rewrite (fold_add_map mm (fun m => perft d (apply (mir p) m))).
    apply fold_add_ext. intros m Hm.
    rewrite (H_apply p m HV HQ Hm).
    apply IH; [exact (pos_valid_preserved p m HV Hm)|exact (H_Q p m HV HQ Hm)].
  Qed.
End Generic.

(** ** 1. Top-bottom mirror with the colours swapped *)
Theorem perft_mirror_v d p : pos_valid p = true -> perft d (mirror_v p) = perft d p.
Proof.
  intro HV.
  apply (perft_mirror_generic mirror_v mirror_v_move (fun _ => True)); [| | |exact HV|exact I].
  - intros q HVq _. exact (proj1 (mirror_v_main q (pos_valid_WF q HVq))).
  - intros q m HVq _ Hm.
    destruct (mirror_v_main q (pos_valid_WF q HVq)) as (_ & _ & _ & _ & HA).
    exact (proj1 (HA m Hm)).
  - intros; exact I.
Qed.

(** ** 2. Left-right mirror, positions without castling rights *)
Lemma no_rights_apply p m : no_rights p -> no_rights (apply p m).
Proof.
  intros (Hwk & Hwq & Hbk & Hbq). unfold no_rights, apply. cbn [wk wq bk bq].
  rewrite Hwk, Hwq, Hbk, Hbq. repeat split; reflexivity.
Qed.

Theorem perft_mirror_h_nr d p : pos_valid p = true -> no_rights p ->
  perft d (mirror_h p) = perft d p.
Proof.
  intros HV NR.
  apply (perft_mirror_generic mirror_h mirror_h_move no_rights); [| | |exact HV|exact NR].
  - intros q HVq NRq. exact (proj1 (mirror_h_main q (pos_valid_WF q HVq) NRq)).
  - intros q m HVq NRq Hm.
    destruct (mirror_h_main q (pos_valid_WF q HVq) NRq) as (_ & _ & _ & _ & HA).
    exact (proj1 (HA m Hm)).
  - intros q m _ NRq _. exact (no_rights_apply q m NRq).
Qed.

Theorem perft_mirror_h d p : pos_valid p = true ->
  wk p = false -> wq p = false -> bk p = false -> bq p = false ->
  perft d (mirror_h p) = perft d p.
Proof.
  intros HV H1 H2 H3 H4. exact (perft_mirror_h_nr d p HV (conj H1 (conj H2 (conj H3 H4)))).
Qed.

(** ** 3. The library's perft on the from-scratch boards *)
Theorem movegen_perft_mirror_v d p : pos_valid p = true ->
  movegen_perft (from_scratch (mirror_v p)) (S d) = movegen_perft (from_scratch p) (S d).
Proof.
  intro HV.
  rewrite (perft_spec d (mirror_v p) (pos_valid_mirror_v p HV)), (perft_spec d p HV),
    (perft_mirror_v (S d) p HV).
  reflexivity.
Qed.

Theorem movegen_perft_mirror_h d p : pos_valid p = true ->
  wk p = false -> wq p = false -> bk p = false -> bq p = false ->
  movegen_perft (from_scratch (mirror_h p)) (S d) = movegen_perft (from_scratch p) (S d).
Proof.
  intros HV H1 H2 H3 H4.
  rewrite (perft_spec d (mirror_h p) (pos_valid_mirror_h p HV)), (perft_spec d p HV),
    (perft_mirror_h (S d) p HV H1 H2 H3 H4).
  reflexivity.
Qed.

(** both at once, with the common value named *)
Theorem movegen_perft_mirror_v_value d p : pos_valid p = true ->
  movegen_perft (from_scratch (mirror_v p)) (S d) = Some (perft (S d) p).
Proof. intro HV. rewrite (movegen_perft_mirror_v d p HV). exact (perft_spec d p HV). Qed.

Theorem movegen_perft_mirror_h_value d p : pos_valid p = true ->
  wk p = false -> wq p = false -> bk p = false -> bq p = false ->
  movegen_perft (from_scratch (mirror_h p)) (S d) = Some (perft (S d) p).
Proof.
  intros HV H1 H2 H3 H4. rewrite (movegen_perft_mirror_h d p HV H1 H2 H3 H4).
  exact (perft_spec d p HV).
Qed.

(** ** 4. Concrete instances, by evaluation of the model *)

(** the position after 1.e4 and its colour-mirror (Black to move, a black pawn on e5: the
    position after 1...e5 with the move handed back, so to speak) *)
Definition e4 : move := {| src := 12; dst := 28; promo := None |}.
Definition pos_e4 : pos := Eval vm_compute in apply startpos e4.
Definition pos_e4_v : pos := Eval vm_compute in mirror_v pos_e4.

Example ex_pos_e4 : pos_e4 = apply startpos e4 /\ pos_e4_v = mirror_v pos_e4 /\
  In e4 (legal_moves startpos).
Proof.
  split; [vm_compute; reflexivity|]. split; [vm_compute; reflexivity|].
  vm_compute. repeat (first [left; reflexivity | right]).
Qed.

Example ex_pos_e4_shape :
  turn pos_e4 = Black /\ at_ pos_e4 28 = Some (Pawn,White) /\ at_ pos_e4 12 = None /\
  turn pos_e4_v = White /\ at_ pos_e4_v 36 = Some (Pawn,Black) /\ at_ pos_e4_v 52 = None /\
  at_ pos_e4_v 4 = Some (King,White) /\ at_ pos_e4_v 60 = Some (King,Black) /\
  wk pos_e4_v = true /\ wq pos_e4_v = true /\ bk pos_e4_v = true /\ bq pos_e4_v = true /\
  pos_e4_v <> pos_e4.
Proof. vm_compute. repeat split. discriminate. Qed.

Example ex_pos_e4_valid : pos_valid pos_e4 = true /\ pos_valid pos_e4_v = true.
Proof. split; vm_cast_no_check (eq_refl true). Qed.

(** the hypothesis of the theorems, from T_inv rather than by evaluation *)
Example ex_pos_e4_valid_inv : pos_valid (apply startpos e4) = true.
Proof. exact (pos_valid_preserved startpos e4 ex_startpos_valid (proj2 (proj2 ex_pos_e4))). Qed.

(** perft 1..3 of both, by running the model *)
Example ex_perft_e4_1 : movegen_perft (from_scratch pos_e4) 1 = Some 20.
Proof. vm_cast_no_check (eq_refl (Some 20)). Qed.
Example ex_perft_e4_2 : movegen_perft (from_scratch pos_e4) 2 = Some 600.
Proof. vm_cast_no_check (eq_refl (Some 600)). Qed.
Example ex_perft_e4_3 : movegen_perft (from_scratch pos_e4) 3 = Some 13160.
Proof. vm_cast_no_check (eq_refl (Some 13160)). Qed.

Example ex_perft_e4_v_1 : movegen_perft (from_scratch pos_e4_v) 1 = Some 20.
Proof. vm_cast_no_check (eq_refl (Some 20)). Qed.
Example ex_perft_e4_v_2 : movegen_perft (from_scratch pos_e4_v) 2 = Some 600.
Proof. vm_cast_no_check (eq_refl (Some 600)). Qed.
Example ex_perft_e4_v_3 : movegen_perft (from_scratch pos_e4_v) 3 = Some 13160.
Proof. vm_cast_no_check (eq_refl (Some 13160)). Qed.

(** ... which is what the theorem says (instantiated, not evaluated) *)
Example ex_perft_e4_mirror_thm : forall d,
  movegen_perft (from_scratch (mirror_v pos_e4)) (S d) = movegen_perft (from_scratch pos_e4) (S d).
Proof. intro d. exact (movegen_perft_mirror_v d pos_e4 (proj1 ex_pos_e4_valid)). Qed.

(** the oracle's numbers of the mirror image, from the model run on the ORIGINAL position *)
Example ex_oracle_e4_v_3 : perft 3 (mirror_v pos_e4) = 13160 /\ perft 3 pos_e4 = 13160.
Proof.
  pose proof (oracle_from_model 2 pos_e4 13160 (proj1 ex_pos_e4_valid) ex_perft_e4_3) as H.
  split; [|exact H]. rewrite (perft_mirror_v 3 pos_e4 (proj1 ex_pos_e4_valid)). exact H.
Qed.

(** the start position is its own colour-mirror up to the side to move: the mirror image is the
    start position with Black to move, and has the start position's numbers *)
Example ex_start_v : turn (mirror_v startpos) = Black /\
  placement (mirror_v startpos) = placement startpos /\
  movegen_perft (from_scratch (mirror_v startpos)) 4 = Some 197281.
Proof.
  split; [reflexivity|]. split; [vm_compute; reflexivity|].
  rewrite (movegen_perft_mirror_v 3 startpos ex_startpos_valid). exact ex_perft_start_4.
Qed.

(** [mirror_h]: the C17 example positions [ex3] (White Ke1 Ra1 Rh1 Nd2 a2 h2 e5, Black Ke8 Ra8
    Bb4 d5 g4, no rights, en passant on d6, knight pinned) and [ex4] (White in check) *)
Definition ex3_h : pos := Eval vm_compute in mirror_h ex3.
Definition ex4_h : pos := Eval vm_compute in mirror_h ex4.

Example ex_h_hyps : pos_valid ex3 = true /\ no_rights ex3 /\ pos_valid ex4 = true /\ no_rights ex4 /\
  ex3_h = mirror_h ex3 /\ ex4_h = mirror_h ex4 /\ ex3_h <> ex3 /\
  at_ ex3_h 3 = Some (King,White) /\ ep ex3_h = Some 44.
Proof.
  destruct ex_valid as (_ & _ & V3 & V4). destruct ex_no_rights as (N3 & N4).
  repeat split; try assumption; try (vm_compute; reflexivity); try apply N3; try apply N4.
  vm_compute. discriminate.
Qed.

Example ex_perft_ex3 :
  movegen_perft (from_scratch ex3) 1 = Some 15 /\ movegen_perft (from_scratch ex3_h) 1 = Some 15 /\
  movegen_perft (from_scratch ex3) 2 = Some 351 /\ movegen_perft (from_scratch ex3_h) 2 = Some 351 /\
  movegen_perft (from_scratch ex3) 3 = Some 6469 /\ movegen_perft (from_scratch ex3_h) 3 = Some 6469.
Proof.
  split; [vm_cast_no_check (eq_refl (Some 15))|]. split; [vm_cast_no_check (eq_refl (Some 15))|].
  split; [vm_cast_no_check (eq_refl (Some 351))|]. split; [vm_cast_no_check (eq_refl (Some 351))|].
  split; vm_cast_no_check (eq_refl (Some 6469)).
Qed.

Example ex_perft_ex4 :
  movegen_perft (from_scratch ex4) 3 = Some 1707 /\ movegen_perft (from_scratch ex4_h) 3 = Some 1707.
Proof. split; vm_cast_no_check (eq_refl (Some 1707)). Qed.

(** the theorem instantiated; the oracle's number of the mirror image from the model run on the
    original *)
Example ex_perft_ex3_mirror_thm : forall d,
  movegen_perft (from_scratch (mirror_h ex3)) (S d) = movegen_perft (from_scratch ex3) (S d).
Proof.
  intro d. destruct ex_h_hyps as (V3 & (H1 & H2 & H3 & H4) & _).
  exact (movegen_perft_mirror_h d ex3 V3 H1 H2 H3 H4).
Qed.

Example ex_oracle_ex3_h_3 : perft 3 (mirror_h ex3) = 6469.
Proof.
  destruct ex_h_hyps as (V3 & (H1 & H2 & H3 & H4) & _).
  rewrite (perft_mirror_h 3 ex3 V3 H1 H2 H3 H4).
  exact (oracle_from_model 2 ex3 6469 V3 (proj1 (proj2 (proj2 (proj2 (proj2 ex_perft_ex3)))))).
Qed.

(** the no-rights hypothesis of the [mirror_h] theorems is needed: [ex1] is [ex3] with the
    castling rights KQq; its left-right image has lost them, and two moves with them *)
Example ex_h_rights_needed : pos_valid ex1 = true /\ wk ex1 = true /\
  movegen_perft (from_scratch ex1) 1 = Some 17 /\
  movegen_perft (from_scratch (mirror_h ex1)) 1 = Some 15 /\
  perft 1 (mirror_h ex1) <> perft 1 ex1.
Proof.
  split; [exact (proj1 ex_valid)|]. split; [reflexivity|].
  split; [vm_cast_no_check (eq_refl (Some 17))|]. split; [vm_cast_no_check (eq_refl (Some 15))|].
  vm_compute. discriminate.
Qed.
