(** * Properties.C16a — property C16, part A: the geometry lookup tables are exact.
    The generated tables of the library ([Gen/Tables.v], [G_*]) and the tabulated graphs of its
    public accessors ([Gen/FiniteFns.v], [F_*]) equal the closed forms of [Spec/Geometry.v],
    and the closed forms mean what their names say (complete sweeps over the squares, lifted
    to universally quantified statements).  Proofs: [Proofs/TablesLib.v], [Proofs/TablesEq.v],
    [Proofs/TablesMeaning.v], [Proofs/SweepBetween.v], [Proofs/SweepLine.v]. *)
From Chess Require Import Base.Bits Spec.Geometry Gen.Tables Gen.FiniteFns Model.Board.
From Chess Require Import Proofs.TablesLib Proofs.TablesEq Proofs.TablesMeaning
                          Proofs.SweepBetween Proofs.SweepLine.
Open Scope N_scope.


(** ** 1. generated table = closed-form table (by computation) *)

Theorem C16_G_KING_MOVES :
  G_KING_MOVES = KING.
Proof. exact TablesEq.G_KING_MOVES_eq. Qed.
Check C16_G_KING_MOVES :
  G_KING_MOVES = KING.
Print Assumptions C16_G_KING_MOVES.

Theorem C16_G_KNIGHT_MOVES :
  G_KNIGHT_MOVES = KNIGHT.
Proof. exact TablesEq.G_KNIGHT_MOVES_eq. Qed.
Check C16_G_KNIGHT_MOVES :
  G_KNIGHT_MOVES = KNIGHT.
Print Assumptions C16_G_KNIGHT_MOVES.

Theorem C16_G_RAYS :
  G_RAYS = RRAYS ++ BRAYS.
Proof. exact TablesEq.G_RAYS_eq. Qed.
Check C16_G_RAYS :
  G_RAYS = RRAYS ++ BRAYS.
Print Assumptions C16_G_RAYS.

Theorem C16_G_BETWEEN :
  G_BETWEEN = concat BETWEEN.
Proof. exact TablesEq.G_BETWEEN_eq. Qed.
Check C16_G_BETWEEN :
  G_BETWEEN = concat BETWEEN.
Print Assumptions C16_G_BETWEEN.

Theorem C16_G_LINE :
  G_LINE = concat LINE.
Proof. exact TablesEq.G_LINE_eq. Qed.
Check C16_G_LINE :
  G_LINE = concat LINE.
Print Assumptions C16_G_LINE.

Theorem C16_G_PAWN_ATTACKS :
  G_PAWN_ATTACKS = PATT_W ++ PATT_B.
Proof. exact TablesEq.G_PAWN_ATTACKS_eq. Qed.
Check C16_G_PAWN_ATTACKS :
  G_PAWN_ATTACKS = PATT_W ++ PATT_B.
Print Assumptions C16_G_PAWN_ATTACKS.

Theorem C16_G_PAWN_MOVES :
  G_PAWN_MOVES = PPUSH_W ++ PPUSH_B.
Proof. exact TablesEq.G_PAWN_MOVES_eq. Qed.
Check C16_G_PAWN_MOVES :
  G_PAWN_MOVES = PPUSH_W ++ PPUSH_B.
Print Assumptions C16_G_PAWN_MOVES.

Theorem C16_G_FILES :
  G_FILES = map file_bb [0;1;2;3;4;5;6;7].
Proof. exact TablesEq.G_FILES_eq. Qed.
Check C16_G_FILES :
  G_FILES = map file_bb [0;1;2;3;4;5;6;7].
Print Assumptions C16_G_FILES.

Theorem C16_G_RANKS :
  G_RANKS = map rank_bb [0;1;2;3;4;5;6;7].
Proof. exact TablesEq.G_RANKS_eq. Qed.
Check C16_G_RANKS :
  G_RANKS = map rank_bb [0;1;2;3;4;5;6;7].
Print Assumptions C16_G_RANKS.

Theorem C16_G_ADJACENT_FILES :
  G_ADJACENT_FILES = map adjacent_files_bb [0;1;2;3;4;5;6;7].
Proof. exact TablesEq.G_ADJACENT_FILES_eq. Qed.
Check C16_G_ADJACENT_FILES :
  G_ADJACENT_FILES = map adjacent_files_bb [0;1;2;3;4;5;6;7].
Print Assumptions C16_G_ADJACENT_FILES.

Theorem C16_G_EDGES :
  G_EDGES = edges_bb.
Proof. exact TablesEq.G_EDGES_eq. Qed.
Check C16_G_EDGES :
  G_EDGES = edges_bb.
Print Assumptions C16_G_EDGES.

Theorem C16_G_CASTLE_MOVES :
  G_CASTLE_MOVES = CASTLE_MOVES.
Proof. exact TablesEq.G_CASTLE_MOVES_eq. Qed.
Check C16_G_CASTLE_MOVES :
  G_CASTLE_MOVES = CASTLE_MOVES.
Print Assumptions C16_G_CASTLE_MOVES.

Theorem C16_G_PAWN_SOURCE_DOUBLE_MOVES :
  G_PAWN_SOURCE_DOUBLE_MOVES = PAWN_SOURCE_DOUBLE.
Proof. exact TablesEq.G_PAWN_SOURCE_DOUBLE_MOVES_eq. Qed.
Check C16_G_PAWN_SOURCE_DOUBLE_MOVES :
  G_PAWN_SOURCE_DOUBLE_MOVES = PAWN_SOURCE_DOUBLE.
Print Assumptions C16_G_PAWN_SOURCE_DOUBLE_MOVES.

Theorem C16_G_PAWN_DEST_DOUBLE_MOVES :
  G_PAWN_DEST_DOUBLE_MOVES = PAWN_DEST_DOUBLE.
Proof. exact TablesEq.G_PAWN_DEST_DOUBLE_MOVES_eq. Qed.
Check C16_G_PAWN_DEST_DOUBLE_MOVES :
  G_PAWN_DEST_DOUBLE_MOVES = PAWN_DEST_DOUBLE.
Print Assumptions C16_G_PAWN_DEST_DOUBLE_MOVES.

Theorem C16_G_KINGSIDE_CASTLE_SQUARES :
  G_KINGSIDE_CASTLE_SQUARES = [kingside_squares White; kingside_squares Black].
Proof. exact TablesEq.G_KINGSIDE_CASTLE_SQUARES_eq. Qed.
Check C16_G_KINGSIDE_CASTLE_SQUARES :
  G_KINGSIDE_CASTLE_SQUARES = [kingside_squares White; kingside_squares Black].
Print Assumptions C16_G_KINGSIDE_CASTLE_SQUARES.

Theorem C16_G_QUEENSIDE_CASTLE_SQUARES :
  G_QUEENSIDE_CASTLE_SQUARES = [queenside_squares White; queenside_squares Black].
Proof. exact TablesEq.G_QUEENSIDE_CASTLE_SQUARES_eq. Qed.
Check C16_G_QUEENSIDE_CASTLE_SQUARES :
  G_QUEENSIDE_CASTLE_SQUARES = [queenside_squares White; queenside_squares Black].
Print Assumptions C16_G_QUEENSIDE_CASTLE_SQUARES.

Theorem C16_CASTLE_MOVES_closed :
  CASTLE_MOVES = fold_left (fun a s => N.lor a (bit s)) [2;4;6;58;60;62] 0.
Proof. exact TablesEq.CASTLE_MOVES_closed. Qed.
Check C16_CASTLE_MOVES_closed :
  CASTLE_MOVES = fold_left (fun a s => N.lor a (bit s)) [2;4;6;58;60;62] 0.
Print Assumptions C16_CASTLE_MOVES_closed.

Theorem C16_PAWN_SOURCE_DOUBLE_closed :
  PAWN_SOURCE_DOUBLE = N.lor (rank_bb 1) (rank_bb 6).
Proof. exact TablesEq.PAWN_SOURCE_DOUBLE_closed. Qed.
Check C16_PAWN_SOURCE_DOUBLE_closed :
  PAWN_SOURCE_DOUBLE = N.lor (rank_bb 1) (rank_bb 6).
Print Assumptions C16_PAWN_SOURCE_DOUBLE_closed.

Theorem C16_PAWN_DEST_DOUBLE_closed :
  PAWN_DEST_DOUBLE = N.lor (rank_bb 3) (rank_bb 4).
Proof. exact TablesEq.PAWN_DEST_DOUBLE_closed. Qed.
Check C16_PAWN_DEST_DOUBLE_closed :
  PAWN_DEST_DOUBLE = N.lor (rank_bb 3) (rank_bb 4).
Print Assumptions C16_PAWN_DEST_DOUBLE_closed.


(** ** 2. graph of the public accessor = generated table (by computation) *)

Theorem C16_F_king_moves :
  F_king_moves = G_KING_MOVES.
Proof. exact TablesEq.F_king_moves_eq. Qed.
Check C16_F_king_moves :
  F_king_moves = G_KING_MOVES.
Print Assumptions C16_F_king_moves.

Theorem C16_F_knight_moves :
  F_knight_moves = G_KNIGHT_MOVES.
Proof. exact TablesEq.F_knight_moves_eq. Qed.
Check C16_F_knight_moves :
  F_knight_moves = G_KNIGHT_MOVES.
Print Assumptions C16_F_knight_moves.

Theorem C16_F_rays :
  F_rook_rays ++ F_bishop_rays = G_RAYS.
Proof. exact TablesEq.F_rays_eq. Qed.
Check C16_F_rays :
  F_rook_rays ++ F_bishop_rays = G_RAYS.
Print Assumptions C16_F_rays.

Theorem C16_F_between :
  F_between = G_BETWEEN.
Proof. exact TablesEq.F_between_eq. Qed.
Check C16_F_between :
  F_between = G_BETWEEN.
Print Assumptions C16_F_between.

Theorem C16_F_line :
  F_line = G_LINE.
Proof. exact TablesEq.F_line_eq. Qed.
Check C16_F_line :
  F_line = G_LINE.
Print Assumptions C16_F_line.

Theorem C16_F_pawn_attacks :
  F_pawn_attacks_all_0 ++ F_pawn_attacks_all_1 = G_PAWN_ATTACKS.
Proof. exact TablesEq.F_pawn_attacks_eq. Qed.
Check C16_F_pawn_attacks :
  F_pawn_attacks_all_0 ++ F_pawn_attacks_all_1 = G_PAWN_ATTACKS.
Print Assumptions C16_F_pawn_attacks.

Theorem C16_F_pawn_quiets :
  F_pawn_quiets_empty_0 ++ F_pawn_quiets_empty_1 = G_PAWN_MOVES.
Proof. exact TablesEq.F_pawn_quiets_eq. Qed.
Check C16_F_pawn_quiets :
  F_pawn_quiets_empty_0 ++ F_pawn_quiets_empty_1 = G_PAWN_MOVES.
Print Assumptions C16_F_pawn_quiets.

Theorem C16_F_rank_bb :
  F_rank_bb = G_RANKS.
Proof. exact TablesEq.F_rank_bb_eq. Qed.
Check C16_F_rank_bb :
  F_rank_bb = G_RANKS.
Print Assumptions C16_F_rank_bb.

Theorem C16_F_file_bb :
  F_file_bb = G_FILES.
Proof. exact TablesEq.F_file_bb_eq. Qed.
Check C16_F_file_bb :
  F_file_bb = G_FILES.
Print Assumptions C16_F_file_bb.

Theorem C16_F_adjacent_files :
  F_adjacent_files = G_ADJACENT_FILES.
Proof. exact TablesEq.F_adjacent_files_eq. Qed.
Check C16_F_adjacent_files :
  F_adjacent_files = G_ADJACENT_FILES.
Print Assumptions C16_F_adjacent_files.

Theorem C16_F_edges :
  F_edges = [G_EDGES].
Proof. exact TablesEq.F_edges_eq. Qed.
Check C16_F_edges :
  F_edges = [G_EDGES].
Print Assumptions C16_F_edges.


(** ** 3. closed-form table = closed form (by computation), and the accessors *)

Theorem C16_KING_closed :
  KING = tab64 (fun s => steps_bb s king_dirs).
Proof. exact TablesEq.KING_closed. Qed.
Check C16_KING_closed :
  KING = tab64 (fun s => steps_bb s king_dirs).
Print Assumptions C16_KING_closed.

Theorem C16_KNIGHT_closed :
  KNIGHT = tab64 (fun s => steps_bb s knight_dirs).
Proof. exact TablesEq.KNIGHT_closed. Qed.
Check C16_KNIGHT_closed :
  KNIGHT = tab64 (fun s => steps_bb s knight_dirs).
Print Assumptions C16_KNIGHT_closed.

Theorem C16_RRAYS_closed :
  RRAYS = tab64 (fun s => rook_walk s 0).
Proof. exact TablesEq.RRAYS_closed. Qed.
Check C16_RRAYS_closed :
  RRAYS = tab64 (fun s => rook_walk s 0).
Print Assumptions C16_RRAYS_closed.

Theorem C16_BRAYS_closed :
  BRAYS = tab64 (fun s => bishop_walk s 0).
Proof. exact TablesEq.BRAYS_closed. Qed.
Check C16_BRAYS_closed :
  BRAYS = tab64 (fun s => bishop_walk s 0).
Print Assumptions C16_BRAYS_closed.

Theorem C16_PATT_W_closed :
  PATT_W = tab64 (pawn_attack_f true).
Proof. exact TablesEq.PATT_W_closed. Qed.
Check C16_PATT_W_closed :
  PATT_W = tab64 (pawn_attack_f true).
Print Assumptions C16_PATT_W_closed.

Theorem C16_PATT_B_closed :
  PATT_B = tab64 (pawn_attack_f false).
Proof. exact TablesEq.PATT_B_closed. Qed.
Check C16_PATT_B_closed :
  PATT_B = tab64 (pawn_attack_f false).
Print Assumptions C16_PATT_B_closed.

Theorem C16_PPUSH_W_closed :
  PPUSH_W = tab64 (pawn_push_f true).
Proof. exact TablesEq.PPUSH_W_closed. Qed.
Check C16_PPUSH_W_closed :
  PPUSH_W = tab64 (pawn_push_f true).
Print Assumptions C16_PPUSH_W_closed.

Theorem C16_PPUSH_B_closed :
  PPUSH_B = tab64 (pawn_push_f false).
Proof. exact TablesEq.PPUSH_B_closed. Qed.
Check C16_PPUSH_B_closed :
  PPUSH_B = tab64 (pawn_push_f false).
Print Assumptions C16_PPUSH_B_closed.

Theorem C16_BETWEEN_closed :
  BETWEEN = map (fun a => tab64 (fun b => bb_of (between_b a b))) all_sq.
Proof. exact TablesEq.BETWEEN_closed. Qed.
Check C16_BETWEEN_closed :
  BETWEEN = map (fun a => tab64 (fun b => bb_of (between_b a b))) all_sq.
Print Assumptions C16_BETWEEN_closed.

Theorem C16_LINE_closed :
  LINE = map (fun a => tab64 (fun b => bb_of (line_b a b))) all_sq.
Proof. exact TablesEq.LINE_closed. Qed.
Check C16_LINE_closed :
  LINE = map (fun a => tab64 (fun b => bb_of (line_b a b))) all_sq.
Print Assumptions C16_LINE_closed.

Theorem C16_king_moves_closed :
  forall s, s < 64 -> king_moves s = steps_bb s king_dirs.
Proof. exact TablesEq.king_moves_closed. Qed.
Check C16_king_moves_closed :
  forall s, s < 64 -> king_moves s = steps_bb s king_dirs.
Print Assumptions C16_king_moves_closed.

Theorem C16_knight_moves_closed :
  forall s, s < 64 -> knight_moves s = steps_bb s knight_dirs.
Proof. exact TablesEq.knight_moves_closed. Qed.
Check C16_knight_moves_closed :
  forall s, s < 64 -> knight_moves s = steps_bb s knight_dirs.
Print Assumptions C16_knight_moves_closed.

Theorem C16_rook_rays_closed :
  forall s, s < 64 -> rook_rays s = rook_walk s 0.
Proof. exact TablesEq.rook_rays_closed. Qed.
Check C16_rook_rays_closed :
  forall s, s < 64 -> rook_rays s = rook_walk s 0.
Print Assumptions C16_rook_rays_closed.

Theorem C16_bishop_rays_closed :
  forall s, s < 64 -> bishop_rays s = bishop_walk s 0.
Proof. exact TablesEq.bishop_rays_closed. Qed.
Check C16_bishop_rays_closed :
  forall s, s < 64 -> bishop_rays s = bishop_walk s 0.
Print Assumptions C16_bishop_rays_closed.

Theorem C16_pawn_attack_tab_closed :
  forall c s, s < 64 -> pawn_attack_tab c s = pawn_attack_f c s.
Proof. exact TablesEq.pawn_attack_tab_closed. Qed.
Check C16_pawn_attack_tab_closed :
  forall c s, s < 64 -> pawn_attack_tab c s = pawn_attack_f c s.
Print Assumptions C16_pawn_attack_tab_closed.

Theorem C16_pawn_push_tab_closed :
  forall c s, s < 64 -> pawn_push_tab c s = pawn_push_f c s.
Proof. exact TablesEq.pawn_push_tab_closed. Qed.
Check C16_pawn_push_tab_closed :
  forall c s, s < 64 -> pawn_push_tab c s = pawn_push_f c s.
Print Assumptions C16_pawn_push_tab_closed.

Theorem C16_between_closed :
  forall a b, a < 64 -> b < 64 -> between a b = bb_of (between_b a b).
Proof. exact TablesEq.between_closed. Qed.
Check C16_between_closed :
  forall a b, a < 64 -> b < 64 -> between a b = bb_of (between_b a b).
Print Assumptions C16_between_closed.

Theorem C16_line_closed :
  forall a b, a < 64 -> b < 64 -> line a b = bb_of (line_b a b).
Proof. exact TablesEq.line_closed. Qed.
Check C16_line_closed :
  forall a b, a < 64 -> b < 64 -> line a b = bb_of (line_b a b).
Print Assumptions C16_line_closed.


(** ** 4. indexing the generated tables as the Rust accessors do *)

Theorem C16_G_KING_MOVES_nth :
  forall s, s < 64 -> nthN G_KING_MOVES s 0 = king_moves s.
Proof. exact TablesEq.G_KING_MOVES_nth. Qed.
Check C16_G_KING_MOVES_nth :
  forall s, s < 64 -> nthN G_KING_MOVES s 0 = king_moves s.
Print Assumptions C16_G_KING_MOVES_nth.

Theorem C16_G_KNIGHT_MOVES_nth :
  forall s, s < 64 -> nthN G_KNIGHT_MOVES s 0 = knight_moves s.
Proof. exact TablesEq.G_KNIGHT_MOVES_nth. Qed.
Check C16_G_KNIGHT_MOVES_nth :
  forall s, s < 64 -> nthN G_KNIGHT_MOVES s 0 = knight_moves s.
Print Assumptions C16_G_KNIGHT_MOVES_nth.

Theorem C16_G_RAYS_rook_nth :
  forall s, s < 64 -> nthN G_RAYS s 0 = rook_rays s.
Proof. exact TablesEq.G_RAYS_rook_nth. Qed.
Check C16_G_RAYS_rook_nth :
  forall s, s < 64 -> nthN G_RAYS s 0 = rook_rays s.
Print Assumptions C16_G_RAYS_rook_nth.

Theorem C16_G_RAYS_bishop_nth :
  forall s, s < 64 -> nthN G_RAYS (64 + s) 0 = bishop_rays s.
Proof. exact TablesEq.G_RAYS_bishop_nth. Qed.
Check C16_G_RAYS_bishop_nth :
  forall s, s < 64 -> nthN G_RAYS (64 + s) 0 = bishop_rays s.
Print Assumptions C16_G_RAYS_bishop_nth.

Theorem C16_G_PAWN_ATTACKS_nth :
  forall (c:bool) s, s < 64 -> nthN G_PAWN_ATTACKS ((if c then 0 else 64) + s) 0 = pawn_attack_tab c s.
Proof. exact TablesEq.G_PAWN_ATTACKS_nth. Qed.
Check C16_G_PAWN_ATTACKS_nth :
  forall (c:bool) s, s < 64 -> nthN G_PAWN_ATTACKS ((if c then 0 else 64) + s) 0 = pawn_attack_tab c s.
Print Assumptions C16_G_PAWN_ATTACKS_nth.

Theorem C16_G_PAWN_MOVES_nth :
  forall (c:bool) s, s < 64 -> nthN G_PAWN_MOVES ((if c then 0 else 64) + s) 0 = pawn_push_tab c s.
Proof. exact TablesEq.G_PAWN_MOVES_nth. Qed.
Check C16_G_PAWN_MOVES_nth :
  forall (c:bool) s, s < 64 -> nthN G_PAWN_MOVES ((if c then 0 else 64) + s) 0 = pawn_push_tab c s.
Print Assumptions C16_G_PAWN_MOVES_nth.

Theorem C16_G_BETWEEN_nth :
  forall a b, a < 64 -> b < 64 -> nthN G_BETWEEN (a*64+b) 0 = between a b.
Proof. exact TablesEq.G_BETWEEN_nth. Qed.
Check C16_G_BETWEEN_nth :
  forall a b, a < 64 -> b < 64 -> nthN G_BETWEEN (a*64+b) 0 = between a b.
Print Assumptions C16_G_BETWEEN_nth.

Theorem C16_G_LINE_nth :
  forall a b, a < 64 -> b < 64 -> nthN G_LINE (a*64+b) 0 = line a b.
Proof. exact TablesEq.G_LINE_nth. Qed.
Check C16_G_LINE_nth :
  forall a b, a < 64 -> b < 64 -> nthN G_LINE (a*64+b) 0 = line a b.
Print Assumptions C16_G_LINE_nth.

Theorem C16_G_FILES_nth :
  forall f, f < 8 -> nthN G_FILES f 0 = file_bb f.
Proof. exact TablesEq.G_FILES_nth. Qed.
Check C16_G_FILES_nth :
  forall f, f < 8 -> nthN G_FILES f 0 = file_bb f.
Print Assumptions C16_G_FILES_nth.

Theorem C16_G_RANKS_nth :
  forall r, r < 8 -> nthN G_RANKS r 0 = rank_bb r.
Proof. exact TablesEq.G_RANKS_nth. Qed.
Check C16_G_RANKS_nth :
  forall r, r < 8 -> nthN G_RANKS r 0 = rank_bb r.
Print Assumptions C16_G_RANKS_nth.

Theorem C16_G_ADJACENT_FILES_nth :
  forall f, f < 8 -> nthN G_ADJACENT_FILES f 0 = adjacent_files_bb f.
Proof. exact TablesEq.G_ADJACENT_FILES_nth. Qed.
Check C16_G_ADJACENT_FILES_nth :
  forall f, f < 8 -> nthN G_ADJACENT_FILES f 0 = adjacent_files_bb f.
Print Assumptions C16_G_ADJACENT_FILES_nth.


(** ** 5. meaning of between / line *)

Theorem C16_between_meaning :
  forall a b c, a < 64 -> b < 64 -> c < 64 -> N.testbit (between a b) c = between_b a b c.
Proof. exact TablesMeaning.between_meaning. Qed.
Check C16_between_meaning :
  forall a b c, a < 64 -> b < 64 -> c < 64 -> N.testbit (between a b) c = between_b a b c.
Print Assumptions C16_between_meaning.

Theorem C16_between_high :
  forall a b c, a < 64 -> b < 64 -> 64 <= c -> N.testbit (between a b) c = false.
Proof. exact TablesMeaning.between_high. Qed.
Check C16_between_high :
  forall a b c, a < 64 -> b < 64 -> 64 <= c -> N.testbit (between a b) c = false.
Print Assumptions C16_between_high.

Theorem C16_line_meaning :
  forall a b c, a < 64 -> b < 64 -> c < 64 -> N.testbit (line a b) c = line_b a b c.
Proof. exact TablesMeaning.line_meaning. Qed.
Check C16_line_meaning :
  forall a b c, a < 64 -> b < 64 -> c < 64 -> N.testbit (line a b) c = line_b a b c.
Print Assumptions C16_line_meaning.

Theorem C16_line_high :
  forall a b c, a < 64 -> b < 64 -> 64 <= c -> N.testbit (line a b) c = false.
Proof. exact TablesMeaning.line_high. Qed.
Check C16_line_high :
  forall a b c, a < 64 -> b < 64 -> 64 <= c -> N.testbit (line a b) c = false.
Print Assumptions C16_line_high.

Theorem C16_between_wf :
  forall a b, a < 64 -> b < 64 -> wf64 (between a b).
Proof. exact TablesMeaning.between_wf. Qed.
Check C16_between_wf :
  forall a b, a < 64 -> b < 64 -> wf64 (between a b).
Print Assumptions C16_between_wf.

Theorem C16_line_wf :
  forall a b, a < 64 -> b < 64 -> wf64 (line a b).
Proof. exact TablesMeaning.line_wf. Qed.
Check C16_line_wf :
  forall a b, a < 64 -> b < 64 -> wf64 (line a b).
Print Assumptions C16_line_wf.

Theorem C16_between_sym :
  forall a b, a < 64 -> b < 64 -> between a b = between b a.
Proof. exact TablesMeaning.between_sym. Qed.
Check C16_between_sym :
  forall a b, a < 64 -> b < 64 -> between a b = between b a.
Print Assumptions C16_between_sym.

Theorem C16_line_sym :
  forall a b, a < 64 -> b < 64 -> line a b = line b a.
Proof. exact TablesMeaning.line_sym. Qed.
Check C16_line_sym :
  forall a b, a < 64 -> b < 64 -> line a b = line b a.
Print Assumptions C16_line_sym.

Theorem C16_between_b_ref :
  forall a b c, a < 64 -> b < 64 -> c < 64 -> between_b a b c = between_ref a b c.
Proof. exact SweepBetween.between_b_ref. Qed.
Check C16_between_b_ref :
  forall a b c, a < 64 -> b < 64 -> c < 64 -> between_b a b c = between_ref a b c.
Print Assumptions C16_between_b_ref.

Theorem C16_line_b_ref :
  forall a b c, a < 64 -> b < 64 -> c < 64 -> line_b a b c = line_ref a b c.
Proof. exact SweepLine.line_b_ref. Qed.
Check C16_line_b_ref :
  forall a b c, a < 64 -> b < 64 -> c < 64 -> line_b a b c = line_ref a b c.
Print Assumptions C16_line_b_ref.

Theorem C16_between_b_steps :
  forall a b c, a < 64 -> b < 64 -> c < 64 ->
  (between_b a b c = true <->
   exists d i j, In d king_dirs /\ (1 <= i < j)%Z /\ (j <= 7)%Z /\
                 step a (scale i d) = Some c /\ step a (scale j d) = Some b).
Proof. exact SweepBetween.between_b_steps. Qed.
Check C16_between_b_steps :
  forall a b c, a < 64 -> b < 64 -> c < 64 ->
  (between_b a b c = true <->
   exists d i j, In d king_dirs /\ (1 <= i < j)%Z /\ (j <= 7)%Z /\
                 step a (scale i d) = Some c /\ step a (scale j d) = Some b).
Print Assumptions C16_between_b_steps.

Theorem C16_between_b_geom :
  forall a b c, a < 64 -> b < 64 -> c < 64 ->
  (between_b a b c = true <->
   (exists df dr i j, In (df,dr) king_dirs /\ 1 <= i < j /\ j <= 7 /\
     fileZ c = fileZ a + i*df /\ rankZ c = rankZ a + i*dr /\
     fileZ b = fileZ a + j*df /\ rankZ b = rankZ a + j*dr)%Z).
Proof. exact SweepBetween.between_b_geom. Qed.
Check C16_between_b_geom :
  forall a b c, a < 64 -> b < 64 -> c < 64 ->
  (between_b a b c = true <->
   (exists df dr i j, In (df,dr) king_dirs /\ 1 <= i < j /\ j <= 7 /\
     fileZ c = fileZ a + i*df /\ rankZ c = rankZ a + i*dr /\
     fileZ b = fileZ a + j*df /\ rankZ b = rankZ a + j*dr)%Z).
Print Assumptions C16_between_b_geom.

Theorem C16_between_geom :
  forall a b c, a < 64 -> b < 64 -> c < 64 ->
  (N.testbit (between a b) c = true <->
   (exists df dr i j, In (df,dr) king_dirs /\ 1 <= i < j /\ j <= 7 /\
     fileZ c = fileZ a + i*df /\ rankZ c = rankZ a + i*dr /\
     fileZ b = fileZ a + j*df /\ rankZ b = rankZ a + j*dr)%Z).
Proof. exact SweepBetween.between_geom. Qed.
Check C16_between_geom :
  forall a b c, a < 64 -> b < 64 -> c < 64 ->
  (N.testbit (between a b) c = true <->
   (exists df dr i j, In (df,dr) king_dirs /\ 1 <= i < j /\ j <= 7 /\
     fileZ c = fileZ a + i*df /\ rankZ c = rankZ a + i*dr /\
     fileZ b = fileZ a + j*df /\ rankZ b = rankZ a + j*dr)%Z).
Print Assumptions C16_between_geom.

Theorem C16_G_BETWEEN_geom :
  forall a b c, a < 64 -> b < 64 -> c < 64 ->
  (N.testbit (nthN G_BETWEEN (a*64+b) 0) c = true <->
   (exists df dr i j, In (df,dr) king_dirs /\ 1 <= i < j /\ j <= 7 /\
     fileZ c = fileZ a + i*df /\ rankZ c = rankZ a + i*dr /\
     fileZ b = fileZ a + j*df /\ rankZ b = rankZ a + j*dr)%Z).
Proof. exact SweepBetween.G_BETWEEN_geom. Qed.
Check C16_G_BETWEEN_geom :
  forall a b c, a < 64 -> b < 64 -> c < 64 ->
  (N.testbit (nthN G_BETWEEN (a*64+b) 0) c = true <->
   (exists df dr i j, In (df,dr) king_dirs /\ 1 <= i < j /\ j <= 7 /\
     fileZ c = fileZ a + i*df /\ rankZ c = rankZ a + i*dr /\
     fileZ b = fileZ a + j*df /\ rankZ b = rankZ a + j*dr)%Z).
Print Assumptions C16_G_BETWEEN_geom.

Theorem C16_line_b_steps :
  forall a b c, a < 64 -> b < 64 -> c < 64 ->
  (line_b a b c = true <->
   exists d j k, In d king_dirs /\ (1 <= j <= 7)%Z /\ (-7 <= k <= 7)%Z /\
                 step a (lscale j d) = Some b /\ step a (lscale k d) = Some c).
Proof. exact SweepLine.line_b_steps. Qed.
Check C16_line_b_steps :
  forall a b c, a < 64 -> b < 64 -> c < 64 ->
  (line_b a b c = true <->
   exists d j k, In d king_dirs /\ (1 <= j <= 7)%Z /\ (-7 <= k <= 7)%Z /\
                 step a (lscale j d) = Some b /\ step a (lscale k d) = Some c).
Print Assumptions C16_line_b_steps.

Theorem C16_line_b_geom :
  forall a b c, a < 64 -> b < 64 -> c < 64 ->
  (line_b a b c = true <->
   (exists df dr j k, In (df,dr) king_dirs /\ 1 <= j <= 7 /\ -7 <= k <= 7 /\
     fileZ b = fileZ a + j*df /\ rankZ b = rankZ a + j*dr /\
     fileZ c = fileZ a + k*df /\ rankZ c = rankZ a + k*dr)%Z).
Proof. exact SweepLine.line_b_geom. Qed.
Check C16_line_b_geom :
  forall a b c, a < 64 -> b < 64 -> c < 64 ->
  (line_b a b c = true <->
   (exists df dr j k, In (df,dr) king_dirs /\ 1 <= j <= 7 /\ -7 <= k <= 7 /\
     fileZ b = fileZ a + j*df /\ rankZ b = rankZ a + j*dr /\
     fileZ c = fileZ a + k*df /\ rankZ c = rankZ a + k*dr)%Z).
Print Assumptions C16_line_b_geom.

Theorem C16_line_geom :
  forall a b c, a < 64 -> b < 64 -> c < 64 ->
  (N.testbit (line a b) c = true <->
   (exists df dr j k, In (df,dr) king_dirs /\ 1 <= j <= 7 /\ -7 <= k <= 7 /\
     fileZ b = fileZ a + j*df /\ rankZ b = rankZ a + j*dr /\
     fileZ c = fileZ a + k*df /\ rankZ c = rankZ a + k*dr)%Z).
Proof. exact SweepLine.line_geom. Qed.
Check C16_line_geom :
  forall a b c, a < 64 -> b < 64 -> c < 64 ->
  (N.testbit (line a b) c = true <->
   (exists df dr j k, In (df,dr) king_dirs /\ 1 <= j <= 7 /\ -7 <= k <= 7 /\
     fileZ b = fileZ a + j*df /\ rankZ b = rankZ a + j*dr /\
     fileZ c = fileZ a + k*df /\ rankZ c = rankZ a + k*dr)%Z).
Print Assumptions C16_line_geom.

Theorem C16_G_LINE_geom :
  forall a b c, a < 64 -> b < 64 -> c < 64 ->
  (N.testbit (nthN G_LINE (a*64+b) 0) c = true <->
   (exists df dr j k, In (df,dr) king_dirs /\ 1 <= j <= 7 /\ -7 <= k <= 7 /\
     fileZ b = fileZ a + j*df /\ rankZ b = rankZ a + j*dr /\
     fileZ c = fileZ a + k*df /\ rankZ c = rankZ a + k*dr)%Z).
Proof. exact SweepLine.G_LINE_geom. Qed.
Check C16_G_LINE_geom :
  forall a b c, a < 64 -> b < 64 -> c < 64 ->
  (N.testbit (nthN G_LINE (a*64+b) 0) c = true <->
   (exists df dr j k, In (df,dr) king_dirs /\ 1 <= j <= 7 /\ -7 <= k <= 7 /\
     fileZ b = fileZ a + j*df /\ rankZ b = rankZ a + j*dr /\
     fileZ c = fileZ a + k*df /\ rankZ c = rankZ a + k*dr)%Z).
Print Assumptions C16_G_LINE_geom.

Theorem C16_step_spec :
  forall (a c:N) (d:Z*Z), a < 64 ->
  (step a d = Some c <->
   c < 64 /\ fileZ c = (fileZ a + fst d)%Z /\ rankZ c = (rankZ a + snd d)%Z).
Proof. exact TablesMeaning.step_spec. Qed.
Check C16_step_spec :
  forall (a c:N) (d:Z*Z), a < 64 ->
  (step a d = Some c <->
   c < 64 /\ fileZ c = (fileZ a + fst d)%Z /\ rankZ c = (rankZ a + snd d)%Z).
Print Assumptions C16_step_spec.

Theorem C16_G_BETWEEN_meaning :
  forall a b c, a < 64 -> b < 64 -> c < 64 -> N.testbit (nthN G_BETWEEN (a*64+b) 0) c = between_b a b c.
Proof. exact TablesMeaning.G_BETWEEN_meaning. Qed.
Check C16_G_BETWEEN_meaning :
  forall a b c, a < 64 -> b < 64 -> c < 64 -> N.testbit (nthN G_BETWEEN (a*64+b) 0) c = between_b a b c.
Print Assumptions C16_G_BETWEEN_meaning.

Theorem C16_G_LINE_meaning :
  forall a b c, a < 64 -> b < 64 -> c < 64 -> N.testbit (nthN G_LINE (a*64+b) 0) c = line_b a b c.
Proof. exact TablesMeaning.G_LINE_meaning. Qed.
Check C16_G_LINE_meaning :
  forall a b c, a < 64 -> b < 64 -> c < 64 -> N.testbit (nthN G_LINE (a*64+b) 0) c = line_b a b c.
Print Assumptions C16_G_LINE_meaning.


(** ** 6. meaning of king / knight / rays / pawn tables *)

Theorem C16_king_meaning :
  forall s t, s < 64 -> t < 64 ->
  N.testbit (king_moves s) t = (Z.max (Z.abs (fileZ s - fileZ t)) (Z.abs (rankZ s - rankZ t)) =? 1)%Z.
Proof. exact TablesMeaning.king_meaning. Qed.
Check C16_king_meaning :
  forall s t, s < 64 -> t < 64 ->
  N.testbit (king_moves s) t = (Z.max (Z.abs (fileZ s - fileZ t)) (Z.abs (rankZ s - rankZ t)) =? 1)%Z.
Print Assumptions C16_king_meaning.

Theorem C16_knight_meaning :
  forall s t, s < 64 -> t < 64 ->
  N.testbit (knight_moves s) t
  = (((Z.abs (fileZ s - fileZ t) =? 1) && (Z.abs (rankZ s - rankZ t) =? 2))
     || ((Z.abs (fileZ s - fileZ t) =? 2) && (Z.abs (rankZ s - rankZ t) =? 1)))%Z.
Proof. exact TablesMeaning.knight_meaning. Qed.
Check C16_knight_meaning :
  forall s t, s < 64 -> t < 64 ->
  N.testbit (knight_moves s) t
  = (((Z.abs (fileZ s - fileZ t) =? 1) && (Z.abs (rankZ s - rankZ t) =? 2))
     || ((Z.abs (fileZ s - fileZ t) =? 2) && (Z.abs (rankZ s - rankZ t) =? 1)))%Z.
Print Assumptions C16_knight_meaning.

Theorem C16_rook_rays_meaning :
  forall s t, s < 64 -> t < 64 -> N.testbit (rook_rays s) t = aligned_o s t.
Proof. exact TablesMeaning.rook_rays_meaning. Qed.
Check C16_rook_rays_meaning :
  forall s t, s < 64 -> t < 64 -> N.testbit (rook_rays s) t = aligned_o s t.
Print Assumptions C16_rook_rays_meaning.

Theorem C16_bishop_rays_meaning :
  forall s t, s < 64 -> t < 64 -> N.testbit (bishop_rays s) t = aligned_d s t.
Proof. exact TablesMeaning.bishop_rays_meaning. Qed.
Check C16_bishop_rays_meaning :
  forall s t, s < 64 -> t < 64 -> N.testbit (bishop_rays s) t = aligned_d s t.
Print Assumptions C16_bishop_rays_meaning.

Theorem C16_pawn_attack_meaning :
  forall c s t, s < 64 -> t < 64 ->
  N.testbit (pawn_attack_tab c s) t = ((Z.abs (fileZ s - fileZ t) =? 1) && (rankZ t =? rankZ s + fwd c))%Z.
Proof. exact TablesMeaning.pawn_attack_meaning. Qed.
Check C16_pawn_attack_meaning :
  forall c s t, s < 64 -> t < 64 ->
  N.testbit (pawn_attack_tab c s) t = ((Z.abs (fileZ s - fileZ t) =? 1) && (rankZ t =? rankZ s + fwd c))%Z.
Print Assumptions C16_pawn_attack_meaning.

Theorem C16_pawn_push_meaning :
  forall c s t, s < 64 -> t < 64 ->
  N.testbit (pawn_push_tab c s) t
  = ((fileZ t =? fileZ s)
     && ((rankZ t =? rankZ s + fwd c)
         || ((rankZ s =? second_rank c) && (rankZ t =? rankZ s + 2 * fwd c))))%Z.
Proof. exact TablesMeaning.pawn_push_meaning. Qed.
Check C16_pawn_push_meaning :
  forall c s t, s < 64 -> t < 64 ->
  N.testbit (pawn_push_tab c s) t
  = ((fileZ t =? fileZ s)
     && ((rankZ t =? rankZ s + fwd c)
         || ((rankZ s =? second_rank c) && (rankZ t =? rankZ s + 2 * fwd c))))%Z.
Print Assumptions C16_pawn_push_meaning.

Theorem C16_G_KING_MOVES_meaning :
  forall s t, s < 64 -> t < 64 ->
  N.testbit (nthN G_KING_MOVES s 0) t = (Z.max (Z.abs (fileZ s - fileZ t)) (Z.abs (rankZ s - rankZ t)) =? 1)%Z.
Proof. exact TablesMeaning.G_KING_MOVES_meaning. Qed.
Check C16_G_KING_MOVES_meaning :
  forall s t, s < 64 -> t < 64 ->
  N.testbit (nthN G_KING_MOVES s 0) t = (Z.max (Z.abs (fileZ s - fileZ t)) (Z.abs (rankZ s - rankZ t)) =? 1)%Z.
Print Assumptions C16_G_KING_MOVES_meaning.

Theorem C16_G_KNIGHT_MOVES_meaning :
  forall s t, s < 64 -> t < 64 ->
  N.testbit (nthN G_KNIGHT_MOVES s 0) t
  = (((Z.abs (fileZ s - fileZ t) =? 1) && (Z.abs (rankZ s - rankZ t) =? 2))
     || ((Z.abs (fileZ s - fileZ t) =? 2) && (Z.abs (rankZ s - rankZ t) =? 1)))%Z.
Proof. exact TablesMeaning.G_KNIGHT_MOVES_meaning. Qed.
Check C16_G_KNIGHT_MOVES_meaning :
  forall s t, s < 64 -> t < 64 ->
  N.testbit (nthN G_KNIGHT_MOVES s 0) t
  = (((Z.abs (fileZ s - fileZ t) =? 1) && (Z.abs (rankZ s - rankZ t) =? 2))
     || ((Z.abs (fileZ s - fileZ t) =? 2) && (Z.abs (rankZ s - rankZ t) =? 1)))%Z.
Print Assumptions C16_G_KNIGHT_MOVES_meaning.

Theorem C16_G_RAYS_meaning :
  forall s t, s < 64 -> t < 64 ->
  N.testbit (nthN G_RAYS s 0) t = aligned_o s t /\
  N.testbit (nthN G_RAYS (64 + s) 0) t = aligned_d s t.
Proof. exact TablesMeaning.G_RAYS_meaning. Qed.
Check C16_G_RAYS_meaning :
  forall s t, s < 64 -> t < 64 ->
  N.testbit (nthN G_RAYS s 0) t = aligned_o s t /\
  N.testbit (nthN G_RAYS (64 + s) 0) t = aligned_d s t.
Print Assumptions C16_G_RAYS_meaning.

Theorem C16_G_PAWN_ATTACKS_meaning :
  forall (c:bool) s t, s < 64 -> t < 64 ->
  N.testbit (nthN G_PAWN_ATTACKS ((if c then 0 else 64) + s) 0) t = ((Z.abs (fileZ s - fileZ t) =? 1) && (rankZ t =? rankZ s + fwd c))%Z.
Proof. exact TablesMeaning.G_PAWN_ATTACKS_meaning. Qed.
Check C16_G_PAWN_ATTACKS_meaning :
  forall (c:bool) s t, s < 64 -> t < 64 ->
  N.testbit (nthN G_PAWN_ATTACKS ((if c then 0 else 64) + s) 0) t = ((Z.abs (fileZ s - fileZ t) =? 1) && (rankZ t =? rankZ s + fwd c))%Z.
Print Assumptions C16_G_PAWN_ATTACKS_meaning.

Theorem C16_G_PAWN_MOVES_meaning :
  forall (c:bool) s t, s < 64 -> t < 64 ->
  N.testbit (nthN G_PAWN_MOVES ((if c then 0 else 64) + s) 0) t
  = ((fileZ t =? fileZ s)
     && ((rankZ t =? rankZ s + fwd c)
         || ((rankZ s =? second_rank c) && (rankZ t =? rankZ s + 2 * fwd c))))%Z.
Proof. exact TablesMeaning.G_PAWN_MOVES_meaning. Qed.
Check C16_G_PAWN_MOVES_meaning :
  forall (c:bool) s t, s < 64 -> t < 64 ->
  N.testbit (nthN G_PAWN_MOVES ((if c then 0 else 64) + s) 0) t
  = ((fileZ t =? fileZ s)
     && ((rankZ t =? rankZ s + fwd c)
         || ((rankZ s =? second_rank c) && (rankZ t =? rankZ s + 2 * fwd c))))%Z.
Print Assumptions C16_G_PAWN_MOVES_meaning.


(** ** 7. files / ranks / adjacent files / edges *)

Theorem C16_file_bb_meaning :
  forall f t, f < 8 -> t < 64 -> N.testbit (file_bb f) t = (N.land t 7 =? f).
Proof. exact TablesMeaning.file_bb_meaning. Qed.
Check C16_file_bb_meaning :
  forall f t, f < 8 -> t < 64 -> N.testbit (file_bb f) t = (N.land t 7 =? f).
Print Assumptions C16_file_bb_meaning.

Theorem C16_rank_bb_meaning :
  forall r t, r < 8 -> t < 64 -> N.testbit (rank_bb r) t = (N.shiftr t 3 =? r).
Proof. exact TablesMeaning.rank_bb_meaning. Qed.
Check C16_rank_bb_meaning :
  forall r t, r < 8 -> t < 64 -> N.testbit (rank_bb r) t = (N.shiftr t 3 =? r).
Print Assumptions C16_rank_bb_meaning.

Theorem C16_adjacent_files_meaning :
  forall f t, f < 8 -> t < 64 ->
  N.testbit (adjacent_files_bb f) t = (Z.abs (fileZ t - Z.of_N f) =? 1)%Z.
Proof. exact TablesMeaning.adjacent_files_meaning. Qed.
Check C16_adjacent_files_meaning :
  forall f t, f < 8 -> t < 64 ->
  N.testbit (adjacent_files_bb f) t = (Z.abs (fileZ t - Z.of_N f) =? 1)%Z.
Print Assumptions C16_adjacent_files_meaning.

Theorem C16_edges_meaning :
  forall t, t < 64 ->
  N.testbit edges_bb t = ((N.land t 7 =? 0) || (N.land t 7 =? 7) || (N.shiftr t 3 =? 0) || (N.shiftr t 3 =? 7)).
Proof. exact TablesMeaning.edges_meaning. Qed.
Check C16_edges_meaning :
  forall t, t < 64 ->
  N.testbit edges_bb t = ((N.land t 7 =? 0) || (N.land t 7 =? 7) || (N.shiftr t 3 =? 0) || (N.shiftr t 3 =? 7)).
Print Assumptions C16_edges_meaning.

Theorem C16_G_FILES_meaning :
  forall f t, f < 8 -> t < 64 -> N.testbit (nthN G_FILES f 0) t = (N.land t 7 =? f).
Proof. exact TablesMeaning.G_FILES_meaning. Qed.
Check C16_G_FILES_meaning :
  forall f t, f < 8 -> t < 64 -> N.testbit (nthN G_FILES f 0) t = (N.land t 7 =? f).
Print Assumptions C16_G_FILES_meaning.

Theorem C16_G_RANKS_meaning :
  forall r t, r < 8 -> t < 64 -> N.testbit (nthN G_RANKS r 0) t = (N.shiftr t 3 =? r).
Proof. exact TablesMeaning.G_RANKS_meaning. Qed.
Check C16_G_RANKS_meaning :
  forall r t, r < 8 -> t < 64 -> N.testbit (nthN G_RANKS r 0) t = (N.shiftr t 3 =? r).
Print Assumptions C16_G_RANKS_meaning.

Theorem C16_G_ADJACENT_FILES_meaning :
  forall f t, f < 8 -> t < 64 ->
  N.testbit (nthN G_ADJACENT_FILES f 0) t = (Z.abs (fileZ t - Z.of_N f) =? 1)%Z.
Proof. exact TablesMeaning.G_ADJACENT_FILES_meaning. Qed.
Check C16_G_ADJACENT_FILES_meaning :
  forall f t, f < 8 -> t < 64 ->
  N.testbit (nthN G_ADJACENT_FILES f 0) t = (Z.abs (fileZ t - Z.of_N f) =? 1)%Z.
Print Assumptions C16_G_ADJACENT_FILES_meaning.

Theorem C16_G_EDGES_meaning :
  forall t, t < 64 ->
  N.testbit G_EDGES t = ((N.land t 7 =? 0) || (N.land t 7 =? 7) || (N.shiftr t 3 =? 0) || (N.shiftr t 3 =? 7)).
Proof. exact TablesMeaning.G_EDGES_meaning. Qed.
Check C16_G_EDGES_meaning :
  forall t, t < 64 ->
  N.testbit G_EDGES t = ((N.land t 7 =? 0) || (N.land t 7 =? 7) || (N.shiftr t 3 =? 0) || (N.shiftr t 3 =? 7)).
Print Assumptions C16_G_EDGES_meaning.


(** ** 8. every entry is a 64-bit word *)

Theorem C16_king_moves_wf :
  forall s, s < 64 -> wf64 (king_moves s).
Proof. exact TablesMeaning.king_moves_wf. Qed.
Check C16_king_moves_wf :
  forall s, s < 64 -> wf64 (king_moves s).
Print Assumptions C16_king_moves_wf.

Theorem C16_knight_moves_wf :
  forall s, s < 64 -> wf64 (knight_moves s).
Proof. exact TablesMeaning.knight_moves_wf. Qed.
Check C16_knight_moves_wf :
  forall s, s < 64 -> wf64 (knight_moves s).
Print Assumptions C16_knight_moves_wf.

Theorem C16_rook_rays_wf :
  forall s, s < 64 -> wf64 (rook_rays s).
Proof. exact TablesMeaning.rook_rays_wf. Qed.
Check C16_rook_rays_wf :
  forall s, s < 64 -> wf64 (rook_rays s).
Print Assumptions C16_rook_rays_wf.

Theorem C16_bishop_rays_wf :
  forall s, s < 64 -> wf64 (bishop_rays s).
Proof. exact TablesMeaning.bishop_rays_wf. Qed.
Check C16_bishop_rays_wf :
  forall s, s < 64 -> wf64 (bishop_rays s).
Print Assumptions C16_bishop_rays_wf.

Theorem C16_pawn_attack_tab_wf :
  forall c s, s < 64 -> wf64 (pawn_attack_tab c s).
Proof. exact TablesMeaning.pawn_attack_tab_wf. Qed.
Check C16_pawn_attack_tab_wf :
  forall c s, s < 64 -> wf64 (pawn_attack_tab c s).
Print Assumptions C16_pawn_attack_tab_wf.

Theorem C16_pawn_push_tab_wf :
  forall c s, s < 64 -> wf64 (pawn_push_tab c s).
Proof. exact TablesMeaning.pawn_push_tab_wf. Qed.
Check C16_pawn_push_tab_wf :
  forall c s, s < 64 -> wf64 (pawn_push_tab c s).
Print Assumptions C16_pawn_push_tab_wf.

Theorem C16_file_bb_wf :
  forall f, f < 8 -> wf64 (file_bb f).
Proof. exact TablesMeaning.file_bb_wf. Qed.
Check C16_file_bb_wf :
  forall f, f < 8 -> wf64 (file_bb f).
Print Assumptions C16_file_bb_wf.

Theorem C16_rank_bb_wf :
  forall r, r < 8 -> wf64 (rank_bb r).
Proof. exact TablesMeaning.rank_bb_wf. Qed.
Check C16_rank_bb_wf :
  forall r, r < 8 -> wf64 (rank_bb r).
Print Assumptions C16_rank_bb_wf.

Theorem C16_adjacent_files_bb_wf :
  forall f, f < 8 -> wf64 (adjacent_files_bb f).
Proof. exact TablesMeaning.adjacent_files_bb_wf. Qed.
Check C16_adjacent_files_bb_wf :
  forall f, f < 8 -> wf64 (adjacent_files_bb f).
Print Assumptions C16_adjacent_files_bb_wf.

Theorem C16_edges_bb_wf :
  wf64 edges_bb.
Proof. exact TablesMeaning.edges_bb_wf. Qed.
Check C16_edges_bb_wf :
  wf64 edges_bb.
Print Assumptions C16_edges_bb_wf.

Theorem C16_testbit_high :
  forall x c, wf64 x -> 64 <= c -> N.testbit x c = false.
Proof. exact TablesLib.testbit_high. Qed.
Check C16_testbit_high :
  forall x c, wf64 x -> 64 <= c -> N.testbit x c = false.
Print Assumptions C16_testbit_high.

Theorem C16_G_tables_wf :
  Forall wf64 G_KING_MOVES /\ Forall wf64 G_KNIGHT_MOVES /\ Forall wf64 G_RAYS /\
  Forall wf64 G_BETWEEN /\ Forall wf64 G_LINE /\ Forall wf64 G_PAWN_ATTACKS /\
  Forall wf64 G_PAWN_MOVES /\ Forall wf64 G_FILES /\ Forall wf64 G_ADJACENT_FILES /\
  Forall wf64 G_RANKS /\ Forall wf64 G_KINGSIDE_CASTLE_SQUARES /\
  Forall wf64 G_QUEENSIDE_CASTLE_SQUARES /\
  Forall wf64 [G_CASTLE_MOVES; G_PAWN_SOURCE_DOUBLE_MOVES; G_PAWN_DEST_DOUBLE_MOVES; G_EDGES].
Proof. exact TablesMeaning.G_tables_wf. Qed.
Check C16_G_tables_wf :
  Forall wf64 G_KING_MOVES /\ Forall wf64 G_KNIGHT_MOVES /\ Forall wf64 G_RAYS /\
  Forall wf64 G_BETWEEN /\ Forall wf64 G_LINE /\ Forall wf64 G_PAWN_ATTACKS /\
  Forall wf64 G_PAWN_MOVES /\ Forall wf64 G_FILES /\ Forall wf64 G_ADJACENT_FILES /\
  Forall wf64 G_RANKS /\ Forall wf64 G_KINGSIDE_CASTLE_SQUARES /\
  Forall wf64 G_QUEENSIDE_CASTLE_SQUARES /\
  Forall wf64 [G_CASTLE_MOVES; G_PAWN_SOURCE_DOUBLE_MOVES; G_PAWN_DEST_DOUBLE_MOVES; G_EDGES].
Print Assumptions C16_G_tables_wf.

Theorem C16_G_tables_length :
  length G_KING_MOVES = 64%nat /\ length G_KNIGHT_MOVES = 64%nat /\ length G_RAYS = 128%nat /\
  length G_BETWEEN = 4096%nat /\ length G_LINE = 4096%nat /\ length G_PAWN_ATTACKS = 128%nat /\
  length G_PAWN_MOVES = 128%nat /\ length G_FILES = 8%nat /\ length G_ADJACENT_FILES = 8%nat /\
  length G_RANKS = 8%nat /\ length G_KINGSIDE_CASTLE_SQUARES = 2%nat /\
  length G_QUEENSIDE_CASTLE_SQUARES = 2%nat.
Proof. exact TablesMeaning.G_tables_length. Qed.
Check C16_G_tables_length :
  length G_KING_MOVES = 64%nat /\ length G_KNIGHT_MOVES = 64%nat /\ length G_RAYS = 128%nat /\
  length G_BETWEEN = 4096%nat /\ length G_LINE = 4096%nat /\ length G_PAWN_ATTACKS = 128%nat /\
  length G_PAWN_MOVES = 128%nat /\ length G_FILES = 8%nat /\ length G_ADJACENT_FILES = 8%nat /\
  length G_RANKS = 8%nat /\ length G_KINGSIDE_CASTLE_SQUARES = 2%nat /\
  length G_QUEENSIDE_CASTLE_SQUARES = 2%nat.
Print Assumptions C16_G_tables_length.
