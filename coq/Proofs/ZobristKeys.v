(** * Proofs.ZobristKeys — facts about the (regenerated) Zobrist key tables, each obtained by a
    complete sweep over the translated tables [Gen.Zobrist] and lifted to a bounded ∀.
    The tables are only ever referred to by name. *)
From Coq Require Import NArith List Bool Lia ZifyBool ZifyN ZifyNat.
From Chess Require Import Base.Bits Spec.Rules Gen.Zobrist Model.Board.
Import ListNotations.
Open Scope N_scope.

Arguments N.add : simpl never.
Arguments N.sub : simpl never.
Arguments N.mul : simpl never.
Arguments N.shiftl : simpl never.
Arguments N.shiftr : simpl never.
Arguments N.land : simpl never.
Arguments N.lor : simpl never.
Arguments N.lxor : simpl never.
Arguments N.testbit : simpl never.
Arguments N.eqb : simpl never.
Arguments N.ltb : simpl never.
Arguments N.leb : simpl never.

(** ** generic reflection helpers *)
Definition upto (n:nat) : list N := map N.of_nat (seq 0 n).

Lemma In_upto n i : i < N.of_nat n -> In i (upto n).
Proof.
  intro H. unfold upto. apply in_map_iff. exists (N.to_nat i). split.
  - apply N2Nat.id.
  - apply in_seq. lia.
Qed.

Lemma all_sq_upto : all_sq = upto 64.
Proof. reflexivity. Qed.

Lemma In_all_sq s : In s all_sq <-> s < 64.
Proof.
  split.
  - rewrite all_sq_upto. unfold upto. intro H. apply in_map_iff in H.
    destruct H as [k [Hk Hin]]. apply in_seq in Hin. lia.
  - intro H. rewrite all_sq_upto. apply In_upto. exact H.
Qed.

Fixpoint nodupb (l:list N) : bool :=
  match l with [] => true | x :: xs => negb (existsb (N.eqb x) xs) && nodupb xs end.

Lemma nodupb_NoDup l : nodupb l = true -> NoDup l.
Proof.
  induction l as [|x xs IH]; intro H.
  - constructor.
  - cbn [nodupb] in H. apply andb_true_iff in H. destruct H as [Hx Hxs].
    constructor.
    + intro Hin. apply negb_true_iff in Hx.
      assert (Hex : existsb (N.eqb x) xs = true).
      { apply existsb_exists. exists x. split; [exact Hin | apply N.eqb_refl]. }
      congruence.
    + apply IH. exact Hxs.
Qed.

Lemma nthN_In (l:list N) i d : (N.to_nat i < length l)%nat -> In (nthN l i d) l.
Proof. intro H. unfold nthN. apply nth_In. exact H. Qed.

Lemma forallb_nthN (P:N->bool) l i d :
  forallb P l = true -> (N.to_nat i < length l)%nat -> P (nthN l i d) = true.
Proof.
  intros H Hi. rewrite forallb_forall in H. apply H. apply nthN_In. exact Hi.
Qed.

Lemma nodupb_nthN_inj l i j d :
  nodupb l = true -> (N.to_nat i < length l)%nat -> (N.to_nat j < length l)%nat ->
  nthN l i d = nthN l j d -> i = j.
Proof.
  intros H Hi Hj Heq. apply nodupb_NoDup in H.
  apply N2Nat.inj. unfold nthN in Heq.
  exact (proj1 (NoDup_nth l d) H _ _ Hi Hj Heq).
Qed.

(** ** the sweeps (each runs once in the VM, at [Qed]) *)
Lemma len_pieces : length Z_PIECES = 768%nat.
Proof. vm_cast_no_check (eq_refl 768%nat). Qed.
Lemma len_castles : length Z_CASTLES = 8%nat.
Proof. vm_cast_no_check (eq_refl 8%nat). Qed.
Lemma len_ep : length Z_EP = 16%nat.
Proof. vm_cast_no_check (eq_refl 16%nat). Qed.

Definition nonzerob (x:N) : bool := negb (x =? 0).
Definition wf64b (x:N) : bool := x <? 18446744073709551616.

Lemma sweep_pieces_nonzero : forallb nonzerob Z_PIECES = true.
Proof. vm_cast_no_check (eq_refl true). Qed.
(** 768 keys pairwise distinct: 768*767/2 comparisons *)
Lemma sweep_pieces_nodup : nodupb Z_PIECES = true.
Proof. vm_cast_no_check (eq_refl true). Qed.
Lemma sweep_pieces_wf : forallb wf64b Z_PIECES = true.
Proof. vm_cast_no_check (eq_refl true). Qed.
Lemma sweep_castles_wf : forallb wf64b Z_CASTLES = true.
Proof. vm_cast_no_check (eq_refl true). Qed.
Lemma sweep_ep_wf : forallb wf64b Z_EP = true.
Proof. vm_cast_no_check (eq_refl true). Qed.
Lemma sweep_side_wf : wf64b Z_SIDE = true.
Proof. vm_cast_no_check (eq_refl true). Qed.
Lemma sweep_side_nonzero : nonzerob Z_SIDE = true.
Proof. vm_cast_no_check (eq_refl true). Qed.

Lemma sweep_castles_distinct :
  forallb (fun c => forallb (fun r => forallb (fun r' =>
     (r =? r') || negb (nthN Z_CASTLES (c*4+r) 0 =? nthN Z_CASTLES (c*4+r') 0))
     (upto 4)) (upto 4)) (upto 2) = true.
Proof. vm_cast_no_check (eq_refl true). Qed.

Lemma sweep_ep_nonzero :
  forallb (fun c => forallb (fun f => nonzerob (nthN Z_EP (c*8+f) 0)) (upto 8)) (upto 2) = true.
Proof. vm_cast_no_check (eq_refl true). Qed.

Lemma sweep_ep_distinct :
  forallb (fun c => forallb (fun f => forallb (fun f' =>
     (f =? f') || negb (nthN Z_EP (c*8+f) 0 =? nthN Z_EP (c*8+f') 0))
     (upto 8)) (upto 8)) (upto 2) = true.
Proof. vm_cast_no_check (eq_refl true). Qed.

(** flipping the side to move with an en-passant file [f] present toggles three keys at once *)
Lemma sweep_side_ep_nocancel :
  forallb (fun f => nonzerob (N.lxor Z_SIDE (N.lxor (nthN Z_EP f 0) (nthN Z_EP (8+f) 0)))) (upto 8) = true.
Proof. vm_cast_no_check (eq_refl true). Qed.

(** ** lifted to bounded ∀, on the raw tables *)
Lemma nonzerob_spec x : nonzerob x = true <-> x <> 0.
Proof. unfold nonzerob. rewrite negb_true_iff, N.eqb_neq. tauto. Qed.
Lemma wf64b_spec x : wf64b x = true <-> wf64 x.
Proof. unfold wf64b, wf64. apply N.ltb_lt. Qed.

Theorem Z_PIECES_nonzero i : i < 768 -> nthN Z_PIECES i 0 <> 0.
Proof.
  intro H. apply nonzerob_spec. apply forallb_nthN; [exact sweep_pieces_nonzero|].
  rewrite len_pieces. lia.
Qed.

Theorem Z_PIECES_distinct i j : i < 768 -> j < 768 -> i <> j -> nthN Z_PIECES i 0 <> nthN Z_PIECES j 0.
Proof.
  intros Hi Hj Hne Heq. apply Hne.
  apply (nodupb_nthN_inj Z_PIECES i j 0 sweep_pieces_nodup); [rewrite len_pieces; lia|rewrite len_pieces; lia|exact Heq].
Qed.

Theorem Z_PIECES_wf i : wf64 (nthN Z_PIECES i 0).
Proof.
  destruct (N.ltb_spec i 768) as [H|H].
  - apply wf64b_spec. apply forallb_nthN; [exact sweep_pieces_wf|]. rewrite len_pieces. lia.
  - unfold nthN. rewrite nth_overflow; [reflexivity|]. rewrite len_pieces. lia.
Qed.

Theorem Z_CASTLES_wf i : wf64 (nthN Z_CASTLES i 0).
Proof.
  destruct (N.ltb_spec i 8) as [H|H].
  - apply wf64b_spec. apply forallb_nthN; [exact sweep_castles_wf|]. rewrite len_castles. lia.
  - unfold nthN. rewrite nth_overflow; [reflexivity|]. rewrite len_castles. lia.
Qed.

Theorem Z_EP_wf i : wf64 (nthN Z_EP i 0).
Proof.
  destruct (N.ltb_spec i 16) as [H|H].
  - apply wf64b_spec. apply forallb_nthN; [exact sweep_ep_wf|]. rewrite len_ep. lia.
  - unfold nthN. rewrite nth_overflow; [reflexivity|]. rewrite len_ep. lia.
Qed.

Theorem Z_SIDE_wf : wf64 Z_SIDE.
Proof. apply wf64b_spec. exact sweep_side_wf. Qed.

Theorem Z_SIDE_nonzero : Z_SIDE <> 0.
Proof. apply nonzerob_spec. exact sweep_side_nonzero. Qed.

Theorem Z_CASTLES_distinct c r r' :
  c < 2 -> r < 4 -> r' < 4 -> r <> r' -> nthN Z_CASTLES (c*4+r) 0 <> nthN Z_CASTLES (c*4+r') 0.
Proof.
  intros Hc Hr Hr' Hne.
  pose proof sweep_castles_distinct as H.
  rewrite forallb_forall in H. specialize (H c (In_upto 2 c Hc)). cbv beta in H.
  rewrite forallb_forall in H. specialize (H r (In_upto 4 r Hr)). cbv beta in H.
  rewrite forallb_forall in H. specialize (H r' (In_upto 4 r' Hr')). cbv beta in H.
  apply orb_true_iff in H. destruct H as [H|H].
  - apply N.eqb_eq in H. contradiction.
  - apply negb_true_iff, N.eqb_neq in H. exact H.
Qed.

Theorem Z_EP_nonzero c f : c < 2 -> f < 8 -> nthN Z_EP (c*8+f) 0 <> 0.
Proof.
  intros Hc Hf.
  pose proof sweep_ep_nonzero as H.
  rewrite forallb_forall in H. specialize (H c (In_upto 2 c Hc)). cbv beta in H.
  rewrite forallb_forall in H. specialize (H f (In_upto 8 f Hf)). cbv beta in H.
  apply nonzerob_spec. exact H.
Qed.

Theorem Z_EP_distinct c f f' :
  c < 2 -> f < 8 -> f' < 8 -> f <> f' -> nthN Z_EP (c*8+f) 0 <> nthN Z_EP (c*8+f') 0.
Proof.
  intros Hc Hf Hf' Hne.
  pose proof sweep_ep_distinct as H.
  rewrite forallb_forall in H. specialize (H c (In_upto 2 c Hc)). cbv beta in H.
  rewrite forallb_forall in H. specialize (H f (In_upto 8 f Hf)). cbv beta in H.
  rewrite forallb_forall in H. specialize (H f' (In_upto 8 f' Hf')). cbv beta in H.
  apply orb_true_iff in H. destruct H as [H|H].
  - apply N.eqb_eq in H. contradiction.
  - apply negb_true_iff, N.eqb_neq in H. exact H.
Qed.

Theorem Z_SIDE_EP_nocancel f :
  f < 8 -> N.lxor Z_SIDE (N.lxor (nthN Z_EP f 0) (nthN Z_EP (8+f) 0)) <> 0.
Proof.
  intro Hf. pose proof sweep_side_ep_nocancel as H.
  rewrite forallb_forall in H. specialize (H f (In_upto 8 f Hf)). cbv beta in H.
  apply nonzerob_spec. exact H.
Qed.

(** ** the same facts, on the accessors of [Model.Board] *)
Lemma cidx_lt c : cidx c < 2.
Proof. destruct c; cbn [cidx]; lia. Qed.
Lemma pidx_lt p : pidx p < 6.
Proof. destruct p; cbn [pidx]; lia. Qed.
Lemma cidx_inj c c' : cidx c = cidx c' -> c = c'.
Proof. destruct c, c'; cbn [cidx]; intro H; first [reflexivity | discriminate H]. Qed.
Lemma pidx_inj p p' : pidx p = pidx p' -> p = p'.
Proof. destruct p, p'; cbn [pidx]; intro H; first [reflexivity | discriminate H]. Qed.

Lemma piece_index_lt p s c : s < 64 -> (cidx c * 6 + pidx p) * 64 + s < 768.
Proof. intro H. pose proof (cidx_lt c). pose proof (pidx_lt p). lia. Qed.

Lemma piece_index_inj p s c p' s' c' :
  s < 64 -> s' < 64 ->
  (cidx c * 6 + pidx p) * 64 + s = (cidx c' * 6 + pidx p') * 64 + s' ->
  p = p' /\ s = s' /\ c = c'.
Proof.
  intros Hs Hs' H.
  pose proof (cidx_lt c). pose proof (pidx_lt p). pose proof (cidx_lt c'). pose proof (pidx_lt p').
  assert (Hc : cidx c = cidx c') by lia.
  assert (Hp : pidx p = pidx p') by lia.
  assert (Hss : s = s') by lia.
  split; [apply pidx_inj; exact Hp | split; [exact Hss | apply cidx_inj; exact Hc]].
Qed.

(** (iv) piece keys: non-zero, pairwise distinct over all (piece, square, colour) *)
Theorem zob_piece_nonzero p s c : s < 64 -> zob_piece p s c <> 0.
Proof. intro H. unfold zob_piece. apply Z_PIECES_nonzero. apply piece_index_lt. exact H. Qed.

Theorem zob_piece_inj p s c p' s' c' :
  s < 64 -> s' < 64 -> zob_piece p s c = zob_piece p' s' c' -> p = p' /\ s = s' /\ c = c'.
Proof.
  intros Hs Hs' Heq. unfold zob_piece in Heq.
  apply piece_index_inj; [exact Hs | exact Hs' |].
  apply (nodupb_nthN_inj Z_PIECES _ _ 0 sweep_pieces_nodup); [| | exact Heq];
    rewrite len_pieces; pose proof (piece_index_lt p s c Hs); pose proof (piece_index_lt p' s' c' Hs'); lia.
Qed.

Theorem zob_piece_xor_nonzero p s c p' c' :
  s < 64 -> (p,c) <> (p',c') -> N.lxor (zob_piece p s c) (zob_piece p' s c') <> 0.
Proof.
  intros Hs Hne H. apply N.lxor_eq in H.
  destruct (zob_piece_inj _ _ _ _ _ _ Hs Hs H) as [Hp [_ Hc]]. apply Hne. congruence.
Qed.

(** (ii) castle keys of one colour *)
Theorem zob_castles_inj r r' c : r < 4 -> r' < 4 -> zob_castles r c = zob_castles r' c -> r = r'.
Proof.
  intros Hr Hr' Heq. destruct (N.eq_dec r r') as [E|E]; [exact E|].
  exfalso. exact (Z_CASTLES_distinct (cidx c) r r' (cidx_lt c) Hr Hr' E Heq).
Qed.

Theorem zob_castles_xor_nonzero r r' c :
  r < 4 -> r' < 4 -> r <> r' -> N.lxor (zob_castles r c) (zob_castles r' c) <> 0.
Proof. intros Hr Hr' Hne H. apply N.lxor_eq in H. apply Hne. exact (zob_castles_inj r r' c Hr Hr' H). Qed.

(** (iii) en-passant keys of one colour *)
Theorem zob_ep_nonzero f c : f < 8 -> zob_ep f c <> 0.
Proof. intro Hf. unfold zob_ep. apply Z_EP_nonzero; [apply cidx_lt | exact Hf]. Qed.

Theorem zob_ep_inj f f' c : f < 8 -> f' < 8 -> zob_ep f c = zob_ep f' c -> f = f'.
Proof.
  intros Hf Hf' Heq. destruct (N.eq_dec f f') as [E|E]; [exact E|].
  exfalso. exact (Z_EP_distinct (cidx c) f f' (cidx_lt c) Hf Hf' E Heq).
Qed.

Theorem zob_ep_xor_nonzero f f' c :
  f < 8 -> f' < 8 -> f <> f' -> N.lxor (zob_ep f c) (zob_ep f' c) <> 0.
Proof. intros Hf Hf' Hne H. apply N.lxor_eq in H. apply Hne. exact (zob_ep_inj f f' c Hf Hf' H). Qed.

(** (i) side to move *)
Theorem zob_color_nonzero : zob_color <> 0.
Proof. exact Z_SIDE_nonzero. Qed.

Theorem zob_side_ep_nocancel f c :
  f < 8 -> N.lxor zob_color (N.lxor (zob_ep f c) (zob_ep f (opp c))) <> 0.
Proof.
  intro Hf. pose proof (Z_SIDE_EP_nocancel f Hf) as H.
  unfold zob_color, zob_ep. destruct c; cbn [opp cidx].
  - change (0 * 8 + f) with (0 + f). change (1 * 8 + f) with (8 + f).
    rewrite N.add_0_l. exact H.
  - change (0 * 8 + f) with (0 + f). change (1 * 8 + f) with (8 + f).
    rewrite N.add_0_l. rewrite (N.lxor_comm (nthN Z_EP (8 + f) 0)). exact H.
Qed.

(** all keys are 64-bit words *)
Theorem zob_piece_wf p s c : wf64 (zob_piece p s c).
Proof. apply Z_PIECES_wf. Qed.
Theorem zob_castles_wf r c : wf64 (zob_castles r c).
Proof. apply Z_CASTLES_wf. Qed.
Theorem zob_ep_wf f c : wf64 (zob_ep f c).
Proof. apply Z_EP_wf. Qed.
Theorem zob_color_wf : wf64 zob_color.
Proof. exact Z_SIDE_wf. Qed.
