(** * Proofs.GenSafeAttack — specification-level description of attacks, checkers and pinned
    men of an arbitrary position in terms of [between] and the occupancy word of the position:
    a man on [a] attacks [k] iff it "reaches" [k] geometrically and no occupied square lies
    between [a] and [k]. *)
From Coq Require Import Lia ZifyBool ZifyN ZifyNat.
From Chess Require Import Base.Bits Spec.Geometry Spec.Rules Model.Board.
From Chess Require Import Proofs.BitsFacts Proofs.WalkDep Proofs.TablesLib Proofs.TablesEq
                          Proofs.TablesMeaning Proofs.AbsBoard Proofs.CanonAttack
                          Proofs.CanonPinned Proofs.GenSafeGeom.
Open Scope N_scope.

(** ** the occupancy word of a position *)
(** sealed behind an opaque proof so that no conversion ever unfolds it on a symbolic position *)
Definition occw_sig (p:pos) : {w : N | w = bb_of (occ p)}.
Proof. exists (bb_of (occ p)). reflexivity. Qed.
Definition occw (p:pos) : N := proj1_sig (occw_sig p).
Lemma occw_eq p : occw p = bb_of (occ p).
Proof. exact (proj2_sig (occw_sig p)). Qed.
Lemma occw_spec p x : x < 64 -> occ p x = N.testbit (occw p) x.
Proof. intro Hx. rewrite occw_eq. symmetry. apply bb_of_testbit_lt, Hx. Qed.

(** the man [x] standing on [a] would attack [t] on an empty board *)
Definition reach (x:option (ptype*color)) (a t:N) : bool :=
  match x with
  | None => false
  | Some (Pawn,c) => N.testbit (pawn_attack_tab (is_white c) a) t
  | Some (Knight,_) => N.testbit (knight_moves a) t
  | Some (King,_) => N.testbit (king_moves a) t
  | Some (Bishop,_) => aligned_d a t
  | Some (Rook,_) => aligned_o a t
  | Some (Queen,_) => aligned_o a t || aligned_d a t
  end.
Definition is_slider (t:ptype) : bool :=
  match t with Bishop | Rook | Queen => true | _ => false end.

Lemma reach_nonslider t c a k : a < 64 -> k < 64 -> is_slider t = false ->
  reach (Some (t,c)) a k = true -> between a k = 0.
Proof.
  intros Ha Hk Ht Hr. apply (step_between a k Ha Hk).
  destruct t; try discriminate Ht; cbn [reach] in Hr.
  - right. right. exists (is_white c). exact Hr.
  - left. exact Hr.
  - right. left. exact Hr.
Qed.

Lemma mem_slides_rook p a t : a < 64 -> t < 64 ->
  mem t (slides p a rook_dirs) = aligned_o a t && (N.land (between a t) (occw p) =? 0).
Proof.
  intros Ha Ht. rewrite <- (rook_walk_between a t (occw p) Ha Ht). apply eq_true_iff_eq.
  rewrite mem_in. apply (slides_slide p (occw p) (occw_spec p) rook_dirs a t Ha).
Qed.
Lemma mem_slides_bishop p a t : a < 64 -> t < 64 ->
  mem t (slides p a bishop_dirs) = aligned_d a t && (N.land (between a t) (occw p) =? 0).
Proof.
  intros Ha Ht. rewrite <- (bishop_walk_between a t (occw p) Ha Ht). apply eq_true_iff_eq.
  rewrite mem_in. apply (slides_slide p (occw p) (occw_spec p) bishop_dirs a t Ha).
Qed.
Lemma mem_app x l1 l2 : mem x (l1 ++ l2) = mem x l1 || mem x l2.
Proof. unfold mem. apply existsb_app. Qed.

(** the attack relation of any position *)
Theorem attacks_reach p a t : a < 64 -> t < 64 ->
  attacks p a t = reach (at_ p a) a t && (N.land (between a t) (occw p) =? 0).
Proof.
  intros Ha Ht. unfold attacks, attack_set.
  destruct (steps_facts a t Ha Ht) as [Hn [Hk [_ [_ Hp]]]].
  destruct (at_ p a) as [[ty c]|] eqn:E; [|reflexivity].
  assert (NS : is_slider ty = false -> forall v, reach (Some (ty,c)) a t = v ->
               v = v && (N.land (between a t) (occw p) =? 0)).
  { intros Hty v Hv. destruct v; [|reflexivity].
    rewrite (reach_nonslider ty c a t Ha Ht Hty Hv), N.land_0_l. reflexivity. }
  destruct ty; cbn [reach].
  - destruct (Hp c) as [-> _]. apply (NS eq_refl). reflexivity.
  - rewrite Hn. apply (NS eq_refl). reflexivity.
  - apply mem_slides_bishop; assumption.
  - apply mem_slides_rook; assumption.
  - unfold king_dirs. rewrite slides_app, mem_app, (mem_slides_rook p a t Ha Ht),
      (mem_slides_bishop p a t Ha Ht).
    destruct (aligned_o a t), (aligned_d a t), (N.land (between a t) (occw p) =? 0); reflexivity.
  - rewrite Hk. apply (NS eq_refl). reflexivity.
Qed.

(** ** attackers as an existential *)
Lemma attackers_in p c k a :
  In a (attackers p c k) <-> a < 64 /\ own p c a = true /\ attacks p a k = true.
Proof.
  unfold attackers. rewrite filter_In, in_all_sq, andb_true_iff. tauto.
Qed.
Lemma attacked_by_iff p c k :
  attacked_by p c k = true <-> exists a, a < 64 /\ own p c a = true /\ attacks p a k = true.
Proof.
  unfold attacked_by. split.
  - destruct (attackers p c k) as [|a l] eqn:E; [discriminate|]. intros _.
    exists a. apply (proj1 (attackers_in p c k a)). rewrite E. left. reflexivity.
  - intros [a Ha]. apply (proj2 (attackers_in p c k a)) in Ha.
    destruct (attackers p c k); [destruct Ha|reflexivity].
Qed.

Lemma own_at p c a : own p c a = true <-> exists t, at_ p a = Some (t,c).
Proof.
  unfold own, colour_at. destruct (at_ p a) as [[t c']|].
  - split.
    + intro H. exists t. destruct c, c'; try discriminate H; reflexivity.
    + intros [t' H]. injection H as _ Hc. rewrite Hc. destruct c; reflexivity.
  - split; [discriminate|intros [t H]; discriminate H].
Qed.
Lemma occ_at p a x : at_ p a = Some x -> occ p a = true.
Proof. unfold occ. intros ->. reflexivity. Qed.
Lemma opp_neq c : opp c <> c.
Proof. destruct c; discriminate. Qed.

(** [Att p c k a]: an enemy (colour [c]) man on [a] reaches [k] *)
Definition Att (p:pos) (c:color) (k a:N) : Prop :=
  a < 64 /\ exists t, at_ p a = Some (t,c) /\ reach (Some (t,c)) a k = true.

Theorem attackers_att p c k a : k < 64 ->
  (In a (attackers p c k) <-> Att p c k a /\ N.land (between a k) (occw p) = 0).
Proof.
  intro Hk. rewrite attackers_in. unfold Att. split.
  - intros [Ha [Ho Hat]]. apply own_at in Ho. destruct Ho as [t Ht].
    rewrite (attacks_reach p a k Ha Hk), Ht in Hat. apply andb_prop in Hat.
    destruct Hat as [H1 H2]. apply N.eqb_eq in H2.
    split; [split; [exact Ha|exists t; split; assumption]|exact H2].
  - intros [[Ha [t [Ht Hr]]] H0]. split; [exact Ha|]. split; [apply own_at; exists t; exact Ht|].
    rewrite (attacks_reach p a k Ha Hk), Ht, Hr, H0. reflexivity.
Qed.

(** ** king square *)
Lemma king_sq_some p c k : king_sq p c = Some k -> k < 64 /\ at_ p k = Some (King,c).
Proof.
  unfold king_sq. intro H. apply find_some in H. destruct H as [Hin Hh].
  split; [apply in_all_sq, Hin|]. unfold has in Hh.
  destruct (at_ p k) as [[t c']|]; [|discriminate Hh]. apply andb_prop in Hh. destruct Hh as [H1 H2].
  destruct t; try discriminate H1. destruct c, c'; try discriminate H2; reflexivity.
Qed.
Lemma find_none_filter {A} (f:A->bool) l : find f l = None -> filter f l = [].
Proof.
  induction l as [|x xs IH]; cbn [find filter]; [reflexivity|].
  destruct (f x); [discriminate|exact IH].
Qed.
Lemma kings_king_sq p c : kings p c = 1 -> exists k, king_sq p c = Some k.
Proof.
  unfold kings, count_if, king_sq. intro H.
  destruct (find (fun s => has p s King c) all_sq) as [k|] eqn:E; [exists k; reflexivity|].
  rewrite (find_none_filter _ _ E) in H. discriminate H.
Qed.

(** ** first occupied square of a ray, with the occupancy word of the position *)
Lemma first_occ_between_g p s d a : s < 64 -> In d king_dirs ->
  (first_occ p s d 7 = Some a <->
   a < 64 /\ on_dir s a d = true /\ N.land (between s a) (occw p) = 0 /\ N.testbit (occw p) a = true).
Proof.
  intros Hs Hd. rewrite first_occ_ray. split.
  - intros [Hin Ho]. pose proof (ray_lt64 p d 7 s a Hs Hin) as Ha.
    apply (ray_walk p (occw p) (occw_spec p) d 7 s a Hs) in Hin.
    rewrite (walk_between d s a (occw p) Hd Hs Ha) in Hin. apply andb_prop in Hin.
    destruct Hin as [H1 H2]. apply N.eqb_eq in H2. rewrite (occw_spec p a Ha) in Ho. tauto.
  - intros [Ha [H1 [H2 H3]]]. split; [|rewrite (occw_spec p a Ha); exact H3].
    apply (ray_walk p (occw p) (occw_spec p) d 7 s a Hs).
    rewrite (walk_between d s a (occw p) Hd Hs Ha), H1, H2. reflexivity.
Qed.

(** the segment from [k] to [sq] through [a] holds exactly [a] *)
Lemma seg_single w k d a sq : In d king_dirs -> k < 64 -> a < 64 -> sq < 64 ->
  on_dir k a d = true -> on_dir a sq d = true ->
  (N.land (between sq k) w = bit a <->
   N.land (between k a) w = 0 /\ N.testbit w a = true /\ N.land (between a sq) w = 0).
Proof.
  intros Hd Hk Ha Hsq H1 H2. destruct (ray_trans d k a sq Hd Hk H1 H2) as [_ Hbt].
  destruct (between_ends k a Hk Ha) as [_ He1]. destruct (between_ends a sq Ha Hsq) as [He2 _].
  rewrite Hbt. split.
  - intro H.
    assert (Hbits : forall i, (N.testbit (between k a) i || (a =? i) || N.testbit (between a sq) i)
                              && N.testbit w i = (a =? i)).
    { intro i. rewrite <- (TablesLib.testbit_bit a i) at 2. rewrite <- H.
      rewrite N.land_spec, !N.lor_spec, TablesLib.testbit_bit. reflexivity. }
    split; [|split].
    + apply land_eq0_bits. intros i Hi. specialize (Hbits i). rewrite Hi in Hbits.
      cbn [orb andb] in Hbits. destruct (N.eqb_spec a i) as [Eai|_]; [subst i; congruence|exact Hbits].
    + specialize (Hbits a). rewrite N.eqb_refl, orb_true_r in Hbits. exact Hbits.
    + apply land_eq0_bits. intros i Hi. specialize (Hbits i). rewrite Hi, orb_true_r in Hbits.
      cbn [andb] in Hbits. destruct (N.eqb_spec a i) as [Eai|_]; [subst i; congruence|exact Hbits].
  - intros [G1 [G2 G3]]. apply N.bits_inj. intro i.
    rewrite N.land_spec, !N.lor_spec, !TablesLib.testbit_bit.
    pose proof (land0_bits _ _ G1 i) as B1. pose proof (land0_bits _ _ G3 i) as B3.
    destruct (N.eqb_spec a i) as [<-|_].
    + rewrite G2, orb_true_r. reflexivity.
    + rewrite orb_false_r.
      destruct (N.testbit (between k a) i), (N.testbit (between a sq) i), (N.testbit w i);
        cbn [andb orb] in B1, B3 |- *; congruence.
Qed.

Lemma slider_along_at p c o sq : slider_along p c o sq = true <->
  exists t, at_ p sq = Some (t,c) /\ (t = Queen \/ (o = true /\ t = Rook) \/ (o = false /\ t = Bishop)).
Proof.
  unfold slider_along, has. destruct (at_ p sq) as [[t c']|].
  - split.
    + intro H. assert (Hc : color_eqb c c' = true).
      { destruct (color_eqb c c'); [reflexivity|]. rewrite !andb_false_r in H. destruct o; discriminate H. }
      assert (c' = c) by (destruct c, c'; try discriminate Hc; reflexivity). subst c'.
      exists t. split; [reflexivity|]. rewrite Hc, !andb_true_r in H.
      destruct t, o; cbn in H; try discriminate H; tauto.
    + intros [t' [E H]]. injection E as Et Ec. subst t' c'.
      assert (Hc : color_eqb c c = true) by (destruct c; reflexivity). rewrite Hc, !andb_true_r.
      destruct H as [->|[[-> ->]|[-> ->]]]; reflexivity.
  - split; [destruct o; discriminate|intros [t [E _]]; discriminate E].
Qed.

(** ** the pinned men *)
Theorem pinned_iff p k s : king_sq p (turn p) = Some k ->
  (In s (pinned_of p) <->
   own p (turn p) s = true /\ exists a, Att p (opp (turn p)) k a /\ N.land (between a k) (occw p) = bit s).
Proof.
  intro Hks. destruct (king_sq_some p _ k Hks) as [Hk _].
  unfold pinned_of. rewrite Hks. fold dirs8. rewrite in_flat_map. split.
  - intros [[o d] [Hod H]].
    destruct (first_occ p k d 7) as [a'|] eqn:E1; [|destruct H].
    destruct (own p (turn p) a') eqn:E2; [|destruct H].
    destruct (first_occ p a' d 7) as [sq|] eqn:E3; [|destruct H].
    destruct (slider_along p (opp (turn p)) o sq) eqn:E4; [|destruct H].
    destruct H as [<-|[]]. split; [exact E2|].
    assert (Hd : In d king_dirs) by (apply king_dirs_split; apply dirs8_in in Hod; tauto).
    apply (first_occ_between_g p k d a' Hk Hd) in E1. destruct E1 as [Ha' [H1 [G1 G2]]].
    apply (first_occ_between_g p a' d sq Ha' Hd) in E3. destruct E3 as [Hsq [H2 [G3 G4]]].
    destruct (ray_trans d k a' sq Hd Hk H1 H2) as [H3 _].
    exists sq. split.
    + split; [exact Hsq|]. apply slider_along_at in E4. destruct E4 as [t [Et Ht]].
      exists t. split; [exact Et|].
      destruct (aligned_facts k sq Hk Hsq) as [Ao [Ad [So [Sd _]]]].
      assert (Hex : forall ds, In d ds -> existsb (on_dir k sq) ds = true)
        by (intros ds Hin; apply existsb_exists; exists d; split; assumption).
      apply dirs8_in in Hod.
      destruct Hod as [[-> Hr]|[-> Hbi]].
      * assert (aligned_o sq k = true) as Al by (rewrite <- So, Ao; apply Hex, Hr).
        destruct Ht as [->|[[_ ->]|[Ho _]]]; [| |discriminate Ho]; cbn [reach]; rewrite Al; reflexivity.
      * assert (aligned_d sq k = true) as Al by (rewrite <- Sd, Ad; apply Hex, Hbi).
        destruct Ht as [->|[[Ho _]|[_ ->]]]; [|discriminate Ho|]; cbn [reach]; rewrite Al;
          rewrite ?orb_true_r; reflexivity.
    + apply (seg_single (occw p) k d a' sq Hd Hk Ha' Hsq H1 H2). tauto.
  - intros [Hown [a [[Ha [t [Et Hr]]] Hb]]].
    assert (Hta : N.testbit (between a k) s = true).
    { assert (H : N.testbit (N.land (between a k) (occw p)) s = true)
        by (rewrite Hb, TablesLib.testbit_bit; apply N.eqb_refl).
      rewrite N.land_spec in H. apply andb_prop in H. exact (proj1 H). }
    pose proof (between_lt64 a k s Ha Hk Hta) as Hs.
    destruct (between_ray k a s Hk Ha Hta) as [d [Hd [H1 H2]]].
    destruct (ray_trans d k s a Hd Hk H1 H2) as [H3 _].
    destruct (proj1 (seg_single (occw p) k d s a Hd Hk Hs Ha H1 H2) Hb) as [G1 [G2 G3]].
    assert (Hsl : is_slider t = true).
    { destruct (is_slider t) eqn:Es; [reflexivity|exfalso].
      rewrite (reach_nonslider t _ a k Ha Hk Es Hr), N.land_0_l in Hb.
      symmetry in Hb. exact (bit_nonzero s Hb). }
    destruct (aligned_facts k a Hk Ha) as [Ao [Ad [So [Sd Ax]]]].
    assert (Hex : forall ds, In d ds -> existsb (on_dir k a) ds = true)
      by (intros ds Hin; apply existsb_exists; exists d; split; assumption).
    assert (Ho : exists o, In (o,d) dirs8 /\
                 (t = Queen \/ (o = true /\ t = Rook) \/ (o = false /\ t = Bishop))).
    { apply king_dirs_split in Hd. destruct Hd as [Hr'|Hbi].
      - exists true. split; [apply dirs8_in; left; split; [reflexivity|exact Hr']|].
        assert (Al : aligned_o k a = true) by (rewrite Ao; apply Hex, Hr').
        rewrite Al in Ax. cbn [andb] in Ax.
        destruct t; try discriminate Hsl; cbn [reach] in Hr; [|tauto|tauto].
        rewrite <- Sd, Ax in Hr. discriminate Hr.
      - exists false. split; [apply dirs8_in; right; split; [reflexivity|exact Hbi]|].
        assert (Al : aligned_d k a = true) by (rewrite Ad; apply Hex, Hbi).
        rewrite Al, andb_true_r in Ax.
        destruct t; try discriminate Hsl; cbn [reach] in Hr; [tauto| |tauto].
        rewrite <- So, Ax in Hr. discriminate Hr. }
    destruct Ho as [o [Hod Hty]]. exists (o,d). split; [exact Hod|].
    rewrite (proj2 (first_occ_between_g p k d s Hk Hd)) by tauto.
    rewrite Hown.
    rewrite (proj2 (first_occ_between_g p s d a Hs Hd)).
    + rewrite (proj2 (slider_along_at p (opp (turn p)) o a)); [left; reflexivity|].
      exists t. split; [exact Et|exact Hty].
    + split; [exact Ha|]. split; [exact H2|]. split; [exact G3|].
      rewrite <- (occw_spec p a Ha). exact (occ_at p a _ Et).
Qed.

(** ** the checkers *)
Theorem checkers_iff p k a : king_sq p (turn p) = Some k ->
  (In a (checkers_of p) <-> Att p (opp (turn p)) k a /\ N.land (between a k) (occw p) = 0).
Proof.
  intro Hks. destruct (king_sq_some p _ k Hks) as [Hk _].
  unfold checkers_of. rewrite Hks. apply attackers_att, Hk.
Qed.
Lemma checkers_NoDup p : NoDup (checkers_of p).
Proof.
  unfold checkers_of. destruct (king_sq p (turn p)); [|constructor].
  unfold attackers. apply NoDup_filter, NoDup_all_sq.
Qed.

Example attacks_reach_ex :
  attacks startpos 1 18 = true /\ reach (at_ startpos 1) 1 18 = true /\
  attacks startpos 0 16 = false /\ reach (at_ startpos 0) 0 16 = true /\
  N.land (between 0 16) (occw startpos) = bit 8.
Proof. rewrite occw_eq. vm_compute. auto. Qed.
Example pinned_iff_ex :
  king_sq pinpos (turn pinpos) = Some 4 /\ pinned_of pinpos = [12] /\
  N.land (between 60 4) (occw pinpos) = bit 12.
Proof. rewrite occw_eq. vm_compute. auto. Qed.
