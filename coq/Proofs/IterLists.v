(** * Proofs.IterLists — list lemmas ([upd], [nth], [skipn], [firstn], permutations, filters)
    for the move-iterator proofs (C14). *)
From Coq Require Import NArith List Bool Lia ZifyBool ZifyN ZifyNat Permutation.
From Chess Require Import Base.Bits Spec.Rules.
Import ListNotations.

Section Upd.
Context {A:Type}.
Implicit Types (l:list A) (x d:A).

Lemma upd_length : forall l i x, length (upd l i x) = length l.
Proof. induction l as [|h t IH]; intros [|i] x; cbn [upd length]; auto. Qed.

Lemma nth_upd : forall l i k x d, (i < length l)%nat ->
  nth k (upd l i x) d = if Nat.eqb k i then x else nth k l d.
Proof.
  induction l as [|h t IH]; intros i k x d Hi; cbn [length] in Hi; [lia|].
  destruct i as [|i], k as [|k]; cbn [upd nth Nat.eqb]; auto.
  apply IH. lia.
Qed.

Lemma skipn_nth : forall l i d, (i < length l)%nat -> skipn i l = nth i l d :: skipn (S i) l.
Proof.
  induction l as [|h t IH]; intros i d Hi; cbn [length] in Hi; [lia|].
  destruct i as [|i]; [reflexivity|].
  change (skipn (S i) (h::t)) with (skipn i t). change (skipn (S (S i)) (h::t)) with (skipn (S i) t).
  cbn [nth]. apply IH. lia.
Qed.

Lemma skipn_upd_same : forall l i x, (i < length l)%nat -> skipn i (upd l i x) = x :: skipn (S i) l.
Proof.
  induction l as [|h t IH]; intros i x Hi; cbn [length] in Hi; [lia|].
  destruct i as [|i]; [reflexivity|].
  cbn [upd]. change (skipn (S i) (h :: upd t i x)) with (skipn i (upd t i x)).
  change (skipn (S (S i)) (h::t)) with (skipn (S i) t). apply IH. lia.
Qed.

Lemma skipn_upd_after : forall l i k x, (i < k)%nat -> skipn k (upd l i x) = skipn k l.
Proof.
  induction l as [|h t IH]; intros i k x Hik.
  - destruct i; reflexivity.
  - destruct k as [|k]; [lia|]. destruct i as [|i]; cbn [upd]; [reflexivity|].
    change (skipn (S k) (h :: upd t i x)) with (skipn k (upd t i x)).
    change (skipn (S k) (h :: t)) with (skipn k t). apply IH. lia.
Qed.

Lemma firstn_upd : forall l i x, firstn i (upd l i x) = firstn i l.
Proof.
  induction l as [|h t IH]; intros [|i] x; cbn [upd firstn]; auto. f_equal. apply IH.
Qed.

Lemma firstn_S_upd : forall l i x, (i < length l)%nat -> firstn (S i) (upd l i x) = firstn i l ++ [x].
Proof.
  induction l as [|h t IH]; intros i x Hi; cbn [length] in Hi; [lia|].
  destruct i as [|i]; cbn [upd]; [reflexivity|].
  change (firstn (S (S i)) (h :: upd t i x)) with (h :: firstn (S i) (upd t i x)).
  rewrite IH by lia. reflexivity.
Qed.

Lemma perm_upd_hd : forall t j h d, (j < length t)%nat ->
  Permutation (nth j t d :: upd t j h) (h :: t).
Proof.
  induction t as [|a t IH]; intros j h d Hj; cbn [length] in Hj; [lia|].
  destruct j as [|j]; cbn [nth upd].
  - apply perm_swap.
  - etransitivity; [apply perm_swap|]. etransitivity; [|apply perm_swap].
    apply perm_skip. apply IH. lia.
Qed.

Lemma perm_upd_swap : forall l i j d, (i < j)%nat -> (j < length l)%nat ->
  Permutation (upd (upd l i (nth j l d)) j (nth i l d)) l.
Proof.
  induction l as [|h t IH]; intros i j d Hij Hj; cbn [length] in Hj; [lia|].
  destruct j as [|j]; [lia|]. destruct i as [|i]; cbn [upd nth].
  - apply perm_upd_hd. lia.
  - apply perm_skip. apply IH; lia.
Qed.
End Upd.

Lemma map_upd_eq {A B} (f:A->B) : forall (l:list A) i x d, (i < length l)%nat ->
  f x = f (nth i l d) -> map f (upd l i x) = map f l.
Proof.
  induction l as [|h t IH]; intros i x d Hi E; cbn [length] in Hi; [lia|].
  destruct i as [|i]; cbn [upd map nth] in *.
  - rewrite E. reflexivity.
  - f_equal. apply (IH i x d); auto. lia.
Qed.

(** ** filters and permutations *)
Lemma Permutation_filter {A} (P:A->bool) : forall l l', Permutation l l' -> Permutation (filter P l) (filter P l').
Proof.
  induction 1 as [|x l l' Hp IH|x y l|l l' l'' H1 IH1 H2 IH2]; cbn [filter].
  - constructor.
  - destruct (P x); auto.
  - destruct (P x), (P y); auto. apply perm_swap.
  - etransitivity; eauto.
Qed.

Lemma filter_filter {A} (P Q:A->bool) : forall l, filter P (filter Q l) = filter (fun x => Q x && P x) l.
Proof.
  induction l as [|a l IH]; cbn [filter]; auto.
  destruct (Q a); cbn [filter andb]; [destruct (P a)|]; rewrite IH; reflexivity.
Qed.

Lemma filter_split_perm {A} (P:A->bool) : forall l,
  Permutation (filter P l ++ filter (fun x => negb (P x)) l) l.
Proof.
  induction l as [|a l IH]; cbn [filter]; [constructor|].
  destruct (P a); cbn [negb app].
  - apply perm_skip, IH.
  - etransitivity; [symmetry; apply Permutation_middle|]. apply perm_skip, IH.
Qed.

Lemma filter_flat_map {A B} (P:B->bool) (f:A->list B) : forall l,
  filter P (flat_map f l) = flat_map (fun x => filter P (f x)) l.
Proof.
  induction l as [|a l IH]; cbn [flat_map filter]; auto. rewrite filter_app, IH. reflexivity.
Qed.

Lemma flat_map_filter {A B} (Q:A->bool) (f:A->list B) : forall l,
  flat_map f (filter Q l) = flat_map (fun x => if Q x then f x else []) l.
Proof.
  induction l as [|a l IH]; cbn [flat_map filter]; auto.
  destruct (Q a); cbn [flat_map app]; rewrite IH; reflexivity.
Qed.

Lemma filter_all {A} (P:A->bool) : forall l, (forall x, In x l -> P x = true) -> filter P l = l.
Proof.
  induction l as [|a l IH]; intros H; cbn [filter]; auto.
  rewrite (H a) by (left; reflexivity). f_equal. apply IH. intros x Hx. apply H. right; exact Hx.
Qed.

Lemma length_filter_le {A} (P:A->bool) : forall l, (length (filter P l) <= length l)%nat.
Proof. induction l as [|a l IH]; cbn [filter length]; [lia|]. destruct (P a); cbn [length]; lia. Qed.

Lemma Forall2_perm_concat {A} : forall (xs ys:list (list A)),
  Forall2 (@Permutation A) xs ys -> Permutation (concat xs) (concat ys).
Proof.
  induction 1 as [|x y xs ys Hxy HF IH]; cbn [concat]; [constructor|].
  apply Permutation_app; auto.
Qed.

Lemma Forall2_len {A B} (R:A->B->Prop) : forall xs ys, Forall2 R xs ys -> length xs = length ys.
Proof. induction 1; cbn [length]; auto. Qed.

Lemma Forall2_perm_nth {A} : forall (xs ys:list (list A)), Forall2 (@Permutation A) xs ys ->
  forall k, Permutation (nth k xs []) (nth k ys []).
Proof. induction 1 as [|x y xs ys Hxy HF IH]; intros [|k]; cbn [nth]; auto. Qed.
