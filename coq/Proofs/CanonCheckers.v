(** * Proofs.CanonCheckers — C03, part 3: the check cache computed by [Board::update_pin_info]
    is the specification's set of checkers.
    The xor accumulation of [slider_scan] over the (distinct) squares of a word is a disjoint
    union; the slider, knight and pawn contributions live in disjoint piece words; the result
    is the "attackers-to" word of [Proofs.CanonAttack] at the king square — provided the enemy
    king is not adjacent (the library never looks at the enemy king; [is_sane] demands it). *)
From Coq Require Import Lia ZifyBool ZifyN ZifyNat.
From Chess Require Import Base.Bits Spec.Geometry Spec.Rules Model.Board.
From Chess Require Import Proofs.BitsFacts Proofs.WalkDep Proofs.TablesLib Proofs.TablesEq
                          Proofs.TablesMeaning Proofs.AbsBoard Proofs.CanonAttack.
Open Scope N_scope.

(** ** 1. The fold of [slider_scan] *)
Definition btw (b:board) (k sq:N) : N := N.land (between sq k) (comb b).
Definition scan_step (b:board) (k:N) (acc:N*N) (sq:N) : N*N :=
  let (pn,ch) := acc in
  let bt := N.land (between sq k) (comb b) in
  if bt =? 0 then (pn, N.lxor ch (bit sq))
  else if popcnt bt =? 1 then (N.lxor pn bt, ch) else (pn,ch).
Lemma slider_scan_fold b k sl pn0 ch0 :
  slider_scan b k sl pn0 ch0 = fold_left (scan_step b k) (squares_of sl) (pn0,ch0).
Proof. reflexivity. Qed.

Lemma scan_ch b k l : NoDup l -> forall pn0 ch0 x,
  N.testbit (snd (fold_left (scan_step b k) l (pn0,ch0))) x
  = xorb (N.testbit ch0 x) (mem x l && (btw b k x =? 0)).
Proof.
  induction 1 as [|sq l Hnin Hnd IH]; intros pn0 ch0 x; cbn [fold_left mem existsb].
  - rewrite xorb_false_r. reflexivity.
  - fold (mem x l). unfold scan_step at 2. fold (btw b k sq).
    destruct (N.eqb_spec x sq) as [->|Hne]; cbn [orb].
    + assert (Hm : mem sq l = false).
      { destruct (mem sq l) eqn:E; [|reflexivity]. apply mem_in in E. contradiction. }
      destruct (btw b k sq =? 0) eqn:Hb; [|destruct (popcnt (btw b k sq) =? 1)];
        rewrite IH, Hm; cbn [andb]; rewrite ?xorb_false_r; try reflexivity.
      rewrite N.lxor_spec, TablesLib.testbit_bit, N.eqb_refl. reflexivity.
    + destruct (btw b k sq =? 0) eqn:Hb; [|destruct (popcnt (btw b k sq) =? 1)];
        rewrite IH; try reflexivity.
      rewrite N.lxor_spec, TablesLib.testbit_bit.
      destruct (N.eqb_spec sq x) as [E|_]; [congruence|]. rewrite xorb_false_r. reflexivity.
Qed.

(** parity of the number of members satisfying [f] *)
Fixpoint par {A} (f:A->bool) (l:list A) : bool :=
  match l with [] => false | a::r => xorb (f a) (par f r) end.

Lemma par_existsb {A} (f:A->bool) (l:list A) : NoDup l ->
  (forall a a', In a l -> In a' l -> f a = true -> f a' = true -> a = a') ->
  par f l = existsb f l.
Proof.
  induction 1 as [|a l Hnin Hnd IH]; intro Hu; cbn [par existsb]; [reflexivity|].
  rewrite IH by (intros x y Hx Hy; apply Hu; right; assumption).
  destruct (f a) eqn:Fa; [|rewrite xorb_false_l; reflexivity]. cbn [orb].
  destruct (existsb f l) eqn:E; [|reflexivity]. exfalso.
  apply existsb_exists in E. destruct E as [y [Hy Fy]].
  assert (a = y) by (apply Hu; [left; reflexivity|right; exact Hy|exact Fa|exact Fy]).
  subst y. contradiction.
Qed.

Definition pinc (b:board) (k x sq:N) : bool :=
  (popcnt (btw b k sq) =? 1) && N.testbit (btw b k sq) x.

Lemma scan_pn b k l : forall pn0 ch0 x,
  N.testbit (fst (fold_left (scan_step b k) l (pn0,ch0))) x
  = xorb (N.testbit pn0 x) (par (pinc b k x) l).
Proof.
  induction l as [|sq l IH]; intros pn0 ch0 x; cbn [fold_left par].
  - rewrite xorb_false_r. reflexivity.
  - unfold scan_step at 2. fold (btw b k sq). unfold pinc at 1.
    destruct (N.eqb_spec (btw b k sq) 0) as [Hz|Hnz].
    + rewrite IH, Hz. change (popcnt 0 =? 1) with false. cbn [andb].
      rewrite xorb_false_l. reflexivity.
    + destruct (popcnt (btw b k sq) =? 1); rewrite IH; cbn [andb];
        [|rewrite xorb_false_l; reflexivity].
      rewrite N.lxor_spec, xorb_assoc. reflexivity.
Qed.

(** ** 2. [update_pin_info] opened up *)
Definition pinners_of (b:board) : N :=
  let k := king_square b (stm b) in
  N.land (color_combined b (opp (stm b)))
     (N.lor (N.land (bishop_rays k) (N.lor (pB b) (pQ b)))
            (N.land (rook_rays k) (N.lor (pR b) (pQ b)))).
Definition knight_checks (b:board) : N :=
  N.land (N.land (knight_moves (king_square b (stm b))) (color_combined b (opp (stm b)))) (pN b).
Definition pawn_checks (b:board) : N :=
  get_pawn_attacks (king_square b (stm b)) (stm b) (N.land (color_combined b (opp (stm b))) (pP b)).

Lemma upi_caches b :
  checkers (update_pin_info b)
  = N.lxor (N.lxor (snd (slider_scan b (king_square b (stm b)) (pinners_of b) 0 0))
                   (knight_checks b)) (pawn_checks b)
  /\ pinned (update_pin_info b) = fst (slider_scan b (king_square b (stm b)) (pinners_of b) 0 0).
Proof.
  unfold update_pin_info, pinners_of, knight_checks, pawn_checks, king_square.
  destruct (slider_scan b _ _ 0 0) as [pn ch]. split; reflexivity.
Qed.

Lemma pinners_lt64 b : Consistent b -> pinners_of b < 2^64.
Proof. intro HC. unfold pinners_of. apply land_lt64_l, (cs_colors_lt b HC). Qed.

Lemma mem_squares_of w x : mem x (squares_of w) = N.testbit w x.
Proof. apply eq_true_iff_eq. rewrite mem_in. apply squares_of_spec. Qed.

(** the slider part of the check cache: the pinners with an empty path to the king *)
Lemma scan_checkers_bit b x :
  N.testbit (snd (slider_scan b (king_square b (stm b)) (pinners_of b) 0 0)) x
  = N.testbit (pinners_of b) x && (btw b (king_square b (stm b)) x =? 0).
Proof.
  rewrite slider_scan_fold, (scan_ch b _ _ (squares_of_NoDup _)), N.bits_0, mem_squares_of.
  apply xorb_false_l.
Qed.

(** ** 3. The boolean core: on one square, the three xor-ed contributions are the
    "attackers-to" disjunction, given the enemy king is not there *)
Lemma checkers_bool (x:option (ptype*color)) (c:color) (E ad ao kn pw kg:bool) :
  kg && (pget King (enc x) && cget c (enc x)) = false ->
  xorb (xorb ((cget c (enc x)
               && ((ad && (pget Bishop (enc x) || pget Queen (enc x)))
                   || (ao && (pget Rook (enc x) || pget Queen (enc x))))) && E)
             ((kn && cget c (enc x)) && pget Knight (enc x)))
       (pw && (cget c (enc x) && pget Pawn (enc x)))
  = cget c (enc x)
    && ((((pw && pget Pawn (enc x)) || (kn && pget Knight (enc x))) || (kg && pget King (enc x)))
        || (((ad && E) && (pget Bishop (enc x) || pget Queen (enc x)))
            || ((ao && E) && (pget Rook (enc x) || pget Queen (enc x))))).
Proof.
  destruct x as [[[] []]|]; destruct c, E, ad, ao, kn, pw, kg; cbn; intro H;
    try discriminate H; reflexivity.
Qed.

Section Checkers.
Variable b : board.
Hypothesis HC : Consistent b.
Hypothesis Hking : popcnt (N.land (pK b) (color_combined b (stm b))) = 1.
Let k := king_square b (stm b).

Lemma k_lt64 : k < 64.
Proof. exact (proj1 (one_king_bit b (stm b) HC Hking)). Qed.

(** the enemy king is not adjacent to the king of the side to move *)
Definition kings_apart : Prop :=
  N.land (king_moves (king_square b (stm b))) (N.land (pK b) (color_combined b (opp (stm b)))) = 0.

Theorem checkers_attackers_bit s : kings_apart -> s < 64 ->
  N.testbit (checkers (update_pin_info b)) s
  = N.testbit (attackers_bb b (opp (stm b)) (king_square b (stm b))) s.
Proof.
  intros Hka Hs. fold k. pose proof k_lt64 as Hk.
  rewrite (proj1 (upi_caches b)). rewrite !N.lxor_spec, scan_checkers_bit. fold k.
  unfold pinners_of, knight_checks, pawn_checks, get_pawn_attacks, attackers_bb, btw. fold k.
  rewrite opp_opp'.
  rewrite !N.land_spec, !N.lor_spec, !N.land_spec, !N.lor_spec.
  rewrite (bishop_walk_between k s _ Hk Hs), (rook_walk_between k s _ Hk Hs).
  rewrite (bishop_rays_meaning k s Hk Hs), (rook_rays_meaning k s Hk Hs).
  rewrite (between_sym s k Hs Hk).
  pose proof (land0_bits _ _ Hka s) as Hkg. fold k in Hkg. rewrite N.land_spec in Hkg.
  pose proof (bitsat_enc b s HC Hs) as Henc.
  assert (HP : forall q, N.testbit (pieces b q) s = pget q (enc (at_ (abs_board b) s)))
    by (intro q; rewrite <- Henc, pget_bitsat; reflexivity).
  assert (HCc : forall c, N.testbit (color_combined b c) s = cget c (enc (at_ (abs_board b) s)))
    by (intro c; rewrite <- Henc, cget_bitsat; reflexivity).
  pose proof (HP Pawn) as H1. pose proof (HP Knight) as H2. pose proof (HP Bishop) as H3.
  pose proof (HP Rook) as H4. pose proof (HP Queen) as H5. pose proof (HP King) as H6.
  cbn [pieces] in H1, H2, H3, H4, H5, H6.
  rewrite H1, H2, H3, H4, H5, H6, (HCc (opp (stm b))) in *.
  apply checkers_bool. exact Hkg.
Qed.

Theorem checkers_lt64 : checkers (update_pin_info b) < 2^64.
Proof.
  rewrite (proj1 (upi_caches b)).
  apply lxor_lt64; [apply lxor_lt64|].
  - apply lt64_bits. intros x Hx. rewrite scan_checkers_bit.
    rewrite (BitsFacts.testbit_high _ x (pinners_lt64 b HC) Hx). reflexivity.
  - unfold knight_checks. rewrite <- N.land_assoc, N.land_comm. apply land_lt64_l.
    apply land_lt64_l, (cs_colors_lt b HC).
  - unfold pawn_checks, get_pawn_attacks. rewrite N.land_comm. apply land_lt64_l.
    apply land_lt64_l, (cs_colors_lt b HC).
Qed.

(** the check cache is exactly the specification's checkers *)
Theorem checkers_canon s : kings_apart -> s < 64 ->
  (N.testbit (checkers (update_pin_info b)) s = true <-> In s (checkers_of (abs_board b))).
Proof.
  intros Hka Hs. unfold checkers_of. change (turn (abs_board b)) with (stm b).
  rewrite (king_square_spec b (stm b) HC Hking).
  pose proof (attackers_canon b (opp (stm b)) s (king_square b (stm b)) HC k_lt64) as Hat.
  pose proof (checkers_attackers_bit s Hka Hs) as Hbit.
  split.
  - intro H. apply Hat. split; [exact Hs|]. rewrite <- Hbit. exact H.
  - intro H. apply Hat in H. rewrite Hbit. exact (proj2 H).
Qed.

Theorem checkers_canon_word : kings_apart ->
  checkers (update_pin_info b) = attackers_bb b (opp (stm b)) (king_square b (stm b)).
Proof.
  intro Hka. apply N.bits_inj. intro s. destruct (N.lt_ge_cases s 64) as [Hs|Hs].
  - apply checkers_attackers_bit; assumption.
  - rewrite (BitsFacts.testbit_high _ s checkers_lt64 Hs). symmetry.
    apply BitsFacts.testbit_high; [|exact Hs]. unfold attackers_bb.
    apply land_lt64_l, (cs_colors_lt b HC).
Qed.

(** "in check" read off the cache *)
Theorem checkers_in_check : kings_apart ->
  (checkers (update_pin_info b) <> 0 <-> in_check (abs_board b) (stm b) = true).
Proof.
  intro Hka. unfold in_check. rewrite (king_square_spec b (stm b) HC Hking).
  cbv iota beta.
  rewrite (attacked_by_canon b (opp (stm b)) (king_square b (stm b)) HC k_lt64).
  rewrite <- (checkers_canon_word Hka).
  destruct (N.eqb_spec (checkers (update_pin_info b)) 0) as [E|E]; cbn [negb].
  - split; [intro H; contradiction|discriminate].
  - split; [reflexivity|intros _; exact E].
Qed.
End Checkers.

(** ** 4. Example: the hypotheses are satisfiable and the cache non-empty:
    white K e1, black R e8 (checking along the open e-file), black N c2 (checking), black K a8 *)
Definition chk_pcs : list (option (ptype*color)) :=
  updN (updN (updN (updN (repeat None 64) 4 (Some (King,White))) 60 (Some (Rook,Black)))
             10 (Some (Knight,Black))) 56 (Some (King,Black)).
Example checkers_canon_ex :
  Consistent (place_all chk_pcs) /\
  popcnt (N.land (pK (place_all chk_pcs)) (color_combined (place_all chk_pcs) (stm (place_all chk_pcs)))) = 1 /\
  kings_apart (place_all chk_pcs) /\
  checkers (update_pin_info (place_all chk_pcs)) = N.lor (bit 10) (bit 60) /\
  checkers_of (abs_board (place_all chk_pcs)) = [10;60].
Proof.
  split; [apply place_all_consistent|]. repeat split; vm_compute; reflexivity.
Qed.
