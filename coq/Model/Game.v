(** * Model.Game — transcription of src/game.rs.  [None] results model panics
    ([unwrap] inside make_move_new on an impossible move, index on an empty Vec). *)
From Chess Require Export Model.MoveGen.
Open Scope N_scope.

Inductive action :=
| MakeMove (m:cmove) | OfferDraw (c:color) | AcceptDraw | DeclareDraw | Resign (c:color).
Inductive game_result :=
| WhiteCheckmates | WhiteResigns | BlackCheckmates | BlackResigns | RStalemate | DrawAccepted | DrawDeclared.
Record game := { start_pos : board; actions : list action }.   (* log: oldest first *)

Definition new_with_board (b:board) : game := {| start_pos := b; actions := [] |}.
Definition mm (b:board) (m:cmove) : option board := make_move_new b (msrc m) (mdst m) (mpromo m).

(** [Game::current_position] *)
Fixpoint play (b:board) (l:list action) : option board :=
  match l with
  | [] => Some b
  | MakeMove m :: r => match mm b m with Some b' => play b' r | None => None end
  | _ :: r => play b r
  end.
Definition current_position (g:game) : option board := play (start_pos g) (actions g).

Definition is_move a := match a with MakeMove _ => true | _ => false end.
(** [Game::side_to_move] *)
Definition side_to_move (g:game) : color :=
  let n := N.of_nat (length (filter is_move (actions g)))
           + (match stm (start_pos g) with White => 0 | Black => 1 end) in
  if n mod 2 =? 0 then White else Black.

Definition action_eqb (a b:action) : bool :=
  match a,b with
  | MakeMove x, MakeMove y => cmove_eqb x y
  | OfferDraw c, OfferDraw d => color_eqb c d
  | AcceptDraw, AcceptDraw => true | DeclareDraw, DeclareDraw => true
  | Resign c, Resign d => color_eqb c d
  | _,_ => false end.
Definition last_action (g:game) : option action := match rev (actions g) with a :: _ => Some a | [] => None end.

(** [Game::result]; the outer [option] is the panic channel *)
Definition result (g:game) : option (option game_result) :=
  match current_position g with
  | None => None
  | Some b =>
    Some (match board_status b with
    | Checkmate => match side_to_move g with White => Some BlackCheckmates | Black => Some WhiteCheckmates end
    | Stalemate => Some RStalemate
    | Ongoing =>
      match last_action g with
      | None => None
      | Some AcceptDraw => Some DrawAccepted
      | Some DeclareDraw => Some DrawDeclared
      | Some (Resign White) => Some WhiteResigns
      | Some (Resign Black) => Some BlackResigns
      | Some _ => None
      end
    end)
  end.
Definition has_result (g:game) : option bool :=
  match result g with Some (Some _) => Some true | Some None => Some false | None => None end.

Definition push_action (g:game) (a:action) : game := {| start_pos := start_pos g; actions := actions g ++ [a] |}.

(** every mutating operation returns (success flag, new game); [None] = panic *)
Definition g_make_move (g:game) (m:cmove) : option (bool * game) :=
  match has_result g with
  | None => None
  | Some true => Some (false, g)
  | Some false =>
    match current_position g with
    | None => None
    | Some b => if legal b m then Some (true, push_action g (MakeMove m)) else Some (false, g)
    end
  end.
Definition g_offer_draw (g:game) (c:color) : option (bool * game) :=
  match has_result g with
  | None => None | Some true => Some (false, g)
  | Some false => Some (true, push_action g (OfferDraw c)) end.
Definition g_resign (g:game) (c:color) : option (bool * game) :=
  match has_result g with
  | None => None | Some true => Some (false, g)
  | Some false => Some (true, push_action g (Resign c)) end.
Definition nth_from_end (l:list action) (k:nat) : option action := nth_error (rev l) k.
Definition g_accept_draw (g:game) : option (bool * game) :=
  match has_result g with
  | None => None | Some true => Some (false, g)
  | Some false =>
    let l := actions g in
    let last_is_offer := match nth_from_end l 0 with
                         | Some (OfferDraw _) => true | _ => false end in
    if last_is_offer then Some (true, push_action g AcceptDraw)
    else
      let second := match nth_from_end l 1 with
                    | Some a => action_eqb a (OfferDraw (opp (side_to_move g))) | None => false end in
      if second then Some (true, push_action g AcceptDraw) else Some (false, g)
  end.

(** [Game::can_declare_draw] (with the fix: commit: the counter is not reset on a rights change) *)
Definition pos_key (b:board) : N * list cmove := (get_hash b, moves_of b).
Definition key_eqb (a b:N * list cmove) : bool :=
  (fst a =? fst b) && (Nat.eqb (length (snd a)) (length (snd b)))
  && forallb (fun xy => cmove_eqb (fst xy) (snd xy)) (combine (snd a) (snd b)).
(** state of the scan: board, reversible half-move counter, key list (oldest first) *)
Fixpoint draw_scan (b:board) (rev_moves:N) (keys:list (N * list cmove)) (l:list action)
  : option (N * list (N * list cmove)) :=
  match l with
  | [] => Some (rev_moves, keys)
  | MakeMove m :: r =>
    let wcr := crW b in let bcr := crB b in
    let '(rev_moves,keys) :=
      if (match piece_on b (msrc m) with Some Pawn => true | _ => false end) then (0,[])
      else match piece_on b (mdst m) with Some _ => (0,[]) | None => (rev_moves + 1, keys) end in
    match mm b m with
    | None => None
    | Some b' =>
      let keys := if negb (crW b' =? wcr) || negb (crB b' =? bcr) then [] else keys in
      draw_scan b' rev_moves (keys ++ [pos_key b']) r
    end
  | _ :: r => draw_scan b rev_moves keys r
  end.

(** the threefold test, as the double loop of the code:
    [for i in 1..(len-1) { for j in 0..i { if l[i] == last && l[j] == last { return true } } }] *)
Definition threefold (keys:list (N * list cmove)) : option bool :=
  match rev keys with
  | [] => None                                     (* index [len-1] on an empty Vec panics *)
  | lastk :: _ =>
    let n := length keys in
    let key i := nth i keys (0,[]) in
    Some (existsb (fun i => key_eqb (key i) lastk && existsb (fun j => key_eqb (key j) lastk) (seq 0 i))
                  (seq 1 (n - 2)))
  end.
Definition can_declare_draw (g:game) : option bool :=
  match has_result g with
  | None => None | Some true => Some false
  | Some false =>
    match draw_scan (start_pos g) 0 [pos_key (start_pos g)] (actions g) with
    | None => None
    | Some (rev_moves, keys) =>
      if 100 <=? rev_moves then Some true else threefold keys
    end
  end.
Definition g_declare_draw (g:game) : option (bool * game) :=
  match can_declare_draw g with
  | None => None
  | Some true => Some (true, push_action g DeclareDraw)
  | Some false => Some (false, g) end.
