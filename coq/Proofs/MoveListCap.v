(** * Proofs.MoveListCap — a sane board never overflows the move list (C07, T_cap).
    [enumerate_moves] pushes at most one entry per source square: at most one per own man
    that is not the king (the "not pinned" and "pinned" loops visit disjoint sources), at most
    two more for en passant, and one for the king: [15 + 2 + 1 = 18], the capacity of the
    Rust [ArrayVec].  No bound [< 2^64] on the board fields is assumed: a source [>= 64] of
    the "pinned" loop pushes nothing because its [line] mask is empty. *)
From Coq Require Import Lia ZifyBool ZifyN ZifyNat String Ascii.
From Chess Require Import Base.Bits Base.Text Model.Board Model.MoveGen Model.Fen Gen.Consts
  Proofs.BitsFacts Proofs.PopcntFacts Proofs.AcceptSound.
Open Scope N_scope.
#[local] Arguments N.add : simpl never.
#[local] Arguments N.sub : simpl never.
#[local] Arguments N.mul : simpl never.
#[local] Arguments N.shiftl : simpl never.
#[local] Arguments N.shiftr : simpl never.
#[local] Arguments N.land : simpl never.
#[local] Arguments N.lor : simpl never.
#[local] Arguments N.lxor : simpl never.
#[local] Arguments N.testbit : simpl never.
#[local] Arguments N.eqb : simpl never.
#[local] Arguments N.ltb : simpl never.
#[local] Arguments N.leb : simpl never.
#[local] Arguments N.pow : simpl never.

(** ** the capacity, read from the regenerated constant *)
Lemma cap_value : 18 <= movelist_cap.
Proof. vm_compute. discriminate. Qed.

(** ** [push] and loops of pushes *)
Lemma push_length_le l s m pr : (length (push l s m pr) <= S (length l))%nat.
Proof.
  unfold push. destruct (m =? 0); [lia|]. rewrite app_length. cbn [length]. lia.
Qed.

Lemma push_zero l s pr : push l s 0 pr = l.
Proof. reflexivity. Qed.

Lemma fold_le_all (f:list entry -> N -> list entry) srcs :
  (forall ml s, (length (f ml s) <= S (length ml))%nat) ->
  forall ml, (length (fold_left f srcs ml) <= length ml + length srcs)%nat.
Proof.
  intros Hf. induction srcs as [|x srcs IH]; intros ml; cbn [fold_left length]; [lia|].
  etransitivity; [apply IH|]. specialize (Hf ml x). lia.
Qed.

Lemma fold_le_filter (f:list entry -> N -> list entry) (P:N->bool) srcs :
  (forall ml s, (length (f ml s) <= S (length ml))%nat) ->
  (forall ml s, P s = false -> f ml s = ml) ->
  forall ml, (length (fold_left f srcs ml) <= length ml + length (filter P srcs))%nat.
Proof.
  intros Hf HP. induction srcs as [|x srcs IH]; intros ml; cbn [fold_left filter length]; [lia|].
  etransitivity; [apply IH|]. destruct (P x) eqn:E.
  - specialize (Hf ml x). cbn [length]. lia.
  - rewrite (HP ml x E). lia.
Qed.

(** ** [line] is empty outside the board *)
Lemma LINE_length : length LINE = 64%nat.
Proof. vm_compute. reflexivity. Qed.

Lemma LINE_rows : forallb (fun r => Nat.leb (length r) 64) LINE = true.
Proof. vm_compute. reflexivity. Qed.

Lemma LINE_row_le a : (length (nthN LINE a []) <= 64)%nat.
Proof.
  unfold nthN. destruct (nth_in_or_default (N.to_nat a) LINE []) as [Hin|Hd].
  - pose proof LINE_rows as H. rewrite forallb_forall in H. specialize (H _ Hin).
    apply Nat.leb_le. exact H.
  - rewrite Hd. cbn [length]. lia.
Qed.

Lemma line_high_l a b : 64 <= a -> line a b = 0.
Proof.
  intros Ha. unfold line. unfold nthN at 2. rewrite nth_overflow by (rewrite LINE_length; lia).
  unfold nthN. destruct (N.to_nat b); reflexivity.
Qed.

Lemma line_high_r a b : 64 <= b -> line a b = 0.
Proof.
  intros Hb. unfold line. unfold nthN at 1. apply nth_overflow.
  pose proof (LINE_row_le a). lia.
Qed.

(** ** the en-passant sources: at most two *)
Lemma rank_adj_sweep :
  forallb (fun r => forallb (fun f => Nat.leb (cnt (N.land (rank_bb r) (adjacent_files_bb f))) 2)
                            [0;1;2;3;4;5;6;7]) [0;1;2;3;4;5;6;7] = true.
Proof. vm_compute. reflexivity. Qed.

Lemma rank_adj_le2 r f : r < 8 -> f < 8 ->
  (cnt (N.land (rank_bb r) (adjacent_files_bb f)) <= 2)%nat.
Proof.
  intros Hr Hf. pose proof rank_adj_sweep as H. rewrite forallb_forall in H.
  assert (Hir : In r [0;1;2;3;4;5;6;7]) by (cbn [In]; lia).
  specialize (H r Hir). rewrite forallb_forall in H.
  assert (Hif : In f [0;1;2;3;4;5;6;7]) by (cbn [In]; lia).
  specialize (H f Hif). apply Nat.leb_le. exact H.
Qed.

Lemma ep_sources_le2 e pcs :
  (cnt (N.land (N.land (get_rank (sq_rank e)) (get_adjacent_files (sq_file e))) pcs) <= 2)%nat.
Proof.
  etransitivity; [apply cnt_land_le_l|]. unfold get_rank, get_adjacent_files.
  apply rank_adj_le2; [apply sq_rank_lt8|apply sq_file_lt8].
Qed.

(** ** each [legals] routine *)
Definition own_of (b:board) (p:ptype) : N := N.land (pieces b p) (color_combined b (stm b)).

Lemma legals_generic_le ps p ml b ic :
  (length (legals_generic ps p ml b ic) <= length ml + cnt (own_of b p))%nat.
Proof.
  unfold legals_generic, own_of. cbv zeta.
  set (pcs := N.land (pieces b p) (color_combined b (stm b))).
  pose proof (cnt_split_le pcs (pinned b)) as Hsplit. unfold cnt in Hsplit.
  destruct ic.
  - etransitivity; [apply fold_le_all; intros ml0 s; apply push_length_le|]. unfold cnt. lia.
  - etransitivity; [apply (fold_le_filter _ (fun s => N.ltb s 64))|].
    + intros ml0 s. apply push_length_le.
    + intros ml0 s Hs. rewrite line_high_l by lia. rewrite N.land_0_r. apply push_zero.
    + etransitivity; [apply Nat.add_le_mono_r; apply fold_le_all; intros ml0 s; apply push_length_le|].
      unfold cnt. lia.
Qed.

Lemma legals_knight_le ml b mask ic :
  (length (legals_knight ml b mask ic) <= length ml + cnt (own_of b Knight))%nat.
Proof.
  unfold legals_knight, own_of. cbv zeta. cbn [pieces].
  etransitivity; [apply fold_le_all; intros ml0 s; apply push_length_le|].
  pose proof (cnt_land_le_l (N.land (pN b) (color_combined b (stm b))) (lnot64 (pinned b))) as H.
  unfold cnt in *. lia.
Qed.

Lemma king_square_lt64 b c : king_square b c < 64.
Proof. apply to_square_lt64. Qed.

Lemma legals_pawn_le ml b mask ic :
  (length (legals_pawn ml b mask ic) <= length ml + cnt (own_of b Pawn) + 2)%nat.
Proof.
  unfold legals_pawn, own_of. cbv zeta. cbn [pieces].
  set (pcs := N.land (pP b) (color_combined b (stm b))).
  pose proof (cnt_split_le pcs (pinned b)) as Hsplit. unfold cnt in Hsplit.
  set (loop1 := fold_left _ (squares_of (N.land pcs (lnot64 (pinned b)))) ml).
  assert (H1 : (length loop1 <= length ml + length (squares_of (N.land pcs (lnot64 (pinned b)))))%nat).
  { subst loop1. apply fold_le_all. intros ml0 s. apply push_length_le. }
  set (loop2 := if ic then loop1 else fold_left _ (squares_of (N.land pcs (pinned b))) loop1).
  assert (H2 : (length loop2 <= length ml + cnt pcs)%nat).
  { subst loop2. destruct ic; [unfold cnt; lia|].
    etransitivity; [apply (fold_le_filter _ (fun s => N.ltb s 64))|].
    - intros ml0 s. apply push_length_le.
    - intros ml0 s Hs. rewrite line_high_r by lia. rewrite N.land_0_r. apply push_zero.
    - unfold cnt. lia. }
  destruct (epsq b) as [e|]; [|lia].
  etransitivity; [apply fold_le_all|].
  - intros ml0 s. destruct (legal_ep_move b s (uforward (stm b) e)) as [[|]|]; try lia.
    rewrite app_length. cbn [length]. lia.
  - pose proof (ep_sources_le2 e pcs) as He. unfold cnt in He. lia.
Qed.

Lemma legals_king_le ml b mask ic : (length (legals_king ml b mask ic) <= S (length ml))%nat.
Proof. unfold legals_king. cbv zeta. apply push_length_le. Qed.

(** ** the men of the side to move *)
Lemma own_sum_le b : is_sane b = true ->
  (cnt (own_of b Pawn) + cnt (own_of b Knight) + cnt (own_of b Bishop) + cnt (own_of b Rook)
   + cnt (own_of b Queen) + cnt (own_of b King) <= cnt (color_combined b (stm b)))%nat.
Proof.
  intros Hs. destruct (is_sane_spec b Hs) as (Hd & _).
  unfold own_of, cnt. rewrite !squares_of_land_filter_l. cbn [pieces].
  apply filter6_le. intro s.
  assert (D : forall x y, ptype_eqb x y = false ->
              N.testbit (pieces b x) s && N.testbit (pieces b y) s = false).
  { intros x y Hxy. apply land0_testbit. apply Hd. exact Hxy. }
  pose proof (D Pawn Knight eq_refl) as D01. pose proof (D Pawn Bishop eq_refl) as D02.
  pose proof (D Pawn Rook eq_refl) as D03. pose proof (D Pawn Queen eq_refl) as D04.
  pose proof (D Pawn King eq_refl) as D05. pose proof (D Knight Bishop eq_refl) as D12.
  pose proof (D Knight Rook eq_refl) as D13. pose proof (D Knight Queen eq_refl) as D14.
  pose proof (D Knight King eq_refl) as D15. pose proof (D Bishop Rook eq_refl) as D23.
  pose proof (D Bishop Queen eq_refl) as D24. pose proof (D Bishop King eq_refl) as D25.
  pose proof (D Rook Queen eq_refl) as D34. pose proof (D Rook King eq_refl) as D35.
  pose proof (D Queen King eq_refl) as D45.
  cbn [pieces] in *. clear D Hd Hs.
  destruct (N.testbit (pP b) s), (N.testbit (pN b) s), (N.testbit (pB b) s),
           (N.testbit (pR b) s), (N.testbit (pQ b) s), (N.testbit (pK b) s);
    cbn [andb] in *; try discriminate; cbn [b2n]; lia.
Qed.

Lemma own_king_one b : is_sane b = true -> cnt (own_of b King) = 1%nat.
Proof.
  intros Hs. destruct (is_sane_spec b Hs) as (_ & _ & _ & _ & _ & HkW & HkB & _).
  unfold own_of. cbn [pieces]. rewrite popcnt_cnt in HkW, HkB.
  destruct (stm b); cbn [color_combined]; lia.
Qed.

Lemma own_men_le16 b : is_sane b = true -> (cnt (color_combined b (stm b)) <= 16)%nat.
Proof.
  intros Hs. destruct (is_sane_spec b Hs) as (_ & _ & _ & HW & HB & _).
  rewrite popcnt_cnt in HW, HB. destruct (stm b); cbn [color_combined]; lia.
Qed.

(** ** the theorem *)
Theorem enumerate_moves_le18 b : is_sane b = true -> (length (enumerate_moves b) <= 18)%nat.
Proof.
  intros Hs.
  pose proof (own_sum_le b Hs) as Hsum. pose proof (own_king_one b Hs) as Hk.
  pose proof (own_men_le16 b Hs) as H16.
  unfold enumerate_moves. cbv zeta.
  set (mask := lnot64 (color_combined b (stm b))).
  assert (Hgen : forall ic,
    (length (legals_king
       (legals_generic (fun src => N.land (N.lxor (get_rook_moves src (comb b)) (get_bishop_moves src (comb b))) mask) Queen
         (legals_generic (fun src => N.land (get_rook_moves src (comb b)) mask) Rook
           (legals_generic (fun src => N.land (get_bishop_moves src (comb b)) mask) Bishop
             (legals_knight (legals_pawn [] b mask ic) b mask ic) b ic) b ic) b ic) b mask ic) <= 18)%nat).
  { intros ic.
    pose proof (legals_pawn_le [] b mask ic) as Hp. cbn [length] in Hp.
    set (l1 := legals_pawn [] b mask ic) in *.
    pose proof (legals_knight_le l1 b mask ic) as Hn.
    set (l2 := legals_knight l1 b mask ic) in *.
    pose proof (legals_generic_le (fun src => N.land (get_bishop_moves src (comb b)) mask) Bishop l2 b ic) as Hb.
    set (l3 := legals_generic _ Bishop l2 b ic) in *.
    pose proof (legals_generic_le (fun src => N.land (get_rook_moves src (comb b)) mask) Rook l3 b ic) as Hr.
    set (l4 := legals_generic _ Rook l3 b ic) in *.
    pose proof (legals_generic_le (fun src => N.land (N.lxor (get_rook_moves src (comb b)) (get_bishop_moves src (comb b))) mask) Queen l4 b ic) as Hq.
    set (l5 := legals_generic _ Queen l4 b ic) in *.
    pose proof (legals_king_le l5 b mask ic) as Hkg.
    lia. }
  destruct (checkers b =? 0); [apply Hgen|].
  destruct (popcnt (checkers b) =? 1); [apply Hgen|].
  pose proof (legals_king_le [] b mask true) as Hkg. cbn [length] in Hkg. lia.
Qed.

Theorem movelist_cap_ok : forall b, is_sane b = true -> N.of_nat (length (enumerate_moves b)) <= 18.
Proof. intros b Hs. pose proof (enumerate_moves_le18 b Hs). lia. Qed.

Theorem sane_no_overflow : forall b, is_sane b = true -> movelist_overflow b = false.
Proof.
  intros b Hs. unfold movelist_overflow. apply N.ltb_ge.
  apply N.le_trans with (m := 18); [apply movelist_cap_ok; exact Hs | exact cap_value].
Qed.

(** the only other panic site of [enumerate_moves]: [en_passant().unwrap()] in
    [legal_ep_move] is reached only when an en-passant square is recorded *)
Theorem legal_ep_move_no_panic : forall b e s d, epsq b = Some e -> legal_ep_move b s d <> None.
Proof.
  intros b e s d He. unfold legal_ep_move. rewrite He. cbv zeta.
  destruct (negb _ && negb _); [discriminate|]. destruct (negb _ && negb _); discriminate.
Qed.

(** every board accepted from a builder, and every board parsed from text, is safe to hand
    to move generation *)
Theorem accepted_no_overflow : forall bb b, try_from_builder bb = Some b ->
  movelist_overflow b = false /\ N.of_nat (length (enumerate_moves b)) <= movelist_cap.
Proof.
  intros bb b H. destruct (accept_sound_bits bb b H) as (_ & Hs & _).
  split; [apply sane_no_overflow; exact Hs|].
  apply N.le_trans with (m := 18); [apply movelist_cap_ok; exact Hs | exact cap_value].
Qed.

Theorem parsed_no_overflow : forall s b, board_from_str s = Ok b ->
  is_sane b = true /\ movelist_overflow b = false.
Proof.
  intros s b H. unfold board_from_str in H.
  destruct (builder_from_str s) as [bb| |]; try discriminate H.
  destruct (try_from_builder bb) as [b'|] eqn:E; [|discriminate H].
  injection H as H. subst b'. destruct (accept_sound_bits bb b E) as (_ & Hs & _).
  split; [exact Hs|apply sane_no_overflow; exact Hs].
Qed.

(** ** Examples *)
Definition s_of (s:string) : str := map N_of_ascii (list_ascii_of_string s).

(** the crowded board of the original defect: 25 white men *)
Definition crowded_fen : str := s_of "k7/8/PPPPPPPP/8/PPPPPPPP/8/PPPPPPPP/7K w - - 0 1".
Definition start_fen : str := s_of "rnbqkbnr/pppppppp/8/8/8/8/PPPPPPPP/RNBQKBNR w KQkq - 0 1".
(** a position with a recorded en-passant square (after 1.e4 d5 2.e5 f5) *)
Definition ep_fen : str := s_of "rnbqkbnr/ppp1p1pp/8/3pPp2/8/8/PPPP1PPP/RNBQKBNR w KQkq f6 0 3".

Example crowded_code_points : crowded_fen =
  [107;55;47;56;47;80;80;80;80;80;80;80;80;47;56;47;80;80;80;80;80;80;80;80;47;56;47;
   80;80;80;80;80;80;80;80;47;55;75;32;119;32;45;32;45;32;48;32;49].
Proof. vm_compute. reflexivity. Qed.

Example crowded_rejected : board_from_str crowded_fen = Err.
Proof. vm_compute. reflexivity. Qed.

Example crowded_raw_overflows :
  match builder_from_str crowded_fen with
  | Ok bb => movelist_overflow (from_builder_raw bb) = true /\
             length (enumerate_moves (from_builder_raw bb)) = 25%nat /\
             popcnt (cW (from_builder_raw bb)) = 25
  | _ => False end.
Proof. vm_compute. repeat split. Qed.

Example start_accepted :
  match board_from_str start_fen with
  | Ok b => is_sane b = true /\ movelist_overflow b = false /\ length (enumerate_moves b) = 10%nat
  | _ => False end.
Proof. vm_compute. repeat split. Qed.

Example ep_accepted :
  match board_from_str ep_fen with
  | Ok b => is_sane b = true /\ epsq b = Some 37 /\ movelist_overflow b = false
  | _ => False end.
Proof. vm_compute. repeat split. Qed.

(** the bound is tight: sixteen white men, two of them pawns that can both capture en
    passant -- 2 + 2 + 13 + 1 = 18 entries, accepted, and exactly at capacity *)
Definition tight_fen : str := s_of "k7/8/8/2PpP3/8/NNNNNNN1/NNNNNN2/K7 w - d6 0 1".
Example tight_eighteen :
  match board_from_str tight_fen with
  | Ok b => is_sane b = true /\ epsq b = Some 35 /\ popcnt (cW b) = 16 /\
            length (enumerate_moves b) = 18%nat /\ movelist_overflow b = false
  | _ => False end.
Proof. vm_compute. repeat split. Qed.
