(** * Properties.C03 — property C03: "Check, pin and occupancy information always matches the
    actual position."  What is proved here:
    - the per-piece, per-colour and combined occupancy words agree with each other
      ([Consistent]) on every board built by [place_all] / from scratch, consistency is kept by
      [Board::xor] onto an empty square, and the per-square queries [piece_on] / [color_on] /
      [king_square] and the abstraction [abs_board] read exactly those words;
    - the rules' attack sets are the usual bitboard formulas (ray walking = "aligned and nothing
      in between"; "attackers-to" word);
    - the check cache computed by [update_pin_info] is exactly the rules' set of checkers and
      its pin cache, restricted to the mover's men, exactly the rules' absolutely pinned men;
      hence the same for the caches stored in every from-scratch board of a valid position.
    The incremental half (a board reached by [make_move] equals the from-scratch board) is
    stated as [C03_incremental_full] and NOT proved here; the null-move case is C18.
    Proofs: [Proofs/AbsBoard.v], [Proofs/CanonAttack.v], [Proofs/CanonCheckers.v],
    [Proofs/CanonPinned.v], [Proofs/CanonScratch.v]. *)
From Chess Require Import Base.Bits Spec.Geometry Spec.Rules Model.Board.
From Chess Require Import Proofs.AbsBoard Proofs.CanonAttack Proofs.CanonCheckers Proofs.CanonPinned
                          Proofs.NullMove Proofs.CanonNullMove Proofs.CanonScratch.
Open Scope N_scope.

(** ** 1. Occupancy words and per-square queries *)
Theorem C03_piece_on_spec :
  forall b s p, Consistent b -> s < 64 ->
  (piece_on b s = Some p <-> N.testbit (pieces b p) s = true).
Proof. exact piece_on_spec. Qed.
Check C03_piece_on_spec :
  forall b s p, Consistent b -> s < 64 ->
  (piece_on b s = Some p <-> N.testbit (pieces b p) s = true).
Print Assumptions C03_piece_on_spec.

Theorem C03_piece_on_none :
  forall b s, Consistent b -> s < 64 ->
  (piece_on b s = None <-> N.testbit (comb b) s = false).
Proof. exact piece_on_none. Qed.
Check C03_piece_on_none :
  forall b s, Consistent b -> s < 64 ->
  (piece_on b s = None <-> N.testbit (comb b) s = false).
Print Assumptions C03_piece_on_none.

Theorem C03_color_on_spec :
  forall b s c, Consistent b -> s < 64 ->
  (color_on b s = Some c <-> N.testbit (color_combined b c) s = true).
Proof. exact color_on_spec. Qed.
Check C03_color_on_spec :
  forall b s c, Consistent b -> s < 64 ->
  (color_on b s = Some c <-> N.testbit (color_combined b c) s = true).
Print Assumptions C03_color_on_spec.

Theorem C03_color_on_none :
  forall b s, Consistent b -> s < 64 ->
  (color_on b s = None <-> N.testbit (comb b) s = false).
Proof. exact color_on_none. Qed.
Check C03_color_on_none :
  forall b s, Consistent b -> s < 64 ->
  (color_on b s = None <-> N.testbit (comb b) s = false).
Print Assumptions C03_color_on_none.

Theorem C03_at_abs :
  forall b s, s < 64 ->
  at_ (abs_board b) s =
  match piece_on b s, color_on b s with Some p, Some c => Some (p,c) | _, _ => None end.
Proof. exact at_abs. Qed.
Check C03_at_abs :
  forall b s, s < 64 ->
  at_ (abs_board b) s =
  match piece_on b s, color_on b s with Some p, Some c => Some (p,c) | _, _ => None end.
Print Assumptions C03_at_abs.

Theorem C03_at_abs_some :
  forall b s p c, Consistent b -> s < 64 ->
  (at_ (abs_board b) s = Some (p,c) <->
   N.testbit (pieces b p) s = true /\ N.testbit (color_combined b c) s = true).
Proof. exact at_abs_some. Qed.
Check C03_at_abs_some :
  forall b s p c, Consistent b -> s < 64 ->
  (at_ (abs_board b) s = Some (p,c) <->
   N.testbit (pieces b p) s = true /\ N.testbit (color_combined b c) s = true).
Print Assumptions C03_at_abs_some.

Theorem C03_has_abs :
  forall b s p c, Consistent b -> s < 64 ->
  has (abs_board b) s p c = N.testbit (pieces b p) s && N.testbit (color_combined b c) s.
Proof. exact has_abs. Qed.
Check C03_has_abs :
  forall b s p c, Consistent b -> s < 64 ->
  has (abs_board b) s p c = N.testbit (pieces b p) s && N.testbit (color_combined b c) s.
Print Assumptions C03_has_abs.

Theorem C03_occ_abs :
  forall b s, Consistent b -> s < 64 -> occ (abs_board b) s = N.testbit (comb b) s.
Proof. exact occ_abs. Qed.
Check C03_occ_abs :
  forall b s, Consistent b -> s < 64 -> occ (abs_board b) s = N.testbit (comb b) s.
Print Assumptions C03_occ_abs.

Theorem C03_own_abs :
  forall b c s, Consistent b -> s < 64 ->
  own (abs_board b) c s = N.testbit (color_combined b c) s.
Proof. exact own_abs. Qed.
Check C03_own_abs :
  forall b c s, Consistent b -> s < 64 ->
  own (abs_board b) c s = N.testbit (color_combined b c) s.
Print Assumptions C03_own_abs.

Theorem C03_enemy_abs :
  forall b c s, Consistent b -> s < 64 ->
  enemy (abs_board b) c s = N.testbit (color_combined b (opp c)) s.
Proof. exact enemy_abs. Qed.
Check C03_enemy_abs :
  forall b c s, Consistent b -> s < 64 ->
  enemy (abs_board b) c s = N.testbit (color_combined b (opp c)) s.
Print Assumptions C03_enemy_abs.

Theorem C03_king_square_spec :
  forall b c, Consistent b -> popcnt (N.land (pK b) (color_combined b c)) = 1 ->
  king_sq (abs_board b) c = Some (king_square b c).
Proof. exact king_square_spec. Qed.
Check C03_king_square_spec :
  forall b c, Consistent b -> popcnt (N.land (pK b) (color_combined b c)) = 1 ->
  king_sq (abs_board b) c = Some (king_square b c).
Print Assumptions C03_king_square_spec.

Theorem C03_kings_abs :
  forall b c, Consistent b ->
  kings (abs_board b) c = popcnt (N.land (pK b) (color_combined b c)).
Proof. exact kings_abs. Qed.
Check C03_kings_abs :
  forall b c, Consistent b ->
  kings (abs_board b) c = popcnt (N.land (pK b) (color_combined b c)).
Print Assumptions C03_kings_abs.

(** [Board::xor] of a man onto an empty square keeps the words consistent *)
Theorem C03_xor_piece_consistent :
  forall b p s c, Consistent b -> s < 64 -> N.testbit (comb b) s = false ->
  Consistent (xor_piece b p (bit s) c).
Proof. exact xor_piece_consistent. Qed.
Check C03_xor_piece_consistent :
  forall b p s c, Consistent b -> s < 64 -> N.testbit (comb b) s = false ->
  Consistent (xor_piece b p (bit s) c).
Print Assumptions C03_xor_piece_consistent.

Theorem C03_place_all_consistent :
  forall pcs, Consistent (place_all pcs).
Proof. exact place_all_consistent. Qed.
Check C03_place_all_consistent :
  forall pcs, Consistent (place_all pcs).
Print Assumptions C03_place_all_consistent.

Theorem C03_at_place_all :
  forall pcs s, s < 64 -> at_ (abs_board (place_all pcs)) s = nth (N.to_nat s) pcs None.
Proof. exact at_place_all. Qed.
Check C03_at_place_all :
  forall pcs s, s < 64 -> at_ (abs_board (place_all pcs)) s = nth (N.to_nat s) pcs None.
Print Assumptions C03_at_place_all.

Theorem C03_placement_place_all :
  forall pcs, length pcs = 64%nat -> placement (abs_board (place_all pcs)) = pcs.
Proof. exact placement_place_all. Qed.
Check C03_placement_place_all :
  forall pcs, length pcs = 64%nat -> placement (abs_board (place_all pcs)) = pcs.
Print Assumptions C03_placement_place_all.

Theorem C03_from_scratch_consistent :
  forall p, Consistent (from_scratch p).
Proof. exact from_scratch_consistent. Qed.
Check C03_from_scratch_consistent :
  forall p, Consistent (from_scratch p).
Print Assumptions C03_from_scratch_consistent.

Theorem C03_from_scratch_at :
  forall p s, s < 64 -> at_ (abs_board (from_scratch p)) s = at_ p s.
Proof. exact from_scratch_at. Qed.
Check C03_from_scratch_at :
  forall p s, s < 64 -> at_ (abs_board (from_scratch p)) s = at_ p s.
Print Assumptions C03_from_scratch_at.

(** ** 2. Attacks in bitboard form *)
Theorem C03_slides_slide :
  forall p w, (forall x, x < 64 -> occ p x = N.testbit w x) ->
  forall ds s t, s < 64 -> (In t (slides p s ds) <-> N.testbit (slide ds s w) t = true).
Proof. exact slides_slide. Qed.
Check C03_slides_slide :
  forall p w, (forall x, x < 64 -> occ p x = N.testbit w x) ->
  forall ds s t, s < 64 -> (In t (slides p s ds) <-> N.testbit (slide ds s w) t = true).
Print Assumptions C03_slides_slide.

(** ray walking = aligned and nothing in between (any occupancy word) *)
Theorem C03_rook_walk_between :
  forall s t occ0, s < 64 -> t < 64 ->
  N.testbit (rook_walk s occ0) t = aligned_o s t && (N.land (between s t) occ0 =? 0).
Proof. exact rook_walk_between. Qed.
Check C03_rook_walk_between :
  forall s t occ0, s < 64 -> t < 64 ->
  N.testbit (rook_walk s occ0) t = aligned_o s t && (N.land (between s t) occ0 =? 0).
Print Assumptions C03_rook_walk_between.

Theorem C03_bishop_walk_between :
  forall s t occ0, s < 64 -> t < 64 ->
  N.testbit (bishop_walk s occ0) t = aligned_d s t && (N.land (between s t) occ0 =? 0).
Proof. exact bishop_walk_between. Qed.
Check C03_bishop_walk_between :
  forall s t occ0, s < 64 -> t < 64 ->
  N.testbit (bishop_walk s occ0) t = aligned_d s t && (N.land (between s t) occ0 =? 0).
Print Assumptions C03_bishop_walk_between.

Theorem C03_rook_walk_sym :
  forall s t occ0, s < 64 -> t < 64 ->
  N.testbit (rook_walk s occ0) t = N.testbit (rook_walk t occ0) s.
Proof. exact rook_walk_sym. Qed.
Check C03_rook_walk_sym :
  forall s t occ0, s < 64 -> t < 64 ->
  N.testbit (rook_walk s occ0) t = N.testbit (rook_walk t occ0) s.
Print Assumptions C03_rook_walk_sym.

Theorem C03_bishop_walk_sym :
  forall s t occ0, s < 64 -> t < 64 ->
  N.testbit (bishop_walk s occ0) t = N.testbit (bishop_walk t occ0) s.
Proof. exact bishop_walk_sym. Qed.
Check C03_bishop_walk_sym :
  forall s t occ0, s < 64 -> t < 64 ->
  N.testbit (bishop_walk s occ0) t = N.testbit (bishop_walk t occ0) s.
Print Assumptions C03_bishop_walk_sym.

Theorem C03_knight_steps :
  forall s t, s < 64 -> t < 64 ->
  (In t (steps s knight_dirs) <-> N.testbit (knight_moves s) t = true).
Proof. exact knight_steps. Qed.
Check C03_knight_steps :
  forall s t, s < 64 -> t < 64 ->
  (In t (steps s knight_dirs) <-> N.testbit (knight_moves s) t = true).
Print Assumptions C03_knight_steps.

Theorem C03_king_steps :
  forall s t, s < 64 -> t < 64 ->
  (In t (steps s king_dirs) <-> N.testbit (king_moves s) t = true).
Proof. exact king_steps. Qed.
Check C03_king_steps :
  forall s t, s < 64 -> t < 64 ->
  (In t (steps s king_dirs) <-> N.testbit (king_moves s) t = true).
Print Assumptions C03_king_steps.

Theorem C03_pawn_steps :
  forall c s t, s < 64 -> t < 64 ->
  (In t (steps s (pawn_caps c)) <-> N.testbit (pawn_attack_tab (is_white c) s) t = true).
Proof. exact pawn_steps. Qed.
Check C03_pawn_steps :
  forall c s t, s < 64 -> t < 64 ->
  (In t (steps s (pawn_caps c)) <-> N.testbit (pawn_attack_tab (is_white c) s) t = true).
Print Assumptions C03_pawn_steps.

Theorem C03_pawn_attack_sym :
  forall c s t, s < 64 -> t < 64 ->
  N.testbit (pawn_attack_tab (is_white c) s) t = N.testbit (pawn_attack_tab (is_white (opp c)) t) s.
Proof. exact pawn_attack_sym. Qed.
Check C03_pawn_attack_sym :
  forall c s t, s < 64 -> t < 64 ->
  N.testbit (pawn_attack_tab (is_white c) s) t = N.testbit (pawn_attack_tab (is_white (opp c)) t) s.
Print Assumptions C03_pawn_attack_sym.

Theorem C03_attack_set_canon :
  forall b s t, Consistent b -> s < 64 -> t < 64 ->
  (In t (attack_set (abs_board b) s) <-> N.testbit (attack_bb b s) t = true).
Proof. exact attack_set_canon. Qed.
Check C03_attack_set_canon :
  forall b s t, Consistent b -> s < 64 -> t < 64 ->
  (In t (attack_set (abs_board b) s) <-> N.testbit (attack_bb b s) t = true).
Print Assumptions C03_attack_set_canon.

(** the men of colour [c] attacking [k] are the attackers-to word *)
Theorem C03_attackers_canon :
  forall b c s k, Consistent b -> k < 64 ->
  (In s (attackers (abs_board b) c k) <-> s < 64 /\ N.testbit (attackers_bb b c k) s = true).
Proof. exact attackers_canon. Qed.
Check C03_attackers_canon :
  forall b c s k, Consistent b -> k < 64 ->
  (In s (attackers (abs_board b) c k) <-> s < 64 /\ N.testbit (attackers_bb b c k) s = true).
Print Assumptions C03_attackers_canon.

Theorem C03_attacked_by_canon :
  forall b c k, Consistent b -> k < 64 ->
  attacked_by (abs_board b) c k = negb (attackers_bb b c k =? 0).
Proof. exact attacked_by_canon. Qed.
Check C03_attacked_by_canon :
  forall b c k, Consistent b -> k < 64 ->
  attacked_by (abs_board b) c k = negb (attackers_bb b c k =? 0).
Print Assumptions C03_attacked_by_canon.

(** ** 3. The caches computed by [update_pin_info] *)
(** the check cache is exactly the rules' set of checkers *)
Theorem C03_checkers_canon :
  forall b, Consistent b -> popcnt (N.land (pK b) (color_combined b (stm b))) = 1 ->
  forall s, kings_apart b -> s < 64 ->
  (N.testbit (checkers (update_pin_info b)) s = true <-> In s (checkers_of (abs_board b))).
Proof. exact checkers_canon. Qed.
Check C03_checkers_canon :
  forall b, Consistent b -> popcnt (N.land (pK b) (color_combined b (stm b))) = 1 ->
  forall s, kings_apart b -> s < 64 ->
  (N.testbit (checkers (update_pin_info b)) s = true <-> In s (checkers_of (abs_board b))).
Print Assumptions C03_checkers_canon.

Theorem C03_checkers_canon_word :
  forall b, Consistent b -> popcnt (N.land (pK b) (color_combined b (stm b))) = 1 -> kings_apart b ->
  checkers (update_pin_info b) = attackers_bb b (opp (stm b)) (king_square b (stm b)).
Proof. exact checkers_canon_word. Qed.
Check C03_checkers_canon_word :
  forall b, Consistent b -> popcnt (N.land (pK b) (color_combined b (stm b))) = 1 -> kings_apart b ->
  checkers (update_pin_info b) = attackers_bb b (opp (stm b)) (king_square b (stm b)).
Print Assumptions C03_checkers_canon_word.

Theorem C03_checkers_lt64 :
  forall b, Consistent b -> checkers (update_pin_info b) < 2^64.
Proof. exact checkers_lt64. Qed.
Check C03_checkers_lt64 :
  forall b, Consistent b -> checkers (update_pin_info b) < 2^64.
Print Assumptions C03_checkers_lt64.

Theorem C03_checkers_in_check :
  forall b, Consistent b -> popcnt (N.land (pK b) (color_combined b (stm b))) = 1 -> kings_apart b ->
  (checkers (update_pin_info b) <> 0 <-> in_check (abs_board b) (stm b) = true).
Proof. exact checkers_in_check. Qed.
Check C03_checkers_in_check :
  forall b, Consistent b -> popcnt (N.land (pK b) (color_combined b (stm b))) = 1 -> kings_apart b ->
  (checkers (update_pin_info b) <> 0 <-> in_check (abs_board b) (stm b) = true).
Print Assumptions C03_checkers_in_check.

(** the pin cache, restricted to the mover's men, is exactly the rules' set of absolutely pinned men *)
Theorem C03_pinned_canon :
  forall b, Consistent b -> popcnt (N.land (pK b) (color_combined b (stm b))) = 1 ->
  forall s, s < 64 ->
  (N.testbit (N.land (pinned (update_pin_info b)) (color_combined b (stm b))) s = true
   <-> In s (pinned_of (abs_board b))).
Proof. exact pinned_canon. Qed.
Check C03_pinned_canon :
  forall b, Consistent b -> popcnt (N.land (pK b) (color_combined b (stm b))) = 1 ->
  forall s, s < 64 ->
  (N.testbit (N.land (pinned (update_pin_info b)) (color_combined b (stm b))) s = true
   <-> In s (pinned_of (abs_board b))).
Print Assumptions C03_pinned_canon.

(** ** 4. The caches stored in from-scratch boards of valid positions *)
Theorem C03_from_scratch_checkers :
  forall p, pos_valid p = true -> abs_board (from_scratch p) = p ->
  forall s, s < 64 -> (N.testbit (checkers (from_scratch p)) s = true <-> In s (checkers_of p)).
Proof. exact from_scratch_checkers. Qed.
Check C03_from_scratch_checkers :
  forall p, pos_valid p = true -> abs_board (from_scratch p) = p ->
  forall s, s < 64 -> (N.testbit (checkers (from_scratch p)) s = true <-> In s (checkers_of p)).
Print Assumptions C03_from_scratch_checkers.

Theorem C03_from_scratch_pinned :
  forall p, pos_valid p = true -> abs_board (from_scratch p) = p ->
  forall s, s < 64 ->
  (N.testbit (N.land (pinned (from_scratch p)) (color_combined (from_scratch p) (turn p))) s = true
   <-> In s (pinned_of p)).
Proof. exact from_scratch_pinned. Qed.
Check C03_from_scratch_pinned :
  forall p, pos_valid p = true -> abs_board (from_scratch p) = p ->
  forall s, s < 64 ->
  (N.testbit (N.land (pinned (from_scratch p)) (color_combined (from_scratch p) (turn p))) s = true
   <-> In s (pinned_of p)).
Print Assumptions C03_from_scratch_pinned.

Theorem C03_from_scratch_in_check :
  forall p, pos_valid p = true -> abs_board (from_scratch p) = p ->
  (checkers (from_scratch p) <> 0 <-> in_check p (turn p) = true).
Proof. exact from_scratch_in_check. Qed.
Check C03_from_scratch_in_check :
  forall p, pos_valid p = true -> abs_board (from_scratch p) = p ->
  (checkers (from_scratch p) <> 0 <-> in_check p (turn p) = true).
Print Assumptions C03_from_scratch_in_check.

(** ** 5. Non-vacuity, and the need for [kings_apart] *)
Theorem C03_ex_startboard :
  Consistent (place_all (placement startpos)).
Proof. exact startboard_consistent. Qed.
Check C03_ex_startboard :
  Consistent (place_all (placement startpos)).
Print Assumptions C03_ex_startboard.

Theorem C03_ex_pinned :
  popcnt (N.land (pK (from_scratch pinpos)) (color_combined (from_scratch pinpos) (stm (from_scratch pinpos)))) = 1 /\
  pinned (from_scratch pinpos) = bit 12 /\ pinned_of pinpos = [12] /\ checkers (from_scratch pinpos) = 0 /\
  checkers_of pinpos = [] /\ abs_board (from_scratch pinpos) = pinpos.
Proof. exact pinned_ex. Qed.
Check C03_ex_pinned :
  popcnt (N.land (pK (from_scratch pinpos)) (color_combined (from_scratch pinpos) (stm (from_scratch pinpos)))) = 1 /\
  pinned (from_scratch pinpos) = bit 12 /\ pinned_of pinpos = [12] /\ checkers (from_scratch pinpos) = 0 /\
  checkers_of pinpos = [] /\ abs_board (from_scratch pinpos) = pinpos.
Print Assumptions C03_ex_pinned.

Theorem C03_ex_from_scratch :
  pos_valid pinpos = true /\ abs_board (from_scratch pinpos) = pinpos /\
  N.land (pinned (from_scratch pinpos)) (color_combined (from_scratch pinpos) (turn pinpos)) = bit 12 /\
  pinned_of pinpos = [12].
Proof. exact from_scratch_ex. Qed.
Check C03_ex_from_scratch :
  pos_valid pinpos = true /\ abs_board (from_scratch pinpos) = pinpos /\
  N.land (pinned (from_scratch pinpos)) (color_combined (from_scratch pinpos) (turn pinpos)) = bit 12 /\
  pinned_of pinpos = [12].
Print Assumptions C03_ex_from_scratch.

(** with adjacent kings (not a valid position) the library's cache omits the enemy king *)
Theorem C03_ex_kings_apart_needed :
  abs_board (from_scratch adjpos) = adjpos /\
  popcnt (N.land (pK (from_scratch adjpos)) (color_combined (from_scratch adjpos) (stm (from_scratch adjpos)))) = 1 /\
  checkers (update_pin_info (from_scratch adjpos)) = 0 /\ checkers_of adjpos = [12].
Proof. exact kings_apart_needed. Qed.
Check C03_ex_kings_apart_needed :
  abs_board (from_scratch adjpos) = adjpos /\
  popcnt (N.land (pK (from_scratch adjpos)) (color_combined (from_scratch adjpos) (stm (from_scratch adjpos)))) = 1 /\
  checkers (update_pin_info (from_scratch adjpos)) = 0 /\ checkers_of adjpos = [12].
Print Assumptions C03_ex_kings_apart_needed.

(** ** 6. The incremental half — stated, NOT proved here (someone else's task).
    A board reached from a canonical board of a valid position by a legal move, through either
    textual copy of [make_move], is the from-scratch board of the successor position. *)
Definition C03_incremental_full : Prop :=
  forall b m, Canonical b -> pos_valid (abs_board b) = true -> In m (legal_moves (abs_board b)) ->
  (exists b', make_move_new b (src m) (dst m) (promo m) = Some b' /\
              b' = from_scratch (apply (abs_board b) m)) /\
  (forall r0, exists b', make_move b (src m) (dst m) (promo m) r0 = Some b' /\
              b' = from_scratch (apply (abs_board b) m)).

