(** * Proofs.AcceptGapWitness — accepted witnesses for every clause of [AcceptGap.extra]
    (each violates that clause alone), and what the model's move generator and
    [make_move_new] do on them (no overflow, no [None]; agreement or disagreement with the
    oracle [legal_moves] / [apply], recorded exactly as evaluated). *)
From Coq Require Import NArith ZArith List Bool Lia String Permutation.
From Chess Require Import Base.Bits Base.Text Spec.Geometry Spec.Rules Spec.Draw
  Model.Board Model.MoveGen Model.Fen.
From Chess Require Import Proofs.ParseTotal Proofs.StatusModel Proofs.DrawMeasure Proofs.AcceptGap.
Import ListNotations.
Open Scope N_scope.

(** ** 0. Tools: from a boolean evaluation on the parsed board to the statement *)
Lemma parsed_witness_b (s:str) (f:board->bool) (P:board->Prop) :
  (forall b, f b = true -> P b) ->
  match board_from_str s with Ok b => f b | _ => false end = true ->
  exists b, board_from_str s = Ok b /\ P b.
Proof.
  intros HP H. destruct (board_from_str s) as [b| |]; try discriminate H.
  exists b. split; [reflexivity|exact (HP b H)].
Qed.

(** a boolean permutation test on move lists *)
Fixpoint remove1 (m:cmove) (l:list cmove) : option (list cmove) :=
  match l with
  | [] => None
  | x :: r => if cmove_eqb m x then Some r else option_map (cons x) (remove1 m r)
  end.
Fixpoint perm_b (l1 l2:list cmove) : bool :=
  match l1 with
  | [] => match l2 with [] => true | _ => false end
  | m :: r => match remove1 m l2 with Some l2' => perm_b r l2' | None => false end
  end.
Lemma remove1_perm m l : forall l', remove1 m l = Some l' -> Permutation l (m :: l').
Proof.
  induction l as [|x r IH]; cbn [remove1]; intros l' H; [discriminate H|].
  destruct (cmove_eqb m x) eqn:E.
  - injection H as <-. apply cmove_eqb_eq in E. subst x. apply Permutation_refl.
  - destruct (remove1 m r) as [r'|]; [|discriminate H]. cbn [option_map] in H. injection H as <-.
    eapply perm_trans; [apply perm_skip, (IH r' eq_refl)|apply perm_swap].
Qed.
Lemma perm_b_sound l1 : forall l2, perm_b l1 l2 = true -> Permutation l1 l2.
Proof.
  induction l1 as [|m r IH]; intros l2; cbn [perm_b].
  - destruct l2; [intros _; constructor|discriminate].
  - destruct (remove1 m l2) as [l2'|] eqn:E; [|discriminate]. intro H.
    eapply perm_trans; [apply perm_skip, (IH l2' H)|apply Permutation_sym, remove1_perm, E].
Qed.

(** the behaviours recorded *)
Definition oracle_moves (b:board) : list cmove := map of_spec_move (legal_moves (abs_board b)).
(** every generated move is applied without panic and the result passes [is_sane] *)
Definition runs_all (b:board) : Prop :=
  forall m, In m (moves_of b) ->
    exists b', make_move_new b (msrc m) (mdst m) (mpromo m) = Some b' /\ is_sane b' = true.
(** ... and shows the oracle's successor position *)
Definition agrees_on (b:board) (m:cmove) : Prop :=
  exists b', make_move_new b (msrc m) (mdst m) (mpromo m) = Some b' /\
             abs_board b' = apply (abs_board b) (to_spec_move m).
Definition agrees_all (b:board) : Prop := forall m, In m (moves_of b) -> agrees_on b m.

Definition move_runs (b:board) (m:cmove) : bool :=
  match make_move_new b (msrc m) (mdst m) (mpromo m) with Some b' => is_sane b' | None => false end.
Definition move_agrees (b:board) (m:cmove) : bool :=
  match make_move_new b (msrc m) (mdst m) (mpromo m) with
  | Some b' => pos_eqb (abs_board b') (apply (abs_board b) (to_spec_move m)) | None => false end.
Lemma move_runs_sound b : forallb (move_runs b) (moves_of b) = true -> runs_all b.
Proof.
  intros H m Hm. rewrite forallb_forall in H. specialize (H m Hm). unfold move_runs in H.
  destruct (make_move_new b (msrc m) (mdst m) (mpromo m)) as [b'|]; [|discriminate H].
  exists b'. split; [reflexivity|exact H].
Qed.
Lemma move_agrees_sound b m : move_agrees b m = true -> agrees_on b m.
Proof.
  unfold move_agrees, agrees_on. intro H.
  destruct (make_move_new b (msrc m) (mdst m) (mpromo m)) as [b'|]; [|discriminate H].
  exists b'. split; [reflexivity|apply pos_eqb_eq, H].
Qed.
Lemma moves_agree_sound b : forallb (move_agrees b) (moves_of b) = true -> agrees_all b.
Proof.
  intros H m Hm. rewrite forallb_forall in H. exact (move_agrees_sound b m (H m Hm)).
Qed.

(** the whole "the model behaves like the oracle here" record *)
Definition good_behaviour (n:nat) (b:board) : Prop :=
  movelist_overflow b = false /\ length (moves_of b) = n /\
  runs_all b /\ agrees_all b /\ Permutation (moves_of b) (oracle_moves b).
Definition check_good (n:nat) (b:board) : bool :=
  negb (movelist_overflow b) && (length (moves_of b) =? n)%nat
  && forallb (move_runs b) (moves_of b) && forallb (move_agrees b) (moves_of b)
  && perm_b (moves_of b) (oracle_moves b).
Lemma check_good_sound n b : check_good n b = true -> good_behaviour n b.
Proof.
  unfold check_good, good_behaviour. rewrite !andb_true_iff.
  intros [[[[H1 H2] H3] H4] H5].
  split; [destruct (movelist_overflow b); [discriminate H1|reflexivity]|].
  split; [apply Nat.eqb_eq, H2|].
  split; [exact (move_runs_sound b H3)|].
  split; [exact (moves_agree_sound b H4)|exact (perm_b_sound _ _ H5)].
Qed.

(** the gap record of a witness: accepted, [weak_valid], not valid, and the profile *)
Definition in_gap (prof:list bool) (b:board) : Prop :=
  pos_valid (abs_board b) = false /\ weak_valid (abs_board b) = true /\
  gap_profile (abs_board b) = prof.
Definition prof_eqb (a c:list bool) : bool :=
  (length a =? length c)%nat && forallb (fun xy => Bool.eqb (fst xy) (snd xy)) (combine a c).
Lemma prof_eqb_eq a : forall c, prof_eqb a c = true -> a = c.
Proof.
  unfold prof_eqb. induction a as [|x a IH]; intros [|y c]; cbn [length combine forallb Nat.eqb fst snd];
    try discriminate; [reflexivity|].
  rewrite !andb_true_iff. intros [Hl [Hx Hr]]. apply Bool.eqb_prop in Hx. subst y.
  f_equal. apply IH. rewrite Hl, Hr. reflexivity.
Qed.
Definition check_gap (prof:list bool) (b:board) : bool :=
  negb (pos_valid (abs_board b)) && weak_valid (abs_board b)
  && prof_eqb (gap_profile (abs_board b)) prof.
Lemma check_gap_sound prof b : check_gap prof b = true -> in_gap prof b.
Proof.
  unfold check_gap, in_gap. rewrite !andb_true_iff. intros [[H1 H2] H3].
  split; [destruct (pos_valid (abs_board b)); [discriminate H1|reflexivity]|].
  split; [exact H2|apply prof_eqb_eq, H3].
Qed.

Ltac gap_witness :=
  match goal with |- exists b, _ /\ in_gap ?prof b =>
    apply (parsed_witness_b _ (check_gap prof)); [exact (check_gap_sound prof)|vm_compute; reflexivity] end.
Ltac good_witness :=
  match goal with |- exists b, _ /\ good_behaviour ?n b =>
    apply (parsed_witness_b _ (check_good n)); [exact (check_good_sound n)|vm_compute; reflexivity] end.

(** ** 1. The witnesses.  Profile order: white pawns <= 8, black pawns <= 8, no pawn on ranks
    1 / 8, e.p. target empty, e.p. origin empty, no check before the double push. *)
(** nine white pawns *)
Definition fen_white_pawns : str := s_of "4k3/8/8/8/8/P7/PPPPPPPP/4K3 w - - 0 1"%string.
(** nine black pawns *)
Definition fen_black_pawns : str := s_of "4k3/pppppppp/p7/8/8/8/8/4K3 w - - 0 1"%string.
(** a white pawn on a1 (the witness of [PerftGame.ex_accepted_not_valid]), a black pawn on a8,
    a white pawn on a8, a black pawn on a1 *)
Definition fen_backrank : str := s_of "4k3/8/8/8/8/8/8/P3K3 w - - 0 1"%string.
Definition fen_backrank_black8 : str := s_of "p3k3/8/8/8/8/8/8/4K3 b - - 0 1"%string.
Definition fen_backrank_white8 : str := s_of "P3k3/8/8/8/8/8/8/4K3 w - - 0 1"%string.
Definition fen_backrank_black1 : str := s_of "4k3/8/8/8/8/8/8/p3K3 b - - 0 1"%string.
(** white has "just played d2-d4" but a white knight stands on the target d3 / a black knight
    stands on d3 *)
Definition fen_ep_target : str := s_of "4k3/8/8/8/3Pp3/3N4/8/4K3 b - d3 0 1"%string.
Definition fen_ep_target_own : str := s_of "4k3/8/8/8/3Pp3/3n4/8/7K b - d3 0 1"%string.
(** ... but a white knight stands on d2, where the pawn came from *)
Definition fen_ep_origin : str := s_of "4k3/8/8/8/3Pp3/8/3N4/4K3 b - d3 0 1"%string.
(** ... but with the pawn back on d2 the bishop a1 checks the king h8 (with White to move) *)
Definition fen_ep_prior_check : str := s_of "7k/8/8/8/3Pp3/8/8/B3K3 b - d3 0 1"%string.

Theorem gap_white_pawns :
  exists b, board_from_str fen_white_pawns = Ok b /\ in_gap [false;true;true;true;true;true] b.
Proof. gap_witness. Qed.
Theorem gap_black_pawns :
  exists b, board_from_str fen_black_pawns = Ok b /\ in_gap [true;false;true;true;true;true] b.
Proof. gap_witness. Qed.
Theorem gap_backrank :
  exists b, board_from_str fen_backrank = Ok b /\ in_gap [true;true;false;true;true;true] b.
Proof. gap_witness. Qed.
Theorem gap_backrank_black8 :
  exists b, board_from_str fen_backrank_black8 = Ok b /\ in_gap [true;true;false;true;true;true] b.
Proof. gap_witness. Qed.
Theorem gap_backrank_white8 :
  exists b, board_from_str fen_backrank_white8 = Ok b /\ in_gap [true;true;false;true;true;true] b.
Proof. gap_witness. Qed.
Theorem gap_backrank_black1 :
  exists b, board_from_str fen_backrank_black1 = Ok b /\ in_gap [true;true;false;true;true;true] b.
Proof. gap_witness. Qed.
Theorem gap_ep_target :
  exists b, board_from_str fen_ep_target = Ok b /\ in_gap [true;true;true;false;true;true] b.
Proof. gap_witness. Qed.
Theorem gap_ep_target_own :
  exists b, board_from_str fen_ep_target_own = Ok b /\ in_gap [true;true;true;false;true;true] b.
Proof. gap_witness. Qed.
Theorem gap_ep_origin :
  exists b, board_from_str fen_ep_origin = Ok b /\ in_gap [true;true;true;true;false;true] b.
Proof. gap_witness. Qed.
Theorem gap_ep_prior_check :
  exists b, board_from_str fen_ep_prior_check = Ok b /\ in_gap [true;true;true;true;true;false] b.
Proof. gap_witness. Qed.

(** the hypothesis of [valid_iff_accepted_and_extra] is satisfiable on both sides of the
    equivalence: the start position (valid, [extra] holds) and the a1-pawn witness *)
Example valid_iff_extra_ex_start :
  try_from_builder (builder_of_pos startpos) = Some (from_scratch startpos) /\
  pos_valid (abs_board (from_scratch startpos)) = true /\
  extra (abs_board (from_scratch startpos)) = true.
Proof. split; [|split]; vm_compute; reflexivity. Qed.
Example valid_iff_extra_ex_gap :
  exists b, board_from_str fen_backrank = Ok b /\
            pos_valid (abs_board b) = false /\ extra (abs_board b) = false.
Proof.
  apply (parsed_witness_b _ (fun b => negb (pos_valid (abs_board b)) && negb (extra (abs_board b)))).
  - intros b H. apply andb_true_iff in H. destruct H as [H1 H2].
    destruct (pos_valid (abs_board b)); [discriminate H1|].
    destruct (extra (abs_board b)); [discriminate H2|]. split; reflexivity.
  - vm_compute. reflexivity.
Qed.
(** [weak_valid_accepted] / [accepted_iff_weak_valid]: a [weak_valid] position that is not
    valid (nine white pawns) *)
Definition nine_pawns : pos :=
  {| placement := fold_left (fun l s => updN l s (Some (Pawn,White))) [8;9;10;11;12;13;14;15;16]
                    (updN (updN (repeat None 64) 4 (Some (King,White))) 60 (Some (King,Black)));
     turn := White; wk := false; wq := false; bk := false; bq := false; ep := None |}.
Example weak_valid_ex_nine_pawns :
  weak_valid nine_pawns = true /\ pos_valid nine_pawns = false /\
  length (placement nine_pawns) = 64%nat /\ ep nine_pawns = None /\
  try_from_builder (builder_of_pos nine_pawns) = Some (from_scratch nine_pawns) /\
  abs_board (from_scratch nine_pawns) = nine_pawns.
Proof.
  assert (Hw : weak_valid nine_pawns = true) by (vm_compute; reflexivity).
  split; [exact Hw|]. split; [vm_compute; reflexivity|]. split; [reflexivity|].
  split; [reflexivity|]. exact (weak_valid_accepted nine_pawns Hw).
Qed.
(** ... and one with a recorded en-passant target ([RoundTripAbs.eppos], valid) *)
Example weak_valid_ex_ep :
  weak_valid RoundTripAbs.eppos = true /\ ep RoundTripAbs.eppos = Some 43.
Proof. split; [vm_compute; reflexivity|reflexivity]. Qed.

(** ** 2. What the model does on the witnesses *)
(** pawn counts, back ranks, occupied origin, prior check: no overflow, every generated move
    is applied without panic to an [is_sane] board showing the oracle's successor, and the
    generated moves are a permutation of the oracle's legal moves *)
Theorem moves_white_pawns :
  exists b, board_from_str fen_white_pawns = Ok b /\ good_behaviour 17 b.
Proof. good_witness. Qed.
Theorem moves_black_pawns :
  exists b, board_from_str fen_black_pawns = Ok b /\ good_behaviour 5 b.
Proof. good_witness. Qed.
Theorem moves_backrank :
  exists b, board_from_str fen_backrank = Ok b /\ good_behaviour 6 b.
Proof. good_witness. Qed.
Theorem moves_backrank_black8 :
  exists b, board_from_str fen_backrank_black8 = Ok b /\ good_behaviour 6 b.
Proof. good_witness. Qed.
Theorem moves_backrank_white8 :
  exists b, board_from_str fen_backrank_white8 = Ok b /\ good_behaviour 5 b.
Proof. good_witness. Qed.
Theorem moves_backrank_black1 :
  exists b, board_from_str fen_backrank_black1 = Ok b /\ good_behaviour 5 b.
Proof. good_witness. Qed.
Theorem moves_ep_origin :
  exists b, board_from_str fen_ep_origin = Ok b /\ good_behaviour 7 b.
Proof. good_witness. Qed.
Theorem moves_ep_prior_check :
  exists b, board_from_str fen_ep_prior_check = Ok b /\ good_behaviour 4 b.
Proof. good_witness. Qed.

(** the pawn on a1 may advance (a1-a2, in the model and in the oracle alike), which leaves the
    gap; any king move stays in it: the gap is neither closed under moves nor left at once *)
Theorem gap_not_closed_under_moves :
  exists b b1 b2, board_from_str fen_backrank = Ok b /\
    In {| msrc := 0; mdst := 8; mpromo := None |} (moves_of b) /\
    make_move_new b 0 8 None = Some b1 /\ is_sane b1 = true /\ pos_valid (abs_board b1) = true /\
    In {| msrc := 4; mdst := 3; mpromo := None |} (moves_of b) /\
    make_move_new b 4 3 None = Some b2 /\ is_sane b2 = true /\ pos_valid (abs_board b2) = false.
Proof.
  assert (H : match board_from_str fen_backrank with
              | Ok b => match make_move_new b 0 8 None, make_move_new b 4 3 None with
                        | Some b1, Some b2 =>
                          existsb (cmove_eqb {| msrc := 0; mdst := 8; mpromo := None |}) (moves_of b)
                          && is_sane b1 && pos_valid (abs_board b1)
                          && existsb (cmove_eqb {| msrc := 4; mdst := 3; mpromo := None |}) (moves_of b)
                          && is_sane b2 && negb (pos_valid (abs_board b2))
                        | _, _ => false end
              | _ => false end = true) by (vm_compute; reflexivity).
  destruct (board_from_str fen_backrank) as [b| |]; try discriminate H.
  destruct (make_move_new b 0 8 None) as [b1|] eqn:E08; [|discriminate H].
  destruct (make_move_new b 4 3 None) as [b2|] eqn:E43; [|discriminate H].
  rewrite !andb_true_iff in H. destruct H as [[[[[H1 H2] H3] H4] H5] H6].
  exists b, b1, b2. split; [reflexivity|].
  apply existsb_exists in H1. destruct H1 as [m1 [Hm1 E1]]. apply cmove_eqb_eq in E1. subst m1.
  apply existsb_exists in H4. destruct H4 as [m2 [Hm2 E2]]. apply cmove_eqb_eq in E2. subst m2.
  split; [exact Hm1|]. split; [exact E08|]. split; [exact H2|]. split; [exact H3|].
  split; [exact Hm2|]. split; [exact E43|]. split; [exact H5|].
  destruct (pos_valid (abs_board b2)); [discriminate H6|reflexivity].
Qed.

(** *** the occupied en-passant target: model and oracle part ways *)
Definition ep_capture : cmove := {| msrc := 28; mdst := 19; mpromo := None |}.   (* e4xd3 *)

(** an enemy knight on the target: the generator lists e4xd3 TWICE (as a capture and as the
    en-passant capture), so [moves_of] has a duplicate and is not a permutation of the
    oracle's seven moves; no overflow, no panic, every result [is_sane]; but [make_move_new]
    on e4xd3 removes BOTH the knight on d3 and the pawn on d4, where the oracle's [apply]
    (which requires an empty destination for an en-passant capture) removes the knight only;
    every other move agrees with the oracle *)
Definition ep_target_behaviour (b:board) : Prop :=
  movelist_overflow b = false /\
  moves_of b = [ep_capture; {| msrc := 28; mdst := 20; mpromo := None |}; ep_capture;
                {| msrc := 60; mdst := 51; mpromo := None |}; {| msrc := 60; mdst := 52; mpromo := None |};
                {| msrc := 60; mdst := 53; mpromo := None |}; {| msrc := 60; mdst := 59; mpromo := None |};
                {| msrc := 60; mdst := 61; mpromo := None |}] /\
  length (oracle_moves b) = 7%nat /\ In ep_capture (oracle_moves b) /\
  (forall m, In m (moves_of b) <-> In m (oracle_moves b)) /\
  ~ NoDup (moves_of b) /\ ~ Permutation (moves_of b) (oracle_moves b) /\
  runs_all b /\ (forall m, In m (moves_of b) -> m <> ep_capture -> agrees_on b m) /\
  exists b', make_move_new b 28 19 None = Some b' /\ is_sane b' = true /\
    abs_board b' <> apply (abs_board b) (mv 28 19) /\
    at_ (abs_board b) 19 = Some (Knight,White) /\ at_ (abs_board b) 27 = Some (Pawn,White) /\
    at_ (abs_board b') 19 = Some (Pawn,Black) /\ at_ (abs_board b') 27 = None /\
    at_ (apply (abs_board b) (mv 28 19)) 19 = Some (Pawn,Black) /\
    at_ (apply (abs_board b) (mv 28 19)) 27 = Some (Pawn,White).

Lemma pc_eqb_eq x y : pc_eqb x y = true -> x = y.
Proof.
  destruct x as [[t c]|], y as [[t' c']|]; cbn [pc_eqb]; try discriminate; [|reflexivity].
  intro H. apply andb_true_iff in H. destruct H as [H1 H2].
  destruct t, t'; try discriminate H1; destruct c, c'; try discriminate H2; reflexivity.
Qed.
Fixpoint mlist_eq (a c:list cmove) : bool :=
  match a, c with
  | [], [] => true
  | x :: a', y :: c' => cmove_eqb x y && mlist_eq a' c'
  | _, _ => false end.
Lemma mlist_eq_eq a : forall c, mlist_eq a c = true -> a = c.
Proof.
  induction a as [|x a IH]; intros [|y c]; cbn [mlist_eq]; try discriminate; [reflexivity|].
  intro H. apply andb_true_iff in H. destruct H as [H1 H2].
  apply cmove_eqb_eq in H1. subst y. f_equal. exact (IH c H2).
Qed.

Definition ep_target_moves : list cmove :=
  [ep_capture; {| msrc := 28; mdst := 20; mpromo := None |}; ep_capture;
   {| msrc := 60; mdst := 51; mpromo := None |}; {| msrc := 60; mdst := 52; mpromo := None |};
   {| msrc := 60; mdst := 53; mpromo := None |}; {| msrc := 60; mdst := 59; mpromo := None |};
   {| msrc := 60; mdst := 61; mpromo := None |}].
Definition check_ep_target (b:board) : bool :=
  negb (movelist_overflow b) && mlist_eq (moves_of b) ep_target_moves
  && (length (oracle_moves b) =? 7)%nat
  && existsb (cmove_eqb ep_capture) (oracle_moves b)
  && forallb (fun m => existsb (cmove_eqb m) (oracle_moves b)) (moves_of b)
  && forallb (fun m => existsb (cmove_eqb m) (moves_of b)) (oracle_moves b)
  && forallb (move_runs b) (moves_of b)
  && forallb (fun m => cmove_eqb m ep_capture || move_agrees b m) (moves_of b)
  && match make_move_new b 28 19 None with
     | Some b' =>
       is_sane b' && negb (pos_eqb (abs_board b') (apply (abs_board b) (mv 28 19)))
       && pc_eqb (at_ (abs_board b) 19) (Some (Knight,White))
       && pc_eqb (at_ (abs_board b) 27) (Some (Pawn,White))
       && pc_eqb (at_ (abs_board b') 19) (Some (Pawn,Black))
       && pc_eqb (at_ (abs_board b') 27) None
       && pc_eqb (at_ (apply (abs_board b) (mv 28 19)) 19) (Some (Pawn,Black))
       && pc_eqb (at_ (apply (abs_board b) (mv 28 19)) 27) (Some (Pawn,White))
     | None => false end.

Lemma in_existsb m l : existsb (cmove_eqb m) l = true -> In m l.
Proof.
  intro H. apply existsb_exists in H. destruct H as [x [Hx E]]. apply cmove_eqb_eq in E. subst x. exact Hx.
Qed.

Lemma check_ep_target_sound b : check_ep_target b = true -> ep_target_behaviour b.
Proof.
  unfold check_ep_target, ep_target_behaviour. rewrite !andb_true_iff.
  intros [[[[[[[[H1 H2] H3] H4] H5] H6] H7] H8] H9].
  apply mlist_eq_eq in H2. fold ep_target_moves.
  split; [destruct (movelist_overflow b); [discriminate H1|reflexivity]|].
  split; [exact H2|].
  apply Nat.eqb_eq in H3. split; [exact H3|].
  split; [exact (in_existsb _ _ H4)|].
  split.
  { intro m. split; intro Hm.
    - rewrite forallb_forall in H5. exact (in_existsb _ _ (H5 m Hm)).
    - rewrite forallb_forall in H6. exact (in_existsb _ _ (H6 m Hm)). }
  split.
  { rewrite H2. unfold ep_target_moves. intro Hnd. inversion Hnd as [|x l Hni _]. subst.
    apply Hni. right. left. reflexivity. }
  split.
  { intro Hp. apply Permutation_length in Hp. rewrite H3, H2 in Hp. discriminate Hp. }
  split; [exact (move_runs_sound b H7)|].
  split.
  { intros m Hm Hne. rewrite forallb_forall in H8. specialize (H8 m Hm).
    apply orb_true_iff in H8. destruct H8 as [E|E].
    - apply cmove_eqb_eq in E. contradiction.
    - exact (move_agrees_sound b m E). }
  destruct (make_move_new b 28 19 None) as [b'|]; [|discriminate H9].
  rewrite !andb_true_iff in H9.
  destruct H9 as [[[[[[[G1 G2] G3] G4] G5] G6] G7] G8].
  exists b'. split; [reflexivity|]. split; [exact G1|].
  split.
  { intro E. apply pos_eqb_eq in E. rewrite E in G2. discriminate G2. }
  split; [exact (pc_eqb_eq _ _ G3)|]. split; [exact (pc_eqb_eq _ _ G4)|].
  split; [exact (pc_eqb_eq _ _ G5)|]. split; [exact (pc_eqb_eq _ _ G6)|].
  split; [exact (pc_eqb_eq _ _ G7)|exact (pc_eqb_eq _ _ G8)].
Qed.

Theorem moves_ep_target_refuted :
  exists b, board_from_str fen_ep_target = Ok b /\ ep_target_behaviour b.
Proof. apply (parsed_witness_b _ check_ep_target); [exact check_ep_target_sound|vm_compute; reflexivity]. Qed.

(** an OWN knight on the target: generator and oracle both list e4xd3 (neither tests the
    destination of an en-passant capture), fifteen moves each, a permutation, no overflow, no
    panic, every result [is_sane]; but the results differ on e4xd3: [make_move_new] "captures"
    the own knight with the colours crossed — a WHITE pawn appears on d3 and the pawn on d4
    vanishes — while the oracle's [apply] replaces the knight by the black pawn and leaves
    d4; every other move agrees *)
Definition ep_target_own_behaviour (b:board) : Prop :=
  movelist_overflow b = false /\ length (moves_of b) = 15%nat /\
  Permutation (moves_of b) (oracle_moves b) /\ In ep_capture (moves_of b) /\
  runs_all b /\ (forall m, In m (moves_of b) -> m <> ep_capture -> agrees_on b m) /\
  exists b', make_move_new b 28 19 None = Some b' /\ is_sane b' = true /\
    abs_board b' <> apply (abs_board b) (mv 28 19) /\
    at_ (abs_board b) 19 = Some (Knight,Black) /\ at_ (abs_board b) 27 = Some (Pawn,White) /\
    at_ (abs_board b') 19 = Some (Pawn,White) /\ at_ (abs_board b') 27 = None /\
    at_ (apply (abs_board b) (mv 28 19)) 19 = Some (Pawn,Black) /\
    at_ (apply (abs_board b) (mv 28 19)) 27 = Some (Pawn,White).
Definition check_ep_target_own (b:board) : bool :=
  negb (movelist_overflow b) && (length (moves_of b) =? 15)%nat
  && perm_b (moves_of b) (oracle_moves b)
  && existsb (cmove_eqb ep_capture) (moves_of b)
  && forallb (move_runs b) (moves_of b)
  && forallb (fun m => cmove_eqb m ep_capture || move_agrees b m) (moves_of b)
  && match make_move_new b 28 19 None with
     | Some b' =>
       is_sane b' && negb (pos_eqb (abs_board b') (apply (abs_board b) (mv 28 19)))
       && pc_eqb (at_ (abs_board b) 19) (Some (Knight,Black))
       && pc_eqb (at_ (abs_board b) 27) (Some (Pawn,White))
       && pc_eqb (at_ (abs_board b') 19) (Some (Pawn,White))
       && pc_eqb (at_ (abs_board b') 27) None
       && pc_eqb (at_ (apply (abs_board b) (mv 28 19)) 19) (Some (Pawn,Black))
       && pc_eqb (at_ (apply (abs_board b) (mv 28 19)) 27) (Some (Pawn,White))
     | None => false end.
Lemma check_ep_target_own_sound b : check_ep_target_own b = true -> ep_target_own_behaviour b.
Proof.
  unfold check_ep_target_own, ep_target_own_behaviour. rewrite !andb_true_iff.
  intros [[[[[[H1 H2] H3] H4] H7] H8] H9].
  split; [destruct (movelist_overflow b); [discriminate H1|reflexivity]|].
  split; [apply Nat.eqb_eq, H2|].
  split; [exact (perm_b_sound _ _ H3)|].
  split; [exact (in_existsb _ _ H4)|].
  split; [exact (move_runs_sound b H7)|].
  split.
  { intros m Hm Hne. rewrite forallb_forall in H8. specialize (H8 m Hm).
    apply orb_true_iff in H8. destruct H8 as [E|E].
    - apply cmove_eqb_eq in E. contradiction.
    - exact (move_agrees_sound b m E). }
  destruct (make_move_new b 28 19 None) as [b'|]; [|discriminate H9].
  rewrite !andb_true_iff in H9.
  destruct H9 as [[[[[[[G1 G2] G3] G4] G5] G6] G7] G8].
  exists b'. split; [reflexivity|]. split; [exact G1|].
  split.
  { intro E. apply pos_eqb_eq in E. rewrite E in G2. discriminate G2. }
  split; [exact (pc_eqb_eq _ _ G3)|]. split; [exact (pc_eqb_eq _ _ G4)|].
  split; [exact (pc_eqb_eq _ _ G5)|]. split; [exact (pc_eqb_eq _ _ G6)|].
  split; [exact (pc_eqb_eq _ _ G7)|exact (pc_eqb_eq _ _ G8)].
Qed.

Theorem moves_ep_target_own_refuted :
  exists b, board_from_str fen_ep_target_own = Ok b /\ ep_target_own_behaviour b.
Proof. apply (parsed_witness_b _ check_ep_target_own); [exact check_ep_target_own_sound|vm_compute; reflexivity]. Qed.
