(** * Model.Perft — [MoveGen::movegen_perft_test], the deprecated [Board::enumerate_moves],
    [Game::from_str] / [Game::new_from_fen], [Board::from_fen], and the [BoardBuilder] setters.
    Hand transcription of the Rust code (movegen/movegen.rs, board.rs, game.rs,
    board_builder.rs); compared with the library by the "extra2" stream. *)
From Chess Require Export Model.Extra.
Open Scope N_scope.

(** ** [MoveGen::movegen_perft_test(board, depth)]
<<
    let iterable = MoveGen::new_legal(board);
    let mut result: usize = 0;
    if depth == 1 { iterable.len() } else {
        for m in iterable { let bresult = board.make_move_new(m);
                            result += MoveGen::movegen_perft_test(&bresult, depth - 1); }
        result }
>>
    [depth] is a [usize]: with [depth = 0] the loop body evaluates [0 - 1], which panics in a
    debug build and wraps to [usize::MAX] in a release build (a recursion that cannot end);
    the model returns [None] for that, for a [make_move_new] that is undefined ([None] in
    [Model.Board]), and nothing else.  With [depth = 0] and no legal move the loop body is never
    reached and the answer is 0.  The sum is modelled in unbounded [N] (a count that
    overflows 64 bits is out of reach of any run). *)
Fixpoint movegen_perft (b:board) (depth:nat) : option N :=
  match depth with
  | O => match moves_of b with [] => Some 0 | _ :: _ => None end
  | S d' =>
    match d' with
    | O => Some (len (new_legal b))
    | S _ =>
      fold_left (fun acc m =>
                   match acc with
                   | None => None
                   | Some a =>
                     match make_move_new b (msrc m) (mdst m) (mpromo m) with
                     | None => None
                     | Some nb => match movegen_perft nb d' with Some r => Some (a + r) | None => None end
                     end
                   end) (moves_of b) (Some 0)
    end
  end.

(** ** the deprecated [Board::enumerate_moves(&self, moves: &mut [ChessMove; 256]) -> usize]:
    fills the array from index 0 in iterator order; [moves[size] = m] is a checked index, so
    more than 256 moves would panic ([None]). *)
Definition board_enumerate_moves (b:board) : option (list cmove * N) :=
  let l := moves_of b in
  if Nat.ltb 256 (length l) then None else Some (l, N.of_nat (length l)).

(** ** [Board::from_fen] (deprecated) = [Board::from_str(..).ok()],
       [Game::from_str] = [Game::new_with_board(Board::from_str(fen)?)],
       [Game::new_from_fen] (deprecated) = [Game::from_str(fen).ok()] *)
Definition board_from_fen (s:str) : outcome (option board) :=
  match board_from_str s with Ok b => Ok (Some b) | Err => Ok None | Panic => Panic end.
Definition game_from_str (s:str) : outcome game :=
  match board_from_str s with Ok b => Ok (new_with_board b) | Err => Err | Panic => Panic end.
Definition game_new_from_fen (s:str) : outcome (option game) :=
  match game_from_str s with Ok g => Ok (Some g) | Err => Ok None | Panic => Panic end.

(** ** [BoardBuilder] setters and getters (board_builder.rs) *)
Definition bb_setup (pcs:list (N * ptype * color)) (stm:color) (w bk:N) (ep:option N) : builder :=
  {| bpieces := fold_left (fun acc x => match x with (s, p, c) => upd acc (N.to_nat s) (Some (p, c)) end)
                          pcs (repeat None 64);
     bstm := stm; bcrW := w; bcrB := bk; bep := ep |}.
Definition bb_side_to_move (bb:builder) (c:color) : builder :=
  {| bpieces := bpieces bb; bstm := c; bcrW := bcrW bb; bcrB := bcrB bb; bep := bep bb |}.
Definition bb_castle_rights (bb:builder) (c:color) (cr:N) : builder :=
  match c with
  | White => {| bpieces := bpieces bb; bstm := bstm bb; bcrW := cr; bcrB := bcrB bb; bep := bep bb |}
  | Black => {| bpieces := bpieces bb; bstm := bstm bb; bcrW := bcrW bb; bcrB := cr; bep := bep bb |}
  end.
Definition bb_piece (bb:builder) (s:N) (p:ptype) (c:color) : builder :=
  {| bpieces := upd (bpieces bb) (N.to_nat s) (Some (p, c)); bstm := bstm bb; bcrW := bcrW bb; bcrB := bcrB bb; bep := bep bb |}.
Definition bb_clear_square (bb:builder) (s:N) : builder :=
  {| bpieces := upd (bpieces bb) (N.to_nat s) None; bstm := bstm bb; bcrW := bcrW bb; bcrB := bcrB bb; bep := bep bb |}.
Definition bb_en_passant (bb:builder) (f:option N) : builder :=
  {| bpieces := bpieces bb; bstm := bstm bb; bcrW := bcrW bb; bcrB := bcrB bb; bep := f |}.
Definition bb_get_castle_rights (bb:builder) (c:color) : N := match c with White => bcrW bb | Black => bcrB bb end.
Definition bb_index (bb:builder) (s:N) : option (ptype*color) := nth (N.to_nat s) (bpieces bb) None.
