(** * Properties.C18 — property C18: "Passing the turn is refused exactly when the side to move
    is in check; otherwise the result has the same placement and castling rights, the other
    side to move, no en-passant state, and check, pin and hash information identical to the
    same position built from scratch."

    [null_move] is the transcription of [Board::null_move] ([Model/Board.v]); [pass] is the
    rules' passing of the turn ([Spec/Rules.v]); [from_scratch p] is the board the library
    builds for position [p] (BoardBuilder -> Board); [Canonical b] says [b] equals the
    from-scratch board of its own abstraction; [kings_apart b] says the enemy king is not on a
    square adjacent to the mover's king.  Proofs: [Proofs/NullMove.v] (parts a-c, no geometry),
    [Proofs/CanonNullMove.v] (refusal = check, via [Proofs/CanonCheckers.v]). *)
From Chess Require Import Base.Bits Spec.Geometry Spec.Rules Model.Board.
From Chess Require Import Proofs.AbsBoard Proofs.CanonCheckers Proofs.NullMove Proofs.CanonNullMove.
Open Scope N_scope.

(** ** 1. Refusal *)
(** refused exactly when the stored check cache is non-empty (any board) *)
Theorem C18_refused_iff_cache :
  forall b, null_move b = None <-> checkers b <> 0.
Proof. exact null_move_none. Qed.
Check C18_refused_iff_cache :
  forall b, null_move b = None <-> checkers b <> 0.
Print Assumptions C18_refused_iff_cache.

Theorem C18_accepted_iff_cache :
  forall b, checkers b = 0 <-> exists b', null_move b = Some b'.
Proof. exact null_move_some. Qed.
Check C18_accepted_iff_cache :
  forall b, checkers b = 0 <-> exists b', null_move b = Some b'.
Print Assumptions C18_accepted_iff_cache.

(** on a canonical board the stored check cache is non-empty exactly when the side to move is in check *)
Theorem C18_cache_iff_check :
  forall b, Canonical b -> popcnt (N.land (pK b) (color_combined b (stm b))) = 1 -> kings_apart b ->
  (checkers b <> 0 <-> in_check (abs_board b) (stm b) = true).
Proof. exact canonical_checkers_in_check. Qed.
Check C18_cache_iff_check :
  forall b, Canonical b -> popcnt (N.land (pK b) (color_combined b (stm b))) = 1 -> kings_apart b ->
  (checkers b <> 0 <-> in_check (abs_board b) (stm b) = true).
Print Assumptions C18_cache_iff_check.

(** refused exactly when the side to move is in check *)
Theorem C18_refused_iff_check :
  forall b, Canonical b -> popcnt (N.land (pK b) (color_combined b (stm b))) = 1 -> kings_apart b ->
  (null_move b = None <-> in_check (abs_board b) (stm b) = true).
Proof. exact null_move_refused_iff_check. Qed.
Check C18_refused_iff_check :
  forall b, Canonical b -> popcnt (N.land (pK b) (color_combined b (stm b))) = 1 -> kings_apart b ->
  (null_move b = None <-> in_check (abs_board b) (stm b) = true).
Print Assumptions C18_refused_iff_check.

(** ** 2. The result *)
Theorem C18_result :
  forall b b', null_move b = Some b' ->
  b' = update_pin_info (set_epsq (set_stm b (opp (stm b))) None).
Proof. exact null_move_eq. Qed.
Check C18_result :
  forall b b', null_move b = Some b' ->
  b' = update_pin_info (set_epsq (set_stm b (opp (stm b))) None).
Print Assumptions C18_result.

(** every occupancy word, both castling rights and the hash field are unchanged; the side flips; no en-passant square *)
Theorem C18_fields :
  forall b b', null_move b = Some b' ->
  same_occ b' b /\ stm b' = opp (stm b) /\ crW b' = crW b /\ crB b' = crB b /\
  hash b' = hash b /\ epsq b' = None.
Proof. exact null_move_fields. Qed.
Check C18_fields :
  forall b b', null_move b = Some b' ->
  same_occ b' b /\ stm b' = opp (stm b) /\ crW b' = crW b /\ crB b' = crB b /\
  hash b' = hash b /\ epsq b' = None.
Print Assumptions C18_fields.

(** the position of the result is the passed position: same placement and castling rights, other side to move, no en-passant target *)
Theorem C18_abs :
  forall b b', null_move b = Some b' -> abs_board b' = pass (abs_board b).
Proof. exact null_move_abs. Qed.
Check C18_abs :
  forall b b', null_move b = Some b' -> abs_board b' = pass (abs_board b).
Print Assumptions C18_abs.

(** the result IS the from-scratch board of the passed position: all words, rights, hash field, pin cache and check cache *)
Theorem C18_from_scratch :
  forall b b', Canonical b -> null_move b = Some b' -> b' = from_scratch (pass (abs_board b)).
Proof. exact null_move_from_scratch. Qed.
Check C18_from_scratch :
  forall b b', Canonical b -> null_move b = Some b' -> b' = from_scratch (pass (abs_board b)).
Print Assumptions C18_from_scratch.

Theorem C18_get_hash :
  forall b b', Canonical b -> null_move b = Some b' ->
  get_hash b' = get_hash (from_scratch (pass (abs_board b))).
Proof. exact null_move_get_hash. Qed.
Check C18_get_hash :
  forall b b', Canonical b -> null_move b = Some b' ->
  get_hash b' = get_hash (from_scratch (pass (abs_board b))).
Print Assumptions C18_get_hash.

(** canonical boards are closed under the null move (so null moves can be interleaved) *)
Theorem C18_canonical_closed :
  forall b b', Canonical b -> null_move b = Some b' -> Canonical b'.
Proof. exact null_move_canonical. Qed.
Check C18_canonical_closed :
  forall b b', Canonical b -> null_move b = Some b' -> Canonical b'.
Print Assumptions C18_canonical_closed.

Theorem C18_update_pin_info_idem :
  forall b, update_pin_info (update_pin_info b) = update_pin_info b.
Proof. exact update_pin_info_idem. Qed.
Check C18_update_pin_info_idem :
  forall b, update_pin_info (update_pin_info b) = update_pin_info b.
Print Assumptions C18_update_pin_info_idem.

(** ** 3. All of it on canonical boards, and over valid specification positions *)
Theorem C18_canonical :
  forall b, Canonical b -> popcnt (N.land (pK b) (color_combined b (stm b))) = 1 -> kings_apart b ->
  (null_move b = None <-> in_check (abs_board b) (stm b) = true) /\
  (forall b', null_move b = Some b' ->
     abs_board b' = pass (abs_board b) /\ b' = from_scratch (pass (abs_board b)) /\ Canonical b').
Proof. exact null_move_canonical_spec. Qed.
Check C18_canonical :
  forall b, Canonical b -> popcnt (N.land (pK b) (color_combined b (stm b))) = 1 -> kings_apart b ->
  (null_move b = None <-> in_check (abs_board b) (stm b) = true) /\
  (forall b', null_move b = Some b' ->
     abs_board b' = pass (abs_board b) /\ b' = from_scratch (pass (abs_board b)) /\ Canonical b').
Print Assumptions C18_canonical.

(** C18 for every valid position whose from-scratch board abstracts back to it *)
Theorem C18_valid :
  forall p, pos_valid p = true -> abs_board (from_scratch p) = p ->
  (null_move (from_scratch p) = None <-> in_check p (turn p) = true) /\
  (forall b', null_move (from_scratch p) = Some b' ->
     b' = from_scratch (pass p) /\ abs_board b' = pass p /\
     placement (abs_board b') = placement p /\ turn (abs_board b') = opp (turn p) /\
     ep (abs_board b') = None /\
     wk (abs_board b') = wk p /\ wq (abs_board b') = wq p /\
     bk (abs_board b') = bk p /\ bq (abs_board b') = bq p /\
     get_hash b' = get_hash (from_scratch (pass p)) /\
     pinned b' = pinned (from_scratch (pass p)) /\ checkers b' = checkers (from_scratch (pass p))).
Proof. exact null_move_valid. Qed.
Check C18_valid :
  forall p, pos_valid p = true -> abs_board (from_scratch p) = p ->
  (null_move (from_scratch p) = None <-> in_check p (turn p) = true) /\
  (forall b', null_move (from_scratch p) = Some b' ->
     b' = from_scratch (pass p) /\ abs_board b' = pass p /\
     placement (abs_board b') = placement p /\ turn (abs_board b') = opp (turn p) /\
     ep (abs_board b') = None /\
     wk (abs_board b') = wk p /\ wq (abs_board b') = wq p /\
     bk (abs_board b') = bk p /\ bq (abs_board b') = bq p /\
     get_hash b' = get_hash (from_scratch (pass p)) /\
     pinned b' = pinned (from_scratch (pass p)) /\ checkers b' = checkers (from_scratch (pass p))).
Print Assumptions C18_valid.

Theorem C18_canonical_consistent :
  forall b, Canonical b -> Consistent b.
Proof. exact canonical_consistent. Qed.
Check C18_canonical_consistent :
  forall b, Canonical b -> Consistent b.
Print Assumptions C18_canonical_consistent.

Theorem C18_from_scratch_canonical :
  forall p, abs_board (from_scratch p) = p -> Canonical (from_scratch p).
Proof. exact from_scratch_canonical. Qed.
Check C18_from_scratch_canonical :
  forall p, abs_board (from_scratch p) = p -> Canonical (from_scratch p).
Print Assumptions C18_from_scratch_canonical.

(** ** 4. Non-vacuity: the start position is canonical and passes; a checked king refuses *)
Theorem C18_ex_start_abs :
  abs_board (from_scratch startpos) = startpos.
Proof. exact startboard_abs. Qed.
Check C18_ex_start_abs :
  abs_board (from_scratch startpos) = startpos.
Print Assumptions C18_ex_start_abs.

Theorem C18_ex_start_canonical :
  Canonical (from_scratch startpos).
Proof. exact startboard_canonical. Qed.
Check C18_ex_start_canonical :
  Canonical (from_scratch startpos).
Print Assumptions C18_ex_start_canonical.

Theorem C18_ex_start_passes :
  checkers (from_scratch startpos) = 0 /\
  exists b', null_move (from_scratch startpos) = Some b' /\ stm b' = Black /\ epsq b' = None /\
             b' = from_scratch (pass startpos) /\ b' <> from_scratch startpos /\ Canonical b'.
Proof. exact startboard_passes. Qed.
Check C18_ex_start_passes :
  checkers (from_scratch startpos) = 0 /\
  exists b', null_move (from_scratch startpos) = Some b' /\ stm b' = Black /\ epsq b' = None /\
             b' = from_scratch (pass startpos) /\ b' <> from_scratch startpos /\ Canonical b'.
Print Assumptions C18_ex_start_passes.

Theorem C18_ex_start_valid :
  pos_valid startpos = true /\ abs_board (from_scratch startpos) = startpos /\
  in_check startpos (turn startpos) = false /\ kings_apart (from_scratch startpos).
Proof. exact null_move_valid_startpos. Qed.
Check C18_ex_start_valid :
  pos_valid startpos = true /\ abs_board (from_scratch startpos) = startpos /\
  in_check startpos (turn startpos) = false /\ kings_apart (from_scratch startpos).
Print Assumptions C18_ex_start_valid.

Theorem C18_ex_check_refused :
  pos_valid checkpos2 = true /\ abs_board (from_scratch checkpos2) = checkpos2 /\
  in_check checkpos2 (turn checkpos2) = true /\ null_move (from_scratch checkpos2) = None.
Proof. exact null_move_valid_check. Qed.
Check C18_ex_check_refused :
  pos_valid checkpos2 = true /\ abs_board (from_scratch checkpos2) = checkpos2 /\
  in_check checkpos2 (turn checkpos2) = true /\ null_move (from_scratch checkpos2) = None.
Print Assumptions C18_ex_check_refused.

