// placeholder
pub fn run(_n:u64,_m:&str){}
