(** * Model.CacheTable — transcription of src/cache_table.rs, generic in the entry type.
    [usize] is 64 bits (x86-64): [hash as usize] is the identity on u64. *)
From Chess Require Export Base.Bits Base.Text.
Open Scope N_scope.

Section CT.
Variable T : Type.
Record ctable := { table : list (N * T); cmask : N }.

(** [CacheTable::new]: panics unless [size.count_ones() == 1] *)
Definition ct_new (size:N) (default:T) : outcome ctable :=
  if negb (popcnt size =? 1) then Panic
  else Ok {| table := repeat (0, default) (N.to_nat size); cmask := size - 1 |}.

Definition slot (t:ctable) (h:N) : N := N.land h (cmask t).
(** an unchecked index outside the table is modelled as [Panic] *)
Definition in_bounds (t:ctable) (h:N) : bool := slot t h <? N.of_nat (length (table t)).

Definition ct_get (t:ctable) (h:N) : outcome (option T) :=
  match nth_error (table t) (N.to_nat (slot t h)) with
  | None => Panic
  | Some (eh, ev) => Ok (if eh =? h then Some ev else None)
  end.
Fixpoint upd_nth {A} (l:list A) (i:nat) (x:A) : list A :=
  match l, i with [], _ => [] | _::r, O => x::r | y::r, S k => y :: upd_nth r k x end.
Definition ct_add (t:ctable) (h:N) (v:T) : outcome ctable :=
  if in_bounds t h then Ok {| table := upd_nth (table t) (N.to_nat (slot t h)) (h,v); cmask := cmask t |}
  else Panic.
Definition ct_replace_if (t:ctable) (h:N) (v:T) (replace:T->bool) : outcome ctable :=
  match nth_error (table t) (N.to_nat (slot t h)) with
  | None => Panic
  | Some (_, ev) =>
    if replace ev then Ok {| table := upd_nth (table t) (N.to_nat (slot t h)) (h,v); cmask := cmask t |}
    else Ok t
  end.
End CT.
Arguments table {T}. Arguments cmask {T}. Arguments ct_new {T}. Arguments ct_get {T}.
Arguments ct_add {T}. Arguments ct_replace_if {T}. Arguments slot {T}. Arguments in_bounds {T}.
