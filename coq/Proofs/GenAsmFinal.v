(** * Proofs.GenAsmFinal — T_gen: the move-generator refinement theorem (C01), obtained by
    discharging the premises of [GenAsmMain.gen_from_layers] with the layer theorems.
    This file compiles only once the seven layer files below are compiled. *)
From Coq Require Import NArith List Bool Permutation.
From Chess Require Import Base.Bits Spec.Geometry Spec.Rules Model.Board Model.MoveGen.
From Chess Require Import Proofs.GenInterface Proofs.GenAsmMain.
From Chess Require Proofs.GenSafeMain Proofs.GenKingMain Proofs.GenCastleMain Proofs.GenEpMain
  Proofs.GenPseudoMain Proofs.GenEpOne.
Import ListNotations.
Open Scope N_scope.

(** T_gen *)
Theorem T_gen : stmt_gen.
Proof.
  exact (gen_from_layers GenSafeMain.safe_nonking GenKingMain.king_step GenCastleMain.castle_ok
           GenEpMain.ep_ok GenPseudoMain.pseudo_ok GenPseudoMain.promo_ok GenEpOne.ep_one_checker).
Qed.

(** a full iteration of [MoveGen::new_legal] *)
Theorem T_gen_moves_of : forall b,
  b = from_scratch (abs_board b) -> pos_valid (abs_board b) = true -> is_sane b = true ->
  Permutation (moves_of b) (map of_spec_move (legal_moves (abs_board b))) /\ NoDup (moves_of b).
Proof. exact (gen_moves_of T_gen). Qed.

(** [Board::legal], for every [cmove] whatsoever *)
Theorem T_gen_legal_query : forall b,
  b = from_scratch (abs_board b) -> pos_valid (abs_board b) = true -> is_sane b = true ->
  forall m, legal b m = true <-> In m (map of_spec_move (legal_moves (abs_board b))).
Proof. exact (gen_legal_query T_gen). Qed.

Print Assumptions T_gen.
Print Assumptions T_gen_moves_of.
Print Assumptions T_gen_legal_query.
