(** * Proofs.CorAReach — the boards reached by the LIBRARY'S OWN moves.

    [ReachGen p0 b]: [b] is obtained from the from-scratch board of [p0] by applying, any
    number of times, a move that the library's generator produced on the current board
    ([In c (moves_of b)], applied by [make_move_new]) or a null move that the library accepted.
    No reference to the specification in the definition.

    For a valid [p0] this is the same set as [StepCanon.ReachLib p0] (moves chosen among the
    specification's legal moves) — by T_gen — and every such board is canonical, shows a valid
    position, passes [is_sane] and is well formed.  All the history-quantified corollaries
    (C01c, C03b, C04b, C05c, C18b) are derived here. *)
From Coq Require Import NArith List Bool Lia Permutation.
From Chess Require Import Base.Bits Spec.Geometry Spec.Rules Model.Board Model.MoveGen.
From Chess Require Import Proofs.AbsBoard Proofs.NullMove Proofs.GenWF Proofs.GenWFBoard
  Proofs.GenInterface Proofs.GenAsmMain Proofs.GenAsmFinal Proofs.RoundTripMain
  Proofs.StepLink Proofs.StepHash Proofs.StepClosed Proofs.StepCanon Proofs.StepMain2
  Proofs.StatusModel Proofs.SpecInvGoals Proofs.StepPass Proofs.MakeMoveTwin.
From Chess Require Import Proofs.CanonCheckers.
From Chess Require Proofs.CanonNullMove Proofs.CanonScratch.
Import ListNotations.
Open Scope N_scope.

(** ** 0. The good boards: canonical boards of valid positions *)
Definition GoodBoard (b:board) : Prop := Canonical b /\ pos_valid (abs_board b) = true.

Lemma good_scratch p : pos_valid p = true -> GoodBoard (from_scratch p).
Proof.
  intro HV. split; [exact (from_scratch_valid_canonical p HV)|].
  rewrite (abs_from_scratch p HV). exact HV.
Qed.

Lemma good_sane b : GoodBoard b -> is_sane b = true.
Proof. intros [HCan HV]. exact (roundtrip_sane roundtrip b HCan HV). Qed.

Lemma good_wf b : GoodBoard b -> BoardWF b.
Proof. intros [HCan _]. rewrite HCan. apply from_scratch_wf. Qed.

Lemma good_inv b : GoodBoard b -> Inv b.
Proof. intros [HCan HV]. rewrite HCan. apply inv_scratch, HV. Qed.

Lemma good_consistent b : GoodBoard b -> Consistent b.
Proof. intros [HCan _]. exact (canonical_consistent b HCan). Qed.

Lemma good_step_hyp b m : GoodBoard b -> In m (legal_moves (abs_board b)) -> StepHyp b m.
Proof.
  intros G HL. destruct (good_inv b G) as [HC _ _ _ Hwf HV]. constructor; assumption.
Qed.

(** the two conversions between the library's and the specification's move records *)
Lemma of_to_spec c : of_spec_move (to_spec_move c) = c.
Proof. destruct c; reflexivity. Qed.
Lemma to_of_spec m : to_spec_move (of_spec_move m) = m.
Proof. destruct m; reflexivity. Qed.
Lemma in_map_of_spec c L : In c (map of_spec_move L) <-> In (to_spec_move c) L.
Proof.
  split.
  - intro H. apply in_map_iff in H. destruct H as [m [E Hm]]. subst c. rewrite to_of_spec. exact Hm.
  - intro H. rewrite <- (of_to_spec c). apply in_map, H.
Qed.

(** *** the generator on a good board (C01 at a point) *)
Lemma good_moves_of b : GoodBoard b ->
  Permutation (moves_of b) (map of_spec_move (legal_moves (abs_board b))) /\ NoDup (moves_of b).
Proof. intros G. destruct G as [HCan HV]. exact (T_gen_moves_of b HCan HV (good_sane b (conj HCan HV))). Qed.

Lemma good_legal_query b : GoodBoard b ->
  forall m, legal b m = true <-> In m (map of_spec_move (legal_moves (abs_board b))).
Proof. intros G. destruct G as [HCan HV]. exact (T_gen_legal_query b HCan HV (good_sane b (conj HCan HV))). Qed.

Lemma good_gen_spec b c : GoodBoard b ->
  (In c (moves_of b) <-> In (to_spec_move c) (legal_moves (abs_board b))).
Proof.
  intro G. rewrite <- in_map_of_spec. destruct (good_moves_of b G) as [HP _]. split.
  - apply Permutation_in, HP.
  - apply Permutation_in, Permutation_sym, HP.
Qed.

Lemma good_legal_spec b c : GoodBoard b ->
  (legal b c = true <-> In (to_spec_move c) (legal_moves (abs_board b))).
Proof. intro G. rewrite <- in_map_of_spec. exact (good_legal_query b G c). Qed.

(** *** one library move from a good board *)
Lemma good_move b m b' : GoodBoard b -> In m (legal_moves (abs_board b)) ->
  make_move_new b (src m) (dst m) (promo m) = Some b' ->
  GoodBoard b' /\ abs_board b' = apply (abs_board b) m.
Proof.
  intros G HL E. pose proof (good_step_hyp b m G HL) as H. destruct G as [HCan HV].
  pose proof (step_abs b m b' H E) as Ha.
  split; [|exact Ha]. split; [exact (step_canonical b m b' HCan HV HL E)|].
  rewrite Ha. exact (pos_valid_preserved _ m HV HL).
Qed.

Lemma good_move_some b m : GoodBoard b -> In m (legal_moves (abs_board b)) ->
  exists b', make_move_new b (src m) (dst m) (promo m) = Some b'.
Proof. intros G HL. exact (step_some b m (good_step_hyp b m G HL)). Qed.

(** the same for a move in the library's own representation *)
Lemma good_cmove b c b' : GoodBoard b -> In (to_spec_move c) (legal_moves (abs_board b)) ->
  make_move_new b (msrc c) (mdst c) (mpromo c) = Some b' ->
  GoodBoard b' /\ abs_board b' = apply (abs_board b) (to_spec_move c).
Proof. intros G HL E. exact (good_move b (to_spec_move c) b' G HL E). Qed.

(** *** one null move from a good board *)
Lemma good_kings b : GoodBoard b ->
  (forall c, popcnt (N.land (pK b) (color_combined b c)) = 1) /\ kings_apart b.
Proof.
  intros [HCan HV]. pose proof (canonical_consistent b HCan) as HC.
  destruct (CanonNullMove.pos_valid_facts _ HV) as [K1 [K2 Hnc]].
  assert (K : forall c, popcnt (N.land (pK b) (color_combined b c)) = 1).
  { intro c. rewrite <- (CanonNullMove.kings_abs b c HC). destruct c; assumption. }
  split; [exact K|].
  change (turn (abs_board b)) with (stm b) in Hnc.
  exact (CanonNullMove.not_in_check_kings_apart b HC (K _) (K _) Hnc).
Qed.

Lemma good_checkers_in_check b : GoodBoard b ->
  (checkers b <> 0 <-> in_check (abs_board b) (stm b) = true).
Proof.
  intro G. destruct (good_kings b G) as [K Hka]. destruct G as [HCan _].
  exact (CanonNullMove.canonical_checkers_in_check b HCan (K _) Hka).
Qed.

Lemma good_null_iff b : GoodBoard b ->
  (null_move b = None <-> in_check (abs_board b) (stm b) = true).
Proof. intro G. rewrite null_move_none. exact (good_checkers_in_check b G). Qed.

Lemma good_null b b' : GoodBoard b -> null_move b = Some b' ->
  GoodBoard b' /\ b' = from_scratch (pass (abs_board b)) /\ abs_board b' = pass (abs_board b) /\
  in_check (abs_board b) (stm b) = false.
Proof.
  intros G E. pose proof G as [HCan HV].
  assert (Hc : in_check (abs_board b) (stm b) = false).
  { destruct (in_check (abs_board b) (stm b)) eqn:Ec; [|reflexivity].
    apply (good_null_iff b G) in Ec. rewrite Ec in E. discriminate E. }
  pose proof (null_move_abs b b' E) as Ha.
  split; [|split; [exact (null_move_from_scratch b b' HCan E)|split; [exact Ha|exact Hc]]].
  split; [exact (null_move_canonical b b' HCan E)|].
  rewrite Ha. apply pos_valid_pass; [exact HV|exact Hc].
Qed.

(** ** 1. Boards reached by the library's own generated moves and accepted null moves *)
Inductive ReachGen (p0:pos) : board -> Prop :=
| RG_start : ReachGen p0 (from_scratch p0)
| RG_move b c b' : ReachGen p0 b -> In c (moves_of b) ->
    make_move_new b (msrc c) (mdst c) (mpromo c) = Some b' -> ReachGen p0 b'
| RG_null b b' : ReachGen p0 b -> null_move b = Some b' -> ReachGen p0 b'.

Theorem reachgen_good p0 b : pos_valid p0 = true -> ReachGen p0 b -> GoodBoard b.
Proof.
  intros HV R. induction R as [|b c b' R IH Hc E|b b' R IH E].
  - exact (good_scratch p0 HV).
  - apply (good_gen_spec b c IH) in Hc. exact (proj1 (good_cmove b c b' IH Hc E)).
  - exact (proj1 (good_null b b' IH E)).
Qed.

Theorem reachlib_good p0 b : pos_valid p0 = true -> ReachLib p0 b -> GoodBoard b.
Proof. intros HV R. exact (reachlib_from_scratch p0 b HV R). Qed.

(** a generated move is a specification-legal move: [ReachGen] is included in [ReachLib] *)
Theorem reachgen_reachlib p0 b : pos_valid p0 = true -> ReachGen p0 b -> ReachLib p0 b.
Proof.
  intros HV R. induction R as [|b c b' R IH Hc E|b b' R IH E].
  - apply RL_start.
  - pose proof (reachgen_good p0 b HV R) as G. apply (good_gen_spec b c G) in Hc.
    exact (RL_move p0 b (to_spec_move c) b' IH Hc E).
  - exact (RL_null p0 b b' IH E).
Qed.

(** and every specification-legal move is generated: the converse inclusion *)
Theorem reachlib_reachgen p0 b : pos_valid p0 = true -> ReachLib p0 b -> ReachGen p0 b.
Proof.
  intros HV R. induction R as [|b m b' R IH HL E|b b' R IH E].
  - apply RG_start.
  - pose proof (reachlib_good p0 b HV R) as G.
    apply (RG_move p0 b (of_spec_move m) b' IH); [|exact E].
    apply (good_gen_spec b _ G). rewrite to_of_spec. exact HL.
  - exact (RG_null p0 b b' IH E).
Qed.

Theorem reachgen_iff_reachlib p0 b : pos_valid p0 = true -> (ReachGen p0 b <-> ReachLib p0 b).
Proof. intro HV. split; [apply reachgen_reachlib, HV|apply reachlib_reachgen, HV]. Qed.

(** the invariants of every reached board *)
Theorem reachgen_invariants p0 b : pos_valid p0 = true -> ReachGen p0 b ->
  Canonical b /\ pos_valid (abs_board b) = true /\ is_sane b = true /\ BoardWF b.
Proof.
  intros HV R. pose proof (reachgen_good p0 b HV R) as G.
  split; [exact (proj1 G)|]. split; [exact (proj2 G)|]. split; [exact (good_sane b G)|exact (good_wf b G)].
Qed.

(** ** 2. C01 along every history *)
Theorem c01c_moves_of p0 b : pos_valid p0 = true -> ReachGen p0 b ->
  Permutation (moves_of b) (map of_spec_move (legal_moves (abs_board b))) /\ NoDup (moves_of b).
Proof. intros HV R. exact (good_moves_of b (reachgen_good p0 b HV R)). Qed.

Theorem c01c_legal_query p0 b : pos_valid p0 = true -> ReachGen p0 b ->
  forall m, legal b m = true <-> In m (map of_spec_move (legal_moves (abs_board b))).
Proof. intros HV R. exact (good_legal_query b (reachgen_good p0 b HV R)). Qed.

Theorem c01c_legal_fide p0 b : pos_valid p0 = true -> ReachGen p0 b ->
  forall m, legal b m = true <-> In (to_spec_move m) (legal_moves (abs_board b)).
Proof. intros HV R m. exact (good_legal_spec b m (reachgen_good p0 b HV R)). Qed.

Theorem c01c_len p0 b : pos_valid p0 = true -> ReachGen p0 b ->
  len (new_legal b) = N.of_nat (length (legal_moves (abs_board b))).
Proof.
  intros HV R. pose proof (reachgen_good p0 b HV R) as G.
  rewrite (len_new_legal b (good_wf b G) (good_sane b G)).
  destruct (good_moves_of b G) as [HP _].
  rewrite (Permutation_length HP), map_length. reflexivity.
Qed.

Theorem c01c_no_panic p0 b : pos_valid p0 = true -> ReachGen p0 b ->
  forall c, In c (moves_of b) ->
  exists b', make_move_new b (msrc c) (mdst c) (mpromo c) = Some b' /\ ReachGen p0 b' /\
             abs_board b' = apply (abs_board b) (to_spec_move c).
Proof.
  intros HV R c Hc. pose proof (reachgen_good p0 b HV R) as G.
  pose proof (proj1 (good_gen_spec b c G) Hc) as HL.
  destruct (good_move_some b (to_spec_move c) G HL) as [b' E]. exists b'.
  split; [exact E|]. split; [exact (RG_move p0 b c b' R Hc E)|].
  exact (proj2 (good_cmove b c b' G HL E)).
Qed.

(** the same for any move that [Board::legal] accepts *)
Theorem c01c_legal_no_panic p0 b : pos_valid p0 = true -> ReachGen p0 b ->
  forall c, legal b c = true ->
  exists b', make_move_new b (msrc c) (mdst c) (mpromo c) = Some b' /\ ReachGen p0 b'.
Proof.
  intros HV R c Hc. apply legal_iff_moves_of in Hc.
  destruct (c01c_no_panic p0 b HV R c Hc) as [b' [E [R' _]]]. exists b'. split; assumption.
Qed.

(** ** 3. C03 along every history: the incremental board IS the from-scratch board *)
Lemma board_eqb_refl b : board_eqb b b = true.
Proof.
  unfold board_eqb. rewrite !N.eqb_refl. destruct (stm b); cbn [color_eqb andb];
  (destruct (epsq b) as [e|]; [apply N.eqb_refl|reflexivity]).
Qed.

Theorem c03b_from_scratch p0 b : pos_valid p0 = true -> ReachGen p0 b ->
  b = from_scratch (abs_board b).
Proof. intros HV R. exact (proj1 (reachgen_good p0 b HV R)). Qed.

Theorem c03b_eq p0 b : pos_valid p0 = true -> ReachGen p0 b ->
  board_eqb b (from_scratch (abs_board b)) = true /\
  get_hash b = get_hash (from_scratch (abs_board b)) /\
  pinned b = pinned (from_scratch (abs_board b)) /\
  checkers b = checkers (from_scratch (abs_board b)).
Proof.
  intros HV R. pose proof (c03b_from_scratch p0 b HV R) as E.
  rewrite <- E. split; [apply board_eqb_refl|]. repeat split.
Qed.

Theorem c03b_checkers p0 b : pos_valid p0 = true -> ReachGen p0 b ->
  forall s, s < 64 -> (N.testbit (checkers b) s = true <-> In s (checkers_of (abs_board b))).
Proof. intros HV R. destruct (reachgen_good p0 b HV R) as [HCan HVb]. exact (Hch b HCan HVb). Qed.

Theorem c03b_pinned p0 b : pos_valid p0 = true -> ReachGen p0 b ->
  forall s, s < 64 ->
  (N.testbit (N.land (pinned b) (color_combined b (stm b))) s = true <-> In s (pinned_of (abs_board b))).
Proof.
  intros HV R s Hs. destruct (reachgen_good p0 b HV R) as [HCan HVb].
  pose proof (CanonScratch.from_scratch_pinned (abs_board b) HVb (abs_from_scratch _ HVb) s Hs) as H.
  rewrite <- HCan in H. exact H.
Qed.

Theorem c03b_consistent p0 b : pos_valid p0 = true -> ReachGen p0 b -> Consistent b.
Proof. intros HV R. exact (good_consistent b (reachgen_good p0 b HV R)). Qed.

Theorem c03b_in_check p0 b : pos_valid p0 = true -> ReachGen p0 b ->
  (checkers b <> 0 <-> in_check (abs_board b) (stm b) = true).
Proof. intros HV R. exact (good_checkers_in_check b (reachgen_good p0 b HV R)). Qed.

(** path independence: two reached boards showing the same position are the same board *)
Theorem c03b_path_independent p1 p2 b1 b2 : pos_valid p1 = true -> pos_valid p2 = true ->
  ReachGen p1 b1 -> ReachGen p2 b2 -> abs_board b1 = abs_board b2 -> b1 = b2.
Proof.
  intros V1 V2 R1 R2 E.
  rewrite (c03b_from_scratch p1 b1 V1 R1), (c03b_from_scratch p2 b2 V2 R2), E. reflexivity.
Qed.

(** one step, both textual copies of the move application ([Board::make_move_new] and
    [Board::make_move] into any output board [r0]): this is the statement
    [C03_incremental_full] of [Properties/C03.v] *)
Theorem c03b_incremental b m :
  Canonical b -> pos_valid (abs_board b) = true -> In m (legal_moves (abs_board b)) ->
  (exists b', make_move_new b (src m) (dst m) (promo m) = Some b' /\
              b' = from_scratch (apply (abs_board b) m)) /\
  (forall r0, exists b', make_move b (src m) (dst m) (promo m) r0 = Some b' /\
              b' = from_scratch (apply (abs_board b) m)).
Proof.
  intros HCan HV HL. assert (G : GoodBoard b) by (split; assumption).
  assert (H : exists b', make_move_new b (src m) (dst m) (promo m) = Some b' /\
                         b' = from_scratch (apply (abs_board b) m)).
  { destruct (good_move_some b m G HL) as [b' E]. exists b'. split; [exact E|].
    destruct (good_move b m b' G HL E) as [[HCan' _] Ha]. rewrite <- Ha. exact HCan'. }
  split; [exact H|]. intro r0. rewrite make_move_twin. exact H.
Qed.

(** ** 4. C04 along every history *)
Lemma good_status b : GoodBoard b -> board_status b = status (abs_board b).
Proof.
  intro G. rewrite (status_model b (good_wf b G) (good_sane b G)).
  destruct (good_moves_of b G) as [HP _]. unfold status.
  change (turn (abs_board b)) with (stm b).
  destruct (legal_moves (abs_board b)) as [|m r] eqn:EL.
  - cbn [map] in HP. apply Permutation_sym, Permutation_nil in HP. rewrite HP.
    pose proof (good_checkers_in_check b G) as Hiff.
    destruct (N.eqb_spec (checkers b) 0) as [Ez|Ez].
    + destruct (in_check (abs_board b) (stm b)); [|reflexivity].
      exfalso. apply (proj2 Hiff eq_refl). exact Ez.
    + rewrite (proj1 Hiff Ez). reflexivity.
  - destruct (moves_of b) as [|c cs]; [|reflexivity].
    apply Permutation_nil in HP. discriminate HP.
Qed.

Theorem c04b_status p0 b : pos_valid p0 = true -> ReachGen p0 b ->
  board_status b = status (abs_board b).
Proof. intros HV R. exact (good_status b (reachgen_good p0 b HV R)). Qed.

Lemma status_cases p :
  (status p = Checkmate <-> in_check p (turn p) = true /\ legal_moves p = []) /\
  (status p = Stalemate <-> in_check p (turn p) = false /\ legal_moves p = []) /\
  (status p = Ongoing <-> legal_moves p <> []).
Proof.
  unfold status. destruct (legal_moves p) as [|m r]; destruct (in_check p (turn p));
  (split; [|split]); split; intro H;
  try discriminate H; try (destruct H; discriminate);
  try (split; reflexivity); try reflexivity; try congruence.
Qed.

Theorem c04b_checkmate p0 b : pos_valid p0 = true -> ReachGen p0 b ->
  (board_status b = Checkmate <-> in_check (abs_board b) (stm b) = true /\ legal_moves (abs_board b) = []).
Proof. intros HV R. rewrite (c04b_status p0 b HV R). exact (proj1 (status_cases (abs_board b))). Qed.

Theorem c04b_stalemate p0 b : pos_valid p0 = true -> ReachGen p0 b ->
  (board_status b = Stalemate <-> in_check (abs_board b) (stm b) = false /\ legal_moves (abs_board b) = []).
Proof. intros HV R. rewrite (c04b_status p0 b HV R). exact (proj1 (proj2 (status_cases (abs_board b)))). Qed.

Theorem c04b_ongoing p0 b : pos_valid p0 = true -> ReachGen p0 b ->
  (board_status b = Ongoing <-> legal_moves (abs_board b) <> []).
Proof. intros HV R. rewrite (c04b_status p0 b HV R). exact (proj2 (proj2 (status_cases (abs_board b)))). Qed.

(** this discharges [StatusModel.C04_status_full] on the reached boards *)
Theorem c04b_all p0 b : pos_valid p0 = true -> ReachGen p0 b ->
  (board_status b = Checkmate <->
     in_check (abs_board b) (stm b) = true /\ legal_moves (abs_board b) = []) /\
  (board_status b = Stalemate <->
     in_check (abs_board b) (stm b) = false /\ legal_moves (abs_board b) = []) /\
  (board_status b = Ongoing <-> legal_moves (abs_board b) <> []) /\
  board_status b = status (abs_board b).
Proof.
  intros HV R. split; [exact (c04b_checkmate p0 b HV R)|]. split; [exact (c04b_stalemate p0 b HV R)|].
  split; [exact (c04b_ongoing p0 b HV R)|exact (c04b_status p0 b HV R)].
Qed.

(** ** 5. C05 along every history (null moves included) *)
Lemma rights_le_refl p : rights_le p p.
Proof. unfold rights_le. tauto. Qed.
Lemma rights_le_trans p q r : rights_le p q -> rights_le q r -> rights_le p r.
Proof. unfold rights_le. tauto. Qed.
Lemma rights_le_apply p m : rights_le (apply p m) p.
Proof. exact (rights_shrink p m). Qed.
Lemma rights_le_pass p : rights_le (pass p) p.
Proof. unfold rights_le, pass. cbn [wk wq bk bq]. tauto. Qed.

Theorem c05c_monotone p0 b : pos_valid p0 = true -> ReachGen p0 b ->
  rights_le (abs_board b) p0 /\
  (forall c, men (abs_board b) c <= men p0 c) /\ (forall c, pawns (abs_board b) c <= pawns p0 c).
Proof.
  intros HV R. induction R as [|b c b' R [IH1 [IH2 IH3]] Hc E|b b' R [IH1 [IH2 IH3]] E].
  - rewrite (abs_from_scratch p0 HV). split; [apply rights_le_refl|].
    split; intro c; apply N.le_refl.
  - pose proof (reachgen_good p0 b HV R) as G. apply (good_gen_spec b c G) in Hc.
    destruct (good_cmove b c b' G Hc E) as [_ Ha]. rewrite Ha. destruct G as [_ HVb].
    split; [exact (rights_le_trans _ _ _ (rights_le_apply _ _) IH1)|]. split; intro k.
    + exact (N.le_trans _ _ _ (men_nonincreasing _ _ k HVb Hc) (IH2 k)).
    + exact (N.le_trans _ _ _ (pawns_nonincreasing _ _ k HVb Hc) (IH3 k)).
  - pose proof (reachgen_good p0 b HV R) as G.
    destruct (good_null b b' G E) as [_ [_ [Ha _]]]. rewrite Ha.
    split; [exact (rights_le_trans _ _ _ (rights_le_pass _) IH1)|]. split; intro k.
    + rewrite men_pass. exact (IH2 k).
    + rewrite pawns_pass. exact (IH3 k).
Qed.

Theorem c05c_all p0 b : pos_valid p0 = true -> ReachGen p0 b ->
  is_sane b = true /\ pos_valid (abs_board b) = true /\ rights_le (abs_board b) p0 /\
  (forall c, men (abs_board b) c <= men p0 c) /\ (forall c, pawns (abs_board b) c <= pawns p0 c).
Proof.
  intros HV R. destruct (reachgen_invariants p0 b HV R) as [_ [H2 [H3 _]]].
  split; [exact H3|]. split; [exact H2|]. exact (c05c_monotone p0 b HV R).
Qed.

(** the placement of a reached board always has 64 cells and at most 16 men / 8 pawns a side,
    one king each (clauses of [pos_valid], spelled out) *)
Theorem c05c_counts p0 b : pos_valid p0 = true -> ReachGen p0 b ->
  forall c, kings (abs_board b) c = 1 /\ men (abs_board b) c <= 16 /\ pawns (abs_board b) c <= 8.
Proof.
  intros HV R c. destruct (c05c_all p0 b HV R) as [_ [HVb [_ [Hm Hp]]]].
  destruct (CanonNullMove.pos_valid_facts _ HVb) as [K1 [K2 _]].
  split; [destruct c; assumption|].
  unfold pos_valid in HV. repeat (apply andb_prop in HV; destruct HV as [HV ?]).
  repeat match goal with Hx : (_ <=? _) = true |- _ => apply N.leb_le in Hx end.
  split; [eapply N.le_trans; [apply Hm|]|eapply N.le_trans; [apply Hp|]]; destruct c; assumption.
Qed.

(** ** 6. C18 along every history *)
Theorem c18b_refused_iff p0 b : pos_valid p0 = true -> ReachGen p0 b ->
  (null_move b = None <-> in_check (abs_board b) (stm b) = true).
Proof. intros HV R. exact (good_null_iff b (reachgen_good p0 b HV R)). Qed.

Theorem c18b_accepted_iff p0 b : pos_valid p0 = true -> ReachGen p0 b ->
  ((exists b', null_move b = Some b') <-> in_check (abs_board b) (stm b) = false).
Proof.
  intros HV R. pose proof (c18b_refused_iff p0 b HV R) as Hiff. split.
  - intros [b' E]. destruct (in_check (abs_board b) (stm b)); [|reflexivity].
    rewrite (proj2 Hiff eq_refl) in E. discriminate E.
  - intro Hc. destruct (null_move b) as [b'|]; [exists b'; reflexivity|].
    rewrite (proj1 Hiff eq_refl) in Hc. discriminate Hc.
Qed.

Theorem c18b_result p0 b b' : pos_valid p0 = true -> ReachGen p0 b -> null_move b = Some b' ->
  b' = from_scratch (pass (abs_board b)) /\ abs_board b' = pass (abs_board b) /\ ReachGen p0 b'.
Proof.
  intros HV R E. destruct (good_null b b' (reachgen_good p0 b HV R) E) as [_ [H1 [H2 _]]].
  split; [exact H1|]. split; [exact H2|exact (RG_null p0 b b' R E)].
Qed.

(** spelled out: same placement and castling rights, the other side to move, no en-passant
    state, and hash / pin / check information of the from-scratch board *)
Theorem c18b_result_fields p0 b b' : pos_valid p0 = true -> ReachGen p0 b -> null_move b = Some b' ->
  placement (abs_board b') = placement (abs_board b) /\ stm b' = opp (stm b) /\ epsq b' = None /\
  wk (abs_board b') = wk (abs_board b) /\ wq (abs_board b') = wq (abs_board b) /\
  bk (abs_board b') = bk (abs_board b) /\ bq (abs_board b') = bq (abs_board b) /\
  get_hash b' = get_hash (from_scratch (pass (abs_board b))) /\
  pinned b' = pinned (from_scratch (pass (abs_board b))) /\
  checkers b' = checkers (from_scratch (pass (abs_board b))).
Proof.
  intros HV R E. destruct (c18b_result p0 b b' HV R E) as [H1 [H2 _]].
  destruct (null_move_fields b b' E) as [_ [Hs [_ [_ [_ He]]]]].
  rewrite H2. cbn [pass placement wk wq bk bq].
  split; [reflexivity|]. split; [exact Hs|]. split; [exact He|].
  repeat (split; [reflexivity|]). rewrite <- H1. repeat split.
Qed.

(** ** 7. Examples: the hypotheses are satisfiable *)
Example reachgen_ex_start : pos_valid startpos = true /\ ReachGen startpos (from_scratch startpos).
Proof. split; [vm_compute; reflexivity|apply RG_start]. Qed.

(** 1.e4 from the start position, by the library's own generator *)
Example reachgen_ex_e4 : exists b',
  In {| msrc := 12; mdst := 28; mpromo := None |} (moves_of (from_scratch startpos)) /\
  make_move_new (from_scratch startpos) 12 28 None = Some b' /\ ReachGen startpos b' /\ stm b' = Black.
Proof.
  assert (Hin : In {| msrc := 12; mdst := 28; mpromo := None |} (moves_of (from_scratch startpos))).
  { apply (proj1 (legal_iff_moves_of (from_scratch startpos) {| msrc := 12; mdst := 28; mpromo := None |})).
    vm_compute. reflexivity. }
  destruct (c01c_no_panic startpos _ (proj1 reachgen_ex_start) (RG_start startpos) _ Hin) as [b' [E [R Ha]]].
  exists b'. split; [exact Hin|]. split; [exact E|]. split; [exact R|].
  change (stm b') with (turn (abs_board b')). rewrite Ha. vm_compute. reflexivity.
Qed.

(** and a null move *)
Example reachgen_ex_null : exists b', null_move (from_scratch startpos) = Some b' /\ ReachGen startpos b'.
Proof.
  destruct (proj2 (c18b_accepted_iff startpos _ (proj1 reachgen_ex_start) (RG_start startpos))) as [b' E].
  { vm_compute. reflexivity. }
  exists b'. split; [exact E|exact (RG_null startpos _ b' (RG_start startpos) E)].
Qed.
