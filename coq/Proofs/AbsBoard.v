(** * Proofs.AbsBoard — C03, part 1: the occupancy words of a [board] are consistent with each
    other and with the per-square queries, and [abs_board] reads them square by square.

    A board square is described by nine bits (one per piece word, one per colour word, one of
    the combined word): [bitsat b s].  [Consistent b] says the nine words are 64-bit words,
    the piece words are pairwise disjoint, the colour words are disjoint, and the combined
    word is the union of the piece words and of the colour words; equivalently every square's
    nine bits are the encoding [enc] of an [option (ptype*color)].  [Board::xor] flips the
    bits of one encoding, so placing men on empty squares keeps consistency, and
    [place_all pcs] is consistent with placement exactly [pcs]. *)
From Coq Require Import Lia ZifyBool ZifyN ZifyNat FinFun.
From Chess Require Import Base.Bits Spec.Geometry Spec.Rules Model.Board.
From Chess Require Import Proofs.BitsFacts Proofs.TablesLib.
Open Scope N_scope.

(** ** 0. small bit facts *)
Lemma land_bit_eqb (x s:N) : (N.land x (bit s) =? 0) = negb (N.testbit x s).
Proof.
  destruct (N.testbit x s) eqn:E; cbn [negb].
  - apply N.eqb_neq. intro H.
    assert (Ht : N.testbit (N.land x (bit s)) s = true)
      by (rewrite N.land_spec, E, testbit_bit, N.eqb_refl; reflexivity).
    rewrite H, N.bits_0 in Ht. discriminate Ht.
  - apply N.eqb_eq. apply N.bits_inj. intro k.
    rewrite N.land_spec, testbit_bit, N.bits_0.
    destruct (N.eqb_spec s k) as [<-|Hne]; [rewrite E|rewrite andb_false_r]; reflexivity.
Qed.

Lemma land0_bits (x y:N) : N.land x y = 0 -> forall k, N.testbit x k && N.testbit y k = false.
Proof. intros H k. rewrite <- N.land_spec, H. apply N.bits_0. Qed.

Lemma bits_land0 (x y:N) : (forall k, N.testbit x k && N.testbit y k = false) -> N.land x y = 0.
Proof. intro H. apply N.bits_inj. intro k. rewrite N.land_spec, N.bits_0. apply H. Qed.

Lemma mem_in (x:N) (l:list N) : mem x l = true <-> In x l.
Proof.
  unfold mem. rewrite existsb_exists. split.
  - intros [y [Hy He]]. apply N.eqb_eq in He. subst y. exact Hy.
  - intro H. exists x. split; [exact H|apply N.eqb_refl].
Qed.

Lemma mem_all_sq (k:N) : mem k all_sq = (k <? 64).
Proof. apply existsb_all_sq. Qed.

Lemma NoDup_all_sq : NoDup all_sq.
Proof.
  rewrite all_sq_seq. apply FinFun.Injective_map_NoDup; [|apply seq_NoDup].
  intros x y H. apply Nat2N.inj, H.
Qed.

(** ** 1. The nine bits of a square *)
Record sqb := mk_sqb { bP:bool; bN:bool; bB:bool; bR:bool; bQ:bool; bK:bool;
                       bW:bool; bL:bool; bC:bool }.
Definition bitsat (b:board) (k:N) : sqb :=
  mk_sqb (N.testbit (pP b) k) (N.testbit (pN b) k) (N.testbit (pB b) k) (N.testbit (pR b) k)
         (N.testbit (pQ b) k) (N.testbit (pK b) k) (N.testbit (cW b) k) (N.testbit (cB b) k)
         (N.testbit (comb b) k).
Definition zero9 : sqb := mk_sqb false false false false false false false false false.
Definition xor9 (x y:sqb) : sqb :=
  mk_sqb (xorb (bP x) (bP y)) (xorb (bN x) (bN y)) (xorb (bB x) (bB y)) (xorb (bR x) (bR y))
         (xorb (bQ x) (bQ y)) (xorb (bK x) (bK y)) (xorb (bW x) (bW y)) (xorb (bL x) (bL y))
         (xorb (bC x) (bC y)).
(** the bits of a square holding [x] *)
Definition enc (x:option (ptype*color)) : sqb :=
  match x with
  | None => zero9
  | Some (p,c) =>
    mk_sqb (ptype_eqb p Pawn) (ptype_eqb p Knight) (ptype_eqb p Bishop) (ptype_eqb p Rook)
           (ptype_eqb p Queen) (ptype_eqb p King) (color_eqb c White) (color_eqb c Black) true
  end.
Definition pget (p:ptype) (x:sqb) : bool :=
  match p with Pawn => bP x | Knight => bN x | Bishop => bB x | Rook => bR x | Queen => bQ x
             | King => bK x end.
Definition cget (c:color) (x:sqb) : bool := match c with White => bW x | Black => bL x end.
Definition excl6 (a1 a2 a3 a4 a5 a6:bool) : bool :=
  negb (a1&&a2) && negb (a1&&a3) && negb (a1&&a4) && negb (a1&&a5) && negb (a1&&a6)
  && negb (a2&&a3) && negb (a2&&a4) && negb (a2&&a5) && negb (a2&&a6)
  && negb (a3&&a4) && negb (a3&&a5) && negb (a3&&a6)
  && negb (a4&&a5) && negb (a4&&a6) && negb (a5&&a6).
Definition ok9 (x:sqb) : bool :=
  excl6 (bP x) (bN x) (bB x) (bR x) (bQ x) (bK x) && negb (bW x && bL x)
  && Bool.eqb (bC x) (bP x || bN x || bB x || bR x || bQ x || bK x)
  && Bool.eqb (bC x) (bW x || bL x).
(** [Board::piece_on] / [Board::color_on] read on the nine bits *)
Definition piece_of9 (x:sqb) : option ptype :=
  if negb (bC x) then None
  else if xorb (xorb (bP x) (bN x)) (bB x) then
         if bP x then Some Pawn else if bN x then Some Knight else Some Bishop
       else if bR x then Some Rook else if bQ x then Some Queen else Some King.
Definition color_of9 (x:sqb) : option color :=
  if bW x then Some White else if bL x then Some Black else None.
Definition dec (x:sqb) : option (ptype*color) :=
  match piece_of9 x, color_of9 x with Some p, Some c => Some (p,c) | _, _ => None end.

Lemma dec_enc x : dec (enc x) = x.
Proof. destruct x as [[[] []]|]; reflexivity. Qed.
Lemma ok9_enc x : ok9 (enc x) = true.
Proof. destruct x as [[[] []]|]; reflexivity. Qed.
(** a consistent square is the encoding of what stands on it *)
Lemma ok9_canon x : ok9 x = true -> x = enc (dec x).
Proof.
  destruct x as [a1 a2 a3 a4 a5 a6 w l c].
  destruct a1, a2, a3, a4, a5, a6, w, l, c; intro H; try discriminate H; reflexivity.
Qed.
Lemma xor9_zero_l x : xor9 zero9 x = x.
Proof. destruct x; unfold xor9; cbn [bP bN bB bR bQ bK bW bL bC zero9]; rewrite !xorb_false_l; reflexivity. Qed.
Lemma xor9_zero_r x : xor9 x zero9 = x.
Proof. destruct x; unfold xor9; cbn [bP bN bB bR bQ bK bW bL bC zero9]; rewrite !xorb_false_r; reflexivity. Qed.

Lemma pget_bitsat b p k : pget p (bitsat b k) = N.testbit (pieces b p) k.
Proof. destruct p; reflexivity. Qed.
Lemma cget_bitsat b c k : cget c (bitsat b k) = N.testbit (color_combined b c) k.
Proof. destruct c; reflexivity. Qed.
Lemma bC_bitsat b k : bC (bitsat b k) = N.testbit (comb b) k.
Proof. reflexivity. Qed.

Lemma pget_enc p x : pget p (enc x) = match x with Some (q,_) => ptype_eqb p q | None => false end.
Proof. destruct x as [[[] []]|]; destruct p; reflexivity. Qed.
Lemma cget_enc c x : cget c (enc x) = match x with Some (_,d) => color_eqb c d | None => false end.
Proof. destruct x as [[[] []]|]; destruct c; reflexivity. Qed.
Lemma bC_enc x : bC (enc x) = match x with Some _ => true | None => false end.
Proof. destruct x as [[[] []]|]; reflexivity. Qed.

Lemma piece_on_bits b s : piece_on b s = piece_of9 (bitsat b s).
Proof.
  unfold piece_on, piece_of9, bitsat. cbn [bP bN bB bR bQ bK bW bL bC].
  rewrite !land_bit_eqb, !N.lxor_spec, !negb_involutive. reflexivity.
Qed.
Lemma color_on_bits b s : color_on b s = color_of9 (bitsat b s).
Proof.
  unfold color_on, color_of9, bitsat. cbn [bP bN bB bR bQ bK bW bL bC].
  rewrite !land_bit_eqb, !negb_involutive. reflexivity.
Qed.

(** ** 2. Consistency *)
Record Consistent (b:board) : Prop := mkConsistent {
  cs_pieces_lt : forall p, pieces b p < 2^64;
  cs_colors_lt : forall c, color_combined b c < 2^64;
  cs_comb_lt : comb b < 2^64;
  cs_pieces_disj : forall p q, p <> q -> N.land (pieces b p) (pieces b q) = 0;
  cs_colors_disj : N.land (cW b) (cB b) = 0;
  cs_comb_pieces :
    comb b = N.lor (N.lor (N.lor (N.lor (N.lor (pP b) (pN b)) (pB b)) (pR b)) (pQ b)) (pK b);
  cs_comb_colors : comb b = N.lor (cW b) (cB b) }.

Lemma excl6_spec a1 a2 a3 a4 a5 a6 :
  a1&&a2 = false -> a1&&a3 = false -> a1&&a4 = false -> a1&&a5 = false -> a1&&a6 = false ->
  a2&&a3 = false -> a2&&a4 = false -> a2&&a5 = false -> a2&&a6 = false ->
  a3&&a4 = false -> a3&&a5 = false -> a3&&a6 = false ->
  a4&&a5 = false -> a4&&a6 = false -> a5&&a6 = false -> excl6 a1 a2 a3 a4 a5 a6 = true.
Proof. unfold excl6. intros. repeat match goal with H : _ && _ = false |- _ => rewrite H; clear H end. reflexivity. Qed.

Lemma cons_bits b : Consistent b -> forall k, ok9 (bitsat b k) = true.
Proof.
  intros HC k. unfold ok9, bitsat. cbn [bP bN bB bR bQ bK bW bL bC].
  pose proof (cs_pieces_disj b HC) as Hd.
  rewrite excl6_spec;
    try (refine (land0_bits _ _ (Hd Pawn Knight _) k); discriminate);
    try (refine (land0_bits _ _ (Hd Pawn Bishop _) k); discriminate);
    try (refine (land0_bits _ _ (Hd Pawn Rook _) k); discriminate);
    try (refine (land0_bits _ _ (Hd Pawn Queen _) k); discriminate);
    try (refine (land0_bits _ _ (Hd Pawn King _) k); discriminate);
    try (refine (land0_bits _ _ (Hd Knight Bishop _) k); discriminate);
    try (refine (land0_bits _ _ (Hd Knight Rook _) k); discriminate);
    try (refine (land0_bits _ _ (Hd Knight Queen _) k); discriminate);
    try (refine (land0_bits _ _ (Hd Knight King _) k); discriminate);
    try (refine (land0_bits _ _ (Hd Bishop Rook _) k); discriminate);
    try (refine (land0_bits _ _ (Hd Bishop Queen _) k); discriminate);
    try (refine (land0_bits _ _ (Hd Bishop King _) k); discriminate);
    try (refine (land0_bits _ _ (Hd Rook Queen _) k); discriminate);
    try (refine (land0_bits _ _ (Hd Rook King _) k); discriminate);
    try (refine (land0_bits _ _ (Hd Queen King _) k); discriminate).
  rewrite (land0_bits _ _ (cs_colors_disj b HC) k).
  rewrite (cs_comb_pieces b HC) at 1. rewrite !N.lor_spec, eqb_reflx.
  rewrite (cs_comb_colors b HC), N.lor_spec, eqb_reflx. reflexivity.
Qed.

Lemma ok9_pair x p q : ok9 x = true -> p <> q -> pget p x && pget q x = false.
Proof.
  intros H Hpq. rewrite (ok9_canon x H). rewrite !pget_enc.
  destruct (dec x) as [[r c]|]; [|reflexivity].
  destruct p, q, r; try reflexivity; contradiction Hpq; reflexivity.
Qed.

Lemma bits_cons b :
  pP b < 2^64 -> pN b < 2^64 -> pB b < 2^64 -> pR b < 2^64 -> pQ b < 2^64 -> pK b < 2^64 ->
  cW b < 2^64 -> cB b < 2^64 -> comb b < 2^64 ->
  (forall k, ok9 (bitsat b k) = true) -> Consistent b.
Proof.
  intros H1 H2 H3 H4 H5 H6 H7 H8 H9 Hok. constructor.
  - intros []; assumption.
  - intros []; assumption.
  - exact H9.
  - intros p q Hpq. apply bits_land0. intro k.
    rewrite <- !pget_bitsat. apply ok9_pair; [apply Hok|exact Hpq].
  - apply bits_land0. intro k. specialize (Hok k).
    change (bW (bitsat b k) && bL (bitsat b k) = false).
    rewrite (ok9_canon _ Hok). destruct (dec (bitsat b k)) as [[r []]|]; reflexivity.
  - apply N.bits_inj. intro k. rewrite !N.lor_spec. specialize (Hok k).
    change (bC (bitsat b k) = bP (bitsat b k) || bN (bitsat b k) || bB (bitsat b k)
              || bR (bitsat b k) || bQ (bitsat b k) || bK (bitsat b k)).
    rewrite (ok9_canon _ Hok). destruct (dec (bitsat b k)) as [[[] c]|]; reflexivity.
  - apply N.bits_inj. intro k. rewrite !N.lor_spec. specialize (Hok k).
    change (bC (bitsat b k) = bW (bitsat b k) || bL (bitsat b k)).
    rewrite (ok9_canon _ Hok). destruct (dec (bitsat b k)) as [[r []]|]; reflexivity.
Qed.

(** ** 3. Per-square queries *)
Theorem piece_on_spec b s p : Consistent b -> s < 64 ->
  (piece_on b s = Some p <-> N.testbit (pieces b p) s = true).
Proof.
  intros HC _. rewrite piece_on_bits, <- pget_bitsat.
  pose proof (cons_bits b HC s) as Hok. rewrite (ok9_canon _ Hok).
  destruct (dec (bitsat b s)) as [[q c]|].
  - destruct p, q, c; cbn; split; intro H; try discriminate H; reflexivity.
  - destruct p; cbn; split; intro H; discriminate H.
Qed.

Theorem piece_on_none b s : Consistent b -> s < 64 ->
  (piece_on b s = None <-> N.testbit (comb b) s = false).
Proof.
  intros HC _. rewrite piece_on_bits, <- bC_bitsat.
  pose proof (cons_bits b HC s) as Hok. rewrite (ok9_canon _ Hok).
  destruct (dec (bitsat b s)) as [[[] []]|]; cbn; split; intro H; try discriminate H; reflexivity.
Qed.

Theorem color_on_spec b s c : Consistent b -> s < 64 ->
  (color_on b s = Some c <-> N.testbit (color_combined b c) s = true).
Proof.
  intros HC _. rewrite color_on_bits, <- cget_bitsat.
  pose proof (cons_bits b HC s) as Hok. rewrite (ok9_canon _ Hok).
  destruct (dec (bitsat b s)) as [[q d]|].
  - destruct c, q, d; cbn; split; intro H; try discriminate H; reflexivity.
  - destruct c; cbn; split; intro H; discriminate H.
Qed.

Theorem color_on_none b s : Consistent b -> s < 64 ->
  (color_on b s = None <-> N.testbit (comb b) s = false).
Proof.
  intros HC _. rewrite color_on_bits, <- bC_bitsat.
  pose proof (cons_bits b HC s) as Hok. rewrite (ok9_canon _ Hok).
  destruct (dec (bitsat b s)) as [[[] []]|]; cbn; split; intro H; try discriminate H; reflexivity.
Qed.

(** the abstraction reads the board square by square (no consistency needed) *)
Theorem at_abs b s : s < 64 ->
  at_ (abs_board b) s =
  match piece_on b s, color_on b s with Some p, Some c => Some (p,c) | _, _ => None end.
Proof.
  intro Hs. unfold at_, abs_board. cbn [placement].
  change (nth (N.to_nat s) ?l None) with (nthN l s None).
  rewrite nthN_map_all_sq by exact Hs.
  destruct (piece_on b s); [destruct (color_on b s)|]; reflexivity.
Qed.

Lemma at_abs_dec b s : s < 64 -> at_ (abs_board b) s = dec (bitsat b s).
Proof. intro Hs. rewrite at_abs, piece_on_bits, color_on_bits by exact Hs. reflexivity. Qed.

(** on a consistent board the nine bits of a square encode what the abstraction sees there *)
Lemma bitsat_enc b s : Consistent b -> s < 64 -> bitsat b s = enc (at_ (abs_board b) s).
Proof. intros HC Hs. rewrite at_abs_dec by exact Hs. apply ok9_canon, cons_bits, HC. Qed.

Theorem has_abs b s p c : Consistent b -> s < 64 ->
  has (abs_board b) s p c = N.testbit (pieces b p) s && N.testbit (color_combined b c) s.
Proof.
  intros HC Hs. rewrite <- pget_bitsat, <- cget_bitsat, (bitsat_enc b s HC Hs).
  rewrite pget_enc, cget_enc. unfold has.
  destruct (at_ (abs_board b) s) as [[q d]|]; reflexivity.
Qed.

Theorem occ_abs b s : Consistent b -> s < 64 -> occ (abs_board b) s = N.testbit (comb b) s.
Proof.
  intros HC Hs. rewrite <- bC_bitsat, (bitsat_enc b s HC Hs), bC_enc. reflexivity.
Qed.

Theorem own_abs b c s : Consistent b -> s < 64 ->
  own (abs_board b) c s = N.testbit (color_combined b c) s.
Proof.
  intros HC Hs. rewrite <- cget_bitsat, (bitsat_enc b s HC Hs), cget_enc.
  unfold own, colour_at. destruct (at_ (abs_board b) s) as [[q d]|]; reflexivity.
Qed.

Theorem enemy_abs b c s : Consistent b -> s < 64 ->
  enemy (abs_board b) c s = N.testbit (color_combined b (opp c)) s.
Proof.
  intros HC Hs. rewrite <- cget_bitsat, (bitsat_enc b s HC Hs), cget_enc.
  unfold enemy, colour_at. destruct (at_ (abs_board b) s) as [[q []]|]; destruct c; reflexivity.
Qed.

(** what stands on a square, from the words *)
Lemma at_abs_some b s p c : Consistent b -> s < 64 ->
  (at_ (abs_board b) s = Some (p,c) <->
   N.testbit (pieces b p) s = true /\ N.testbit (color_combined b c) s = true).
Proof.
  intros HC Hs. rewrite <- pget_bitsat, <- cget_bitsat, (bitsat_enc b s HC Hs).
  rewrite pget_enc, cget_enc.
  destruct (at_ (abs_board b) s) as [[q d]|].
  - destruct p, q, c, d; cbn; split; intro H; try discriminate H; try reflexivity;
      try (split; reflexivity); destruct H as [H1 H2]; discriminate.
  - split; [discriminate|intros [H _]; discriminate H].
Qed.

(** ** 4. [Board::xor] on the nine bits *)
Lemma bitsat_xor_piece b p bb c k :
  bitsat (xor_piece b p bb c) k
  = xor9 (bitsat b k) (if N.testbit bb k then enc (Some (p,c)) else zero9).
Proof.
  unfold bitsat, xor9. cbn [bP bN bB bR bQ bK bW bL bC].
  destruct (N.testbit bb k) eqn:E;
    destruct p, c; cbn [xor_piece pP pN pB pR pQ pK cW cB comb enc ptype_eqb color_eqb zero9
                        bP bN bB bR bQ bK bW bL bC];
    rewrite ?N.lxor_spec, ?E, ?xorb_false_r; reflexivity.
Qed.

Lemma lxor_lt64 x y : x < 2^64 -> y < 2^64 -> N.lxor x y < 2^64.
Proof. apply bb_xor_lt64. Qed.

(** toggling a man onto an empty square keeps the words consistent *)
Theorem xor_piece_consistent b p s c :
  Consistent b -> s < 64 -> N.testbit (comb b) s = false -> Consistent (xor_piece b p (bit s) c).
Proof.
  intros HC Hs Hempty.
  pose proof (bit_lt64 s Hs) as Hb.
  pose proof (cs_pieces_lt b HC) as Hp. pose proof (cs_colors_lt b HC) as Hc.
  pose proof (cs_comb_lt b HC) as Hm.
  apply bits_cons;
    try (destruct p, c; cbn [xor_piece pP pN pB pR pQ pK cW cB comb];
         first [ apply lxor_lt64; [|exact Hb] | idtac ];
         first [ exact (Hp Pawn) | exact (Hp Knight) | exact (Hp Bishop) | exact (Hp Rook)
               | exact (Hp Queen) | exact (Hp King) | exact (Hc White) | exact (Hc Black)
               | exact Hm ]).
  intro k. rewrite bitsat_xor_piece, testbit_bit.
  destruct (N.eqb_spec s k) as [<-|Hne].
  - pose proof (cons_bits b HC s) as Hok.
    assert (Hz : bitsat b s = zero9).
    { rewrite (ok9_canon _ Hok). pose proof (bC_bitsat b s) as HbC. rewrite Hempty in HbC.
      rewrite (ok9_canon _ Hok), bC_enc in HbC.
      destruct (dec (bitsat b s)); [discriminate HbC|reflexivity]. }
    rewrite Hz, xor9_zero_l. apply ok9_enc.
  - rewrite xor9_zero_r. apply cons_bits, HC.
Qed.

(** ** 5. [place_all] *)
Definition pstep (pcs:list (option (ptype*color))) (b:board) (s:N) : board :=
  match nth (N.to_nat s) pcs None with Some (p,c) => xor_piece b p (bit s) c | None => b end.

Lemma place_all_fold pcs : place_all pcs = fold_left (pstep pcs) all_sq board_new.
Proof. reflexivity. Qed.

Lemma bitsat_pstep pcs b s k :
  bitsat (pstep pcs b s) k
  = if s =? k then xor9 (bitsat b k) (enc (nth (N.to_nat s) pcs None)) else bitsat b k.
Proof.
  unfold pstep. destruct (nth (N.to_nat s) pcs None) as [[p c]|].
  - rewrite bitsat_xor_piece, testbit_bit. destruct (s =? k); [reflexivity|apply xor9_zero_r].
  - cbn [enc]. rewrite xor9_zero_r. destruct (s =? k); reflexivity.
Qed.

Lemma bitsat_place_fold pcs l : NoDup l -> forall b k,
  bitsat (fold_left (pstep pcs) l b) k
  = if mem k l then xor9 (bitsat b k) (enc (nth (N.to_nat k) pcs None)) else bitsat b k.
Proof.
  induction 1 as [|s l Hnin Hnd IH]; intros b k; cbn [fold_left mem existsb]; [reflexivity|].
  fold (mem k l). rewrite IH, bitsat_pstep. rewrite (N.eqb_sym k s).
  destruct (N.eqb_spec s k) as [<-|Hne]; cbn [orb]; [|reflexivity].
  destruct (mem s l) eqn:Hm; [|reflexivity].
  apply mem_in in Hm. contradiction.
Qed.

Lemma bitsat_board_new k : bitsat board_new k = zero9.
Proof. unfold bitsat, board_new. cbn [pP pN pB pR pQ pK cW cB comb]. rewrite N.bits_0. reflexivity. Qed.

(** the nine bits of [place_all pcs]: the encoding of entry [k] below 64, nothing above *)
Theorem bitsat_place_all pcs k :
  bitsat (place_all pcs) k = if k <? 64 then enc (nth (N.to_nat k) pcs None) else zero9.
Proof.
  rewrite place_all_fold, (bitsat_place_fold pcs all_sq NoDup_all_sq), mem_all_sq.
  rewrite bitsat_board_new, xor9_zero_l. reflexivity.
Qed.

Lemma place_all_high pcs (f:sqb->bool) (w:N) :
  (forall k, N.testbit w k = f (bitsat (place_all pcs) k)) -> f zero9 = false -> w < 2^64.
Proof.
  intros Hw Hf. apply lt64_bits. intros k Hk. rewrite Hw, bitsat_place_all.
  destruct (N.ltb_spec k 64); [lia|exact Hf].
Qed.

Theorem place_all_consistent pcs : Consistent (place_all pcs).
Proof.
  apply bits_cons.
  - apply (place_all_high pcs bP); [intro k; unfold bitsat; cbn [bP]; reflexivity|reflexivity].
  - apply (place_all_high pcs bN); [intro k; unfold bitsat; cbn [bN]; reflexivity|reflexivity].
  - apply (place_all_high pcs bB); [intro k; unfold bitsat; cbn [bB]; reflexivity|reflexivity].
  - apply (place_all_high pcs bR); [intro k; unfold bitsat; cbn [bR]; reflexivity|reflexivity].
  - apply (place_all_high pcs bQ); [intro k; unfold bitsat; cbn [bQ]; reflexivity|reflexivity].
  - apply (place_all_high pcs bK); [intro k; unfold bitsat; cbn [bK]; reflexivity|reflexivity].
  - apply (place_all_high pcs bW); [intro k; unfold bitsat; cbn [bW]; reflexivity|reflexivity].
  - apply (place_all_high pcs bL); [intro k; unfold bitsat; cbn [bL]; reflexivity|reflexivity].
  - apply (place_all_high pcs bC); [intro k; unfold bitsat; cbn [bC]; reflexivity|reflexivity].
  - intro k. rewrite bitsat_place_all. destruct (k <? 64); [apply ok9_enc|reflexivity].
Qed.

Theorem at_place_all pcs s : s < 64 ->
  at_ (abs_board (place_all pcs)) s = nth (N.to_nat s) pcs None.
Proof.
  intro Hs. rewrite at_abs_dec by exact Hs. rewrite bitsat_place_all.
  destruct (N.ltb_spec s 64); [apply dec_enc|lia].
Qed.

(** the placement list of the abstraction is [pcs] itself when [pcs] has 64 entries *)
Theorem placement_place_all pcs : length pcs = 64%nat ->
  placement (abs_board (place_all pcs)) = pcs.
Proof.
  intro Hlen. apply (nth_ext _ _ None None).
  - unfold abs_board. cbn [placement]. rewrite map_length. symmetry. exact Hlen.
  - intros n Hn. unfold abs_board in Hn. cbn [placement] in Hn. rewrite map_length in Hn.
    change (length all_sq) with 64%nat in Hn.
    pose proof (at_place_all pcs (N.of_nat n) ltac:(lia)) as H.
    unfold at_ in H. rewrite Nat2N.id in H. exact H.
Qed.

(** ** 6. The king square *)
Lemma find_eqb_sweep :
  forallb (fun s0 => match find (N.eqb s0) all_sq with Some x => x =? s0 | None => false end)
          all_sq = true.
Proof. vm_cast_no_check (eq_refl true). Qed.

Lemma find_eqb_all_sq s0 : s0 < 64 -> find (N.eqb s0) all_sq = Some s0.
Proof.
  intro Hs. pose proof (sweep64 _ find_eqb_sweep s0 Hs) as H. cbv beta in H.
  destruct (find (N.eqb s0) all_sq) as [x|]; [|discriminate H].
  apply N.eqb_eq in H. subst x. reflexivity.
Qed.

Lemma find_ext_in {A} (f g:A->bool) (l:list A) :
  (forall x, In x l -> f x = g x) -> find f l = find g l.
Proof.
  induction l as [|a l IH]; intro H; cbn [find]; [reflexivity|].
  rewrite (H a (or_introl eq_refl)). destruct (g a); [reflexivity|].
  apply IH. intros x Hx. apply H. right. exact Hx.
Qed.

(** a word with exactly one set bit is that bit *)
Lemma popcnt1_bit x : popcnt x = 1 -> exists s, x = bit s /\ N.testbit x s = true.
Proof.
  intro Hp. rewrite popcnt_length in Hp.
  destruct (squares_of x) as [|s [|s' l]] eqn:E; cbn [length] in Hp; try lia.
  exists s. assert (Hx : x = bit s) by (apply squares_of_inj; rewrite E, squares_of_bit; reflexivity).
  split; [exact Hx|]. apply squares_of_spec. rewrite E. left. reflexivity.
Qed.

Lemma to_square_bit s : s < 64 -> to_square (bit s) = s.
Proof.
  intro Hs. destruct (to_square_min (bit s) (bit_nonzero s) (bit_lt64 s Hs)) as [H _].
  rewrite H, squares_of_bit. reflexivity.
Qed.

(** exactly one king of colour [c]: the word is the bit of [king_square b c] *)
Lemma one_king_bit b c : Consistent b -> popcnt (N.land (pK b) (color_combined b c)) = 1 ->
  king_square b c < 64 /\ N.land (pK b) (color_combined b c) = bit (king_square b c).
Proof.
  intros HC Hp. destruct (popcnt1_bit _ Hp) as [s [Hx Hs]].
  assert (Hlt : s < 64).
  { apply (testbit_lt64 (N.land (pK b) (color_combined b c))); [|exact Hs].
    apply bb_and_lt64; [exact (cs_pieces_lt b HC King)|exact (cs_colors_lt b HC c)]. }
  unfold king_square. rewrite Hx, to_square_bit by exact Hlt. split; [exact Hlt|reflexivity].
Qed.

Theorem king_square_spec b c : Consistent b -> popcnt (N.land (pK b) (color_combined b c)) = 1 ->
  king_sq (abs_board b) c = Some (king_square b c).
Proof.
  intros HC Hp. destruct (one_king_bit b c HC Hp) as [Hlt Hbit].
  unfold king_sq. rewrite <- (find_eqb_all_sq _ Hlt). apply find_ext_in.
  intros s Hs. apply in_all_sq in Hs.
  rewrite (has_abs b s King c HC Hs). cbn [pieces].
  rewrite <- N.land_spec, Hbit, testbit_bit. reflexivity.
Qed.

(** the king of colour [c] stands on [king_square b c] *)
Lemma king_square_has b c : Consistent b -> popcnt (N.land (pK b) (color_combined b c)) = 1 ->
  N.testbit (pK b) (king_square b c) = true /\
  N.testbit (color_combined b c) (king_square b c) = true.
Proof.
  intros HC Hp. destruct (one_king_bit b c HC Hp) as [Hlt Hbit].
  assert (H : N.testbit (N.land (pK b) (color_combined b c)) (king_square b c) = true)
    by (rewrite Hbit, testbit_bit; apply N.eqb_refl).
  rewrite N.land_spec in H. apply andb_prop in H. exact H.
Qed.

(** ** 7. Examples: the hypotheses are satisfiable by the start position *)
Example startboard_consistent : Consistent (place_all (placement startpos)).
Proof. apply place_all_consistent. Qed.
Example startboard_king :
  popcnt (N.land (pK (place_all (placement startpos))) (cW (place_all (placement startpos)))) = 1
  /\ king_square (place_all (placement startpos)) White = 4
  /\ king_sq (abs_board (place_all (placement startpos))) White = Some 4
  /\ piece_on (place_all (placement startpos)) 4 = Some King
  /\ N.testbit (comb (place_all (placement startpos))) 20 = false.
Proof. vm_compute. repeat split. Qed.
