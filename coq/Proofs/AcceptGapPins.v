(** * Proofs.AcceptGapPins — the definitions used by [Properties/X07b.v], spelled out
    (each is the definition itself: proved by unfolding and [reflexivity]). *)
From Coq Require Import NArith ZArith List Bool Permutation String.
From Chess Require Import Base.Bits Base.Text Spec.Geometry Spec.Rules Model.Board Model.MoveGen Model.Fen.
From Chess Require Import Proofs.AcceptGap Proofs.AcceptGapWitness.
Import ListNotations.
Open Scope N_scope.

Lemma pin_extra_def :
  forall p, extra p =
  (pawns p White <=? 8) && (pawns p Black <=? 8)
  && forallb (fun s => negb (has p s Pawn White || has p s Pawn Black))
             [0;1;2;3;4;5;6;7;56;57;58;59;60;61;62;63]
  && match ep p with Some t => negb (occ p t) | None => true end
  && match ep p with
     | Some t => match step t (0, fwdc (turn p))%Z with Some origin => negb (occ p origin) | None => true end
     | None => true end
  && match ep p with
     | Some t =>
       match step t (0, - fwdc (turn p))%Z, step t (0, fwdc (turn p))%Z with
       | Some pawn_sq, Some origin =>
         negb (in_check
                 {| placement := updN (updN (placement p) pawn_sq None) origin (Some (Pawn, opp (turn p)));
                    turn := opp (turn p); wk := wk p; wq := wq p; bk := bk p; bq := bq p; ep := None |}
                 (turn p))
       | _, _ => true end
     | None => true end.
Proof.
  intros; unfold extra, gap_profile, weak_valid, weak_ep_ok, no_backrank_pawns, ep_target_empty,
    ep_origin_empty, ep_no_prior_check, in_gap, good_behaviour, runs_all, agrees_all, agrees_on,
    oracle_moves, ep_target_behaviour, ep_target_own_behaviour, ep_capture, e4_with_target,
    fen_white_pawns, fen_black_pawns, fen_backrank, fen_backrank_black8, fen_backrank_white8,
    fen_backrank_black1, fen_ep_target, fen_ep_target_own, fen_ep_origin, fen_ep_prior_check;
  reflexivity.
Qed.

Lemma pin_gap_profile_def :
  forall p, gap_profile p =
  [pawns p White <=? 8; pawns p Black <=? 8; no_backrank_pawns p;
   ep_target_empty p; ep_origin_empty p; ep_no_prior_check p].
Proof.
  intros; unfold extra, gap_profile, weak_valid, weak_ep_ok, no_backrank_pawns, ep_target_empty,
    ep_origin_empty, ep_no_prior_check, in_gap, good_behaviour, runs_all, agrees_all, agrees_on,
    oracle_moves, ep_target_behaviour, ep_target_own_behaviour, ep_capture, e4_with_target,
    fen_white_pawns, fen_black_pawns, fen_backrank, fen_backrank_black8, fen_backrank_white8,
    fen_backrank_black1, fen_ep_target, fen_ep_target_own, fen_ep_origin, fen_ep_prior_check;
  reflexivity.
Qed.

Lemma pin_weak_valid_def :
  forall p, weak_valid p =
  (length (placement p) =? 64)%nat
  && (kings p White =? 1) && (kings p Black =? 1)
  && (men p White <=? 16) && (men p Black <=? 16)
  && negb (in_check p (opp (turn p)))
  && implb (wk p) (has p 4 King White && has p 7 Rook White)
  && implb (wq p) (has p 4 King White && has p 0 Rook White)
  && implb (bk p) (has p 60 King Black && has p 63 Rook Black)
  && implb (bq p) (has p 60 King Black && has p 56 Rook Black)
  && match ep p with
     | None => true
     | Some t =>
       (t <? 64) && (rank_of t =? sixth_rank (turn p)) &&
       match step t (0, - fwdc (turn p))%Z, step t (0, fwdc (turn p))%Z with
       | Some pawn_sq, Some origin =>
         has p pawn_sq Pawn (opp (turn p))
         && existsb (fun d => match step pawn_sq d with
                              | Some x => has p x Pawn (turn p) | None => false end) [(1,0);(-1,0)]%Z
       | _, _ => false end
     end.
Proof.
  intros; unfold extra, gap_profile, weak_valid, weak_ep_ok, no_backrank_pawns, ep_target_empty,
    ep_origin_empty, ep_no_prior_check, in_gap, good_behaviour, runs_all, agrees_all, agrees_on,
    oracle_moves, ep_target_behaviour, ep_target_own_behaviour, ep_capture, e4_with_target,
    fen_white_pawns, fen_black_pawns, fen_backrank, fen_backrank_black8, fen_backrank_white8,
    fen_backrank_black1, fen_ep_target, fen_ep_target_own, fen_ep_origin, fen_ep_prior_check;
  reflexivity.
Qed.

Lemma pin_in_gap_def :
  forall prof b, in_gap prof b <->
  pos_valid (abs_board b) = false /\ weak_valid (abs_board b) = true /\
  gap_profile (abs_board b) = prof.
Proof.
  intros; unfold extra, gap_profile, weak_valid, weak_ep_ok, no_backrank_pawns, ep_target_empty,
    ep_origin_empty, ep_no_prior_check, in_gap, good_behaviour, runs_all, agrees_all, agrees_on,
    oracle_moves, ep_target_behaviour, ep_target_own_behaviour, ep_capture, e4_with_target,
    fen_white_pawns, fen_black_pawns, fen_backrank, fen_backrank_black8, fen_backrank_white8,
    fen_backrank_black1, fen_ep_target, fen_ep_target_own, fen_ep_origin, fen_ep_prior_check;
  apply iff_refl.
Qed.

Lemma pin_witness_texts :
  fen_white_pawns = ParseTotal.s_of "4k3/8/8/8/8/P7/PPPPPPPP/4K3 w - - 0 1"%string /\
  fen_black_pawns = ParseTotal.s_of "4k3/pppppppp/p7/8/8/8/8/4K3 w - - 0 1"%string /\
  fen_backrank = ParseTotal.s_of "4k3/8/8/8/8/8/8/P3K3 w - - 0 1"%string /\
  fen_backrank_black8 = ParseTotal.s_of "p3k3/8/8/8/8/8/8/4K3 b - - 0 1"%string /\
  fen_backrank_white8 = ParseTotal.s_of "P3k3/8/8/8/8/8/8/4K3 w - - 0 1"%string /\
  fen_backrank_black1 = ParseTotal.s_of "4k3/8/8/8/8/8/8/p3K3 b - - 0 1"%string /\
  fen_ep_target = ParseTotal.s_of "4k3/8/8/8/3Pp3/3N4/8/4K3 b - d3 0 1"%string /\
  fen_ep_target_own = ParseTotal.s_of "4k3/8/8/8/3Pp3/3n4/8/7K b - d3 0 1"%string /\
  fen_ep_origin = ParseTotal.s_of "4k3/8/8/8/3Pp3/8/3N4/4K3 b - d3 0 1"%string /\
  fen_ep_prior_check = ParseTotal.s_of "7k/8/8/8/3Pp3/8/8/B3K3 b - d3 0 1"%string.
Proof.
  intros; unfold extra, gap_profile, weak_valid, weak_ep_ok, no_backrank_pawns, ep_target_empty,
    ep_origin_empty, ep_no_prior_check, in_gap, good_behaviour, runs_all, agrees_all, agrees_on,
    oracle_moves, ep_target_behaviour, ep_target_own_behaviour, ep_capture, e4_with_target,
    fen_white_pawns, fen_black_pawns, fen_backrank, fen_backrank_black8, fen_backrank_white8,
    fen_backrank_black1, fen_ep_target, fen_ep_target_own, fen_ep_origin, fen_ep_prior_check;
  repeat split.
Qed.

Lemma pin_e4_with_target_def :
  e4_with_target =
  {| placement := updN (updN (placement startpos) 12 None) 28 (Some (Pawn,White));
     turn := Black; wk := true; wq := true; bk := true; bq := true; ep := Some 20 |}.
Proof.
  intros; unfold extra, gap_profile, weak_valid, weak_ep_ok, no_backrank_pawns, ep_target_empty,
    ep_origin_empty, ep_no_prior_check, in_gap, good_behaviour, runs_all, agrees_all, agrees_on,
    oracle_moves, ep_target_behaviour, ep_target_own_behaviour, ep_capture, e4_with_target,
    fen_white_pawns, fen_black_pawns, fen_backrank, fen_backrank_black8, fen_backrank_white8,
    fen_backrank_black1, fen_ep_target, fen_ep_target_own, fen_ep_origin, fen_ep_prior_check;
  reflexivity.
Qed.

Lemma pin_good_behaviour_def :
  forall n b, good_behaviour n b <->
  movelist_overflow b = false /\ length (moves_of b) = n /\
  (forall m, In m (moves_of b) ->
     exists b', make_move_new b (msrc m) (mdst m) (mpromo m) = Some b' /\ is_sane b' = true) /\
  (forall m, In m (moves_of b) ->
     exists b', make_move_new b (msrc m) (mdst m) (mpromo m) = Some b' /\
                abs_board b' = apply (abs_board b) (to_spec_move m)) /\
  Permutation (moves_of b) (map of_spec_move (legal_moves (abs_board b))).
Proof.
  intros; unfold extra, gap_profile, weak_valid, weak_ep_ok, no_backrank_pawns, ep_target_empty,
    ep_origin_empty, ep_no_prior_check, in_gap, good_behaviour, runs_all, agrees_all, agrees_on,
    oracle_moves, ep_target_behaviour, ep_target_own_behaviour, ep_capture, e4_with_target,
    fen_white_pawns, fen_black_pawns, fen_backrank, fen_backrank_black8, fen_backrank_white8,
    fen_backrank_black1, fen_ep_target, fen_ep_target_own, fen_ep_origin, fen_ep_prior_check;
  apply iff_refl.
Qed.

Lemma pin_ep_target_behaviour_def :
  forall b, ep_target_behaviour b <->
  movelist_overflow b = false /\
  moves_of b = [{| msrc := 28; mdst := 19; mpromo := None |}; {| msrc := 28; mdst := 20; mpromo := None |};
                {| msrc := 28; mdst := 19; mpromo := None |};
                {| msrc := 60; mdst := 51; mpromo := None |}; {| msrc := 60; mdst := 52; mpromo := None |};
                {| msrc := 60; mdst := 53; mpromo := None |}; {| msrc := 60; mdst := 59; mpromo := None |};
                {| msrc := 60; mdst := 61; mpromo := None |}] /\
  length (map of_spec_move (legal_moves (abs_board b))) = 7%nat /\
  In {| msrc := 28; mdst := 19; mpromo := None |} (map of_spec_move (legal_moves (abs_board b))) /\
  (forall m, In m (moves_of b) <-> In m (map of_spec_move (legal_moves (abs_board b)))) /\
  ~ NoDup (moves_of b) /\
  ~ Permutation (moves_of b) (map of_spec_move (legal_moves (abs_board b))) /\ 
  (forall m, In m (moves_of b) ->
     exists b', make_move_new b (msrc m) (mdst m) (mpromo m) = Some b' /\ is_sane b' = true) /\
  (forall m, In m (moves_of b) -> m <> {| msrc := 28; mdst := 19; mpromo := None |} ->
     exists b', make_move_new b (msrc m) (mdst m) (mpromo m) = Some b' /\
                abs_board b' = apply (abs_board b) (to_spec_move m)) /\
  exists b', make_move_new b 28 19 None = Some b' /\ is_sane b' = true /\
    abs_board b' <> apply (abs_board b) (mv 28 19) /\
    at_ (abs_board b) 19 = Some (Knight,White) /\ at_ (abs_board b) 27 = Some (Pawn,White) /\
    at_ (abs_board b') 19 = Some (Pawn,Black) /\ at_ (abs_board b') 27 = None /\
    at_ (apply (abs_board b) (mv 28 19)) 19 = Some (Pawn,Black) /\
    at_ (apply (abs_board b) (mv 28 19)) 27 = Some (Pawn,White).
Proof.
  intros; unfold extra, gap_profile, weak_valid, weak_ep_ok, no_backrank_pawns, ep_target_empty,
    ep_origin_empty, ep_no_prior_check, in_gap, good_behaviour, runs_all, agrees_all, agrees_on,
    oracle_moves, ep_target_behaviour, ep_target_own_behaviour, ep_capture, e4_with_target,
    fen_white_pawns, fen_black_pawns, fen_backrank, fen_backrank_black8, fen_backrank_white8,
    fen_backrank_black1, fen_ep_target, fen_ep_target_own, fen_ep_origin, fen_ep_prior_check;
  apply iff_refl.
Qed.

Lemma pin_ep_target_own_behaviour_def :
  forall b, ep_target_own_behaviour b <->
  movelist_overflow b = false /\ length (moves_of b) = 15%nat /\
  Permutation (moves_of b) (map of_spec_move (legal_moves (abs_board b))) /\
  In {| msrc := 28; mdst := 19; mpromo := None |} (moves_of b) /\ 
  (forall m, In m (moves_of b) ->
     exists b', make_move_new b (msrc m) (mdst m) (mpromo m) = Some b' /\ is_sane b' = true) /\
  (forall m, In m (moves_of b) -> m <> {| msrc := 28; mdst := 19; mpromo := None |} ->
     exists b', make_move_new b (msrc m) (mdst m) (mpromo m) = Some b' /\
                abs_board b' = apply (abs_board b) (to_spec_move m)) /\
  exists b', make_move_new b 28 19 None = Some b' /\ is_sane b' = true /\
    abs_board b' <> apply (abs_board b) (mv 28 19) /\
    at_ (abs_board b) 19 = Some (Knight,Black) /\ at_ (abs_board b) 27 = Some (Pawn,White) /\
    at_ (abs_board b') 19 = Some (Pawn,White) /\ at_ (abs_board b') 27 = None /\
    at_ (apply (abs_board b) (mv 28 19)) 19 = Some (Pawn,Black) /\
    at_ (apply (abs_board b) (mv 28 19)) 27 = Some (Pawn,White).
Proof.
  intros; unfold extra, gap_profile, weak_valid, weak_ep_ok, no_backrank_pawns, ep_target_empty,
    ep_origin_empty, ep_no_prior_check, in_gap, good_behaviour, runs_all, agrees_all, agrees_on,
    oracle_moves, ep_target_behaviour, ep_target_own_behaviour, ep_capture, e4_with_target,
    fen_white_pawns, fen_black_pawns, fen_backrank, fen_backrank_black8, fen_backrank_white8,
    fen_backrank_black1, fen_ep_target, fen_ep_target_own, fen_ep_origin, fen_ep_prior_check;
  apply iff_refl.
Qed.
