(** * Model.MoveGen — transcription of src/movegen/piece_type.rs and src/movegen/movegen.rs.
    The move list is an unbounded list here; [movelist_overflow] is the event
    "push_unchecked past the ArrayVec capacity" (a panic in debug builds, undefined behaviour
    in release builds). *)
From Chess Require Export Model.Board.
From Chess Require Import Gen.Consts.
Open Scope N_scope.

Record entry := { esq:N; ebb:N; epromo:bool }.
Definition push (l:list entry) (s m:N) (pr:bool) : list entry :=
  if m =? 0 then l else l ++ [{| esq:=s; ebb:=m; epromo:=pr |}].

Definition check_mask (b:board) (incheck:bool) (ksq:N) : N :=
  if incheck then N.lxor (between (to_square (checkers b)) ksq) (checkers b) else M64.

(** the default [PieceType::legals] (bishop, rook, queen) *)
Definition legals_generic (pseudo:N->N) (p:ptype) (ml:list entry) (b:board) (incheck:bool) : list entry :=
  let color := stm b in let my := color_combined b color in let ksq := king_square b color in
  let pcs := N.land (pieces b p) my in
  let cm := check_mask b incheck ksq in
  let ml := fold_left (fun ml src => push ml src (N.land (pseudo src) cm) false)
                      (squares_of (N.land pcs (lnot64 (pinned b)))) ml in
  if incheck then ml else
  fold_left (fun ml src => push ml src (N.land (pseudo src) (line src ksq)) false)
            (squares_of (N.land pcs (pinned b))) ml.

(** [PawnType::legal_ep_move]; [None] = [en_passant().unwrap()] panics *)
Definition legal_ep_move (b:board) (source dest:N) : option bool :=
  match epsq b with
  | None => None
  | Some ep =>
    let combined := N.lxor (N.lxor (N.lxor (comb b) (bit ep)) (bit source)) (bit dest) in
    let me := stm b in
    let ksq := to_square (N.land (pK b) (color_combined b me)) in
    let rooks := N.land (N.lor (pR b) (pQ b)) (color_combined b (opp me)) in
    if negb (N.land (rook_rays ksq) rooks =? 0) && negb (N.land (get_rook_moves ksq combined) rooks =? 0)
    then Some false else
    let bishops := N.land (N.lor (pB b) (pQ b)) (color_combined b (opp me)) in
    if negb (N.land (bishop_rays ksq) bishops =? 0) && negb (N.land (get_bishop_moves ksq combined) bishops =? 0)
    then Some false else Some true
  end.

Definition legals_pawn (ml:list entry) (b:board) (mask:N) (incheck:bool) : list entry :=
  let color := stm b in let my := color_combined b color in let ksq := king_square b color in
  let pcs := N.land (pP b) my in
  let cm := check_mask b incheck ksq in
  let pseudo src := N.land (get_pawn_moves src color (comb b)) mask in
  let ml := fold_left (fun ml src => push ml src (N.land (pseudo src) cm) (sq_rank src =? seventh_rk color))
                      (squares_of (N.land pcs (lnot64 (pinned b)))) ml in
  let ml := if incheck then ml else
    fold_left (fun ml src => push ml src (N.land (pseudo src) (line ksq src)) (sq_rank src =? seventh_rk color))
              (squares_of (N.land pcs (pinned b))) ml in
  match epsq b with
  | None => ml
  | Some ep_sq =>
    let rk := get_rank (sq_rank ep_sq) in let fl := get_adjacent_files (sq_file ep_sq) in
    fold_left (fun ml src => let dest := uforward color ep_sq in
                 match legal_ep_move b src dest with
                 | Some true => ml ++ [{| esq:=src; ebb:=bit dest; epromo:=false |}]
                 | _ => ml end)
      (squares_of (N.land (N.land rk fl) pcs)) ml
  end.

Definition legals_knight (ml:list entry) (b:board) (mask:N) (incheck:bool) : list entry :=
  let color := stm b in let my := color_combined b color in let ksq := king_square b color in
  let pcs := N.land (pN b) my in
  let m := if incheck then N.land mask (N.lxor (between (to_square (checkers b)) ksq) (checkers b)) else mask in
  fold_left (fun ml src => push ml src (N.land (knight_moves src) m) false)
            (squares_of (N.land pcs (lnot64 (pinned b)))) ml.

(** [KingType::legal_king_move] *)
Definition legal_king_move (b:board) (dest:N) : bool :=
  let me := stm b in let them := color_combined b (opp me) in
  let combined := N.lor (N.lxor (comb b) (N.land (pK b) (color_combined b me))) (bit dest) in
  let att := N.land (get_rook_moves dest combined) (N.land (N.lor (pR b) (pQ b)) them) in
  let att := N.lor att (N.land (get_bishop_moves dest combined) (N.land (N.lor (pB b) (pQ b)) them)) in
  let att := N.lor att (N.land (N.land (knight_moves dest) (pN b)) them) in
  let att := N.lor att (N.land (N.land (king_moves dest) (pK b)) them) in
  let att := N.lor att (get_pawn_attacks dest me (N.land (pP b) them)) in
  att =? 0.

Definition legals_king (ml:list entry) (b:board) (mask:N) (incheck:bool) : list entry :=
  let color := stm b in let ksq := king_square b color in
  let moves0 := N.land (king_moves ksq) mask in
  let moves := fold_left (fun mv dest => if legal_king_move b dest then mv else N.lxor mv (bit dest))
                         (squares_of moves0) moves0 in
  let cr := castle_rights b color in
  let moves := if incheck then moves else
    let moves := if cr_has_kingside cr && (N.land (comb b) (kingside_squares color) =? 0) then
                   let middle := uright ksq in let right := uright middle in
                   if legal_king_move b middle && legal_king_move b right
                   then N.lxor moves (bit right) else moves else moves in
    if cr_has_queenside cr && (N.land (comb b) (queenside_squares color) =? 0) then
       let middle := uleft ksq in let left := uleft middle in
       if legal_king_move b middle && legal_king_move b left
       then N.lxor moves (bit left) else moves else moves in
  push ml ksq moves false.

(** [MoveGen::enumerate_moves] *)
Definition enumerate_moves (b:board) : list entry :=
  let ch := checkers b in
  let mask := lnot64 (color_combined b (stm b)) in
  let gen incheck :=
    let ml := legals_pawn [] b mask incheck in
    let ml := legals_knight ml b mask incheck in
    let ml := legals_generic (fun src => N.land (get_bishop_moves src (comb b)) mask) Bishop ml b incheck in
    let ml := legals_generic (fun src => N.land (get_rook_moves src (comb b)) mask) Rook ml b incheck in
    let ml := legals_generic (fun src => N.land (N.lxor (get_rook_moves src (comb b)) (get_bishop_moves src (comb b))) mask) Queen ml b incheck in
    legals_king ml b mask incheck in
  if ch =? 0 then gen false else if popcnt ch =? 1 then gen true else legals_king [] b mask true.

Definition movelist_cap : N := match C_MOVELIST_CAP with Some c => c | None => 0 end.
(** more entries pushed than the ArrayVec holds *)
Definition movelist_overflow (b:board) : bool := movelist_cap <? N.of_nat (length (enumerate_moves b)).

(** ** The iterator: struct MoveGen *)
Record movegen := { moves : list entry; promotion_index : N; iterator_mask : N; index : nat }.
Definition new_legal (b:board) : movegen :=
  {| moves := enumerate_moves b; promotion_index := 0; iterator_mask := M64; index := 0 |}.

(** PROMOTION_PIECES *)
Definition promotion_pieces : list ptype := [Queen;Knight;Rook;Bishop].
Definition dummy_entry := {| esq:=0; ebb:=0; epromo:=false |}.
Definition nth_e (l:list entry) (i:nat) := nth i l dummy_entry.
Definition live (mask:N) (e:entry) : bool := negb (N.land (ebb e) mask =? 0).
Definition set_bb (e:entry) (bb:N) := {| esq := esq e; ebb := bb; epromo := epromo e |}.

Record cmove := { msrc:N; mdst:N; mpromo:option ptype }.

(** [Iterator::next].  [PROMOTION_PIECES[promotion_index]] is a checked index in Rust: an
    out-of-range cursor panics; here it is [None]-promoted and flagged by [next_panics]. *)
Definition next (g:movegen) : option cmove * movegen :=
  if Nat.leb (length (moves g)) (index g) then (None, g) else
  let e := nth_e (moves g) (index g) in
  if negb (live (iterator_mask g) e) then (None, g) else
  let dest := to_square (N.land (ebb e) (iterator_mask g)) in
  if epromo e then
    let res := {| msrc := esq e; mdst := dest; mpromo := nth_error promotion_pieces (N.to_nat (promotion_index g)) |} in
    let p' := promotion_index g + 1 in
    if 4 <=? p' then
      let e' := set_bb e (N.lxor (ebb e) (bit dest)) in
      let idx' := if N.land (ebb e') (iterator_mask g) =? 0 then S (index g) else index g in
      (Some res, {| moves := upd (moves g) (index g) e'; promotion_index := 0;
                    iterator_mask := iterator_mask g; index := idx' |})
    else (Some res, {| moves := moves g; promotion_index := p'; iterator_mask := iterator_mask g; index := index g |})
  else
    let e' := set_bb e (N.lxor (ebb e) (bit dest)) in
    let idx' := if N.land (ebb e') (iterator_mask g) =? 0 then S (index g) else index g in
    (Some {| msrc := esq e; mdst := dest; mpromo := None |},
     {| moves := upd (moves g) (index g) e'; promotion_index := promotion_index g;
        iterator_mask := iterator_mask g; index := idx' |}).

(** [ExactSizeIterator::len] (after the fix: commit: from [index], minus the cursor) *)
Fixpoint len_from (mask:N) (l:list entry) : N :=
  match l with
  | [] => 0
  | e::r => if live mask e
            then (if epromo e then popcnt (N.land (ebb e) mask) * 4 else popcnt (N.land (ebb e) mask))
                 + len_from mask r
            else 0
  end.
Definition len (g:movegen) : N :=
  len_from (iterator_mask g) (skipn (index g) (moves g)) - promotion_index g.   (* saturating_sub *)

(** [set_iterator_mask]: the swap-based partition exactly as the code *)
Fixpoint first_dead (mask:N) (l:list entry) (i:nat) : nat :=
  match l with [] => i | e::r => if live mask e then first_dead mask r (S i) else i end.
Fixpoint part_loop (fuel:nat) (mask:N) (l:list entry) (i j:nat) : list entry :=
  match fuel with O => l | S f =>
    if Nat.leb (length l) j then l else
    if live mask (nth_e l j) then
      let a := nth_e l i in let b := nth_e l j in part_loop f mask (upd (upd l i b) j a) (S i) (S j)
    else part_loop f mask l i (S j) end.
Definition set_iterator_mask (g:movegen) (m:N) : movegen :=
  let i := first_dead m (moves g) 0 in
  {| moves := part_loop (length (moves g)) m (moves g) i (S i);
     promotion_index := promotion_index g; iterator_mask := m; index := 0 |}.

(** [remove_mask], [remove_move] (after the fix: commit) *)
Definition remove_mask (g:movegen) (m:N) : movegen :=
  let g1 := {| moves := map (fun e => set_bb e (N.land (ebb e) (lnot64 m))) (moves g);
               promotion_index := promotion_index g; iterator_mask := iterator_mask g; index := index g |} in
  set_iterator_mask g1 (iterator_mask g1).
Definition remove_move (g:movegen) (s d:N) : bool * movegen :=
  let found := existsb (fun e => esq e =? s) (moves g) in
  let g1 := {| moves := map (fun e => if esq e =? s then set_bb e (N.land (ebb e) (lnot64 (bit d))) else e) (moves g);
               promotion_index := promotion_index g; iterator_mask := iterator_mask g; index := index g |} in
  (found, set_iterator_mask g1 (iterator_mask g1)).

(** draining the iterator (fuel = an upper bound on the number of moves) *)
Fixpoint drain (fuel:nat) (g:movegen) : list cmove * movegen :=
  match fuel with O => ([],g) | S f =>
    match next g with
    | (None,g') => ([],g')
    | (Some m,g') => let (r,g'') := drain f g' in (m::r, g'')
    end end.
Definition drain_fuel : nat := 5000.   (* >= 4*64*18+1, the crude bound of C14_full_drain_bound for 18 entries *)
Definition moves_of (b:board) : list cmove := fst (drain drain_fuel (new_legal b)).

Definition promo_eqb (a b:option ptype) :=
  match a,b with Some x, Some y => ptype_eqb x y | None,None => true | _,_ => false end.
Definition cmove_eqb (a b:cmove) := (msrc a =? msrc b) && (mdst a =? mdst b) && promo_eqb (mpromo a) (mpromo b).
(** [Board::legal]: [MoveGen::new_legal(&self).find(|x| *x == m).is_some()] *)
Definition legal_in (ms:list cmove) (m:cmove) : bool := existsb (cmove_eqb m) ms.
Definition legal (b:board) (m:cmove) : bool := legal_in (moves_of b) m.

(** [Board::status] *)
Definition board_status (b:board) : status_t :=
  if len (new_legal b) =? 0 then (if checkers b =? 0 then Stalemate else Checkmate) else Ongoing.

(** [MoveGen::legal_quick]; [None] = a panic ([unwrap] on an empty source square or missing
    en-passant square) *)
Definition legal_quick (b:board) (m:cmove) : option bool :=
  match piece_on b (msrc m) with
  | None => None
  | Some Pawn =>
    if negb (sq_file (msrc m) =? sq_file (mdst m)) && match piece_on b (mdst m) with None => true | _ => false end
    then legal_ep_move b (msrc m) (mdst m) else Some true
  | Some King =>
    let bb := between (msrc m) (mdst m) in
    if popcnt bb =? 1 then
      if negb (legal_king_move b (to_square bb)) then Some false else Some (legal_king_move b (mdst m))
    else Some (legal_king_move b (mdst m))
  | Some _ => Some true
  end.

(** the expansion of an entry list into moves, in the iterator's order for a full mask *)
Definition expand_entry (e:entry) : list cmove :=
  flat_map (fun d => if epromo e
                     then map (fun p => {| msrc := esq e; mdst := d; mpromo := Some p |}) promotion_pieces
                     else [{| msrc := esq e; mdst := d; mpromo := None |}]) (squares_of (ebb e)).
Definition expand (l:list entry) : list cmove := flat_map expand_entry l.

Definition to_spec_move (m:cmove) : move := {| src := msrc m; dst := mdst m; promo := mpromo m |}.
Definition of_spec_move (m:move) : cmove := {| msrc := src m; mdst := dst m; mpromo := promo m |}.
