(** * Proofs.ApplySpec — C02: what the specification's successor function [apply] says, clause
    by clause of the English property (placement, side to move, castling rights).
    The en-passant clauses are in [Proofs/ApplySpecEp.v].  These theorems pin the specification
    itself; that the library's [make_move_new] computes [apply] is [C02_refinement_full] below
    (not proved here). *)
From Coq Require Import Lia ZifyBool ZifyN ZifyNat.
From Chess Require Import Spec.Rules Proofs.TablesLib Proofs.TablesMeaning Proofs.ApplySpecLib.
Open Scope N_scope.
Ltac Zify.zify_post_hook ::= Z.div_mod_to_equations.

(** ** (a) the placement after a move *)

(** the man that arrives on the destination: the promotion piece, else the man that moved *)
Definition placed (p:pos) (m:move) : ptype :=
  match promo m with
  | Some t => t
  | None => match at_ p (src m) with Some (t,_) => t | None => Pawn end
  end.
(** the square of the pawn taken en passant: rank of the source, file of the destination *)
Definition ep_victim (m:move) : N := rank_of (src m) * 8 + file_of (dst m).
(** castling: where the rook comes from and goes to (h -> f king-side, a -> d queen-side, on the
    king's rank) *)
Definition rook_from (m:move) : N := rank_of (src m) * 8 + (if file_of (dst m) =? 6 then 7 else 0).
Definition rook_to (m:move) : N := rank_of (src m) * 8 + (if file_of (dst m) =? 6 then 5 else 3).

(** The complete case analysis, as one executable right-hand side (later cases are overridden by
    earlier ones when squares coincide, which they never do for a legal move). *)
Definition apply_at (p:pos) (m:move) (s:N) : option (ptype*color) :=
  if is_castle p m && (s =? rook_to m) then Some (Rook, turn p)
  else if is_castle p m && (s =? rook_from m) then None
  else if is_ep p m && (s =? ep_victim m) then None
  else if s =? dst m then Some (placed p m, turn p)
  else if s =? src m then None
  else at_ p s.

Theorem at_apply_gen : forall p m, length (placement p) = 64%nat -> src m < 64 -> dst m < 64 ->
  forall s, at_ (apply p m) s = apply_at p m s.
Proof.
  intros p m Hl Hs Hd s.
  pose proof (rank_file_lt _ Hs) as [Hr _]. pose proof (rank_file_lt _ Hd) as [_ Hf].
  unfold apply_at, rook_to, rook_from, ep_victim, placed, at_ at 1, apply. cbn [placement].
  change (nth (N.to_nat s) ?l None) with (atl l s).
  set (pc := match promo m with Some t => t | None => match at_ p (src m) with Some (t,_) => t | None => Pawn end end).
  set (b1 := updN (updN (placement p) (src m) None) (dst m) (Some (pc, turn p))).
  assert (Hl1 : length b1 = 64%nat) by (unfold b1; rewrite !length_updN; exact Hl).
  assert (H1 : atl b1 s = if s =? dst m then Some (pc, turn p) else if s =? src m then None else at_ p s).
  { unfold b1. rewrite atl_updN by (rewrite ?length_updN; assumption).
    rewrite atl_updN by assumption. reflexivity. }
  set (b2 := if is_ep p m then updN b1 (rank_of (src m) * 8 + file_of (dst m)) None else b1).
  assert (Hl2 : length b2 = 64%nat) by (unfold b2; destruct (is_ep p m); rewrite ?length_updN; exact Hl1).
  assert (H2 : atl b2 s = if is_ep p m && (s =? rank_of (src m) * 8 + file_of (dst m)) then None else atl b1 s).
  { unfold b2. destruct (is_ep p m); cbn [andb]; [|reflexivity]. apply atl_updN; [exact Hl1|lia]. }
  destruct (is_castle p m); cbn [andb].
  - destruct (file_of (dst m) =? 6).
    + rewrite atl_updN by (rewrite ?length_updN; first [exact Hl2|lia]).
      rewrite atl_updN by (first [exact Hl2|lia]). rewrite H2, H1. reflexivity.
    + rewrite atl_updN by (rewrite ?length_updN; first [exact Hl2|lia]).
      rewrite atl_updN by (first [exact Hl2|lia]). rewrite H2, H1.
      replace (rank_of (src m) * 8 + 0) with (rank_of (src m) * 8) by lia. reflexivity.
  - rewrite H2, H1. reflexivity.
Qed.

(** squares off the board stay empty *)
Lemma at_apply_high p m s : length (placement p) = 64%nat -> 64 <= s -> at_ (apply p m) s = None.
Proof.
  intros Hl Hs. apply at_high; [|exact Hs]. unfold apply. cbn [placement].
  repeat match goal with |- context[if ?b then _ else _] => destruct b end;
    rewrite ?length_updN; exact Hl.
Qed.

(** *** for legal moves the special squares are pairwise distinct *)
Record castle_facts (p:pos) (m:move) : Prop := {
  cf_src : src m = home_rank (turn p) * 8 + 4;
  cf_dst : dst m = home_rank (turn p) * 8 + 6 \/ dst m = home_rank (turn p) * 8 + 2;
  cf_promo : promo m = None;
  cf_king : at_ p (src m) = Some (King, turn p);
  cf_rook : at_ p (rook_from m) = Some (Rook, turn p);
  cf_to_empty : at_ p (rook_to m) = None;
  cf_dst_empty : at_ p (dst m) = None;
  cf_right : if file_of (dst m) =? 6 then can_k p (turn p) = true else can_q p (turn p) = true }.

Lemma castle_kind_facts p m : castle_kind p (turn p) m -> castle_facts p m.
Proof.
  intros [Hk Hc Hr O5 O6 ->|Hk Hc Hr O1 O2 O3 ->]; apply has_iff in Hk, Hr;
    apply occ_false_at in O2 || apply occ_false_at in O5;
    apply occ_false_at in O3 || apply occ_false_at in O6.
  - assert (Ef : file_of (home_rank (turn p) * 8 + 6) = 6) by (apply file_of_mk; lia).
    assert (Er : rank_of (home_rank (turn p) * 8 + 4) = home_rank (turn p)) by (apply rank_of_mk; lia).
    split; unfold rook_from, rook_to; cbn [mv src dst promo]; rewrite ?Ef, ?Er; cbn [N.eqb Pos.eqb];
      auto.
  - assert (Ef : file_of (home_rank (turn p) * 8 + 2) = 2) by (apply file_of_mk; lia).
    assert (Er : rank_of (home_rank (turn p) * 8 + 4) = home_rank (turn p)) by (apply rank_of_mk; lia).
    split; unfold rook_from, rook_to; cbn [mv src dst promo]; rewrite ?Ef, ?Er;
      change (2 =? 6) with false; cbn iota; rewrite ?N.add_0_r; auto.
Qed.

(** a legal castling move: the king of the side to move goes from its e-square to the g- or
    c-square of its home rank, the rook stands on its corner, the squares crossed are empty and
    the corresponding right is held *)
Theorem legal_castle_facts p m : In m (legal_moves p) -> is_castle p m = true -> castle_facts p m.
Proof.
  intros Hm Hc. apply legal_kind in Hm as [_ Hk]. apply castle_kind_facts, is_castle_kind; assumption.
Qed.

Lemma castle_squares p m : castle_facts p m ->
  rook_to m <> dst m /\ rook_to m <> src m /\ rook_from m <> dst m /\ rook_from m <> src m
  /\ rook_from m <> rook_to m /\ ep_victim m = dst m.
Proof.
  intros [Hs Hd _ _ _ _ _ _]. unfold rook_to, rook_from, ep_victim.
  assert (Er : rank_of (src m) = home_rank (turn p)) by (rewrite Hs; apply rank_of_mk; lia).
  rewrite Er. destruct Hd as [Hd|Hd]; rewrite Hd.
  - rewrite (file_of_mk _ 6) by lia. change (6 =? 6) with true. cbn iota. rewrite Hs. lia.
  - rewrite (file_of_mk _ 2) by lia. change (2 =? 6) with false. cbn iota. rewrite Hs. lia.
Qed.

Lemma castle_not_ep p m : is_castle p m = true -> is_ep p m = false.
Proof.
  unfold is_castle, is_ep. intro H. apply andb_prop in H as [H _]. apply has_iff in H.
  unfold has. rewrite H. reflexivity.
Qed.

(** a legal en-passant capture: the recorded target is the destination, the taken pawn's square is
    beside the source and directly behind the destination, and is neither source nor destination *)
Record ep_facts (p:pos) (m:move) : Prop := {
  ef_target : ep p = Some (dst m);
  ef_promo : promo m = None;
  ef_pawn : at_ p (src m) = Some (Pawn, turn p);
  ef_dst_empty : at_ p (dst m) = None;
  ef_victim_lt : ep_victim m < 64;
  ef_victim_beside : beside (src m) (ep_victim m);
  ef_victim_behind : step (dst m) (0, - fwdc (turn p))%Z = Some (ep_victim m);
  ef_victim_ne_src : ep_victim m <> src m;
  ef_victim_ne_dst : ep_victim m <> dst m }.

Theorem legal_ep_facts p m : In m (legal_moves p) -> is_ep p m = true -> ep_facts p m.
Proof.
  intros Hm He. apply legal_kind in Hm as [Hs Hk].
  destruct (is_ep_kind p m Hs Hk He) as [Ht [Hin Hmv]].
  pose proof He as He'. unfold is_ep in He'. apply andb_prop in He' as [He' Ho].
  apply andb_prop in He' as [Hh _]. apply has_iff in Hh. apply negb_true_iff, occ_false_at in Ho.
  apply pawn_caps_step in Hin as [Hd [Hr Hf]].
  pose proof (rank_file_lt _ Hs) as [Hrs Hfs]. pose proof (rank_file_lt _ Hd) as [Hrd Hfd].
  pose proof (fwdc_cases (turn p)) as Hfw.
  assert (Hv : ep_victim m < 64) by (unfold ep_victim; lia).
  assert (Hvr : rank_of (ep_victim m) = rank_of (src m)) by (unfold ep_victim; apply rank_of_mk, Hfd).
  assert (Hvf : file_of (ep_victim m) = file_of (dst m)) by (unfold ep_victim; apply file_of_mk, Hfd).
  rewrite !rankZ_rank_of in Hr. rewrite !fileZ_file_of in Hf.
  split; try assumption.
  - rewrite Hmv. reflexivity.
  - split; [exact Hv|]. split; [exact Hvr|]. rewrite Hvf. lia.
  - apply step_bwd; try assumption; cbn [fst snd]; rewrite ?rankZ_rank_of, ?fileZ_file_of, ?Hvr, ?Hvf; lia.
  - intro E. rewrite <- E, Hvf in Hf. lia.
  - intro E. rewrite <- E, Hvr in Hr. lia.
Qed.

(** *** the clauses, for legal moves *)
Section Legal.
Variables (p:pos) (m:move).
Hypothesis Hlen : length (placement p) = 64%nat.
Hypothesis Hlegal : In m (legal_moves p).

Let Hdom := legal_dom p m Hlegal.

Lemma legal_at_apply s : at_ (apply p m) s = apply_at p m s.
Proof. destruct Hdom as [Hs [Hd _]]. apply at_apply_gen; assumption. Qed.

(** the moved (or promoted) man stands on the destination, in the mover's colour — whatever stood
    there before (a captured man) is gone *)
Theorem at_apply_dst : at_ (apply p m) (dst m) = Some (placed p m, turn p).
Proof.
  rewrite legal_at_apply. unfold apply_at. rewrite N.eqb_refl.
  destruct (is_castle p m) eqn:Ec; cbn [andb].
  - pose proof (castle_squares p m (legal_castle_facts p m Hlegal Ec)) as [H1 [_ [H3 _]]].
    rewrite (castle_not_ep p m Ec). cbn [andb].
    destruct (N.eqb_spec (dst m) (rook_to m)); [congruence|].
    destruct (N.eqb_spec (dst m) (rook_from m)); [congruence|]. reflexivity.
  - destruct (is_ep p m) eqn:Ee; cbn [andb]; [|reflexivity].
    pose proof (ef_victim_ne_dst p m (legal_ep_facts p m Hlegal Ee)).
    destruct (N.eqb_spec (dst m) (ep_victim m)); [congruence|]. reflexivity.
Qed.

(** the source square is empty afterwards *)
Theorem at_apply_src : at_ (apply p m) (src m) = None.
Proof.
  destruct Hdom as [_ [_ Hne]].
  rewrite legal_at_apply. unfold apply_at. rewrite N.eqb_refl.
  destruct (N.eqb_spec (src m) (dst m)); [congruence|].
  destruct (is_castle p m) eqn:Ec; cbn [andb].
  - pose proof (castle_squares p m (legal_castle_facts p m Hlegal Ec)) as [_ [H2 [_ [H4 _]]]].
    rewrite (castle_not_ep p m Ec). cbn [andb].
    destruct (N.eqb_spec (src m) (rook_to m)); [congruence|].
    destruct (N.eqb_spec (src m) (rook_from m)); [congruence|]. reflexivity.
  - destruct (is_ep p m) eqn:Ee; cbn [andb]; [|reflexivity].
    destruct (N.eqb_spec (src m) (ep_victim m)); reflexivity.
Qed.

(** the pawn taken en passant is gone: its square (beside the source, behind the destination)
    is empty afterwards *)
Theorem at_apply_ep_victim : is_ep p m = true -> at_ (apply p m) (ep_victim m) = None.
Proof.
  intro Ee. rewrite legal_at_apply. unfold apply_at.
  destruct (is_castle p m) eqn:Ec; [rewrite (castle_not_ep p m Ec) in Ee; discriminate|].
  cbn [andb]. rewrite Ee, N.eqb_refl. reflexivity.
Qed.

(** castling: the rook has left its corner and stands on the square the king crossed *)
Theorem at_apply_castle : is_castle p m = true ->
  at_ (apply p m) (rook_from m) = None /\ at_ (apply p m) (rook_to m) = Some (Rook, turn p).
Proof.
  intro Ec. rewrite !legal_at_apply. unfold apply_at. rewrite Ec. cbn [andb]. rewrite !N.eqb_refl.
  pose proof (castle_squares p m (legal_castle_facts p m Hlegal Ec)) as [_ [_ [_ [_ [H5 _]]]]].
  destruct (N.eqb_spec (rook_from m) (rook_to m)); [congruence|]. auto.
Qed.

(** every other square is unchanged *)
Theorem at_apply_other s : s <> dst m -> s <> src m ->
  (is_ep p m = true -> s <> ep_victim m) ->
  (is_castle p m = true -> s <> rook_from m /\ s <> rook_to m) ->
  at_ (apply p m) s = at_ p s.
Proof.
  intros H1 H2 H3 H4. rewrite legal_at_apply. unfold apply_at.
  destruct (N.eqb_spec s (dst m)); [congruence|]. destruct (N.eqb_spec s (src m)); [congruence|].
  destruct (is_castle p m); cbn [andb].
  - destruct (H4 eq_refl) as [H5 H6].
    destruct (N.eqb_spec s (rook_to m)); [congruence|]. destruct (N.eqb_spec s (rook_from m)); [congruence|].
    destruct (is_ep p m); cbn [andb]; [|reflexivity].
    specialize (H3 eq_refl). destruct (N.eqb_spec s (ep_victim m)); [congruence|]. reflexivity.
  - destruct (is_ep p m); cbn [andb]; [|reflexivity].
    specialize (H3 eq_refl). destruct (N.eqb_spec s (ep_victim m)); [congruence|]. reflexivity.
Qed.

(** the moved man is a man of the side to move; nothing else about it changes without a promotion *)
Theorem placed_no_promo : promo m = None -> at_ p (src m) = Some (placed p m, turn p).
Proof.
  intro Hp. destruct (legal_kind p m Hlegal) as [_ Hk]. destruct (move_kind_src p m Hk) as [t Ht].
  unfold placed. rewrite Hp, Ht. reflexivity.
Qed.
Theorem placed_promo t : promo m = Some t -> placed p m = t.
Proof. intro Hp. unfold placed. rewrite Hp. reflexivity. Qed.

(** the board keeps its 64 squares *)
Theorem length_apply : length (placement (apply p m)) = 64%nat.
Proof.
  unfold apply. cbn [placement].
  repeat match goal with |- context[if ?b then _ else _] => destruct b end;
    rewrite ?length_updN; exact Hlen.
Qed.
End Legal.

(** ** (b) the side to move flips *)
Theorem turn_apply p m : turn (apply p m) = opp (turn p).
Proof. reflexivity. Qed.

(** ** (c) castling rights *)
Definition touches (m:move) (s:N) : bool := (src m =? s) || (dst m =? s).

Theorem rights_apply p m :
  wk (apply p m) = wk p && negb (touches m 4 || touches m 7) /\
  wq (apply p m) = wq p && negb (touches m 4 || touches m 0) /\
  bk (apply p m) = bk p && negb (touches m 60 || touches m 63) /\
  bq (apply p m) = bq p && negb (touches m 60 || touches m 56).
Proof. repeat split; reflexivity. Qed.

Lemma touches_iff m s : touches m s = true <-> src m = s \/ dst m = s.
Proof. unfold touches. rewrite orb_true_iff, !N.eqb_eq. reflexivity. Qed.

(** rights never come back *)
Theorem rights_shrink p m :
  (wk (apply p m) = true -> wk p = true) /\ (wq (apply p m) = true -> wq p = true) /\
  (bk (apply p m) = true -> bk p = true) /\ (bq (apply p m) = true -> bq p = true).
Proof.
  destruct (rights_apply p m) as [-> [-> [-> ->]]].
  repeat split; intro H; apply andb_prop in H; tauto.
Qed.

(** a held right is lost iff the move starts from or ends on the king's or that rook's home square *)
Lemma right_lost_touch (r:bool) m k q : r = true ->
  (r && negb (touches m k || touches m q) = false <-> (src m = k \/ dst m = k \/ src m = q \/ dst m = q)).
Proof.
  intros ->. cbn [andb]. rewrite negb_false_iff, orb_true_iff, !touches_iff. tauto.
Qed.
Theorem wk_lost_iff_touch p m : wk p = true ->
  (wk (apply p m) = false <-> src m = 4 \/ dst m = 4 \/ src m = 7 \/ dst m = 7).
Proof. intro H. destruct (rights_apply p m) as [-> _]. apply right_lost_touch, H. Qed.
Theorem wq_lost_iff_touch p m : wq p = true ->
  (wq (apply p m) = false <-> src m = 4 \/ dst m = 4 \/ src m = 0 \/ dst m = 0).
Proof. intro H. destruct (rights_apply p m) as [_ [-> _]]. apply right_lost_touch, H. Qed.
Theorem bk_lost_iff_touch p m : bk p = true ->
  (bk (apply p m) = false <-> src m = 60 \/ dst m = 60 \/ src m = 63 \/ dst m = 63).
Proof. intro H. destruct (rights_apply p m) as [_ [_ [-> _]]]. apply right_lost_touch, H. Qed.
Theorem bq_lost_iff_touch p m : bq p = true ->
  (bq (apply p m) = false <-> src m = 60 \/ dst m = 60 \/ src m = 56 \/ dst m = 56).
Proof. intro H. destruct (rights_apply p m) as [_ [_ [_ ->]]]. apply right_lost_touch, H. Qed.

(** *** unpacking the validity conjuncts used here *)
Record valid_facts (p:pos) : Prop := {
  vf_len : length (placement p) = 64%nat;
  vf_kings : forall c, kings p c = 1;
  vf_nocheck : in_check p (opp (turn p)) = false;
  vf_wk : wk p = true -> has p 4 King White = true /\ has p 7 Rook White = true;
  vf_wq : wq p = true -> has p 4 King White = true /\ has p 0 Rook White = true;
  vf_bk : bk p = true -> has p 60 King Black = true /\ has p 63 Rook Black = true;
  vf_bq : bq p = true -> has p 60 King Black = true /\ has p 56 Rook Black = true;
  vf_ep : ep_ok p = true }.

Lemma implb_and a b c : implb a (b && c) = true -> a = true -> b = true /\ c = true.
Proof. intros H ->. cbn in H. apply andb_prop, H. Qed.

Lemma pos_valid_facts p : pos_valid p = true -> valid_facts p.
Proof.
  unfold pos_valid. intro H.
  apply andb_prop in H as [H Hep]. apply andb_prop in H as [H Hbq]. apply andb_prop in H as [H Hbk].
  apply andb_prop in H as [H Hwq]. apply andb_prop in H as [H Hwk]. apply andb_prop in H as [H Hck].
  apply andb_prop in H as [H _]. apply andb_prop in H as [H _]. apply andb_prop in H as [H _].
  apply andb_prop in H as [H _]. apply andb_prop in H as [H _]. apply andb_prop in H as [H Hkb].
  apply andb_prop in H as [Hl Hkw].
  split.
  - apply Nat.eqb_eq, Hl.
  - intros []; apply N.eqb_eq; assumption.
  - apply negb_true_iff, Hck.
  - apply implb_and, Hwk.
  - apply implb_and, Hwq.
  - apply implb_and, Hbk.
  - apply implb_and, Hbq.
  - exact Hep.
Qed.

Lemma ep_ok_empty p t : ep_ok p = true -> ep p = Some t -> occ p t = false.
Proof.
  unfold ep_ok. intros H Ht. rewrite Ht in H. apply andb_prop in H as [_ H].
  destruct (step t (0, - fwdc (turn p))%Z) as [ps|]; [|discriminate].
  destruct (step t (0, fwdc (turn p))%Z) as [og|]; [|discriminate].
  apply andb_prop in H as [H _]. apply andb_prop in H as [H _]. apply andb_prop in H as [H _].
  apply andb_prop in H as [_ H]. apply negb_true_iff, H.
Qed.

(** *** in a valid position a legal move never lands on a man of the mover's side, nor on a king *)
Lemma filter_len1_uniq {A} (f:A->bool) l a b : length (filter f l) = 1%nat ->
  In a l -> In b l -> f a = true -> f b = true -> a = b.
Proof.
  intros Hlen Ha Hb Hfa Hfb.
  assert (Ia : In a (filter f l)) by (apply filter_In; auto).
  assert (Ib : In b (filter f l)) by (apply filter_In; auto).
  destruct (filter f l) as [|x [|y r]]; cbn [length] in Hlen; try discriminate.
  destruct Ia as [<-|[]]. destruct Ib as [<-|[]]. reflexivity.
Qed.

Lemma king_unique p c a b : kings p c = 1 -> a < 64 -> b < 64 ->
  has p a King c = true -> has p b King c = true -> a = b.
Proof.
  unfold kings, count_if. intros Hk Ha Hb Hha Hhb.
  apply (filter_len1_uniq (fun s => has p s King c) all_sq); try assumption; try (apply in_all_sq; assumption).
  lia.
Qed.

Lemma king_sq_of p c k : kings p c = 1 -> k < 64 -> has p k King c = true -> king_sq p c = Some k.
Proof.
  intros Hk Hlt Hh. unfold king_sq.
  destruct (find (fun s => has p s King c) all_sq) as [k'|] eqn:Ef.
  - apply find_some in Ef as [Hin Hh']. apply in_all_sq in Hin. f_equal.
    apply (king_unique p c); assumption.
  - exfalso. pose proof (find_none _ _ Ef k (proj2 (in_all_sq k) Hlt)) as Hn. cbv beta in Hn. congruence.
Qed.

(** a pseudo-legal move onto an occupied square goes along the mover's attack pattern *)
Lemma move_kind_occ_attacks p m : move_kind p m -> occ p (dst m) = true ->
  In (dst m) (attack_set p (src m)).
Proof.
  intros [Ha Hk|Ha Hk|t Ha Ht [_ [Hin _]]] Ho; [| |exact Hin].
  - unfold attack_set. rewrite Ha.
    destruct Hk as [d1 E1 O1 Hi|d1 d2 E1 E2 O1 O2 Er Hm|d Hd Ee Hi|d Hd Ee Eep Hm].
    + apply pawn_to_in in Hi as [_ Hd]. congruence.
    + rewrite Hm in Ho. cbn [mv dst] in Ho. congruence.
    + apply pawn_to_in in Hi as [_ ->]. exact Hd.
    + rewrite Hm. cbn [mv dst]. exact Hd.
  - exfalso. destruct Hk as [_ _ _ _ O6 Hm|_ _ _ _ O2 _ Hm]; rewrite Hm in Ho; cbn [mv dst] in Ho; congruence.
Qed.

Lemma valid_move_not_own p m : valid_facts p -> move_kind p m -> own p (turn p) (dst m) = false.
Proof.
  intros Hv [Ha Hk|Ha Hk|t Ha Ht [_ [_ Ho]]]; [| |exact Ho].
  - destruct (own p (turn p) (dst m)) eqn:Eo; [|reflexivity]. exfalso.
    pose proof (own_occ _ _ _ Eo) as Hocc.
    destruct Hk as [d1 E1 O1 Hi|d1 d2 E1 E2 O1 O2 Er Hm|d Hd Ee Hi|d Hd Ee Eep Hm].
    + apply pawn_to_in in Hi as [_ Hd]. congruence.
    + rewrite Hm in Hocc. cbn [mv dst] in Hocc. congruence.
    + apply pawn_to_in in Hi as [_ Hd']. subst d. apply enemy_iff in Ee as [t Ht].
      apply own_iff in Eo as [t' Ht']. rewrite Ht in Ht'. injection Ht' as _ E.
      exact (opp_neq _ E).
    + rewrite Hm in Hocc. cbn [mv dst] in Hocc.
      pose proof (ep_ok_empty p d (vf_ep p Hv) Eep). congruence.
  - apply not_true_is_false. intro Eo. apply own_occ in Eo.
    destruct Hk as [_ _ _ _ O6 Hm|_ _ _ _ O2 _ Hm]; rewrite Hm in Eo; cbn [mv dst] in Eo; congruence.
Qed.

Lemma attacked_by_in p c t s : In s (attackers p c t) -> attacked_by p c t = true.
Proof. unfold attacked_by. destruct (attackers p c t); [intros []|reflexivity]. Qed.
Lemma attackers_in p c t s : s < 64 -> own p c s = true -> In t (attack_set p s) ->
  In s (attackers p c t).
Proof.
  intros Hs Ho Hatt. unfold attackers. apply filter_In. split; [apply in_all_sq, Hs|].
  apply andb_true_intro. split; [exact Ho|]. unfold attacks. apply mem_in, Hatt.
Qed.
Lemma in_check_king p c k : kings p c = 1 -> k < 64 -> has p k King c = true ->
  in_check p c = attacked_by p (opp c) k.
Proof. intros Hk Hlt Hh. unfold in_check. rewrite (king_sq_of p c k Hk Hlt Hh). reflexivity. Qed.

Lemma valid_move_not_king p m c : valid_facts p -> src m < 64 -> move_kind p m ->
  has p (dst m) King c = false.
Proof.
  intros Hv Hs Hk. apply not_true_is_false. intro Hh.
  pose proof (valid_move_not_own p m Hv Hk) as Hno.
  pose proof (has_occ _ _ _ _ Hh) as Hocc.
  pose proof (move_kind_occ_attacks p m Hk Hocc) as Hatt.
  destruct (move_kind_dst p m Hs Hk) as [Hd _].
  assert (Hc : c = opp (turn p)).
  { apply has_iff in Hh. destruct (color_eqb (turn p) c) eqn:E.
    - apply color_eqb_eq in E. subst c.
      assert (own p (turn p) (dst m) = true) by (apply own_iff; eauto). congruence.
    - apply color_eqb_neq, E. }
  subst c.
  pose proof (vf_nocheck p Hv) as Hnc.
  rewrite (in_check_king p _ (dst m) (vf_kings p Hv _) Hd Hh), opp_opp in Hnc.
  assert (Hown : own p (turn p) (src m) = true) by (apply own_iff, (move_kind_src p m Hk)).
  rewrite (attacked_by_in p (turn p) (dst m) (src m) (attackers_in _ _ _ _ Hs Hown Hatt)) in Hnc.
  discriminate.
Qed.

(** *** the English reading, for one right: with the king on [k] and the rook on [q] (both of
    colour [c]), a legal move touches [k] or [q] iff the king leaves [k], or the rook leaves [q],
    or the rook is captured on [q] (then necessarily by the other side) *)
Lemma right_english p m c k q : valid_facts p -> In m (legal_moves p) ->
  has p k King c = true -> has p q Rook c = true ->
  (src m = k \/ dst m = k \/ src m = q \/ dst m = q) <->
  (src m = k \/ src m = q \/ (dst m = q /\ turn p = opp c)).
Proof.
  intros Hv Hm Hk Hq. destruct (legal_kind p m Hm) as [Hs Hmk]. split; [|tauto].
  intros [H|[H|[H|H]]]; auto.
  - exfalso. rewrite <- H in Hk. rewrite (valid_move_not_king p m c Hv Hs Hmk) in Hk. discriminate.
  - right. right. split; [exact H|].
    pose proof (valid_move_not_own p m Hv Hmk) as Hno. rewrite H in Hno.
    destruct (color_eqb (turn p) c) eqn:E.
    + apply color_eqb_eq in E. rewrite E in Hno.
      assert (own p c q = true) by (apply own_iff; apply has_iff in Hq; eauto). congruence.
    + apply color_eqb_neq in E. rewrite E, opp_opp. reflexivity.
Qed.

(** Castling rights shrink exactly when the king or the rook leaves its home square, or the
    rook is captured on its home square — per right, in a valid position, for a legal move.
    (While the right is held, the king and that rook do stand on their home squares.) *)
Theorem wk_lost_iff p m : pos_valid p = true -> In m (legal_moves p) -> wk p = true ->
  has p 4 King White = true /\ has p 7 Rook White = true /\
  (wk (apply p m) = false <-> src m = 4 \/ src m = 7 \/ (dst m = 7 /\ turn p = Black)).
Proof.
  intros Hv Hm Hr. apply pos_valid_facts in Hv. destruct (vf_wk p Hv Hr) as [Hk Hq].
  split; [exact Hk|]. split; [exact Hq|]. rewrite (wk_lost_iff_touch p m Hr).
  apply (right_english p m White 4 7); assumption.
Qed.
Theorem wq_lost_iff p m : pos_valid p = true -> In m (legal_moves p) -> wq p = true ->
  has p 4 King White = true /\ has p 0 Rook White = true /\
  (wq (apply p m) = false <-> src m = 4 \/ src m = 0 \/ (dst m = 0 /\ turn p = Black)).
Proof.
  intros Hv Hm Hr. apply pos_valid_facts in Hv. destruct (vf_wq p Hv Hr) as [Hk Hq].
  split; [exact Hk|]. split; [exact Hq|]. rewrite (wq_lost_iff_touch p m Hr).
  apply (right_english p m White 4 0); assumption.
Qed.
Theorem bk_lost_iff p m : pos_valid p = true -> In m (legal_moves p) -> bk p = true ->
  has p 60 King Black = true /\ has p 63 Rook Black = true /\
  (bk (apply p m) = false <-> src m = 60 \/ src m = 63 \/ (dst m = 63 /\ turn p = White)).
Proof.
  intros Hv Hm Hr. apply pos_valid_facts in Hv. destruct (vf_bk p Hv Hr) as [Hk Hq].
  split; [exact Hk|]. split; [exact Hq|]. rewrite (bk_lost_iff_touch p m Hr).
  apply (right_english p m Black 60 63); assumption.
Qed.
Theorem bq_lost_iff p m : pos_valid p = true -> In m (legal_moves p) -> bq p = true ->
  has p 60 King Black = true /\ has p 56 Rook Black = true /\
  (bq (apply p m) = false <-> src m = 60 \/ src m = 56 \/ (dst m = 56 /\ turn p = White)).
Proof.
  intros Hv Hm Hr. apply pos_valid_facts in Hv. destruct (vf_bq p Hv Hr) as [Hk Hq].
  split; [exact Hk|]. split; [exact Hq|]. rewrite (bq_lost_iff_touch p m Hr).
  apply (right_english p m Black 60 56); assumption.
Qed.

(** *** the same, read on the successor position: a held right survives a legal move exactly when
    afterwards the king and that rook still stand on their home squares *)
Lemma ep_ok_rank p t : ep_ok p = true -> ep p = Some t -> rank_of t = sixth_rank (turn p).
Proof.
  unfold ep_ok. intros H Ht. rewrite Ht in H. apply andb_prop in H as [H _].
  apply andb_prop in H as [_ H]. apply N.eqb_eq, H.
Qed.

Lemma right_kept_home p m c qf : valid_facts p -> In m (legal_moves p) -> qf < 8 -> qf <> 4 ->
  has p (home_rank c * 8 + 4) King c = true -> has p (home_rank c * 8 + qf) Rook c = true ->
  (touches m (home_rank c * 8 + 4) || touches m (home_rank c * 8 + qf) = false <->
   has (apply p m) (home_rank c * 8 + 4) King c = true /\
   has (apply p m) (home_rank c * 8 + qf) Rook c = true).
Proof.
  intros Hv Hm Hqf Hqf4 Hk Hq.
  set (k := home_rank c * 8 + 4) in *. set (q := home_rank c * 8 + qf) in *.
  pose proof (vf_len p Hv) as Hlen.
  assert (Hrk : rank_of k = home_rank c) by (apply rank_of_mk; lia).
  assert (Hrq : rank_of q = home_rank c) by (apply rank_of_mk; lia).
  split.
  - intro Ht. apply orb_false_elim in Ht as [Tk Tq]. unfold touches in Tk, Tq.
    apply orb_false_elim in Tk as [Sk Dk]. apply orb_false_elim in Tq as [Sq Dq].
    apply N.eqb_neq in Sk, Dk, Sq, Dq.
    assert (Hep : is_ep p m = true -> forall s, rank_of s = home_rank c -> s <> ep_victim m).
    { intros He s Hs E. pose proof (legal_ep_facts p m Hm He) as F.
      pose proof (ep_ok_rank p _ (vf_ep p Hv) (ef_target p m F)) as Hr6.
      pose proof (step_fwd _ _ _ (ef_victim_behind p m F)) as [_ [_ Hr]]. cbn [snd] in Hr.
      rewrite <- E in Hr. rewrite !rankZ_rank_of, Hs, Hr6 in Hr.
      destruct c, (turn p); cbn in Hr; lia. }
    assert (Hca : is_castle p m = true -> forall s, rank_of s = home_rank c ->
                  s <> rook_from m /\ s <> rook_to m).
    { intros Hc s Hs. pose proof (legal_castle_facts p m Hm Hc) as F.
      pose proof (cf_src p m F) as Es.
      assert (Ht : turn p = opp c).
      { destruct (color_eqb (turn p) c) eqn:E.
        - apply color_eqb_eq in E. rewrite E in Es. contradiction.
        - apply color_eqb_neq in E. rewrite E, opp_opp. reflexivity. }
      assert (Er : rank_of (src m) = home_rank (opp c)) by (rewrite Es, Ht; apply rank_of_mk; lia).
      unfold rook_from, rook_to. rewrite Er.
      split; intro E; rewrite E in Hs; rewrite rank_of_mk in Hs
        by (destruct (file_of (dst m) =? 6); lia); destruct c; cbn in Hs; lia. }
    split; apply has_iff.
    + rewrite (at_apply_other p m Hlen Hm k); auto. apply has_iff, Hk.
    + rewrite (at_apply_other p m Hlen Hm q); auto. apply has_iff, Hq.
  - intros [Ak Aq]. apply has_iff in Ak, Aq.
    apply not_true_is_false. intro Ht. apply orb_prop in Ht.
    rewrite !touches_iff in Ht.
    assert (Ht' : src m = k \/ dst m = k \/ src m = q \/ dst m = q) by tauto.
    apply (right_english p m c k q Hv Hm Hk Hq) in Ht' as [E|[E|[E Etn]]].
    + rewrite <- E, (at_apply_src p m Hlen Hm) in Ak. discriminate.
    + rewrite <- E, (at_apply_src p m Hlen Hm) in Aq. discriminate.
    + rewrite <- E, (at_apply_dst p m Hlen Hm), Etn in Aq. injection Aq as _ Ec.
      exact (opp_neq _ Ec).
Qed.

Lemma negb_andb_true r x : r = true -> (r && negb x = true <-> x = false).
Proof. intros ->. cbn [andb]. apply negb_true_iff. Qed.

Theorem wk_kept_iff_home p m : pos_valid p = true -> In m (legal_moves p) -> wk p = true ->
  (wk (apply p m) = true <->
   has (apply p m) 4 King White = true /\ has (apply p m) 7 Rook White = true).
Proof.
  intros Hv Hm Hr. apply pos_valid_facts in Hv. destruct (vf_wk p Hv Hr) as [Hk Hq].
  destruct (rights_apply p m) as [-> _]. rewrite (negb_andb_true _ _ Hr).
  apply (right_kept_home p m White 7 Hv Hm); [lia|lia|exact Hk|exact Hq].
Qed.
Theorem wq_kept_iff_home p m : pos_valid p = true -> In m (legal_moves p) -> wq p = true ->
  (wq (apply p m) = true <->
   has (apply p m) 4 King White = true /\ has (apply p m) 0 Rook White = true).
Proof.
  intros Hv Hm Hr. apply pos_valid_facts in Hv. destruct (vf_wq p Hv Hr) as [Hk Hq].
  destruct (rights_apply p m) as [_ [-> _]]. rewrite (negb_andb_true _ _ Hr).
  apply (right_kept_home p m White 0 Hv Hm); [lia|lia|exact Hk|exact Hq].
Qed.
Theorem bk_kept_iff_home p m : pos_valid p = true -> In m (legal_moves p) -> bk p = true ->
  (bk (apply p m) = true <->
   has (apply p m) 60 King Black = true /\ has (apply p m) 63 Rook Black = true).
Proof.
  intros Hv Hm Hr. apply pos_valid_facts in Hv. destruct (vf_bk p Hv Hr) as [Hk Hq].
  destruct (rights_apply p m) as [_ [_ [-> _]]]. rewrite (negb_andb_true _ _ Hr).
  apply (right_kept_home p m Black 7 Hv Hm); [lia|lia|exact Hk|exact Hq].
Qed.
Theorem bq_kept_iff_home p m : pos_valid p = true -> In m (legal_moves p) -> bq p = true ->
  (bq (apply p m) = true <->
   has (apply p m) 60 King Black = true /\ has (apply p m) 56 Rook Black = true).
Proof.
  intros Hv Hm Hr. apply pos_valid_facts in Hv. destruct (vf_bq p Hv Hr) as [Hk Hq].
  destruct (rights_apply p m) as [_ [_ [_ ->]]]. rewrite (negb_andb_true _ _ Hr).
  apply (right_kept_home p m Black 0 Hv Hm); [lia|lia|exact Hk|exact Hq].
Qed.

(** ** (a, continued) what is captured *)

(** in a valid position the man removed by an en-passant capture is an enemy pawn *)
Lemma ep_ok_victim p t v : ep_ok p = true -> ep p = Some t ->
  step t (0, - fwdc (turn p))%Z = Some v -> has p v Pawn (opp (turn p)) = true.
Proof.
  unfold ep_ok. intros H Ht Hv. rewrite Ht, Hv in H. apply andb_prop in H as [_ H].
  destruct (step t (0, fwdc (turn p))%Z) as [og|]; [|discriminate].
  apply andb_prop in H as [H _]. apply andb_prop in H as [H _]. apply andb_prop in H as [H _].
  apply andb_prop in H as [H _]. exact H.
Qed.
Theorem ep_victim_enemy_pawn p m : pos_valid p = true -> In m (legal_moves p) -> is_ep p m = true ->
  has p (ep_victim m) Pawn (opp (turn p)) = true.
Proof.
  intros Hv Hm He. apply pos_valid_facts in Hv. pose proof (legal_ep_facts p m Hm He) as F.
  exact (ep_ok_victim p _ _ (vf_ep p Hv) (ef_target p m F) (ef_victim_behind p m F)).
Qed.

(** The opponent's men after a legal move are exactly the opponent's men before, minus the one on
    the destination square and minus the pawn taken en passant: a captured man is gone and
    nothing else of the opponent's changes. *)
Theorem enemy_men_after p m s t : length (placement p) = 64%nat -> In m (legal_moves p) ->
  (at_ (apply p m) s = Some (t, opp (turn p)) <->
   at_ p s = Some (t, opp (turn p)) /\ s <> dst m /\ (is_ep p m = true -> s <> ep_victim m)).
Proof.
  intros Hlen Hm. destruct (legal_kind p m Hm) as [Hs Hk]. destruct (move_kind_src p m Hk) as [t0 Ht0].
  assert (Hneq : forall (a b:ptype), Some (a, turn p) <> Some (b, opp (turn p))).
  { intros a b E. injection E as _ E. symmetry in E. exact (opp_neq _ E). }
  destruct (N.eq_dec s (dst m)) as [->|Hd].
  { rewrite (at_apply_dst p m Hlen Hm). split; [intro E; exfalso; exact (Hneq _ _ E)|tauto]. }
  destruct (N.eq_dec s (src m)) as [->|Hsr].
  { rewrite (at_apply_src p m Hlen Hm), Ht0. split; [discriminate|].
    intros [E _]. exfalso. exact (Hneq _ _ E). }
  destruct (is_ep p m) eqn:Ee.
  - destruct (N.eq_dec s (ep_victim m)) as [->|Hv].
    { rewrite (at_apply_ep_victim p m Hlen Hm Ee). split; [discriminate|]. intros [_ [_ H]].
      exfalso. exact (H eq_refl eq_refl). }
    rewrite (at_apply_other p m Hlen Hm s Hd Hsr); [tauto|auto|].
    intro Ec. rewrite (castle_not_ep p m Ec) in Ee. discriminate.
  - destruct (is_castle p m) eqn:Ec.
    + pose proof (legal_castle_facts p m Hm Ec) as F.
      destruct (at_apply_castle p m Hlen Hm Ec) as [A1 A2].
      destruct (N.eq_dec s (rook_from m)) as [->|Hrf].
      { rewrite A1, (cf_rook p m F). split; [discriminate|]. intros [E _]. exfalso. exact (Hneq _ _ E). }
      destruct (N.eq_dec s (rook_to m)) as [->|Hrt].
      { rewrite A2, (cf_to_empty p m F). split; [intro E; exfalso; exact (Hneq _ _ E)|].
        intros [E _]. discriminate. }
      rewrite (at_apply_other p m Hlen Hm s Hd Hsr); [|rewrite Ee; discriminate|auto].
      split; [|tauto]. intro H. split; [exact H|]. split; [exact Hd|discriminate].
    + rewrite (at_apply_other p m Hlen Hm s Hd Hsr); [|rewrite Ee; discriminate|rewrite Ec; discriminate].
      split; [|tauto]. intro H. split; [exact H|]. split; [exact Hd|discriminate].
Qed.
