// Tabulates every finite-domain public function of the freshly compiled library on its
// whole domain.  The translator turns this into coq/Gen/FiniteFns.v.
use crate::common::*;
use chess::*;

fn osq(s: Option<Square>) -> i64 { match s { Some(x) => x.to_index() as i64, None => -1 } }

pub fn run() {
    let colors = [Color::White, Color::Black];
    // 64-entry graphs
    macro_rules! tab64 { ($name:expr, $f:expr) => {{ print!("{}", $name); for i in 0..64 { print!(" {}", $f(sq(i))); } println!(); }} }
    tab64!("F_king_moves", |s| get_king_moves(s).0);
    tab64!("F_knight_moves", |s| get_knight_moves(s).0);
    tab64!("F_rook_rays", |s| get_rook_rays(s).0);
    tab64!("F_bishop_rays", |s| get_bishop_rays(s).0);
    tab64!("F_sq_rank", |s: Square| s.get_rank().to_index());
    tab64!("F_sq_file", |s: Square| s.get_file().to_index());
    tab64!("F_up", |s: Square| osq(s.up()));
    tab64!("F_down", |s: Square| osq(s.down()));
    tab64!("F_left", |s: Square| osq(s.left()));
    tab64!("F_right", |s: Square| osq(s.right()));
    tab64!("F_uup", |s: Square| s.uup().to_index());
    tab64!("F_udown", |s: Square| s.udown().to_index());
    tab64!("F_uleft", |s: Square| s.uleft().to_index());
    tab64!("F_uright", |s: Square| s.uright().to_index());
    tab64!("F_from_square", |s| BitBoard::from_square(s).0);
    tab64!("F_to_square_single", |s| BitBoard::from_square(s).to_square().to_index());
    tab64!("F_rook_sq_cr", |s| CastleRights::rook_square_to_castle_rights(s).to_index());
    for (ci, c) in colors.iter().enumerate() {
        tab64!(format!("F_forward_{}", ci), |s: Square| osq(s.forward(*c)));
        tab64!(format!("F_backward_{}", ci), |s: Square| osq(s.backward(*c)));
        tab64!(format!("F_uforward_{}", ci), |s: Square| s.uforward(*c).to_index());
        tab64!(format!("F_ubackward_{}", ci), |s: Square| s.ubackward(*c).to_index());
        tab64!(format!("F_pawn_attacks_all_{}", ci), |s| get_pawn_attacks(s, *c, !EMPTY).0);
        tab64!(format!("F_pawn_quiets_empty_{}", ci), |s| get_pawn_quiets(s, *c, EMPTY).0);
        tab64!(format!("F_sq_to_cr_{}", ci), |s| CastleRights::square_to_castle_rights(*c, s).to_index());
    }
    // 64x64 graphs
    print!("F_between"); for a in 0..64 { for b in 0..64 { print!(" {}", between(sq(a), sq(b)).0); } } println!();
    print!("F_line"); for a in 0..64 { for b in 0..64 { print!(" {}", line(sq(a), sq(b)).0); } } println!();
    print!("F_make_square"); for r in 0..8 { for f in 0..8 { print!(" {}", Square::make_square(Rank::from_index(r), File::from_index(f)).to_index()); } } println!();
    // 8-entry graphs (indices 0..15 for from_index to see the wrap)
    print!("F_rank_bb"); for r in 0..8 { print!(" {}", get_rank(Rank::from_index(r)).0); } println!();
    print!("F_file_bb"); for f in 0..8 { print!(" {}", get_file(File::from_index(f)).0); } println!();
    print!("F_adjacent_files"); for f in 0..8 { print!(" {}", get_adjacent_files(File::from_index(f)).0); } println!();
    println!("F_edges {}", EDGES.0);
    print!("F_file_from_index"); for i in 0..16 { print!(" {}", File::from_index(i).to_index()); } println!();
    print!("F_rank_from_index"); for i in 0..16 { print!(" {}", Rank::from_index(i).to_index()); } println!();
    print!("F_file_left"); for f in 0..8 { print!(" {}", File::from_index(f).left().to_index()); } println!();
    print!("F_file_right"); for f in 0..8 { print!(" {}", File::from_index(f).right().to_index()); } println!();
    print!("F_rank_up"); for r in 0..8 { print!(" {}", Rank::from_index(r).up().to_index()); } println!();
    print!("F_rank_down"); for r in 0..8 { print!(" {}", Rank::from_index(r).down().to_index()); } println!();
    // colours
    for (ci, c) in colors.iter().enumerate() {
        println!("F_color_ranks_{} {} {} {} {} {}", ci, c.to_my_backrank().to_index(), c.to_their_backrank().to_index(), c.to_second_rank().to_index(), c.to_fourth_rank().to_index(), c.to_seventh_rank().to_index());
        println!("F_color_not_{} {}", ci, (!*c).to_index());
    }
    // castle rights
    for i in 0..4 {
        let cr = CastleRights::from_index(i);
        print!("F_cr_{} {} {}", i, cr.has_kingside() as u8, cr.has_queenside() as u8);
        for c in colors.iter() { print!(" {} {} {}", cr.unmoved_rooks(*c).0, cr.kingside_squares(*c).0, cr.queenside_squares(*c).0); }
        for j in 0..4 { let o = CastleRights::from_index(j); print!(" {} {}", cr.add(o).to_index(), cr.remove(o).to_index()); }
        println!();
        for c in colors.iter() { println!("S_cr_string_{}_{} {}", i, c.to_index(), hex(&cr.to_string(*c))); }
    }
    print!("F_cr_from_index"); for i in 0..8 { print!(" {}", CastleRights::from_index(i).to_index()); } println!();
    // pieces
    for (pi, p) in ALL_PIECES.iter().enumerate() {
        println!("S_piece_display_{} {}", pi, hex(&format!("{}", p)));
        for c in colors.iter() { println!("S_piece_string_{}_{} {}", pi, c.to_index(), hex(&p.to_string(*c))); }
    }
    print!("F_promotion_pieces"); for p in PROMOTION_PIECES.iter() { print!(" {}", p.to_index()); } println!();
    print!("F_all_pieces"); for p in ALL_PIECES.iter() { print!(" {}", p.to_index()); } println!();
    print!("F_all_squares"); for s in ALL_SQUARES.iter() { print!(" {}", s.to_index()); } println!();
    print!("F_all_files"); for s in ALL_FILES.iter() { print!(" {}", s.to_index()); } println!();
    print!("F_all_ranks"); for s in ALL_RANKS.iter() { print!(" {}", s.to_index()); } println!();
    // square display
    for i in 0..64 { println!("S_square_display_{} {}", i, hex(&format!("{}", sq(i)))); }
}
pub fn hex(s: &str) -> String { let mut o = String::new(); for b in s.bytes() { o.push_str(&format!("{:02x}", b)); } if o.is_empty() { o.push('-'); } o }
