#!/bin/bash
# verify_seed.sh <dir with patch.diff demo.rs meta.json>
# Confirms in a scratch worktree (outside /repo and /verif): patch applies, library compiles,
# the 36 unit tests + doc tests pass with it, the demo FAILS with it and PASSES without it.
set -u
D=$(realpath "$1"); WT=/tmp/vs/wt; DC=/tmp/vs/demo
export CARGO_NET_OFFLINE=true
mkdir -p /tmp/vs
if [ ! -d $WT ]; then git -C /repo worktree add -q --detach $WT HEAD || exit 2; fi
git -C $WT checkout -q --detach $(git -C /repo rev-parse HEAD) && git -C $WT checkout -q -- . 
mkdir -p $DC/src && cat > $DC/Cargo.toml <<EOT
[package]
name = "demo"
version = "0.1.0"
edition = "2018"
[dependencies]
chess = { path = "$WT" }
[workspace]
EOT
cp /repo/Cargo.lock $DC/ 2>/dev/null
cp $D/demo.rs $DC/src/main.rs
DEMOFLAGS=""; grep -q '"build": *"bmi2"' $D/meta.json 2>/dev/null && DEMOFLAGS="-C target-feature=+bmi2"
run_demo() { (cd $DC && RUSTFLAGS="$DEMOFLAGS" timeout 900 cargo run --release --offline >/tmp/vs/demo.out 2>&1; echo $?); }
clean_rc=$(run_demo); clean_tail=$(tail -2 /tmp/vs/demo.out | tr '\n' ' ')
git -C $WT apply $D/patch.diff || { echo "RESULT patch-does-not-apply"; exit 1; }
tests=$(cd $WT && timeout 1500 cargo test --offline 2>&1 | grep "test result" | tr '\n' ' ')
mut_rc=$(run_demo); mut_tail=$(tail -3 /tmp/vs/demo.out | tr '\n' ' ' | cut -c1-300)
git -C $WT checkout -q -- .
echo "clean_demo_rc=$clean_rc [$clean_tail]"
echo "tests_with_mutation: $tests"
echo "mutated_demo_rc=$mut_rc [$mut_tail]"
ok=1
[ "$clean_rc" = "0" ] || ok=0
[ "$mut_rc" != "0" ] || ok=0
echo "$tests" | grep -q "36 passed; 0 failed" || ok=0
echo "$tests" | grep -q "failed; [1-9]\|[1-9][0-9]* failed" && ok=0
echo "RESULT ok=$ok"
