(** * Model.Magic — the table look-ups of src/magic.rs over the *translated* tables
    ([Gen.Magic], [Gen.Tables]): [get_rook_moves], [get_bishop_moves] and the remaining
    table accessors.  [Proofs/MagicSweep.v] proves them equal to the closed forms. *)
From Coq Require Import Uint63.
From Chess Require Export Base.Bits.
From Chess Require Import Gen.Magic Gen.Tables.
Open Scope N_scope.

Definition leaf_value (hi lo:int) : N := Z.to_N (Uint63.to_Z hi) * 4294967296 + Z.to_N (Uint63.to_Z lo).
(** [MOVES.get_unchecked(i)]: [None] when [i] is outside the table *)
Fixpoint tget (t:mtree) (depth:nat) (i:N) : option N :=
  match t, depth with
  | L hi lo, O => Some (leaf_value hi lo)
  | B l r, S d => if N.testbit i (N.of_nat d) then tget r d i else tget l d i
  | _, _ => None
  end.
Definition moves_at (i:N) : option N :=
  if i <? G_MOVES_LEN then tget G_MOVES G_MOVES_DEPTH i else None.

Definition magic_entry (pt sq:N) : N*N*N*N := nthN G_MAGICS (pt*64+sq) (0,0,0,0).
Definition g_rays (pt sq:N) : N := nthN G_RAYS (pt*64+sq) 0.
(** [(magic.magic_number * (blockers & magic.mask)).to_size(magic.rightshift)] *)
Definition magic_index (pt sq occ:N) : N :=
  let '(mg,mask,off,sh) := magic_entry pt sq in
  off + N.shiftr (mul64 mg (N.land occ mask)) sh.
(** [get_rook_moves] (pt = ROOK = 0) / [get_bishop_moves] (pt = BISHOP = 1); [None] = the
    unchecked index is out of range *)
Definition magic_lookup (pt sq occ:N) : option N :=
  match moves_at (magic_index pt sq occ) with
  | Some v => Some (N.land v (g_rays pt sq))
  | None => None end.
