(** * Properties.X14 — the move-iterator contract (C14) on the library's own generator, in
    chess terms: C14 composed with the generator theorem C01.

    C14 is stated for an arbitrary well-formed entry list; C01 says that on the canonical board
    of a valid position the entry list built by [MoveGen::enumerate_moves] expands to exactly
    the legal moves of the FIDE specification.  Here every statement is about
    [MoveGen::new_legal(&board)] and [Spec.Rules.legal_moves]:

    - [_fide] forms: for every valid position [p] ([pos_valid p = true]), on the board
      [from_scratch p] the library builds for it;
    - [_canon] forms: for every canonical board [b] ([b = from_scratch (abs_board b)]) that shows
      a valid position — by C01c every board reached by play is one.

    Vocabulary: [run fuel g ops] ([Proofs.IterMask]): the script [ops] of
    [OMask m] = [set_iterator_mask(m)] followed by a drain to exhaustion (one batch of output),
    run from state [g]; [drain fuel g]: call [next] until [None] (at most [fuel] times);
    [of_spec_move] / [to_spec_move]: a move of the specification as a (source, destination,
    promotion) triple of the model and back; [N.testbit mask (dst m)]: the destination of [m]
    is in the bitboard [mask]; [enemy p c s]: a man of the colour opposite to [c] stands on [s]
    ([X14_enemy_meaning]); [color_combined b c]: the bitboard of the men of colour [c];
    [legal_in y c]: [c] occurs in the list [y]; [Reach L g]: [g] is reachable from the fresh
    generator by [next], [set_iterator_mask], [remove_mask], [remove_move] (the last three only
    when no promotion is in progress).
    Fuel: [length (legal_moves p) < fuel]; [X14_drain_fuel_fide] shows that the model's
    [drain_fuel] = 5000 always suffices ([_5000] forms).
    Proofs: [Proofs/IterOnBoards.v]; concrete instances: [Proofs/IterOnBoardsExamples.v]. *)
From Coq Require Import NArith List Bool Permutation.
From Chess Require Import Base.Bits Spec.Geometry Spec.Rules Model.Board Model.MoveGen.
From Chess Require Import Proofs.IterCore Proofs.IterMask Proofs.NullMove Proofs.StatusModel
  Proofs.PerftPublished Proofs.IterOnBoards Proofs.IterOnBoardsExamples.
Import ListNotations.
Open Scope N_scope.


(** ** 0. the bridge: the library's generator is the fresh generator of C14 over the entry list
    of C01; a valid position never needs more fuel than the model's [drain_fuel] = 5000 *)
Theorem X14_new_legal_g0 : forall b, new_legal b = g0 (enumerate_moves b).
Proof. exact new_legal_g0. Qed.
Check X14_new_legal_g0 : forall b, new_legal b = g0 (enumerate_moves b).
Print Assumptions X14_new_legal_g0.

Theorem X14_reach_new_legal : forall b, Reach (enumerate_moves b) (new_legal b).
Proof. exact reach_new_legal. Qed.
Check X14_reach_new_legal : forall b, Reach (enumerate_moves b) (new_legal b).
Print Assumptions X14_reach_new_legal.

Theorem X14_fuel_bound_fide : forall p, pos_valid p = true ->
  (length (legal_moves p) <= 4 * 64 * 18)%nat.
Proof. exact fuel_bound_fide. Qed.
Check X14_fuel_bound_fide : forall p, pos_valid p = true ->
  (length (legal_moves p) <= 4 * 64 * 18)%nat.
Print Assumptions X14_fuel_bound_fide.

Theorem X14_fuel_bound_canon : forall b, Canonical b -> pos_valid (abs_board b) = true ->
  (length (legal_moves (abs_board b)) <= 4 * 64 * 18)%nat.
Proof. exact fuel_bound_canon. Qed.
Check X14_fuel_bound_canon : forall b, Canonical b -> pos_valid (abs_board b) = true ->
  (length (legal_moves (abs_board b)) <= 4 * 64 * 18)%nat.
Print Assumptions X14_fuel_bound_canon.

Theorem X14_drain_fuel_fide : forall p, pos_valid p = true ->
  (length (legal_moves p) < drain_fuel)%nat.
Proof. exact drain_fuel_fide. Qed.
Check X14_drain_fuel_fide : forall p, pos_valid p = true ->
  (length (legal_moves p) < drain_fuel)%nat.
Print Assumptions X14_drain_fuel_fide.

Theorem X14_drain_fuel_canon : forall b, Canonical b -> pos_valid (abs_board b) = true ->
  (length (legal_moves (abs_board b)) < drain_fuel)%nat.
Proof. exact drain_fuel_canon. Qed.
Check X14_drain_fuel_canon : forall b, Canonical b -> pos_valid (abs_board b) = true ->
  (length (legal_moves (abs_board b)) < drain_fuel)%nat.
Print Assumptions X14_drain_fuel_canon.

(** ** 1. masks m1..mk then the full mask, each drained to exhaustion, on [new_legal]:
    batch i = the legal moves whose destination is on mask i and on no earlier mask; the last
    batch = those on no mask; together every legal move exactly once *)
Theorem X14_mask_sequence_fide : forall p ms fuel,
  pos_valid p = true -> (length (legal_moves p) < fuel)%nat ->
  let out := fst (run fuel (new_legal (from_scratch p)) (map OMask (ms ++ [M64]))) in
  length out = S (length ms) /\
  (forall i, (i <= length ms)%nat ->
     Permutation (nth i out [])
       (map of_spec_move
          (filter (fun m => forallb (fun mk => negb (N.testbit mk (dst m))) (firstn i ms) &&
                            N.testbit (nth i (ms ++ [M64]) 0) (dst m))
                  (legal_moves p)))) /\
  Permutation (nth (length ms) out [])
       (map of_spec_move
          (filter (fun m => forallb (fun mk => negb (N.testbit mk (dst m))) ms) (legal_moves p))) /\
  Permutation (concat out) (map of_spec_move (legal_moves p)) /\
  NoDup (concat out).
Proof. exact mask_sequence_fide. Qed.
Check X14_mask_sequence_fide : forall p ms fuel,
  pos_valid p = true -> (length (legal_moves p) < fuel)%nat ->
  let out := fst (run fuel (new_legal (from_scratch p)) (map OMask (ms ++ [M64]))) in
  length out = S (length ms) /\
  (forall i, (i <= length ms)%nat ->
     Permutation (nth i out [])
       (map of_spec_move
          (filter (fun m => forallb (fun mk => negb (N.testbit mk (dst m))) (firstn i ms) &&
                            N.testbit (nth i (ms ++ [M64]) 0) (dst m))
                  (legal_moves p)))) /\
  Permutation (nth (length ms) out [])
       (map of_spec_move
          (filter (fun m => forallb (fun mk => negb (N.testbit mk (dst m))) ms) (legal_moves p))) /\
  Permutation (concat out) (map of_spec_move (legal_moves p)) /\
  NoDup (concat out).
Print Assumptions X14_mask_sequence_fide.

Theorem X14_mask_sequence_fide_5000 : forall p ms, pos_valid p = true ->
  let out := fst (run drain_fuel (new_legal (from_scratch p)) (map OMask (ms ++ [M64]))) in
  length out = S (length ms) /\
  (forall i, (i <= length ms)%nat ->
     Permutation (nth i out [])
       (map of_spec_move
          (filter (fun m => forallb (fun mk => negb (N.testbit mk (dst m))) (firstn i ms) &&
                            N.testbit (nth i (ms ++ [M64]) 0) (dst m))
                  (legal_moves p)))) /\
  Permutation (nth (length ms) out [])
       (map of_spec_move
          (filter (fun m => forallb (fun mk => negb (N.testbit mk (dst m))) ms) (legal_moves p))) /\
  Permutation (concat out) (map of_spec_move (legal_moves p)) /\
  NoDup (concat out).
Proof. exact mask_sequence_fide_5000. Qed.
Check X14_mask_sequence_fide_5000 : forall p ms, pos_valid p = true ->
  let out := fst (run drain_fuel (new_legal (from_scratch p)) (map OMask (ms ++ [M64]))) in
  length out = S (length ms) /\
  (forall i, (i <= length ms)%nat ->
     Permutation (nth i out [])
       (map of_spec_move
          (filter (fun m => forallb (fun mk => negb (N.testbit mk (dst m))) (firstn i ms) &&
                            N.testbit (nth i (ms ++ [M64]) 0) (dst m))
                  (legal_moves p)))) /\
  Permutation (nth (length ms) out [])
       (map of_spec_move
          (filter (fun m => forallb (fun mk => negb (N.testbit mk (dst m))) ms) (legal_moves p))) /\
  Permutation (concat out) (map of_spec_move (legal_moves p)) /\
  NoDup (concat out).
Print Assumptions X14_mask_sequence_fide_5000.

Theorem X14_mask_sequence_canon : forall b ms fuel,
  Canonical b -> pos_valid (abs_board b) = true ->
  (length (legal_moves (abs_board b)) < fuel)%nat ->
  let out := fst (run fuel (new_legal b) (map OMask (ms ++ [M64]))) in
  length out = S (length ms) /\
  (forall i, (i <= length ms)%nat ->
     Permutation (nth i out [])
       (map of_spec_move
          (filter (fun m => forallb (fun mk => negb (N.testbit mk (dst m))) (firstn i ms) &&
                            N.testbit (nth i (ms ++ [M64]) 0) (dst m))
                  (legal_moves (abs_board b))))) /\
  Permutation (nth (length ms) out [])
       (map of_spec_move
          (filter (fun m => forallb (fun mk => negb (N.testbit mk (dst m))) ms) (legal_moves (abs_board b)))) /\
  Permutation (concat out) (map of_spec_move (legal_moves (abs_board b))) /\
  NoDup (concat out).
Proof. exact mask_sequence_canon. Qed.
Check X14_mask_sequence_canon : forall b ms fuel,
  Canonical b -> pos_valid (abs_board b) = true ->
  (length (legal_moves (abs_board b)) < fuel)%nat ->
  let out := fst (run fuel (new_legal b) (map OMask (ms ++ [M64]))) in
  length out = S (length ms) /\
  (forall i, (i <= length ms)%nat ->
     Permutation (nth i out [])
       (map of_spec_move
          (filter (fun m => forallb (fun mk => negb (N.testbit mk (dst m))) (firstn i ms) &&
                            N.testbit (nth i (ms ++ [M64]) 0) (dst m))
                  (legal_moves (abs_board b))))) /\
  Permutation (nth (length ms) out [])
       (map of_spec_move
          (filter (fun m => forallb (fun mk => negb (N.testbit mk (dst m))) ms) (legal_moves (abs_board b)))) /\
  Permutation (concat out) (map of_spec_move (legal_moves (abs_board b))) /\
  NoDup (concat out).
Print Assumptions X14_mask_sequence_canon.

(** ** 2. the documented pattern: the enemy men as first mask, then everything.  First exactly
    the legal moves whose destination holds an enemy man (the captures other than en passant),
    then exactly the legal moves to an empty square (quiet moves, castling, en passant); every
    legal move exactly once; then the generator is exhausted *)
Theorem X14_captures_first_fide : forall p fuel,
  pos_valid p = true -> (length (legal_moves p) < fuel)%nat ->
  let b := from_scratch p in
  let targets := color_combined b (opp (turn p)) in
  let d1 := drain fuel (set_iterator_mask (new_legal b) targets) in
  let d2 := drain fuel (set_iterator_mask (snd d1) M64) in
  fst (run fuel (new_legal b) [OMask targets; OMask M64]) = [fst d1; fst d2] /\
  Permutation (fst d1)
    (map of_spec_move (filter (fun m => enemy p (turn p) (dst m)) (legal_moves p))) /\
  Permutation (fst d2)
    (map of_spec_move (filter (fun m => negb (enemy p (turn p) (dst m))) (legal_moves p))) /\
  Permutation (fst d1 ++ fst d2) (map of_spec_move (legal_moves p)) /\
  NoDup (fst d1 ++ fst d2) /\
  next (snd d2) = (None, snd d2) /\ len (snd d2) = 0.
Proof. exact captures_first_fide. Qed.
Check X14_captures_first_fide : forall p fuel,
  pos_valid p = true -> (length (legal_moves p) < fuel)%nat ->
  let b := from_scratch p in
  let targets := color_combined b (opp (turn p)) in
  let d1 := drain fuel (set_iterator_mask (new_legal b) targets) in
  let d2 := drain fuel (set_iterator_mask (snd d1) M64) in
  fst (run fuel (new_legal b) [OMask targets; OMask M64]) = [fst d1; fst d2] /\
  Permutation (fst d1)
    (map of_spec_move (filter (fun m => enemy p (turn p) (dst m)) (legal_moves p))) /\
  Permutation (fst d2)
    (map of_spec_move (filter (fun m => negb (enemy p (turn p) (dst m))) (legal_moves p))) /\
  Permutation (fst d1 ++ fst d2) (map of_spec_move (legal_moves p)) /\
  NoDup (fst d1 ++ fst d2) /\
  next (snd d2) = (None, snd d2) /\ len (snd d2) = 0.
Print Assumptions X14_captures_first_fide.

Theorem X14_captures_first_fide_5000 : forall p, pos_valid p = true ->
  let b := from_scratch p in
  let targets := color_combined b (opp (turn p)) in
  let d1 := drain drain_fuel (set_iterator_mask (new_legal b) targets) in
  let d2 := drain drain_fuel (set_iterator_mask (snd d1) M64) in
  fst (run drain_fuel (new_legal b) [OMask targets; OMask M64]) = [fst d1; fst d2] /\
  Permutation (fst d1)
    (map of_spec_move (filter (fun m => enemy p (turn p) (dst m)) (legal_moves p))) /\
  Permutation (fst d2)
    (map of_spec_move (filter (fun m => negb (enemy p (turn p) (dst m))) (legal_moves p))) /\
  Permutation (fst d1 ++ fst d2) (map of_spec_move (legal_moves p)) /\
  NoDup (fst d1 ++ fst d2) /\
  next (snd d2) = (None, snd d2) /\ len (snd d2) = 0.
Proof. exact captures_first_fide_5000. Qed.
Check X14_captures_first_fide_5000 : forall p, pos_valid p = true ->
  let b := from_scratch p in
  let targets := color_combined b (opp (turn p)) in
  let d1 := drain drain_fuel (set_iterator_mask (new_legal b) targets) in
  let d2 := drain drain_fuel (set_iterator_mask (snd d1) M64) in
  fst (run drain_fuel (new_legal b) [OMask targets; OMask M64]) = [fst d1; fst d2] /\
  Permutation (fst d1)
    (map of_spec_move (filter (fun m => enemy p (turn p) (dst m)) (legal_moves p))) /\
  Permutation (fst d2)
    (map of_spec_move (filter (fun m => negb (enemy p (turn p) (dst m))) (legal_moves p))) /\
  Permutation (fst d1 ++ fst d2) (map of_spec_move (legal_moves p)) /\
  NoDup (fst d1 ++ fst d2) /\
  next (snd d2) = (None, snd d2) /\ len (snd d2) = 0.
Print Assumptions X14_captures_first_fide_5000.

Theorem X14_captures_first_canon : forall b fuel,
  Canonical b -> pos_valid (abs_board b) = true ->
  (length (legal_moves (abs_board b)) < fuel)%nat ->
  let p := abs_board b in
  let targets := color_combined b (opp (stm b)) in
  let d1 := drain fuel (set_iterator_mask (new_legal b) targets) in
  let d2 := drain fuel (set_iterator_mask (snd d1) M64) in
  fst (run fuel (new_legal b) [OMask targets; OMask M64]) = [fst d1; fst d2] /\
  Permutation (fst d1)
    (map of_spec_move (filter (fun m => enemy p (turn p) (dst m)) (legal_moves p))) /\
  Permutation (fst d2)
    (map of_spec_move (filter (fun m => negb (enemy p (turn p) (dst m))) (legal_moves p))) /\
  Permutation (fst d1 ++ fst d2) (map of_spec_move (legal_moves p)) /\
  NoDup (fst d1 ++ fst d2) /\
  next (snd d2) = (None, snd d2) /\ len (snd d2) = 0.
Proof. exact captures_first_canon. Qed.
Check X14_captures_first_canon : forall b fuel,
  Canonical b -> pos_valid (abs_board b) = true ->
  (length (legal_moves (abs_board b)) < fuel)%nat ->
  let p := abs_board b in
  let targets := color_combined b (opp (stm b)) in
  let d1 := drain fuel (set_iterator_mask (new_legal b) targets) in
  let d2 := drain fuel (set_iterator_mask (snd d1) M64) in
  fst (run fuel (new_legal b) [OMask targets; OMask M64]) = [fst d1; fst d2] /\
  Permutation (fst d1)
    (map of_spec_move (filter (fun m => enemy p (turn p) (dst m)) (legal_moves p))) /\
  Permutation (fst d2)
    (map of_spec_move (filter (fun m => negb (enemy p (turn p) (dst m))) (legal_moves p))) /\
  Permutation (fst d1 ++ fst d2) (map of_spec_move (legal_moves p)) /\
  NoDup (fst d1 ++ fst d2) /\
  next (snd d2) = (None, snd d2) /\ len (snd d2) = 0.
Print Assumptions X14_captures_first_canon.

(** the vocabulary: [enemy p (turn p) s] says that an enemy man stands on [s]; for a legal move
    the destination holds an enemy man or is empty, so the second batch above is "destination
    empty" *)
Theorem X14_enemy_meaning : forall p c s,
  enemy p c s = true <-> exists t, at_ p s = Some (t, opp c).
Proof. exact enemy_meaning. Qed.
Check X14_enemy_meaning : forall p c s,
  enemy p c s = true <-> exists t, at_ p s = Some (t, opp c).
Print Assumptions X14_enemy_meaning.

Theorem X14_legal_dst : forall p m, pos_valid p = true -> In m (legal_moves p) ->
  src m < 64 /\ dst m < 64 /\ enemy p (turn p) (dst m) = occ p (dst m).
Proof. exact legal_dst_fide. Qed.
Check X14_legal_dst : forall p m, pos_valid p = true -> In m (legal_moves p) ->
  src m < 64 /\ dst m < 64 /\ enemy p (turn p) (dst m) = occ p (dst m).
Print Assumptions X14_legal_dst.

(** ** 3. removals on the fresh generator.  [remove_move s d] deletes every legal move from [s]
    to [d] — all four promotions together — and nothing else; its flag is [true] exactly when
    SOME legal move starts on [s] (whether or not [d] is one of its destinations) *)
Theorem X14_remove_move_fide : forall p s d fuel,
  pos_valid p = true -> (length (legal_moves p) < fuel)%nat ->
  let r := remove_move (new_legal (from_scratch p)) s d in
  fst r = existsb (fun m => src m =? s) (legal_moves p) /\
  Permutation (fst (drain fuel (snd r)))
    (map of_spec_move (filter (fun m => negb ((src m =? s) && (dst m =? d))) (legal_moves p))) /\
  NoDup (fst (drain fuel (snd r))).
Proof. exact remove_move_fide. Qed.
Check X14_remove_move_fide : forall p s d fuel,
  pos_valid p = true -> (length (legal_moves p) < fuel)%nat ->
  let r := remove_move (new_legal (from_scratch p)) s d in
  fst r = existsb (fun m => src m =? s) (legal_moves p) /\
  Permutation (fst (drain fuel (snd r)))
    (map of_spec_move (filter (fun m => negb ((src m =? s) && (dst m =? d))) (legal_moves p))) /\
  NoDup (fst (drain fuel (snd r))).
Print Assumptions X14_remove_move_fide.

Theorem X14_remove_move_canon : forall b s d fuel,
  Canonical b -> pos_valid (abs_board b) = true ->
  (length (legal_moves (abs_board b)) < fuel)%nat ->
  let r := remove_move (new_legal b) s d in
  fst r = existsb (fun m => src m =? s) (legal_moves (abs_board b)) /\
  Permutation (fst (drain fuel (snd r)))
    (map of_spec_move (filter (fun m => negb ((src m =? s) && (dst m =? d))) (legal_moves (abs_board b)))) /\
  NoDup (fst (drain fuel (snd r))).
Proof. exact remove_move_canon. Qed.
Check X14_remove_move_canon : forall b s d fuel,
  Canonical b -> pos_valid (abs_board b) = true ->
  (length (legal_moves (abs_board b)) < fuel)%nat ->
  let r := remove_move (new_legal b) s d in
  fst r = existsb (fun m => src m =? s) (legal_moves (abs_board b)) /\
  Permutation (fst (drain fuel (snd r)))
    (map of_spec_move (filter (fun m => negb ((src m =? s) && (dst m =? d))) (legal_moves (abs_board b)))) /\
  NoDup (fst (drain fuel (snd r))).
Print Assumptions X14_remove_move_canon.

Theorem X14_remove_mask_fide : forall p rm fuel,
  pos_valid p = true -> (length (legal_moves p) < fuel)%nat ->
  Permutation (fst (drain fuel (remove_mask (new_legal (from_scratch p)) rm)))
    (map of_spec_move (filter (fun m => negb (N.testbit rm (dst m))) (legal_moves p))) /\
  NoDup (fst (drain fuel (remove_mask (new_legal (from_scratch p)) rm))).
Proof. exact remove_mask_fide. Qed.
Check X14_remove_mask_fide : forall p rm fuel,
  pos_valid p = true -> (length (legal_moves p) < fuel)%nat ->
  Permutation (fst (drain fuel (remove_mask (new_legal (from_scratch p)) rm)))
    (map of_spec_move (filter (fun m => negb (N.testbit rm (dst m))) (legal_moves p))) /\
  NoDup (fst (drain fuel (remove_mask (new_legal (from_scratch p)) rm))).
Print Assumptions X14_remove_mask_fide.

Theorem X14_remove_mask_canon : forall b rm fuel,
  Canonical b -> pos_valid (abs_board b) = true ->
  (length (legal_moves (abs_board b)) < fuel)%nat ->
  Permutation (fst (drain fuel (remove_mask (new_legal b) rm)))
    (map of_spec_move (filter (fun m => negb (N.testbit rm (dst m))) (legal_moves (abs_board b)))) /\
  NoDup (fst (drain fuel (remove_mask (new_legal b) rm))).
Proof. exact remove_mask_canon. Qed.
Check X14_remove_mask_canon : forall b rm fuel,
  Canonical b -> pos_valid (abs_board b) = true ->
  (length (legal_moves (abs_board b)) < fuel)%nat ->
  Permutation (fst (drain fuel (remove_mask (new_legal b) rm)))
    (map of_spec_move (filter (fun m => negb (N.testbit rm (dst m))) (legal_moves (abs_board b)))) /\
  NoDup (fst (drain fuel (remove_mask (new_legal b) rm))).
Print Assumptions X14_remove_mask_canon.

(** ** 4. [len]: the number of legal moves; after [k] calls of [next] the number of legal moves
    not yet yielded; exact in every reachable state *)
Theorem X14_len_fide : forall p, pos_valid p = true ->
  len (new_legal (from_scratch p)) = N.of_nat (length (legal_moves p)).
Proof. exact len_fide. Qed.
Check X14_len_fide : forall p, pos_valid p = true ->
  len (new_legal (from_scratch p)) = N.of_nat (length (legal_moves p)).
Print Assumptions X14_len_fide.

Theorem X14_len_canon : forall b, Canonical b -> pos_valid (abs_board b) = true ->
  len (new_legal b) = N.of_nat (length (legal_moves (abs_board b))).
Proof. exact len_canon. Qed.
Check X14_len_canon : forall b, Canonical b -> pos_valid (abs_board b) = true ->
  len (new_legal b) = N.of_nat (length (legal_moves (abs_board b))).
Print Assumptions X14_len_canon.

Theorem X14_len_prefix_fide : forall p k, pos_valid p = true ->
  let y := fst (drain k (new_legal (from_scratch p))) in
  let g := snd (drain k (new_legal (from_scratch p))) in
  (forall c, In c y -> In (to_spec_move c) (legal_moves p)) /\
  NoDup y /\
  length y = Nat.min k (length (legal_moves p)) /\
  len g = N.of_nat (length (legal_moves p) - length y) /\
  len g = N.of_nat (length (filter (fun m => negb (legal_in y (of_spec_move m))) (legal_moves p))).
Proof. exact len_prefix_fide. Qed.
Check X14_len_prefix_fide : forall p k, pos_valid p = true ->
  let y := fst (drain k (new_legal (from_scratch p))) in
  let g := snd (drain k (new_legal (from_scratch p))) in
  (forall c, In c y -> In (to_spec_move c) (legal_moves p)) /\
  NoDup y /\
  length y = Nat.min k (length (legal_moves p)) /\
  len g = N.of_nat (length (legal_moves p) - length y) /\
  len g = N.of_nat (length (filter (fun m => negb (legal_in y (of_spec_move m))) (legal_moves p))).
Print Assumptions X14_len_prefix_fide.

Theorem X14_len_prefix_canon : forall b k, Canonical b -> pos_valid (abs_board b) = true ->
  let y := fst (drain k (new_legal b)) in
  let g := snd (drain k (new_legal b)) in
  (forall c, In c y -> In (to_spec_move c) (legal_moves (abs_board b))) /\
  NoDup y /\
  length y = Nat.min k (length (legal_moves (abs_board b))) /\
  len g = N.of_nat (length (legal_moves (abs_board b)) - length y) /\
  len g = N.of_nat (length (filter (fun m => negb (legal_in y (of_spec_move m))) (legal_moves (abs_board b)))).
Proof. exact len_prefix_canon. Qed.
Check X14_len_prefix_canon : forall b k, Canonical b -> pos_valid (abs_board b) = true ->
  let y := fst (drain k (new_legal b)) in
  let g := snd (drain k (new_legal b)) in
  (forall c, In c y -> In (to_spec_move c) (legal_moves (abs_board b))) /\
  NoDup y /\
  length y = Nat.min k (length (legal_moves (abs_board b))) /\
  len g = N.of_nat (length (legal_moves (abs_board b)) - length y) /\
  len g = N.of_nat (length (filter (fun m => negb (legal_in y (of_spec_move m))) (legal_moves (abs_board b)))).
Print Assumptions X14_len_prefix_canon.

Theorem X14_len_reachable_fide : forall p g fuel, pos_valid p = true ->
  Reach (enumerate_moves (from_scratch p)) g -> (N.to_nat (len g) < fuel)%nat ->
  len g = N.of_nat (length (fst (drain fuel g))) /\
  match fst (next g) with
  | Some _ => len g = len (snd (next g)) + 1
  | None => len g = 0 /\ promotion_index g = 0
  end.
Proof. exact len_reachable_fide. Qed.
Check X14_len_reachable_fide : forall p g fuel, pos_valid p = true ->
  Reach (enumerate_moves (from_scratch p)) g -> (N.to_nat (len g) < fuel)%nat ->
  len g = N.of_nat (length (fst (drain fuel g))) /\
  match fst (next g) with
  | Some _ => len g = len (snd (next g)) + 1
  | None => len g = 0 /\ promotion_index g = 0
  end.
Print Assumptions X14_len_reachable_fide.

Theorem X14_len_reachable_canon : forall b g fuel, Canonical b -> pos_valid (abs_board b) = true ->
  Reach (enumerate_moves b) g -> (N.to_nat (len g) < fuel)%nat ->
  len g = N.of_nat (length (fst (drain fuel g))) /\
  match fst (next g) with
  | Some _ => len g = len (snd (next g)) + 1
  | None => len g = 0 /\ promotion_index g = 0
  end.
Proof. exact len_reachable_canon. Qed.
Check X14_len_reachable_canon : forall b g fuel, Canonical b -> pos_valid (abs_board b) = true ->
  Reach (enumerate_moves b) g -> (N.to_nat (len g) < fuel)%nat ->
  len g = N.of_nat (length (fst (drain fuel g))) /\
  match fst (next g) with
  | Some _ => len g = len (snd (next g)) + 1
  | None => len g = 0 /\ promotion_index g = 0
  end.
Print Assumptions X14_len_reachable_canon.

(** ** 5. the hypotheses are satisfiable, and the theorems at work: perft position 5
    (rnbq1k1r/pp1Pbppp/2p5/8/2B5/8/PPP1NnPP/RNBQK2R w KQ - 1 8 — captures, a capturing
    promotion, castling; 44 legal moves).  Only the model side is evaluated; the facts about
    [legal_moves ex_pos] come out of the theorems above. *)
Example X14_ex_hyps :
  pos_valid ex_pos = true /\ from_scratch ex_pos = pos5_board /\
  Canonical pos5_board /\ pos_valid (abs_board pos5_board) = true.
Proof. exact (conj ex_valid (conj ex_board ex_canon_hyps)). Qed.

(** the black men as first mask: d7xc8=Q/N/R/B, Bc4xf7, Ke1xf2 come first, then the other 38 *)
Example X14_ex_captures_run :
  fst (run drain_fuel (new_legal pos5_board) [OMask ex_targets; OMask M64]) = [ex_caps; ex_rest].
Proof. exact ex_captures_run. Qed.

Example X14_ex_captures_first :
  Permutation ex_caps
    (map of_spec_move (filter (fun m => enemy ex_pos (turn ex_pos) (dst m)) (legal_moves ex_pos))) /\
  Permutation ex_rest
    (map of_spec_move (filter (fun m => negb (enemy ex_pos (turn ex_pos) (dst m))) (legal_moves ex_pos))) /\
  Permutation (ex_caps ++ ex_rest) (map of_spec_move (legal_moves ex_pos)) /\
  length (legal_moves ex_pos) = 44%nat.
Proof. exact ex_captures_first. Qed.

(** the eighth rank, then the black men, then everything *)
Example X14_ex_masks_run :
  fst (run drain_fuel (new_legal pos5_board) (map OMask ([ex_rank8; ex_targets] ++ [M64])))
  = [ex_b0; ex_b1; ex_b2] /\ length ex_b2 = 38%nat.
Proof. exact ex_masks_run. Qed.

Example X14_ex_mask_sequence :
  Permutation ex_b0
    (map of_spec_move (filter (fun m => N.testbit ex_rank8 (dst m)) (legal_moves ex_pos))) /\
  Permutation ex_b1
    (map of_spec_move (filter (fun m => negb (N.testbit ex_rank8 (dst m)) && N.testbit ex_targets (dst m))
                              (legal_moves ex_pos))) /\
  Permutation ex_b2
    (map of_spec_move (filter (fun m => negb (N.testbit ex_rank8 (dst m)) && negb (N.testbit ex_targets (dst m)))
                              (legal_moves ex_pos))) /\
  Permutation (ex_b0 ++ ex_b1 ++ ex_b2) (map of_spec_move (legal_moves ex_pos)) /\
  NoDup (ex_b0 ++ ex_b1 ++ ex_b2).
Proof. exact ex_mask_sequence. Qed.

(** [remove_move] d7 -> c8 deletes the four promotions together *)
Example X14_ex_remove_move_run :
  remove_move (new_legal pos5_board) 51 58 = (true, snd (remove_move (new_legal pos5_board) 51 58)) /\
  fst (drain drain_fuel (snd (remove_move (new_legal pos5_board) 51 58))) = ex_after_remove /\
  length ex_after_remove = 40%nat /\
  existsb (fun c => (msrc c =? 51) && (mdst c =? 58)) ex_after_remove = false.
Proof. exact ex_remove_move_run. Qed.

Example X14_ex_remove_move :
  existsb (fun m => src m =? 51) (legal_moves ex_pos) = true /\
  Permutation ex_after_remove
    (map of_spec_move (filter (fun m => negb ((src m =? 51) && (dst m =? 58))) (legal_moves ex_pos))) /\
  NoDup ex_after_remove.
Proof. exact ex_remove_move. Qed.

(** the flag is about the source square only: d7 -> d8 is not legal, nothing is removed, the
    flag is [true]; from the empty square e3 it is [false] *)
Example X14_ex_remove_move_flag :
  fst (remove_move (new_legal pos5_board) 51 59) = true /\
  length (fst (drain drain_fuel (snd (remove_move (new_legal pos5_board) 51 59)))) = 44%nat /\
  fst (remove_move (new_legal pos5_board) 20 28) = false.
Proof. exact ex_remove_move_flag. Qed.

(** so the reading "the flag tells whether the move was present" is refuted (witness: the
    position above, d7 -> d8) *)
Theorem X14_remove_move_flag_refuted :
  ~ (forall p s d, pos_valid p = true ->
       fst (remove_move (new_legal (from_scratch p)) s d)
       = existsb (fun m => (src m =? s) && (dst m =? d)) (legal_moves p)).
Proof. exact remove_move_flag_refuted. Qed.
Check X14_remove_move_flag_refuted :
  ~ (forall p s d, pos_valid p = true ->
       fst (remove_move (new_legal (from_scratch p)) s d)
       = existsb (fun m => (src m =? s) && (dst m =? d)) (legal_moves p)).
Print Assumptions X14_remove_move_flag_refuted.

Example X14_ex_remove_mask :
  Permutation ex_after_mask
    (map of_spec_move (filter (fun m => negb (N.testbit ex_targets (dst m))) (legal_moves ex_pos))) /\
  NoDup ex_after_mask.
Proof. exact ex_remove_mask. Qed.

Example X14_ex_len : len (new_legal pos5_board) = 44 /\ length (legal_moves ex_pos) = 44%nat.
Proof. exact (conj ex_len_run ex_len). Qed.

Example X14_ex_len_prefix :
  let y := [mk 8 16; mk 8 24; mk 9 17] in
  (forall c, In c y -> In (to_spec_move c) (legal_moves ex_pos)) /\
  41 = N.of_nat (length (filter (fun m => negb (legal_in y (of_spec_move m))) (legal_moves ex_pos))).
Proof. exact ex_len_prefix. Qed.

Example X14_ex_reachable :
  let g := snd (next (set_iterator_mask (new_legal pos5_board) ex_rank8)) in
  Reach (enumerate_moves pos5_board) g /\ promotion_index g = 1 /\ len g = 3.
Proof. exact ex_reachable. Qed.

Print Assumptions X14_ex_captures_first.
Print Assumptions X14_ex_mask_sequence.
Print Assumptions X14_ex_remove_move.
Print Assumptions X14_ex_remove_mask.
Print Assumptions X14_ex_len_prefix.
