(** * Proofs.GameThreefold — the double loop of [Game::can_declare_draw]
    ([for i in 1..len-1 { for j in 0..i { if l[i]==last && l[j]==last { return true }}}])
    answers [true] exactly when the last key occurs at least three times in the list. *)
From Coq Require Import NArith List Lia Bool Arith FinFun.
From Chess Require Import Model.Game Proofs.GameBase.
Import ListNotations.

(** ** 1. Two indices [j < i] satisfying [p]  <->  at least two elements satisfy [p] *)
Section Count.
Context {A:Type} (p:A->bool) (d:A).
Definition count (l:list A) : nat := length (filter p l).

Lemma count_cons x l : count (x :: l) = ((if p x then 1 else 0) + count l)%nat.
Proof. unfold count. cbn [filter]. destruct (p x); reflexivity. Qed.
Lemma count_app l l' : count (l ++ l') = (count l + count l')%nat.
Proof. unfold count. rewrite filter_app, app_length. reflexivity. Qed.

Lemma one_index l :
  (exists i, (i < length l)%nat /\ p (nth i l d) = true) <-> (1 <= count l)%nat.
Proof.
  induction l as [|x l IH].
  - cbn. split; [intros (i & Hi & _); lia | lia].
  - rewrite count_cons. split.
    + intros (i & Hi & Hp). destruct i as [|i].
      * cbn in Hp. rewrite Hp. lia.
      * cbn in Hi, Hp. assert (1 <= count l)%nat by (apply IH; exists i; split; [lia|exact Hp]). lia.
    + intro H. destruct (p x) eqn:Px.
      * exists 0%nat. cbn. split; [lia|exact Px].
      * apply IH in H. destruct H as (i & Hi & Hp). exists (S i). cbn. split; [lia|exact Hp].
Qed.

Lemma two_indices l :
  (exists i j, (j < i)%nat /\ (i < length l)%nat /\ p (nth i l d) = true /\ p (nth j l d) = true)
  <-> (2 <= count l)%nat.
Proof.
  induction l as [|x l IH].
  - cbn. split; [intros (i & j & _ & Hi & _); lia | lia].
  - rewrite count_cons. split.
    + intros (i & j & Hji & Hi & Pi & Pj). destruct i as [|i]; [lia|].
      cbn in Hi, Pi. destruct j as [|j].
      * cbn in Pj. rewrite Pj.
        assert (1 <= count l)%nat by (apply one_index; exists i; split; [lia|exact Pi]). lia.
      * cbn in Pj.
        assert (2 <= count l)%nat by (apply IH; exists i, j; repeat split; try lia; assumption). lia.
    + intro H. destruct (le_lt_dec 2 (count l)) as [H2|H2].
      * apply IH in H2. destruct H2 as (i & j & Hji & Hi & Pi & Pj).
        exists (S i), (S j). cbn. repeat split; try lia; assumption.
      * destruct (p x) eqn:Px; [|lia].
        assert (H1 : (1 <= count l)%nat) by lia.
        apply one_index in H1. destruct H1 as (i & Hi & Pi).
        exists (S i), 0%nat. cbn. repeat split; try lia; assumption.
Qed.
End Count.

(** ** 2. The double loop *)
Definition same_as (k:N * list cmove) : N * list cmove -> bool := fun x => key_eqb x k.

Lemma threefold_none keys : threefold keys = None <-> keys = [].
Proof.
  unfold threefold. destruct keys as [|x l _] using rev_ind.
  - split; reflexivity.
  - rewrite rev_unit. split; [discriminate|]. intro H. destruct l; discriminate.
Qed.

(** the loop on a list [init ++ [lastk]] *)
Lemma threefold_snoc init lastk :
  threefold (init ++ [lastk]) = Some true <-> (2 <= count (same_as lastk) init)%nat.
Proof.
  unfold threefold. rewrite rev_unit. cbv zeta.
  rewrite app_length. cbn [length].
  replace (length init + 1 - 2)%nat with (length init - 1)%nat by lia.
  rewrite <- (two_indices (same_as lastk) (0%N, []) init).
  split.
  - intro H. injection H as H. apply existsb_exists in H. destruct H as (i & Hin & H).
    apply in_seq in Hin. apply andb_true_iff in H. destruct H as [Pi H].
    apply existsb_exists in H. destruct H as (j & Hjn & Pj). apply in_seq in Hjn.
    exists i, j. rewrite app_nth1 in Pi by lia. rewrite app_nth1 in Pj by lia.
    repeat split; try lia; assumption.
  - intros (i & j & Hji & Hi & Pi & Pj). f_equal. apply existsb_exists.
    exists i. split; [apply in_seq; lia|]. apply andb_true_iff. split.
    + rewrite app_nth1 by lia. exact Pi.
    + apply existsb_exists. exists j. split; [apply in_seq; lia|].
      rewrite app_nth1 by lia. exact Pj.
Qed.

Lemma threefold_snoc_false init lastk :
  threefold (init ++ [lastk]) = Some false <-> (count (same_as lastk) init < 2)%nat.
Proof.
  pose proof (threefold_snoc init lastk) as H.
  destruct (threefold (init ++ [lastk])) as [[|]|] eqn:E.
  - split; [discriminate|]. intro. assert (2 <= count (same_as lastk) init)%nat by (apply H; reflexivity). lia.
  - split; [|reflexivity]. intros _.
    destruct (le_lt_dec 2 (count (same_as lastk) init)) as [H2|H2]; [|exact H2].
    apply H in H2. discriminate.
  - apply threefold_none in E. destruct init; discriminate.
Qed.

(** *** [threefold_spec]: the scan answers [true] iff the last key occurs at least three
    times in the whole list (itself included), i.e. at least twice before the end. *)
Theorem threefold_spec keys :
  threefold keys = Some true <->
  exists init lastk, keys = init ++ [lastk] /\ (2 <= count (same_as lastk) init)%nat.
Proof.
  split.
  - intro H. destruct keys as [|x l _] using rev_ind.
    + discriminate.
    + exists l, x. split; [reflexivity|]. apply threefold_snoc. exact H.
  - intros (init & lastk & -> & H). apply threefold_snoc. exact H.
Qed.

Theorem threefold_spec_total keys lastk :
  last keys lastk = lastk -> keys <> [] ->
  threefold keys = Some (3 <=? count (same_as lastk) keys)%nat.
Proof.
  intros Hl Hne. destruct keys as [|x l _] using rev_ind; [congruence|].
  rewrite last_last in Hl. subst x.
  rewrite count_app, (count_cons (same_as lastk) lastk []).
  unfold same_as at 2. rewrite key_eqb_refl. change (count (same_as lastk) []) with 0%nat.
  rewrite Nat.add_0_r.
  destruct (3 <=? count (same_as lastk) l + 1)%nat eqn:E.
  - apply Nat.leb_le in E. apply threefold_snoc. lia.
  - apply Nat.leb_gt in E. apply threefold_snoc_false. lia.
Qed.

(** in terms of plain equality of keys *)
Lemma count_same_as_occ k l :
  count (same_as k) l = count_occ (fun a b : N * list cmove =>
      match bool_dec (key_eqb a b) true with
      | left e => left (proj1 (key_eqb_eq a b) e)
      | right n => right (fun e => n (proj2 (key_eqb_eq a b) e)) end) l k.
Proof.
  induction l as [|x l IH]; [reflexivity|].
  rewrite count_cons. cbn [count_occ]. unfold same_as at 1.
  destruct (bool_dec (key_eqb x k) true) as [e|n].
  - rewrite e, IH. reflexivity.
  - destruct (key_eqb x k); [congruence|]. rewrite IH. reflexivity.
Qed.

Lemma count_same_as_ge k l n :
  (n <= count (same_as k) l)%nat <->
  exists idx, length idx = n /\ NoDup idx /\ forall i, In i idx -> (i < length l)%nat /\ nth i l (0%N,[]) = k.
Proof.
  revert n. induction l as [|x l IH]; intro n.
  - cbn. split.
    + intro H. exists []. assert (n = 0)%nat by lia. subst.
      split; [reflexivity|]. split; [constructor|]. intros i [].
    + intros (idx & Hl & _ & H). destruct idx as [|i idx]; [cbn in Hl; lia|].
      destruct (H i (or_introl eq_refl)); lia.
  - rewrite count_cons. unfold same_as at 1. split.
    + intro H. destruct (key_eqb x k) eqn:E.
      * apply key_eqb_eq in E. subst x. destruct n as [|n].
        { exists []. split; [reflexivity|]. split; [constructor|]. intros i []. }
        assert (H' : (n <= count (same_as k) l)%nat) by lia.
        apply IH in H'. destruct H' as (idx & Hl & Hnd & Hi).
        exists (0%nat :: map S idx). cbn [length]. rewrite map_length.
        split; [lia|]. split.
        -- constructor.
           ++ intro Hin. apply in_map_iff in Hin. destruct Hin as (j & Hj & _). discriminate.
           ++ apply Injective_map_NoDup; [intros a b Hab; lia|exact Hnd].
        -- intros i [<-|Hin]; [cbn; split; [lia|reflexivity]|].
           apply in_map_iff in Hin. destruct Hin as (j & <- & Hj). cbn. apply Hi in Hj.
           split; [lia|tauto].
      * assert (H' : (n <= count (same_as k) l)%nat) by lia.
        apply IH in H'. destruct H' as (idx & Hl & Hnd & Hi).
        exists (map S idx). rewrite map_length.
        split; [exact Hl|]. split.
        -- apply Injective_map_NoDup; [intros a b Hab; lia|exact Hnd].
        -- intros i Hin. apply in_map_iff in Hin. destruct Hin as (j & <- & Hj). cbn.
           apply Hi in Hj. split; [lia|tauto].
    + intros (idx & Hl & Hnd & Hi).
      (* split the index set into 0 and the successors *)
      set (idx' := map pred (filter (fun i => negb (Nat.eqb i 0)) idx)).
      assert (Hidx' : forall i, In i idx' -> (i < length l)%nat /\ nth i l (0%N,[]) = k).
      { intros i Hin. unfold idx' in Hin. apply in_map_iff in Hin. destruct Hin as (j & <- & Hj).
        apply filter_In in Hj. destruct Hj as [Hj Hnz]. apply negb_true_iff, Nat.eqb_neq in Hnz.
        destruct j as [|j]; [congruence|]. apply Hi in Hj. cbn in Hj |- *. split; [lia|tauto]. }
      assert (Hnd' : NoDup idx').
      { unfold idx'. clear - Hnd. induction idx as [|i idx IH]; [constructor|].
        inversion Hnd as [|? ? Hni Hnd']; subst. cbn [filter].
        destruct (Nat.eqb i 0) eqn:E; cbn [negb]; [apply IH; exact Hnd'|].
        cbn [map]. constructor; [|apply IH; exact Hnd'].
        intro Hin. apply in_map_iff in Hin. destruct Hin as (j & Hj & Hjin).
        apply filter_In in Hjin. destruct Hjin as [Hjin Hnz].
        apply negb_true_iff, Nat.eqb_neq in Hnz. apply Nat.eqb_neq in E.
        assert (j = i) by lia. subst j. contradiction. }
      assert (Hlen : (length idx <= (if in_dec Nat.eq_dec 0%nat idx then 1 else 0) + length idx')%nat).
      { unfold idx'. rewrite map_length. clear - Hnd. induction idx as [|i idx IH]; [cbn; lia|].
        inversion Hnd as [|? ? Hni Hnd']; subst. specialize (IH Hnd'). cbn [filter length].
        destruct i as [|i].
        - cbn [Nat.eqb negb]. destruct (in_dec Nat.eq_dec 0%nat idx) as [Hin|_]; [contradiction|].
          destruct (in_dec Nat.eq_dec 0%nat (0%nat :: idx)) as [_|Hn]; [lia|].
          exfalso. apply Hn. left. reflexivity.
        - cbn [Nat.eqb negb length].
          destruct (in_dec Nat.eq_dec 0%nat idx) as [Hin|Hn];
          destruct (in_dec Nat.eq_dec 0%nat (S i :: idx)) as [Hin'|Hn'].
          + lia.
          + exfalso. apply Hn'. right. exact Hin.
          + destruct Hin' as [Hd|Hin']; [discriminate|contradiction].
          + lia. }
      assert (Hc : (length idx' <= count (same_as k) l)%nat).
      { apply IH. exists idx'. repeat split; try assumption; apply Hidx'; assumption. }
      destruct (in_dec Nat.eq_dec 0%nat idx) as [H0|H0].
      * apply Hi in H0. destruct H0 as [_ H0]. cbn in H0. subst x. rewrite key_eqb_refl. lia.
      * destruct (key_eqb x k); lia.
Qed.
