open Common
let dispatch (kind:string) (line:string) : unit =
  let is c = String.length line > 2 && line.[0] = c && line.[1] = ' ' in
  match kind with
  | "iter" -> if is 'I' then Iterchk.check_iter line
  | "fengen" -> Textchk.fengen line
  | "fen" -> if is 'F' then Textchk.check_fen_line line
  | "builder" -> if is 'B' then Textchk.check_builder_line line
  | "fenfuzz" -> if is 'Z' then Textchk.check_fuzz_line line
  | "sangen" -> Textchk.sangen line
  | "san" -> if is 'S' then Textchk.check_san_line ~generated:true line
  | "sanfuzz" -> if is 'S' then Textchk.check_san_line ~generated:false line
  | "uci" -> if is 'U' || is 'Q' || is 'V' then Textchk.check_uci_line line
  | "game" -> if is 'G' then Gamechk.check_game line
  | "fns" -> Miscchk.check_fns_line line
  | "extra" -> Extrachk.check_extra line
  | "extra2" -> Extrachk.check_extra2 line
  | "magic" -> Miscchk.check_magic_line line
  | "pawnfns" -> if is 'W' then Miscchk.check_pawn_line line
  | "cache" -> if is 'C' then Miscchk.check_cache_line line
  | "bits" -> if is 'T' then Miscchk.check_bits_line line
  | "zob" -> if is 'H' then Miscchk.check_zob_line line
  | _ -> mismatch "driver" ("unknown stream " ^ kind)
