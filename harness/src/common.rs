// Shared helpers: PRNG, neutral position encoding, position generators.
use chess::*;
use std::str::FromStr;

pub struct Rng(pub u64);
impl Rng {
    pub fn new(seed: u64) -> Rng {
        let mut r = Rng(seed.wrapping_mul(0x9E3779B97F4A7C15) ^ 0xD1B54A32D192ED03);
        if r.0 == 0 { r.0 = 88172645463325252; }
        for _ in 0..8 { r.next(); }
        r
    }
    pub fn next(&mut self) -> u64 {
        self.0 ^= self.0 << 13; self.0 ^= self.0 >> 7; self.0 ^= self.0 << 17;
        self.0.wrapping_mul(0x2545F4914F6CDD1D)
    }
    pub fn below(&mut self, n: u64) -> u64 { if n == 0 { 0 } else { self.next() % n } }
    pub fn chance(&mut self, num: u64, den: u64) -> bool { self.below(den) < num }
    pub fn pick<'a, T>(&mut self, v: &'a [T]) -> &'a T { &v[self.below(v.len() as u64) as usize] }
}

pub fn seed_from_env() -> u64 {
    std::env::var("VERIF_SEED").ok().and_then(|s| s.parse::<u64>().ok()).unwrap_or(1)
}

pub fn piece_char(p: Piece, c: Color) -> char {
    let ch = match p { Piece::Pawn=>'p', Piece::Knight=>'n', Piece::Bishop=>'b', Piece::Rook=>'r', Piece::Queen=>'q', Piece::King=>'k' };
    if c == Color::White { ch.to_ascii_uppercase() } else { ch }
}
pub fn char_piece(ch: char) -> Option<(Piece, Color)> {
    let c = if ch.is_ascii_uppercase() { Color::White } else { Color::Black };
    let p = match ch.to_ascii_lowercase() { 'p'=>Piece::Pawn,'n'=>Piece::Knight,'b'=>Piece::Bishop,'r'=>Piece::Rook,'q'=>Piece::Queen,'k'=>Piece::King,_=>return None };
    Some((p, c))
}

/// Neutral encoding of a position, read through piece_on / color_on (not through the
/// library's FEN code): 64 placement chars, side, white rights index, black rights index,
/// stored en-passant square index or '-'.
pub fn enc(b: &Board) -> String {
    let mut s = String::with_capacity(80);
    for sq in ALL_SQUARES.iter() {
        s.push(match (b.piece_on(*sq), b.color_on(*sq)) { (Some(p), Some(c)) => piece_char(p, c), (None, None) => '.', _ => '?' });
    }
    s.push(' '); s.push(if b.side_to_move() == Color::White { 'w' } else { 'b' });
    s.push_str(&format!(" {} {} ", b.castle_rights(Color::White).to_index(), b.castle_rights(Color::Black).to_index()));
    match b.en_passant() { None => s.push('-'), Some(sq) => s.push_str(&format!("{}", sq.to_index())) }
    s
}
/// All the observable fields of a board besides the neutral encoding.
pub fn obs(b: &Board) -> String {
    format!("ch={} pin={} pcs={},{},{},{},{},{} col={},{} comb={} hash={}",
        b.checkers().0, b.pinned().0,
        b.pieces(Piece::Pawn).0, b.pieces(Piece::Knight).0, b.pieces(Piece::Bishop).0,
        b.pieces(Piece::Rook).0, b.pieces(Piece::Queen).0, b.pieces(Piece::King).0,
        b.color_combined(Color::White).0, b.color_combined(Color::Black).0, b.combined().0, b.get_hash())
}
pub fn promo_code(p: Option<Piece>) -> u8 {
    match p { None=>0, Some(Piece::Queen)=>1, Some(Piece::Knight)=>2, Some(Piece::Rook)=>3, Some(Piece::Bishop)=>4, Some(Piece::Pawn)=>5, Some(Piece::King)=>6 }
}
pub fn code_promo(c: u8) -> Option<Piece> {
    match c { 1=>Some(Piece::Queen), 2=>Some(Piece::Knight), 3=>Some(Piece::Rook), 4=>Some(Piece::Bishop), 5=>Some(Piece::Pawn), 6=>Some(Piece::King), _=>None }
}
pub fn mv_str(m: &ChessMove) -> String {
    format!("{},{},{}", m.get_source().to_index(), m.get_dest().to_index(), promo_code(m.get_promotion()))
}
pub fn sq(i: usize) -> Square { ALL_SQUARES[i & 63] }

/// Build a board from a neutral encoding through BoardBuilder (no FEN involved).
pub fn builder_from_enc(e: &str) -> Option<BoardBuilder> {
    let parts: Vec<&str> = e.split(' ').collect();
    if parts.len() != 5 || parts[0].chars().count() != 64 { return None; }
    let mut bb = BoardBuilder::new();
    for (i, ch) in parts[0].chars().enumerate() {
        if let Some((p, c)) = char_piece(ch) { bb.piece(sq(i), p, c); }
    }
    bb.side_to_move(if parts[1] == "w" { Color::White } else { Color::Black });
    bb.castle_rights(Color::White, CastleRights::from_index(parts[2].parse().ok()?));
    bb.castle_rights(Color::Black, CastleRights::from_index(parts[3].parse().ok()?));
    if parts[4] != "-" { let s: usize = parts[4].parse().ok()?; bb.en_passant(Some(sq(s).get_file())); }
    Some(bb)
}

pub const ROOTS: &[&str] = &[
    "rnbqkbnr/pppppppp/8/8/8/8/PPPPPPPP/RNBQKBNR w KQkq - 0 1",
    "r3k2r/p1ppqpb1/bn2pnp1/3PN3/1p2P3/2N2Q1p/PPPBBPPP/R3K2R w KQkq - 0 1",
    "8/2p5/3p4/KP5r/1R3p1k/8/4P1P1/8 w - - 0 1",
    "r3k2r/Pppp1ppp/1b3nbN/nP6/BBP1P3/q4N2/Pp1P2PP/R2Q1RK1 w kq - 0 1",
    "rnbq1k1r/pp1Pbppp/2p5/8/2B5/8/PPP1NnPP/RNBQK2R w KQ - 1 8",
    "r4rk1/1pp1qppp/p1np1n2/2b1p1B1/2B1P1b1/P1NP1N2/1PP1QPPP/R4RK1 w - - 0 10",
    "8/8/1k6/2b5/2pP4/8/5K2/8 b - d3 0 1", "8/5k2/8/2Pp4/2B5/1K6/8/8 w - d6 0 1",
    "8/5bk1/8/2Pp4/8/1K6/8/8 w - d6 0 1", "8/8/1k6/8/2pP4/8/5BK1/8 b - d3 0 1",
    "5k2/8/8/8/8/8/8/4K2R w K - 0 1", "4k2r/8/8/8/8/8/8/5K2 b k - 0 1",
    "3k4/8/8/8/8/8/8/R3K3 w Q - 0 1", "r3k3/8/8/8/8/8/8/3K4 b q - 0 1",
    "r3k2r/1b4bq/8/8/8/8/7B/R3K2R w KQkq - 0 1", "r3k2r/7b/8/8/8/8/1B4BQ/R3K2R b KQkq - 0 1",
    "r3k2r/8/3Q4/8/8/5q2/8/R3K2R b KQkq - 0 1", "r3k2r/8/5Q2/8/8/3q4/8/R3K2R w KQkq - 0 1",
    "2K2r2/4P3/8/8/8/8/8/3k4 w - - 0 1", "3K4/8/8/8/8/8/4p3/2k2R2 b - - 0 1",
    "8/8/1P2K3/8/2n5/1q6/8/5k2 b - - 0 1", "5K2/8/1Q6/2N5/8/1p2k3/8/8 w - - 0 1",
    "4k3/1P6/8/8/8/8/K7/8 w - - 0 1", "8/k7/8/8/8/8/1p6/4K3 b - - 0 1",
    "8/P1k5/K7/8/8/8/8/8 w - - 0 1", "8/8/8/8/8/k7/p1K5/8 b - - 0 1",
    "K1k5/8/P7/8/8/8/8/8 w - - 0 1", "8/8/8/8/8/p7/8/k1K5 b - - 0 1",
    "8/k1P5/8/1K6/8/8/8/8 w - - 0 1", "8/8/8/8/1k6/8/K1p5/8 b - - 0 1",
    "8/8/2k5/5q2/5n2/8/5K2/8 b - - 0 1", "8/5k2/8/5N2/5Q2/2K5/8/8 w - - 0 1",
    "4k3/pppppppp/8/8/8/8/PPPPPPPP/4K3 w - - 0 1",
    "8/8/8/K2pP2r/8/8/8/7k w - d6 0 1", "k7/8/8/8/2pP4/8/8/3K2B1 b - d3 0 1",
    "7k/8/8/8/R2pP2K/8/8/8 b - e3 0 1", "8/8/8/8/k2Pp2R/8/8/7K b - d3 0 1",
    "4k3/8/8/8/8/8/8/R3K1N1 w Q - 0 1", "rnbqkb1r/pp1p1ppp/2p5/4P3/2B5/8/PPP1NnPP/RNBQK2R w KQkq - 0 6",
    "n1n5/PPPk4/8/8/8/8/4Kppp/5N1N b - - 0 1", "4k3/8/8/3pP3/8/8/8/4K2R w K d6 0 1",
    "r3k2r/pppq1ppp/2n1bn2/2bpp3/2BPP3/2N1BN2/PPPQ1PPP/R3K2R w KQkq - 0 8",
    "6k1/5ppp/8/8/8/8/5PPP/3R2K1 w - - 0 1", "7k/5Q2/6K1/8/8/8/8/8 b - - 0 1", "7k/8/5KQ1/8/8/8/8/8 w - - 0 1",
];

pub fn roots() -> Vec<Board> { ROOTS.iter().filter_map(|f| Board::from_str(f).ok()).collect() }

/// One biased random legal move: prefers captures, pawn moves, checks, castling, promotions.
pub fn biased_move(b: &Board, rng: &mut Rng) -> Option<ChessMove> {
    let moves: Vec<ChessMove> = MoveGen::new_legal(b).collect();
    if moves.is_empty() { return None; }
    let mode = rng.below(8);
    let pref: Vec<ChessMove> = match mode {
        0 => moves.iter().cloned().filter(|m| b.piece_on(m.get_dest()).is_some()).collect(),
        1 => moves.iter().cloned().filter(|m| b.piece_on(m.get_source()) == Some(Piece::Pawn)).collect(),
        2 => moves.iter().cloned().filter(|m| *b.make_move_new(*m).checkers() != EMPTY).collect(),
        3 => moves.iter().cloned().filter(|m| b.piece_on(m.get_source()) == Some(Piece::King) || m.get_promotion().is_some()).collect(),
        _ => vec![],
    };
    if !pref.is_empty() { Some(*rng.pick(&pref)) } else { Some(*rng.pick(&moves)) }
}

/// Random sparse set-up through the builder (any accepted board). Returns None if rejected.
pub fn random_setup(rng: &mut Rng) -> Option<Board> {
    use std::convert::TryFrom;
    let mut bb = BoardBuilder::new();
    let mut used = [false; 64];
    let mut place = |bb: &mut BoardBuilder, p: Piece, c: Color, rng: &mut Rng| {
        for _ in 0..20 {
            let s = rng.below(64) as usize;
            if used[s] { continue; }
            if p == Piece::Pawn && (s < 8 || s >= 56) { continue; }
            used[s] = true; bb.piece(sq(s), p, c); return;
        }
    };
    place(&mut bb, Piece::King, Color::White, rng);
    place(&mut bb, Piece::King, Color::Black, rng);
    let n = rng.below(9);
    for _ in 0..n {
        let p = match rng.below(8) { 0|1|2 => Piece::Pawn, 3 => Piece::Knight, 4 => Piece::Bishop, 5 => Piece::Rook, _ => Piece::Queen };
        let c = if rng.chance(1, 2) { Color::White } else { Color::Black };
        place(&mut bb, p, c, rng);
    }
    bb.side_to_move(if rng.chance(1, 2) { Color::White } else { Color::Black });
    Board::try_from(&bb).ok()
}

/// The stream of test positions: playouts from the roots, with occasional null moves when
/// `nulls` is set, plus random sparse set-ups.  Calls `f` on every position.
pub fn for_positions<F: FnMut(&Board, &str)>(n_games: u64, max_plies: usize, nulls: bool, rng: &mut Rng, mut f: F) {
    let rs = roots();
    for g in 0..n_games {
        if g % 5 == 4 {
            if let Some(b) = random_setup(rng) {
                let mut b = b;
                for _ in 0..12 { f(&b, "setup"); match biased_move(&b, rng) { Some(m) => b = b.make_move_new(m), None => break } }
            }
            continue;
        }
        let mut b = rs[(g as usize / 1) % rs.len()];
        if g as usize >= rs.len() { b = *rng.pick(&rs); }
        for _ in 0..max_plies {
            f(&b, "playout");
            if nulls && rng.chance(1, 12) { if let Some(nb) = b.null_move() { b = nb; continue; } }
            match biased_move(&b, rng) { Some(m) => b = b.make_move_new(m), None => break }
        }
    }
}
