(** * Proofs.CanonScratch — C03 for boards built from scratch: the occupancy words are
    consistent, and (for a valid position that the board abstracts back to) the check and
    pin caches stored in the board are the specification's checkers and pinned men. *)
From Coq Require Import Lia ZifyBool ZifyN ZifyNat.
From Chess Require Import Base.Bits Spec.Geometry Spec.Rules Model.Board.
From Chess Require Import Proofs.BitsFacts Proofs.TablesLib Proofs.AbsBoard Proofs.CanonAttack
                          Proofs.CanonCheckers Proofs.CanonPinned Proofs.NullMove
                          Proofs.CanonNullMove.
Open Scope N_scope.

(** every from-scratch board has consistent occupancy words, whatever the position *)
Theorem from_scratch_occ p : same_occ (from_scratch p) (place_all (placement p)).
Proof.
  rewrite from_scratch_raw.
  destruct (update_pin_info_same_core (raw p)) as [Ho _].
  destruct (raw_of_builder_fields (builder_of_pos p)) as [Ho' _].
  exact (same_occ_trans _ _ _ Ho Ho').
Qed.

Theorem from_scratch_consistent p : Consistent (from_scratch p).
Proof.
  apply (consistent_occ (place_all (placement p))).
  - apply same_occ_sym, from_scratch_occ.
  - apply place_all_consistent.
Qed.

(** the placement read back from a from-scratch board is the given one *)
Theorem from_scratch_at p s : s < 64 -> at_ (abs_board (from_scratch p)) s = at_ p s.
Proof.
  intro Hs. unfold at_ at 1. rewrite (placement_occ _ _ (from_scratch_occ p)).
  exact (at_place_all (placement p) s Hs).
Qed.

Section Scratch.
Variable p : pos.
Hypothesis Hv : pos_valid p = true.
Hypothesis Hrt : abs_board (from_scratch p) = p.

Lemma scratch_facts :
  Canonical (from_scratch p) /\ Consistent (from_scratch p) /\ stm (from_scratch p) = turn p /\
  popcnt (N.land (pK (from_scratch p)) (color_combined (from_scratch p) (stm (from_scratch p)))) = 1 /\
  kings_apart (from_scratch p).
Proof.
  pose proof (from_scratch_canonical p Hrt) as HCan.
  pose proof (from_scratch_consistent p) as HC.
  destruct (pos_valid_facts p Hv) as [KW [KB Hnc]].
  assert (Hstm : stm (from_scratch p) = turn p) by (rewrite <- Hrt at 2; reflexivity).
  assert (Hk : forall c, popcnt (N.land (pK (from_scratch p)) (color_combined (from_scratch p) c)) = 1).
  { intro c. rewrite <- (kings_abs _ c HC), Hrt. destruct c; assumption. }
  split; [exact HCan|]. split; [exact HC|]. split; [exact Hstm|]. split; [apply Hk|].
  apply not_in_check_kings_apart; try exact HC; try apply Hk. rewrite Hrt, Hstm. exact Hnc.
Qed.

(** the stored check cache is the set of checkers *)
Theorem from_scratch_checkers s : s < 64 ->
  (N.testbit (checkers (from_scratch p)) s = true <-> In s (checkers_of p)).
Proof.
  intro Hs. destruct scratch_facts as [HCan [HC [_ [Hk Hka]]]].
  pose proof (checkers_canon (from_scratch p) HC Hk s Hka Hs) as H.
  rewrite Hrt, (canonical_update _ HCan) in H. exact H.
Qed.

(** the stored pin cache, restricted to the mover's men, is the set of pinned men *)
Theorem from_scratch_pinned s : s < 64 ->
  (N.testbit (N.land (pinned (from_scratch p)) (color_combined (from_scratch p) (turn p))) s = true
   <-> In s (pinned_of p)).
Proof.
  intro Hs. destruct scratch_facts as [HCan [HC [Hstm [Hk _]]]].
  pose proof (pinned_canon (from_scratch p) HC Hk s Hs) as H.
  rewrite Hrt, (canonical_update _ HCan), Hstm in H. exact H.
Qed.

Theorem from_scratch_in_check :
  checkers (from_scratch p) <> 0 <-> in_check p (turn p) = true.
Proof.
  destruct scratch_facts as [HCan [HC [Hstm [Hk Hka]]]].
  pose proof (canonical_checkers_in_check _ HCan Hk Hka) as H. rewrite Hrt, Hstm in H. exact H.
Qed.
End Scratch.

Example from_scratch_ex :
  pos_valid pinpos = true /\ abs_board (from_scratch pinpos) = pinpos /\
  N.land (pinned (from_scratch pinpos)) (color_combined (from_scratch pinpos) (turn pinpos)) = bit 12 /\
  pinned_of pinpos = [12].
Proof. repeat split; vm_compute; reflexivity. Qed.
