(** * Proofs.IterBits — local bitboard facts needed by the move-iterator proofs (C14).
    Self-contained (depends on [Base.Bits] only). *)
From Coq Require Import NArith List Bool Lia ZifyBool ZifyN ZifyNat Sorted Permutation.
From Chess Require Import Base.Bits.
Import ListNotations.
Open Scope N_scope.

(** "all set bits are below 64" — equivalent to [b < 2^64] but closed under [land]/[ldiff]. *)
Definition bounded (b:N) : Prop := forall s, N.testbit b s = true -> s < 64.

Lemma testbit_bit s t : N.testbit (bit s) t = (s =? t).
Proof.
  unfold bit. rewrite N.shiftl_1_l. destruct (N.eqb_spec s t) as [->|Hne].
  - apply N.pow2_bits_true.
  - apply N.pow2_bits_false; auto.
Qed.

Lemma pow64_ne0 : 2^64 <> 0.
Proof. apply N.pow_nonzero. discriminate. Qed.

Lemma lt_bounded b : b < 2^64 -> bounded b.
Proof.
  intros H s Hs. destruct (N.lt_ge_cases s 64) as [Hlt|Hge]; auto.
  rewrite <- (N.mod_small b (2^64)) in Hs by auto.
  rewrite N.mod_pow2_bits_high in Hs by auto. discriminate.
Qed.

Lemma bounded_lt b : bounded b -> b < 2^64.
Proof.
  intros H. assert (E : b = b mod 2^64).
  { apply N.bits_inj; intro k. destruct (N.lt_ge_cases k 64) as [Hlt|Hge].
    - rewrite N.mod_pow2_bits_low; auto.
    - rewrite N.mod_pow2_bits_high by auto.
      destruct (N.testbit b k) eqn:Ek; auto. apply H in Ek. lia. }
  rewrite E. apply N.mod_upper_bound. apply pow64_ne0.
Qed.

Lemma bounded_0 : bounded 0.
Proof. intros s Hs. rewrite N.bits_0 in Hs. discriminate. Qed.

Lemma bounded_land a m : bounded a -> bounded (N.land a m).
Proof. intros H s Hs. rewrite N.land_spec in Hs. apply andb_true_iff in Hs. apply H, Hs. Qed.

Lemma bounded_ldiff a m : bounded a -> bounded (N.ldiff a m).
Proof. intros H s Hs. rewrite N.ldiff_spec in Hs. apply andb_true_iff in Hs. apply H, Hs. Qed.

Lemma bounded_lxor_bit a d : bounded a -> N.testbit a d = true -> bounded (N.lxor a (bit d)).
Proof.
  intros H Hd s Hs. rewrite N.lxor_spec, testbit_bit in Hs.
  destruct (N.eqb_spec d s) as [->|Hne].
  - apply H, Hd.
  - rewrite xorb_false_r in Hs. apply H, Hs.
Qed.

Lemma M64_ones : M64 = N.ones 64.
Proof. reflexivity. Qed.

Lemma testbit_M64 s : N.testbit M64 s = (s <? 64).
Proof.
  rewrite M64_ones. destruct (N.ltb_spec s 64) as [Hlt|Hge].
  - apply N.ones_spec_low; auto.
  - apply N.ones_spec_high; auto.
Qed.

Lemma land_M64 b : bounded b -> N.land b M64 = b.
Proof.
  intros H. apply N.bits_inj; intro k. rewrite N.land_spec, testbit_M64.
  destruct (N.testbit b k) eqn:E; auto. apply H in E.
  cbn [andb]. apply N.ltb_lt, E.
Qed.

Lemma testbit_lnot64 r s : N.testbit (lnot64 r) s = xorb (N.testbit r s) (s <? 64).
Proof. unfold lnot64. rewrite N.lxor_spec, testbit_M64. reflexivity. Qed.

(** ** [squares_of] *)
Lemma testbit_xI q n : N.testbit (Npos q~1) (N.succ n) = N.testbit (Npos q) n.
Proof. change (Npos q~1) with (2 * Npos q + 1). apply N.testbit_odd_succ. lia. Qed.
Lemma testbit_xO q n : N.testbit (Npos q~0) (N.succ n) = N.testbit (Npos q) n.
Proof. change (Npos q~0) with (2 * Npos q). apply N.testbit_even_succ. lia. Qed.

Lemma in_pos_bits p : forall i s,
  In s (pos_bits p i) <-> i <= s /\ N.testbit (Npos p) (s - i) = true.
Proof.
  induction p as [q IH|q IH|]; intros i s; cbn [pos_bits In].
  - rewrite IH. split.
    + intros [->|[H1 H2]].
      * split; [lia|]. rewrite N.sub_diag. reflexivity.
      * split; [lia|]. replace (s - i) with (N.succ (s - N.succ i)) by lia.
        rewrite testbit_xI. exact H2.
    + intros [H1 H2]. destruct (N.eq_dec i s) as [He|Hne]; [left; exact He|right].
      split; [lia|]. replace (s - i) with (N.succ (s - N.succ i)) in H2 by lia.
      rewrite testbit_xI in H2. exact H2.
  - rewrite IH. split.
    + intros [H1 H2]. split; [lia|]. replace (s - i) with (N.succ (s - N.succ i)) by lia.
      rewrite testbit_xO. exact H2.
    + intros [H1 H2]. destruct (N.eq_dec i s) as [He|Hne].
      * subst s. rewrite N.sub_diag in H2. discriminate H2.
      * split; [lia|]. replace (s - i) with (N.succ (s - N.succ i)) in H2 by lia.
        rewrite testbit_xO in H2. exact H2.
  - split.
    + intros [->|[]]. split; [lia|]. rewrite N.sub_diag. reflexivity.
    + intros [H1 H2]. left. destruct (s - i) eqn:E; [lia|]. discriminate H2.
Qed.

Lemma pos_bits_sorted p : forall i, StronglySorted N.lt (pos_bits p i).
Proof.
  induction p as [q IH|q IH|]; intros i; cbn [pos_bits].
  - constructor; [apply IH|]. apply Forall_forall. intros x Hx.
    apply in_pos_bits in Hx. lia.
  - apply IH.
  - constructor; constructor.
Qed.

Lemma squares_of_spec b s : In s (squares_of b) <-> N.testbit b s = true.
Proof.
  destruct b as [|p]; cbn [squares_of].
  - rewrite N.bits_0. split; [intros []|discriminate].
  - rewrite in_pos_bits, N.sub_0_r. split; [intros [_ H]; exact H|intros H; split; [lia|exact H]].
Qed.

Lemma squares_of_sorted b : StronglySorted N.lt (squares_of b).
Proof. destruct b as [|p]; cbn [squares_of]; [constructor|apply pos_bits_sorted]. Qed.

Lemma squares_of_lt64 b s : bounded b -> In s (squares_of b) -> s < 64.
Proof. intros H Hs. apply H, squares_of_spec, Hs. Qed.

Lemma ssorted_ext : forall l1 l2 : list N,
  StronglySorted N.lt l1 -> StronglySorted N.lt l2 ->
  (forall x, In x l1 <-> In x l2) -> l1 = l2.
Proof.
  induction l1 as [|a l1 IH]; intros [|b l2] S1 S2 H.
  - reflexivity.
  - exfalso. apply (H b). left; reflexivity.
  - exfalso. apply (H a). left; reflexivity.
  - inversion S1 as [|? ? S1' F1]; subst. inversion S2 as [|? ? S2' F2]; subst.
    rewrite Forall_forall in F1, F2.
    assert (Eab : a = b).
    { destruct (proj1 (H a) (or_introl eq_refl)) as [E|Hin]; [auto|].
      destruct (proj2 (H b) (or_introl eq_refl)) as [E|Hin']; [auto|].
      apply F2 in Hin. apply F1 in Hin'. lia. }
    subst b. f_equal. apply IH; auto.
    intros x. split; intros Hx.
    + destruct (proj1 (H x) (or_intror Hx)) as [E|Hin]; auto.
      apply F1 in Hx. lia.
    + destruct (proj2 (H x) (or_intror Hx)) as [E|Hin]; auto.
      apply F2 in Hx. lia.
Qed.

Lemma ssorted_filter (P:N->bool) : forall l, StronglySorted N.lt l -> StronglySorted N.lt (filter P l).
Proof.
  induction l as [|a l IH]; intros S; cbn [filter]; [constructor|].
  inversion S as [|? ? S' F]; subst. destruct (P a); auto.
  constructor; auto. rewrite Forall_forall in *. intros x Hx. apply filter_In in Hx. apply F, Hx.
Qed.

(** the general "sub-bitboard" lemma: covers [land b m], [ldiff b m], [land b (lnot64 m)] *)
Lemma squares_of_filter b b' (P:N->bool) :
  (forall s, N.testbit b' s = N.testbit b s && P s) -> squares_of b' = filter P (squares_of b).
Proof.
  intros H. apply ssorted_ext.
  - apply squares_of_sorted.
  - apply ssorted_filter, squares_of_sorted.
  - intros x. rewrite filter_In, !squares_of_spec, H, andb_true_iff. reflexivity.
Qed.

Lemma squares_of_land b m : squares_of (N.land b m) = filter (N.testbit m) (squares_of b).
Proof. apply squares_of_filter. intros s. apply N.land_spec. Qed.

Lemma squares_of_ldiff b m :
  squares_of (N.ldiff b m) = filter (fun s => negb (N.testbit m s)) (squares_of b).
Proof. apply squares_of_filter. intros s. apply N.ldiff_spec. Qed.

Lemma squares_of_land_lnot64 b r : bounded b ->
  squares_of (N.land b (lnot64 r)) = filter (fun s => negb (N.testbit r s)) (squares_of b).
Proof.
  intros Hb. apply squares_of_filter. intros s. rewrite N.land_spec, testbit_lnot64.
  destruct (N.testbit b s) eqn:E; auto. apply Hb in E.
  apply N.ltb_lt in E. rewrite E. cbn [andb]. apply xorb_true_r.
Qed.

Lemma squares_of_nil b : squares_of b = [] <-> b = 0.
Proof.
  split; [|intros ->; reflexivity]. intros H. apply N.bits_inj; intro k. rewrite N.bits_0.
  destruct (N.testbit b k) eqn:E; auto. apply squares_of_spec in E. rewrite H in E. destruct E.
Qed.

Lemma pos_bits_hd p : forall i, exists t, pos_bits p i = (i + ctz_pos p) :: t.
Proof.
  induction p as [q IH|q IH|]; intros i; cbn [pos_bits ctz_pos].
  - eexists. rewrite N.add_0_r. reflexivity.
  - destruct (IH (N.succ i)) as [t Ht]. exists t. rewrite Ht. f_equal. lia.
  - eexists. rewrite N.add_0_r. reflexivity.
Qed.

Lemma land63_small x : x < 64 -> N.land x 63 = x.
Proof. intros H. change 63 with (N.ones 6). rewrite N.land_ones. apply N.mod_small. exact H. Qed.

(** [to_square b] is the head of [squares_of b]; clearing it leaves the tail *)
Lemma squares_of_pop b : b <> 0 -> bounded b ->
  exists ds, squares_of b = to_square b :: ds /\ squares_of (N.lxor b (bit (to_square b))) = ds.
Proof.
  intros Hnz Hb. destruct b as [|p]; [congruence|].
  destruct (pos_bits_hd p 0) as [t Ht]. rewrite N.add_0_l in Ht.
  assert (Hsq : squares_of (Npos p) = ctz_pos p :: t) by exact Ht.
  assert (Hin : In (ctz_pos p) (squares_of (Npos p))) by (rewrite Hsq; left; reflexivity).
  assert (Hts : to_square (Npos p) = ctz_pos p).
  { unfold to_square. cbn [trailing_zeros]. apply land63_small. eapply squares_of_lt64; eauto. }
  exists t. rewrite Hts. split; [exact Hsq|].
  pose proof (squares_of_sorted (Npos p)) as Hs. rewrite Hsq in Hs.
  inversion Hs as [|? ? Hs' F]; subst. rewrite Forall_forall in F.
  apply ssorted_ext; [apply squares_of_sorted|exact Hs'|].
  intros x. rewrite squares_of_spec, N.lxor_spec, testbit_bit. split.
  - intros Hx. destruct (N.eqb_spec (ctz_pos p) x) as [E|Hne].
    + apply squares_of_spec in Hin. rewrite <- E, Hin in Hx. discriminate Hx.
    + rewrite xorb_false_r in Hx. apply squares_of_spec in Hx. rewrite Hsq in Hx.
      destruct Hx as [E|Hx]; [congruence|exact Hx].
  - intros Hx. assert (Hlt := F _ Hx).
    destruct (N.eqb_spec (ctz_pos p) x) as [E|Hne]; [lia|].
    rewrite xorb_false_r. apply squares_of_spec. rewrite Hsq. right; exact Hx.
Qed.

Lemma popc_pos_length p : forall i, popc_pos p = N.of_nat (length (pos_bits p i)).
Proof.
  induction p as [q IH|q IH|]; intros i; cbn [pos_bits popc_pos length].
  - rewrite (IH (N.succ i)). lia.
  - apply IH.
  - reflexivity.
Qed.

Lemma popcnt_length b : popcnt b = N.of_nat (length (squares_of b)).
Proof. destruct b as [|p]; cbn [popcnt squares_of]; [reflexivity|apply popc_pos_length]. Qed.

Lemma squares_of_NoDup b : NoDup (squares_of b).
Proof.
  pose proof (squares_of_sorted b) as H. induction H as [|a l S IH F]; constructor; auto.
  intros Hin. rewrite Forall_forall in F. apply F in Hin. lia.
Qed.

(** bit identities used by [next] *)
Lemma land_lxor_bit a m d : N.testbit m d = true ->
  N.land (N.lxor a (bit d)) m = N.lxor (N.land a m) (bit d).
Proof.
  intros H. apply N.bits_inj; intro k.
  rewrite N.land_spec, !N.lxor_spec, N.land_spec, testbit_bit.
  destruct (N.eqb_spec d k) as [->|Hne].
  - rewrite H. destruct (N.testbit a k); reflexivity.
  - rewrite !xorb_false_r. reflexivity.
Qed.

Lemma ldiff_lxor_bit a m d : N.testbit m d = true ->
  N.ldiff (N.lxor a (bit d)) m = N.ldiff a m.
Proof.
  intros H. apply N.bits_inj; intro k.
  rewrite !N.ldiff_spec, N.lxor_spec, testbit_bit.
  destruct (N.eqb_spec d k) as [->|Hne].
  - rewrite H. cbn [negb]. rewrite !andb_false_r. reflexivity.
  - rewrite xorb_false_r. reflexivity.
Qed.

Lemma ldiff_dead a m : N.land a m = 0 -> N.ldiff a m = a.
Proof.
  intros H. apply N.bits_inj; intro k. rewrite N.ldiff_spec.
  assert (Hk : N.testbit (N.land a m) k = false) by (rewrite H; apply N.bits_0).
  rewrite N.land_spec in Hk. destruct (N.testbit a k), (N.testbit m k); auto; discriminate.
Qed.

(** at most 64 squares *)
Lemma all_sq_seq : all_sq = map N.of_nat (seq 0 64).
Proof. reflexivity. Qed.

Lemma in_all_sq x : x < 64 -> In x all_sq.
Proof.
  intros H. rewrite all_sq_seq. apply in_map_iff. exists (N.to_nat x). split; [apply N2Nat.id|].
  apply in_seq. lia.
Qed.

Lemma squares_of_length_le b : bounded b -> (length (squares_of b) <= 64)%nat.
Proof.
  intros H. change 64%nat with (length all_sq).
  apply NoDup_incl_length; [apply squares_of_NoDup|].
  intros x Hx. apply in_all_sq. eapply squares_of_lt64; eauto.
Qed.
