(** * Property C09b — the Zobrist piece keys use all 64 bits.
    The distinctness facts of C09 survive a key generator that fills fewer than 64 random bits per
    key (e.g. [next_u32()] for [next_u64()]); these do not: the 768 piece keys span GF(2)^64
    (so the hash is not confined to a subspace), 64 of them are a basis, and each 32-bit half of
    the keys alone is non-zero and separates them.  Everything is computed from [Gen.Zobrist.Z_PIECES]
    at compile time.  Lemmas: [Proofs/ZobristSpan.v].
    [key i := nthN Z_PIECES i 0], [xor_all l := fold_right N.lxor 0 l]. *)
From Coq Require Import NArith List.
From Chess Require Import Base.Bits Spec.Rules Gen.Zobrist Model.Board Proofs.ZobristSpan.
Import ListNotations.
Open Scope N_scope.

(** the two abbreviations, pinned *)
Check (eq_refl : key = fun i => nthN Z_PIECES i 0).
Check (eq_refl : xor_all = fun l => fold_right N.lxor 0 l).

(** ** span over GF(2) *)
Theorem C09b_piece_keys_span_bits : forall k, k < 64 ->
  exists idxs, (forall i, In i idxs -> i < 768) /\ NoDup idxs /\ xor_all (map key idxs) = bit k.
Proof. exact piece_keys_span_bits. Qed.
Check C09b_piece_keys_span_bits : forall k, k < 64 ->
  exists idxs, (forall i, In i idxs -> i < 768) /\ NoDup idxs /\ xor_all (map key idxs) = bit k.
Print Assumptions C09b_piece_keys_span_bits.

Theorem C09b_piece_keys_span_all : forall v, wf64 v ->
  exists idxs, (forall i, In i idxs -> i < 768) /\ xor_all (map key idxs) = v.
Proof. exact piece_keys_span_all. Qed.
Check C09b_piece_keys_span_all : forall v, wf64 v ->
  exists idxs, (forall i, In i idxs -> i < 768) /\ xor_all (map key idxs) = v.
Print Assumptions C09b_piece_keys_span_all.

(** toggling men (piece, square, colour) moves the hash of any board record by any 64-bit word *)
Theorem C09b_hash_difference_surjective : forall b v, wf64 v ->
  exists trs : list (ptype * N * color),
    (forall p s c, In (p, s, c) trs -> s < 64) /\
    get_hash (fold_right (fun '(p, s, c) acc => xor_piece acc p (bit s) c) b trs)
      = N.lxor (get_hash b) v.
Proof. exact hash_difference_surjective. Qed.
Check C09b_hash_difference_surjective : forall b v, wf64 v ->
  exists trs : list (ptype * N * color),
    (forall p s c, In (p, s, c) trs -> s < 64) /\
    get_hash (fold_right (fun '(p, s, c) acc => xor_piece acc p (bit s) c) b trs)
      = N.lxor (get_hash b) v.
Print Assumptions C09b_hash_difference_surjective.

(** ** rank 64: some 64 piece keys span every unit vector and are linearly independent
    (no non-empty duplicate-free selection of them xors to 0) *)
Theorem C09b_span_rank :
  exists J, length J = 64%nat /\ NoDup J /\ (forall i, In i J -> i < 768) /\
    (forall k, k < 64 ->
       exists idxs, incl idxs J /\ NoDup idxs /\ xor_all (map key idxs) = bit k) /\
    (forall T, T <> [] -> NoDup T -> incl T J -> xor_all (map key T) <> 0).
Proof. exact piece_keys_rank64. Qed.
Check C09b_span_rank :
  exists J, length J = 64%nat /\ NoDup J /\ (forall i, In i J -> i < 768) /\
    (forall k, k < 64 ->
       exists idxs, incl idxs J /\ NoDup idxs /\ xor_all (map key idxs) = bit k) /\
    (forall T, T <> [] -> NoDup T -> incl T J -> xor_all (map key T) <> 0).
Print Assumptions C09b_span_rank.

(** ** each 32-bit half of the piece keys is non-zero and separates them (complete sweeps) *)
Theorem C09b_piece_keys_upper_distinct : forall i j, i < 768 -> j < 768 -> i <> j ->
  N.shiftr (key i) 32 <> N.shiftr (key j) 32.
Proof. exact piece_keys_upper_distinct. Qed.
Check C09b_piece_keys_upper_distinct : forall i j, i < 768 -> j < 768 -> i <> j ->
  N.shiftr (key i) 32 <> N.shiftr (key j) 32.
Print Assumptions C09b_piece_keys_upper_distinct.

Theorem C09b_piece_keys_lower_distinct : forall i j, i < 768 -> j < 768 -> i <> j ->
  N.land (key i) 4294967295 <> N.land (key j) 4294967295.
Proof. exact piece_keys_lower_distinct. Qed.
Check C09b_piece_keys_lower_distinct : forall i j, i < 768 -> j < 768 -> i <> j ->
  N.land (key i) 4294967295 <> N.land (key j) 4294967295.
Print Assumptions C09b_piece_keys_lower_distinct.

Theorem C09b_piece_keys_upper_nonzero : forall i, i < 768 -> N.shiftr (key i) 32 <> 0.
Proof. exact piece_keys_upper_nonzero. Qed.
Check C09b_piece_keys_upper_nonzero : forall i, i < 768 -> N.shiftr (key i) 32 <> 0.
Print Assumptions C09b_piece_keys_upper_nonzero.

Theorem C09b_piece_keys_lower_nonzero : forall i, i < 768 -> N.land (key i) 4294967295 <> 0.
Proof. exact piece_keys_lower_nonzero. Qed.
Check C09b_piece_keys_lower_nonzero : forall i, i < 768 -> N.land (key i) 4294967295 <> 0.
Print Assumptions C09b_piece_keys_lower_nonzero.
