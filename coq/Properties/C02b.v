(** * Properties.C02b — property C02, model side: the library's move application
    ([Board::make_move_new], transcribed as [make_move_new] in [Model/Board.v]; the in-place copy
    [Board::make_move] is the same function, [Proofs/MakeMoveTwin.v]) refines the successor
    function [apply] of the rules ([Spec/Rules.v]) through the abstraction [abs_board].

    Hypotheses of the one-move theorems: the occupancy words of the board are consistent
    ([Consistent], [Proofs/AbsBoard.v]); the position the board shows is valid ([pos_valid]);
    the move is one of its legal moves; a stored en-passant square is on the board, on the
    fourth rank of the side that just moved.  No hypothesis on the cached [pinned]/[checkers].
    [bitsat b k] are the nine bits of square [k] in the nine words and [dec] decodes them.
    Proofs: [Proofs/StepModel.v] (the function as stages and toggles), [Proofs/StepClean.v],
    [Proofs/StepGeom.v] (finite sweeps), [Proofs/StepLink.v], [Proofs/StepMain.v]; caches and
    canonical boards: [Proofs/StepCache.v], [Proofs/StepCanon.v], [Proofs/StepMain2.v]. *)
From Chess Require Import Base.Bits Spec.Geometry Spec.Rules Model.Board.
From Chess Require Import Proofs.AbsBoard Proofs.NullMove Proofs.StepLink Proofs.StepHash Proofs.StepMain
  Proofs.StepCache Proofs.StepCanon Proofs.StepMain2 Proofs.StepExamples.
Open Scope N_scope.

(** G1: the [.unwrap()] on the moved piece cannot panic *)
Theorem C02b_step_some : forall b m,
  Consistent b -> pos_valid (abs_board b) = true -> In m (legal_moves (abs_board b)) ->
  (forall e, epsq b = Some e -> e < 64 /\ sq_rank e = fourth_rk (opp (stm b))) ->
  exists b', make_move_new b (src m) (dst m) (promo m) = Some b'.
Proof. exact main_some. Qed.
Check C02b_step_some : forall b m,
  Consistent b -> pos_valid (abs_board b) = true -> In m (legal_moves (abs_board b)) ->
  (forall e, epsq b = Some e -> e < 64 /\ sq_rank e = fourth_rk (opp (stm b))) ->
  exists b', make_move_new b (src m) (dst m) (promo m) = Some b'.
Print Assumptions C02b_step_some.

(** G2: every square of the result holds what the rules prescribe; the words stay consistent *)
Theorem C02b_step_squares : forall b m,
  Consistent b -> pos_valid (abs_board b) = true -> In m (legal_moves (abs_board b)) ->
  (forall e, epsq b = Some e -> e < 64 /\ sq_rank e = fourth_rk (opp (stm b))) ->
  forall b', make_move_new b (src m) (dst m) (promo m) = Some b' ->
  (forall k, k < 64 -> dec (bitsat b' k) = at_ (apply (abs_board b) m) k) /\
  (forall k, k < 64 -> at_ (abs_board b') k = at_ (apply (abs_board b) m) k) /\
  Consistent b'.
Proof. exact main_squares. Qed.
Check C02b_step_squares : forall b m,
  Consistent b -> pos_valid (abs_board b) = true -> In m (legal_moves (abs_board b)) ->
  (forall e, epsq b = Some e -> e < 64 /\ sq_rank e = fourth_rk (opp (stm b))) ->
  forall b', make_move_new b (src m) (dst m) (promo m) = Some b' ->
  (forall k, k < 64 -> dec (bitsat b' k) = at_ (apply (abs_board b) m) k) /\
  (forall k, k < 64 -> at_ (abs_board b') k = at_ (apply (abs_board b) m) k) /\
  Consistent b'.
Print Assumptions C02b_step_squares.

(** G3: placement, side to move, the four castling rights and the en-passant target *)
Theorem C02b_step_abs : forall b m,
  Consistent b -> pos_valid (abs_board b) = true -> In m (legal_moves (abs_board b)) ->
  (forall e, epsq b = Some e -> e < 64 /\ sq_rank e = fourth_rk (opp (stm b))) ->
  forall b', make_move_new b (src m) (dst m) (promo m) = Some b' ->
  abs_board b' = apply (abs_board b) m.
Proof. exact main_abs. Qed.
Check C02b_step_abs : forall b m,
  Consistent b -> pos_valid (abs_board b) = true -> In m (legal_moves (abs_board b)) ->
  (forall e, epsq b = Some e -> e < 64 /\ sq_rank e = fourth_rk (opp (stm b))) ->
  forall b', make_move_new b (src m) (dst m) (promo m) = Some b' ->
  abs_board b' = apply (abs_board b) m.
Print Assumptions C02b_step_abs.

(** the same for the in-place copy, whatever the output board held before *)
Theorem C02b_step_abs_inplace : forall b m,
  Consistent b -> pos_valid (abs_board b) = true -> In m (legal_moves (abs_board b)) ->
  (forall e, epsq b = Some e -> e < 64 /\ sq_rank e = fourth_rk (opp (stm b))) ->
  forall r0 b', make_move b (src m) (dst m) (promo m) r0 = Some b' ->
  abs_board b' = apply (abs_board b) m.
Proof. exact main_abs_inplace. Qed.
Check C02b_step_abs_inplace : forall b m,
  Consistent b -> pos_valid (abs_board b) = true -> In m (legal_moves (abs_board b)) ->
  (forall e, epsq b = Some e -> e < 64 /\ sq_rank e = fourth_rk (opp (stm b))) ->
  forall r0 b', make_move b (src m) (dst m) (promo m) r0 = Some b' ->
  abs_board b' = apply (abs_board b) m.
Print Assumptions C02b_step_abs_inplace.

(** the side hypotheses hold again of the result (with [pos_valid] of the successor, C05, the
    theorems apply to the next move) *)
Theorem C02b_step_invariants : forall b m,
  Consistent b -> pos_valid (abs_board b) = true -> In m (legal_moves (abs_board b)) ->
  (forall e, epsq b = Some e -> e < 64 /\ sq_rank e = fourth_rk (opp (stm b))) ->
  forall b', make_move_new b (src m) (dst m) (promo m) = Some b' ->
  (forall e, epsq b' = Some e -> e < 64 /\ sq_rank e = fourth_rk (opp (stm b'))) /\
  crW b' < 4 /\ crB b' < 4.
Proof. exact main_invariants. Qed.
Check C02b_step_invariants : forall b m,
  Consistent b -> pos_valid (abs_board b) = true -> In m (legal_moves (abs_board b)) ->
  (forall e, epsq b = Some e -> e < 64 /\ sq_rank e = fourth_rk (opp (stm b))) ->
  forall b', make_move_new b (src m) (dst m) (promo m) = Some b' ->
  (forall e, epsq b' = Some e -> e < 64 /\ sq_rank e = fourth_rk (opp (stm b'))) /\
  crW b' < 4 /\ crB b' < 4.
Print Assumptions C02b_step_invariants.

(** from the library's own board of any valid position: every legal move is applied without
    panic, to a board showing the successor position, with the hash of the successor's own
    from-scratch board (uses [RoundTripAbs.abs_from_scratch] and C05's [pos_valid_preserved]) *)
Theorem C02b_from_scratch : forall p m, pos_valid p = true -> In m (legal_moves p) ->
  exists b', make_move_new (from_scratch p) (src m) (dst m) (promo m) = Some b' /\
             abs_board b' = apply p m /\ get_hash b' = get_hash (from_scratch (apply p m)).
Proof. exact main_from_scratch_some. Qed.
Check C02b_from_scratch : forall p m, pos_valid p = true -> In m (legal_moves p) ->
  exists b', make_move_new (from_scratch p) (src m) (dst m) (promo m) = Some b' /\
             abs_board b' = apply p m /\ get_hash b' = get_hash (from_scratch (apply p m)).
Print Assumptions C02b_from_scratch.

(** G5 (C03 for one move): the incrementally computed [pinned] / [checkers] caches are the ones
    [update_pin_info] computes from scratch on the result *)
Theorem C02b_step_caches : forall b m,
  Consistent b -> pos_valid (abs_board b) = true -> In m (legal_moves (abs_board b)) ->
  (forall e, epsq b = Some e -> e < 64 /\ sq_rank e = fourth_rk (opp (stm b))) ->
  forall b', make_move_new b (src m) (dst m) (promo m) = Some b' ->
  pinned b' = pinned (update_pin_info b') /\ checkers b' = checkers (update_pin_info b').
Proof. exact main_caches. Qed.
Check C02b_step_caches : forall b m,
  Consistent b -> pos_valid (abs_board b) = true -> In m (legal_moves (abs_board b)) ->
  (forall e, epsq b = Some e -> e < 64 /\ sq_rank e = fourth_rk (opp (stm b))) ->
  forall b', make_move_new b (src m) (dst m) (promo m) = Some b' ->
  pinned b' = pinned (update_pin_info b') /\ checkers b' = checkers (update_pin_info b').
Print Assumptions C02b_step_caches.

(** a canonical board ([b = from_scratch (abs_board b)]) stays canonical *)
Theorem C02b_step_canonical : forall b m b', Canonical b -> pos_valid (abs_board b) = true ->
  In m (legal_moves (abs_board b)) ->
  make_move_new b (src m) (dst m) (promo m) = Some b' -> Canonical b'.
Proof. exact step_canonical. Qed.
Check C02b_step_canonical : forall b m b', Canonical b -> pos_valid (abs_board b) = true ->
  In m (legal_moves (abs_board b)) ->
  make_move_new b (src m) (dst m) (promo m) = Some b' -> Canonical b'.
Print Assumptions C02b_step_canonical.

(** from scratch to scratch, the whole board: all sixteen fields *)
Theorem C02b_from_scratch_board : forall p m, pos_valid p = true -> In m (legal_moves p) ->
  make_move_new (from_scratch p) (src m) (dst m) (promo m) = Some (from_scratch (apply p m)).
Proof. exact step_from_scratch_board. Qed.
Check C02b_from_scratch_board : forall p m, pos_valid p = true -> In m (legal_moves p) ->
  make_move_new (from_scratch p) (src m) (dst m) (promo m) = Some (from_scratch (apply p m)).
Print Assumptions C02b_from_scratch_board.

(** the hypotheses are satisfiable: castling both ways and an en-passant capture *)
Theorem C02b_example_en_passant : StepHyp (from_scratch expos) (mv 36 43) /\
  exists b', make_move_new (from_scratch expos) 36 43 None = Some b' /\
    abs_board b' = apply expos (mv 36 43) /\ at_ (abs_board b') 35 = None /\
    at_ (abs_board b') 43 = Some (Pawn,White) /\
    get_hash b' = get_hash (from_scratch (apply expos (mv 36 43))).
Proof. exact ex_en_passant. Qed.
Check C02b_example_en_passant :
  StepHyp (from_scratch expos) (mv 36 43) /\
  exists b', make_move_new (from_scratch expos) 36 43 None = Some b' /\
    abs_board b' = apply expos (mv 36 43) /\ at_ (abs_board b') 35 = None /\
    at_ (abs_board b') 43 = Some (Pawn,White) /\
    get_hash b' = get_hash (from_scratch (apply expos (mv 36 43))).
Print Assumptions C02b_example_en_passant.
