(** * C17 — mirror symmetry of the rules (specification level).
    Swapping the colours and flipping the board top to bottom ([mirror_v]: side to move, castling
    rights and en-passant square swapped accordingly) maps the legal moves, the status, the check
    and pin sets and every successor position of a position onto those of its mirror image; for
    positions without castling rights the same holds for the left-right flip ([mirror_h]).
    Lemmas: [Proofs/MirrorLib.v], [Proofs/MirrorGeneric.v] (one argument for both mirrors),
    [Proofs/MirrorV.v], [Proofs/MirrorH.v], [Proofs/MirrorMain.v].
    Quantifier: [WFpos p] = 64 placement entries and at most one king of each colour (implied by
    [pos_valid p = true]); lists are related by [Permutation] because the generation order changes.
    The king hypothesis is necessary ([C17_ex_two_kings_breaks]); the left-right mirror does not
    commute with castling ([C17_ex_h_castle_breaks]). *)
From Coq Require Import Permutation.
From Chess Require Import Base.Bits Spec.Geometry Spec.Rules.
From Chess Require Import Proofs.MirrorLib Proofs.MirrorH Proofs.MirrorMain.
Open Scope N_scope.

(** ** hypotheses *)
Theorem C17_pos_valid_WF : forall p, pos_valid p = true -> WFpos p.
Proof. exact pos_valid_WF. Qed.
Check C17_pos_valid_WF : forall p, pos_valid p = true ->
  length (placement p) = 64%nat /\ kings p White <= 1 /\ kings p Black <= 1.
Print Assumptions C17_pos_valid_WF.

Theorem C17_WF_mirror_v : forall p, WFpos p -> WFpos (mirror_v p).
Proof. exact mirror_v_WF. Qed.
Check C17_WF_mirror_v : forall p, WFpos p -> WFpos (mirror_v p).
Print Assumptions C17_WF_mirror_v.

Theorem C17_WF_mirror_h : forall p, WFpos p -> WFpos (mirror_h p).
Proof. exact mirror_h_WF. Qed.
Check C17_WF_mirror_h : forall p, WFpos p -> WFpos (mirror_h p).
Print Assumptions C17_WF_mirror_h.

(** ** G1: the square maps *)
Theorem C17_flip_rank_geometry : forall s, s < 64 ->
  flip_rank_sq s < 64 /\ flip_rank_sq (flip_rank_sq s) = s /\
  fileZ (flip_rank_sq s) = fileZ s /\ rankZ (flip_rank_sq s) = (7 - rankZ s)%Z.
Proof. exact flip_rank_geometry. Qed.
Check C17_flip_rank_geometry : forall s, s < 64 ->
  flip_rank_sq s < 64 /\ flip_rank_sq (flip_rank_sq s) = s /\
  fileZ (flip_rank_sq s) = fileZ s /\ rankZ (flip_rank_sq s) = (7 - rankZ s)%Z.
Print Assumptions C17_flip_rank_geometry.

Theorem C17_flip_file_geometry : forall s, s < 64 ->
  flip_file_sq s < 64 /\ flip_file_sq (flip_file_sq s) = s /\
  fileZ (flip_file_sq s) = (7 - fileZ s)%Z /\ rankZ (flip_file_sq s) = rankZ s.
Proof. exact flip_file_geometry. Qed.
Check C17_flip_file_geometry : forall s, s < 64 ->
  flip_file_sq s < 64 /\ flip_file_sq (flip_file_sq s) = s /\
  fileZ (flip_file_sq s) = (7 - fileZ s)%Z /\ rankZ (flip_file_sq s) = rankZ s.
Print Assumptions C17_flip_file_geometry.

Theorem C17_flip_steps : forall s df dr, s < 64 ->
  step (flip_rank_sq s) (df, - dr)%Z = option_map flip_rank_sq (step s (df, dr)) /\
  step (flip_file_sq s) (- df, dr)%Z = option_map flip_file_sq (step s (df, dr)).
Proof. exact flip_steps. Qed.
Check C17_flip_steps : forall s df dr, s < 64 ->
  step (flip_rank_sq s) (df, - dr)%Z = option_map flip_rank_sq (step s (df, dr)) /\
  step (flip_file_sq s) (- df, dr)%Z = option_map flip_file_sq (step s (df, dr)).
Print Assumptions C17_flip_steps.

(** ** G2: placement *)
Theorem C17_mirror_v_board : forall p, length (placement p) = 64%nat ->
  (forall s, at_ (mirror_v p) s = swap_pc (at_ p (flip_rank_sq s))) /\
  (forall s, occ (mirror_v p) (flip_rank_sq s) = occ p s) /\
  (forall s t c, has (mirror_v p) (flip_rank_sq s) t (opp c) = has p s t c) /\
  (forall c s, own (mirror_v p) (opp c) (flip_rank_sq s) = own p c s) /\
  (forall c s, enemy (mirror_v p) (opp c) (flip_rank_sq s) = enemy p c s) /\
  mirror_v (mirror_v p) = p.
Proof. exact mirror_v_board. Qed.
Check C17_mirror_v_board : forall p, length (placement p) = 64%nat ->
  (forall s, at_ (mirror_v p) s = swap_pc (at_ p (flip_rank_sq s))) /\
  (forall s, occ (mirror_v p) (flip_rank_sq s) = occ p s) /\
  (forall s t c, has (mirror_v p) (flip_rank_sq s) t (opp c) = has p s t c) /\
  (forall c s, own (mirror_v p) (opp c) (flip_rank_sq s) = own p c s) /\
  (forall c s, enemy (mirror_v p) (opp c) (flip_rank_sq s) = enemy p c s) /\
  mirror_v (mirror_v p) = p.
Print Assumptions C17_mirror_v_board.

Theorem C17_mirror_h_board : forall p, length (placement p) = 64%nat ->
  (forall s, at_ (mirror_h p) s = at_ p (flip_file_sq s)) /\
  (forall s, occ (mirror_h p) (flip_file_sq s) = occ p s) /\
  (forall s t c, has (mirror_h p) (flip_file_sq s) t c = has p s t c) /\
  (forall c s, own (mirror_h p) c (flip_file_sq s) = own p c s) /\
  (forall c s, enemy (mirror_h p) c (flip_file_sq s) = enemy p c s) /\
  (no_rights p -> mirror_h (mirror_h p) = p).
Proof. exact mirror_h_board. Qed.
Check C17_mirror_h_board : forall p, length (placement p) = 64%nat ->
  (forall s, at_ (mirror_h p) s = at_ p (flip_file_sq s)) /\
  (forall s, occ (mirror_h p) (flip_file_sq s) = occ p s) /\
  (forall s t c, has (mirror_h p) (flip_file_sq s) t c = has p s t c) /\
  (forall c s, own (mirror_h p) c (flip_file_sq s) = own p c s) /\
  (forall c s, enemy (mirror_h p) c (flip_file_sq s) = enemy p c s) /\
  (wk p = false /\ wq p = false /\ bk p = false /\ bq p = false -> mirror_h (mirror_h p) = p).
Print Assumptions C17_mirror_h_board.

(** ** G3: attacks and check *)
Theorem C17_mirror_v_attacks : forall p, length (placement p) = 64%nat ->
  (forall s df dr n, s < 64 ->
     ray (mirror_v p) (flip_rank_sq s) (df, - dr)%Z n = map flip_rank_sq (ray p s (df,dr) n)) /\
  (forall s, s < 64 ->
     Permutation (attack_set (mirror_v p) (flip_rank_sq s)) (map flip_rank_sq (attack_set p s))) /\
  (forall s t, s < 64 -> attacks (mirror_v p) (flip_rank_sq s) (flip_rank_sq t) = attacks p s t) /\
  (forall c t, Permutation (attackers (mirror_v p) (opp c) (flip_rank_sq t))
                           (map flip_rank_sq (attackers p c t))) /\
  (forall c t, attacked_by (mirror_v p) (opp c) (flip_rank_sq t) = attacked_by p c t).
Proof. exact mirror_v_attacks. Qed.
Check C17_mirror_v_attacks : forall p, length (placement p) = 64%nat ->
  (forall s df dr n, s < 64 ->
     ray (mirror_v p) (flip_rank_sq s) (df, - dr)%Z n = map flip_rank_sq (ray p s (df,dr) n)) /\
  (forall s, s < 64 ->
     Permutation (attack_set (mirror_v p) (flip_rank_sq s)) (map flip_rank_sq (attack_set p s))) /\
  (forall s t, s < 64 -> attacks (mirror_v p) (flip_rank_sq s) (flip_rank_sq t) = attacks p s t) /\
  (forall c t, Permutation (attackers (mirror_v p) (opp c) (flip_rank_sq t))
                           (map flip_rank_sq (attackers p c t))) /\
  (forall c t, attacked_by (mirror_v p) (opp c) (flip_rank_sq t) = attacked_by p c t).
Print Assumptions C17_mirror_v_attacks.

Theorem C17_mirror_h_attacks : forall p, length (placement p) = 64%nat ->
  (forall s df dr n, s < 64 ->
     ray (mirror_h p) (flip_file_sq s) (- df, dr)%Z n = map flip_file_sq (ray p s (df,dr) n)) /\
  (forall s, s < 64 ->
     Permutation (attack_set (mirror_h p) (flip_file_sq s)) (map flip_file_sq (attack_set p s))) /\
  (forall s t, s < 64 -> attacks (mirror_h p) (flip_file_sq s) (flip_file_sq t) = attacks p s t) /\
  (forall c t, Permutation (attackers (mirror_h p) c (flip_file_sq t))
                           (map flip_file_sq (attackers p c t))) /\
  (forall c t, attacked_by (mirror_h p) c (flip_file_sq t) = attacked_by p c t).
Proof. exact mirror_h_attacks. Qed.
Check C17_mirror_h_attacks : forall p, length (placement p) = 64%nat ->
  (forall s df dr n, s < 64 ->
     ray (mirror_h p) (flip_file_sq s) (- df, dr)%Z n = map flip_file_sq (ray p s (df,dr) n)) /\
  (forall s, s < 64 ->
     Permutation (attack_set (mirror_h p) (flip_file_sq s)) (map flip_file_sq (attack_set p s))) /\
  (forall s t, s < 64 -> attacks (mirror_h p) (flip_file_sq s) (flip_file_sq t) = attacks p s t) /\
  (forall c t, Permutation (attackers (mirror_h p) c (flip_file_sq t))
                           (map flip_file_sq (attackers p c t))) /\
  (forall c t, attacked_by (mirror_h p) c (flip_file_sq t) = attacked_by p c t).
Print Assumptions C17_mirror_h_attacks.

Theorem C17_mirror_v_check : forall p c, WFpos p ->
  king_sq (mirror_v p) (opp c) = option_map flip_rank_sq (king_sq p c) /\
  in_check (mirror_v p) (opp c) = in_check p c.
Proof. exact mirror_v_check. Qed.
Check C17_mirror_v_check : forall p c, WFpos p ->
  king_sq (mirror_v p) (opp c) = option_map flip_rank_sq (king_sq p c) /\
  in_check (mirror_v p) (opp c) = in_check p c.
Print Assumptions C17_mirror_v_check.

Theorem C17_mirror_h_check : forall p c, WFpos p ->
  king_sq (mirror_h p) c = option_map flip_file_sq (king_sq p c) /\
  in_check (mirror_h p) c = in_check p c.
Proof. exact mirror_h_check. Qed.
Check C17_mirror_h_check : forall p c, WFpos p ->
  king_sq (mirror_h p) c = option_map flip_file_sq (king_sq p c) /\
  in_check (mirror_h p) c = in_check p c.
Print Assumptions C17_mirror_h_check.

(** ** G5: successor positions (any move between board squares) *)
Theorem C17_mirror_v_apply : forall p m,
  length (placement p) = 64%nat -> src m < 64 -> dst m < 64 ->
  apply (mirror_v p) (mirror_v_move m) = mirror_v (apply p m).
Proof. exact mirror_v_apply. Qed.
Check C17_mirror_v_apply : forall p m,
  length (placement p) = 64%nat -> src m < 64 -> dst m < 64 ->
  apply (mirror_v p) (mirror_v_move m) = mirror_v (apply p m).
Print Assumptions C17_mirror_v_apply.

Theorem C17_mirror_h_apply : forall p m,
  length (placement p) = 64%nat -> src m < 64 -> dst m < 64 -> is_castle p m = false ->
  apply (mirror_h p) (mirror_h_move m) = mirror_h (apply p m).
Proof. exact mirror_h_apply. Qed.
Check C17_mirror_h_apply : forall p m,
  length (placement p) = 64%nat -> src m < 64 -> dst m < 64 -> is_castle p m = false ->
  apply (mirror_h p) (mirror_h_move m) = mirror_h (apply p m).
Print Assumptions C17_mirror_h_apply.

(** ** G4, G6: pseudo-legal and legal moves, status, checkers, pins, successors *)
Theorem C17_mirror_v_pseudo : forall p, length (placement p) = 64%nat ->
  Permutation (pseudo (mirror_v p)) (map mirror_v_move (pseudo p)).
Proof. exact mirror_v_pseudo. Qed.
Check C17_mirror_v_pseudo : forall p, length (placement p) = 64%nat ->
  Permutation (pseudo (mirror_v p)) (map mirror_v_move (pseudo p)).
Print Assumptions C17_mirror_v_pseudo.

Theorem C17_mirror_v : forall p, WFpos p ->
  Permutation (legal_moves (mirror_v p)) (map mirror_v_move (legal_moves p)) /\
  status (mirror_v p) = status p /\
  Permutation (checkers_of (mirror_v p)) (map flip_rank_sq (checkers_of p)) /\
  Permutation (pinned_of (mirror_v p)) (map flip_rank_sq (pinned_of p)) /\
  (forall m, In m (legal_moves p) ->
     apply (mirror_v p) (mirror_v_move m) = mirror_v (apply p m) /\ WFpos (apply p m)).
Proof. exact mirror_v_main. Qed.
Check C17_mirror_v : forall p, WFpos p ->
  Permutation (legal_moves (mirror_v p)) (map mirror_v_move (legal_moves p)) /\
  status (mirror_v p) = status p /\
  Permutation (checkers_of (mirror_v p)) (map flip_rank_sq (checkers_of p)) /\
  Permutation (pinned_of (mirror_v p)) (map flip_rank_sq (pinned_of p)) /\
  (forall m, In m (legal_moves p) ->
     apply (mirror_v p) (mirror_v_move m) = mirror_v (apply p m) /\ WFpos (apply p m)).
Print Assumptions C17_mirror_v.

Theorem C17_mirror_v_legal_iff : forall p m, WFpos p ->
  (In (mirror_v_move m) (legal_moves (mirror_v p)) <-> In m (legal_moves p)).
Proof. exact mirror_v_legal_iff. Qed.
Check C17_mirror_v_legal_iff : forall p m, WFpos p ->
  (In (mirror_v_move m) (legal_moves (mirror_v p)) <-> In m (legal_moves p)).
Print Assumptions C17_mirror_v_legal_iff.

(** ** G7: the left-right mirror, positions without castling rights *)
Theorem C17_mirror_h_pseudo : forall p, length (placement p) = 64%nat -> no_rights p ->
  Permutation (pseudo (mirror_h p)) (map mirror_h_move (pseudo p)).
Proof. exact mirror_h_pseudo. Qed.
Check C17_mirror_h_pseudo : forall p, length (placement p) = 64%nat -> no_rights p ->
  Permutation (pseudo (mirror_h p)) (map mirror_h_move (pseudo p)).
Print Assumptions C17_mirror_h_pseudo.

Theorem C17_mirror_h : forall p, WFpos p -> no_rights p ->
  Permutation (legal_moves (mirror_h p)) (map mirror_h_move (legal_moves p)) /\
  status (mirror_h p) = status p /\
  Permutation (checkers_of (mirror_h p)) (map flip_file_sq (checkers_of p)) /\
  Permutation (pinned_of (mirror_h p)) (map flip_file_sq (pinned_of p)) /\
  (forall m, In m (legal_moves p) ->
     apply (mirror_h p) (mirror_h_move m) = mirror_h (apply p m) /\ WFpos (apply p m)).
Proof. exact mirror_h_main. Qed.
Check C17_mirror_h : forall p,
  (length (placement p) = 64%nat /\ kings p White <= 1 /\ kings p Black <= 1) ->
  (wk p = false /\ wq p = false /\ bk p = false /\ bq p = false) ->
  Permutation (legal_moves (mirror_h p)) (map mirror_h_move (legal_moves p)) /\
  status (mirror_h p) = status p /\
  Permutation (checkers_of (mirror_h p)) (map flip_file_sq (checkers_of p)) /\
  Permutation (pinned_of (mirror_h p)) (map flip_file_sq (pinned_of p)) /\
  (forall m, In m (legal_moves p) ->
     apply (mirror_h p) (mirror_h_move m) = mirror_h (apply p m) /\ WFpos (apply p m)).
Print Assumptions C17_mirror_h.

Theorem C17_mirror_h_legal_iff : forall p m, WFpos p -> no_rights p ->
  (In (mirror_h_move m) (legal_moves (mirror_h p)) <-> In m (legal_moves p)).
Proof. exact mirror_h_legal_iff. Qed.
Check C17_mirror_h_legal_iff : forall p m, WFpos p -> no_rights p ->
  (In (mirror_h_move m) (legal_moves (mirror_h p)) <-> In m (legal_moves p)).
Print Assumptions C17_mirror_h_legal_iff.

(** ** Examples: the hypotheses are satisfiable and both sides are non-trivial
    ([ex1]: White Ke1 Ra1 Rh1 Nd2 a2 h2 e5, Black Ke8 Ra8 Bb4 d5 g4, White to move, rights KQq,
    en-passant d6, knight d2 pinned; [ex2]: without the knight, White in check; [ex3]/[ex4]:
    the same without castling rights) *)
Example C17_ex_valid :
  pos_valid ex1 = true /\ pos_valid ex2 = true /\ pos_valid ex3 = true /\ pos_valid ex4 = true.
Proof. exact ex_valid. Qed.
Example C17_ex_WF : WFpos ex1 /\ WFpos ex2 /\ WFpos ex3 /\ WFpos ex4.
Proof. exact ex_WF. Qed.
Example C17_ex_no_rights : no_rights ex3 /\ no_rights ex4.
Proof. exact ex_no_rights. Qed.
Example C17_ex1_moves :
  length (legal_moves ex1) = 17%nat /\ length (legal_moves (mirror_v ex1)) = 17%nat /\
  legal_moves (mirror_v ex1) <> map mirror_v_move (legal_moves ex1) /\
  has_move (mv 4 6) (legal_moves ex1) = true /\ has_move (mv 60 62) (legal_moves (mirror_v ex1)) = true /\
  has_move (mv 4 2) (legal_moves ex1) = true /\ has_move (mv 60 58) (legal_moves (mirror_v ex1)) = true /\
  has_move (mv 36 43) (legal_moves ex1) = true /\ has_move (mv 28 19) (legal_moves (mirror_v ex1)) = true.
Proof. exact ex1_moves. Qed.
Example C17_ex1_pins :
  pinned_of ex1 = [11] /\ pinned_of (mirror_v ex1) = [51] /\ pinned_of (mirror_h ex3) = [12] /\
  status ex1 = Ongoing /\ status (mirror_v ex1) = Ongoing.
Proof. exact ex1_pins. Qed.
Example C17_ex2_check :
  checkers_of ex2 = [25] /\ checkers_of (mirror_v ex2) = [33] /\ checkers_of (mirror_h ex4) = [30] /\
  in_check ex2 White = true /\ in_check (mirror_v ex2) Black = true /\ in_check (mirror_h ex4) White = true /\
  king_sq (mirror_v ex2) Black = Some 60 /\ king_sq (mirror_h ex4) White = Some 3.
Proof. exact ex2_check. Qed.
Example C17_ex1_apply :
  apply (mirror_v ex1) (mirror_v_move (mv 15 31)) = mirror_v (apply ex1 (mv 15 31)) /\
  ep (apply ex1 (mv 15 31)) = Some 23 /\ ep (apply (mirror_v ex1) (mirror_v_move (mv 15 31))) = Some 47 /\
  apply (mirror_v ex1) (mirror_v_move (mv 4 6)) = mirror_v (apply ex1 (mv 4 6)) /\
  at_ (apply ex1 (mv 4 6)) 5 = Some (Rook,White) /\
  at_ (apply (mirror_v ex1) (mirror_v_move (mv 4 6))) 61 = Some (Rook,Black) /\
  wk (apply ex1 (mv 4 6)) = false /\ bq (apply ex1 (mv 4 6)) = true /\
  bk (apply (mirror_v ex1) (mirror_v_move (mv 4 6))) = false /\
  wq (apply (mirror_v ex1) (mirror_v_move (mv 4 6))) = true /\
  apply (mirror_v ex1) (mirror_v_move (mv 36 43)) = mirror_v (apply ex1 (mv 36 43)) /\
  at_ (apply ex1 (mv 36 43)) 35 = None /\
  apply (mirror_h ex3) (mirror_h_move (mv 36 43)) = mirror_h (apply ex3 (mv 36 43)) /\
  ep (apply (mirror_h ex3) (mirror_h_move (mv 15 31))) = Some 16.
Proof. exact ex1_apply. Qed.
Example C17_ex3_moves :
  length (legal_moves ex3) = 15%nat /\ length (legal_moves (mirror_h ex3)) = 15%nat /\
  legal_moves (mirror_h ex3) <> map mirror_h_move (legal_moves ex3) /\
  has_move (mv 36 43) (legal_moves ex3) = true /\ has_move (mv 35 44) (legal_moves (mirror_h ex3)) = true.
Proof. exact ex3_moves. Qed.
(** the restrictions are needed *)
Example C17_ex_h_castle_breaks :
  apply (mirror_h ex1) (mirror_h_move (mv 4 6)) <> mirror_h (apply ex1 (mv 4 6)).
Proof. exact ex_h_castle_breaks. Qed.
Example C17_ex_two_kings_breaks :
  length (placement ex_two_kings) = 64%nat /\ kings ex_two_kings White = 2 /\
  in_check ex_two_kings White = true /\ in_check (mirror_v ex_two_kings) Black = false.
Proof. exact ex_two_kings_breaks. Qed.
