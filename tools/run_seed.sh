#!/bin/bash
# run_seed.sh <seed dir> <property ids...> : apply the seeded change to /repo, run the quick
# checks of the given properties, undo the change.  Prints one line per check.
set -u
D=$(realpath "$1"); shift
cd /verif
git -C /repo diff --quiet || { echo "/repo has uncommitted changes; refusing"; exit 2; }
git -C /repo apply "$D/patch.diff" || { echo "patch does not apply"; exit 2; }
for p in "$@"; do
  out=$(./check $p --tier quick 2>/dev/null)
  rc=$?
  v=$(echo "$out" | grep -m1 "^VIOLATION" | cut -c1-160)
  first=$(echo "$out" | grep -A1 "^VIOLATION" | tail -1 | cut -c1-260)
  echo "$p rc=$rc $v"
  [ $rc -ne 0 ] && echo "      $first"
done
git -C /repo checkout -- .
