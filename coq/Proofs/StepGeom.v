(** * Proofs.StepGeom — finite sweeps (64 squares x 2 colours, 64 x 64 squares) linking the
    model's wrapping square arithmetic and bit masks used by [make_move] to the
    specification's coordinates: en-passant squares, pawn pushes / captures, king steps versus
    the castling mask, [square_to_castle_rights], the rook constants, and the adjacent-file
    test of [set_ep]. *)
From Coq Require Import Lia ZifyBool ZifyN ZifyNat.
From Chess Require Import Base.Bits Spec.Geometry Spec.Rules Model.Board Gen.Consts.
From Chess Require Import Proofs.TablesLib Proofs.StepShape Proofs.StepModel.
Open Scope N_scope.

Definition colors : list color := [White;Black].
Lemma sweep_col (P:color->bool) : forallb P colors = true -> forall c, P c = true.
Proof.
  cbn [forallb colors]. intros H c. apply andb_prop in H as [H1 H2]. apply andb_prop in H2 as [H2 _].
  destruct c; assumption.
Qed.
Definition oN_eqb (a b:option N) : bool :=
  match a, b with Some x, Some y => x =? y | None, None => true | _, _ => false end.
Lemma oN_eqb_eq a b : oN_eqb a b = true -> a = b.
Proof.
  destruct a, b; cbn; intro H; try discriminate; [|reflexivity]. apply N.eqb_eq in H. congruence.
Qed.

Definition rs0 : list N := nth 0 C_ROOK_START [].
Definition re0 : list N := nth 0 C_ROOK_END [].

(** ** the en-passant square: [e] holds the pawn that just double-pushed *)
Definition ep_geom_ok (c:color) (e:N) : bool :=
  implb (sq_rank e =? fourth_rk (opp c))
    (let t := uforward c e in
     (t <? 64) && (ubackward c t =? e) && oN_eqb (step t (0, - fwdc c)%Z) (Some e)
     && negb (t =? e) && (rank_of t =? sixth_rank c)).
Lemma ep_geom_sweep : forallb (fun c => forallb (ep_geom_ok c) all_sq) colors = true.
Proof. vm_cast_no_check (eq_refl true). Qed.
Lemma ep_geom c e : e < 64 -> sq_rank e = fourth_rk (opp c) ->
  uforward c e < 64 /\ ubackward c (uforward c e) = e /\
  step (uforward c e) (0, - fwdc c)%Z = Some e /\ uforward c e <> e.
Proof.
  intros He Hr. pose proof (sweep64 _ (sweep_col _ ep_geom_sweep c) e He) as H.
  unfold ep_geom_ok in H. rewrite Hr, N.eqb_refl in H. cbn [implb] in H. cbv zeta in H.
  apply andb_prop in H as [H _]. apply andb_prop in H as [H H4]. apply andb_prop in H as [H H3].
  apply andb_prop in H as [H1 H2].
  apply N.ltb_lt in H1. apply N.eqb_eq in H2. apply oN_eqb_eq in H3.
  apply negb_true_iff, N.eqb_neq in H4. auto.
Qed.

(** ** pawn captures (ordinary and en passant) *)
Definition cap_geom_ok (c:color) (s d:N) : bool :=
  implb (mem d (steps s (pawn_caps c)))
    (let v := rank_of s * 8 + file_of d in
     (ubackward c d =? v) && negb (is_dbl s d) && negb (d =? s) && negb (v =? s) && negb (v =? d)
     && negb (file_of s =? file_of d) && negb (absdiff (rank_of s) (rank_of d) =? 2)
     && (uforward c v =? d) && (v <? 64)).
Lemma cap_geom_sweep :
  forallb (fun c => forallb (fun s => forallb (cap_geom_ok c s) all_sq) all_sq) colors = true.
Proof. vm_cast_no_check (eq_refl true). Qed.
Lemma cap_geom c s d : s < 64 -> In d (steps s (pawn_caps c)) ->
  let v := rank_of s * 8 + file_of d in
  ubackward c d = v /\ is_dbl s d = false /\ d <> s /\ v <> s /\ v <> d /\
  file_of s <> file_of d /\ absdiff (rank_of s) (rank_of d) <> 2 /\ uforward c v = d /\ v < 64.
Proof.
  intros Hs Hin. pose proof (steps_lt _ _ _ Hin) as Hd.
  pose proof (sweep64_2 _ (sweep_col _ cap_geom_sweep c) s d Hs Hd) as H.
  unfold cap_geom_ok in H. apply mem_in in Hin. rewrite Hin in H. cbn [implb] in H. cbv zeta in H |- *.
  repeat (apply andb_prop in H as [H ?]).
  repeat match goal with
  | X : negb _ = true |- _ => apply negb_true_iff in X
  | X : (_ =? _) = true |- _ => apply N.eqb_eq in X
  | X : (_ =? _) = false |- _ => apply N.eqb_neq in X
  | X : (_ <? _) = true |- _ => apply N.ltb_lt in X
  end.
  auto 12.
Qed.

(** ** pawn pushes *)
Definition push_geom_ok (c:color) (s:N) : bool :=
  match step s (0,fwdc c)%Z with
  | None => true
  | Some d1 =>
    (ubackward c d1 =? s) && negb (is_dbl s d1) && (file_of s =? file_of d1)
    && negb (absdiff (rank_of s) (rank_of d1) =? 2) && negb (d1 =? s)
    && (if rank_of s =? start_rank c then
          match step d1 (0,fwdc c)%Z with
          | None => true
          | Some d2 =>
            is_dbl s d2 && (file_of s =? file_of d2) && (absdiff (rank_of s) (rank_of d2) =? 2)
            && (uforward (opp c) d2 =? ((rank_of s + rank_of d2) / 2) * 8 + file_of s)
            && (sq_rank d2 =? fourth_rk c) && negb (d2 =? s)
          end
        else true)
  end.
Lemma push_geom_sweep : forallb (fun c => forallb (push_geom_ok c) all_sq) colors = true.
Proof. vm_cast_no_check (eq_refl true). Qed.
Lemma push_geom c s d1 : s < 64 -> step s (0,fwdc c)%Z = Some d1 ->
  ubackward c d1 = s /\ is_dbl s d1 = false /\ file_of s = file_of d1 /\
  absdiff (rank_of s) (rank_of d1) <> 2 /\ d1 <> s.
Proof.
  intros Hs E. pose proof (sweep64 _ (sweep_col _ push_geom_sweep c) s Hs) as H.
  unfold push_geom_ok in H. rewrite E in H.
  apply andb_prop in H as [H _].
  repeat (apply andb_prop in H as [H ?]).
  repeat match goal with
  | X : negb _ = true |- _ => apply negb_true_iff in X
  | X : (_ =? _) = true |- _ => apply N.eqb_eq in X
  | X : (_ =? _) = false |- _ => apply N.eqb_neq in X
  end.
  auto 8.
Qed.
Lemma dbl_geom c s d1 d2 : s < 64 -> step s (0,fwdc c)%Z = Some d1 -> step d1 (0,fwdc c)%Z = Some d2 ->
  rank_of s = start_rank c ->
  is_dbl s d2 = true /\ file_of s = file_of d2 /\ absdiff (rank_of s) (rank_of d2) = 2 /\
  uforward (opp c) d2 = ((rank_of s + rank_of d2) / 2) * 8 + file_of s /\
  sq_rank d2 = fourth_rk c /\ d2 <> s.
Proof.
  intros Hs E1 E2 Er. pose proof (sweep64 _ (sweep_col _ push_geom_sweep c) s Hs) as H.
  assert (Eb : (rank_of s =? start_rank c) = true) by (apply N.eqb_eq; exact Er).
  unfold push_geom_ok in H. rewrite E1, Eb, E2 in H.
  apply andb_prop in H as [_ H].
  remember (is_dbl s d2) as X eqn:EX.
  repeat (apply andb_prop in H as [H ?]). subst X.
  repeat match goal with
  | X : negb _ = true |- _ => apply negb_true_iff in X
  | X : (_ =? _) = true |- _ => apply N.eqb_eq in X
  | X : (_ =? _) = false |- _ => apply N.eqb_neq in X
  end.
  auto 8.
Qed.

(** ** king steps never look like castling *)
Definition king_geom_ok (s d:N) : bool :=
  implb (mem d (steps s king_dirs))
        (negb (is_cst King s d) && negb (absdiff (file_of s) (file_of d) =? 2)).
Lemma king_geom_sweep : forallb (fun s => forallb (king_geom_ok s) all_sq) all_sq = true.
Proof. vm_cast_no_check (eq_refl true). Qed.
Lemma king_geom s d : s < 64 -> In d (steps s king_dirs) ->
  is_cst King s d = false /\ absdiff (file_of s) (file_of d) <> 2.
Proof.
  intros Hs Hin. pose proof (steps_lt _ _ _ Hin) as Hd.
  pose proof (sweep64_2 _ king_geom_sweep s d Hs Hd) as H.
  unfold king_geom_ok in H. apply mem_in in Hin. rewrite Hin in H. cbn [implb] in H.
  apply andb_prop in H as [H1 H2]. apply negb_true_iff in H1, H2. apply N.eqb_neq in H2. auto.
Qed.

(** ** castling squares and the rook constants *)
Definition castle_geom_ok (c:color) : bool :=
  let r := home_rank c in let s := r*8+4 in
  is_cst King s (r*8+6) && is_cst King s (r*8+2)
  && (mk_sq (my_backrank c) (nthN rs0 (sq_file (r*8+6)) 0) =? r*8+7)
  && (mk_sq (my_backrank c) (nthN re0 (sq_file (r*8+6)) 0) =? r*8+5)
  && (mk_sq (my_backrank c) (nthN rs0 (sq_file (r*8+2)) 0) =? r*8)
  && (mk_sq (my_backrank c) (nthN re0 (sq_file (r*8+2)) 0) =? r*8+3)
  && (rank_of s =? r) && (file_of (r*8+6) =? 6) && negb (file_of (r*8+2) =? 6)
  && (absdiff (file_of s) (file_of (r*8+6)) =? 2) && (absdiff (file_of s) (file_of (r*8+2)) =? 2)
  && negb (absdiff (rank_of s) (rank_of (r*8+6)) =? 2) && negb (absdiff (rank_of s) (rank_of (r*8+2)) =? 2).
Lemma castle_geom_sweep : forallb castle_geom_ok colors = true.
Proof. vm_cast_no_check (eq_refl true). Qed.

(** ** [square_to_castle_rights] *)
Definition khome (c:color) : N := match c with White => 4 | Black => 60 end.
Definition hrook (c:color) : N := match c with White => 7 | Black => 63 end.
Definition arook (c:color) : N := match c with White => 0 | Black => 56 end.
Definition sqcr_ok (c:color) (x:N) : bool :=
  Bool.eqb (N.testbit (square_to_castle_rights c x) 0) ((x =? khome c) || (x =? hrook c))
  && Bool.eqb (N.testbit (square_to_castle_rights c x) 1) ((x =? khome c) || (x =? arook c)).
Lemma sqcr_sweep : forallb (fun c => forallb (sqcr_ok c) all_sq) colors = true.
Proof. vm_cast_no_check (eq_refl true). Qed.
Lemma sqcr_meaning c x : x < 64 ->
  N.testbit (square_to_castle_rights c x) 0 = ((x =? khome c) || (x =? hrook c)) /\
  N.testbit (square_to_castle_rights c x) 1 = ((x =? khome c) || (x =? arook c)).
Proof.
  intro Hx. pose proof (sweep64 _ (sweep_col _ sqcr_sweep c) x Hx) as H.
  unfold sqcr_ok in H. apply andb_prop in H as [H1 H2]. apply beqb_eq in H1, H2. auto.
Qed.

(** ** the squares [set_ep] looks at: adjacent file, same rank *)
Definition side_dirs2 : list (Z*Z) := [(1,0);(-1,0)]%Z.
Definition adj_geom_ok (d k:N) : bool :=
  Bool.eqb (N.testbit (get_adjacent_files (sq_file d)) k && N.testbit (get_rank (sq_rank d)) k)
           (existsb (fun dir => oN_eqb (step d dir) (Some k)) side_dirs2).
Lemma adj_geom_sweep : forallb (fun d => forallb (adj_geom_ok d) all_sq) all_sq = true.
Proof. vm_cast_no_check (eq_refl true). Qed.
Lemma adj_geom d k : d < 64 -> k < 64 ->
  N.testbit (get_adjacent_files (sq_file d)) k && N.testbit (get_rank (sq_rank d)) k
  = existsb (fun dir => oN_eqb (step d dir) (Some k)) side_dirs2.
Proof. intros Hd Hk. apply beqb_eq. exact (sweep64_2 _ adj_geom_sweep d k Hd Hk). Qed.
Lemma rank_word_lt64_sweep : forallb (fun d => get_rank (sq_rank d) <? 18446744073709551616) all_sq = true.
Proof. vm_cast_no_check (eq_refl true). Qed.
Lemma rank_word_lt64 d : d < 64 -> get_rank (sq_rank d) < 2^64.
Proof.
  intro Hd. pose proof (sweep64 _ rank_word_lt64_sweep d Hd) as H. apply N.ltb_lt in H. exact H.
Qed.

(** ** the double-push masks *)
Definition dbl_mask_ok (s d:N) : bool :=
  Bool.eqb (is_dbl s d)
    (((rank_of s =? 1) || (rank_of s =? 6)) && ((rank_of d =? 3) || (rank_of d =? 4))).
Lemma dbl_mask_sweep : forallb (fun s => forallb (dbl_mask_ok s) all_sq) all_sq = true.
Proof. vm_cast_no_check (eq_refl true). Qed.
Lemma is_dbl_meaning s d : s < 64 -> d < 64 ->
  is_dbl s d = (((rank_of s =? 1) || (rank_of s =? 6)) && ((rank_of d =? 3) || (rank_of d =? 4))).
Proof. intros Hs Hd. apply beqb_eq. exact (sweep64_2 _ dbl_mask_sweep s d Hs Hd). Qed.

Lemma castle_geom c :
  let r := home_rank c in let s := r*8+4 in
  is_cst King s (r*8+6) = true /\ is_cst King s (r*8+2) = true /\
  mk_sq (my_backrank c) (nthN rs0 (sq_file (r*8+6)) 0) = r*8+7 /\
  mk_sq (my_backrank c) (nthN re0 (sq_file (r*8+6)) 0) = r*8+5 /\
  mk_sq (my_backrank c) (nthN rs0 (sq_file (r*8+2)) 0) = r*8 /\
  mk_sq (my_backrank c) (nthN re0 (sq_file (r*8+2)) 0) = r*8+3 /\
  rank_of s = r /\ file_of (r*8+6) = 6 /\ file_of (r*8+2) <> 6 /\
  absdiff (file_of s) (file_of (r*8+6)) = 2 /\ absdiff (file_of s) (file_of (r*8+2)) = 2 /\
  absdiff (rank_of s) (rank_of (r*8+6)) <> 2 /\ absdiff (rank_of s) (rank_of (r*8+2)) <> 2.
Proof.
  pose proof (sweep_col _ castle_geom_sweep c) as H. unfold castle_geom_ok in H. cbv zeta in H |- *.
  apply andb_prop in H as [H A13]. apply andb_prop in H as [H A12]. apply andb_prop in H as [H A11].
  apply andb_prop in H as [H A10]. apply andb_prop in H as [H A9]. apply andb_prop in H as [H A8].
  apply andb_prop in H as [H A7]. apply andb_prop in H as [H A6]. apply andb_prop in H as [H A5].
  apply andb_prop in H as [H A4]. apply andb_prop in H as [H A3]. apply andb_prop in H as [A1 A2].
  apply negb_true_iff in A9, A12, A13.
  apply N.eqb_eq in A3, A4, A5, A6, A7, A8, A10, A11. apply N.eqb_neq in A9, A12, A13.
  repeat split; assumption.
Qed.
