(** * Proofs.StepLink — C02b: [Board::make_move_new] refines the specification's [apply].
    Hypotheses ([StepHyp]): the occupancy words are consistent, the abstraction is a valid
    position, the move is one of its legal moves, and a stored en-passant square is on the
    board on the fourth rank of the side that just moved.
    Results: the call cannot panic ([step_some]); every square of the result reads as the
    specification says and the words stay consistent ([step_squares]); the abstraction of the
    result is [apply] of the abstraction ([step_abs]). *)
From Coq Require Import Lia ZifyBool ZifyN ZifyNat.
From Chess Require Import Base.Bits Spec.Geometry Spec.Rules Model.Board Gen.Consts.
From Chess Require Import Proofs.BitsFacts Proofs.TablesLib Proofs.TablesMeaning Proofs.AbsBoard
  Proofs.NullMove Proofs.HashSeparation Proofs.StepShape Proofs.StepApply Proofs.StepModel
  Proofs.StepClean Proofs.StepGeom.
Open Scope N_scope.

Definition ep_wf (b:board) : Prop :=
  forall e, epsq b = Some e -> e < 64 /\ sq_rank e = fourth_rk (opp (stm b)).
Record StepHyp (b:board) (m:move) : Prop := mkStepHyp {
  sh_cons : Consistent b;
  sh_valid : pos_valid (abs_board b) = true;
  sh_legal : In m (legal_moves (abs_board b));
  sh_ep : ep_wf b }.

(** ** 1. reading the board through the abstraction *)
Lemma abs_len b : length (placement (abs_board b)) = 64%nat.
Proof. unfold abs_board. cbn [placement]. rewrite map_length. reflexivity. Qed.

Lemma piece_on_abs b k : Consistent b -> k < 64 ->
  piece_on b k = match at_ (abs_board b) k with Some (t,_) => Some t | None => None end.
Proof.
  intros HC Hk. rewrite piece_on_bits, (bitsat_enc b k HC Hk).
  destruct (at_ (abs_board b) k) as [[[] []]|]; reflexivity.
Qed.

Lemma pos_valid_parts p : pos_valid p = true ->
  implb (wk p) (has p 4 King White && has p 7 Rook White) = true /\
  implb (wq p) (has p 4 King White && has p 0 Rook White) = true /\
  implb (bk p) (has p 60 King Black && has p 63 Rook Black) = true /\
  implb (bq p) (has p 60 King Black && has p 56 Rook Black) = true /\
  ep_ok p = true.
Proof.
  unfold pos_valid. intro H.
  apply andb_prop in H as [H H5]. apply andb_prop in H as [H H4]. apply andb_prop in H as [H H3].
  apply andb_prop in H as [H H2]. apply andb_prop in H as [H H1]. auto.
Qed.

(** the stored en-passant square: an enemy pawn stands on it, the square behind it is empty *)
Lemma ep_facts b e : Consistent b -> ep_ok (abs_board b) = true -> ep_wf b -> epsq b = Some e ->
  let me := stm b in let t := uforward me e in
  e < 64 /\ t < 64 /\ ep (abs_board b) = Some t /\ ubackward me t = e /\ t <> e /\
  at_ (abs_board b) e = Some (Pawn, opp me) /\ at_ (abs_board b) t = None.
Proof.
  intros HC Hok Hwf He. cbv zeta. destruct (Hwf e He) as [Hlt Hr].
  destruct (ep_geom (stm b) e Hlt Hr) as [G1 [G2 [G3 G4]]].
  assert (Hep : ep (abs_board b) = Some (uforward (stm b) e)).
  { unfold abs_board. cbn [ep]. rewrite He. reflexivity. }
  unfold ep_ok in Hok. rewrite Hep in Hok.
  change (turn (abs_board b)) with (stm b) in Hok.
  rewrite G3 in Hok.
  destruct (step (uforward (stm b) e) (0, fwdc (stm b))%Z) as [origin|];
    [|rewrite andb_false_r in Hok; discriminate Hok].
  apply andb_prop in Hok as [_ Hok].
  apply andb_prop in Hok as [Hok _]. apply andb_prop in Hok as [Hok _].
  apply andb_prop in Hok as [Hok _]. apply andb_prop in Hok as [H1 H2].
  apply has_iff in H1. apply negb_true_iff, occ_false_at in H2.
  repeat split; assumption.
Qed.

Lemma ep_none b : epsq b = None -> ep (abs_board b) = None.
Proof. intro H. unfold abs_board. cbn [ep]. rewrite H. reflexivity. Qed.

(** ** 2. the move kinds *)
Lemma has_at p s t c t' c' : at_ p s = Some (t',c') -> has p s t c = ptype_eqb t t' && color_eqb c c'.
Proof. intro H. unfold has. rewrite H. reflexivity. Qed.

Lemma dst_cap b d : Consistent b -> d < 64 -> own (abs_board b) (stm b) d = false ->
  at_ (abs_board b) d = cap_at (piece_on b d) (stm b).
Proof.
  intros HC Hd Ho. rewrite (piece_on_abs b d HC Hd). unfold own, colour_at in Ho.
  destruct (at_ (abs_board b) d) as [[q c']|]; [|reflexivity].
  apply color_eqb_neq in Ho. subst c'. reflexivity.
Qed.

Lemma apply_at_simple p m k moved :
  is_ep p m = false -> is_castle p m = false -> at_ p (src m) = Some (moved, turn p) ->
  apply_at p m k =
  (if k =? dst m then Some (match promo m with Some t => t | None => moved end, turn p)
   else if k =? src m then None else at_ p k).
Proof. unfold apply_at. intros -> -> ->. reflexivity. Qed.

(** what the per-kind analysis delivers *)
Definition KindOK (b:board) (m:move) : Prop :=
  exists moved,
    at_ (abs_board b) (src m) = Some (moved, stm b) /\
    (forall k, clean k (at_ (abs_board b) k)
                 (togs_at k (move_togs rs0 re0 b moved (src m) (dst m) (promo m)))
                 (apply_at (abs_board b) m k)) /\
    dbl_push moved (promo m) (src m) (dst m) = is_double (abs_board b) m /\
    own (abs_board b) (stm b) (dst m) = false /\ dst m < 64.

Lemma move_togs_eq rs re b moved s d promo :
  move_togs rs re b moved s d promo =
  ([(moved,s,stm b);(moved,d,stm b)] ++ cap_tog (piece_on b d) d (stm b))
  ++ special_togs rs re (epsq b) (stm b) moved s d promo.
Proof. reflexivity. Qed.

(** a pawn move that is neither a double push nor a promotion nor en passant: the model's
    en-passant test fails *)
Lemma ep_hit_false b d :
  (forall e, epsq b = Some e -> ubackward (stm b) d = e -> False) ->
  ep_hit (epsq b) (stm b) d = false.
Proof.
  intros H. unfold ep_hit. destruct (epsq b) as [e|] eqn:E; [|reflexivity].
  apply N.eqb_neq. intro He. exact (H e eq_refl He).
Qed.

Lemma opp_neq' c : opp c <> c.
Proof. destruct c; discriminate. Qed.

Section Kinds.
Variable b : board.
Notation p := (abs_board b).
Hypothesis HC : Consistent b.
Hypothesis Hok : ep_ok p = true.
Hypothesis Hwf : ep_wf b.

(** pawn moves *)
Lemma kind_pawn m : src m < 64 -> at_ p (src m) = Some (Pawn, stm b) ->
  pawn_kind p (stm b) (src m) m -> KindOK b m.
Proof.
  intros Hs Ha Hk. exists Pawn. split; [exact Ha|].
  assert (HhP : has p (src m) Pawn (stm b) = true) by (apply has_iff; exact Ha).
  assert (HhK : has p (src m) King (stm b) = false) by (rewrite (has_at _ _ _ _ _ _ Ha); reflexivity).
  assert (Hcas : is_castle p m = false).
  { unfold is_castle. change (turn p) with (stm b). rewrite HhK. reflexivity. }
  destruct Hk as [d1 E1 O1 Hi|d1 d2 E1 E2 O1 O2 Er Hm|d Hd Ee Hi|d Hd Ee Eep Hm].
  - (* single push *)
    pose proof (pawn_to_promo _ _ _ _ Hi) as Hpr. apply pawn_to_in in Hi as [_ Hdst].
    destruct (push_geom _ _ _ Hs E1) as [G1 [G2 [G3 [G4 G5]]]].
    pose proof (step_lt _ _ _ E1) as Hd1. rewrite <- Hdst in *. clear Hdst d1.
    apply occ_false_at in O1.
    assert (Hown : own p (stm b) (dst m) = false) by (unfold own, colour_at; rewrite O1; reflexivity).
    assert (Hep : is_ep p m = false).
    { unfold is_ep. rewrite G3, N.eqb_refl. cbn [negb]. rewrite andb_false_r. reflexivity. }
    assert (Hdbl : is_double p m = false).
    { unfold is_double. apply N.eqb_neq in G4. rewrite G4. apply andb_false_r. }
    pose proof (dst_cap b (dst m) HC Hd1 Hown) as Hcap.
    split; [|split; [|split; [exact Hown|exact Hd1]]].
    + intro k. rewrite (apply_at_simple p m k Pawn Hep Hcas Ha), move_togs_eq.
      change (turn p) with (stm b).
      destruct (promo m) as [t|] eqn:Ep.
      * cbn [special_togs]. apply shape_promo; [congruence|exact Ha|exact Hcap].
      * cbn [special_togs]. rewrite G2.
        rewrite ep_hit_false, app_nil_r.
        { apply shape_plain; [congruence|exact Ha|exact Hcap]. }
        intros e He Hb. rewrite G1 in Hb. subst e.
        destruct (ep_facts b (src m) HC Hok Hwf He) as [_ [_ [_ [_ [_ [F _]]]]]].
        rewrite Ha in F. injection F as F. exact (opp_neq' _ (eq_sym F)).
    + rewrite Hdbl. unfold dbl_push. destruct (promo m); [reflexivity|exact G2].
  - (* double push *)
    destruct (dbl_geom _ _ _ _ Hs E1 E2 Er) as [G1 [G2 [G3 [G4 [G5 G6]]]]].
    pose proof (step_lt _ _ _ E2) as Hd2.
    assert (Hdst : dst m = d2) by (rewrite Hm; reflexivity).
    assert (Hpr : promo m = None) by (rewrite Hm; reflexivity).
    rewrite <- Hdst in *. clear Hdst.
    apply occ_false_at in O2.
    assert (Hown : own p (stm b) (dst m) = false) by (unfold own, colour_at; rewrite O2; reflexivity).
    assert (Hep : is_ep p m = false).
    { unfold is_ep. rewrite G2, N.eqb_refl. cbn [negb]. rewrite andb_false_r. reflexivity. }
    assert (Hdbl : is_double p m = true).
    { unfold is_double. change (turn p) with (stm b). rewrite HhP, G3. reflexivity. }
    pose proof (dst_cap b (dst m) HC Hd2 Hown) as Hcap.
    split; [|split; [|split; [exact Hown|exact Hd2]]].
    + intro k. rewrite (apply_at_simple p m k Pawn Hep Hcas Ha), move_togs_eq, Hpr.
      change (turn p) with (stm b).
      cbn [special_togs]. rewrite G1, app_nil_r.
      apply shape_plain; [congruence|exact Ha|exact Hcap].
    + rewrite Hdbl, Hpr. exact G1.
  - (* capture *)
    pose proof (pawn_to_promo _ _ _ _ Hi) as Hpr. apply pawn_to_in in Hi as [_ Hdst].
    rewrite <- Hdst in *. clear Hdst.
    destruct (cap_geom _ _ _ Hs Hd) as [G1 [G2 [G3 [G4 [G5 [G6 [G7 [G8 G9]]]]]]]].
    pose proof (steps_lt _ _ _ Hd) as Hd64.
    assert (Hocc : occ p (dst m) = true) by (eapply enemy_occ, Ee).
    assert (Hown : own p (stm b) (dst m) = false).
    { apply enemy_iff in Ee as [t Et]. unfold own, colour_at. rewrite Et. apply color_eqb_opp. }
    assert (Hep : is_ep p m = false).
    { unfold is_ep. rewrite Hocc. apply andb_false_r. }
    assert (Hdbl : is_double p m = false).
    { unfold is_double. apply N.eqb_neq in G7. rewrite G7. apply andb_false_r. }
    pose proof (dst_cap b (dst m) HC Hd64 Hown) as Hcap.
    split; [|split; [|split; [exact Hown|exact Hd64]]].
    + intro k. rewrite (apply_at_simple p m k Pawn Hep Hcas Ha), move_togs_eq.
      change (turn p) with (stm b).
      destruct (promo m) as [t|] eqn:Ep.
      * cbn [special_togs]. apply shape_promo; [congruence|exact Ha|exact Hcap].
      * cbn [special_togs]. rewrite G2.
        rewrite ep_hit_false, app_nil_r.
        { apply shape_plain; [congruence|exact Ha|exact Hcap]. }
        intros e He Hb. rewrite G1 in Hb.
        destruct (ep_facts b e HC Hok Hwf He) as [_ [_ [_ [_ [_ [_ F]]]]]].
        rewrite <- Hb, G8 in F. apply occ_false_at in F. congruence.
    + rewrite Hdbl. unfold dbl_push. destruct (promo m); [reflexivity|exact G2].
  - (* en passant *)
    assert (Hdst : dst m = d) by (rewrite Hm; reflexivity).
    assert (Hpr : promo m = None) by (rewrite Hm; reflexivity).
    rewrite <- Hdst in *. clear Hdst.
    destruct (cap_geom _ _ _ Hs Hd) as [G1 [G2 [G3 [G4 [G5 [G6 [G7 [G8 G9]]]]]]]].
    pose proof (steps_lt _ _ _ Hd) as Hd64.
    destruct (epsq b) as [e|] eqn:Ee'; [|rewrite (ep_none b Ee') in Eep; discriminate Eep].
    destruct (ep_facts b e HC Hok Hwf Ee') as [F1 [F2 [F3 [F4 [F5 [F6 F7]]]]]].
    rewrite F3 in Eep. injection Eep as Eep. rewrite Eep in *.
    assert (Hev : e = rank_of (src m) * 8 + file_of (dst m)) by congruence.
    assert (Hown : own p (stm b) (dst m) = false) by (unfold own, colour_at; rewrite F7; reflexivity).
    assert (Hep : is_ep p m = true).
    { unfold is_ep. change (turn p) with (stm b). rewrite HhP. unfold occ. rewrite F7.
      apply N.eqb_neq in G6. rewrite G6. reflexivity. }
    assert (Hdbl : is_double p m = false).
    { unfold is_double. apply N.eqb_neq in G7. rewrite G7. apply andb_false_r. }
    assert (Hpo : piece_on b (dst m) = None) by (rewrite (piece_on_abs b _ HC Hd64), F7; reflexivity).
    split; [|split; [|split; [exact Hown|exact Hd64]]].
    + intro k. rewrite move_togs_eq, Hpr, Hpo. cbn [special_togs cap_tog].
      rewrite G2, Ee'. unfold ep_hit. rewrite F4, N.eqb_refl.
      unfold apply_at. rewrite Hep, Hcas, Ha, Hpr, <- Hev. change (turn p) with (stm b).
      apply shape_ep; first [assumption|congruence].
    + rewrite Hdbl, Hpr. exact G2.
Qed.

(** a man moving by its attack pattern *)
Lemma kind_plain m t : src m < 64 -> at_ p (src m) = Some (t, stm b) -> t <> Pawn ->
  plain p m -> dst m <> src m -> KindOK b m.
Proof.
  intros Hs Ha Ht [Hpr [Hin Hown]] Hne. change (turn p) with (stm b) in Hown.
  exists t. split; [exact Ha|].
  pose proof (attack_set_lt _ _ _ Hin) as Hd64.
  assert (HhP : has p (src m) Pawn (stm b) = false).
  { rewrite (has_at _ _ _ _ _ _ Ha). destruct t; try reflexivity. contradiction Ht; reflexivity. }
  assert (Hep : is_ep p m = false) by (unfold is_ep; change (turn p) with (stm b); rewrite HhP; reflexivity).
  assert (Hdbl : is_double p m = false) by (unfold is_double; change (turn p) with (stm b); rewrite HhP; reflexivity).
  assert (Hking : t = King -> is_cst King (src m) (dst m) = false /\
                              absdiff (file_of (src m)) (file_of (dst m)) <> 2).
  { intros ->. unfold attack_set in Hin. rewrite Ha in Hin. exact (king_geom _ _ Hs Hin). }
  assert (Hcas : is_castle p m = false).
  { unfold is_castle. change (turn p) with (stm b). rewrite (has_at _ _ _ _ _ _ Ha).
    destruct t; try reflexivity. destruct (Hking eq_refl) as [_ Hf]. apply N.eqb_neq in Hf.
    rewrite Hf. apply andb_false_r. }
  assert (Hsp : special_togs rs0 re0 (epsq b) (stm b) t (src m) (dst m) None = []).
  { destruct t; try reflexivity; [contradiction Ht; reflexivity|].
    cbn [special_togs]. rewrite (proj1 (Hking eq_refl)). reflexivity. }
  pose proof (dst_cap b (dst m) HC Hd64 Hown) as Hcap.
  split; [|split; [|split; [exact Hown|exact Hd64]]].
  - intro k. rewrite (apply_at_simple p m k t Hep Hcas Ha), move_togs_eq, Hpr, Hsp, app_nil_r.
    change (turn p) with (stm b).
    apply shape_plain; [congruence|exact Ha|exact Hcap].
  - rewrite Hdbl, Hpr. destruct t; try reflexivity. contradiction Ht; reflexivity.
Qed.

(** castling *)
Lemma kind_castle m : at_ p (src m) = Some (King, stm b) -> castle_kind p (stm b) m -> KindOK b m.
Proof.
  intros Ha Hk. exists King. split; [exact Ha|].
  destruct (castle_geom (stm b)) as [A1 [A2 [A3 [A4 [A5 [A6 [A7 [A8 [A9 [A10 [A11 [A12 A13]]]]]]]]]]]].
  cbv zeta in *.
  pose proof (home_rank_cases (stm b)) as Hr.
  assert (HhP : has p (src m) Pawn (stm b) = false) by (rewrite (has_at _ _ _ _ _ _ Ha); reflexivity).
  assert (HhK : has p (src m) King (stm b) = true) by (apply has_iff; exact Ha).
  assert (Hep : is_ep p m = false) by (unfold is_ep; change (turn p) with (stm b); rewrite HhP; reflexivity).
  assert (Hdbl : is_double p m = false) by (unfold is_double; change (turn p) with (stm b); rewrite HhP; reflexivity).
  remember (home_rank (stm b)) as r eqn:Er in *.
  destruct Hk as [Hk1 _ Hk3 O5 O6 Hm|Hk1 _ Hk3 O1 O2 O3 Hm].
  - rewrite <- Er in *.
    assert (Hsrc : src m = r*8+4) by (rewrite Hm; reflexivity).
    assert (Hdst : dst m = r*8+6) by (rewrite Hm; reflexivity).
    assert (Hpr : promo m = None) by (rewrite Hm; reflexivity).
    apply has_iff in Hk3. apply occ_false_at in O5, O6.
    assert (Hown : own p (stm b) (dst m) = false) by (unfold own, colour_at; rewrite Hdst, O6; reflexivity).
    assert (Hd64 : dst m < 64) by lia.
    assert (Hcas : is_castle p m = true).
    { unfold is_castle. change (turn p) with (stm b). rewrite HhK, Hsrc, Hdst, A10. reflexivity. }
    assert (Hpo : piece_on b (dst m) = None) by (rewrite (piece_on_abs b _ HC Hd64), Hdst, O6; reflexivity).
    split; [|split; [|split; [exact Hown|exact Hd64]]].
    + intro k. rewrite move_togs_eq, Hpr, Hpo. cbn [special_togs cap_tog].
      unfold apply_at. rewrite Hep, Hcas, Ha, Hpr. change (turn p) with (stm b).
      rewrite Hsrc, Hdst in *. rewrite A1, A3, A4, A7, A8, N.eqb_refl.
      apply shape_castle; first [assumption|lia].
    + rewrite Hdbl. reflexivity.
  - rewrite <- Er in *.
    assert (Hsrc : src m = r*8+4) by (rewrite Hm; reflexivity).
    assert (Hdst : dst m = r*8+2) by (rewrite Hm; reflexivity).
    assert (Hpr : promo m = None) by (rewrite Hm; reflexivity).
    apply has_iff in Hk3. apply occ_false_at in O1, O2, O3.
    assert (Hown : own p (stm b) (dst m) = false) by (unfold own, colour_at; rewrite Hdst, O2; reflexivity).
    assert (Hd64 : dst m < 64) by lia.
    assert (Hcas : is_castle p m = true).
    { unfold is_castle. change (turn p) with (stm b). rewrite HhK, Hsrc, Hdst, A11. reflexivity. }
    assert (Hpo : piece_on b (dst m) = None) by (rewrite (piece_on_abs b _ HC Hd64), Hdst, O2; reflexivity).
    split; [|split; [|split; [exact Hown|exact Hd64]]].
    + intro k. rewrite move_togs_eq, Hpr, Hpo. cbn [special_togs cap_tog].
      unfold apply_at. rewrite Hep, Hcas, Ha, Hpr. change (turn p) with (stm b).
      rewrite Hsrc, Hdst in *. rewrite A2, A5, A6, A7.
      apply N.eqb_neq in A9. rewrite A9.
      apply shape_castle; first [assumption|lia].
    + rewrite Hdbl. reflexivity.
Qed.

Theorem kinds_ok m : src m < 64 -> move_kind p m -> KindOK b m.
Proof.
  intros Hs Hk. pose proof (move_kind_dst p m Hs Hk) as [_ Hne].
  destruct Hk as [Ha Hk|Ha Hk|t Ha Ht Hpl].
  - exact (kind_pawn m Hs Ha Hk).
  - exact (kind_castle m Ha Hk).
  - exact (kind_plain m t Hs Ha Ht Hpl Hne).
Qed.
End Kinds.

(** ** 3. everything known about the result, in one statement *)
Definition the_togs (b:board) (m:move) (moved:ptype) : list tog :=
  move_togs rs0 re0 b moved (src m) (dst m) (promo m).

Lemma make_move_new_gen b s d promo : make_move_new b s d promo = make_move_gen rs0 re0 b s d promo.
Proof. reflexivity. Qed.

Lemma step_hyp_parts b m : StepHyp b m ->
  Consistent b /\ ep_ok (abs_board b) = true /\ ep_wf b /\ src m < 64 /\ move_kind (abs_board b) m.
Proof.
  intros [HC HV HL Hwf]. destruct (pos_valid_parts _ HV) as [_ [_ [_ [_ Hok]]]].
  destruct (legal_kind _ _ HL) as [Hs Hk]. auto.
Qed.

Theorem step_master b m : StepHyp b m ->
  exists moved b',
    make_move_new b (src m) (dst m) (promo m) = Some b' /\
    at_ (abs_board b) (src m) = Some (moved, stm b) /\
    src m < 64 /\ dst m < 64 /\ own (abs_board b) (stm b) (dst m) = false /\
    Forall (fun g => tog_sq g < 64) (the_togs b m moved) /\
    (forall k, bitsat b' k = xor9s (bitsat b k) (togs_at k (the_togs b m moved))) /\
    (forall k, clean k (at_ (abs_board b) k) (togs_at k (the_togs b m moved))
                     (apply_at (abs_board b) m k)) /\
    hash b' = hfold (the_togs b m moved) (hash b) /\
    stm b' = opp (stm b) /\
    crW b' = cr_remove (crW b) (square_to_castle_rights White
                                  (match stm b with White => src m | Black => dst m end)) /\
    crB b' = cr_remove (crB b) (square_to_castle_rights Black
                                  (match stm b with White => dst m | Black => src m end)) /\
    epsq b' = (if is_double (abs_board b) m
               then if negb (ep_word (apply_togs b (base_togs b moved (src m) (dst m)))
                                     (opp (stm b)) (dst m) =? 0)
                    then Some (dst m) else None
               else None).
Proof.
  intro H. destruct (step_hyp_parts b m H) as [HC [Hok [Hwf [Hs Hk]]]].
  destruct (kinds_ok b HC Hok Hwf m Hs Hk) as [moved [Ha [Hcl [Hdbl [Hown Hd]]]]].
  assert (Hpo : piece_on b (src m) = Some moved) by (rewrite (piece_on_abs b _ HC Hs), Ha; reflexivity).
  destruct (mm_desc rs0 re0 b (src m) (dst m) (promo m) moved Hpo)
    as [b' [E [D1 [D2 [D3 [D4 [D5 D6]]]]]]].
  exists moved, b'. rewrite make_move_new_gen.
  split; [exact E|]. split; [exact Ha|]. split; [exact Hs|]. split; [exact Hd|]. split; [exact Hown|].
  split.
  { unfold the_togs, move_togs. apply Forall_app. split;
      [apply base_togs_lt; assumption|apply special_togs_lt; exact Hd]. }
  split; [intro k; rewrite D1; apply fold_tog9_at|].
  split; [exact Hcl|]. split; [exact (D2 Hs Hd)|]. split; [exact D3|]. split; [exact D4|].
  split; [exact D5|]. rewrite D6, Hdbl. reflexivity.
Qed.

(** ** 4. G1: the call cannot panic *)
Theorem step_some b m : StepHyp b m ->
  exists b', make_move_new b (src m) (dst m) (promo m) = Some b'.
Proof. intro H. destruct (step_master b m H) as [moved [b' [E _]]]. exists b'. exact E. Qed.

(** ** 5. G2: square by square, and consistency *)
Lemma word_high (b b':board) (f:sqb->bool) (w w':N) :
  (forall k, N.testbit w' k = f (bitsat b' k)) -> (forall k, N.testbit w k = f (bitsat b k)) ->
  w < 2^64 -> (forall k, 64 <= k -> bitsat b' k = bitsat b k) -> w' < 2^64.
Proof.
  intros H' H Hw Hb. apply lt64_bits. intros k Hk. rewrite H', (Hb k Hk), <- H.
  apply (BitsFacts.testbit_high w k Hw Hk).
Qed.

Theorem step_squares b m b' : StepHyp b m ->
  make_move_new b (src m) (dst m) (promo m) = Some b' ->
  (forall k, k < 64 -> bitsat b' k = enc (at_ (apply (abs_board b) m) k)) /\
  (forall k, k < 64 -> dec (bitsat b' k) = at_ (apply (abs_board b) m) k) /\
  Consistent b'.
Proof.
  intros H E. destruct (step_master b m H) as [moved [b2 [E2 [Ha [Hs [Hd [Hown [Hlt [Hb [Hcl _]]]]]]]]]].
  rewrite E in E2. injection E2 as <-.
  destruct H as [HC _ _ _].
  assert (S1 : forall k, k < 64 -> bitsat b' k = enc (at_ (apply (abs_board b) m) k)).
  { intros k Hk. rewrite Hb, (bitsat_enc b k HC Hk), (at_apply _ _ _ (abs_len b) Hs Hd).
    exact (proj1 (Hcl k)). }
  assert (S2 : forall k, 64 <= k -> bitsat b' k = bitsat b k).
  { intros k Hk. rewrite Hb, (togs_at_high k _ Hlt Hk). reflexivity. }
  split; [exact S1|]. split; [intros k Hk; rewrite (S1 k Hk); apply dec_enc|].
  apply bits_cons.
  - apply (word_high b b' bP (pP b)); try assumption; try reflexivity. exact (cs_pieces_lt b HC Pawn).
  - apply (word_high b b' bN (pN b)); try assumption; try reflexivity. exact (cs_pieces_lt b HC Knight).
  - apply (word_high b b' bB (pB b)); try assumption; try reflexivity. exact (cs_pieces_lt b HC Bishop).
  - apply (word_high b b' bR (pR b)); try assumption; try reflexivity. exact (cs_pieces_lt b HC Rook).
  - apply (word_high b b' bQ (pQ b)); try assumption; try reflexivity. exact (cs_pieces_lt b HC Queen).
  - apply (word_high b b' bK (pK b)); try assumption; try reflexivity. exact (cs_pieces_lt b HC King).
  - apply (word_high b b' bW (cW b)); try assumption; try reflexivity. exact (cs_colors_lt b HC White).
  - apply (word_high b b' bL (cB b)); try assumption; try reflexivity. exact (cs_colors_lt b HC Black).
  - apply (word_high b b' bC (comb b)); try assumption; try reflexivity. exact (cs_comb_lt b HC).
  - intro k. destruct (N.lt_ge_cases k 64) as [Hk|Hk].
    + rewrite (S1 k Hk). apply ok9_enc.
    + rewrite (S2 k Hk). apply cons_bits, HC.
Qed.

(** ** 6. G3: the abstraction of the result *)
Lemma cr_remove_bit cr r i : i < 2 ->
  N.testbit (cr_remove cr r) i = N.testbit cr i && negb (N.testbit r i).
Proof.
  intro Hi. unfold cr_remove, lnot64. rewrite !N.land_spec, N.lxor_spec.
  change M64 with (N.ones 64). rewrite N.ones_spec_low by lia.
  change 3 with (N.ones 2). rewrite N.ones_spec_low by exact Hi.
  rewrite andb_true_r. destruct (N.testbit r i); reflexivity.
Qed.

(** a castling right that is still there is backed by two own men on their home squares; so
    the destination (not own) respectively the source (own) of the other side's test is
    irrelevant *)
Lemma touch_agree p me c s d moved x1 x2 t1 t2 :
  at_ p s = Some (moved, me) -> own p me d = false ->
  at_ p x1 = Some (t1,c) -> at_ p x2 = Some (t2,c) ->
  let x := if color_eqb me c then s else d in
  ((x =? x1) || (x =? x2)) = (((s =? x1) || (d =? x1)) || ((s =? x2) || (d =? x2))).
Proof.
  intros Hs Hd H1 H2. cbv zeta.
  destruct (color_eqb me c) eqn:Ec.
  - apply color_eqb_eq in Ec. subst c.
    assert (N1 : (d =? x1) = false).
    { apply N.eqb_neq. intros ->. unfold own, colour_at in Hd. rewrite H1, color_eqb_refl in Hd. discriminate. }
    assert (N2 : (d =? x2) = false).
    { apply N.eqb_neq. intros ->. unfold own, colour_at in Hd. rewrite H2, color_eqb_refl in Hd. discriminate. }
    rewrite N1, N2, !orb_false_r. reflexivity.
  - assert (N1 : (s =? x1) = false).
    { apply N.eqb_neq. intros ->. rewrite H1 in Hs. injection Hs as _ ->. rewrite color_eqb_refl in Ec. discriminate. }
    assert (N2 : (s =? x2) = false).
    { apply N.eqb_neq. intros ->. rewrite H2 in Hs. injection Hs as _ ->. rewrite color_eqb_refl in Ec. discriminate. }
    rewrite N1, N2. reflexivity.
Qed.

Lemma right_step p me c s d moved (cr:N) (i:N) (hk hr:N) (x:N) (right:bool) :
  i < 2 -> x < 64 ->
  at_ p s = Some (moved, me) -> own p me d = false ->
  x = (if color_eqb me c then s else d) ->
  right = N.testbit cr i ->
  implb right (has p hk King c && has p hr Rook c) = true ->
  N.testbit (square_to_castle_rights c x) i = ((x =? hk) || (x =? hr)) ->
  N.testbit (cr_remove cr (square_to_castle_rights c x)) i
  = right && negb (((s =? hk) || (d =? hk)) || ((s =? hr) || (d =? hr))).
Proof.
  intros Hi Hx Hs Hd Ex Er Himp Hm. rewrite (cr_remove_bit _ _ _ Hi), Hm, <- Er.
  destruct right; [|reflexivity]. cbn [implb] in Himp. apply andb_prop in Himp as [H1 H2].
  apply has_iff in H1, H2. cbn [andb]. f_equal. rewrite Ex.
  exact (touch_agree p me c s d moved hk hr King Rook Hs Hd H1 H2).
Qed.

Lemma color_eqb_sym_opp c : color_eqb (opp c) c = false.
Proof. destruct c; reflexivity. Qed.

(** the board [set_ep] looks at, square by square *)
Lemma base_bits b moved s d : Consistent b -> s < 64 -> d < 64 -> s <> d ->
  at_ (abs_board b) s = Some (moved, stm b) -> own (abs_board b) (stm b) d = false ->
  forall k, k < 64 ->
  bitsat (apply_togs b (base_togs b moved s d)) k
  = enc (if k =? d then Some (moved, stm b) else if k =? s then None else at_ (abs_board b) k).
Proof.
  intros HC Hs Hd Hne Ha Hown k Hk.
  rewrite bitsat_apply_togs, fold_tog9_at, (bitsat_enc b k HC Hk).
  change (base_togs b moved s d)
    with ([(moved,s,stm b);(moved,d,stm b)] ++ cap_tog (piece_on b d) d (stm b)).
  exact (proj1 (shape_plain (at_ (abs_board b)) s d (stm b) Hne moved (piece_on b d) Ha
                 (dst_cap b d HC Hd Hown) k)).
Qed.

Lemma ep_word_bits b moved s d k : Consistent b -> s < 64 -> d < 64 -> s <> d ->
  at_ (abs_board b) s = Some (moved, stm b) -> at_ (abs_board b) d = None -> k < 64 ->
  N.testbit (ep_word (apply_togs b (base_togs b moved s d)) (opp (stm b)) d) k
  = (N.testbit (get_adjacent_files (sq_file d)) k && N.testbit (get_rank (sq_rank d)) k)
    && has (abs_board b) k Pawn (opp (stm b)).
Proof.
  intros HC Hs Hd Hne Ha Hd0 Hk.
  assert (Hown : own (abs_board b) (stm b) d = false) by (unfold own, colour_at; rewrite Hd0; reflexivity).
  pose proof (base_bits b moved s d HC Hs Hd Hne Ha Hown k Hk) as Hb.
  set (r1 := apply_togs b (base_togs b moved s d)) in *.
  unfold ep_word. rewrite !N.land_spec.
  change (N.testbit (pP r1) k) with (pget Pawn (bitsat r1 k)).
  rewrite <- cget_bitsat, Hb, pget_enc, cget_enc, <- andb_assoc. f_equal.
  destruct (N.eqb_spec k d) as [->|Hkd].
  - unfold has. rewrite Hd0. rewrite color_eqb_sym_opp. apply andb_false_r.
  - destruct (N.eqb_spec k s) as [->|Hks].
    + unfold has. rewrite Ha. rewrite color_eqb_sym_opp. symmetry. apply andb_false_r.
    + unfold has. destruct (at_ (abs_board b) k) as [[q c']|]; reflexivity.
Qed.

Lemma ep_word_existsb b moved s d : Consistent b -> s < 64 -> d < 64 -> s <> d ->
  at_ (abs_board b) s = Some (moved, stm b) -> at_ (abs_board b) d = None ->
  negb (ep_word (apply_togs b (base_togs b moved s d)) (opp (stm b)) d =? 0)
  = existsb (fun dir => match step d dir with
                        | Some x => has (abs_board b) x Pawn (opp (stm b)) | None => false end)
            [(1,0);(-1,0)]%Z.
Proof.
  intros HC Hs Hd Hne Ha Hd0.
  set (W := ep_word (apply_togs b (base_togs b moved s d)) (opp (stm b)) d).
  pose proof (fun k => ep_word_bits b moved s d k HC Hs Hd Hne Ha Hd0) as Hbits. fold W in Hbits.
  destruct (existsb _ _) eqn:E.
  - apply existsb_exists in E as [dir [Hin Hx]].
    destruct (step d dir) as [x|] eqn:Es; [|discriminate Hx].
    pose proof (step_lt _ _ _ Es) as Hx64.
    assert (Hb : N.testbit W x = true).
    { rewrite (Hbits x Hx64), Hx, (adj_geom d x Hd Hx64), andb_true_r.
      apply existsb_exists. exists dir. split; [exact Hin|]. rewrite Es. cbn [oN_eqb]. apply N.eqb_refl. }
    apply negb_true_iff, N.eqb_neq. intro H0. rewrite H0, N.bits_0 in Hb. discriminate Hb.
  - apply negb_false_iff, N.eqb_eq, N.bits_inj_0. intro k.
    destruct (N.lt_ge_cases k 64) as [Hk|Hk].
    + rewrite (Hbits k Hk), (adj_geom d k Hd Hk).
      destruct (existsb (fun dir => oN_eqb (step d dir) (Some k)) side_dirs2) eqn:E2; [|reflexivity].
      apply existsb_exists in E2 as [dir [Hin Hx]]. apply oN_eqb_eq in Hx.
      cbn [andb]. destruct (has (abs_board b) k Pawn (opp (stm b))) eqn:Hh; [|reflexivity].
      exfalso. assert (Et : existsb (fun dir0 => match step d dir0 with
                        | Some x => has (abs_board b) x Pawn (opp (stm b)) | None => false end)
            [(1,0);(-1,0)]%Z = true).
      { apply existsb_exists. exists dir. split; [exact Hin|]. rewrite Hx. exact Hh. }
      rewrite Et in E. discriminate E.
    + unfold W, ep_word. rewrite !N.land_spec.
      rewrite (BitsFacts.testbit_high _ k (rank_word_lt64 d Hd) Hk), andb_false_r. reflexivity.
Qed.

Theorem step_abs b m b' : StepHyp b m ->
  make_move_new b (src m) (dst m) (promo m) = Some b' ->
  abs_board b' = apply (abs_board b) m.
Proof.
  intros H E. pose proof (step_squares b m b' H E) as [_ [S2 HC']].
  destruct (step_master b m H)
    as [moved [b2 [E2 [Ha [Hs [Hd [Hown [_ [_ [_ [_ [D3 [D4 [D5 D6]]]]]]]]]]]]]].
  rewrite E in E2. injection E2 as <-.
  destruct (step_hyp_parts b m H) as [HC [Hok [Hwf [_ Hk]]]].
  destruct H as [_ HV _ _]. destruct (pos_valid_parts _ HV) as [V1 [V2 [V3 [V4 _]]]].
  destruct (move_kind_dst _ _ Hs Hk) as [_ Hne].
  apply pos_ext.
  - (* placement *)
    apply placement_ext; [apply abs_len|rewrite length_apply; apply abs_len|].
    intros k Hk64. rewrite <- !at_atl, (at_abs_dec b' k Hk64). exact (S2 k Hk64).
  - exact D3.
  - (* wk *)
    unfold abs_board at 1. cbn [wk]. unfold cr_has_kingside. rewrite D4, wk_apply. unfold touch.
    apply (right_step (abs_board b) (stm b) White (src m) (dst m) moved (crW b) 0 4 7); try assumption;
      try reflexivity; try lia.
    + destruct (stm b); assumption.
    + destruct (stm b); reflexivity.
    + apply (sqcr_meaning White). destruct (stm b); assumption.
  - (* wq *)
    unfold abs_board at 1. cbn [wq]. unfold cr_has_queenside. rewrite D4, wq_apply. unfold touch.
    apply (right_step (abs_board b) (stm b) White (src m) (dst m) moved (crW b) 1 4 0); try assumption;
      try reflexivity; try lia.
    + destruct (stm b); assumption.
    + destruct (stm b); reflexivity.
    + apply (sqcr_meaning White). destruct (stm b); assumption.
  - (* bk *)
    unfold abs_board at 1. cbn [bk]. unfold cr_has_kingside. rewrite D5, bk_apply. unfold touch.
    apply (right_step (abs_board b) (stm b) Black (src m) (dst m) moved (crB b) 0 60 63); try assumption;
      try reflexivity; try lia.
    + destruct (stm b); assumption.
    + destruct (stm b); reflexivity.
    + apply (sqcr_meaning Black). destruct (stm b); assumption.
  - (* bq *)
    unfold abs_board at 1. cbn [bq]. unfold cr_has_queenside. rewrite D5, bq_apply. unfold touch.
    apply (right_step (abs_board b) (stm b) Black (src m) (dst m) moved (crB b) 1 60 56); try assumption;
      try reflexivity; try lia.
    + destruct (stm b); assumption.
    + destruct (stm b); reflexivity.
    + apply (sqcr_meaning Black). destruct (stm b); assumption.
  - (* ep *)
    unfold abs_board at 1. cbn [ep]. rewrite D6, D3, ep_apply. unfold apply_ep.
    change (turn (abs_board b)) with (stm b).
    destruct (is_double (abs_board b) m) eqn:Ed; [|reflexivity].
    destruct (is_double_kind _ _ Hs Hk Ed) as [d1 [E1 [E2' [O1 [O2 [Er Hm]]]]]].
    change (turn (abs_board b)) with (stm b) in *.
    destruct (dbl_geom _ _ _ _ Hs E1 E2' Er) as [G1 [G2 [G3 [G4 [G5 G6]]]]].
    apply occ_false_at in O2.
    rewrite (ep_word_existsb b moved (src m) (dst m) HC Hs Hd (not_eq_sym Hne) Ha O2).
    destruct (existsb _ _); [|reflexivity]. rewrite G4. reflexivity.
Qed.

(** ** 7. the side invariants are kept *)
Theorem step_invariants b m b' : StepHyp b m ->
  make_move_new b (src m) (dst m) (promo m) = Some b' ->
  ep_wf b' /\ crW b' < 4 /\ crB b' < 4.
Proof.
  intros H E.
  destruct (step_master b m H)
    as [moved [b2 [E2 [Ha [Hs [Hd [Hown [_ [_ [_ [_ [D3 [D4 [D5 D6]]]]]]]]]]]]]].
  rewrite E in E2. injection E2 as <-.
  destruct (step_hyp_parts b m H) as [HC [Hok [Hwf [_ Hk]]]].
  split; [|split; [rewrite D4|rewrite D5]; unfold cr_remove; apply land3_lt].
  intros e He. rewrite D6 in He. rewrite D3, opp_opp.
  destruct (is_double (abs_board b) m) eqn:Ed; [|discriminate He].
  destruct (negb _); [|discriminate He]. injection He as <-.
  destruct (is_double_kind _ _ Hs Hk Ed) as [d1 [E1 [E2' [O1 [O2 [Er Hm]]]]]].
  change (turn (abs_board b)) with (stm b) in *.
  destruct (dbl_geom _ _ _ _ Hs E1 E2' Er) as [G1 [G2 [G3 [G4 [G5 G6]]]]].
  split; assumption.
Qed.

(** ** 8. Examples: the hypotheses are satisfiable, the conclusions are not vacuous *)
Example start_hyp : StepHyp (from_scratch startpos) (mv 12 28).
Proof.
  constructor.
  - apply canonical_consistent, startboard_canonical.
  - rewrite startboard_abs. vm_compute. reflexivity.
  - rewrite startboard_abs. vm_compute. tauto.
  - intros e He. vm_compute in He. discriminate He.
Qed.
Example start_step :
  exists b', make_move_new (from_scratch startpos) 12 28 None = Some b' /\
             abs_board b' = apply startpos (mv 12 28) /\ stm b' = Black /\ epsq b' = None.
Proof. eexists. split; [vm_compute; reflexivity|]. vm_compute. auto. Qed.
