(** * C13 — UCI text of squares and moves: every move value (64 x 64 x {none,q,n,r,b} = 20480)
    and every square (64) renders as file letter, rank digit (twice for a move) and an optional
    lower-case promotion letter, and that text parses back to the identical value; parsing
    ANY string never panics, and whenever it succeeds the rendering of the result is a prefix
    of the input. *)
From Chess Require Import Base.Text Spec.Rules Model.Board Model.MoveGen Model.Fen Proofs.UciText.
Open Scope N_scope.

Theorem C13_square_display_shape : forall s, square_display s = [97 + s mod 8; 49 + s / 8].
Proof. exact square_display_shape. Qed.
Theorem C13_square_display_chars : forall s, s < 64 ->
  exists f r, square_display s = [f; r] /\ 97 <= f <= 104 /\ 49 <= r <= 56
              /\ f = 97 + s mod 8 /\ r = 49 + s / 8.
Proof. exact square_display_chars. Qed.
Theorem C13_move_display_shape : forall m,
  move_display m = square_display (msrc m) ++ square_display (mdst m)
                   ++ match mpromo m with Some p => [piece_letter p] | None => [] end.
Proof. exact move_display_shape. Qed.
Theorem C13_promo_letters :
  piece_letter Queen = 113 /\ piece_letter Knight = 110 /\
  piece_letter Rook = 114 /\ piece_letter Bishop = 98.
Proof. exact promo_letters. Qed.

Theorem C13_square_roundtrip : forall s, s < 64 -> square_from_str (square_display s) = Ok s.
Proof. exact square_roundtrip. Qed.
Theorem C13_move_roundtrip : forall s d p, s < 64 -> d < 64 ->
  In p [None; Some Queen; Some Knight; Some Rook; Some Bishop] ->
  move_from_str (move_display {| msrc:=s; mdst:=d; mpromo:=p |})
  = Ok {| msrc:=s; mdst:=d; mpromo:=p |}.
Proof. exact move_roundtrip. Qed.

Theorem C13_square_from_str_total : forall s, square_from_str s <> Panic.
Proof. exact square_from_str_total. Qed.
Theorem C13_move_from_str_total : forall s, move_from_str s <> Panic.
Proof. exact move_from_str_total. Qed.

Theorem C13_square_prefix : forall s q, square_from_str s = Ok q ->
  q < 64 /\ is_prefix (square_display q) s = true.
Proof. exact square_prefix. Qed.
Theorem C13_move_prefix : forall s m, move_from_str s = Ok m ->
  is_prefix (move_display m) s = true.
Proof. exact move_prefix. Qed.
Theorem C13_move_from_str_range : forall s m, move_from_str s = Ok m ->
  msrc m < 64 /\ mdst m < 64 /\
  In (mpromo m) [None; Some Queen; Some Knight; Some Rook; Some Bishop].
Proof. exact move_from_str_range. Qed.
Theorem C13_square_from_str_ok : forall s q, square_from_str s = Ok q ->
  exists c0 c1 t, s = c0 :: c1 :: t /\ 97 <= c0 <= 104 /\ 49 <= c1 <= 56
                  /\ q = (c0 - 97) + 8 * (c1 - 49) /\ square_display q = [c0; c1].
Proof. exact square_from_str_ok. Qed.
Theorem C13_move_from_str_ok : forall s m, move_from_str s = Ok m ->
  exists c0 c1 d0 d1 rest,
    s = c0 :: c1 :: d0 :: d1 :: rest
    /\ 97 <= c0 <= 104 /\ 49 <= c1 <= 56 /\ 97 <= d0 <= 104 /\ 49 <= d1 <= 56
    /\ msrc m = (c0 - 97) + 8 * (c1 - 49) /\ mdst m = (d0 - 97) + 8 * (d1 - 49)
    /\ square_display (msrc m) = [c0; c1] /\ square_display (mdst m) = [d0; d1]
    /\ ((byte_len rest <> 1 /\ mpromo m = None)
        \/ (exists p, rest = [piece_letter p] /\ mpromo m = Some p
                      /\ In (Some p) [None; Some Queen; Some Knight; Some Rook; Some Bishop])).
Proof. exact move_from_str_ok. Qed.
Theorem C13_move_reparse : forall s m, move_from_str s = Ok m ->
  move_from_str (move_display m) = Ok m.
Proof. exact move_reparse. Qed.

Check C13_square_display_shape : forall s : N, square_display s = [97 + s mod 8; 49 + s / 8].
Print Assumptions C13_square_display_shape.
Check C13_square_display_chars : forall s : N, s < 64 ->
  exists f r, square_display s = [f; r] /\ 97 <= f <= 104 /\ 49 <= r <= 56
              /\ f = 97 + s mod 8 /\ r = 49 + s / 8.
Print Assumptions C13_square_display_chars.
Check C13_move_display_shape : forall m : cmove,
  move_display m = square_display (msrc m) ++ square_display (mdst m)
                   ++ match mpromo m with Some p => [piece_letter p] | None => [] end.
Print Assumptions C13_move_display_shape.
Check C13_promo_letters :
  piece_letter Queen = 113 /\ piece_letter Knight = 110 /\
  piece_letter Rook = 114 /\ piece_letter Bishop = 98.
Print Assumptions C13_promo_letters.
Check C13_square_roundtrip : forall s : N, s < 64 -> square_from_str (square_display s) = Ok s.
Print Assumptions C13_square_roundtrip.
Check C13_move_roundtrip : forall (s d : N) (p : option ptype), s < 64 -> d < 64 ->
  In p [None; Some Queen; Some Knight; Some Rook; Some Bishop] ->
  move_from_str (move_display {| msrc:=s; mdst:=d; mpromo:=p |})
  = Ok {| msrc:=s; mdst:=d; mpromo:=p |}.
Print Assumptions C13_move_roundtrip.
Check C13_square_from_str_total : forall s : str, square_from_str s <> Panic.
Print Assumptions C13_square_from_str_total.
Check C13_move_from_str_total : forall s : str, move_from_str s <> Panic.
Print Assumptions C13_move_from_str_total.
Check C13_square_prefix : forall (s : str) (q : N), square_from_str s = Ok q ->
  q < 64 /\ is_prefix (square_display q) s = true.
Print Assumptions C13_square_prefix.
Check C13_move_prefix : forall (s : str) (m : cmove), move_from_str s = Ok m ->
  is_prefix (move_display m) s = true.
Print Assumptions C13_move_prefix.
Check C13_move_from_str_range : forall (s : str) (m : cmove), move_from_str s = Ok m ->
  msrc m < 64 /\ mdst m < 64 /\
  In (mpromo m) [None; Some Queen; Some Knight; Some Rook; Some Bishop].
Print Assumptions C13_move_from_str_range.
Check C13_square_from_str_ok : forall (s : str) (q : N), square_from_str s = Ok q ->
  exists c0 c1 t, s = c0 :: c1 :: t /\ 97 <= c0 <= 104 /\ 49 <= c1 <= 56
                  /\ q = (c0 - 97) + 8 * (c1 - 49) /\ square_display q = [c0; c1].
Print Assumptions C13_square_from_str_ok.
Check C13_move_from_str_ok : forall (s : str) (m : cmove), move_from_str s = Ok m ->
  exists c0 c1 d0 d1 rest,
    s = c0 :: c1 :: d0 :: d1 :: rest
    /\ 97 <= c0 <= 104 /\ 49 <= c1 <= 56 /\ 97 <= d0 <= 104 /\ 49 <= d1 <= 56
    /\ msrc m = (c0 - 97) + 8 * (c1 - 49) /\ mdst m = (d0 - 97) + 8 * (d1 - 49)
    /\ square_display (msrc m) = [c0; c1] /\ square_display (mdst m) = [d0; d1]
    /\ ((byte_len rest <> 1 /\ mpromo m = None)
        \/ (exists p, rest = [piece_letter p] /\ mpromo m = Some p
                      /\ In (Some p) [None; Some Queen; Some Knight; Some Rook; Some Bishop])).
Print Assumptions C13_move_from_str_ok.
Check C13_move_reparse : forall (s : str) (m : cmove), move_from_str s = Ok m ->
  move_from_str (move_display m) = Ok m.
Print Assumptions C13_move_reparse.
