(** * Proofs.TablesEq — C16a: the generated lookup tables of the library ([Gen/Tables.v]),
    the tabulated graphs of its public accessors ([Gen/FiniteFns.v]) and the closed forms of
    [Spec/Geometry.v] / [Model/Board.v] coincide.  Everything here is by computation; the
    statements mention the generated constants by name only. *)
From Coq Require Import Lia ZifyBool ZifyN ZifyNat.
From Chess Require Import Base.Bits Spec.Geometry Gen.Tables Gen.FiniteFns Model.Board.
From Chess Require Import Proofs.TablesLib.
Open Scope N_scope.

(** ** 1. generated table = pre-evaluated closed-form table *)
Lemma G_KING_MOVES_eq : G_KING_MOVES = KING.
Proof. vm_compute. reflexivity. Qed.
Lemma G_KNIGHT_MOVES_eq : G_KNIGHT_MOVES = KNIGHT.
Proof. vm_compute. reflexivity. Qed.
(** [RAYS[ROOK=0][sq]] then [RAYS[BISHOP=1][sq]] *)
Lemma G_RAYS_eq : G_RAYS = RRAYS ++ BRAYS.
Proof. vm_compute. reflexivity. Qed.
(** [BETWEEN[a][b]] flattened, index [a*64+b] *)
Lemma G_BETWEEN_eq : G_BETWEEN = concat BETWEEN.
Proof. vm_compute. reflexivity. Qed.
Lemma G_LINE_eq : G_LINE = concat LINE.
Proof. vm_compute. reflexivity. Qed.
(** [PAWN_ATTACKS[White=0][sq]] then [PAWN_ATTACKS[Black=1][sq]] *)
Lemma G_PAWN_ATTACKS_eq : G_PAWN_ATTACKS = PATT_W ++ PATT_B.
Proof. vm_compute. reflexivity. Qed.
Lemma G_PAWN_MOVES_eq : G_PAWN_MOVES = PPUSH_W ++ PPUSH_B.
Proof. vm_compute. reflexivity. Qed.
Lemma G_FILES_eq : G_FILES = map file_bb range8.
Proof. vm_compute. reflexivity. Qed.
Lemma G_RANKS_eq : G_RANKS = map rank_bb range8.
Proof. vm_compute. reflexivity. Qed.
Lemma G_ADJACENT_FILES_eq : G_ADJACENT_FILES = map adjacent_files_bb range8.
Proof. vm_compute. reflexivity. Qed.
Lemma G_EDGES_eq : G_EDGES = edges_bb.
Proof. vm_compute. reflexivity. Qed.
Lemma G_CASTLE_MOVES_eq : G_CASTLE_MOVES = CASTLE_MOVES.
Proof. vm_compute. reflexivity. Qed.
Lemma G_PAWN_SOURCE_DOUBLE_MOVES_eq : G_PAWN_SOURCE_DOUBLE_MOVES = PAWN_SOURCE_DOUBLE.
Proof. vm_compute. reflexivity. Qed.
Lemma G_PAWN_DEST_DOUBLE_MOVES_eq : G_PAWN_DEST_DOUBLE_MOVES = PAWN_DEST_DOUBLE.
Proof. vm_compute. reflexivity. Qed.
Lemma G_KINGSIDE_CASTLE_SQUARES_eq :
  G_KINGSIDE_CASTLE_SQUARES = [kingside_squares White; kingside_squares Black].
Proof. vm_compute. reflexivity. Qed.
Lemma G_QUEENSIDE_CASTLE_SQUARES_eq :
  G_QUEENSIDE_CASTLE_SQUARES = [queenside_squares White; queenside_squares Black].
Proof. vm_compute. reflexivity. Qed.

(** the model constants, spelled out (they are [Eval vm_compute] results in [Model/Board.v]) *)
Lemma CASTLE_MOVES_closed :
  CASTLE_MOVES = fold_left (fun a s => N.lor a (bit s)) [2;4;6;58;60;62] 0.
Proof. vm_compute. reflexivity. Qed.
Lemma PAWN_SOURCE_DOUBLE_closed : PAWN_SOURCE_DOUBLE = N.lor (rank_bb 1) (rank_bb 6).
Proof. vm_compute. reflexivity. Qed.
Lemma PAWN_DEST_DOUBLE_closed : PAWN_DEST_DOUBLE = N.lor (rank_bb 3) (rank_bb 4).
Proof. vm_compute. reflexivity. Qed.

(** ** 2. graph of the public accessor (run on the built library) = generated table *)
Lemma F_king_moves_eq : F_king_moves = G_KING_MOVES.
Proof. vm_compute. reflexivity. Qed.
Lemma F_knight_moves_eq : F_knight_moves = G_KNIGHT_MOVES.
Proof. vm_compute. reflexivity. Qed.
Lemma F_rays_eq : F_rook_rays ++ F_bishop_rays = G_RAYS.
Proof. vm_compute. reflexivity. Qed.
Lemma F_between_eq : F_between = G_BETWEEN.
Proof. vm_compute. reflexivity. Qed.
Lemma F_line_eq : F_line = G_LINE.
Proof. vm_compute. reflexivity. Qed.
(** [get_pawn_attacks(sq, c, !EMPTY)] *)
Lemma F_pawn_attacks_eq : F_pawn_attacks_all_0 ++ F_pawn_attacks_all_1 = G_PAWN_ATTACKS.
Proof. vm_compute. reflexivity. Qed.
(** [get_pawn_quiets(sq, c, EMPTY)] *)
Lemma F_pawn_quiets_eq : F_pawn_quiets_empty_0 ++ F_pawn_quiets_empty_1 = G_PAWN_MOVES.
Proof. vm_compute. reflexivity. Qed.
Lemma F_rank_bb_eq : F_rank_bb = G_RANKS.
Proof. vm_compute. reflexivity. Qed.
Lemma F_file_bb_eq : F_file_bb = G_FILES.
Proof. vm_compute. reflexivity. Qed.
Lemma F_adjacent_files_eq : F_adjacent_files = G_ADJACENT_FILES.
Proof. vm_compute. reflexivity. Qed.
Lemma F_edges_eq : F_edges = [G_EDGES].
Proof. vm_compute. reflexivity. Qed.

(** ** 3. pre-evaluated closed-form table = closed form *)
Lemma KING_closed : KING = tab64 (fun s => steps_bb s king_dirs).
Proof. vm_compute. reflexivity. Qed.
Lemma KNIGHT_closed : KNIGHT = tab64 (fun s => steps_bb s knight_dirs).
Proof. vm_compute. reflexivity. Qed.
Lemma RRAYS_closed : RRAYS = tab64 (fun s => rook_walk s 0).
Proof. vm_compute. reflexivity. Qed.
Lemma BRAYS_closed : BRAYS = tab64 (fun s => bishop_walk s 0).
Proof. vm_compute. reflexivity. Qed.
Lemma PATT_W_closed : PATT_W = tab64 (pawn_attack_f true).
Proof. vm_compute. reflexivity. Qed.
Lemma PATT_B_closed : PATT_B = tab64 (pawn_attack_f false).
Proof. vm_compute. reflexivity. Qed.
Lemma PPUSH_W_closed : PPUSH_W = tab64 (pawn_push_f true).
Proof. vm_compute. reflexivity. Qed.
Lemma PPUSH_B_closed : PPUSH_B = tab64 (pawn_push_f false).
Proof. vm_compute. reflexivity. Qed.
Lemma BETWEEN_closed :
  BETWEEN = map (fun a => tab64 (fun b => bb_of (between_b a b))) all_sq.
Proof. vm_cast_no_check (eq_refl BETWEEN). Qed.
Lemma LINE_closed :
  LINE = map (fun a => tab64 (fun b => bb_of (line_b a b))) all_sq.
Proof. vm_cast_no_check (eq_refl LINE). Qed.

(** ** 4. consequences: the accessors of the closed-form tables are the closed forms *)
Lemma king_moves_closed s : s < 64 -> king_moves s = steps_bb s king_dirs.
Proof. intro Hs. unfold king_moves. rewrite KING_closed. exact (nthN_tab64 (fun s => steps_bb s king_dirs) s 0 Hs). Qed.
Lemma knight_moves_closed s : s < 64 -> knight_moves s = steps_bb s knight_dirs.
Proof. intro Hs. unfold knight_moves. rewrite KNIGHT_closed. exact (nthN_tab64 (fun s => steps_bb s knight_dirs) s 0 Hs). Qed.
Lemma rook_rays_closed s : s < 64 -> rook_rays s = rook_walk s 0.
Proof. intro Hs. unfold rook_rays. rewrite RRAYS_closed. exact (nthN_tab64 (fun s => rook_walk s 0) s 0 Hs). Qed.
Lemma bishop_rays_closed s : s < 64 -> bishop_rays s = bishop_walk s 0.
Proof. intro Hs. unfold bishop_rays. rewrite BRAYS_closed. exact (nthN_tab64 (fun s => bishop_walk s 0) s 0 Hs). Qed.
Lemma pawn_attack_tab_closed c s : s < 64 -> pawn_attack_tab c s = pawn_attack_f c s.
Proof.
  intro Hs. unfold pawn_attack_tab. destruct c.
  - rewrite PATT_W_closed. exact (nthN_tab64 (pawn_attack_f true) s 0 Hs).
  - rewrite PATT_B_closed. exact (nthN_tab64 (pawn_attack_f false) s 0 Hs).
Qed.
Lemma pawn_push_tab_closed c s : s < 64 -> pawn_push_tab c s = pawn_push_f c s.
Proof.
  intro Hs. unfold pawn_push_tab. destruct c.
  - rewrite PPUSH_W_closed. exact (nthN_tab64 (pawn_push_f true) s 0 Hs).
  - rewrite PPUSH_B_closed. exact (nthN_tab64 (pawn_push_f false) s 0 Hs).
Qed.
Lemma between_closed a b : a < 64 -> b < 64 -> between a b = bb_of (between_b a b).
Proof.
  intros Ha Hb. unfold between. rewrite BETWEEN_closed.
  rewrite (nthN_map_all_sq (fun a => tab64 (fun b => bb_of (between_b a b))) a []) by exact Ha.
  exact (nthN_tab64 (fun b => bb_of (between_b a b)) b 0 Hb).
Qed.
Lemma line_closed a b : a < 64 -> b < 64 -> line a b = bb_of (line_b a b).
Proof.
  intros Ha Hb. unfold line. rewrite LINE_closed.
  rewrite (nthN_map_all_sq (fun a => tab64 (fun b => bb_of (line_b a b))) a []) by exact Ha.
  exact (nthN_tab64 (fun b => bb_of (line_b a b)) b 0 Hb).
Qed.

(** ** 5. consequences: indexing the generated tables the way the Rust accessors do
    ([TABLE[sq]], [TABLE[piece][sq]], [TABLE[color][sq]], [TABLE[a][b]]) gives the
    closed-form accessor.  (64² sweeps for the two flattened 64x64 tables.) *)
Lemma G_KING_MOVES_nth s : s < 64 -> nthN G_KING_MOVES s 0 = king_moves s.
Proof. intros _. rewrite G_KING_MOVES_eq. reflexivity. Qed.
Lemma G_KNIGHT_MOVES_nth s : s < 64 -> nthN G_KNIGHT_MOVES s 0 = knight_moves s.
Proof. intros _. rewrite G_KNIGHT_MOVES_eq. reflexivity. Qed.
Lemma G_RAYS_rook_nth s : s < 64 -> nthN G_RAYS s 0 = rook_rays s.
Proof.
  intro Hs. rewrite G_RAYS_eq. apply nthN_app_l.
  change (length RRAYS) with 64%nat. lia.
Qed.
Lemma G_RAYS_bishop_nth s : s < 64 -> nthN G_RAYS (64 + s) 0 = bishop_rays s.
Proof. intros _. rewrite G_RAYS_eq. apply (nthN_app_r RRAYS BRAYS s 0). Qed.
Lemma G_PAWN_ATTACKS_nth (c:bool) (s:N) :
  s < 64 -> nthN G_PAWN_ATTACKS ((if c then 0 else 64) + s) 0 = pawn_attack_tab c s.
Proof.
  intro Hs. rewrite G_PAWN_ATTACKS_eq. destruct c.
  - apply nthN_app_l. change (length PATT_W) with 64%nat. lia.
  - apply (nthN_app_r PATT_W PATT_B s 0).
Qed.
Lemma G_PAWN_MOVES_nth (c:bool) (s:N) :
  s < 64 -> nthN G_PAWN_MOVES ((if c then 0 else 64) + s) 0 = pawn_push_tab c s.
Proof.
  intro Hs. rewrite G_PAWN_MOVES_eq. destruct c.
  - apply nthN_app_l. change (length PPUSH_W) with 64%nat. lia.
  - apply (nthN_app_r PPUSH_W PPUSH_B s 0).
Qed.

Lemma G_BETWEEN_nth_sweep :
  forallb (fun a => forallb (fun b => nthN G_BETWEEN (a*64+b) 0 =? between a b) all_sq) all_sq = true.
Proof. vm_cast_no_check (eq_refl true). Qed.
Lemma G_BETWEEN_nth a b : a < 64 -> b < 64 -> nthN G_BETWEEN (a*64+b) 0 = between a b.
Proof.
  intros Ha Hb. apply N.eqb_eq.
  apply (sweep64_2 (fun a b => nthN G_BETWEEN (a*64+b) 0 =? between a b) G_BETWEEN_nth_sweep);
    assumption.
Qed.
Lemma G_LINE_nth_sweep :
  forallb (fun a => forallb (fun b => nthN G_LINE (a*64+b) 0 =? line a b) all_sq) all_sq = true.
Proof. vm_cast_no_check (eq_refl true). Qed.
Lemma G_LINE_nth a b : a < 64 -> b < 64 -> nthN G_LINE (a*64+b) 0 = line a b.
Proof.
  intros Ha Hb. apply N.eqb_eq.
  apply (sweep64_2 (fun a b => nthN G_LINE (a*64+b) 0 =? line a b) G_LINE_nth_sweep);
    assumption.
Qed.
Lemma G_FILES_nth f : f < 8 -> nthN G_FILES f 0 = file_bb f.
Proof. intro Hf. rewrite G_FILES_eq. exact (nthN_map_range8 file_bb f 0 Hf). Qed.
Lemma G_RANKS_nth r : r < 8 -> nthN G_RANKS r 0 = rank_bb r.
Proof. intro Hr. rewrite G_RANKS_eq. exact (nthN_map_range8 rank_bb r 0 Hr). Qed.
Lemma G_ADJACENT_FILES_nth f : f < 8 -> nthN G_ADJACENT_FILES f 0 = adjacent_files_bb f.
Proof. intro Hf. rewrite G_ADJACENT_FILES_eq. exact (nthN_map_range8 adjacent_files_bb f 0 Hf). Qed.

(** the hypotheses above are satisfiable *)
Example G_BETWEEN_nth_ex : nthN G_BETWEEN (0*64+27) 0 = between 0 27 /\ between 0 27 = 262656.
Proof. split; [apply G_BETWEEN_nth; reflexivity | vm_compute; reflexivity]. Qed.
