// magic (C15), pawnfns (C16), cache (C19), bits (C20), zob (C09), crowded (C07)
use crate::common::*;
use chess::*;
use std::io::Write;
use std::panic::{catch_unwind, AssertUnwindSafe};

/// C15: complete sweep of the relevant occupancy subsets x `noise` random settings of the
/// irrelevant squares.  With target-feature=+bmi2 the BMI entry points are swept as well.
pub fn magic(noise: u64) {
    let mut rng = Rng::new(seed_from_env());
    let out = std::io::stdout(); let mut out = std::io::BufWriter::new(out.lock());
    let shard = std::env::var("VERIF_SHARD").ok().and_then(|s| s.parse::<u64>().ok()).unwrap_or(0);
    let nshards = std::env::var("VERIF_NSHARDS").ok().and_then(|s| s.parse::<u64>().ok()).unwrap_or(1);
    for pt in 0..2u64 {
        for s in 0..64usize {
            if (s as u64 + pt * 64) % nshards != shard { continue; }
            let q = sq(s);
            // the relevant squares: the rays without their end squares, computed here from the
            // public ray accessors and the edges (independent of the library's private masks)
            let rays = if pt == 0 { get_rook_rays(q) } else { get_bishop_rays(q) };
            let mut mask = EMPTY;
            for t in rays {
                let between_edge = {
                    // t is relevant iff one more step in the same direction stays on the board
                    let df = (t.get_file().to_index() as i32 - q.get_file().to_index() as i32).signum();
                    let dr = (t.get_rank().to_index() as i32 - q.get_rank().to_index() as i32).signum();
                    let nf = t.get_file().to_index() as i32 + df; let nr = t.get_rank().to_index() as i32 + dr;
                    nf >= 0 && nf < 8 && nr >= 0 && nr < 8
                };
                if between_edge { mask |= BitBoard::from_square(t); }
            }
            let m = mask.0;
            let mut sub: u64 = 0;
            let mut line = format!("K {} {} |", pt, s);
            let mut cnt = 0;
            loop {
                for k in 0..noise.max(1) {
                    let nz = if k == 0 { 0 } else { rng.next() & !m };
                    let occ = sub | nz;
                    let r = if pt == 0 { get_rook_moves(q, BitBoard(occ)) } else { get_bishop_moves(q, BitBoard(occ)) };
                    #[cfg(target_feature = "bmi2")]
                    let rb = if pt == 0 { get_rook_moves_bmi(q, BitBoard(occ)) } else { get_bishop_moves_bmi(q, BitBoard(occ)) };
                    #[cfg(not(target_feature = "bmi2"))]
                    let rb = r;
                    line.push_str(&format!(" {}:{}:{}", occ, r.0, rb.0));
                    cnt += 1;
                    if cnt % 256 == 0 { writeln!(out, "{}", line).unwrap(); line = format!("K {} {} |", pt, s); }
                }
                sub = sub.wrapping_sub(m) & m;
                if sub == 0 { break; }
            }
            writeln!(out, "{}", line).unwrap();
        }
    }
    #[cfg(target_feature = "bmi2")]
    writeln!(out, "BMI2 1").unwrap();
    #[cfg(not(target_feature = "bmi2"))]
    writeln!(out, "BMI2 0").unwrap();
}

/// C16: the three accessors with a blocker argument: every combination of the relevant
/// squares x random noise elsewhere.
pub fn pawnfns(noise: u64) {
    let mut rng = Rng::new(seed_from_env());
    let out = std::io::stdout(); let mut out = std::io::BufWriter::new(out.lock());
    for (ci, c) in [Color::White, Color::Black].iter().enumerate() {
        for s in 0..64usize {
            let q = sq(s);
            // relevant: the two diagonal squares, one and two steps ahead (computed geometrically)
            let dir: i32 = if ci == 0 { 1 } else { -1 };
            let mut rel: Vec<usize> = vec![];
            let (f, r) = ((s & 7) as i32, (s >> 3) as i32);
            for (df, dr) in [(-1, dir), (1, dir), (0, dir), (0, 2 * dir)].iter() {
                let (nf, nr) = (f + df, r + dr);
                if nf >= 0 && nf < 8 && nr >= 0 && nr < 8 { rel.push((nr * 8 + nf) as usize); }
            }
            // plus the wrapped "square in front" the code actually tests
            rel.push(q.uforward(*c).to_index());
            rel.sort(); rel.dedup();
            let mut line = format!("W {} {} |", ci, s);
            for combo in 0..(1u64 << rel.len()) {
                let mut base: u64 = 0;
                for (i, t) in rel.iter().enumerate() { if combo >> i & 1 == 1 { base |= 1u64 << t; } }
                let relmask: u64 = rel.iter().fold(0, |a, t| a | (1u64 << t));
                for k in 0..noise.max(1) {
                    let bl = base | if k == 0 { 0 } else { rng.next() & !relmask };
                    line.push_str(&format!(" {}:{}:{}:{}", bl, get_pawn_attacks(q, *c, BitBoard(bl)).0, get_pawn_quiets(q, *c, BitBoard(bl)).0, get_pawn_moves(q, *c, BitBoard(bl)).0));
                }
            }
            writeln!(out, "{}", line).unwrap();
        }
    }
}

/// C19: operation sequences on CacheTable<u64>; the predicate of replace_if is one of a few
/// fixed functions identified by a code.
pub fn pred(code: u64, x: u64) -> bool { match code { 0 => false, 1 => true, 2 => x % 2 == 0, 3 => x > 1000, _ => x == 0 } }
pub fn cache(n: u64) {
    std::panic::set_hook(Box::new(|_| {}));
    let mut rng = Rng::new(seed_from_env());
    let out = std::io::stdout(); let mut out = std::io::BufWriter::new(out.lock());
    for i in 0..n {
        let size: usize = if i % 6 == 5 {
            // invalid sizes
            match rng.below(4) { 0 => 0, 1 => 3, 2 => (1usize << rng.below(12)) + 1 + rng.below(3) as usize, _ => 6 + rng.below(1000) as usize * 2 }
        } else { 1usize << rng.below(if i % 50 == 0 { 17 } else { 7 }) };
        let default = rng.below(4);
        write!(out, "C {} {} |", size, default).unwrap();
        out.flush().unwrap();
        let t = catch_unwind(AssertUnwindSafe(|| CacheTable::<u64>::new(size, default)));
        match t {
            Err(_) => { writeln!(out, " PANIC").unwrap(); }
            Ok(_) if size.count_ones() != 1 => {
                // accepted although not a power of two: the mask is meaningless and any lookup
                // would be an unchecked out-of-bounds access, so the table is not used
                writeln!(out, " ACCEPTED").unwrap(); out.flush().unwrap();
            }
            Ok(mut t) => {
                let nops = 5 + rng.below(60);
                // a small pool of hashes so that collisions and repeats are common
                let mut pool: Vec<u64> = (0..6).map(|k| match k { 0 => 0, 1 => rng.below(size as u64 * 2 + 1), 2 => (rng.below(4) * size as u64).wrapping_add(rng.below(size as u64 + 1)), 3 => u64::MAX - rng.below(3), _ => rng.next() }).collect();
                // hashes that share a slot (and most of their bits) with another pool member: one differing
                // bit anywhere, in particular in the upper half only
                for k in 0..4 { let base = pool[(k + 2) % 6]; let bit = if k % 2 == 0 { 32 + rng.below(32) } else { rng.below(64) }; pool.push(base ^ (1u64 << bit)); }
                for _ in 0..nops {
                    let h = if rng.chance(4, 5) { *rng.pick(&pool) } else { rng.next() };
                    match rng.below(3) {
                        0 => { let v = if rng.chance(1, 2) { rng.below(4) } else { rng.below(2000) }; t.add(h, v); write!(out, " a{},{}", h, v).unwrap(); }
                        1 => { let v = if rng.chance(1, 2) { rng.below(4) } else { rng.below(2000) }; let pc = rng.below(5); t.replace_if(h, v, |x| pred(pc, x)); write!(out, " r{},{},{}", h, v, pc).unwrap(); }
                        _ => { let r = t.get(h); write!(out, " g{}={}", h, match r { Some(v) => v.to_string(), None => "N".to_string() }).unwrap(); }
                    }
                }
                writeln!(out).unwrap();
            }
        }
    }
}

/// C20: every operator form on structured and random values
pub fn bits(n: u64) {
    let mut rng = Rng::new(seed_from_env());
    let out = std::io::stdout(); let mut out = std::io::BufWriter::new(out.lock());
    let structured = |rng: &mut Rng| -> u64 {
        match rng.below(9) {
            0 => 0, 1 => u64::MAX, 2 => 0xFFu64 << (8 * rng.below(8)), 3 => 0x0101010101010101u64 << rng.below(8),
            4 => 0x8040201008040201, 5 => 1u64 << rng.below(64), 6 => rng.next() & rng.next() & rng.next(), 7 => rng.next() | rng.next() | rng.next(), _ => rng.next() }
    };
    for _ in 0..n {
        let (x, y) = (structured(&mut rng), structured(&mut rng));
        let (a, b) = (BitBoard(x), BitBoard(y));
        // all owned / borrowed combinations must agree; the harness checks that and prints one value
        let and = [a & b, &a & &b, a & &b, &a & b, { let mut t = a; t &= b; t }, { let mut t = a; t &= &b; t }];
        let or = [a | b, &a | &b, a | &b, &a | b, { let mut t = a; t |= b; t }, { let mut t = a; t |= &b; t }];
        let xor = [a ^ b, &a ^ &b, a ^ &b, &a ^ b, { let mut t = a; t ^= b; t }, { let mut t = a; t ^= &b; t }];
        let mul = [a * b, &a * &b, a * &b, &a * b];
        let not = [!a, !&a];
        let forms_agree = and.iter().all(|v| *v == and[0]) && or.iter().all(|v| *v == or[0]) && xor.iter().all(|v| *v == xor[0]) && mul.iter().all(|v| *v == mul[0]) && not[0] == not[1];
        let it: Vec<String> = a.map(|s| s.to_index().to_string()).collect();
        writeln!(out, "T {} {} | and={} or={} xor={} not={} mul={} pop={} tosq={} rev={} size={} forms={} | {}",
            x, y, and[0].0, or[0].0, xor[0].0, not[0].0, mul[0].0, a.popcnt(), a.to_square().to_index(), a.reverse_colors().0, a.to_size((y % 64) as u8), forms_agree as u8,
            if it.is_empty() { "-".to_string() } else { it.join(",") }).unwrap();
    }
}

/// C09: every position paired with single-component variants (built through the builder /
/// null move), and a census line for every position met.
pub fn zob(n_games: u64) {
    use std::convert::TryFrom;
    let mut rng = Rng::new(seed_from_env());
    let mut rng2 = Rng::new(seed_from_env() ^ 0x77);
    let out = std::io::stdout(); let mut out = std::io::BufWriter::new(out.lock());
    let pcs = [Piece::Pawn, Piece::Knight, Piece::Bishop, Piece::Rook, Piece::Queen];
    for_positions(n_games, 90, true, &mut rng, |b, _| {
        let mut line = format!("H {} {} |", enc(b), b.get_hash());
        let base: BoardBuilder = b.into();
        let mut emit = |bb: &BoardBuilder, tag: &str, line: &mut String| {
            if let Ok(v) = Board::try_from(bb) { if enc(&v) != enc(b) { line.push_str(&format!(" {}~{}~{}", tag, enc(&v), v.get_hash())); } }
        };
        // side to move
        let mut bb = base; bb.side_to_move(!b.side_to_move()); bb.en_passant(None); emit(&bb, "side", &mut line);
        if let Some(nb) = b.null_move() { line.push_str(&format!(" null~{}~{}", enc(&nb), nb.get_hash())); }
        // castling rights of either colour
        for c in [Color::White, Color::Black].iter() { for r in 0..4 { if CastleRights::from_index(r) != b.castle_rights(*c) { let mut bb = base; bb.castle_rights(*c, CastleRights::from_index(r)); emit(&bb, "rights", &mut line); } } }
        // en-passant file
        for f in 0..8 { let mut bb = base; bb.en_passant(Some(File::from_index(f))); emit(&bb, "ep", &mut line); }
        if b.en_passant().is_some() { let mut bb = base; bb.en_passant(None); emit(&bb, "ep", &mut line); }
        // one piece on one square
        for _ in 0..6 {
            let s = sq(rng2.below(64) as usize);
            let mut bb = base;
            if b.piece_on(s).is_some() && b.piece_on(s) != Some(Piece::King) && rng2.chance(1, 2) { bb.clear_square(s); }
            else if b.piece_on(s) != Some(Piece::King) { bb.piece(s, *rng2.pick(&pcs), if rng2.chance(1, 2) { Color::White } else { Color::Black }); }
            emit(&bb, "piece", &mut line);
        }
        writeln!(out, "{}", line).unwrap();
    });
}

/// C07: crowded boards (far more men than a chess set) through the builder and through FEN
pub fn crowded(n: u64) {
    use std::convert::TryFrom;
    use std::str::FromStr;
    std::panic::set_hook(Box::new(|_| {}));
    let mut rng = Rng::new(seed_from_env());
    let out = std::io::stdout(); let mut out = std::io::BufWriter::new(out.lock());
    let pcs = [Piece::Pawn, Piece::Knight, Piece::Bishop, Piece::Rook, Piece::Queen];
    for i in 0..n {
        let mut bb = BoardBuilder::new();
        // kings far apart, then fill with many men of (mostly) one colour that do not give check
        let wk = rng.below(64) as usize; let mut bk = rng.below(64) as usize;
        while (bk as i32 % 8 - wk as i32 % 8).abs() < 2 && (bk as i32 / 8 - wk as i32 / 8).abs() < 2 { bk = rng.below(64) as usize; }
        bb.piece(sq(wk), Piece::King, Color::White); bb.piece(sq(bk), Piece::King, Color::Black);
        let stm = if rng.chance(1, 2) { Color::White } else { Color::Black };
        bb.side_to_move(stm);
        let target = 10 + rng.below(45);
        let mut placed = 0;
        for _ in 0..200 {
            if placed >= target { break; }
            let s = rng.below(64) as usize;
            if s == wk || s == bk || bb[sq(s)].is_some() { continue; }
            let p = if i % 3 == 0 { Piece::Pawn } else { *rng.pick(&pcs) };
            if p == Piece::Pawn && (s < 8 || s >= 56) && rng.chance(3, 4) { continue; }
            let c = if rng.chance(4, 5) { stm } else { !stm };
            let mut trial = bb; trial.piece(sq(s), p, c);
            // keep it if the position is still acceptable apart from the men count: probe by a
            // reduced board (kings + this piece)
            let mut probe = BoardBuilder::new();
            probe.piece(sq(wk), Piece::King, Color::White).piece(sq(bk), Piece::King, Color::Black).piece(sq(s), p, c).side_to_move(stm);
            if Board::try_from(&probe).is_err() { continue; }
            bb = trial; placed += 1;
        }
        let disp = format!("{}", bb);
        let r1 = catch_unwind(AssertUnwindSafe(|| Board::try_from(&bb)));
        let s1 = match r1 { Ok(Ok(b)) => { let safe = catch_unwind(AssertUnwindSafe(|| crate::text::exercise(&b))).is_ok(); format!("OK {}~{} safe={}", enc(&b), obs(&b), safe as u8) } Ok(Err(_)) => "ERR".to_string(), Err(_) => "PANIC".to_string() };
        let r2 = catch_unwind(AssertUnwindSafe(|| Board::from_str(&disp)));
        let s2 = match r2 { Ok(Ok(_)) => "OK", Ok(Err(_)) => "ERR", Err(_) => "PANIC" };
        let re = catch_unwind(AssertUnwindSafe(|| BoardBuilder::from_str(&disp)));
        writeln!(out, "B {} | {} | {} | {}", crate::text::builder_enc(&bb), crate::dumpfns::hex(&disp), crate::text::builder_res(re), s1).unwrap();
        let _ = s2;
    }
}

/// C07 (thorough): a few accepted boards with many men (incl. the tight 18-entry board) through
/// move generation, status, rendering and move application -- meant to be run under Miri, which
/// reports any out-of-bounds access of the unchecked code paths as undefined behaviour.
pub fn miri_cases() {
    use std::str::FromStr;
    let fens = [
        "k7/8/8/2PpP3/8/NNNNNNN1/NNNNNN2/K7 w - d6 0 1",
        "4k3/8/8/2PpP3/8/PP1P1PPP/8/RNBQKBNR w KQ d6 0 1",
        "rnbqkbnr/pppppppp/8/8/8/8/PPPPPPPP/RNBQKBNR w KQkq - 0 1",
        "r3k2r/Pppp1ppp/1b3nbN/nP6/BBP1P3/q4N2/Pp1P2PP/R2Q1RK1 w kq - 0 1",
    ];
    let mut total = 0usize;
    for f in fens.iter() {
        let b = Board::from_str(f).expect("accepted");
        let n = MoveGen::new_legal(&b).len();
        let mut it = MoveGen::new_legal(&b);
        it.set_iterator_mask(*b.color_combined(!b.side_to_move()));
        let caps = (&mut it).count();
        it.set_iterator_mask(!EMPTY);
        let rest = it.count();
        assert_eq!(caps + rest, n);
        let _ = b.status(); let _ = format!("{}", b);
        for m in MoveGen::new_legal(&b).take(8) { let nb = b.make_move_new(m); let mut o = b; b.make_move(m, &mut o); assert!(o == nb); total += MoveGen::new_legal(&nb).len(); }
        total += n;
    }
    let crowded = Board::from_str("k7/8/PPPPPPPP/8/PPPPPPPP/8/PPPPPPPP/7K w - - 0 1");
    assert!(crowded.is_err());
    // removals, null move, SAN and the game protocol on one position (unchecked indexing everywhere)
    {
        let b = Board::from_str("r3k2r/p1ppqpb1/bn2pnp1/3PN3/1p2P3/2N2Q1p/PPPBBPPP/R3K2R w KQkq - 0 1").expect("accepted");
        let legal: Vec<ChessMove> = MoveGen::new_legal(&b).collect();
        let mut it = MoveGen::new_legal(&b);
        assert!(it.remove_move(legal[0]));
        it.remove_mask(*b.color_combined(!b.side_to_move()));
        let left = it.len(); assert_eq!(it.count(), left);
        total += left;
        if let Some(nb) = b.null_move() { total += MoveGen::new_legal(&nb).len(); }
        for t in ["O-O", "O-O-O", "Nxd7", "dxe6", "Qxf6", "zz", "\u{e9}"].iter() { if let Ok(m) = ChessMove::from_san(&b, t) { assert!(b.legal(m)); total += 1; } }
        let mut g = Game::new_with_board(b);
        assert!(g.make_move(legal[1])); assert!(g.offer_draw(Color::Black)); assert!(g.accept_draw()); assert!(!g.make_move(legal[2]));
        total += g.actions().len();
    }
    // CacheTable: smallest and ordinary sizes, extreme hashes, colliding hashes, conditional writes
    for size in [1usize, 2, 1024].iter() {
        let mut t = CacheTable::<u64>::new(*size, 7);
        for (k, h) in [0u64, 1, u64::MAX, u64::MAX - 1, *size as u64, (*size as u64) * 3 + 1, 0x8000_0000_0000_0000].iter().enumerate() {
            t.add(*h, k as u64);
            assert_eq!(t.get(*h), Some(k as u64));
            t.replace_if(*h, 99, |x| x == 1000);
            assert_eq!(t.get(*h), Some(k as u64));
            t.replace_if(h ^ (*size as u64), 5, |_| true);
            total += t.get(*h).is_some() as usize;
        }
    }
    println!("MIRI-OK {}", total);
}
