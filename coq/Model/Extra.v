(** * Model.Extra — the rest of the public API that no given property speaks about directly:
    [Ord for ChessMove], [File::from_str] / [Rank::from_str], the deprecated board editors
    [Board::set_piece] / [Board::clear_square], [Board::default] / [Game::new],
    [Display for BitBoard]. *)
From Chess Require Export Model.Fen Model.Game.
Open Scope N_scope.

(** ** [impl Ord for ChessMove] (hand-written) and the derived [PartialOrd] *)
Inductive ordering := Less | Equal | Greater.
Definition n_cmp (a b:N) : ordering := if a <? b then Less else if a =? b then Equal else Greater.
Definition promo_cmp (a b:option ptype) : ordering :=
  match a, b with
  | None, None => Equal
  | None, Some _ => Less
  | Some _, None => Greater
  | Some x, Some y => n_cmp (pidx x) (pidx y)          (* derived Ord on Piece: declaration order *)
  end.
(** [ChessMove::cmp]: source, then destination, then promotion *)
Definition cmove_cmp (a b:cmove) : ordering :=
  if negb (msrc a =? msrc b) then n_cmp (msrc a) (msrc b)
  else if negb (mdst a =? mdst b) then n_cmp (mdst a) (mdst b)
  else if negb (promo_eqb (mpromo a) (mpromo b)) then promo_cmp (mpromo a) (mpromo b)
  else Equal.

(** ** [impl FromStr for File] / [for Rank]: first char only; [Panic] if [chars().next().unwrap()]
    fails (impossible: the length test comes first) *)
Definition file_from_str (s:str) : outcome N :=
  if byte_len s <? 1 then Err else
  match s with [] => Panic | c :: _ => if in_range c 97 104 then Ok (c - 97) else Err end.
Definition rank_from_str (s:str) : outcome N :=
  if byte_len s <? 1 then Err else
  match s with [] => Panic | c :: _ => if in_range c 49 56 then Ok (c - 49) else Err end.

(** ** deprecated [Board::set_piece] and [Board::clear_square] *)
Definition remove_at (b:board) (s:N) : board :=
  match piece_on b s with
  | None => b
  | Some x => if N.land (cW b) (bit s) =? bit s then xor_piece b x (bit s) White
              else xor_piece b x (bit s) Black
  end.
Definition finish_edit (result:board) : option board :=
  let r1 := update_pin_info (set_stm result (opp (stm result))) in
  if negb (checkers r1 =? 0) then None
  else Some (update_pin_info (set_stm r1 (opp (stm r1)))).
Definition set_piece (b:board) (p:ptype) (c:color) (s:N) : option board :=
  finish_edit (xor_piece (remove_at b s) p (bit s) c).
Definition clear_square (b:board) (s:N) : option board := finish_edit (remove_at b s).

(** ** [Board::default] = [Board::from_str] of the start FEN; [Game::new] *)
Definition start_fen : str :=
  [114;110;98;113;107;98;110;114;47;112;112;112;112;112;112;112;112;47;56;47;56;47;56;47;56;47;
   80;80;80;80;80;80;80;80;47;82;78;66;81;75;66;78;82;32;119;32;75;81;107;113;32;45;32;48;32;49].
Definition board_default : outcome board := board_from_str start_fen.
Definition game_new : outcome game :=
  match board_default with Ok b => Ok (new_with_board b) | Err => Err | Panic => Panic end.

(** ** [impl Display for BitBoard]: 64 cells "X " / ". ", a newline after every eighth *)
Definition bitboard_display (b:N) : str :=
  flat_map (fun x => (if N.testbit b x then [88;32] else [46;32]) ++ (if x mod 8 =? 7 then [10] else [])) all_sq.
