(** * Proofs.NullMove — C18: [Board::null_move].
    Refused exactly when the [checkers] cache is non-empty; otherwise only the side to move and
    the en-passant square change, the caches are recomputed, and — on a board that equals the
    from-scratch construction of its own abstraction ([Canonical]) — the result is exactly
    the from-scratch construction of the passed position ([Rules.pass]): same words, rights,
    hash field, and the pin / check caches of the from-scratch board. *)
From Coq Require Import Lia ZifyBool ZifyN ZifyNat.
From Chess Require Import Base.Bits Spec.Geometry Spec.Rules Model.Board.
From Chess Require Import Proofs.BitsFacts Proofs.TablesLib Proofs.AbsBoard.
Open Scope N_scope.

(** ** 1. [update_pin_info] overwrites the two caches and reads neither *)
Definition same_occ (a b:board) : Prop :=
  pP a = pP b /\ pN a = pN b /\ pB a = pB b /\ pR a = pR b /\ pQ a = pQ b /\ pK a = pK b /\
  cW a = cW b /\ cB a = cB b /\ comb a = comb b.
(** every field except [pinned] and [checkers] *)
Definition same_core (a b:board) : Prop :=
  same_occ a b /\ stm a = stm b /\ crW a = crW b /\ crB a = crB b /\ hash a = hash b /\
  epsq a = epsq b.

Lemma same_occ_refl a : same_occ a a.
Proof. unfold same_occ. repeat split. Qed.
Lemma same_occ_sym a b : same_occ a b -> same_occ b a.
Proof. unfold same_occ. intuition congruence. Qed.
Lemma same_occ_trans a b c : same_occ a b -> same_occ b c -> same_occ a c.
Proof. unfold same_occ. intuition congruence. Qed.
Lemma same_core_refl a : same_core a a.
Proof. unfold same_core. repeat split. Qed.
Lemma same_core_sym a b : same_core a b -> same_core b a.
Proof. unfold same_core. intros [Ho H]. split; [apply same_occ_sym, Ho|intuition congruence]. Qed.
Lemma same_core_trans a b c : same_core a b -> same_core b c -> same_core a c.
Proof.
  unfold same_core. intros [Ho H] [Ho' H'].
  split; [exact (same_occ_trans _ _ _ Ho Ho')|intuition congruence].
Qed.

Theorem update_pin_info_core a b : same_core a b -> update_pin_info a = update_pin_info b.
Proof.
  destruct a as [a1 a2 a3 a4 a5 a6 a7 a8 a9 a10 a11 a12 a13 a14 a15 a16].
  destruct b as [b1 b2 b3 b4 b5 b6 b7 b8 b9 b10 b11 b12 b13 b14 b15 b16].
  unfold same_core, same_occ. cbn [pP pN pB pR pQ pK cW cB comb stm crW crB hash epsq].
  intros [[-> [-> [-> [-> [-> [-> [-> [-> ->]]]]]]]] [-> [-> [-> [-> ->]]]]].
  reflexivity.
Qed.

Lemma update_pin_info_same_core b : same_core (update_pin_info b) b.
Proof.
  unfold update_pin_info.
  destruct (slider_scan b _ _ 0 0) as [pn ch].
  unfold same_core, same_occ, set_caches. cbn [pP pN pB pR pQ pK cW cB comb stm crW crB hash epsq].
  repeat split.
Qed.

(** [update_pin_info] is idempotent *)
Theorem update_pin_info_idem b : update_pin_info (update_pin_info b) = update_pin_info b.
Proof. apply update_pin_info_core, update_pin_info_same_core. Qed.

(** the per-square queries and the abstraction's placement read only the occupancy words *)
Lemma piece_on_occ a b s : same_occ a b -> piece_on a s = piece_on b s.
Proof.
  unfold same_occ. intros [H1 [H2 [H3 [H4 [H5 [H6 [H7 [H8 H9]]]]]]]].
  unfold piece_on. rewrite H1, H2, H3, H4, H5, H9. reflexivity.
Qed.
Lemma color_on_occ a b s : same_occ a b -> color_on a s = color_on b s.
Proof.
  unfold same_occ. intros [H1 [H2 [H3 [H4 [H5 [H6 [H7 [H8 H9]]]]]]]].
  unfold color_on. rewrite H7, H8. reflexivity.
Qed.
Lemma placement_occ a b : same_occ a b -> placement (abs_board a) = placement (abs_board b).
Proof.
  intro H. unfold abs_board. cbn [placement]. apply map_ext. intro s.
  rewrite (piece_on_occ a b s H), (color_on_occ a b s H). reflexivity.
Qed.

Lemma consistent_occ a b : same_occ a b -> Consistent a -> Consistent b.
Proof.
  unfold same_occ. intros [H1 [H2 [H3 [H4 [H5 [H6 [H7 [H8 H9]]]]]]]] HC.
  destruct HC as [Hp Hc Hm Hd Hcd Hcp Hcc]. constructor.
  - intro p. specialize (Hp p). destruct p; cbn [pieces] in *; congruence.
  - intro c. specialize (Hc c). destruct c; cbn [color_combined] in *; congruence.
  - congruence.
  - intros p q Hpq. specialize (Hd p q Hpq). destruct p, q; cbn [pieces] in *; congruence.
  - congruence.
  - congruence.
  - congruence.
Qed.

(** ** 2. [null_move] *)
(** (a) refused exactly when the check cache is non-empty *)
Theorem null_move_none b : null_move b = None <-> checkers b <> 0.
Proof.
  unfold null_move. destruct (N.eqb_spec (checkers b) 0) as [E|E]; cbn [negb].
  - split; [discriminate|intro H; contradiction].
  - split; [intros _; exact E|reflexivity].
Qed.

Theorem null_move_some b : checkers b = 0 <-> exists b', null_move b = Some b'.
Proof.
  unfold null_move. destruct (N.eqb_spec (checkers b) 0) as [E|E]; cbn [negb].
  - split; [intros _; eexists; reflexivity|intros _; exact E].
  - split; [intro H; contradiction|intros [b' H]; discriminate H].
Qed.

(** (b) what the result is *)
Theorem null_move_eq b b' : null_move b = Some b' ->
  b' = update_pin_info (set_epsq (set_stm b (opp (stm b))) None).
Proof.
  unfold null_move. destruct (negb (checkers b =? 0)); [discriminate|].
  intro H. injection H as <-. reflexivity.
Qed.

Theorem null_move_fields b b' : null_move b = Some b' ->
  same_occ b' b /\ stm b' = opp (stm b) /\ crW b' = crW b /\ crB b' = crB b /\
  hash b' = hash b /\ epsq b' = None.
Proof.
  intro H. rewrite (null_move_eq b b' H).
  destruct (update_pin_info_same_core (set_epsq (set_stm b (opp (stm b))) None))
    as [Ho [H1 [H2 [H3 [H4 H5]]]]].
  cbn [set_epsq set_stm pP pN pB pR pQ pK cW cB comb stm crW crB hash epsq] in H1, H2, H3, H4, H5.
  split; [|auto].
  unfold same_occ in *.
  cbn [set_epsq set_stm pP pN pB pR pQ pK cW cB comb stm crW crB hash epsq] in Ho. exact Ho.
Qed.

(** the abstraction of the result is the passed position: same placement and castling
    rights, the other side to move, no en-passant target *)
Theorem null_move_abs b b' : null_move b = Some b' -> abs_board b' = pass (abs_board b).
Proof.
  intro H. destruct (null_move_fields b b' H) as [Ho [H1 [H2 [H3 [H4 H5]]]]].
  unfold pass. cbn [turn wk wq bk bq ep].
  rewrite <- (placement_occ b' b Ho).
  unfold abs_board. cbn [placement]. rewrite H1, H2, H3, H5. reflexivity.
Qed.

(** ** 3. The from-scratch construction, split before its last step *)
Definition raw_of_builder (bb:builder) : board :=
  let b := place_all (bpieces bb) in
  let b := set_stm b (bstm bb) in
  let b := match builder_get_en_passant bb with
           | Some e => set_stm (set_ep (set_stm b (opp (stm b))) e) (opp (stm (set_stm b (opp (stm b)))))
           | None => b end in
  let b := add_castle_rights b White (bcrW bb) in
  add_castle_rights b Black (bcrB bb).
Definition raw (p:pos) : board := raw_of_builder (builder_of_pos p).

Lemma from_builder_raw_split bb : from_builder_raw bb = update_pin_info (raw_of_builder bb).
Proof. reflexivity. Qed.
Lemma from_scratch_raw p : from_scratch p = update_pin_info (raw p).
Proof. reflexivity. Qed.

(** [place_all] touches the words and the hash only *)
Lemma pstep_other pcs b s :
  stm (pstep pcs b s) = stm b /\ crW (pstep pcs b s) = crW b /\ crB (pstep pcs b s) = crB b /\
  pinned (pstep pcs b s) = pinned b /\ checkers (pstep pcs b s) = checkers b /\
  epsq (pstep pcs b s) = epsq b.
Proof.
  unfold pstep. destruct (nth (N.to_nat s) pcs None) as [[p c]|]; repeat split.
Qed.

Lemma place_fold_other pcs l : forall b,
  let b' := fold_left (pstep pcs) l b in
  stm b' = stm b /\ crW b' = crW b /\ crB b' = crB b /\
  pinned b' = pinned b /\ checkers b' = checkers b /\ epsq b' = epsq b.
Proof.
  induction l as [|s l IH]; intro b; cbn [fold_left]; [repeat split|].
  destruct (IH (pstep pcs b s)) as [H1 [H2 [H3 [H4 [H5 H6]]]]].
  destruct (pstep_other pcs b s) as [G1 [G2 [G3 [G4 [G5 G6]]]]].
  cbv zeta. rewrite H1, H2, H3, H4, H5, H6. repeat split; assumption.
Qed.

Theorem place_all_other pcs :
  stm (place_all pcs) = White /\ crW (place_all pcs) = 0 /\ crB (place_all pcs) = 0 /\
  pinned (place_all pcs) = 0 /\ checkers (place_all pcs) = 0 /\ epsq (place_all pcs) = None.
Proof. rewrite place_all_fold. exact (place_fold_other pcs all_sq board_new). Qed.

Lemma set_ep_core b e :
  same_occ (set_ep b e) b /\ stm (set_ep b e) = stm b /\ crW (set_ep b e) = crW b /\
  crB (set_ep b e) = crB b /\ hash (set_ep b e) = hash b /\
  (epsq (set_ep b e) = Some e \/ epsq (set_ep b e) = epsq b).
Proof.
  unfold set_ep. destruct (negb _); unfold same_occ; cbn [set_epsq pP pN pB pR pQ pK cW cB comb stm crW crB hash epsq];
    repeat split; auto.
Qed.

Lemma opp_opp c : opp (opp c) = c.
Proof. destruct c; reflexivity. Qed.

(** the fields of the raw board of a builder (stated over an arbitrary placed board [P] so
    that no proof ever unfolds [place_all]) *)
Definition raw_from (P:board) (bb:builder) : board :=
  let b := set_stm P (bstm bb) in
  let b := match builder_get_en_passant bb with
           | Some e => set_stm (set_ep (set_stm b (opp (stm b))) e) (opp (stm (set_stm b (opp (stm b)))))
           | None => b end in
  let b := add_castle_rights b White (bcrW bb) in
  add_castle_rights b Black (bcrB bb).
Lemma raw_of_builder_from bb : raw_of_builder bb = raw_from (place_all (bpieces bb)) bb.
Proof. reflexivity. Qed.

Lemma raw_from_fields P bb :
  same_occ (raw_from P bb) P /\ stm (raw_from P bb) = bstm bb /\
  crW (raw_from P bb) = cr_add (crW P) (bcrW bb) /\
  crB (raw_from P bb) = cr_add (crB P) (bcrB bb) /\
  hash (raw_from P bb) = hash P /\
  (builder_get_en_passant bb = None -> epsq (raw_from P bb) = epsq P).
Proof.
  unfold raw_from.
  destruct (builder_get_en_passant bb) as [e|].
  - set (X := set_stm (set_stm P (bstm bb)) (opp (stm (set_stm P (bstm bb))))).
    destruct (set_ep_core X e) as [Ho [H1 [H2 [H3 [H4 _]]]]].
    unfold same_occ in *.
    cbn [add_castle_rights set_castle_rights castle_rights set_stm
         pP pN pB pR pQ pK cW cB comb stm crW crB hash epsq].
    subst X. cbn [set_stm pP pN pB pR pQ pK cW cB comb stm crW crB hash epsq] in *.
    rewrite H2, H3, H4, opp_opp.
    repeat split; try tauto. discriminate.
  - unfold same_occ.
    cbn [add_castle_rights set_castle_rights castle_rights set_stm
         pP pN pB pR pQ pK cW cB comb stm crW crB hash epsq].
    repeat split.
Qed.

Theorem raw_of_builder_fields bb :
  let P := place_all (bpieces bb) in
  same_occ (raw_of_builder bb) P /\ stm (raw_of_builder bb) = bstm bb /\
  crW (raw_of_builder bb) = cr_add (crW P) (bcrW bb) /\
  crB (raw_of_builder bb) = cr_add (crB P) (bcrB bb) /\
  hash (raw_of_builder bb) = hash P /\
  (builder_get_en_passant bb = None -> epsq (raw_of_builder bb) = epsq P).
Proof. cbv zeta. rewrite raw_of_builder_from. apply raw_from_fields. Qed.

(** ** 4. Canonical boards *)
(** the board equals the from-scratch construction of its own abstraction *)
Definition Canonical (b:board) : Prop := b = from_scratch (abs_board b).

Lemma canonical_core b : Canonical b -> same_core b (raw (abs_board b)).
Proof.
  intro HC. unfold Canonical in HC. rewrite from_scratch_raw in HC.
  pose proof (update_pin_info_same_core (raw (abs_board b))) as H.
  rewrite <- HC in H. exact H.
Qed.

Theorem canonical_update b : Canonical b -> update_pin_info b = b.
Proof.
  intro HC. rewrite (update_pin_info_core _ _ (canonical_core b HC)).
  rewrite <- from_scratch_raw. symmetry. exact HC.
Qed.

Theorem canonical_occ b : Canonical b -> same_occ b (place_all (placement (abs_board b))).
Proof.
  intro HC. destruct (canonical_core b HC) as [Ho _].
  destruct (raw_of_builder_fields (builder_of_pos (abs_board b))) as [Ho' _].
  exact (same_occ_trans _ _ _ Ho Ho').
Qed.

Theorem canonical_consistent b : Canonical b -> Consistent b.
Proof.
  intro HC. apply (consistent_occ (place_all (placement (abs_board b))) b).
  - apply same_occ_sym, canonical_occ, HC.
  - apply place_all_consistent.
Qed.

Theorem from_scratch_canonical p : abs_board (from_scratch p) = p -> Canonical (from_scratch p).
Proof. intro H. unfold Canonical. rewrite H. reflexivity. Qed.

(** (c) on a canonical board, passing the turn gives exactly the from-scratch board of the
    passed position: words, rights, hash field, side, en-passant square and both caches *)
Theorem null_move_from_scratch b b' :
  Canonical b -> null_move b = Some b' -> b' = from_scratch (pass (abs_board b)).
Proof.
  intros HC H. rewrite (null_move_eq b b' H), from_scratch_raw.
  apply update_pin_info_core.
  destruct (canonical_core b HC) as [Ho [H1 [H2 [H3 [H4 H5]]]]].
  destruct (raw_of_builder_fields (builder_of_pos (abs_board b))) as [Go [G1 [G2 [G3 [G4 _]]]]].
  destruct (raw_of_builder_fields (builder_of_pos (pass (abs_board b)))) as [Po [P1 [P2 [P3 [P4 P5]]]]].
  fold (raw (abs_board b)) in Go, G1, G2, G3, G4.
  fold (raw (pass (abs_board b))) in Po, P1, P2, P3, P4, P5.
  change (bpieces (builder_of_pos (pass (abs_board b)))) with (placement (abs_board b)) in *.
  change (bpieces (builder_of_pos (abs_board b))) with (placement (abs_board b)) in *.
  destruct (place_all_other (placement (abs_board b))) as [_ [_ [_ [_ [_ Q6]]]]].
  unfold same_core.
  split; [|split; [|split; [|split; [|split]]]].
  - apply (same_occ_trans _ b).
    + unfold same_occ. cbn [set_epsq set_stm pP pN pB pR pQ pK cW cB comb]. repeat split.
    + apply (same_occ_trans _ _ _ Ho). apply (same_occ_trans _ _ _ Go). apply same_occ_sym, Po.
  - rewrite P1. reflexivity.
  - cbn [set_epsq set_stm crW]. rewrite H2, G2, P2. reflexivity.
  - cbn [set_epsq set_stm crB]. rewrite H3, G3, P3. reflexivity.
  - cbn [set_epsq set_stm hash]. rewrite H4, G4, P4. reflexivity.
  - cbn [set_epsq epsq]. rewrite P5 by reflexivity. symmetry. exact Q6.
Qed.

(** the result is canonical again *)
Theorem null_move_canonical b b' : Canonical b -> null_move b = Some b' -> Canonical b'.
Proof.
  intros HC H. unfold Canonical. rewrite (null_move_abs b b' H).
  exact (null_move_from_scratch b b' HC H).
Qed.

(** the public hash of the result is the public hash of the from-scratch board *)
Corollary null_move_get_hash b b' :
  Canonical b -> null_move b = Some b' -> get_hash b' = get_hash (from_scratch (pass (abs_board b))).
Proof. intros HC H. rewrite <- (null_move_from_scratch b b' HC H). reflexivity. Qed.

(** ** 5. Examples: the start position *)
Notation startboard := (from_scratch startpos) (only parsing).

Example startboard_abs : abs_board startboard = startpos.
Proof. vm_compute. reflexivity. Qed.
Example startboard_canonical : Canonical startboard.
Proof. apply from_scratch_canonical. exact startboard_abs. Qed.
Example startboard_passes :
  checkers startboard = 0 /\
  exists b', null_move startboard = Some b' /\ stm b' = Black /\ epsq b' = None /\
             b' = from_scratch (pass startpos) /\ b' <> startboard /\ Canonical b'.
Proof.
  split; [vm_compute; reflexivity|].
  destruct (proj1 (null_move_some startboard)) as [b' Hb']; [vm_compute; reflexivity|].
  exists b'. pose proof (null_move_from_scratch _ _ startboard_canonical Hb') as E.
  rewrite startboard_abs in E.
  destruct (null_move_fields _ _ Hb') as [_ [H1 [_ [_ [_ H5]]]]].
  repeat split; try assumption.
  - intro Heq. rewrite Heq in H1. vm_compute in H1. discriminate H1.
  - exact (null_move_canonical _ _ startboard_canonical Hb').
Qed.
(** a board in check refuses: white king e1, black rook e8, black king a8 *)
Definition checkpos : pos :=
  {| placement := updN (updN (updN (repeat None 64) 4 (Some (King,White))) 60 (Some (Rook,Black)))
                       56 (Some (King,Black));
     turn := White; wk := false; wq := false; bk := false; bq := false; ep := None |}.
Example check_refused :
  Canonical (from_scratch checkpos) /\ checkers (from_scratch checkpos) = bit 60 /\
  null_move (from_scratch checkpos) = None /\ in_check checkpos White = true.
Proof.
  split; [apply from_scratch_canonical; vm_compute; reflexivity|].
  repeat split; vm_compute; reflexivity.
Qed.
