(** * Proofs.PopcntFacts — counting facts about [popcnt] / [squares_of] used by the
    move-list capacity proof (C07): the squares of [a ∧ b] are a filter of the squares of
    [a]; [popcnt] is monotone under [∧] and additive on disjoint words; a word splits into
    its part inside and its part outside a mask. No bound [< 2^64] is assumed anywhere
    unless stated. *)
From Coq Require Import Lia ZifyBool ZifyN ZifyNat Sorted.
From Chess Require Import Base.Bits Proofs.BitsFacts.
Open Scope N_scope.
#[local] Arguments N.add : simpl never.
#[local] Arguments N.sub : simpl never.
#[local] Arguments N.mul : simpl never.
#[local] Arguments N.shiftl : simpl never.
#[local] Arguments N.shiftr : simpl never.
#[local] Arguments N.land : simpl never.
#[local] Arguments N.lor : simpl never.
#[local] Arguments N.lxor : simpl never.
#[local] Arguments N.testbit : simpl never.
#[local] Arguments N.eqb : simpl never.
#[local] Arguments N.ltb : simpl never.
#[local] Arguments N.leb : simpl never.
#[local] Arguments N.pow : simpl never.

(** the number of squares of a word, as a [nat] *)
Definition cnt (x:N) : nat := length (squares_of x).

Lemma popcnt_cnt x : popcnt x = N.of_nat (cnt x).
Proof. apply popcnt_length. Qed.

(** ** generic list facts *)
Lemma filter_length_le {A} (f:A->bool) l : (length (filter f l) <= length l)%nat.
Proof.
  induction l as [|x l IH]; cbn [filter length]; [lia|].
  destruct (f x); cbn [length]; lia.
Qed.

Lemma filter_filter_and {A} (f g:A->bool) l :
  filter g (filter f l) = filter (fun x => f x && g x) l.
Proof.
  induction l as [|x l IH]; cbn [filter]; [reflexivity|].
  destruct (f x); cbn [filter andb]; [destruct (g x)|]; rewrite IH; reflexivity.
Qed.

Lemma filter_ext_eq {A} (f g:A->bool) l : (forall x, f x = g x) -> filter f l = filter g l.
Proof.
  intros H. induction l as [|x l IH]; cbn [filter]; [reflexivity|].
  rewrite H, IH. reflexivity.
Qed.

Lemma filter_disj_le {A} (f g:A->bool) l :
  (forall x, f x && g x = false) -> (length (filter f l) + length (filter g l) <= length l)%nat.
Proof.
  intros H. induction l as [|x l IH]; cbn [filter length]; [lia|].
  specialize (H x). destruct (f x), (g x); cbn [length andb] in *; try discriminate H; lia.
Qed.

Lemma filter_part_eq {A} (f:A->bool) l :
  (length (filter f l) + length (filter (fun x => negb (f x)) l) = length l)%nat.
Proof.
  induction l as [|x l IH]; cbn [filter length]; [lia|].
  destruct (f x); cbn [negb length]; lia.
Qed.

Lemma filter_sorted (f:N->bool) l : StronglySorted N.lt l -> StronglySorted N.lt (filter f l).
Proof.
  induction l as [|a l IH]; intros S; cbn [filter]; [constructor|].
  inversion S as [|a' l' S' F]; subst.
  destruct (f a); [|apply IH; exact S'].
  constructor; [apply IH; exact S'|].
  rewrite Forall_forall in *. intros x Hx. apply filter_In in Hx. apply F. apply Hx.
Qed.

Definition b2n (b:bool) : nat := if b then 1%nat else 0%nat.

Lemma filter_length_cons {A} (f:A->bool) x l :
  length (filter f (x::l)) = (b2n (f x) + length (filter f l))%nat.
Proof. cbn [filter]. destruct (f x); reflexivity. Qed.

(** six predicates of which at most one holds at any point select at most the whole list *)
Lemma filter6_le {A} (f1 f2 f3 f4 f5 f6:A->bool) l :
  (forall x, (b2n (f1 x) + b2n (f2 x) + b2n (f3 x) + b2n (f4 x) + b2n (f5 x) + b2n (f6 x) <= 1)%nat) ->
  (length (filter f1 l) + length (filter f2 l) + length (filter f3 l)
   + length (filter f4 l) + length (filter f5 l) + length (filter f6 l) <= length l)%nat.
Proof.
  intros H. induction l as [|x l IH]; [cbn; lia|].
  rewrite !filter_length_cons. cbn [length]. specialize (H x). lia.
Qed.

(** ** the squares of an intersection are a filter *)
Theorem squares_of_land_filter a b :
  squares_of (N.land a b) = filter (N.testbit b) (squares_of a).
Proof.
  apply squares_of_ext; [apply filter_sorted, squares_of_sorted|].
  intro x. rewrite filter_In, squares_of_spec, N.land_spec.
  destruct (N.testbit a x), (N.testbit b x); cbn [andb]; intuition discriminate.
Qed.

Theorem squares_of_land_filter_l a b :
  squares_of (N.land a b) = filter (N.testbit a) (squares_of b).
Proof. rewrite N.land_comm. apply squares_of_land_filter. Qed.

Theorem cnt_land_le_l a b : (cnt (N.land a b) <= cnt a)%nat.
Proof. unfold cnt. rewrite squares_of_land_filter. apply filter_length_le. Qed.

Theorem cnt_land_le_r a b : (cnt (N.land a b) <= cnt b)%nat.
Proof. rewrite N.land_comm. apply cnt_land_le_l. Qed.

(** [popcnt] is monotone under [∧] *)
Theorem popcnt_land_le_l a b : popcnt (N.land a b) <= popcnt a.
Proof. rewrite !popcnt_cnt. pose proof (cnt_land_le_l a b). lia. Qed.

Theorem popcnt_land_le_r a b : popcnt (N.land a b) <= popcnt b.
Proof. rewrite !popcnt_cnt. pose proof (cnt_land_le_r a b). lia. Qed.

(** ** splitting by a mask *)
Lemma testbit_lnot64_low p s : s < 64 -> N.testbit (lnot64 p) s = negb (N.testbit p s).
Proof.
  intros Hs. unfold lnot64. rewrite N.lxor_spec, M64_ones, N.ones_spec_low by exact Hs.
  destruct (N.testbit p s); reflexivity.
Qed.

Lemma testbit_lnot64_high p s : 64 <= s -> N.testbit (lnot64 p) s = N.testbit p s.
Proof.
  intros Hs. unfold lnot64. rewrite N.lxor_spec, M64_ones, N.ones_spec_high by exact Hs.
  destruct (N.testbit p s); reflexivity.
Qed.

(** The sources of the "not pinned" loop and those sources of the "pinned" loop that are
    squares of the board are disjoint parts of the piece set — for every [a] and [p]. *)
Theorem cnt_split_le a p :
  (cnt (N.land a (lnot64 p)) + length (filter (fun s => N.ltb s 64) (squares_of (N.land a p))) <= cnt a)%nat.
Proof.
  unfold cnt. rewrite !squares_of_land_filter, filter_filter_and.
  apply filter_disj_le. intro s.
  destruct (N.ltb_spec s 64) as [Hlt|Hge].
  - rewrite (testbit_lnot64_low p s Hlt). destruct (N.testbit p s); reflexivity.
  - rewrite !andb_false_r. reflexivity.
Qed.

(** for words below [2^64] the split is exact *)
Theorem cnt_split_eq a p : a < 2 ^ 64 ->
  (cnt (N.land a (lnot64 p)) + cnt (N.land a p) = cnt a)%nat.
Proof.
  intros Ha. unfold cnt. rewrite !squares_of_land_filter.
  pose proof (filter_part_eq (N.testbit p) (squares_of a)) as Hpart.
  cut (filter (N.testbit (lnot64 p)) (squares_of a) = filter (fun x => negb (N.testbit p x)) (squares_of a)).
  { intros Heq. rewrite Heq. lia. }
  assert (E : forall l, (forall s, In s l -> s < 64) ->
             filter (N.testbit (lnot64 p)) l = filter (fun x => negb (N.testbit p x)) l).
  { induction l as [|x l IH]; intros Hl; cbn [filter]; [reflexivity|].
    rewrite (testbit_lnot64_low p x) by (apply Hl; left; reflexivity).
    rewrite IH by (intros s Hs; apply Hl; right; exact Hs). reflexivity. }
  apply E. apply squares_of_lt64. exact Ha.
Qed.

Theorem popcnt_split a p : a < 2 ^ 64 ->
  popcnt (N.land a (lnot64 p)) + popcnt (N.land a p) = popcnt a.
Proof. intros Ha. rewrite !popcnt_cnt. pose proof (cnt_split_eq a p Ha). lia. Qed.

(** ** additivity on disjoint words *)
Lemma land0_testbit a b s : N.land a b = 0 -> N.testbit a s && N.testbit b s = false.
Proof. intros H. rewrite <- N.land_spec, H. apply N.bits_0. Qed.

Theorem cnt_lor_disjoint a b : N.land a b = 0 -> cnt (N.lor a b) = (cnt a + cnt b)%nat.
Proof.
  intros H. unfold cnt.
  assert (Ea : a = N.land (N.lor a b) a).
  { apply N.bits_inj. intro k. rewrite N.land_spec, N.lor_spec.
    destruct (N.testbit a k), (N.testbit b k); reflexivity. }
  assert (Eb : b = N.land (N.lor a b) b).
  { apply N.bits_inj. intro k. rewrite N.land_spec, N.lor_spec.
    destruct (N.testbit a k), (N.testbit b k); reflexivity. }
  rewrite Ea at 2. rewrite Eb at 3. rewrite !squares_of_land_filter.
  pose proof (filter_part_eq (N.testbit a) (squares_of (N.lor a b))) as Hpart.
  cut (filter (fun x => negb (N.testbit a x)) (squares_of (N.lor a b)) = filter (N.testbit b) (squares_of (N.lor a b))).
  { intros Heq. rewrite <- Heq. lia. }
  assert (E : forall l, (forall s, In s l -> N.testbit (N.lor a b) s = true) ->
             filter (fun x => negb (N.testbit a x)) l = filter (N.testbit b) l).
  { induction l as [|x l IH]; intros Hl; cbn [filter]; [reflexivity|].
    rewrite IH by (intros s Hs; apply Hl; right; exact Hs).
    pose proof (Hl x (or_introl eq_refl)) as Hx. rewrite N.lor_spec in Hx.
    pose proof (land0_testbit a b x H) as Hd.
    destruct (N.testbit a x), (N.testbit b x); cbn in *; try discriminate; reflexivity. }
  apply E. intros s Hs. apply squares_of_spec. exact Hs.
Qed.

Theorem popcnt_lor_disjoint a b : N.land a b = 0 -> popcnt (N.lor a b) = popcnt a + popcnt b.
Proof. intros H. rewrite !popcnt_cnt, (cnt_lor_disjoint a b H). lia. Qed.

(** ** Examples *)
Example ex_split : popcnt (N.land 255 (lnot64 15)) + popcnt (N.land 255 15) = popcnt 255.
Proof. vm_compute. reflexivity. Qed.
Example ex_split_hyp : 255 < 2 ^ 64.
Proof. reflexivity. Qed.
(** without the bound the exact split fails: bit 64 survives [lnot64] *)
Example ex_split_needs_bound :
  popcnt (N.land (bit 64) (lnot64 (bit 64))) + popcnt (N.land (bit 64) (bit 64)) = 2 /\ popcnt (bit 64) = 1.
Proof. vm_compute. split; reflexivity. Qed.
Example ex_disjoint : N.land 240 15 = 0 /\ popcnt (N.lor 240 15) = popcnt 240 + popcnt 15.
Proof. vm_compute. split; reflexivity. Qed.
