(** * C07 — converting arbitrary text or an arbitrary builder state into a position never
    panics; acceptance implies one king per side, the side not to move not in check, backed
    castling rights, an en-passant square holding an enemy pawn on its double-push rank, and
    at most sixteen men per side; every accepted position can be handed to move generation
    without overflowing the 18-slot move list (the bound is attained).
    Proved at the level of the validated model (bitboard reading).  The reading on
    [abs_board] and completeness for every valid position are kept as the unproved
    statements [C07_accept_sound_full] / [C07_accept_complete_full] in Proofs/AcceptSound.v. *)
From Chess Require Import Base.Bits Base.Text Model.Board Model.MoveGen Model.Fen
  Proofs.ParseTotal Proofs.AcceptSound Proofs.MoveListCap.
Open Scope N_scope.

Theorem C07_square_from_str_total : forall s, square_from_str s <> Panic.
Proof. exact square_from_str_total. Qed.

Theorem C07_builder_from_str_total : forall s, builder_from_str s <> Panic.
Proof. exact builder_from_str_total. Qed.

Theorem C07_board_from_str_total : forall s, board_from_str s <> Panic.
Proof. exact board_from_str_total. Qed.

Theorem C07_board_from_str_ok_iff : forall s b,
  board_from_str s = Ok b <-> exists bb, builder_from_str s = Ok bb /\ try_from_builder bb = Some b.
Proof. exact board_from_str_ok_iff. Qed.

Theorem C07_try_from_builder_spec : forall bb b,
  try_from_builder bb = Some b <-> b = from_builder_raw bb /\ is_sane (from_builder_raw bb) = true.
Proof. exact try_from_builder_spec. Qed.

Theorem C07_accept_sound_bits : forall bb b, try_from_builder bb = Some b ->
  b = from_builder_raw bb /\ is_sane b = true /\ stm b = bstm bb /\
  popcnt (N.land (pK b) (cW b)) = 1 /\ popcnt (N.land (pK b) (cB b)) = 1 /\
  popcnt (cW b) <= 16 /\ popcnt (cB b) <= 16 /\
  checkers (update_pin_info (set_stm b (opp (stm b)))) = 0 /\
  (forall c s, N.testbit (unmoved_rooks (castle_rights b c) c) s = true ->
               N.testbit (pR b) s = true /\ N.testbit (color_combined b c) s = true) /\
  (forall c, castle_rights b c <> 0 ->
             N.land (pK b) (color_combined b c) = bit (mk_sq (my_backrank c) 4)) /\
  (forall e, epsq b = Some e ->
     N.testbit (N.land (pP b) (color_combined b (opp (stm b)))) e = true /\
     sq_rank e = fourth_rk (opp (stm b)) /\
     exists f, bep bb = Some f /\ sq_file e = N.land f 7) /\
  (forall x y, ptype_eqb x y = false -> N.land (pieces b x) (pieces b y) = 0) /\
  N.land (cW b) (cB b) = 0 /\
  N.land (king_moves (king_square b White)) (pK b) = 0.
Proof. exact accept_sound_bits. Qed.

Theorem C07_cap_value : 18 <= movelist_cap.
Proof. exact cap_value. Qed.

Theorem C07_movelist_cap_ok : forall b, is_sane b = true -> N.of_nat (length (enumerate_moves b)) <= 18.
Proof. exact movelist_cap_ok. Qed.

Theorem C07_sane_no_overflow : forall b, is_sane b = true -> movelist_overflow b = false.
Proof. exact sane_no_overflow. Qed.

Theorem C07_legal_ep_move_no_panic : forall b e s d, epsq b = Some e -> legal_ep_move b s d <> None.
Proof. exact legal_ep_move_no_panic. Qed.

Theorem C07_accepted_no_overflow : forall bb b, try_from_builder bb = Some b ->
  movelist_overflow b = false /\ N.of_nat (length (enumerate_moves b)) <= movelist_cap.
Proof. exact accepted_no_overflow. Qed.

Theorem C07_parsed_no_overflow : forall s b, board_from_str s = Ok b ->
  is_sane b = true /\ movelist_overflow b = false.
Proof. exact parsed_no_overflow. Qed.

Theorem C07_crowded_rejected : board_from_str crowded_fen = Err.
Proof. exact crowded_rejected. Qed.

Theorem C07_crowded_raw_overflows : match builder_from_str crowded_fen with
  | Ok bb => movelist_overflow (from_builder_raw bb) = true /\
             length (enumerate_moves (from_builder_raw bb)) = 25%nat /\
             popcnt (cW (from_builder_raw bb)) = 25
  | _ => False end.
Proof. exact crowded_raw_overflows. Qed.

Theorem C07_start_accepted : match board_from_str start_fen with
  | Ok b => is_sane b = true /\ movelist_overflow b = false /\ length (enumerate_moves b) = 10%nat
  | _ => False end.
Proof. exact start_accepted. Qed.

Theorem C07_tight_eighteen : match board_from_str tight_fen with
  | Ok b => is_sane b = true /\ epsq b = Some 35 /\ popcnt (cW b) = 16 /\
            length (enumerate_moves b) = 18%nat /\ movelist_overflow b = false
  | _ => False end.
Proof. exact tight_eighteen. Qed.

Check C07_square_from_str_total : forall s, square_from_str s <> Panic.
Print Assumptions C07_square_from_str_total.
Check C07_builder_from_str_total : forall s, builder_from_str s <> Panic.
Print Assumptions C07_builder_from_str_total.
Check C07_board_from_str_total : forall s, board_from_str s <> Panic.
Print Assumptions C07_board_from_str_total.
Check C07_board_from_str_ok_iff : forall s b,
  board_from_str s = Ok b <-> exists bb, builder_from_str s = Ok bb /\ try_from_builder bb = Some b.
Print Assumptions C07_board_from_str_ok_iff.
Check C07_try_from_builder_spec : forall bb b,
  try_from_builder bb = Some b <-> b = from_builder_raw bb /\ is_sane (from_builder_raw bb) = true.
Print Assumptions C07_try_from_builder_spec.
Check C07_accept_sound_bits : forall bb b, try_from_builder bb = Some b ->
  b = from_builder_raw bb /\ is_sane b = true /\ stm b = bstm bb /\
  popcnt (N.land (pK b) (cW b)) = 1 /\ popcnt (N.land (pK b) (cB b)) = 1 /\
  popcnt (cW b) <= 16 /\ popcnt (cB b) <= 16 /\
  checkers (update_pin_info (set_stm b (opp (stm b)))) = 0 /\
  (forall c s, N.testbit (unmoved_rooks (castle_rights b c) c) s = true ->
               N.testbit (pR b) s = true /\ N.testbit (color_combined b c) s = true) /\
  (forall c, castle_rights b c <> 0 ->
             N.land (pK b) (color_combined b c) = bit (mk_sq (my_backrank c) 4)) /\
  (forall e, epsq b = Some e ->
     N.testbit (N.land (pP b) (color_combined b (opp (stm b)))) e = true /\
     sq_rank e = fourth_rk (opp (stm b)) /\
     exists f, bep bb = Some f /\ sq_file e = N.land f 7) /\
  (forall x y, ptype_eqb x y = false -> N.land (pieces b x) (pieces b y) = 0) /\
  N.land (cW b) (cB b) = 0 /\
  N.land (king_moves (king_square b White)) (pK b) = 0.
Print Assumptions C07_accept_sound_bits.
Check C07_cap_value : 18 <= movelist_cap.
Print Assumptions C07_cap_value.
Check C07_movelist_cap_ok : forall b, is_sane b = true -> N.of_nat (length (enumerate_moves b)) <= 18.
Print Assumptions C07_movelist_cap_ok.
Check C07_sane_no_overflow : forall b, is_sane b = true -> movelist_overflow b = false.
Print Assumptions C07_sane_no_overflow.
Check C07_legal_ep_move_no_panic : forall b e s d, epsq b = Some e -> legal_ep_move b s d <> None.
Print Assumptions C07_legal_ep_move_no_panic.
Check C07_accepted_no_overflow : forall bb b, try_from_builder bb = Some b ->
  movelist_overflow b = false /\ N.of_nat (length (enumerate_moves b)) <= movelist_cap.
Print Assumptions C07_accepted_no_overflow.
Check C07_parsed_no_overflow : forall s b, board_from_str s = Ok b ->
  is_sane b = true /\ movelist_overflow b = false.
Print Assumptions C07_parsed_no_overflow.
Check C07_crowded_rejected : board_from_str crowded_fen = Err.
Print Assumptions C07_crowded_rejected.
Check C07_crowded_raw_overflows : match builder_from_str crowded_fen with
  | Ok bb => movelist_overflow (from_builder_raw bb) = true /\
             length (enumerate_moves (from_builder_raw bb)) = 25%nat /\
             popcnt (cW (from_builder_raw bb)) = 25
  | _ => False end.
Print Assumptions C07_crowded_raw_overflows.
Check C07_start_accepted : match board_from_str start_fen with
  | Ok b => is_sane b = true /\ movelist_overflow b = false /\ length (enumerate_moves b) = 10%nat
  | _ => False end.
Print Assumptions C07_start_accepted.
Check C07_tight_eighteen : match board_from_str tight_fen with
  | Ok b => is_sane b = true /\ epsq b = Some 35 /\ popcnt (cW b) = 16 /\
            length (enumerate_moves b) = 18%nat /\ movelist_overflow b = false
  | _ => False end.
Print Assumptions C07_tight_eighteen.
