(** * C14 — the move iterator contract ([MoveGen]: [next], [len]/[size_hint],
    [set_iterator_mask], [remove_mask], [remove_move]) over the model [Model.MoveGen].

    Vocabulary (all defined in [Proofs.IterCore] / [Proofs.IterMask]):
    - [WF L]    : every entry of [L] has a non-empty destination set below 2^64 (what the move
                  generator provides);   [EB L] : only "below 2^64".
    - [g0 L]    : the fresh generator over [L] (mask = all squares, cursor 0, index 0).
    - [expand L]: the moves of [L] in the iterator's order for a full mask ([Model.MoveGen]).
    - [Inv g]   : the iterator invariant (cursor < 4; a positive cursor sits on a live promotion
                  entry; entries before [index] dead, entries from [index] on: first the live ones, then the dead ones).
    - [Reach L g]: [g] is reachable from [g0 L] by [next], and — whenever no promotion is in
                  progress, in particular after exhaustion — [set_iterator_mask], [remove_mask],
                  [remove_move].
    - [dst_in m c] : the destination of [c] is in mask [m];  [is_move s d c] : [c] goes s -> d.
    - [run fuel g ops] / [spec X ops] : a script of masks (each drained to exhaustion) and
                  removals, and its specification on the set [X] of not-yet-yielded moves.
    [size_hint] is [(len, Some len)] by definition in the Rust code. *)
From Coq Require Import NArith List Bool Permutation.
From Chess Require Import Model.MoveGen Proofs.IterBits Proofs.IterLists Proofs.IterCore
  Proofs.IterPart Proofs.IterMask.
Import ListNotations.
Open Scope N_scope.

(** ** G1 — a fresh generator yields every move exactly once, in order, then [None] *)
Theorem C14_full_drain : forall L fuel, WF L -> (length (expand L) < fuel)%nat ->
  fst (drain fuel (g0 L)) = expand L /\
  next (snd (drain fuel (g0 L))) = (None, snd (drain fuel (g0 L))) /\
  len (snd (drain fuel (g0 L))) = 0.
Proof. exact drain_g0. Qed.
Check C14_full_drain : forall L fuel, WF L -> (length (expand L) < fuel)%nat ->
  fst (drain fuel (g0 L)) = expand L /\
  next (snd (drain fuel (g0 L))) = (None, snd (drain fuel (g0 L))) /\
  len (snd (drain fuel (g0 L))) = 0.
Print Assumptions C14_full_drain.

Theorem C14_full_drain_bound : forall L fuel, WF L -> (4 * 64 * length L + 1 <= fuel)%nat ->
  fst (drain fuel (g0 L)) = expand L /\
  next (snd (drain fuel (g0 L))) = (None, snd (drain fuel (g0 L))) /\
  len (snd (drain fuel (g0 L))) = 0.
Proof. exact drain_g0_bound. Qed.
Check C14_full_drain_bound : forall L fuel, WF L -> (4 * 64 * length L + 1 <= fuel)%nat ->
  fst (drain fuel (g0 L)) = expand L /\
  next (snd (drain fuel (g0 L))) = (None, snd (drain fuel (g0 L))) /\
  len (snd (drain fuel (g0 L))) = 0.
Print Assumptions C14_full_drain_bound.

(** ** G2 — the invariant, and [len] is exact at every moment *)
Theorem C14_inv_init : forall L, WF L -> Inv (g0 L).
Proof. exact Inv_g0. Qed.
Check C14_inv_init : forall L, WF L -> Inv (g0 L).
Print Assumptions C14_inv_init.

Theorem C14_inv_next : forall g, Inv g -> Inv (snd (next g)).
Proof. exact Inv_next. Qed.
Check C14_inv_next : forall g, Inv g -> Inv (snd (next g)).
Print Assumptions C14_inv_next.

Theorem C14_inv_set_mask : forall g m, Inv g -> promotion_index g = 0 -> Inv (set_iterator_mask g m).
Proof. exact Inv_set_mask_Inv. Qed.
Check C14_inv_set_mask : forall g m, Inv g -> promotion_index g = 0 -> Inv (set_iterator_mask g m).
Print Assumptions C14_inv_set_mask.

(** the mask may be (re)set from any state with bounded entries and no promotion in progress *)
Theorem C14_inv_set_mask_any : forall g m, promotion_index g = 0 -> EB (moves g) -> Inv (set_iterator_mask g m).
Proof. exact Inv_set_mask. Qed.
Check C14_inv_set_mask_any : forall g m, promotion_index g = 0 -> EB (moves g) -> Inv (set_iterator_mask g m).
Print Assumptions C14_inv_set_mask_any.

(** exhaustion under a mask leaves no promotion in progress *)
Theorem C14_exhausted_cursor0 : forall g, Inv g -> fst (next g) = None -> promotion_index g = 0.
Proof. exact exhausted_p0. Qed.
Check C14_exhausted_cursor0 : forall g, Inv g -> fst (next g) = None -> promotion_index g = 0.
Print Assumptions C14_exhausted_cursor0.

Theorem C14_len_exact : forall g fuel, Inv g -> (N.to_nat (len g) < fuel)%nat ->
  len g = N.of_nat (length (fst (drain fuel g))).
Proof. exact len_exact_Inv. Qed.
Check C14_len_exact : forall g fuel, Inv g -> (N.to_nat (len g) < fuel)%nat ->
  len g = N.of_nat (length (fst (drain fuel g))).
Print Assumptions C14_len_exact.

(** every [next] that yields decreases [len] by exactly one; it yields [None] iff [len = 0] *)
Theorem C14_len_next : forall g, Inv g ->
  match fst (next g) with
  | Some _ => len g = len (snd (next g)) + 1
  | None => len g = 0 /\ promotion_index g = 0
  end.
Proof. exact len_next_Inv. Qed.
Check C14_len_next : forall g, Inv g ->
  match fst (next g) with
  | Some _ => len g = len (snd (next g)) + 1
  | None => len g = 0 /\ promotion_index g = 0
  end.
Print Assumptions C14_len_next.

Theorem C14_reachable_inv : forall L g, WF L -> Reach L g -> Inv g.
Proof. exact Reach_Inv. Qed.
Check C14_reachable_inv : forall L g, WF L -> Reach L g -> Inv g.
Print Assumptions C14_reachable_inv.

Theorem C14_reachable_drain : forall L fuel g, Reach L g -> Reach L (snd (drain fuel g)).
Proof. exact Reach_drain. Qed.
Check C14_reachable_drain : forall L fuel g, Reach L g -> Reach L (snd (drain fuel g)).
Print Assumptions C14_reachable_drain.

(** at every reachable state (any interleaving of [next], mask changes and removals) *)
Theorem C14_reachable_len : forall L g fuel, WF L -> Reach L g -> (N.to_nat (len g) < fuel)%nat ->
  len g = N.of_nat (length (fst (drain fuel g))) /\
  match fst (next g) with
  | Some _ => len g = len (snd (next g)) + 1
  | None => len g = 0 /\ promotion_index g = 0
  end.
Proof. exact Reach_len_exact. Qed.
Check C14_reachable_len : forall L g fuel, WF L -> Reach L g -> (N.to_nat (len g) < fuel)%nat ->
  len g = N.of_nat (length (fst (drain fuel g))) /\
  match fst (next g) with
  | Some _ => len g = len (snd (next g)) + 1
  | None => len g = 0 /\ promotion_index g = 0
  end.
Print Assumptions C14_reachable_len.

(** ** G3 — a mask yields exactly the remaining moves landing on it; the rest stays *)
Theorem C14_mask_batch : forall g m fuel,
  promotion_index g = 0 -> EB (moves g) -> (length (expand (moves g)) < fuel)%nat ->
  Permutation (fst (drain fuel (set_iterator_mask g m))) (filter (dst_in m) (expand (moves g))) /\
  Permutation (expand (moves (snd (drain fuel (set_iterator_mask g m)))))
              (filter (fun c => negb (dst_in m c)) (expand (moves g))) /\
  promotion_index (snd (drain fuel (set_iterator_mask g m))) = 0 /\
  EB (moves (snd (drain fuel (set_iterator_mask g m)))) /\
  Inv (snd (drain fuel (set_iterator_mask g m))) /\
  iterator_mask (snd (drain fuel (set_iterator_mask g m))) = m /\
  next (snd (drain fuel (set_iterator_mask g m))) = (None, snd (drain fuel (set_iterator_mask g m))) /\
  len (snd (drain fuel (set_iterator_mask g m))) = 0.
Proof. exact mask_batch. Qed.
Check C14_mask_batch : forall g m fuel,
  promotion_index g = 0 -> EB (moves g) -> (length (expand (moves g)) < fuel)%nat ->
  Permutation (fst (drain fuel (set_iterator_mask g m))) (filter (dst_in m) (expand (moves g))) /\
  Permutation (expand (moves (snd (drain fuel (set_iterator_mask g m)))))
              (filter (fun c => negb (dst_in m c)) (expand (moves g))) /\
  promotion_index (snd (drain fuel (set_iterator_mask g m))) = 0 /\
  EB (moves (snd (drain fuel (set_iterator_mask g m)))) /\
  Inv (snd (drain fuel (set_iterator_mask g m))) /\
  iterator_mask (snd (drain fuel (set_iterator_mask g m))) = m /\
  next (snd (drain fuel (set_iterator_mask g m))) = (None, snd (drain fuel (set_iterator_mask g m))) /\
  len (snd (drain fuel (set_iterator_mask g m))) = 0.
Print Assumptions C14_mask_batch.

(** masks m1..mk then the full mask, each drained to exhaustion from a fresh generator:
    batch i = the moves on mask i and on no earlier mask; together: every move exactly once *)
Theorem C14_mask_sequence : forall L ms fuel, WF L -> (length (expand L) < fuel)%nat ->
  let out := fst (run fuel (g0 L) (map OMask (ms ++ [M64]))) in
  length out = S (length ms) /\
  (forall i, (i <= length ms)%nat ->
     Permutation (nth i out [])
       (filter (fun c => forallb (fun m => negb (dst_in m c)) (firstn i ms) &&
                         dst_in (nth i (ms ++ [M64]) 0) c) (expand L))) /\
  Permutation (concat out) (expand L) /\
  (NoDup (expand L) -> NoDup (concat out)).
Proof. exact masks_run. Qed.
Check C14_mask_sequence : forall L ms fuel, WF L -> (length (expand L) < fuel)%nat ->
  let out := fst (run fuel (g0 L) (map OMask (ms ++ [M64]))) in
  length out = S (length ms) /\
  (forall i, (i <= length ms)%nat ->
     Permutation (nth i out [])
       (filter (fun c => forallb (fun m => negb (dst_in m c)) (firstn i ms) &&
                         dst_in (nth i (ms ++ [M64]) 0) c) (expand L))) /\
  Permutation (concat out) (expand L) /\
  (NoDup (expand L) -> NoDup (concat out)).
Print Assumptions C14_mask_sequence.

(** any script of masks and removals behaves like its set-level specification *)
Theorem C14_script : forall fuel ops g X,
  promotion_index g = 0 -> EB (moves g) -> Permutation (expand (moves g)) X ->
  (length X < fuel)%nat ->
  Forall2 (@Permutation cmove) (fst (run fuel g ops)) (fst (spec X ops)) /\
  Permutation (expand (moves (snd (run fuel g ops)))) (snd (spec X ops)) /\
  promotion_index (snd (run fuel g ops)) = 0 /\ EB (moves (snd (run fuel g ops))).
Proof. exact run_spec. Qed.
Check C14_script : forall fuel ops g X,
  promotion_index g = 0 -> EB (moves g) -> Permutation (expand (moves g)) X ->
  (length X < fuel)%nat ->
  Forall2 (@Permutation cmove) (fst (run fuel g ops)) (fst (spec X ops)) /\
  Permutation (expand (moves (snd (run fuel g ops)))) (snd (spec X ops)) /\
  promotion_index (snd (run fuel g ops)) = 0 /\ EB (moves (snd (run fuel g ops))).
Print Assumptions C14_script.

(** ** G4 — removals *)
Theorem C14_remove_mask : forall g r, promotion_index g = 0 -> EB (moves g) ->
  Inv (remove_mask g r) /\
  promotion_index (remove_mask g r) = 0 /\
  EB (moves (remove_mask g r)) /\
  iterator_mask (remove_mask g r) = iterator_mask g /\
  Permutation (expand (moves (remove_mask g r)))
              (filter (fun c => negb (dst_in r c)) (expand (moves g))) /\
  Permutation (pending (remove_mask g r))
              (filter (fun c => dst_in (iterator_mask g) c && negb (dst_in r c)) (expand (moves g))).
Proof. exact remove_mask_spec. Qed.
Check C14_remove_mask : forall g r, promotion_index g = 0 -> EB (moves g) ->
  Inv (remove_mask g r) /\
  promotion_index (remove_mask g r) = 0 /\
  EB (moves (remove_mask g r)) /\
  iterator_mask (remove_mask g r) = iterator_mask g /\
  Permutation (expand (moves (remove_mask g r)))
              (filter (fun c => negb (dst_in r c)) (expand (moves g))) /\
  Permutation (pending (remove_mask g r))
              (filter (fun c => dst_in (iterator_mask g) c && negb (dst_in r c)) (expand (moves g))).
Print Assumptions C14_remove_mask.

Theorem C14_remove_mask_drain : forall g r fuel, promotion_index g = 0 -> EB (moves g) ->
  (length (expand (moves g)) < fuel)%nat ->
  Permutation (fst (drain fuel (remove_mask g r)))
    (filter (fun c => dst_in (iterator_mask g) c && negb (dst_in r c)) (expand (moves g))).
Proof. exact remove_mask_drain. Qed.
Check C14_remove_mask_drain : forall g r fuel, promotion_index g = 0 -> EB (moves g) ->
  (length (expand (moves g)) < fuel)%nat ->
  Permutation (fst (drain fuel (remove_mask g r)))
    (filter (fun c => dst_in (iterator_mask g) c && negb (dst_in r c)) (expand (moves g))).
Print Assumptions C14_remove_mask_drain.

Theorem C14_remove_mask_fresh : forall L r fuel, WF L -> (length (expand L) < fuel)%nat ->
  Permutation (fst (drain fuel (remove_mask (g0 L) r))) (filter (fun c => negb (dst_in r c)) (expand L)).
Proof. exact remove_mask_fresh. Qed.
Check C14_remove_mask_fresh : forall L r fuel, WF L -> (length (expand L) < fuel)%nat ->
  Permutation (fst (drain fuel (remove_mask (g0 L) r))) (filter (fun c => negb (dst_in r c)) (expand L)).
Print Assumptions C14_remove_mask_fresh.

Theorem C14_remove_move : forall g s d, promotion_index g = 0 -> EB (moves g) ->
  fst (remove_move g s d) = existsb (fun e => esq e =? s) (moves g) /\
  Inv (snd (remove_move g s d)) /\
  promotion_index (snd (remove_move g s d)) = 0 /\
  EB (moves (snd (remove_move g s d))) /\
  iterator_mask (snd (remove_move g s d)) = iterator_mask g /\
  Permutation (expand (moves (snd (remove_move g s d))))
              (filter (fun c => negb (is_move s d c)) (expand (moves g))) /\
  Permutation (pending (snd (remove_move g s d)))
              (filter (fun c => dst_in (iterator_mask g) c && negb (is_move s d c)) (expand (moves g))).
Proof. exact remove_move_spec. Qed.
Check C14_remove_move : forall g s d, promotion_index g = 0 -> EB (moves g) ->
  fst (remove_move g s d) = existsb (fun e => esq e =? s) (moves g) /\
  Inv (snd (remove_move g s d)) /\
  promotion_index (snd (remove_move g s d)) = 0 /\
  EB (moves (snd (remove_move g s d))) /\
  iterator_mask (snd (remove_move g s d)) = iterator_mask g /\
  Permutation (expand (moves (snd (remove_move g s d))))
              (filter (fun c => negb (is_move s d c)) (expand (moves g))) /\
  Permutation (pending (snd (remove_move g s d)))
              (filter (fun c => dst_in (iterator_mask g) c && negb (is_move s d c)) (expand (moves g))).
Print Assumptions C14_remove_move.

Theorem C14_remove_move_drain : forall g s d fuel, promotion_index g = 0 -> EB (moves g) ->
  (length (expand (moves g)) < fuel)%nat ->
  Permutation (fst (drain fuel (snd (remove_move g s d))))
    (filter (fun c => dst_in (iterator_mask g) c && negb (is_move s d c)) (expand (moves g))).
Proof. exact remove_move_drain. Qed.
Check C14_remove_move_drain : forall g s d fuel, promotion_index g = 0 -> EB (moves g) ->
  (length (expand (moves g)) < fuel)%nat ->
  Permutation (fst (drain fuel (snd (remove_move g s d))))
    (filter (fun c => dst_in (iterator_mask g) c && negb (is_move s d c)) (expand (moves g))).
Print Assumptions C14_remove_move_drain.

Theorem C14_remove_move_fresh : forall L s d fuel, WF L -> (length (expand L) < fuel)%nat ->
  Permutation (fst (drain fuel (snd (remove_move (g0 L) s d))))
              (filter (fun c => negb (is_move s d c)) (expand L)).
Proof. exact remove_move_fresh. Qed.
Check C14_remove_move_fresh : forall L s d fuel, WF L -> (length (expand L) < fuel)%nat ->
  Permutation (fst (drain fuel (snd (remove_move (g0 L) s d))))
              (filter (fun c => negb (is_move s d c)) (expand L)).
Print Assumptions C14_remove_move_fresh.

(** [pending g] (used above) is what [drain] returns, and [len] counts it — in every state *)
Theorem C14_pending_is_drain : forall fuel g, WInv g -> (length (pending g) < fuel)%nat ->
  fst (drain fuel g) = pending g.
Proof. exact drain_pending. Qed.
Check C14_pending_is_drain : forall fuel g, WInv g -> (length (pending g) < fuel)%nat ->
  fst (drain fuel g) = pending g.
Print Assumptions C14_pending_is_drain.

Theorem C14_len_pending : forall g, len g = N.of_nat (length (pending g)).
Proof. exact len_pending. Qed.
Check C14_len_pending : forall g, len g = N.of_nat (length (pending g)).
Print Assumptions C14_len_pending.
