(** * Proofs.CacheTableRefine — property C19.
    [Model.CacheTable] (the transcription of src/cache_table.rs) refines an abstract
    map  slot index -> (hash, value):  construction panics exactly for sizes that are not a
    power of two; on a table of size [2^k] no operation is ever out of range (the model turns
    an out-of-range unchecked access into [Panic], and [Panic] is shown unreachable); [get]
    returns a value exactly when the last effective write to the hash's slot was made under
    exactly that hash, and then that value.  Everything is generic in the entry type [T]. *)
From Coq Require Import Lia ZifyBool ZifyN ZifyNat.
From Chess Require Import Model.CacheTable.
Open Scope N_scope.
Arguments N.add : simpl never.
Arguments N.sub : simpl never.
Arguments N.mul : simpl never.
Arguments N.pow : simpl never.
Arguments N.land : simpl never.
Arguments N.modulo : simpl never.
Arguments N.eqb : simpl never.
Arguments N.ltb : simpl never.

(** ** [count_ones() == 1] characterises the powers of two *)
Lemma popc_pos_pos p : 1 <= popc_pos p.
Proof. induction p as [q IH|q IH|]; cbn [popc_pos]; lia. Qed.

Lemma pow2_pos k : exists p, 2^k = N.pos p.
Proof.
  destruct (2^k) as [|p] eqn:E.
  - exfalso. apply (N.pow_nonzero 2 k); [discriminate|exact E].
  - exists p. reflexivity.
Qed.

Lemma pow2_nonzero k : 2^k <> 0.
Proof. apply N.pow_nonzero. discriminate. Qed.

Lemma popcnt_pow2 k : popcnt (2^k) = 1.
Proof.
  induction k as [|k IH] using N.peano_ind.
  - reflexivity.
  - rewrite N.pow_succ_r'. destruct (pow2_pos k) as [p Hp]. rewrite Hp in *.
    change (2 * N.pos p) with (N.pos p~0). exact IH.
Qed.

Lemma popcnt_1_pow2 n : popcnt n = 1 -> exists k, n = 2^k.
Proof.
  destruct n as [|p]; cbn [popcnt].
  - discriminate.
  - induction p as [q IH|q IH|]; cbn [popc_pos]; intro H.
    + pose proof (popc_pos_pos q) as Hq. lia.
    + destruct (IH H) as [k Hk]. exists (N.succ k).
      rewrite N.pow_succ_r', <- Hk. reflexivity.
    + exists 0. reflexivity.
Qed.

Theorem popcnt_1_iff n : popcnt n = 1 <-> exists k, n = 2^k.
Proof.
  split; [apply popcnt_1_pow2|]. intros [k ->]. apply popcnt_pow2.
Qed.

(** ** Generic list facts for the model's [upd_nth] / [repeat] *)
Lemma upd_nth_length {A} (l:list A) : forall i x, length (upd_nth l i x) = length l.
Proof.
  induction l as [|y r IH]; intros i x; [reflexivity|].
  destruct i as [|i]; cbn [upd_nth length]; [reflexivity|]. now rewrite IH.
Qed.

Lemma nth_error_upd_same {A} (l:list A) : forall i x,
  (i < length l)%nat -> nth_error (upd_nth l i x) i = Some x.
Proof.
  induction l as [|y r IH]; intros i x Hi; cbn [length] in Hi; [lia|].
  destruct i as [|i]; cbn [upd_nth nth_error]; [reflexivity|]. apply IH. lia.
Qed.

Lemma nth_error_upd_other {A} (l:list A) : forall i j x,
  i <> j -> nth_error (upd_nth l i x) j = nth_error l j.
Proof.
  induction l as [|y r IH]; intros i j x Hij; [reflexivity|].
  destruct i as [|i], j as [|j]; cbn [upd_nth nth_error]; try reflexivity; try congruence.
  apply IH. congruence.
Qed.

Lemma nth_error_repeat_lt {A} (x:A) : forall n i,
  (i < n)%nat -> nth_error (repeat x n) i = Some x.
Proof.
  induction n as [|n IH]; intros i Hi; [lia|].
  destruct i as [|i]; cbn [repeat nth_error]; [reflexivity|]. apply IH. lia.
Qed.

(** ** Outcome plumbing *)
Definition obind {A B} (x:outcome A) (f:A -> outcome B) : outcome B :=
  match x with Ok a => f a | Err => Err | Panic => Panic end.

Section Refine.
Variable T : Type.

(** ** Operations, and the concrete interpreter over the model *)
Inductive op : Type :=
| Get (h:N)
| Add (h:N) (v:T)
| ReplaceIf (h:N) (v:T) (f:T -> bool).

(** one operation: new table and the outputs produced (one per [Get]) *)
Definition c_step (t:ctable T) (o:op) : outcome (ctable T * list (option T)) :=
  match o with
  | Get h => obind (ct_get t h) (fun r => Ok (t, [r]))
  | Add h v => obind (ct_add t h v) (fun t' => Ok (t', []))
  | ReplaceIf h v f => obind (ct_replace_if t h v f) (fun t' => Ok (t', []))
  end.

Fixpoint c_run (t:ctable T) (ops:list op) : outcome (ctable T * list (option T)) :=
  match ops with
  | [] => Ok (t, [])
  | o :: r =>
    obind (c_step t o) (fun '(t', out) =>
    obind (c_run t' r) (fun '(t'', outs) => Ok (t'', out ++ outs)))
  end.

(** [CacheTable::new(size, default)] followed by a sequence of operations *)
Definition c_new_run (size:N) (d:T) (ops:list op) : outcome (ctable T * list (option T)) :=
  obind (ct_new size d) (fun t => c_run t ops).

(** ** The abstract specification *)
Definition amap : Type := N -> N * T.
Definition a_init (d:T) : amap := fun _ => (0, d).
Definition aslot (k h:N) : N := h mod 2^k.
Definition a_upd (a:amap) (i:N) (x:N*T) : amap := fun j => if j =? i then x else a j.
Definition a_get (k:N) (a:amap) (h:N) : option T :=
  let '(eh, ev) := a (aslot k h) in if eh =? h then Some ev else None.
Definition a_step (k:N) (a:amap) (o:op) : amap :=
  match o with
  | Get _ => a
  | Add h v => a_upd a (aslot k h) (h, v)
  | ReplaceIf h v f =>
    if f (snd (a (aslot k h))) then a_upd a (aslot k h) (h, v) else a
  end.
Definition a_out (k:N) (a:amap) (o:op) : list (option T) :=
  match o with Get h => [a_get k a h] | _ => [] end.
Fixpoint a_final (k:N) (a:amap) (ops:list op) : amap :=
  match ops with [] => a | o :: r => a_final k (a_step k a o) r end.
Fixpoint a_outs (k:N) (a:amap) (ops:list op) : list (option T) :=
  match ops with [] => [] | o :: r => a_out k a o ++ a_outs k (a_step k a o) r end.

(** ** The abstraction relation (also the representation invariant) *)
Definition R (k:N) (t:ctable T) (a:amap) : Prop :=
  N.of_nat (length (table t)) = 2^k /\
  cmask t = 2^k - 1 /\
  forall i, i < 2^k -> nth_error (table t) (N.to_nat i) = Some (a i).

Lemma aslot_lt k h : aslot k h < 2^k.
Proof. unfold aslot. apply N.mod_lt, pow2_nonzero. Qed.

Lemma R_slot k t a h : R k t a -> slot t h = aslot k h.
Proof.
  intros (_ & Hm & _). unfold slot, aslot. rewrite Hm, N.sub_1_r, <- N.ones_equiv.
  apply N.land_ones.
Qed.

(** no access is ever outside the table *)
Lemma R_in_bounds k t a h : R k t a -> in_bounds t h = true.
Proof.
  intros HR. unfold in_bounds. rewrite (R_slot k t a h HR).
  destruct HR as (Hl & _ & _). rewrite Hl. apply N.ltb_lt, aslot_lt.
Qed.

Lemma R_slot_lt_length k t a h : R k t a -> slot t h < N.of_nat (length (table t)).
Proof. intros HR. apply N.ltb_lt. exact (R_in_bounds k t a h HR). Qed.

(** ** Construction *)
Theorem new_ok k d :
  ct_new (2^k) d = Ok {| table := repeat (0, d) (N.to_nat (2^k)); cmask := 2^k - 1 |} /\
  R k {| table := repeat (0, d) (N.to_nat (2^k)); cmask := 2^k - 1 |} (a_init d).
Proof.
  split.
  - unfold ct_new. rewrite popcnt_pow2. reflexivity.
  - unfold R. cbn [table cmask]. rewrite repeat_length, N2Nat.id.
    split; [reflexivity|]. split; [reflexivity|].
    intros i Hi. unfold a_init. apply nth_error_repeat_lt. lia.
Qed.

Theorem new_panics_iff size (d:T) :
  ct_new size d = Panic <-> ~ exists k, size = 2^k.
Proof.
  unfold ct_new. rewrite <- popcnt_1_iff.
  destruct (N.eqb_spec (popcnt size) 1) as [E|E]; cbn [negb]; split; intro H;
    try discriminate; try reflexivity; try assumption.
  exfalso. exact (H E).
Qed.

(** every outcome of [new] is one of the two above: [Ok] on a power of two, else [Panic] *)
Theorem new_cases size (d:T) :
  (exists k, size = 2^k /\
     ct_new size d = Ok {| table := repeat (0, d) (N.to_nat size); cmask := size - 1 |}) \/
  ((~ exists k, size = 2^k) /\ ct_new size d = Panic).
Proof.
  destruct (N.eqb_spec (popcnt size) 1) as [E|E].
  - left. destruct (popcnt_1_pow2 size E) as [k ->]. exists k. split; [reflexivity|].
    apply new_ok.
  - right. assert (H : ~ exists k, size = 2^k) by (rewrite <- popcnt_1_iff; exact E).
    split; [exact H|]. apply new_panics_iff. exact H.
Qed.

(** ** One-step refinement *)
Theorem get_refines k t a h : R k t a -> ct_get t h = Ok (a_get k a h).
Proof.
  intros HR. unfold ct_get, a_get. rewrite (R_slot k t a h HR).
  destruct HR as (_ & _ & Hn). rewrite (Hn _ (aslot_lt k h)).
  destruct (a (aslot k h)) as [eh ev]. reflexivity.
Qed.

Lemma R_upd k t a h x :
  R k t a ->
  R k {| table := upd_nth (table t) (N.to_nat (slot t h)) x; cmask := cmask t |}
      (a_upd a (aslot k h) x).
Proof.
  intros HR. pose proof (R_slot_lt_length k t a h HR) as Hlt.
  pose proof (R_slot k t a h HR) as Hs.
  destruct HR as (Hl & Hm & Hn). unfold R. cbn [table cmask].
  rewrite upd_nth_length. split; [exact Hl|]. split; [exact Hm|].
  intros i Hi. unfold a_upd. destruct (N.eqb_spec i (aslot k h)) as [->|Hne].
  - rewrite Hs. apply nth_error_upd_same. rewrite Hs in Hlt. lia.
  - rewrite nth_error_upd_other; [apply Hn; exact Hi|]. rewrite Hs. lia.
Qed.

Theorem add_refines k t a h v :
  R k t a -> exists t', ct_add t h v = Ok t' /\ R k t' (a_upd a (aslot k h) (h, v)).
Proof.
  intros HR. unfold ct_add. rewrite (R_in_bounds k t a h HR).
  eexists. split; [reflexivity|]. apply R_upd. exact HR.
Qed.

Theorem replace_if_refines k t a h v f :
  R k t a -> exists t', ct_replace_if t h v f = Ok t' /\ R k t' (a_step k a (ReplaceIf h v f)).
Proof.
  intros HR. unfold ct_replace_if. cbn [a_step].
  pose proof HR as (_ & _ & Hn). pose proof (R_upd k t a h (h, v) HR) as HU.
  rewrite (R_slot k t a h HR) in HU |- *. rewrite (Hn _ (aslot_lt k h)).
  destruct (a (aslot k h)) as [eh ev]. cbn [snd]. destruct (f ev).
  - eexists. split; [reflexivity|]. exact HU.
  - exists t. split; [reflexivity|exact HR].
Qed.

Theorem step_refines k t a o :
  R k t a -> exists t', c_step t o = Ok (t', a_out k a o) /\ R k t' (a_step k a o).
Proof.
  intros HR. destruct o as [h|h v|h v f]; cbn [c_step a_out].
  - exists t. rewrite (get_refines k t a h HR). split; [reflexivity|exact HR].
  - destruct (add_refines k t a h v HR) as (t' & E & HR'). exists t'. rewrite E.
    split; [reflexivity|exact HR'].
  - destruct (replace_if_refines k t a h v f HR) as (t' & E & HR'). exists t'. rewrite E.
    split; [reflexivity|exact HR'].
Qed.

(** ** Refinement of every operation sequence *)
Theorem run_refines k ops : forall t a,
  R k t a -> exists t', c_run t ops = Ok (t', a_outs k a ops) /\ R k t' (a_final k a ops).
Proof.
  induction ops as [|o r IH]; intros t a HR; cbn [c_run a_outs a_final].
  - exists t. split; [reflexivity|exact HR].
  - destruct (step_refines k t a o HR) as (t1 & E1 & HR1). rewrite E1. cbn [obind].
    destruct (IH t1 _ HR1) as (t2 & E2 & HR2). rewrite E2. cbn [obind].
    exists t2. split; [reflexivity|exact HR2].
Qed.

Theorem new_run_refines k d ops :
  exists t', c_new_run (2^k) d ops = Ok (t', a_outs k (a_init d) ops) /\
             R k t' (a_final k (a_init d) ops).
Proof.
  unfold c_new_run. destruct (new_ok k d) as [E HR]. rewrite E. cbn [obind].
  apply run_refines. exact HR.
Qed.

Theorem new_run_invalid size d ops :
  (~ exists k, size = 2^k) -> c_new_run size d ops = Panic.
Proof.
  intro H. unfold c_new_run. apply new_panics_iff with (d:=d) in H. rewrite H. reflexivity.
Qed.

(** ** The English property over the abstract specification: last effective write *)
(** what an operation writes, if it writes *)
Definition payload (o:op) : option (N * T) :=
  match o with Get _ => None | Add h v => Some (h, v) | ReplaceIf h v _ => Some (h, v) end.
(** does [o], executed in state [a], write slot [s]?  [Add] always writes its slot;
    [ReplaceIf] writes it exactly when the predicate holds of the slot's current value *)
Definition touches (k:N) (a:amap) (o:op) (s:N) : bool :=
  match o with
  | Get _ => false
  | Add h _ => aslot k h =? s
  | ReplaceIf h _ f => (aslot k h =? s) && f (snd (a (aslot k h)))
  end.
(** no operation of [ops], run from [a], writes slot [s] *)
Fixpoint untouched (k:N) (a:amap) (ops:list op) (s:N) : bool :=
  match ops with
  | [] => true
  | o :: r => negb (touches k a o s) && untouched k (a_step k a o) r s
  end.

Lemma step_not_touched k a o s : touches k a o s = false -> a_step k a o s = a s.
Proof.
  destruct o as [h|h v|h v f]; cbn [touches a_step]; intro H; [reflexivity| |].
  - unfold a_upd. rewrite N.eqb_sym, H. reflexivity.
  - destruct (f (snd (a (aslot k h)))); [|reflexivity].
    rewrite andb_true_r in H. unfold a_upd. rewrite N.eqb_sym, H. reflexivity.
Qed.

Lemma step_touched k a o s :
  touches k a o s = true -> exists w, payload o = Some w /\ a_step k a o s = w.
Proof.
  destruct o as [h|h v|h v f]; cbn [touches a_step payload]; intro H; [discriminate| |].
  - exists (h, v). split; [reflexivity|]. unfold a_upd. rewrite N.eqb_sym, H. reflexivity.
  - apply andb_true_iff in H. destruct H as [H1 H2]. rewrite H2.
    exists (h, v). split; [reflexivity|]. unfold a_upd. rewrite N.eqb_sym, H1. reflexivity.
Qed.

Lemma untouched_final k ops : forall a s, untouched k a ops s = true -> a_final k a ops s = a s.
Proof.
  induction ops as [|o r IH]; intros a s H; cbn [untouched a_final] in *; [reflexivity|].
  apply andb_true_iff in H. destruct H as [H1 H2]. apply negb_true_iff in H1.
  rewrite (IH _ _ H2). apply step_not_touched. exact H1.
Qed.

Lemma a_final_app k p : forall a q, a_final k a (p ++ q) = a_final k (a_final k a p) q.
Proof. induction p as [|o r IH]; intros a q; cbn [app a_final]; [reflexivity|apply IH]. Qed.

Lemma last_write_decomp k ops : forall a s,
  untouched k a ops s = true \/
  exists pre o post, ops = pre ++ o :: post /\
    touches k (a_final k a pre) o s = true /\
    untouched k (a_step k (a_final k a pre) o) post s = true.
Proof.
  induction ops as [|o r IH]; intros a s; [left; reflexivity|].
  destruct (IH (a_step k a o) s) as [Hu|(pre & o' & post & E & Ht & Hu)].
  - destruct (touches k a o s) eqn:Ht.
    + right. exists [], o, r. cbn [app a_final]. auto.
    + left. cbn [untouched]. rewrite Ht, Hu. reflexivity.
  - right. exists (o :: pre), o', post. cbn [app a_final]. rewrite E. auto.
Qed.

(** the content of slot [s] after a run is the payload of the last effective write to [s],
    or the initial content if there was none *)
Theorem final_char k a ops s w :
  a_final k a ops s = w <->
  (exists pre o post, ops = pre ++ o :: post /\
     touches k (a_final k a pre) o s = true /\ payload o = Some w /\
     untouched k (a_step k (a_final k a pre) o) post s = true) \/
  (untouched k a ops s = true /\ a s = w).
Proof.
  assert (Hsplit : forall pre o post, ops = pre ++ o :: post ->
            untouched k (a_step k (a_final k a pre) o) post s = true ->
            a_final k a ops s = a_step k (a_final k a pre) o s).
  { intros pre o post -> Hu. rewrite a_final_app. cbn [a_final]. apply untouched_final, Hu. }
  split.
  - intros <-. destruct (last_write_decomp k ops a s) as [Hu|(pre & o & post & E & Ht & Hu)].
    + right. split; [exact Hu|]. symmetry. apply untouched_final, Hu.
    + left. exists pre, o, post. rewrite (Hsplit pre o post E Hu).
      destruct (step_touched k _ o s Ht) as (w & Hp & Hw). rewrite Hw. auto.
  - intros [(pre & o & post & E & Ht & Hp & Hu)|[Hu Ha]].
    + rewrite (Hsplit pre o post E Hu).
      destruct (step_touched k _ o s Ht) as (w' & Hp' & Hw). congruence.
    + rewrite untouched_final; assumption.
Qed.

Lemma a_get_some k a h v : a_get k a h = Some v <-> a (aslot k h) = (h, v).
Proof.
  unfold a_get. destruct (a (aslot k h)) as [eh ev].
  destruct (N.eqb_spec eh h) as [->|Hne]; split; intro H; congruence.
Qed.

(** (a): [get h] after a run returns [Some v] iff the last effective write to [h]'s slot
    was made under exactly [h] with value [v], or nothing wrote the slot and [h = 0], [v] is
    the default *)
Theorem a_get_after_run k d ops h v :
  a_get k (a_final k (a_init d) ops) h = Some v <->
  (exists pre o post, ops = pre ++ o :: post /\
     touches k (a_final k (a_init d) pre) o (aslot k h) = true /\ payload o = Some (h, v) /\
     untouched k (a_step k (a_final k (a_init d) pre) o) post (aslot k h) = true) \/
  (untouched k (a_init d) ops (aslot k h) = true /\ h = 0 /\ v = d).
Proof.
  rewrite a_get_some, final_char. unfold a_init at 5.
  split; (intros [H|[Hu H]]; [left; exact H|right; split; [exact Hu|]]).
  - inversion H. auto.
  - destruct H as [-> ->]. reflexivity.
Qed.

(** (b): a slot nothing wrote behaves as (hash 0, default) *)
Theorem a_get_untouched k d ops h :
  untouched k (a_init d) ops (aslot k h) = true ->
  a_get k (a_final k (a_init d) ops) h = if h =? 0 then Some d else None.
Proof.
  intro Hu. unfold a_get. rewrite (untouched_final k ops _ _ Hu). unfold a_init.
  rewrite N.eqb_sym. reflexivity.
Qed.

(** ** The same statements about the model itself *)
Theorem get_after_run k d ops t' outs :
  c_new_run (2^k) d ops = Ok (t', outs) ->
  outs = a_outs k (a_init d) ops /\
  forall h, exists r, ct_get t' h = Ok r /\ forall v,
    r = Some v <->
    (exists pre o post, ops = pre ++ o :: post /\
       touches k (a_final k (a_init d) pre) o (h mod 2^k) = true /\ payload o = Some (h, v) /\
       untouched k (a_step k (a_final k (a_init d) pre) o) post (h mod 2^k) = true) \/
    (untouched k (a_init d) ops (h mod 2^k) = true /\ h = 0 /\ v = d).
Proof.
  intro E. destruct (new_run_refines k d ops) as (t1 & E1 & HR). rewrite E in E1.
  inversion E1; subst t1 outs. split; [reflexivity|].
  intro h. exists (a_get k (a_final k (a_init d) ops) h).
  split; [apply (get_refines k _ _ h HR)|]. intro v. apply a_get_after_run.
Qed.

Theorem get_untouched k d ops t' outs h :
  c_new_run (2^k) d ops = Ok (t', outs) ->
  untouched k (a_init d) ops (h mod 2^k) = true ->
  ct_get t' h = Ok (if h =? 0 then Some d else None).
Proof.
  intros E Hu. destruct (new_run_refines k d ops) as (t1 & E1 & HR). rewrite E in E1.
  inversion E1; subst t1 outs. rewrite (get_refines k _ _ h HR).
  f_equal. apply a_get_untouched. exact Hu.
Qed.

(** after any run every hash indexes inside the table, whose length is still the size *)
Theorem in_bounds_after_run k d ops t' outs h :
  c_new_run (2^k) d ops = Ok (t', outs) ->
  N.of_nat (length (table t')) = 2^k /\ slot t' h = h mod 2^k /\ in_bounds t' h = true.
Proof.
  intros E. destruct (new_run_refines k d ops) as (t1 & E1 & HR). rewrite E in E1.
  inversion E1; subst t1 outs. split; [apply HR|]. split.
  - apply (R_slot k _ _ h HR).
  - apply (R_in_bounds k _ _ h HR).
Qed.

(** ** Read-your-write, collision and frame corollaries on the model *)
Theorem add_then_get k t a h v h' :
  R k t a -> exists t', ct_add t h v = Ok t' /\
  ct_get t' h' = if h' mod 2^k =? h mod 2^k
                 then Ok (if h' =? h then Some v else None)
                 else ct_get t h'.
Proof.
  intro HR. destruct (add_refines k t a h v HR) as (t' & E & HR'). exists t'.
  split; [exact E|]. rewrite (get_refines k _ _ h' HR'), (get_refines k _ _ h' HR).
  unfold a_get, a_upd, aslot. destruct (h' mod 2^k =? h mod 2^k); [|reflexivity].
  rewrite N.eqb_sym. reflexivity.
Qed.

Theorem replace_if_then_get k t a h v f h' :
  R k t a -> exists t' ev, nth_error (table t) (N.to_nat (h mod 2^k)) = Some ev /\
  ct_replace_if t h v f = Ok t' /\
  ct_get t' h' = if f (snd ev) && (h' mod 2^k =? h mod 2^k)
                 then Ok (if h' =? h then Some v else None)
                 else ct_get t h'.
Proof.
  intro HR. destruct (replace_if_refines k t a h v f HR) as (t' & E & HR').
  exists t', (a (aslot k h)). pose proof HR as (_ & _ & Hn).
  split; [apply Hn, aslot_lt|]. split; [exact E|].
  rewrite (get_refines k _ _ h' HR'), (get_refines k _ _ h' HR). cbn [a_step].
  fold (aslot k h). fold (aslot k h').
  destruct (f (snd (a (aslot k h)))); cbn [andb]; [|reflexivity].
  unfold a_get, a_upd. destruct (aslot k h' =? aslot k h); [|reflexivity].
  rewrite N.eqb_sym. reflexivity.
Qed.

End Refine.

Arguments Get {T}. Arguments Add {T}. Arguments ReplaceIf {T}.
Arguments c_step {T}. Arguments c_run {T}. Arguments c_new_run {T}.
Arguments a_init {T}. Arguments a_upd {T}. Arguments a_get {T}. Arguments a_step {T}.
Arguments a_out {T}. Arguments a_final {T}. Arguments a_outs {T}. Arguments R {T}.
Arguments payload {T}. Arguments touches {T}. Arguments untouched {T}.

(** ** Examples: the hypotheses are satisfiable and the results non-trivial *)
Definition ex_ops : list (op N) :=
  [ Get 1;                                  (* untouched slot 1, hash 1 <> 0  -> None *)
    Get 0;                                  (* untouched slot 0 under hash 0  -> Some default *)
    Get 4;                                  (* untouched slot 0 under hash 4  -> None *)
    Add 1 10; Get 1; Get 5;                 (* 5 collides with 1 (size 4)     -> Some 10, None *)
    Add 5 50; Get 1; Get 5;                 (* overwritten by the collider    -> None, Some 50 *)
    ReplaceIf 1 11 (fun x => x <? 20);      (* 50 <? 20 false: not replaced *)
    Get 1; Get 5;                           (*                                -> None, Some 50 *)
    ReplaceIf 1 11 (fun x => 20 <? x);      (* 20 <? 50 true: replaced *)
    Get 1; Get 5;                           (*                                -> Some 11, None *)
    Add 18446744073709551615 7;             (* u64::MAX lands in slot 3 *)
    Get 18446744073709551615; Get 3; Get 2 ].

Example ex_run_size4 :
  c_new_run 4 99 ex_ops =
  Ok ({| table := [(0,99); (1,11); (0,99); (18446744073709551615,7)]; cmask := 3 |},
      [None; Some 99; None; Some 10; None; None; Some 50; None; Some 50;
       Some 11; None; Some 7; None; None]).
Proof. vm_compute. reflexivity. Qed.

Example ex_abstract_agrees :
  a_outs 2 (a_init 99) ex_ops =
  [None; Some 99; None; Some 10; None; None; Some 50; None; Some 50;
   Some 11; None; Some 7; None; None].
Proof. vm_compute. reflexivity. Qed.

(** size 1: every hash shares the single slot *)
Example ex_run_size1 :
  c_new_run 1 0 [Add 6 60; Get 6; Get 7; Add 7 70; Get 6; Get 7; Get 0] =
  Ok ({| table := [(7,70)]; cmask := 0 |}, [Some 60; None; None; Some 70; None]).
Proof. vm_compute. reflexivity. Qed.

Example ex_invalid_sizes :
  map (fun s => match c_new_run s 0 [Get 0] with Panic => true | _ => false end)
      [0; 1; 2; 3; 4; 5; 6; 7; 8; 12; 255; 256; 18446744073709551615]
  = [true; false; false; true; false; true; true; true; false; true; true; false; true].
Proof. vm_compute. reflexivity. Qed.

Example ex_not_pow2 : ~ exists k, 6 = 2^k.
Proof. rewrite <- popcnt_1_iff. vm_compute. discriminate. Qed.

(** the invariant is inhabited by a non-initial table *)
Example ex_R : exists t, R 2 t (a_final 2 (a_init 99) ex_ops) /\ table t <> repeat (0,99) 4%nat.
Proof.
  destruct (new_run_refines N 2 99 ex_ops) as (t & E & HR). exists t. split; [exact HR|].
  change (2^2) with 4 in E. rewrite ex_run_size4 in E. inversion E. discriminate.
Qed.

(** the last-write decomposition of (a), on the example: [Get 1] at the end sees the second
    [ReplaceIf] *)
Example ex_last_write :
  exists pre o post, ex_ops = pre ++ o :: post /\
    touches 2 (a_final 2 (a_init 99) pre) o (1 mod 2^2) = true /\ payload o = Some (1, 11) /\
    untouched 2 (a_step 2 (a_final 2 (a_init 99) pre) o) post (1 mod 2^2) = true.
Proof.
  exists (firstn 12 ex_ops), (ReplaceIf 1 11 (fun x => 20 <? x)), (skipn 13 ex_ops).
  split; [reflexivity|]. repeat split; vm_compute; reflexivity.
Qed.

Example ex_untouched : untouched 2 (a_init 99) ex_ops (2 mod 2^2) = true.
Proof. vm_compute. reflexivity. Qed.
