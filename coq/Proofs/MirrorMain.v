(** * Proofs.MirrorMain — the C17 statements, bundled, with concrete examples. *)
From Coq Require Import Lia ZifyBool ZifyN ZifyNat Permutation.
From Chess Require Import Base.Bits Spec.Geometry Spec.Rules.
From Chess Require Import Proofs.TablesLib Proofs.TablesMeaning Proofs.MirrorLib Proofs.MirrorGeneric
  Proofs.MirrorV Proofs.MirrorH.
Open Scope N_scope.

(** ** G1 *)
Theorem flip_rank_geometry (s:N) : s < 64 ->
  flip_rank_sq s < 64 /\ flip_rank_sq (flip_rank_sq s) = s /\
  fileZ (flip_rank_sq s) = fileZ s /\ rankZ (flip_rank_sq s) = (7 - rankZ s)%Z.
Proof.
  intro Hs. refine (conj _ (conj _ (conj _ _))); [apply flip_rank_lt, Hs|apply flip_rank_invol|
                           apply flip_rank_fileZ, Hs|apply flip_rank_rankZ, Hs].
Qed.

Theorem flip_file_geometry (s:N) : s < 64 ->
  flip_file_sq s < 64 /\ flip_file_sq (flip_file_sq s) = s /\
  fileZ (flip_file_sq s) = (7 - fileZ s)%Z /\ rankZ (flip_file_sq s) = rankZ s.
Proof.
  intro Hs. refine (conj _ (conj _ (conj _ _))); [apply flip_file_lt, Hs|apply flip_file_invol|
                           apply flip_file_fileZ, Hs|apply flip_file_rankZ, Hs].
Qed.

Theorem flip_steps (s:N) (df dr:Z) : s < 64 ->
  step (flip_rank_sq s) (df, - dr)%Z = option_map flip_rank_sq (step s (df, dr)) /\
  step (flip_file_sq s) (- df, dr)%Z = option_map flip_file_sq (step s (df, dr)).
Proof. intro Hs. split; [apply step_flip_rank', Hs|apply step_flip_file', Hs]. Qed.

(** ** G2 *)
Theorem mirror_v_board (p:pos) : length (placement p) = 64%nat ->
  (forall s, at_ (mirror_v p) s = swap_pc (at_ p (flip_rank_sq s))) /\
  (forall s, occ (mirror_v p) (flip_rank_sq s) = occ p s) /\
  (forall s t c, has (mirror_v p) (flip_rank_sq s) t (opp c) = has p s t c) /\
  (forall c s, own (mirror_v p) (opp c) (flip_rank_sq s) = own p c s) /\
  (forall c s, enemy (mirror_v p) (opp c) (flip_rank_sq s) = enemy p c s) /\
  mirror_v (mirror_v p) = p.
Proof.
  intro Hl. refine (conj _ (conj _ (conj _ (conj _ (conj _ _))))).
  - intro s. apply at_mirror_v, Hl.
  - apply occ_v, Hl.
  - apply has_v, Hl.
  - apply own_v, Hl.
  - apply enemy_v, Hl.
  - apply mirror_v_invol, Hl.
Qed.

Theorem mirror_h_board (p:pos) : length (placement p) = 64%nat ->
  (forall s, at_ (mirror_h p) s = at_ p (flip_file_sq s)) /\
  (forall s, occ (mirror_h p) (flip_file_sq s) = occ p s) /\
  (forall s t c, has (mirror_h p) (flip_file_sq s) t c = has p s t c) /\
  (forall c s, own (mirror_h p) c (flip_file_sq s) = own p c s) /\
  (forall c s, enemy (mirror_h p) c (flip_file_sq s) = enemy p c s) /\
  (no_rights p -> mirror_h (mirror_h p) = p).
Proof.
  intro Hl. refine (conj _ (conj _ (conj _ (conj _ (conj _ _))))).
  - intro s. apply at_mirror_h, Hl.
  - apply occ_h, Hl.
  - apply has_h, Hl.
  - apply own_h, Hl.
  - apply enemy_h, Hl.
  - apply mirror_h_invol, Hl.
Qed.

(** ** G3 *)
Theorem mirror_v_attacks (p:pos) : length (placement p) = 64%nat ->
  (forall s df dr n, s < 64 ->
     ray (mirror_v p) (flip_rank_sq s) (df, - dr)%Z n = map flip_rank_sq (ray p s (df,dr) n)) /\
  (forall s, s < 64 ->
     Permutation (attack_set (mirror_v p) (flip_rank_sq s)) (map flip_rank_sq (attack_set p s))) /\
  (forall s t, s < 64 -> attacks (mirror_v p) (flip_rank_sq s) (flip_rank_sq t) = attacks p s t) /\
  (forall c t, Permutation (attackers (mirror_v p) (opp c) (flip_rank_sq t))
                           (map flip_rank_sq (attackers p c t))) /\
  (forall c t, attacked_by (mirror_v p) (opp c) (flip_rank_sq t) = attacked_by p c t).
Proof.
  intro Hl. refine (conj _ (conj _ (conj _ (conj _ _)))).
  - intros. apply ray_v; assumption.
  - intros. apply attack_set_v; assumption.
  - intros. apply attacks_v; assumption.
  - apply attackers_v, Hl.
  - apply attacked_by_v, Hl.
Qed.

Theorem mirror_h_attacks (p:pos) : length (placement p) = 64%nat ->
  (forall s df dr n, s < 64 ->
     ray (mirror_h p) (flip_file_sq s) (- df, dr)%Z n = map flip_file_sq (ray p s (df,dr) n)) /\
  (forall s, s < 64 ->
     Permutation (attack_set (mirror_h p) (flip_file_sq s)) (map flip_file_sq (attack_set p s))) /\
  (forall s t, s < 64 -> attacks (mirror_h p) (flip_file_sq s) (flip_file_sq t) = attacks p s t) /\
  (forall c t, Permutation (attackers (mirror_h p) c (flip_file_sq t))
                           (map flip_file_sq (attackers p c t))) /\
  (forall c t, attacked_by (mirror_h p) c (flip_file_sq t) = attacked_by p c t).
Proof.
  intro Hl. refine (conj _ (conj _ (conj _ (conj _ _)))).
  - intros. apply ray_h; assumption.
  - intros. apply attack_set_h; assumption.
  - intros. apply attacks_h; assumption.
  - apply attackers_h, Hl.
  - apply attacked_by_h, Hl.
Qed.

Theorem mirror_v_check (p:pos) (c:color) : WFpos p ->
  king_sq (mirror_v p) (opp c) = option_map flip_rank_sq (king_sq p c) /\
  in_check (mirror_v p) (opp c) = in_check p c.
Proof.
  intro W. pose proof (WFpos_uniq p W) as U. destruct W as [Hl _].
  split; [apply king_sq_v|apply in_check_v]; assumption.
Qed.

Theorem mirror_h_check (p:pos) (c:color) : WFpos p ->
  king_sq (mirror_h p) c = option_map flip_file_sq (king_sq p c) /\
  in_check (mirror_h p) c = in_check p c.
Proof.
  intro W. pose proof (WFpos_uniq p W) as U. destruct W as [Hl _].
  split; [apply king_sq_h|apply in_check_h]; assumption.
Qed.

(** ** G5 *)
Theorem mirror_v_apply (p:pos) (m:move) :
  length (placement p) = 64%nat -> src m < 64 -> dst m < 64 ->
  apply (mirror_v p) (mirror_v_move m) = mirror_v (apply p m).
Proof. intros. apply apply_v; assumption. Qed.

Theorem mirror_h_apply (p:pos) (m:move) :
  length (placement p) = 64%nat -> src m < 64 -> dst m < 64 -> is_castle p m = false ->
  apply (mirror_h p) (mirror_h_move m) = mirror_h (apply p m).
Proof. intros. apply apply_h; assumption. Qed.

(** ** well-formedness travels along *)
Theorem mirror_v_WF (p:pos) : WFpos p -> WFpos (mirror_v p).
Proof. intro W. apply (WFpos_m sym_v p); [apply Rel_v, W|exact W]. Qed.
Theorem mirror_h_WF (p:pos) : WFpos p -> WFpos (mirror_h p).
Proof. intro W. apply (WFpos_m sym_h p); [apply Rel_h, W|exact W]. Qed.
Theorem legal_WF (p:pos) (m:move) : WFpos p -> In m (legal_moves p) -> WFpos (apply p m).
Proof.
  intros W H. apply WFpos_apply; [exact W|]. unfold legal_moves in H. apply filter_In in H. apply H.
Qed.

(** ** G4, G6: the main statements *)
Theorem mirror_v_pseudo (p:pos) : length (placement p) = 64%nat ->
  Permutation (pseudo (mirror_v p)) (map mirror_v_move (pseudo p)).
Proof. apply pseudo_v. Qed.

Theorem mirror_v_main (p:pos) : WFpos p ->
  Permutation (legal_moves (mirror_v p)) (map mirror_v_move (legal_moves p)) /\
  status (mirror_v p) = status p /\
  Permutation (checkers_of (mirror_v p)) (map flip_rank_sq (checkers_of p)) /\
  Permutation (pinned_of (mirror_v p)) (map flip_rank_sq (pinned_of p)) /\
  (forall m, In m (legal_moves p) ->
     apply (mirror_v p) (mirror_v_move m) = mirror_v (apply p m) /\ WFpos (apply p m)).
Proof.
  intro W. pose proof (WFpos_uniq p W) as U. pose proof W as [Hl _].
  refine (conj _ (conj _ (conj _ (conj _ _)))).
  - apply legal_v; assumption.
  - apply status_v; assumption.
  - apply checkers_v; assumption.
  - apply pinned_v; assumption.
  - intros m H. split; [|apply (legal_WF p m W H)].
    pose proof H as H'. unfold legal_moves in H'. apply filter_In in H'. destruct H' as [H' _].
    destruct (pseudo_facts _ _ H') as [Hs [Hd _]]. apply apply_v; assumption.
Qed.

Theorem mirror_v_legal_iff (p:pos) (m:move) : WFpos p ->
  (In (mirror_v_move m) (legal_moves (mirror_v p)) <-> In m (legal_moves p)).
Proof. apply legal_v_iff. Qed.

Theorem mirror_h_pseudo (p:pos) : length (placement p) = 64%nat -> no_rights p ->
  Permutation (pseudo (mirror_h p)) (map mirror_h_move (pseudo p)).
Proof. apply pseudo_h. Qed.

Theorem mirror_h_main (p:pos) : WFpos p -> no_rights p ->
  Permutation (legal_moves (mirror_h p)) (map mirror_h_move (legal_moves p)) /\
  status (mirror_h p) = status p /\
  Permutation (checkers_of (mirror_h p)) (map flip_file_sq (checkers_of p)) /\
  Permutation (pinned_of (mirror_h p)) (map flip_file_sq (pinned_of p)) /\
  (forall m, In m (legal_moves p) ->
     apply (mirror_h p) (mirror_h_move m) = mirror_h (apply p m) /\ WFpos (apply p m)).
Proof.
  intros W NR. pose proof (WFpos_uniq p W) as U. pose proof W as [Hl _].
  refine (conj _ (conj _ (conj _ (conj _ _)))).
  - apply legal_h; assumption.
  - apply status_h; assumption.
  - apply checkers_h; assumption.
  - apply pinned_h; assumption.
  - intros m H. split; [|apply (legal_WF p m W H)].
    apply apply_legal_h; assumption.
Qed.

Theorem mirror_h_legal_iff (p:pos) (m:move) : WFpos p -> no_rights p ->
  (In (mirror_h_move m) (legal_moves (mirror_h p)) <-> In m (legal_moves p)).
Proof.
  intros W NR. pose proof (WFpos_uniq p W) as U. destruct W as [Hl W'].
  pose proof (legal_h p Hl NR U) as HP. split.
  - intro H. apply (Permutation_in _ HP) in H. apply in_map_iff in H.
    destruct H as [m' [E H]]. apply (f_equal mirror_h_move) in E.
    rewrite !mirror_h_move_invol in E. subst m'. exact H.
  - intro H. apply (Permutation_in _ (Permutation_sym HP)). apply in_map, H.
Qed.

(** ** Examples *)
Definition put (l:list (option (ptype*color))) (x:N*(ptype*color)) := updN l (fst x) (Some (snd x)).
Definition board (l:list (N*(ptype*color))) := fold_left put l (repeat None 64).

(** White: Ke1 Ra1 Rh1 Nd2 a2 h2 e5; Black: Ke8 Ra8 Bb4 d5 g4; White to move, rights KQ/q,
    en-passant target d6.  The knight on d2 is pinned by the bishop on b4. *)
Definition ex1 : pos :=
  {| placement := board [(4,(King,White));(0,(Rook,White));(7,(Rook,White));(11,(Knight,White));
                         (8,(Pawn,White));(15,(Pawn,White));(36,(Pawn,White));
                         (60,(King,Black));(56,(Rook,Black));(25,(Bishop,Black));
                         (35,(Pawn,Black));(30,(Pawn,Black))];
     turn := White; wk := true; wq := true; bk := false; bq := true; ep := Some 43 |}.
(** the same without the knight: White is in check from b4 *)
Definition ex2 : pos :=
  {| placement := updN (placement ex1) 11 None;
     turn := White; wk := true; wq := true; bk := false; bq := true; ep := None |}.
(** [ex1] without castling rights *)
Definition ex3 : pos :=
  {| placement := placement ex1; turn := White; wk := false; wq := false; bk := false; bq := false;
     ep := Some 43 |}.
Definition ex4 : pos :=
  {| placement := placement ex2; turn := White; wk := false; wq := false; bk := false; bq := false;
     ep := None |}.
(** two white kings: the hypothesis [kings p c <= 1] is needed *)
Definition ex_two_kings : pos :=
  {| placement := board [(4,(King,White));(60,(King,White));(0,(Rook,Black));(39,(King,Black))];
     turn := White; wk := false; wq := false; bk := false; bq := false; ep := None |}.

Definition move_eqb (a b:move) : bool :=
  (src a =? src b) && (dst a =? dst b) &&
  match promo a, promo b with
  | None, None => true | Some x, Some y => ptype_eqb x y | _, _ => false end.
Definition has_move (m:move) (l:list move) := existsb (move_eqb m) l.

Example ex_valid : pos_valid ex1 = true /\ pos_valid ex2 = true /\ pos_valid ex3 = true /\ pos_valid ex4 = true.
Proof. vm_compute. auto. Qed.
Example ex_WF : WFpos ex1 /\ WFpos ex2 /\ WFpos ex3 /\ WFpos ex4.
Proof. destruct ex_valid as [H1 [H2 [H3 H4]]]. repeat split; apply pos_valid_WF; assumption. Qed.
Example ex_no_rights : no_rights ex3 /\ no_rights ex4.
Proof. repeat split. Qed.

Example ex1_moves :
  length (legal_moves ex1) = 17%nat /\ length (legal_moves (mirror_v ex1)) = 17%nat /\
  legal_moves (mirror_v ex1) <> map mirror_v_move (legal_moves ex1) /\
  has_move (mv 4 6) (legal_moves ex1) = true /\ has_move (mv 60 62) (legal_moves (mirror_v ex1)) = true /\
  has_move (mv 4 2) (legal_moves ex1) = true /\ has_move (mv 60 58) (legal_moves (mirror_v ex1)) = true /\
  has_move (mv 36 43) (legal_moves ex1) = true /\ has_move (mv 28 19) (legal_moves (mirror_v ex1)) = true.
Proof. vm_compute. repeat split; try reflexivity. discriminate. Qed.

Example ex1_pins :
  pinned_of ex1 = [11] /\ pinned_of (mirror_v ex1) = [51] /\ pinned_of (mirror_h ex3) = [12] /\
  status ex1 = Ongoing /\ status (mirror_v ex1) = Ongoing.
Proof. vm_compute. auto. Qed.

Example ex2_check :
  checkers_of ex2 = [25] /\ checkers_of (mirror_v ex2) = [33] /\ checkers_of (mirror_h ex4) = [30] /\
  in_check ex2 White = true /\ in_check (mirror_v ex2) Black = true /\ in_check (mirror_h ex4) White = true /\
  king_sq (mirror_v ex2) Black = Some 60 /\ king_sq (mirror_h ex4) White = Some 3.
Proof. vm_compute. repeat split. Qed.

Example ex1_apply :
  apply (mirror_v ex1) (mirror_v_move (mv 15 31)) = mirror_v (apply ex1 (mv 15 31)) /\
  ep (apply ex1 (mv 15 31)) = Some 23 /\ ep (apply (mirror_v ex1) (mirror_v_move (mv 15 31))) = Some 47 /\
  apply (mirror_v ex1) (mirror_v_move (mv 4 6)) = mirror_v (apply ex1 (mv 4 6)) /\
  at_ (apply ex1 (mv 4 6)) 5 = Some (Rook,White) /\
  at_ (apply (mirror_v ex1) (mirror_v_move (mv 4 6))) 61 = Some (Rook,Black) /\
  wk (apply ex1 (mv 4 6)) = false /\ bq (apply ex1 (mv 4 6)) = true /\
  bk (apply (mirror_v ex1) (mirror_v_move (mv 4 6))) = false /\
  wq (apply (mirror_v ex1) (mirror_v_move (mv 4 6))) = true /\
  apply (mirror_v ex1) (mirror_v_move (mv 36 43)) = mirror_v (apply ex1 (mv 36 43)) /\
  at_ (apply ex1 (mv 36 43)) 35 = None /\
  apply (mirror_h ex3) (mirror_h_move (mv 36 43)) = mirror_h (apply ex3 (mv 36 43)) /\
  ep (apply (mirror_h ex3) (mirror_h_move (mv 15 31))) = Some 16.
Proof. vm_compute. repeat split. Qed.

Example ex3_moves :
  length (legal_moves ex3) = 15%nat /\ length (legal_moves (mirror_h ex3)) = 15%nat /\
  legal_moves (mirror_h ex3) <> map mirror_h_move (legal_moves ex3) /\
  has_move (mv 36 43) (legal_moves ex3) = true /\ has_move (mv 35 44) (legal_moves (mirror_h ex3)) = true.
Proof. vm_compute. repeat split; try reflexivity. discriminate. Qed.

(** the left-right mirror does NOT commute with castling (hence the restriction of G7) *)
Example ex_h_castle_breaks :
  apply (mirror_h ex1) (mirror_h_move (mv 4 6)) <> mirror_h (apply ex1 (mv 4 6)).
Proof. vm_compute. discriminate. Qed.

(** with two kings of one colour the check status is not mirror-invariant *)
Example ex_two_kings_breaks :
  length (placement ex_two_kings) = 64%nat /\ kings ex_two_kings White = 2 /\
  in_check ex_two_kings White = true /\ in_check (mirror_v ex_two_kings) Black = false.
Proof. vm_compute. auto. Qed.
