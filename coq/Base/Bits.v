(** * Base.Bits — 64-bit words as [N], the model of Rust's [u64] / [BitBoard].
    Definitions only (no proofs here: the model must still run when a proof breaks). *)
From Coq Require Export NArith ZArith List Bool.
Export ListNotations.
Open Scope N_scope.

Definition M64 : N := 18446744073709551615.
Definition wf64 (x:N) : Prop := x < 18446744073709551616.
Definition bit (s:N) : N := N.shiftl 1 s.
(** [!x] on u64.  Meaningful for [x <= M64]. *)
Definition lnot64 (x:N) : N := N.lxor x M64.
(** [x.wrapping_mul(y)] *)
Definition mul64 (a b:N) : N := N.land (a * b) M64.
(** [x << k] on u64 (k < 64) *)
Definition shl64 (a k:N) : N := N.land (N.shiftl a k) M64.

(** Iteration order of [impl Iterator for BitBoard]: lowest set bit first. *)
Fixpoint pos_bits (p:positive) (i:N) : list N :=
  match p with
  | xH => [i]
  | xO q => pos_bits q (N.succ i)
  | xI q => i :: pos_bits q (N.succ i)
  end.
Definition squares_of (b:N) : list N := match b with N0 => [] | Npos p => pos_bits p 0 end.

Fixpoint popc_pos (p:positive) : N :=
  match p with xH => 1 | xO q => popc_pos q | xI q => N.succ (popc_pos q) end.
(** [count_ones] *)
Definition popcnt (b:N) : N := match b with N0 => 0 | Npos p => popc_pos p end.

Fixpoint ctz_pos (p:positive) : N := match p with xO q => N.succ (ctz_pos q) | _ => 0 end.
(** [trailing_zeros] on u64: 64 for 0 *)
Definition trailing_zeros (b:N) : N := match b with N0 => 64 | Npos p => ctz_pos p end.
(** [BitBoard::to_square] = [Square::new(trailing_zeros as u8)] = [& 63] *)
Definition to_square (b:N) : N := N.land (trailing_zeros b) 63.

(** [swap_bytes] *)
Definition byte_at (x i:N) : N := N.land (N.shiftr x (8*i)) 255.
Definition bswap64 (x:N) : N :=
  fold_left (fun acc i => N.lor acc (N.shiftl (byte_at x i) (8*(7-i)))) [0;1;2;3;4;5;6;7] 0.

Definition all_sq : list N :=
  [0;1;2;3;4;5;6;7;8;9;10;11;12;13;14;15;16;17;18;19;20;21;22;23;24;25;26;27;28;29;30;31;
   32;33;34;35;36;37;38;39;40;41;42;43;44;45;46;47;48;49;50;51;52;53;54;55;56;57;58;59;60;61;62;63].

Definition bb_of (f:N->bool) : N :=
  fold_left (fun acc s => if f s then N.lor acc (bit s) else acc) all_sq 0.
Definition nthN {A} (l:list A) (i:N) (d:A) : A := nth (N.to_nat i) l d.

(** [_pext_u64] / [_pdep_u64] (BMI2), bit by bit from the low end *)
Fixpoint pext_aux (fuel:nat) (x m:N) (i k:N) : N :=
  match fuel with O => 0 | S f =>
    if N.testbit m i then N.lor (if N.testbit x i then bit k else 0) (pext_aux f x m (N.succ i) (N.succ k))
    else pext_aux f x m (N.succ i) k end.
Definition pext64 (x m:N) : N := pext_aux 64 x m 0 0.
Fixpoint pdep_aux (fuel:nat) (x m:N) (i k:N) : N :=
  match fuel with O => 0 | S f =>
    if N.testbit m i then N.lor (if N.testbit x k then bit i else 0) (pdep_aux f x m (N.succ i) (N.succ k))
    else pdep_aux f x m (N.succ i) k end.
Definition pdep64 (x m:N) : N := pdep_aux 64 x m 0 0.
