(** * Spec.Text — what "standard FEN" and "the SAN spellings of a move" mean.
    An independent FEN writer, a FEN well-formedness recogniser, and the set of admissible
    SAN texts of a legal move (FIDE Appendix C style, as the library documents it). *)
From Chess Require Export Spec.Rules Base.Text.
Open Scope N_scope.

(** ** FEN *)
Definition fen_piece (x:ptype*color) : N :=
  let l := match fst x with Pawn => 112 | Knight => 110 | Bishop => 98 | Rook => 114 | Queen => 113 | King => 107 end in
  match snd x with White => l - 32 | Black => l end.
Fixpoint fen_rank (cells:list (option (ptype*color))) (run:N) : str :=
  match cells with
  | [] => if run =? 0 then [] else [48 + run]
  | None :: r => fen_rank r (run + 1)
  | Some pc :: r => (if run =? 0 then [] else [48 + run]) ++ [fen_piece pc] ++ fen_rank r 0
  end.
Definition rank_cells (p:pos) (r:N) : list (option (ptype*color)) :=
  map (fun f => at_ p (r*8+f)) [0;1;2;3;4;5;6;7].
Fixpoint join_slash (l:list str) : str :=
  match l with [] => [] | [x] => x | x :: r => x ++ [47] ++ join_slash r end.
Definition sq_name (s:N) : str := [97 + file_of s; 49 + rank_of s].
(** [dp]: the square passed over, when the last move was a double pawn push (recorded after
    every double push, as the FEN standard says) *)
Definition std_fen (p:pos) (dp:option N) : str :=
  join_slash (map (fun r => fen_rank (rank_cells p r) 0) [7;6;5;4;3;2;1;0])
  ++ [32] ++ (match turn p with White => [119] | Black => [98] end) ++ [32]
  ++ (let c := (if wk p then [75] else []) ++ (if wq p then [81] else [])
               ++ (if bk p then [107] else []) ++ (if bq p then [113] else []) in
      match c with [] => [45] | _ => c end)
  ++ [32] ++ (match dp with Some t => sq_name t | None => [45] end) ++ [32;48;32;49].

Definition is_piece_letter (c:N) : bool :=
  existsb (N.eqb c) [112;110;98;114;113;107;80;78;66;82;81;75].
Definition is_digit (c:N) : bool := (48 <=? c) && (c <=? 57).
(** one rank: piece letters and digits 1-8, no two digits in a row, widths summing to 8 *)
Fixpoint rank_ok (cs:str) (width:N) (prev_digit:bool) : bool :=
  match cs with
  | [] => width =? 8
  | c :: r => if is_piece_letter c then rank_ok r (width + 1) false
              else if (49 <=? c) && (c <=? 56) && negb prev_digit then rank_ok r (width + (c - 48)) true
              else false
  end.
Fixpoint split_on (sep:N) (s:str) (cur:str) : list str :=
  match s with [] => [rev cur] | c :: r => if c =? sep then rev cur :: split_on sep r [] else split_on sep r (c :: cur) end.
(** castling field: "-" or a non-empty subsequence of KQkq in that order *)
Fixpoint subseq_of (s pat:str) : bool :=
  match s, pat with
  | [], _ => true
  | _ :: _, [] => false
  | c :: r, x :: pr => if c =? x then subseq_of r pr else subseq_of s pr
  end.
Definition fen_wellformed (s:str) : bool :=
  match split_on 32 s [] with
  | [pl; side; castles; epf; half; full] =>
    (let ranks := split_on 47 pl [] in (length ranks =? 8)%nat && forallb (fun r => rank_ok r 0 false) ranks)
    && (str_eqb side [119] || str_eqb side [98])
    && (str_eqb castles [45] || (match castles with [] => false | _ => subseq_of castles [75;81;107;113] end))
    && (str_eqb epf [45]
        || match epf with [f; r] => (97 <=? f) && (f <=? 104) && ((r =? 51) || (r =? 54)) | _ => false end)
    && (match half with [] => false | _ => forallb is_digit half end)
    && (match full with [] => false | _ => forallb is_digit full end)
  | _ => false
  end.

(** ** SAN *)
Definition is_capture_move (p:pos) (m:move) : bool := occ p (dst m) || is_ep p m.
Definition piece_at (p:pos) (s:N) : option ptype := match at_ p s with Some (t,_) => Some t | None => None end.
Definition san_letter (t:ptype) : str :=
  match t with Pawn => [] | Knight => [78] | Bishop => [66] | Rook => [82] | Queen => [81] | King => [75] end.
Definition promo_opt_eqb (a b:option ptype) :=
  match a,b with Some x, Some y => ptype_eqb x y | None,None => true | _,_ => false end.
Definition move_eqb (a b:move) := (src a =? src b) && (dst a =? dst b) && promo_opt_eqb (promo a) (promo b).
(** the legal moves that a text with piece [t], optional source file / rank, destination and
    promotion of [m] would match *)
Definition san_matches (p:pos) (t:ptype) (sf sr:option N) (m:move) : list move :=
  filter (fun x =>
            (match piece_at p (src x) with Some t' => ptype_eqb t t' | None => false end)
            && (dst x =? dst m) && promo_opt_eqb (promo x) (promo m)
            && (match sf with Some f => file_of (src x) =? f | None => true end)
            && (match sr with Some r => rank_of (src x) =? r | None => true end))
         (legal_moves p).
Definition san_spellings (p:pos) (m:move) : list str :=
  let after := apply p m in
  let marks : list str :=
    [] :: (if in_check after (turn after)
           then (match status after with Checkmate => [[35]] | _ => [[43]] end) else []) in
  if is_castle p m then
    let base := if file_of (dst m) =? 6 then [79;45;79] else [79;45;79;45;79] in
    map (fun mk => base ++ mk) marks
  else
  match piece_at p (src m) with
  | None => []
  | Some t =>
    let cap := is_capture_move p m in
    let f := Some (file_of (src m)) in let r := Some (rank_of (src m)) in
    let candidates : list (option N * option N) :=
      match t with
      | Pawn => if cap then [(f,None); (f,r)] else [(None,None); (f,None); (f,r)]
      | _ => [(None,None); (f,None); (None,r); (f,r)]
      end in
    let good := filter (fun d => match san_matches p t (fst d) (snd d) m with
                                 | [x] => move_eqb x m | _ => false end) candidates in
    let eps : list str := [] :: (if is_ep p m then [[32;101;46;112;46]] else []) in
    flat_map (fun d =>
      let body := san_letter t
                  ++ (match fst d with Some ff => [97 + ff] | None => [] end)
                  ++ (match snd d with Some rr => [49 + rr] | None => [] end)
                  ++ (if cap then [120] else [])
                  ++ sq_name (dst m)
                  ++ (match promo m with Some pt => san_letter pt | None => [] end) in
      flat_map (fun mk => map (fun e => body ++ mk ++ e) eps) marks) good
  end.
