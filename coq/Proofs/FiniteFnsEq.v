(** * Proofs.FiniteFnsEq — property C16, part B.
    (1) The graphs of the finite-domain public functions, tabulated from the compiled
        library into [Gen/FiniteFns.v], equal the hand-written model, over the whole domain.
    (2) What the model's square arithmetic means (plain arithmetic on 0..63).
    (3) The pawn accessors with a blocker argument, for ALL blocker words. *)
From Coq Require Import Lia ZifyBool ZifyN ZifyNat.
From Chess Require Import Base.Bits Base.Text Spec.Geometry Spec.Rules Gen.FiniteFns
  Model.BitBoard Model.Board Model.MoveGen Model.Fen.
Open Scope N_scope.
Ltac Zify.zify_post_hook ::= Z.div_mod_to_equations.
Arguments N.add : simpl never.
Arguments N.sub : simpl never.
Arguments N.mul : simpl never.
Arguments N.shiftl : simpl never.
Arguments N.shiftr : simpl never.
Arguments N.land : simpl never.
Arguments N.lor : simpl never.
Arguments N.lxor : simpl never.
Arguments N.testbit : simpl never.
Arguments N.eqb : simpl never.
Arguments N.ltb : simpl never.
Arguments N.leb : simpl never.

(** ** Domains and sweep infrastructure *)
Definition r8 : list N := [0;1;2;3;4;5;6;7].
Definition r16 : list N := [0;1;2;3;4;5;6;7;8;9;10;11;12;13;14;15].
Definition r4 : list N := [0;1;2;3].
(** encoding of [Option<Square>] used by the harness: 64 = None *)
Definition osq (o:option N) : N := match o with Some t => t | None => 64 end.
Definition b2n (b:bool) : N := if b then 1 else 0.
(** [Square::forward] / [Square::backward]: a match on the colour around up / down *)
Definition sq_forward (c:color) (s:N) : option N := match c with White => sq_up s | Black => sq_down s end.
Definition sq_backward (c:color) (s:N) : option N := match c with White => sq_down s | Black => sq_up s end.

Lemma in_all_sq : forall s, In s all_sq <-> s < 64.
Proof.
  intro s. change all_sq with (map N.of_nat (seq 0 64)). rewrite in_map_iff. split.
  - intros [n [Hn Hi]]. apply in_seq in Hi. lia.
  - intro H. exists (N.to_nat s). split; [apply N2Nat.id|]. apply in_seq. lia.
Qed.
Lemma in_r8 : forall s, In s r8 <-> s < 8.
Proof.
  intro s. change r8 with (map N.of_nat (seq 0 8)). rewrite in_map_iff. split.
  - intros [n [Hn Hi]]. apply in_seq in Hi. lia.
  - intro H. exists (N.to_nat s). split; [apply N2Nat.id|]. apply in_seq. lia.
Qed.
Lemma sweep1 (P:N->bool) : forallb P all_sq = true -> forall s, s < 64 -> P s = true.
Proof. intros H s Hs. rewrite forallb_forall in H. apply H, in_all_sq, Hs. Qed.
Lemma sweep2 (P:N->N->bool) :
  forallb (fun a => forallb (P a) all_sq) all_sq = true -> forall a b, a < 64 -> b < 64 -> P a b = true.
Proof. intros H a b Ha Hb. apply (sweep1 (P a)); [|exact Hb]. apply (sweep1 _ H a Ha). Qed.
Lemma sweep8x8 (P:N->N->bool) :
  forallb (fun a => forallb (P a) r8) r8 = true -> forall a b, a < 8 -> b < 8 -> P a b = true.
Proof.
  intros H a b Ha Hb. rewrite forallb_forall in H. specialize (H a (proj2 (in_r8 a) Ha)).
  rewrite forallb_forall in H. apply H, in_r8, Hb.
Qed.
Definition oeqb (a b:option N) : bool :=
  match a, b with Some x, Some y => x =? y | None, None => true | _, _ => false end.
Lemma oeqb_eq : forall a b, oeqb a b = true -> a = b.
Proof. intros [x|] [y|] H; cbn in H; try discriminate; [apply N.eqb_eq in H; subst|]; reflexivity. Qed.

(** ** (1) Graph = model, over the complete domain *)
(** *** squares *)
Lemma F_sq_rank_eq : F_sq_rank = map sq_rank all_sq. Proof. vm_compute. reflexivity. Qed.
Lemma F_sq_file_eq : F_sq_file = map sq_file all_sq. Proof. vm_compute. reflexivity. Qed.
Lemma F_up_eq : F_up = map (fun s => osq (sq_up s)) all_sq. Proof. vm_compute. reflexivity. Qed.
Lemma F_down_eq : F_down = map (fun s => osq (sq_down s)) all_sq. Proof. vm_compute. reflexivity. Qed.
Lemma F_left_eq : F_left = map (fun s => osq (sq_left s)) all_sq. Proof. vm_compute. reflexivity. Qed.
Lemma F_right_eq : F_right = map (fun s => osq (sq_right s)) all_sq. Proof. vm_compute. reflexivity. Qed.
Lemma F_uup_eq : F_uup = map uup all_sq. Proof. vm_compute. reflexivity. Qed.
Lemma F_udown_eq : F_udown = map udown all_sq. Proof. vm_compute. reflexivity. Qed.
Lemma F_uleft_eq : F_uleft = map uleft all_sq. Proof. vm_compute. reflexivity. Qed.
Lemma F_uright_eq : F_uright = map uright all_sq. Proof. vm_compute. reflexivity. Qed.
Lemma F_forward_0_eq : F_forward_0 = map (fun s => osq (sq_forward White s)) all_sq. Proof. vm_compute. reflexivity. Qed.
Lemma F_forward_1_eq : F_forward_1 = map (fun s => osq (sq_forward Black s)) all_sq. Proof. vm_compute. reflexivity. Qed.
Lemma F_backward_0_eq : F_backward_0 = map (fun s => osq (sq_backward White s)) all_sq. Proof. vm_compute. reflexivity. Qed.
Lemma F_backward_1_eq : F_backward_1 = map (fun s => osq (sq_backward Black s)) all_sq. Proof. vm_compute. reflexivity. Qed.
Lemma F_uforward_0_eq : F_uforward_0 = map (uforward White) all_sq. Proof. vm_compute. reflexivity. Qed.
Lemma F_uforward_1_eq : F_uforward_1 = map (uforward Black) all_sq. Proof. vm_compute. reflexivity. Qed.
Lemma F_ubackward_0_eq : F_ubackward_0 = map (ubackward White) all_sq. Proof. vm_compute. reflexivity. Qed.
Lemma F_ubackward_1_eq : F_ubackward_1 = map (ubackward Black) all_sq. Proof. vm_compute. reflexivity. Qed.
Lemma F_make_square_eq : F_make_square = flat_map (fun r => map (fun f => mk_sq r f) r8) r8.
Proof. vm_compute. reflexivity. Qed.
Lemma F_all_squares_eq : F_all_squares = all_sq. Proof. vm_compute. reflexivity. Qed.

(** *** files, ranks, colours *)
Lemma F_file_from_index_eq : F_file_from_index = map (fun i => N.land i 7) r16. Proof. vm_compute. reflexivity. Qed.
Lemma F_rank_from_index_eq : F_rank_from_index = map (fun i => N.land i 7) r16. Proof. vm_compute. reflexivity. Qed.
Lemma F_file_left_eq : F_file_left = map (fun f => N.land (f+7) 7) r8. Proof. vm_compute. reflexivity. Qed.
Lemma F_file_right_eq : F_file_right = map (fun f => N.land (f+1) 7) r8. Proof. vm_compute. reflexivity. Qed.
Lemma F_rank_up_eq : F_rank_up = map (fun r => N.land (r+1) 7) r8. Proof. vm_compute. reflexivity. Qed.
Lemma F_rank_down_eq : F_rank_down = map (fun r => N.land (r+7) 7) r8. Proof. vm_compute. reflexivity. Qed.
Lemma F_all_files_eq : F_all_files = r8. Proof. vm_compute. reflexivity. Qed.
Lemma F_all_ranks_eq : F_all_ranks = r8. Proof. vm_compute. reflexivity. Qed.
Definition color_ranks (c:color) : list N :=
  [my_backrank c; my_backrank (opp c); second_rk c; fourth_rk c; seventh_rk c].
Lemma F_color_ranks_0_eq : F_color_ranks_0 = color_ranks White. Proof. vm_compute. reflexivity. Qed.
Lemma F_color_ranks_1_eq : F_color_ranks_1 = color_ranks Black. Proof. vm_compute. reflexivity. Qed.
Lemma F_color_not_0_eq : F_color_not_0 = [cidx (opp White)]. Proof. vm_compute. reflexivity. Qed.
Lemma F_color_not_1_eq : F_color_not_1 = [cidx (opp Black)]. Proof. vm_compute. reflexivity. Qed.

(** *** castle rights *)
Lemma F_sq_to_cr_0_eq : F_sq_to_cr_0 = map (square_to_castle_rights White) all_sq. Proof. vm_compute. reflexivity. Qed.
Lemma F_sq_to_cr_1_eq : F_sq_to_cr_1 = map (square_to_castle_rights Black) all_sq. Proof. vm_compute. reflexivity. Qed.
(** [CastleRights::rook_square_to_castle_rights]: file a -> queenside (2), file h -> kingside (1) *)
Definition rook_square_to_castle_rights (s:N) : N :=
  if sq_file s =? 0 then 2 else if sq_file s =? 7 then 1 else 0.
Lemma F_rook_sq_cr_eq : F_rook_sq_cr = map rook_square_to_castle_rights all_sq. Proof. vm_compute. reflexivity. Qed.
(** one row of the harness dump for the rights value [cr] *)
Definition cr_row (cr:N) : list N :=
  [b2n (cr_has_kingside cr); b2n (cr_has_queenside cr)]
  ++ flat_map (fun c => [unmoved_rooks cr c; kingside_squares c; queenside_squares c]) [White;Black]
  ++ flat_map (fun j => [cr_add cr j; cr_remove cr j]) r4.
Lemma F_cr_0_eq : F_cr_0 = cr_row 0. Proof. vm_compute. reflexivity. Qed.
Lemma F_cr_1_eq : F_cr_1 = cr_row 1. Proof. vm_compute. reflexivity. Qed.
Lemma F_cr_2_eq : F_cr_2 = cr_row 2. Proof. vm_compute. reflexivity. Qed.
Lemma F_cr_3_eq : F_cr_3 = cr_row 3. Proof. vm_compute. reflexivity. Qed.
Lemma F_cr_from_index_eq : F_cr_from_index = map (fun i => N.land i 3) r8. Proof. vm_compute. reflexivity. Qed.
Lemma S_cr_string_eq :
  [[S_cr_string_0_0; S_cr_string_0_1]; [S_cr_string_1_0; S_cr_string_1_1];
   [S_cr_string_2_0; S_cr_string_2_1]; [S_cr_string_3_0; S_cr_string_3_1]]
  = map (fun cr => map (cr_to_string cr) [White;Black]) r4.
Proof. vm_compute. reflexivity. Qed.

(** *** bitboards of single squares *)
Lemma F_from_square_eq : F_from_square = map bb_from_square all_sq. Proof. vm_compute. reflexivity. Qed.
Lemma F_to_square_single_eq : F_to_square_single = map (fun s => bb_to_square (bb_from_square s)) all_sq.
Proof. vm_compute. reflexivity. Qed.
Lemma F_to_square_single_id : F_to_square_single = all_sq. Proof. vm_compute. reflexivity. Qed.

(** *** pieces *)
Lemma F_promotion_pieces_eq : F_promotion_pieces = map pidx promotion_pieces. Proof. vm_compute. reflexivity. Qed.
Lemma F_all_pieces_eq : F_all_pieces = map pidx all_ptypes. Proof. vm_compute. reflexivity. Qed.
Lemma S_piece_display_eq :
  [S_piece_display_0; S_piece_display_1; S_piece_display_2; S_piece_display_3; S_piece_display_4; S_piece_display_5]
  = map (fun p => [piece_letter p]) all_ptypes.
Proof. vm_compute. reflexivity. Qed.
Lemma S_piece_string_eq :
  [[S_piece_string_0_0; S_piece_string_0_1]; [S_piece_string_1_0; S_piece_string_1_1];
   [S_piece_string_2_0; S_piece_string_2_1]; [S_piece_string_3_0; S_piece_string_3_1];
   [S_piece_string_4_0; S_piece_string_4_1]; [S_piece_string_5_0; S_piece_string_5_1]]
  = map (fun p => map (piece_to_string p) [White;Black]) all_ptypes.
Proof. vm_compute. reflexivity. Qed.

(** *** [impl Display for Square] *)
Definition S_square_display_all : list (list N) :=
  [S_square_display_0; S_square_display_1; S_square_display_2; S_square_display_3;
   S_square_display_4; S_square_display_5; S_square_display_6; S_square_display_7;
   S_square_display_8; S_square_display_9; S_square_display_10; S_square_display_11;
   S_square_display_12; S_square_display_13; S_square_display_14; S_square_display_15;
   S_square_display_16; S_square_display_17; S_square_display_18; S_square_display_19;
   S_square_display_20; S_square_display_21; S_square_display_22; S_square_display_23;
   S_square_display_24; S_square_display_25; S_square_display_26; S_square_display_27;
   S_square_display_28; S_square_display_29; S_square_display_30; S_square_display_31;
   S_square_display_32; S_square_display_33; S_square_display_34; S_square_display_35;
   S_square_display_36; S_square_display_37; S_square_display_38; S_square_display_39;
   S_square_display_40; S_square_display_41; S_square_display_42; S_square_display_43;
   S_square_display_44; S_square_display_45; S_square_display_46; S_square_display_47;
   S_square_display_48; S_square_display_49; S_square_display_50; S_square_display_51;
   S_square_display_52; S_square_display_53; S_square_display_54; S_square_display_55;
   S_square_display_56; S_square_display_57; S_square_display_58; S_square_display_59;
   S_square_display_60; S_square_display_61; S_square_display_62; S_square_display_63].
Lemma S_square_display_eq : S_square_display_all = map square_display all_sq.
Proof. vm_compute. reflexivity. Qed.

(** *** the pawn accessors at the two extreme blocker words *)
Lemma F_pawn_attacks_all_0_eq : F_pawn_attacks_all_0 = map (fun s => get_pawn_attacks s White M64) all_sq.
Proof. vm_compute. reflexivity. Qed.
Lemma F_pawn_attacks_all_1_eq : F_pawn_attacks_all_1 = map (fun s => get_pawn_attacks s Black M64) all_sq.
Proof. vm_compute. reflexivity. Qed.
Lemma F_pawn_quiets_empty_0_eq : F_pawn_quiets_empty_0 = map (fun s => get_pawn_quiets s White 0) all_sq.
Proof. vm_compute. reflexivity. Qed.
Lemma F_pawn_quiets_empty_1_eq : F_pawn_quiets_empty_1 = map (fun s => get_pawn_quiets s Black 0) all_sq.
Proof. vm_compute. reflexivity. Qed.

(** ** (2) Meaning of the model's square arithmetic *)
Lemma land7_mod8 : forall x, N.land x 7 = x mod 8.
Proof. intro x. change 7 with (N.ones 3). rewrite N.land_ones. reflexivity. Qed.
Lemma sq_file_mod : forall s, sq_file s = s mod 8.
Proof. intro s. unfold sq_file. apply land7_mod8. Qed.
Lemma sq_rank_divmod : forall s, sq_rank s = (s / 8) mod 8.
Proof. intro s. unfold sq_rank. rewrite land7_mod8, N.shiftr_div_pow2. reflexivity. Qed.
Lemma sq_rank_div : forall s, s < 64 -> sq_rank s = s / 8.
Proof.
  intros s Hs. rewrite sq_rank_divmod. apply N.mod_small.
  apply N.div_lt_upper_bound; lia.
Qed.
Lemma sq_rank_lt8 : forall s, sq_rank s < 8.
Proof. intro s. rewrite sq_rank_divmod. apply N.mod_lt. lia. Qed.
Lemma sq_file_lt8 : forall s, sq_file s < 8.
Proof. intro s. rewrite sq_file_mod. apply N.mod_lt. lia. Qed.

Lemma mk_sq_sweep : forallb (fun r => forallb (fun f => mk_sq r f =? 8*r+f) r8) r8 = true.
Proof. vm_cast_no_check (eq_refl true). Qed.
Lemma mk_sq_arith : forall r f, r < 8 -> f < 8 -> mk_sq r f = 8*r+f.
Proof. intros r f Hr Hf. apply N.eqb_eq. exact (sweep8x8 _ mk_sq_sweep r f Hr Hf). Qed.
(** without bounds: both arguments are first reduced mod 8 (the [& 7] of [from_index]) *)
Lemma mk_sq_arith_mod : forall r f, mk_sq r f = 8 * (r mod 8) + f mod 8.
Proof.
  intros r f. rewrite <- mk_sq_arith by (apply N.mod_lt; lia).
  unfold mk_sq. rewrite <- !land7_mod8.
  assert (H: forall x, N.land (N.land x 7) 7 = N.land x 7).
  { intro x. rewrite <- N.land_assoc. reflexivity. }
  rewrite !H. reflexivity.
Qed.
Lemma mk_sq_lt64 : forall r f, mk_sq r f < 64.
Proof.
  intros r f. rewrite mk_sq_arith_mod.
  pose proof (N.mod_lt r 8 ltac:(lia)). pose proof (N.mod_lt f 8 ltac:(lia)). lia.
Qed.
Lemma sq_rank_mk_sq : forall r f, r < 8 -> f < 8 -> sq_rank (mk_sq r f) = r.
Proof.
  intros r f Hr Hf. rewrite mk_sq_arith by assumption. rewrite sq_rank_divmod.
  lia.
Qed.
Lemma sq_file_mk_sq : forall r f, r < 8 -> f < 8 -> sq_file (mk_sq r f) = f.
Proof. intros r f Hr Hf. rewrite mk_sq_arith by assumption. rewrite sq_file_mod. lia. Qed.
Lemma mk_sq_rank_file : forall s, s < 64 -> mk_sq (sq_rank s) (sq_file s) = s.
Proof.
  intros s Hs. rewrite mk_sq_arith by (apply sq_rank_lt8 || apply sq_file_lt8).
  rewrite sq_rank_div by assumption. rewrite sq_file_mod. lia.
Qed.
(** beyond the board the round trip reduces mod 64 *)
Lemma mk_sq_rank_file_mod : forall s, mk_sq (sq_rank s) (sq_file s) = s mod 64.
Proof.
  intros s. rewrite mk_sq_arith by (apply sq_rank_lt8 || apply sq_file_lt8).
  rewrite sq_rank_divmod, sq_file_mod. lia.
Qed.

(** *** the wrapping steps *)
Lemma uup_arith : forall s, s < 64 -> uup s = (s + 8) mod 64.
Proof.
  intros s Hs. unfold uup. rewrite mk_sq_arith_mod, sq_rank_div, sq_file_mod by assumption. lia.
Qed.
Lemma udown_arith : forall s, s < 64 -> udown s = (s + 56) mod 64.
Proof.
  intros s Hs. unfold udown. rewrite mk_sq_arith_mod, sq_rank_div, sq_file_mod by assumption. lia.
Qed.
Lemma uleft_arith : forall s, s < 64 -> uleft s = 8 * sq_rank s + (sq_file s + 7) mod 8.
Proof.
  intros s Hs. unfold uleft. rewrite mk_sq_arith_mod.
  rewrite (N.mod_small (sq_rank s)) by apply sq_rank_lt8. reflexivity.
Qed.
Lemma uright_arith : forall s, s < 64 -> uright s = 8 * sq_rank s + (sq_file s + 1) mod 8.
Proof.
  intros s Hs. unfold uright. rewrite mk_sq_arith_mod.
  rewrite (N.mod_small (sq_rank s)) by apply sq_rank_lt8. reflexivity.
Qed.
(** away from the edge the wrapping steps are plain +-8 / +-1 *)
Lemma uup_inner : forall s, s < 64 -> sq_rank s <> 7 -> uup s = s + 8.
Proof. intros s Hs Hr. rewrite uup_arith by assumption. rewrite sq_rank_div in Hr by assumption. lia. Qed.
Lemma udown_inner : forall s, s < 64 -> sq_rank s <> 0 -> udown s = s - 8.
Proof. intros s Hs Hr. rewrite udown_arith by assumption. rewrite sq_rank_div in Hr by assumption. lia. Qed.
Lemma uleft_inner : forall s, s < 64 -> sq_file s <> 0 -> uleft s = s - 1.
Proof.
  intros s Hs Hf. rewrite uleft_arith by assumption. rewrite sq_rank_div by assumption.
  rewrite sq_file_mod in *. lia.
Qed.
Lemma uright_inner : forall s, s < 64 -> sq_file s <> 7 -> uright s = s + 1.
Proof.
  intros s Hs Hf. rewrite uright_arith by assumption. rewrite sq_rank_div by assumption.
  rewrite sq_file_mod in *. lia.
Qed.
(** at the edge they wrap around: same file, opposite back rank / same rank, opposite file *)
Lemma uup_edge : forall s, s < 64 -> sq_rank s = 7 -> uup s = s - 56.
Proof. intros s Hs Hr. rewrite uup_arith by assumption. rewrite sq_rank_div in Hr by assumption. lia. Qed.
Lemma udown_edge : forall s, s < 64 -> sq_rank s = 0 -> udown s = s + 56.
Proof. intros s Hs Hr. rewrite udown_arith by assumption. rewrite sq_rank_div in Hr by assumption. lia. Qed.
Lemma uleft_edge : forall s, s < 64 -> sq_file s = 0 -> uleft s = s + 7.
Proof.
  intros s Hs Hf. rewrite uleft_arith by assumption. rewrite sq_rank_div by assumption.
  rewrite sq_file_mod in *. lia.
Qed.
Lemma uright_edge : forall s, s < 64 -> sq_file s = 7 -> uright s = s - 7.
Proof.
  intros s Hs Hf. rewrite uright_arith by assumption. rewrite sq_rank_div by assumption.
  rewrite sq_file_mod in *. lia.
Qed.

(** *** the checked steps *)
Lemma sq_up_meaning : forall s, s < 64 -> sq_up s = if sq_rank s =? 7 then None else Some (s + 8).
Proof.
  intros s Hs. unfold sq_up. destruct (sq_rank s =? 7) eqn:E; [reflexivity|].
  apply N.eqb_neq in E. rewrite uup_inner by assumption. reflexivity.
Qed.
Lemma sq_down_meaning : forall s, s < 64 -> sq_down s = if sq_rank s =? 0 then None else Some (s - 8).
Proof.
  intros s Hs. unfold sq_down. destruct (sq_rank s =? 0) eqn:E; [reflexivity|].
  apply N.eqb_neq in E. rewrite udown_inner by assumption. reflexivity.
Qed.
Lemma sq_left_meaning : forall s, s < 64 -> sq_left s = if sq_file s =? 0 then None else Some (s - 1).
Proof.
  intros s Hs. unfold sq_left. destruct (sq_file s =? 0) eqn:E; [reflexivity|].
  apply N.eqb_neq in E. rewrite uleft_inner by assumption. reflexivity.
Qed.
Lemma sq_right_meaning : forall s, s < 64 -> sq_right s = if sq_file s =? 7 then None else Some (s + 1).
Proof.
  intros s Hs. unfold sq_right. destruct (sq_file s =? 7) eqn:E; [reflexivity|].
  apply N.eqb_neq in E. rewrite uright_inner by assumption. reflexivity.
Qed.
(** the same with rank and file spelled as quotient and remainder *)
Lemma sq_steps_divmod : forall s, s < 64 ->
  sq_up s = (if s / 8 =? 7 then None else Some (s + 8)) /\
  sq_down s = (if s / 8 =? 0 then None else Some (s - 8)) /\
  sq_left s = (if s mod 8 =? 0 then None else Some (s - 1)) /\
  sq_right s = (if s mod 8 =? 7 then None else Some (s + 1)).
Proof.
  intros s Hs. rewrite <- sq_rank_div, <- sq_file_mod by assumption.
  repeat split; [apply sq_up_meaning|apply sq_down_meaning|apply sq_left_meaning|apply sq_right_meaning]; assumption.
Qed.
Example sq_steps_example :
  sq_up 12 = Some 20 /\ sq_up 60 = None /\ sq_down 12 = Some 4 /\ sq_down 4 = None /\
  sq_left 8 = None /\ sq_left 9 = Some 8 /\ sq_right 15 = None /\ sq_right 14 = Some 15 /\
  uup 60 = 4 /\ udown 4 = 60 /\ uleft 8 = 15 /\ uright 15 = 8.
Proof. vm_compute. repeat split. Qed.

(** ** (3) The pawn accessors, for all blocker words *)
(** *** bit-level helpers *)
Lemma testbit_bit : forall s t, N.testbit (bit s) t = (s =? t).
Proof.
  intros s t. unfold bit. rewrite N.shiftl_1_l. destruct (s =? t) eqn:E.
  - apply N.eqb_eq in E. subst. apply N.pow2_bits_true.
  - apply N.eqb_neq in E. apply N.pow2_bits_false. congruence.
Qed.
Lemma land_bit_eq0 : forall u bl, (N.land (bit u) bl =? 0) = negb (N.testbit bl u).
Proof.
  intros u bl. destruct (N.testbit bl u) eqn:E; cbn [negb].
  - apply N.eqb_neq. intro H.
    assert (K: N.testbit (N.land (bit u) bl) u = true).
    { rewrite N.land_spec, testbit_bit, N.eqb_refl, E. reflexivity. }
    rewrite H in K. rewrite N.bits_0 in K. discriminate.
  - apply N.eqb_eq. apply N.bits_inj. intro k. rewrite N.land_spec, testbit_bit, N.bits_0.
    destruct (u =? k) eqn:Ek; [|reflexivity]. apply N.eqb_eq in Ek. subst. rewrite E. reflexivity.
Qed.
Lemma testbit_high : forall x t, x < 18446744073709551616 -> 64 <= t -> N.testbit x t = false.
Proof.
  intros x t Hx Ht. destruct (N.eq_dec x 0) as [->|Hn]; [apply N.bits_0|].
  apply N.bits_above_log2. apply N.lt_le_trans with 64; [|exact Ht].
  apply N.log2_lt_pow2; [lia|]. exact Hx.
Qed.
Lemma testbit_lnot64 : forall x t, t < 64 -> N.testbit (lnot64 x) t = negb (N.testbit x t).
Proof.
  intros x t Ht. unfold lnot64. rewrite N.lxor_spec. change M64 with (N.ones 64).
  rewrite N.ones_spec_low by exact Ht. destruct (N.testbit x t); reflexivity.
Qed.
Lemma nthN_overflow : forall (l:list N) i, N.of_nat (length l) <= i -> nthN l i 0 = 0.
Proof. intros l i H. unfold nthN. apply nth_overflow. lia. Qed.
Lemma pawn_tabs_outside : forall w s, 64 <= s -> pawn_attack_tab w s = 0 /\ pawn_push_tab w s = 0.
Proof.
  intros w s Hs. unfold pawn_attack_tab, pawn_push_tab.
  split; apply nthN_overflow; destruct w; exact Hs.
Qed.

(** *** meaning of the two tables, by sweeps over colour x 64 x 64 *)
(** a pawn of colour [w] on [s] attacks [t]: adjacent file, next rank in its direction *)
Definition pawn_attack_b (w:bool) (s t:N) : bool :=
  ((Z.abs (fileZ s - fileZ t) =? 1) && (rankZ t =? rankZ s + fwd w))%Z.
(** a pawn of colour [w] on [s] may be pushed to [t] on an empty board: same file, one rank
    ahead, or two ranks ahead from the start rank *)
Definition pawn_push_b (w:bool) (s t:N) : bool :=
  ((fileZ t =? fileZ s) &&
   ((rankZ t =? rankZ s + fwd w) || ((rankZ s =? second_rank w) && (rankZ t =? rankZ s + 2 * fwd w))))%Z.

Lemma pawn_attack_tab_sweep :
  forallb (fun s => forallb (fun t =>
     Bool.eqb (N.testbit (pawn_attack_tab true s) t) (pawn_attack_b true s t)
     && Bool.eqb (N.testbit (pawn_attack_tab false s) t) (pawn_attack_b false s t)) all_sq) all_sq = true.
Proof. vm_cast_no_check (eq_refl true). Qed.
Lemma pawn_attack_tab_meaning : forall w s t, s < 64 -> t < 64 ->
  N.testbit (pawn_attack_tab w s) t = pawn_attack_b w s t.
Proof.
  intros w s t Hs Ht. pose proof (sweep2 _ pawn_attack_tab_sweep s t Hs Ht) as H.
  apply andb_prop in H. destruct H as [H1 H2]. apply eqb_prop in H1. apply eqb_prop in H2.
  destruct w; assumption.
Qed.
Lemma pawn_push_tab_sweep :
  forallb (fun s => forallb (fun t =>
     Bool.eqb (N.testbit (pawn_push_tab true s) t) (pawn_push_b true s t)
     && Bool.eqb (N.testbit (pawn_push_tab false s) t) (pawn_push_b false s t)) all_sq) all_sq = true.
Proof. vm_cast_no_check (eq_refl true). Qed.
Lemma pawn_push_tab_meaning : forall w s t, s < 64 -> t < 64 ->
  N.testbit (pawn_push_tab w s) t = pawn_push_b w s t.
Proof.
  intros w s t Hs Ht. pose proof (sweep2 _ pawn_push_tab_sweep s t Hs Ht) as H.
  apply andb_prop in H. destruct H as [H1 H2]. apply eqb_prop in H1. apply eqb_prop in H2.
  destruct w; assumption.
Qed.
(** both tables are 64-bit words and have no common bit (different files) *)
Lemma pawn_tabs_sweep :
  forallb (fun s => forallb (fun w =>
     (pawn_attack_tab w s <? 18446744073709551616) && (pawn_push_tab w s <? 18446744073709551616)
     && (N.land (pawn_attack_tab w s) (pawn_push_tab w s) =? 0)) [true;false]) all_sq = true.
Proof. vm_cast_no_check (eq_refl true). Qed.
Lemma pawn_tabs_facts : forall w s,
  pawn_attack_tab w s < 18446744073709551616 /\ pawn_push_tab w s < 18446744073709551616 /\
  N.land (pawn_attack_tab w s) (pawn_push_tab w s) = 0.
Proof.
  intros w s. destruct (N.lt_ge_cases s 64) as [Hs|Hs].
  - pose proof (sweep1 _ pawn_tabs_sweep s Hs) as H. cbn [forallb] in H.
    destruct w.
    + apply andb_prop in H. destruct H as [H _].
      apply andb_prop in H. destruct H as [H H3]. apply andb_prop in H. destruct H as [H1 H2].
      apply N.ltb_lt in H1. apply N.ltb_lt in H2. apply N.eqb_eq in H3. auto.
    + apply andb_prop in H. destruct H as [_ H]. apply andb_prop in H. destruct H as [H _].
      apply andb_prop in H. destruct H as [H H3]. apply andb_prop in H. destruct H as [H1 H2].
      apply N.ltb_lt in H1. apply N.ltb_lt in H2. apply N.eqb_eq in H3. auto.
  - destruct (pawn_tabs_outside w s Hs) as [-> ->]. repeat split; reflexivity || lia.
Qed.
(** the wrapped "square in front" is the real one whenever the push table is not empty *)
Definition ahead (w:bool) (s:N) : N := Z.to_N (Z.of_N s + 8 * fwd w).
Lemma push_ahead_sweep :
  forallb (fun s => forallb (fun t =>
     (negb (pawn_push_b true s t) || (uforward White s =? ahead true s))
     && (negb (pawn_push_b false s t) || (uforward Black s =? ahead false s))
     && Bool.eqb (pawn_push_b true s t)
          ((Z.of_N t =? Z.of_N s + 8)%Z || ((sq_rank s =? 1) && (Z.of_N t =? Z.of_N s + 16)%Z))
     && Bool.eqb (pawn_push_b false s t)
          ((Z.of_N t =? Z.of_N s - 8)%Z || ((sq_rank s =? 6) && (Z.of_N t =? Z.of_N s - 16)%Z))) all_sq) all_sq = true.
Proof. vm_cast_no_check (eq_refl true). Qed.
Lemma pawn_push_b_arith : forall c s t, s < 64 -> t < 64 ->
  pawn_push_b (is_white c) s t
  = ((Z.of_N t =? Z.of_N s + 8 * fwd (is_white c))%Z
     || ((sq_rank s =? second_rk c) && (Z.of_N t =? Z.of_N s + 16 * fwd (is_white c))%Z)).
Proof.
  intros c s t Hs Ht. pose proof (sweep2 _ push_ahead_sweep s t Hs Ht) as H.
  apply andb_prop in H. destruct H as [H H4]. apply andb_prop in H. destruct H as [_ H3].
  apply eqb_prop in H3. apply eqb_prop in H4.
  destruct c; cbn [is_white fwd second_rk].
  - replace (Z.of_N s + 8 * 1)%Z with (Z.of_N s + 8)%Z by lia.
    replace (Z.of_N s + 16 * 1)%Z with (Z.of_N s + 16)%Z by lia. exact H3.
  - replace (Z.of_N s + 8 * -1)%Z with (Z.of_N s - 8)%Z by lia.
    replace (Z.of_N s + 16 * -1)%Z with (Z.of_N s - 16)%Z by lia. exact H4.
Qed.
Lemma pawn_push_b_ahead : forall c s t, s < 64 -> t < 64 ->
  pawn_push_b (is_white c) s t = true -> uforward c s = ahead (is_white c) s.
Proof.
  intros c s t Hs Ht Hp. pose proof (sweep2 _ push_ahead_sweep s t Hs Ht) as H.
  apply andb_prop in H. destruct H as [H _]. apply andb_prop in H. destruct H as [H _].
  apply andb_prop in H. destruct H as [H1 H2].
  destruct c; cbn [is_white] in *; rewrite Hp in *; cbn [negb orb] in *; apply N.eqb_eq; assumption.
Qed.

(** *** get_pawn_attacks *)
Theorem pawn_attacks_testbit : forall s t c bl, s < 64 -> t < 64 ->
  N.testbit (get_pawn_attacks s c bl) t = N.testbit bl t && pawn_attack_b (is_white c) s t.
Proof.
  intros s t c bl Hs Ht. unfold get_pawn_attacks.
  rewrite N.land_spec, pawn_attack_tab_meaning by assumption. apply andb_comm.
Qed.
Theorem pawn_attacks_testbit_tab : forall s t c bl,
  N.testbit (get_pawn_attacks s c bl) t = N.testbit bl t && N.testbit (pawn_attack_tab (is_white c) s) t.
Proof. intros s t c bl. unfold get_pawn_attacks. rewrite N.land_spec. apply andb_comm. Qed.
(** nothing outside the board, whatever the blocker word *)
Theorem pawn_attacks_high : forall s t c bl, 64 <= t -> N.testbit (get_pawn_attacks s c bl) t = false.
Proof.
  intros s t c bl Ht. rewrite pawn_attacks_testbit_tab.
  destruct (pawn_tabs_facts (is_white c) s) as [H _]. rewrite (testbit_high _ _ H Ht). apply andb_false_r.
Qed.

(** *** get_pawn_quiets *)
(** what the code computes, bit by bit: the word is empty when the (wrapped) square in front
    is blocked, otherwise the push table minus the blockers *)
Lemma pawn_quiets_bits : forall s t c bl, t < 64 ->
  N.testbit (get_pawn_quiets s c bl) t
  = negb (N.testbit bl (uforward c s)) && N.testbit (pawn_push_tab (is_white c) s) t && negb (N.testbit bl t).
Proof.
  intros s t c bl Ht. unfold get_pawn_quiets. rewrite land_bit_eq0, negb_involutive.
  destruct (N.testbit bl (uforward c s)); cbn [negb andb].
  - apply N.bits_0.
  - rewrite N.land_spec, testbit_lnot64 by exact Ht. reflexivity.
Qed.
Theorem pawn_quiets_high : forall s t c bl, 64 <= t -> N.testbit (get_pawn_quiets s c bl) t = false.
Proof.
  intros s t c bl Ht. unfold get_pawn_quiets.
  destruct (negb (N.land (bit (uforward c s)) bl =? 0)); [apply N.bits_0|].
  rewrite N.land_spec. destruct (pawn_tabs_facts (is_white c) s) as [_ [H _]].
  rewrite (testbit_high _ _ H Ht). reflexivity.
Qed.
(** Boolean form, every square [s], [t] of the board, every colour, EVERY blocker word. *)
Theorem pawn_quiets_testbit : forall s t c bl, s < 64 -> t < 64 ->
  N.testbit (get_pawn_quiets s c bl) t
  = negb (N.testbit bl t)
    && ((Z.of_N t =? Z.of_N s + 8 * fwd (is_white c))%Z
        || ((sq_rank s =? second_rk c) && (Z.of_N t =? Z.of_N s + 16 * fwd (is_white c))%Z
            && negb (N.testbit bl (ahead (is_white c) s)))).
Proof.
  intros s t c bl Hs Ht. rewrite pawn_quiets_bits by exact Ht.
  rewrite pawn_push_tab_meaning by assumption.
  pose proof (pawn_push_b_ahead c s t Hs Ht) as Hu.
  rewrite (pawn_push_b_arith c s t Hs Ht) in *.
  destruct ((Z.of_N t =? Z.of_N s + 8 * fwd (is_white c))%Z) eqn:E1.
  - cbn [orb] in *. rewrite (Hu eq_refl).
    assert (Et: ahead (is_white c) s = t). { unfold ahead. apply Z.eqb_eq in E1. lia. }
    rewrite Et. destruct (N.testbit bl t); reflexivity.
  - cbn [orb] in *.
    destruct ((sq_rank s =? second_rk c) && (Z.of_N t =? Z.of_N s + 16 * fwd (is_white c))%Z) eqn:E2.
    + rewrite (Hu eq_refl). cbn [andb].
      destruct (N.testbit bl (ahead (is_white c) s)), (N.testbit bl t); reflexivity.
    + cbn [andb]. rewrite andb_false_r. cbn [andb]. rewrite andb_false_r. reflexivity.
Qed.
(** The statement as a sentence: a single step iff the square ahead is empty; a double step
    only from the colour's second rank and only if both squares are empty.  No condition on
    [s]'s rank is needed: on the last rank no [t < 64] satisfies either disjunct, and the
    word is 0 (see [pawn_quiets_last_rank]). *)
Theorem pawn_quiets_iff : forall s t c bl, s < 64 -> t < 64 ->
  N.testbit (get_pawn_quiets s c bl) t = true <->
    (Z.of_N t = Z.of_N s + 8 * fwd (is_white c) /\ N.testbit bl t = false)%Z
    \/ (sq_rank s = second_rk c /\ (Z.of_N t = Z.of_N s + 16 * fwd (is_white c))%Z
        /\ N.testbit bl (ahead (is_white c) s) = false /\ N.testbit bl t = false).
Proof.
  intros s t c bl Hs Ht. rewrite pawn_quiets_testbit by assumption.
  rewrite andb_true_iff, orb_true_iff, !andb_true_iff, !negb_true_iff, !Z.eqb_eq, N.eqb_eq.
  tauto.
Qed.
(** per colour, in plain natural-number arithmetic *)
Corollary pawn_quiets_white : forall s t bl, s < 64 -> t < 64 ->
  N.testbit (get_pawn_quiets s White bl) t = true <->
    (t = s + 8 /\ N.testbit bl t = false)
    \/ (sq_rank s = 1 /\ t = s + 16 /\ N.testbit bl (s + 8) = false /\ N.testbit bl t = false).
Proof.
  intros s t bl Hs Ht. rewrite pawn_quiets_iff by assumption. unfold ahead. cbn [is_white fwd second_rk].
  replace (Z.to_N (Z.of_N s + 8 * 1)) with (s + 8) by lia.
  split; (intros [[H1 H2]|[H1 [H2 [H3 H4]]]]; [left|right]); repeat split; try assumption; lia.
Qed.
Corollary pawn_quiets_black : forall s t bl, s < 64 -> t < 64 ->
  N.testbit (get_pawn_quiets s Black bl) t = true <->
    (s = t + 8 /\ N.testbit bl t = false)
    \/ (sq_rank s = 6 /\ s = t + 16 /\ N.testbit bl (t + 8) = false /\ N.testbit bl t = false).
Proof.
  intros s t bl Hs Ht. rewrite pawn_quiets_iff by assumption. unfold ahead. cbn [is_white fwd second_rk].
  split.
  - intros [[H1 H2]|[H1 [H2 [H3 H4]]]]; [left|right]; repeat split; try assumption; try lia.
    replace (t + 8) with (Z.to_N (Z.of_N s + 8 * -1)) by lia. exact H3.
  - intros [[H1 H2]|[H1 [H2 [H3 H4]]]]; [left|right]; repeat split; try assumption; try lia.
    replace (Z.to_N (Z.of_N s + 8 * -1)) with (t + 8) by lia. exact H3.
Qed.
(** On the last rank of colour [c] the "square in front" read by the code is the wrapped
    square on the opposite back rank (same file), but the result is the empty word either
    way because the push table is empty there. *)
Theorem pawn_quiets_last_rank : forall s c bl, s < 64 -> sq_rank s = my_backrank (opp c) ->
  get_pawn_quiets s c bl = 0
  /\ uforward c s = match c with White => s - 56 | Black => s + 56 end.
Proof.
  intros s c bl Hs Hr. split.
  - apply N.bits_inj. intro t. rewrite N.bits_0.
    destruct (N.lt_ge_cases t 64) as [Ht|Ht]; [|apply pawn_quiets_high; exact Ht].
    rewrite pawn_quiets_testbit by assumption.
    rewrite sq_rank_div in * by assumption.
    destruct c; cbn [is_white fwd second_rk my_backrank opp] in *.
    + replace ((Z.of_N t =? Z.of_N s + 8 * 1)%Z) with false by lia.
      replace (s / 8 =? 1) with false by lia. cbn [orb andb]. apply andb_false_r.
    + replace ((Z.of_N t =? Z.of_N s + 8 * -1)%Z) with false by lia.
      replace (s / 8 =? 6) with false by lia. cbn [orb andb]. apply andb_false_r.
  - destruct c; cbn [uforward my_backrank opp] in *; [apply uup_edge|apply udown_edge]; assumption.
Qed.
(** away from the last rank the square read by the code is the real square ahead *)
Lemma uforward_ahead : forall s c, s < 64 -> sq_rank s <> my_backrank (opp c) ->
  uforward c s = ahead (is_white c) s /\ Z.of_N (uforward c s) = (Z.of_N s + 8 * fwd (is_white c))%Z.
Proof.
  intros s c Hs Hr. unfold ahead.
  destruct c; cbn [uforward my_backrank opp is_white fwd] in *.
  - rewrite uup_inner by assumption. lia.
  - rewrite udown_inner by assumption. rewrite sq_rank_div in Hr by assumption. lia.
Qed.

(** *** get_pawn_moves *)
Lemma lxor_disjoint_lor : forall a b, N.land a b = 0 -> N.lxor a b = N.lor a b.
Proof.
  intros a b H. apply N.bits_inj. intro k. rewrite N.lxor_spec, N.lor_spec.
  assert (K: N.testbit (N.land a b) k = false) by (rewrite H; apply N.bits_0).
  rewrite N.land_spec in K. destruct (N.testbit a k), (N.testbit b k); try reflexivity; discriminate.
Qed.
Lemma land_sub_disjoint : forall a b x y, N.land a b = 0 -> N.land (N.land a x) (N.land b y) = 0.
Proof.
  intros a b x y H. apply N.bits_inj. intro k. rewrite !N.land_spec, N.bits_0.
  assert (K: N.testbit (N.land a b) k = false) by (rewrite H; apply N.bits_0).
  rewrite N.land_spec in K.
  destruct (N.testbit a k), (N.testbit b k), (N.testbit x k), (N.testbit y k); try reflexivity; discriminate.
Qed.
(** attacks and quiets never share a square: no bound on [s] or [bl] is needed *)
Theorem pawn_attacks_quiets_disjoint : forall s c bl,
  N.land (get_pawn_attacks s c bl) (get_pawn_quiets s c bl) = 0.
Proof.
  intros s c bl. unfold get_pawn_attacks, get_pawn_quiets.
  destruct (negb (N.land (bit (uforward c s)) bl =? 0)); [apply N.land_0_r|].
  apply land_sub_disjoint. apply pawn_tabs_facts.
Qed.
Theorem pawn_moves_union : forall s c bl,
  get_pawn_moves s c bl = N.lor (get_pawn_attacks s c bl) (get_pawn_quiets s c bl).
Proof. intros s c bl. unfold get_pawn_moves. apply lxor_disjoint_lor, pawn_attacks_quiets_disjoint. Qed.
Theorem pawn_moves_testbit : forall s t c bl,
  N.testbit (get_pawn_moves s c bl) t
  = N.testbit (get_pawn_attacks s c bl) t || N.testbit (get_pawn_quiets s c bl) t.
Proof. intros s t c bl. rewrite pawn_moves_union. apply N.lor_spec. Qed.

(** *** examples: the hypotheses are satisfiable and the statements say something *)
(** white pawn e2 (12): e3 (20) and e4 (28) free -> both pushes; e4 blocked -> only e3; e3
    blocked -> nothing; enemy on d3 (19) is attacked, a piece on e3 is not *)
Example pawn_quiets_example :
  get_pawn_quiets 12 White 0 = N.lor (bit 20) (bit 28) /\
  get_pawn_quiets 12 White (bit 28) = bit 20 /\
  get_pawn_quiets 12 White (bit 20) = 0 /\
  get_pawn_quiets 20 White 0 = bit 28 /\
  get_pawn_quiets 52 Black (bit 36) = bit 44 /\
  get_pawn_quiets 60 White (bit 4) = 0 /\ uforward White 60 = 4 /\
  get_pawn_attacks 12 White (N.lor (bit 19) (bit 20)) = bit 19 /\
  get_pawn_moves 12 White (N.lor (bit 19) (bit 28)) = N.lor (bit 19) (bit 20).
Proof. vm_compute. repeat split. Qed.
Example pawn_quiets_iff_example :
  (12 < 64 /\ 28 < 64) /\ sq_rank 12 = second_rk White /\ (Z.of_N 28 = Z.of_N 12 + 16 * fwd (is_white White))%Z
  /\ N.testbit 0 (ahead (is_white White) 12) = false /\ N.testbit 0 28 = false
  /\ N.testbit (get_pawn_quiets 12 White 0) 28 = true.
Proof. vm_compute. repeat split. Qed.
Example pawn_quiets_last_rank_example :
  60 < 64 /\ sq_rank 60 = my_backrank (opp White) /\ 3 < 64 /\ sq_rank 3 = my_backrank (opp Black).
Proof. vm_compute. repeat split. Qed.

(** *** the same geometry in plain square numbers, and the link between the [Z]-valued
    coordinates of [Spec.Geometry] and the model's [sq_rank] / [sq_file] *)
Lemma fileZ_sq_file : forall s, fileZ s = Z.of_N (sq_file s).
Proof. reflexivity. Qed.
Lemma rankZ_sq_rank : forall s, s < 64 -> rankZ s = Z.of_N (sq_rank s).
Proof.
  intros s Hs. unfold rankZ. rewrite sq_rank_div by assumption. rewrite N.shiftr_div_pow2. reflexivity.
Qed.
Lemma pawn_attack_arith_sweep :
  forallb (fun s => forallb (fun t =>
     Bool.eqb (pawn_attack_b true s t)
        (((t =? s + 7) && negb (sq_file s =? 0)) || ((t =? s + 9) && negb (sq_file s =? 7)))
     && Bool.eqb (pawn_attack_b false s t)
        (((s =? t + 9) && negb (sq_file s =? 0)) || ((s =? t + 7) && negb (sq_file s =? 7)))) all_sq) all_sq = true.
Proof. vm_cast_no_check (eq_refl true). Qed.
Corollary pawn_attacks_white : forall s t bl, s < 64 -> t < 64 ->
  N.testbit (get_pawn_attacks s White bl) t = true <->
  N.testbit bl t = true /\ ((t = s + 7 /\ sq_file s <> 0) \/ (t = s + 9 /\ sq_file s <> 7)).
Proof.
  intros s t bl Hs Ht. rewrite pawn_attacks_testbit by assumption. cbn [is_white].
  pose proof (sweep2 _ pawn_attack_arith_sweep s t Hs Ht) as H.
  apply andb_prop in H. destruct H as [H _]. apply eqb_prop in H. rewrite H.
  rewrite andb_true_iff, orb_true_iff, !andb_true_iff, !negb_true_iff, !N.eqb_eq, !N.eqb_neq. tauto.
Qed.
Corollary pawn_attacks_black : forall s t bl, s < 64 -> t < 64 ->
  N.testbit (get_pawn_attacks s Black bl) t = true <->
  N.testbit bl t = true /\ ((s = t + 9 /\ sq_file s <> 0) \/ (s = t + 7 /\ sq_file s <> 7)).
Proof.
  intros s t bl Hs Ht. rewrite pawn_attacks_testbit by assumption. cbn [is_white].
  pose proof (sweep2 _ pawn_attack_arith_sweep s t Hs Ht) as H.
  apply andb_prop in H. destruct H as [_ H]. apply eqb_prop in H. rewrite H.
  rewrite andb_true_iff, orb_true_iff, !andb_true_iff, !negb_true_iff, !N.eqb_eq, !N.eqb_neq. tauto.
Qed.
Example pawn_attacks_example :
  12 < 64 /\ 19 < 64 /\ N.testbit (bit 19) 19 = true /\ 19 = 12 + 7 /\ sq_file 12 <> 0
  /\ N.testbit (get_pawn_attacks 12 White (bit 19)) 19 = true
  /\ get_pawn_attacks 8 White M64 = bit 17 /\ get_pawn_attacks 15 White M64 = bit 22
  /\ get_pawn_attacks 60 White M64 = 0 /\ get_pawn_attacks 3 Black M64 = 0.
Proof. vm_compute. repeat split; discriminate. Qed.

(** ** Grouped statements for [Properties/C16] *)
Lemma fn_graphs_squares :
  F_sq_rank = map sq_rank all_sq /\ F_sq_file = map sq_file all_sq /\
  F_up = map (fun s => osq (sq_up s)) all_sq /\ F_down = map (fun s => osq (sq_down s)) all_sq /\
  F_left = map (fun s => osq (sq_left s)) all_sq /\ F_right = map (fun s => osq (sq_right s)) all_sq /\
  F_uup = map uup all_sq /\ F_udown = map udown all_sq /\
  F_uleft = map uleft all_sq /\ F_uright = map uright all_sq /\
  F_forward_0 = map (fun s => osq (sq_forward White s)) all_sq /\
  F_forward_1 = map (fun s => osq (sq_forward Black s)) all_sq /\
  F_backward_0 = map (fun s => osq (sq_backward White s)) all_sq /\
  F_backward_1 = map (fun s => osq (sq_backward Black s)) all_sq /\
  F_uforward_0 = map (uforward White) all_sq /\ F_uforward_1 = map (uforward Black) all_sq /\
  F_ubackward_0 = map (ubackward White) all_sq /\ F_ubackward_1 = map (ubackward Black) all_sq /\
  F_make_square = flat_map (fun r => map (fun f => mk_sq r f) r8) r8 /\
  F_all_squares = all_sq.
Proof.
  exact (conj F_sq_rank_eq (conj F_sq_file_eq (conj F_up_eq (conj F_down_eq (conj F_left_eq (conj F_right_eq
    (conj F_uup_eq (conj F_udown_eq (conj F_uleft_eq (conj F_uright_eq (conj F_forward_0_eq (conj F_forward_1_eq
    (conj F_backward_0_eq (conj F_backward_1_eq (conj F_uforward_0_eq (conj F_uforward_1_eq
    (conj F_ubackward_0_eq (conj F_ubackward_1_eq (conj F_make_square_eq F_all_squares_eq))))))))))))))))))).
Qed.
Lemma fn_graphs_files_ranks_colors :
  F_file_from_index = map (fun i => N.land i 7) r16 /\ F_rank_from_index = map (fun i => N.land i 7) r16 /\
  F_file_left = map (fun f => N.land (f+7) 7) r8 /\ F_file_right = map (fun f => N.land (f+1) 7) r8 /\
  F_rank_up = map (fun r => N.land (r+1) 7) r8 /\ F_rank_down = map (fun r => N.land (r+7) 7) r8 /\
  F_all_files = r8 /\ F_all_ranks = r8 /\
  F_color_ranks_0 = [my_backrank White; my_backrank (opp White); second_rk White; fourth_rk White; seventh_rk White] /\
  F_color_ranks_1 = [my_backrank Black; my_backrank (opp Black); second_rk Black; fourth_rk Black; seventh_rk Black] /\
  F_color_not_0 = [cidx (opp White)] /\ F_color_not_1 = [cidx (opp Black)].
Proof.
  exact (conj F_file_from_index_eq (conj F_rank_from_index_eq (conj F_file_left_eq (conj F_file_right_eq
    (conj F_rank_up_eq (conj F_rank_down_eq (conj F_all_files_eq (conj F_all_ranks_eq
    (conj F_color_ranks_0_eq (conj F_color_ranks_1_eq (conj F_color_not_0_eq F_color_not_1_eq))))))))))).
Qed.
Lemma fn_graphs_castle_rights :
  F_sq_to_cr_0 = map (square_to_castle_rights White) all_sq /\
  F_sq_to_cr_1 = map (square_to_castle_rights Black) all_sq /\
  F_rook_sq_cr = map rook_square_to_castle_rights all_sq /\
  F_cr_0 = cr_row 0 /\ F_cr_1 = cr_row 1 /\ F_cr_2 = cr_row 2 /\ F_cr_3 = cr_row 3 /\
  F_cr_from_index = map (fun i => N.land i 3) r8 /\
  [[S_cr_string_0_0; S_cr_string_0_1]; [S_cr_string_1_0; S_cr_string_1_1];
   [S_cr_string_2_0; S_cr_string_2_1]; [S_cr_string_3_0; S_cr_string_3_1]]
  = map (fun cr => map (cr_to_string cr) [White;Black]) r4.
Proof.
  exact (conj F_sq_to_cr_0_eq (conj F_sq_to_cr_1_eq (conj F_rook_sq_cr_eq (conj F_cr_0_eq (conj F_cr_1_eq
    (conj F_cr_2_eq (conj F_cr_3_eq (conj F_cr_from_index_eq S_cr_string_eq)))))))).
Qed.
Lemma fn_graphs_bitboards_pieces :
  F_from_square = map bb_from_square all_sq /\
  F_to_square_single = map (fun s => bb_to_square (bb_from_square s)) all_sq /\
  F_to_square_single = all_sq /\
  F_promotion_pieces = map pidx promotion_pieces /\
  F_all_pieces = map pidx all_ptypes /\
  [S_piece_display_0; S_piece_display_1; S_piece_display_2; S_piece_display_3; S_piece_display_4; S_piece_display_5]
  = map (fun p => [piece_letter p]) all_ptypes /\
  [[S_piece_string_0_0; S_piece_string_0_1]; [S_piece_string_1_0; S_piece_string_1_1];
   [S_piece_string_2_0; S_piece_string_2_1]; [S_piece_string_3_0; S_piece_string_3_1];
   [S_piece_string_4_0; S_piece_string_4_1]; [S_piece_string_5_0; S_piece_string_5_1]]
  = map (fun p => map (piece_to_string p) [White;Black]) all_ptypes /\
  S_square_display_all = map square_display all_sq.
Proof.
  exact (conj F_from_square_eq (conj F_to_square_single_eq (conj F_to_square_single_id
    (conj F_promotion_pieces_eq (conj F_all_pieces_eq (conj S_piece_display_eq
    (conj S_piece_string_eq S_square_display_eq))))))).
Qed.
Lemma fn_graphs_pawn_extremes :
  F_pawn_attacks_all_0 = map (fun s => get_pawn_attacks s White M64) all_sq /\
  F_pawn_attacks_all_1 = map (fun s => get_pawn_attacks s Black M64) all_sq /\
  F_pawn_quiets_empty_0 = map (fun s => get_pawn_quiets s White 0) all_sq /\
  F_pawn_quiets_empty_1 = map (fun s => get_pawn_quiets s Black 0) all_sq.
Proof.
  exact (conj F_pawn_attacks_all_0_eq (conj F_pawn_attacks_all_1_eq
    (conj F_pawn_quiets_empty_0_eq F_pawn_quiets_empty_1_eq))).
Qed.
Lemma sq_mk_sq_facts :
  (forall r f, r < 8 -> f < 8 -> mk_sq r f = 8*r+f) /\
  (forall r f, mk_sq r f = 8 * (r mod 8) + f mod 8) /\
  (forall r f, r < 8 -> f < 8 -> sq_rank (mk_sq r f) = r) /\
  (forall r f, r < 8 -> f < 8 -> sq_file (mk_sq r f) = f) /\
  (forall s, s < 64 -> mk_sq (sq_rank s) (sq_file s) = s) /\
  (forall s, s < 64 -> sq_rank s = s / 8) /\
  (forall s, sq_file s = s mod 8).
Proof.
  exact (conj mk_sq_arith (conj mk_sq_arith_mod (conj sq_rank_mk_sq (conj sq_file_mk_sq
    (conj mk_sq_rank_file (conj sq_rank_div sq_file_mod)))))).
Qed.
Lemma sq_wrapping_facts : forall s, s < 64 ->
  uup s = (s + 8) mod 64 /\ udown s = (s + 56) mod 64 /\
  uleft s = 8 * sq_rank s + (sq_file s + 7) mod 8 /\
  uright s = 8 * sq_rank s + (sq_file s + 1) mod 8.
Proof.
  intros s Hs. exact (conj (uup_arith s Hs) (conj (udown_arith s Hs) (conj (uleft_arith s Hs) (uright_arith s Hs)))).
Qed.
Lemma sq_checked_facts : forall s, s < 64 ->
  sq_up s = (if sq_rank s =? 7 then None else Some (s + 8)) /\
  sq_down s = (if sq_rank s =? 0 then None else Some (s - 8)) /\
  sq_left s = (if sq_file s =? 0 then None else Some (s - 1)) /\
  sq_right s = (if sq_file s =? 7 then None else Some (s + 1)).
Proof.
  intros s Hs. exact (conj (sq_up_meaning s Hs) (conj (sq_down_meaning s Hs)
    (conj (sq_left_meaning s Hs) (sq_right_meaning s Hs)))).
Qed.
