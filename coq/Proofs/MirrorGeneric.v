(** * Proofs.MirrorGeneric — the mirror-image argument (C17), once for both mirrors.
    A [sym] packages a square map [phi] (an involution of the board), a colour map
    [kap sw] (swap or keep) and a direction map [del] with the handful of geometric facts
    the rules depend on.  [Rel S p q] says that [q] is the [S]-image of [p].  Everything the
    specification computes from [p] is then carried to [q]. *)
From Coq Require Import Lia ZifyBool ZifyN ZifyNat Permutation.
From Chess Require Import Base.Bits Spec.Geometry Spec.Rules.
From Chess Require Import Proofs.TablesLib Proofs.TablesMeaning Proofs.MirrorLib.
Open Scope N_scope.

Definition kap (sw:bool) (c:color) : color := if sw then opp c else c.
Definition pcmap (sw:bool) (x:option (ptype*color)) :=
  match x with Some (t,c) => Some (t, kap sw c) | None => None end.
Definition mmove (f:N->N) (m:move) : move :=
  {| src := f (src m); dst := f (dst m); promo := promo m |}.
Definition side_dirs : list (Z*Z) := [(1,0);(-1,0)]%Z.

Record sym := {
  phi : N -> N; sw : bool; del : Z*Z -> Z*Z;
  phi_inv : forall s, phi (phi s) = s;
  phi_lt : forall s, s < 64 -> phi s < 64;
  phi_step : forall s d, s < 64 -> step (phi s) (del d) = option_map phi (step s d);
  del_rook : Permutation (map del rook_dirs) rook_dirs;
  del_bishop : Permutation (map del bishop_dirs) bishop_dirs;
  del_king : Permutation (map del king_dirs) king_dirs;
  del_knight : Permutation (map del knight_dirs) knight_dirs;
  del_caps : forall c, Permutation (map del (pawn_caps c)) (pawn_caps (kap sw c));
  del_fwd : forall c, del (0, fwdc c)%Z = (0, fwdc (kap sw c))%Z;
  del_side : Permutation (map del side_dirs) side_dirs;
  phi_start : forall c s, s < 64 ->
    (rank_of (phi s) =? start_rank (kap sw c)) = (rank_of s =? start_rank c);
  phi_last : forall c s, s < 64 ->
    (rank_of (phi s) =? last_rank (kap sw c)) = (rank_of s =? last_rank c);
  phi_file_eq : forall s d, s < 64 -> d < 64 ->
    (file_of (phi s) =? file_of (phi d)) = (file_of s =? file_of d);
  phi_fabs : forall s d, s < 64 -> d < 64 ->
    absdiff (file_of (phi s)) (file_of (phi d)) = absdiff (file_of s) (file_of d);
  phi_rabs : forall s d, s < 64 -> d < 64 ->
    absdiff (rank_of (phi s)) (rank_of (phi d)) = absdiff (rank_of s) (rank_of d);
  phi_epsq : forall s d, s < 64 -> d < 64 ->
    phi (rank_of s * 8 + file_of d) = rank_of (phi s) * 8 + file_of (phi d);
  phi_tgt : forall s d, s < 64 -> d < 64 -> absdiff (rank_of s) (rank_of d) = 2 ->
    phi (((rank_of s + rank_of d) / 2) * 8 + file_of s)
    = ((rank_of (phi s) + rank_of (phi d)) / 2) * 8 + file_of (phi s)
}.

(** castling geometry is respected (true for the top-bottom mirror only) *)
Definition castle_geom (S:sym) : Prop :=
  forall s k, s < 64 -> k < 8 ->
    phi S (rank_of s * 8 + k) = rank_of (phi S s) * 8 + k /\ file_of (phi S s) = file_of s.

Lemma rank_file_lt (s:N) : s < 64 -> rank_of s < 8 /\ file_of s < 8.
Proof.
  intro Hs. unfold rank_of, file_of. split.
  - rewrite N.shiftr_div_pow2. change (2^3) with 8. apply N.div_lt_upper_bound; lia.
  - change 7 with (N.ones 3). rewrite N.land_ones. change (2^3) with 8. apply N.mod_lt. lia.
Qed.

Section Generic.
Variable S : sym.
Notation φ := (phi S).
Notation κ := (kap (sw S)).
Notation δ := (del S).
Notation φm := (mmove (phi S)).
Notation pcm := (pcmap (sw S)).

Lemma phi_inj (a b:N) : φ a = φ b -> a = b.
Proof. intro H. rewrite <- (phi_inv S a), <- (phi_inv S b), H. reflexivity. Qed.

Lemma phi_eqb (a b:N) : (φ a =? φ b) = (a =? b).
Proof.
  destruct (N.eqb_spec a b) as [->|Hne]; [apply N.eqb_refl|].
  apply N.eqb_neq. intro H. apply Hne, phi_inj, H.
Qed.

Lemma phi_eqb_l (a b:N) : (φ a =? b) = (a =? φ b).
Proof. rewrite <- (phi_inv S b) at 1. apply phi_eqb. Qed.

Lemma kap_inv (c:color) : κ (κ c) = c.
Proof. unfold kap. destruct (sw S), c; reflexivity. Qed.
Lemma kap_opp (c:color) : κ (opp c) = opp (κ c).
Proof. unfold kap. destruct (sw S), c; reflexivity. Qed.
Lemma kap_eqb (a b:color) : color_eqb (κ a) (κ b) = color_eqb a b.
Proof. unfold kap. destruct (sw S), a, b; reflexivity. Qed.

Lemma mmove_inv (m:move) : φm (φm m) = m.
Proof. destruct m as [s d pr]. unfold mmove. cbn [src dst promo]. rewrite !phi_inv. reflexivity. Qed.

Lemma perm_phi_all_sq : Permutation (map φ all_sq) all_sq.
Proof.
  apply NoDup_Permutation.
  - apply FinFun.Injective_map_NoDup; [|apply NoDup_all_sq]. intros a b. apply phi_inj.
  - apply NoDup_all_sq.
  - intro x. rewrite in_map_iff. split.
    + intros [a [<- Ha]]. apply in_all_sq, phi_lt, in_all_sq, Ha.
    + intro Hx. exists (φ x). split; [apply phi_inv|]. apply in_all_sq, phi_lt, in_all_sq, Hx.
Qed.

Lemma filter_phi_gen (f g:N->bool) (l:list N) :
  Permutation (map φ l) l -> (forall s, In s l -> g (φ s) = f s) ->
  Permutation (filter g l) (map φ (filter f l)).
Proof.
  intros Hp Hfg. rewrite (filter_ext_in f (fun s => g (φ s))) by (intros a Ha; symmetry; apply Hfg, Ha).
  rewrite <- filter_map_comm. apply Permutation_filter. apply Permutation_sym, Hp.
Qed.

Lemma filter_phi_all_sq (f g:N->bool) :
  (forall s, s < 64 -> g (φ s) = f s) ->
  Permutation (filter g all_sq) (map φ (filter f all_sq)).
Proof.
  intro H. apply filter_phi_gen; [apply perm_phi_all_sq|].
  intros s Hs. apply H, in_all_sq, Hs.
Qed.

Lemma flat_map_phi_all_sq {B} (f:N->list B) :
  Permutation (flat_map f all_sq) (flat_map (fun s => f (φ s)) all_sq).
Proof.
  rewrite <- (flat_map_map f φ all_sq). apply Permutation_flat_map_l. apply Permutation_sym, perm_phi_all_sq.
Qed.

(** ** The relation "q is the image of p" *)
Record Rel (p q:pos) : Prop := {
  r_lp : length (placement p) = 64%nat;
  r_lq : length (placement q) = 64%nat;
  r_at : forall s, at_ q (φ s) = pcm (at_ p s);
  r_turn : turn q = κ (turn p);
  r_ep : ep q = option_map φ (ep p) }.

Section WithRel.
Variables p q : pos.
Hypothesis R : Rel p q.

Lemma occ_m (s:N) : occ q (φ s) = occ p s.
Proof. unfold occ. rewrite (r_at _ _ R). destruct (at_ p s) as [[t c]|]; reflexivity. Qed.

Lemma has_m (s:N) (t:ptype) (c:color) : has q (φ s) t (κ c) = has p s t c.
Proof.
  unfold has. rewrite (r_at _ _ R). destruct (at_ p s) as [[t' c']|]; cbn [pcmap]; [|reflexivity].
  rewrite kap_eqb. reflexivity.
Qed.

Lemma own_m (c:color) (s:N) : own q (κ c) (φ s) = own p c s.
Proof.
  unfold own, colour_at. rewrite (r_at _ _ R). destruct (at_ p s) as [[t' c']|]; cbn [pcmap]; [|reflexivity].
  apply kap_eqb.
Qed.

Lemma enemy_m (c:color) (s:N) : enemy q (κ c) (φ s) = enemy p c s.
Proof.
  unfold enemy, colour_at. rewrite (r_at _ _ R). destruct (at_ p s) as [[t' c']|]; cbn [pcmap]; [|reflexivity].
  rewrite kap_eqb. reflexivity.
Qed.

Lemma ray_m (s:N) (d:Z*Z) (n:nat) : s < 64 -> ray q (φ s) (δ d) n = map φ (ray p s d n).
Proof.
  revert s. induction n as [|n IH]; intros s Hs; cbn [ray map]; [reflexivity|].
  rewrite phi_step by exact Hs. destruct (step s d) as [s'|] eqn:Hst; cbn [option_map map]; [|reflexivity].
  rewrite occ_m. destruct (occ p s'); cbn [map]; [reflexivity|].
  rewrite IH by (eapply step_lt, Hst). reflexivity.
Qed.

Lemma steps_m (s:N) (ds:list (Z*Z)) : s < 64 -> steps (φ s) (map δ ds) = map φ (steps s ds).
Proof.
  intro Hs. unfold steps. rewrite flat_map_map, map_flat_map. apply flat_map_ext. intro d.
  rewrite phi_step by exact Hs. destruct (step s d); reflexivity.
Qed.

Lemma slides_m (s:N) (ds:list (Z*Z)) : s < 64 -> slides q (φ s) (map δ ds) = map φ (slides p s ds).
Proof.
  intro Hs. unfold slides. rewrite flat_map_map, map_flat_map. apply flat_map_ext. intro d.
  apply ray_m, Hs.
Qed.

Lemma steps_perm (s:N) (ds ds':list (Z*Z)) : s < 64 -> Permutation (map δ ds) ds' ->
  Permutation (steps (φ s) ds') (map φ (steps s ds)).
Proof.
  intros Hs Hp. rewrite <- steps_m by exact Hs. unfold steps.
  apply Permutation_flat_map_l, Permutation_sym, Hp.
Qed.

Lemma slides_perm (s:N) (ds ds':list (Z*Z)) : s < 64 -> Permutation (map δ ds) ds' ->
  Permutation (slides q (φ s) ds') (map φ (slides p s ds)).
Proof.
  intros Hs Hp. rewrite <- slides_m by exact Hs. unfold slides.
  apply Permutation_flat_map_l, Permutation_sym, Hp.
Qed.

Lemma attack_set_m (s:N) : s < 64 ->
  Permutation (attack_set q (φ s)) (map φ (attack_set p s)).
Proof.
  intro Hs. unfold attack_set. rewrite (r_at _ _ R).
  destruct (at_ p s) as [[[] c]|]; cbn [pcmap map].
  - apply steps_perm; [exact Hs|apply del_caps].
  - apply steps_perm; [exact Hs|apply del_knight].
  - apply slides_perm; [exact Hs|apply del_bishop].
  - apply slides_perm; [exact Hs|apply del_rook].
  - apply slides_perm; [exact Hs|apply del_king].
  - apply steps_perm; [exact Hs|apply del_king].
  - constructor.
Qed.

Lemma attacks_m (s t:N) : s < 64 -> attacks q (φ s) (φ t) = attacks p s t.
Proof.
  intro Hs. unfold attacks. rewrite (mem_perm _ _ _ (attack_set_m s Hs)).
  apply mem_map_inj. apply phi_inj.
Qed.

Lemma attackers_m (c:color) (t:N) :
  Permutation (attackers q (κ c) (φ t)) (map φ (attackers p c t)).
Proof.
  unfold attackers. apply filter_phi_all_sq. intros s Hs.
  rewrite own_m, attacks_m by exact Hs. reflexivity.
Qed.

Lemma attacked_by_nonempty (r:pos) (c:color) (t:N) : attacked_by r c t = nonempty (attackers r c t).
Proof. reflexivity. Qed.

Lemma attacked_by_m (c:color) (t:N) : attacked_by q (κ c) (φ t) = attacked_by p c t.
Proof. rewrite !attacked_by_nonempty. eapply nonempty_perm_map, attackers_m. Qed.

Lemma king_sq_m (c:color) : uniq_king p -> king_sq q (κ c) = option_map φ (king_sq p c).
Proof.
  intro U.
  destruct (king_sq p c) as [k|] eqn:Ek; cbn [option_map].
  - destruct (king_sq_some _ _ _ Ek) as [Hk Hhk].
    destruct (king_sq q (κ c)) as [k'|] eqn:Ek'.
    + destruct (king_sq_some _ _ _ Ek') as [Hk' Hhk'].
      rewrite <- (phi_inv S k') in Hhk'. rewrite has_m in Hhk'.
      rewrite (U c _ _ Hhk Hhk'), phi_inv. reflexivity.
    + exfalso. unfold king_sq in Ek'.
      pose proof (find_none _ _ Ek' (φ k)) as Hn. cbv beta in Hn.
      rewrite has_m, Hhk in Hn. discriminate Hn. apply in_all_sq, phi_lt, Hk.
  - destruct (king_sq q (κ c)) as [k'|] eqn:Ek'; [exfalso|reflexivity].
    destruct (king_sq_some _ _ _ Ek') as [Hk' Hhk'].
    rewrite <- (phi_inv S k') in Hhk'. rewrite has_m in Hhk'.
    unfold king_sq in Ek. pose proof (find_none _ _ Ek (φ k')) as Hn. cbv beta in Hn.
    rewrite Hhk' in Hn. discriminate Hn. apply in_all_sq, phi_lt, Hk'.
Qed.

Lemma in_check_m (c:color) : uniq_king p -> in_check q (κ c) = in_check p c.
Proof.
  intro U. unfold in_check. rewrite king_sq_m by exact U.
  destruct (king_sq p c) as [k|]; cbn [option_map]; [|reflexivity].
  rewrite <- kap_opp. apply attacked_by_m.
Qed.

Lemma checkers_m : uniq_king p -> Permutation (checkers_of q) (map φ (checkers_of p)).
Proof.
  intro U. unfold checkers_of. rewrite (r_turn _ _ R), king_sq_m by exact U.
  destruct (king_sq p (turn p)) as [k|]; cbn [option_map map]; [|constructor].
  rewrite <- kap_opp. apply attackers_m.
Qed.

(** ** pins *)
Lemma first_occ_m (s:N) (d:Z*Z) (n:nat) : s < 64 ->
  first_occ q (φ s) (δ d) n = option_map φ (first_occ p s d n).
Proof.
  revert s. induction n as [|n IH]; intros s Hs; cbn [first_occ option_map]; [reflexivity|].
  rewrite phi_step by exact Hs. destruct (step s d) as [s'|] eqn:Hst; cbn [option_map]; [|reflexivity].
  rewrite occ_m. destruct (occ p s'); [reflexivity|].
  apply IH. eapply step_lt, Hst.
Qed.

Lemma slider_m (c:color) (o:bool) (s:N) : slider_along q (κ c) o (φ s) = slider_along p c o s.
Proof. unfold slider_along. rewrite !has_m. reflexivity. Qed.

Definition pin_dirs : list (bool*(Z*Z)) :=
  map (fun d => (true,d)) rook_dirs ++ map (fun d => (false,d)) bishop_dirs.
Definition pin_step (r:pos) (k:N) (od:bool*(Z*Z)) : list N :=
  let (o,d) := od in
  match first_occ r k d 7 with
  | Some a => if own r (turn r) a then
                match first_occ r a d 7 with
                | Some b => if slider_along r (opp (turn r)) o b then [a] else []
                | None => [] end
              else []
  | None => [] end.
Lemma pinned_of_unfold (r:pos) :
  pinned_of r = match king_sq r (turn r) with None => [] | Some k => flat_map (pin_step r k) pin_dirs end.
Proof. reflexivity. Qed.

Lemma pin_dirs_perm : Permutation (map (fun od : bool*(Z*Z) => (fst od, δ (snd od))) pin_dirs) pin_dirs.
Proof.
  unfold pin_dirs. rewrite map_app, !map_map. cbn [fst snd].
  apply Permutation_app.
  - rewrite <- (map_map δ (fun d => (true,d))). apply Permutation_map, del_rook.
  - rewrite <- (map_map δ (fun d => (false,d))). apply Permutation_map, del_bishop.
Qed.

Lemma pin_step_m (k:N) (o:bool) (d:Z*Z) : k < 64 ->
  pin_step q (φ k) (o, δ d) = map φ (pin_step p k (o,d)).
Proof.
  intro Hk. unfold pin_step. rewrite first_occ_m by exact Hk.
  destruct (first_occ p k d 7) as [a|] eqn:Ea; cbn [option_map map]; [|reflexivity].
  rewrite (r_turn _ _ R), own_m. destruct (own p (turn p) a); [|reflexivity].
  rewrite first_occ_m by (eapply first_occ_lt, Ea).
  destruct (first_occ p a d 7) as [b|]; cbn [option_map map]; [|reflexivity].
  rewrite <- kap_opp, slider_m. destruct (slider_along p (opp (turn p)) o b); reflexivity.
Qed.

Lemma pinned_m : uniq_king p -> Permutation (pinned_of q) (map φ (pinned_of p)).
Proof.
  intro U. rewrite !pinned_of_unfold. rewrite (r_turn _ _ R), king_sq_m by exact U.
  destruct (king_sq p (turn p)) as [k|] eqn:Ek; cbn [option_map map]; [|constructor].
  destruct (king_sq_some _ _ _ Ek) as [Hk _].
  eapply Permutation_trans.
  - apply Permutation_flat_map_l, Permutation_sym, pin_dirs_perm.
  - rewrite flat_map_map, map_flat_map.
    rewrite (flat_map_ext (fun x => pin_step q (φ k) (fst x, δ (snd x)))
                          (fun x => map φ (pin_step p k x))); [apply Permutation_refl|].
    intros [o d]. cbn [fst snd]. apply pin_step_m, Hk.
Qed.

End WithRel.
End Generic.
