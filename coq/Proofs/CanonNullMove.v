(** * Proofs.CanonNullMove — C18, the part that needs the check cache to be right:
    on a canonical board the null move is refused exactly when the side to move is in check
    (in the sense of the rules, [Rules.in_check]); and the whole property stated over valid
    specification positions. *)
From Coq Require Import Lia ZifyBool ZifyN ZifyNat Sorted.
From Chess Require Import Base.Bits Spec.Geometry Spec.Rules Model.Board.
From Chess Require Import Proofs.BitsFacts Proofs.WalkDep Proofs.TablesLib Proofs.TablesEq
                          Proofs.TablesMeaning Proofs.AbsBoard Proofs.CanonAttack
                          Proofs.CanonCheckers Proofs.NullMove.
Open Scope N_scope.

(** ** 1. (d) refusal = check, on canonical boards *)
Theorem canonical_checkers_in_check b :
  Canonical b -> popcnt (N.land (pK b) (color_combined b (stm b))) = 1 -> kings_apart b ->
  (checkers b <> 0 <-> in_check (abs_board b) (stm b) = true).
Proof.
  intros HCan Hk Hka. rewrite <- (canonical_update b HCan) at 1.
  exact (checkers_in_check b (canonical_consistent b HCan) Hk Hka).
Qed.

Theorem null_move_refused_iff_check b :
  Canonical b -> popcnt (N.land (pK b) (color_combined b (stm b))) = 1 -> kings_apart b ->
  (null_move b = None <-> in_check (abs_board b) (stm b) = true).
Proof.
  intros HCan Hk Hka. rewrite null_move_none. apply canonical_checkers_in_check; assumption.
Qed.

(** the whole of C18 on canonical boards *)
Theorem null_move_canonical_spec b :
  Canonical b -> popcnt (N.land (pK b) (color_combined b (stm b))) = 1 -> kings_apart b ->
  (null_move b = None <-> in_check (abs_board b) (stm b) = true) /\
  (forall b', null_move b = Some b' ->
     abs_board b' = pass (abs_board b) /\ b' = from_scratch (pass (abs_board b)) /\ Canonical b').
Proof.
  intros HCan Hk Hka. split; [apply null_move_refused_iff_check; assumption|].
  intros b' H. split; [exact (null_move_abs b b' H)|].
  split; [exact (null_move_from_scratch b b' HCan H)|exact (null_move_canonical b b' HCan H)].
Qed.

(** ** 2. Counting on the words: [Rules.kings] is a popcount *)
Lemma all_sq_sorted : StronglySorted N.lt all_sq.
Proof.
  apply Sorted_StronglySorted; [exact N.lt_trans|]. unfold all_sq. repeat constructor.
Qed.

Lemma filter_sorted (f:N->bool) l : StronglySorted N.lt l -> StronglySorted N.lt (filter f l).
Proof.
  induction 1 as [|a l Hs IH Hf]; cbn [filter]; [constructor|].
  destruct (f a); [|exact IH]. constructor; [exact IH|].
  rewrite Forall_forall in *. intros x Hx. apply filter_In in Hx. apply Hf, Hx.
Qed.

Lemma filter_testbit_squares w : w < 2^64 -> filter (N.testbit w) all_sq = squares_of w.
Proof.
  intro Hw. symmetry. apply squares_of_ext; [apply filter_sorted, all_sq_sorted|].
  intro x. rewrite filter_In, TablesLib.in_all_sq. split; [tauto|].
  intro H. split; [exact (testbit_lt64 w x Hw H)|exact H].
Qed.

Lemma count_popcnt w : w < 2^64 -> count_if (N.testbit w) = popcnt w.
Proof. intro Hw. unfold count_if. rewrite (filter_testbit_squares w Hw), popcnt_length. reflexivity. Qed.

Lemma filter_ext_in' {A} (f g:A->bool) l : (forall x, In x l -> f x = g x) -> filter f l = filter g l.
Proof.
  induction l as [|a l IH]; intro H; cbn [filter]; [reflexivity|].
  rewrite (H a (or_introl eq_refl)), IH; [reflexivity|]. intros x Hx. apply H. right. exact Hx.
Qed.

Theorem kings_abs b c : Consistent b ->
  kings (abs_board b) c = popcnt (N.land (pK b) (color_combined b c)).
Proof.
  intro HC. rewrite <- count_popcnt
    by (apply land_lt64_l, (cs_pieces_lt b HC King)).
  unfold kings, count_if. f_equal. f_equal. apply filter_ext_in'.
  intros s Hs. apply TablesLib.in_all_sq in Hs.
  rewrite (has_abs b s King c HC Hs), N.land_spec. reflexivity.
Qed.

(** ** 3. In a position where the side not to move is not in check, the kings are apart *)
Lemma not_in_check_kings_apart b :
  Consistent b ->
  popcnt (N.land (pK b) (color_combined b (stm b))) = 1 ->
  popcnt (N.land (pK b) (color_combined b (opp (stm b)))) = 1 ->
  in_check (abs_board b) (opp (stm b)) = false -> kings_apart b.
Proof.
  intros HC Hk Hk' Hnc. unfold kings_apart.
  destruct (one_king_bit b (stm b) HC Hk) as [Hlt Hbit].
  destruct (one_king_bit b (opp (stm b)) HC Hk') as [Hlt' Hbit'].
  destruct (king_square_has b (stm b) HC Hk) as [HK Hown].
  set (k := king_square b (stm b)) in *. set (k' := king_square b (opp (stm b))) in *.
  rewrite Hbit'.
  unfold in_check in Hnc. rewrite (king_square_spec b (opp (stm b)) HC Hk') in Hnc.
  fold k' in Hnc. rewrite opp_opp' in Hnc.
  rewrite (attacked_by_canon b (stm b) k' HC Hlt') in Hnc.
  destruct (N.eqb_spec (attackers_bb b (stm b) k') 0) as [Hz|_]; [|discriminate Hnc].
  pose proof (attackers_bit b (stm b) k k' HC Hlt Hlt') as Hab.
  rewrite Hz, N.bits_0, (own_abs b (stm b) k HC Hlt), Hown in Hab. cbn [andb] in Hab.
  rewrite (attacks_canon b k k' HC Hlt Hlt') in Hab. unfold attack_bb in Hab.
  assert (Hat : at_ (abs_board b) k = Some (King, stm b))
    by (apply (at_abs_some b k King (stm b) HC Hlt); split; assumption).
  rewrite Hat in Hab.
  apply bits_land0. intro i. rewrite TablesLib.testbit_bit.
  destruct (N.eqb_spec k' i) as [<-|_]; [rewrite Hab; reflexivity|apply andb_false_r].
Qed.

(** ** 4. C18 over valid specification positions *)
Lemma pos_valid_facts p : pos_valid p = true ->
  kings p White = 1 /\ kings p Black = 1 /\ in_check p (opp (turn p)) = false.
Proof.
  unfold pos_valid. intro H.
  repeat (apply andb_prop in H; destruct H as [H ?]).
  repeat match goal with Hx : (_ =? _) = true |- _ => apply N.eqb_eq in Hx end.
  repeat split; try assumption.
  destruct (in_check p (opp (turn p))); [discriminate|reflexivity].
Qed.

(** For a valid position [p] whose from-scratch board abstracts back to [p]: the null move on
    that board is refused exactly when the side to move is in check; otherwise the result is
    the from-scratch board of the passed position (so every word, the castling rights, the
    hash field, and the pin and check caches are those of the from-scratch board), and it
    abstracts to [pass p]: same placement and castling rights, the other side to move, no
    en-passant target. *)
Theorem null_move_valid p :
  pos_valid p = true -> abs_board (from_scratch p) = p ->
  (null_move (from_scratch p) = None <-> in_check p (turn p) = true) /\
  (forall b', null_move (from_scratch p) = Some b' ->
     b' = from_scratch (pass p) /\ abs_board b' = pass p /\
     placement (abs_board b') = placement p /\ turn (abs_board b') = opp (turn p) /\
     ep (abs_board b') = None /\
     wk (abs_board b') = wk p /\ wq (abs_board b') = wq p /\
     bk (abs_board b') = bk p /\ bq (abs_board b') = bq p /\
     get_hash b' = get_hash (from_scratch (pass p)) /\
     pinned b' = pinned (from_scratch (pass p)) /\ checkers b' = checkers (from_scratch (pass p))).
Proof.
  intros Hv Hrt.
  pose proof (from_scratch_canonical p Hrt) as HCan.
  pose proof (canonical_consistent _ HCan) as HC.
  destruct (pos_valid_facts p Hv) as [KW [KB Hnc]].
  assert (Hstm : stm (from_scratch p) = turn p) by (rewrite <- Hrt at 2; reflexivity).
  assert (Hk : forall c, popcnt (N.land (pK (from_scratch p)) (color_combined (from_scratch p) c)) = 1).
  { intro c. rewrite <- (kings_abs _ c HC), Hrt. destruct c; assumption. }
  assert (Hka : kings_apart (from_scratch p)).
  { apply not_in_check_kings_apart; try exact HC; try apply Hk. rewrite Hrt, Hstm. exact Hnc. }
  destruct (null_move_canonical_spec _ HCan (Hk _) Hka) as [Hnone Hsome].
  rewrite Hrt, Hstm in Hnone. split; [exact Hnone|].
  intros b' Hb'. destruct (Hsome b' Hb') as [Habs [Hfs _]]. rewrite Hrt in Habs, Hfs.
  split; [exact Hfs|]. split; [exact Habs|].
  rewrite Habs. cbn [pass placement turn ep wk wq bk bq].
  repeat split; rewrite Hfs; reflexivity.
Qed.

(** ** 5. Examples: the hypotheses hold for the start position, and for a position in check *)
Example null_move_valid_startpos :
  pos_valid startpos = true /\ abs_board (from_scratch startpos) = startpos /\
  in_check startpos (turn startpos) = false /\ kings_apart (from_scratch startpos).
Proof. repeat split; vm_compute; reflexivity. Qed.

(** white K e1, Q d1; black K e8, R e7 giving check on the e-file: refused *)
Definition checkpos2 : pos :=
  {| placement := updN (updN (updN (updN (repeat None 64) 4 (Some (King,White))) 3 (Some (Queen,White)))
                       60 (Some (King,Black))) 52 (Some (Rook,Black));
     turn := White; wk := false; wq := false; bk := false; bq := false; ep := None |}.
Example null_move_valid_check :
  pos_valid checkpos2 = true /\ abs_board (from_scratch checkpos2) = checkpos2 /\
  in_check checkpos2 (turn checkpos2) = true /\ null_move (from_scratch checkpos2) = None.
Proof. repeat split; vm_compute; reflexivity. Qed.
