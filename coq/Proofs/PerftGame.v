(** * Proofs.PerftGame — [Board::from_fen], [Game::from_str], [Game::new_from_fen]
    ([board_from_fen], [game_from_str], [game_new_from_fen], [Model/Perft.v]).

    1. None of them panics; [Game::from_str] succeeds exactly when [Board::from_str] does and
       returns [Game::new_with_board] of that board; the deprecated forms are the [.ok()]s.
    2. A board accepted by [TryFrom<&BoardBuilder>] / [Board::from_str] that shows a valid
       position ([pos_valid (abs_board b)]) IS the from-scratch board of that position
       ([GoodBoard]): hence every C10b / C11b history theorem (stated for games started from
       the from-scratch board of a valid position) applies to every game [Game::from_str]
       returns for such a text; four of them are instantiated here as in [Proofs/Extra10.v].
    3. The hypothesis [pos_valid] cannot be dropped: [Board::from_str] accepts texts whose
       position is not valid in the sense of [Spec.Rules.pos_valid] (a pawn on the first rank:
       [is_sane] has no such test) — witness [ex_accepted_not_valid]. *)
From Coq Require Import NArith List Bool Lia String.
From Chess Require Import Base.Bits Base.Text Spec.Geometry Spec.Rules Model.Board Model.MoveGen
  Model.Fen Model.Game Model.Perft.
From Chess Require Import Proofs.BitsFacts Proofs.AbsBoard Proofs.NullMove Proofs.ParseTotal
  Proofs.AcceptSound Proofs.HashSeparation Proofs.StepLink Proofs.StepHash Proofs.StepCanon
  Proofs.CorB07 Proofs.CorAReach.
From Chess Require Import Proofs.GameBase Proofs.GameScan Proofs.GameProtocol Proofs.CorAGame.
Import ListNotations.
Open Scope N_scope.

Local Opaque from_builder_raw from_scratch abs_board update_pin_info.

(** ** 1. Shapes and totality *)
Theorem game_from_str_ok s g : game_from_str s = Ok g ->
  exists b, board_from_str s = Ok b /\ g = new_with_board b.
Proof.
  unfold game_from_str. destruct (board_from_str s) as [b| |]; try discriminate.
  intro H. injection H as H. exists b. split; [reflexivity|symmetry; exact H].
Qed.

Theorem game_from_str_ok_iff s g : game_from_str s = Ok g <->
  exists b, board_from_str s = Ok b /\ g = new_with_board b.
Proof.
  split; [apply game_from_str_ok|]. intros [b [E ->]]. unfold game_from_str. rewrite E. reflexivity.
Qed.

Theorem game_from_str_no_panic s : game_from_str s <> Panic.
Proof.
  unfold game_from_str. pose proof (board_from_str_total s) as H.
  destruct (board_from_str s); [discriminate|discriminate|exfalso; exact (H eq_refl)].
Qed.

Theorem board_from_fen_no_panic s : board_from_fen s <> Panic.
Proof.
  unfold board_from_fen. pose proof (board_from_str_total s) as H.
  destruct (board_from_str s); [discriminate|discriminate|exfalso; exact (H eq_refl)].
Qed.

Theorem game_new_from_fen_no_panic s : game_new_from_fen s <> Panic.
Proof.
  unfold game_new_from_fen. pose proof (game_from_str_no_panic s) as H.
  destruct (game_from_str s); [discriminate|discriminate|exfalso; exact (H eq_refl)].
Qed.

Theorem game_from_str_err_iff s : game_from_str s = Err <-> board_from_str s = Err.
Proof. unfold game_from_str. destruct (board_from_str s); split; (reflexivity || discriminate). Qed.

(** the deprecated [Option]-returning forms are the [.ok()] of the [Result]-returning ones:
    they never fail either, [None] stands for the error *)
Theorem board_from_fen_spec s :
  board_from_fen s = match board_from_str s with Ok b => Ok (Some b) | _ => Ok None end.
Proof.
  unfold board_from_fen. pose proof (board_from_str_total s) as H.
  destruct (board_from_str s); [reflexivity|reflexivity|exfalso; exact (H eq_refl)].
Qed.

Theorem game_new_from_fen_spec s :
  game_new_from_fen s =
  match board_from_str s with Ok b => Ok (Some (new_with_board b)) | _ => Ok None end.
Proof.
  unfold game_new_from_fen, game_from_str. pose proof (board_from_str_total s) as H.
  destruct (board_from_str s); [reflexivity|reflexivity|exfalso; exact (H eq_refl)].
Qed.

Theorem board_from_fen_err s : board_from_fen s <> Err.
Proof. rewrite board_from_fen_spec. destruct (board_from_str s); discriminate. Qed.

Theorem game_new_from_fen_err s : game_new_from_fen s <> Err.
Proof. rewrite game_new_from_fen_spec. destruct (board_from_str s); discriminate. Qed.

(** the game just made: starts at the parsed board, empty log *)
Theorem game_from_str_fields s g : game_from_str s = Ok g ->
  board_from_str s = Ok (start_pos g) /\ actions g = [] /\ current_position g = Some (start_pos g).
Proof.
  intro H. destruct (game_from_str_ok s g H) as [b [E ->]]. cbn [start_pos actions new_with_board].
  split; [exact E|]. split; reflexivity.
Qed.

(** ** 2. Accepted boards showing a valid position are the from-scratch boards *)
Lemma land3_lt4 a : N.land a 3 < 4.
Proof. change 3 with (N.ones 2). rewrite N.land_ones. apply N.mod_lt. discriminate. Qed.

Theorem accepted_inv bb b : try_from_builder bb = Some b ->
  pos_valid (abs_board b) = true -> Inv b.
Proof.
  intros Hacc HV. pose proof (accepted_consistent bb b Hacc) as HC.
  destruct (accept_sound_bits bb b Hacc) as (Hb & _ & _ & _ & _ & _ & _ & _ & _ & _ & Hep & _).
  destruct (fbr_fields bb) as (_ & _ & HW & HB & _).
  constructor.
  - exact HC.
  - rewrite Hb. apply hashok_from_builder_raw.
  - rewrite Hb, HW. apply land3_lt4.
  - rewrite Hb, HB. apply land3_lt4.
  - intros e He. destruct (Hep e He) as [Hbit [Hrk _]]. split; [|exact Hrk].
    rewrite N.land_spec in Hbit. apply andb_prop in Hbit as [HP _].
    exact (testbit_lt64 _ e (cs_pieces_lt b HC Pawn) HP).
  - exact HV.
Qed.

Theorem accepted_valid_good bb b : try_from_builder bb = Some b ->
  pos_valid (abs_board b) = true -> GoodBoard b.
Proof.
  intros Hacc HV. split; [|exact HV].
  pose proof (accepted_inv bb b Hacc HV) as HI.
  destruct (accept_sound_bits bb b Hacc) as (Hb & _).
  assert (Hself : update_pin_info b = b).
  { rewrite Hb, from_builder_raw_split. apply update_pin_info_idem. }
  apply (inv_canonical b HI); rewrite Hself; reflexivity.
Qed.

Theorem parsed_valid_good s b : board_from_str s = Ok b ->
  pos_valid (abs_board b) = true -> GoodBoard b.
Proof.
  intros H HV. apply (proj1 (board_from_str_ok_iff s b)) in H. destruct H as [bb [_ Hacc]].
  exact (accepted_valid_good bb b Hacc HV).
Qed.

(** ... so the text denotes the position, and parsing it gives the board the library builds for
    that position *)
Theorem parsed_valid_from_scratch s b : board_from_str s = Ok b ->
  pos_valid (abs_board b) = true -> b = from_scratch (abs_board b).
Proof. intros H HV. exact (proj1 (parsed_valid_good s b H HV)). Qed.

(** ** 3. The C10b theorems for [Game::from_str] *)
Section FromStr.
Variables (s:str) (g0:game).
Hypothesis Hs : game_from_str s = Ok g0.
Hypothesis HV : pos_valid (abs_board (start_pos g0)) = true.

Let b0 := start_pos g0.
Let p0 := abs_board (start_pos g0).

Lemma fs_parsed : board_from_str s = Ok b0.
Proof. exact (proj1 (game_from_str_fields s g0 Hs)). Qed.

Theorem game_from_str_start_good : GoodBoard (start_pos g0).
Proof. exact (parsed_valid_good s b0 fs_parsed HV). Qed.

Lemma fs_scratch : b0 = from_scratch p0.
Proof. exact (proj1 game_from_str_start_good). Qed.

Theorem game_from_str_reachable : g0 = new_with_board (start_pos g0) /\ Reachable (start_pos g0) g0.
Proof.
  destruct (game_from_str_ok s g0 Hs) as [b [_ E]].
  assert (E' : g0 = new_with_board (start_pos g0)) by (rewrite E; reflexivity).
  split; [exact E'|]. rewrite E' at 2. constructor.
Qed.

Theorem game_from_str_game_no_panic g : Reachable (start_pos g0) g ->
  (exists b, current_position g = Some b /\ GoodBoard b) /\
  (exists r, result g = Some r) /\
  (exists d, can_declare_draw g = Some d) /\
  (forall o, exists f g', apply_op g o = Some (f,g')).
Proof. exact (game_no_panic p0 b0 HV fs_scratch g). Qed.

Theorem game_from_str_runs_never_panic g ops : Reachable (start_pos g0) g ->
  exists g', run g ops = Some g' /\ Reachable (start_pos g0) g'.
Proof. exact (game_runs_never_panic p0 b0 HV fs_scratch g ops). Qed.

Theorem game_from_str_position_reachgen g : Reachable (start_pos g0) g ->
  exists b, current_position g = Some b /\ ReachGen (abs_board (start_pos g0)) b.
Proof. exact (game_position_reachgen p0 b0 HV fs_scratch g). Qed.

Theorem game_from_str_status_fide g : Reachable (start_pos g0) g ->
  exists b, current_position g = Some b /\ pos_valid (abs_board b) = true /\
            board_status b = status (abs_board b).
Proof. exact (game_status_fide p0 b0 HV fs_scratch g). Qed.

Theorem game_from_str_make_move_fide g m : Reachable (start_pos g0) g ->
  exists b, current_position g = Some b /\ ReachGen (abs_board (start_pos g0)) b /\
    (forall g', g_make_move g m = Some (true, g') <->
       has_result g = Some false /\ In (to_spec_move m) (legal_moves (abs_board b)) /\
       g' = push_action g (MakeMove m)) /\
    (~ (has_result g = Some false /\ In (to_spec_move m) (legal_moves (abs_board b))) ->
       g_make_move g m = Some (false, g)) /\
    (In (to_spec_move m) (legal_moves (abs_board b)) -> exists b', mm b m = Some b' /\
       current_position (push_action g (MakeMove m)) = Some b' /\ stm b' = opp (stm b) /\
       abs_board b' = apply (abs_board b) (to_spec_move m) /\
       b' = from_scratch (apply (abs_board b) (to_spec_move m))).
Proof. exact (game_make_move_fide p0 b0 HV fs_scratch g m). Qed.
End FromStr.

(** ** 4. Examples *)
(** the hypotheses are satisfiable: the start text *)
Example ex_game_from_start :
  game_from_str Model.Extra.start_fen = Ok (new_with_board (from_scratch startpos)) /\
  pos_valid (abs_board (start_pos (new_with_board (from_scratch startpos)))) = true.
Proof. split; [vm_compute; reflexivity|vm_cast_no_check (eq_refl true)]. Qed.

(** ... and a text that is refused: all four entry points, none panics *)
Example ex_game_from_garbage :
  let s := s_of "8/8/8/8/8/8/8/8 w - - 0 1"%string in
  board_from_str s = Err /\ game_from_str s = Err /\ board_from_fen s = Ok None /\
  game_new_from_fen s = Ok None.
Proof. vm_compute. repeat split. Qed.

(** [pos_valid] is a real hypothesis of section 3: this text (a white pawn on a1) is accepted by
    [Board::from_str], hence by [Game::from_str], but the position is not valid in the sense of
    the rules' oracle ([pos_valid] forbids pawns on the first and last ranks; [Board::is_sane]
    does not look) *)
Definition pawn_on_a1_fen : str := s_of "4k3/8/8/8/8/8/8/P3K3 w - - 0 1"%string.
Example ex_accepted_not_valid :
  exists b, board_from_str pawn_on_a1_fen = Ok b /\
            game_from_str pawn_on_a1_fen = Ok (new_with_board b) /\
            at_ (abs_board b) 0 = Some (Pawn, White) /\
            pos_valid (abs_board b) = false.
Proof.
  assert (H : match board_from_str pawn_on_a1_fen with
              | Ok b => game_from_str pawn_on_a1_fen = Ok (new_with_board b) /\
                        at_ (abs_board b) 0 = Some (Pawn, White) /\
                        pos_valid (abs_board b) = false
              | _ => False end) by (vm_compute; repeat split).
  destruct (board_from_str pawn_on_a1_fen) as [b| |]; [|contradiction|contradiction].
  exists b. split; [reflexivity|exact H].
Qed.
