(** * Proofs.BitsIter — [impl Iterator for BitBoard] yields exactly [squares_of], lowest
    square first; each step removes exactly the lowest set bit (C20, part 2). *)
From Coq Require Import Lia ZifyBool ZifyN ZifyNat Sorted.
From Chess Require Import Base.Bits Model.BitBoard Proofs.BitsFacts.
Open Scope N_scope.
#[local] Arguments N.add : simpl never.
#[local] Arguments N.sub : simpl never.
#[local] Arguments N.mul : simpl never.
#[local] Arguments N.shiftl : simpl never.
#[local] Arguments N.land : simpl never.
#[local] Arguments N.lxor : simpl never.
#[local] Arguments N.testbit : simpl never.
#[local] Arguments N.eqb : simpl never.
#[local] Arguments N.pow : simpl never.

Theorem bb_next_none : forall b, bb_next b = None <-> b = 0.
Proof.
  intro b. unfold bb_next. destruct (N.eqb_spec b 0) as [Hz|Hnz].
  - split; [intros _; exact Hz|reflexivity].
  - split; [discriminate|contradiction].
Qed.

(** Removing the lowest set bit removes the head of the list of squares. *)
Lemma squares_of_clear_lowest b : b <> 0 -> b < 2 ^ 64 ->
  squares_of b = to_square b :: squares_of (N.lxor b (bit (to_square b))).
Proof.
  intros Hnz Hb. destruct (to_square_min b Hnz Hb) as [Hhd [Hset Hmin]].
  apply squares_of_spec in Hset.
  pose proof (squares_of_sorted b) as S. pose proof (squares_of_spec b) as Spec.
  destruct (squares_of b) as [|h t] eqn:E; [destruct Hset|].
  cbn [hd] in Hhd. rewrite Hhd. f_equal.
  inversion S as [|h' t' St Ft]; subst h' t'. rewrite Forall_forall in Ft.
  symmetry. apply squares_of_ext; [exact St|].
  intro x. rewrite N.lxor_spec, testbit_bit. split.
  - intro Hx. pose proof (Ft x Hx) as Hlt.
    destruct (Spec x) as [Hin _]. rewrite (Hin (or_intror Hx)).
    destruct (N.eqb_spec h x) as [Heq|_]; [lia|reflexivity].
  - intro Hx. destruct (N.eqb_spec h x) as [Heq|Hne].
    + subst x. destruct (Spec h) as [Hin _]. rewrite (Hin (or_introl eq_refl)) in Hx. discriminate Hx.
    + rewrite xorb_false_r in Hx. apply Spec in Hx. destruct Hx as [Heq|Hin]; [contradiction|exact Hin].
Qed.

Theorem bb_next_some : forall b, b <> 0 -> b < 2 ^ 64 ->
  exists s b', bb_next b = Some (s, b') /\ s = to_square b /\
    squares_of b = s :: squares_of b' /\ b' < 2 ^ 64 /\
    (forall x, N.testbit b' x = N.testbit b x && negb (x =? s)).
Proof.
  intros b Hnz Hb. exists (to_square b), (N.lxor b (bit (to_square b))).
  pose proof (to_square_lt64 b) as Hs.
  split.
  { unfold bb_next. destruct (N.eqb_spec b 0) as [Hz|_]; [contradiction|].
    cbn zeta. rewrite (bb_from_square_bit _ Hs). reflexivity. }
  split; [reflexivity|]. split; [apply squares_of_clear_lowest; assumption|].
  split.
  { apply (bb_xor_lt64 b (bit (to_square b)) Hb). apply bit_lt64. exact Hs. }
  intro x. rewrite N.lxor_spec, testbit_bit.
  destruct (to_square_min b Hnz Hb) as [_ [Hset _]].
  rewrite (N.eqb_sym x). destruct (N.eqb_spec (to_square b) x) as [Heq|Hne]; cbn [negb].
  - subst x. rewrite Hset. reflexivity.
  - rewrite xorb_false_r, andb_true_r. reflexivity.
Qed.

(** Enough fuel: the iterator lists [squares_of]. *)
Lemma bb_iter_enough : forall n b, b < 2 ^ 64 -> (length (squares_of b) <= n)%nat ->
  bb_iter n b = squares_of b.
Proof.
  induction n as [|n IH]; intros b Hb Hlen.
  - destruct (squares_of b) as [|h t]; [reflexivity|cbn [length] in Hlen; lia].
  - cbn [bb_iter]. destruct (N.eq_dec b 0) as [Hz|Hnz].
    + subst b. reflexivity.
    + destruct (bb_next_some b Hnz Hb) as [s [b' [Hn [_ [Hsq [Hb' _]]]]]].
      rewrite Hn, Hsq. f_equal. apply IH; [exact Hb'|].
      rewrite Hsq in Hlen. cbn [length] in Hlen. lia.
Qed.

Theorem bb_iter_spec : forall b, b < 2 ^ 64 -> bb_iter 64 b = squares_of b.
Proof. intros b Hb. apply bb_iter_enough; [exact Hb|apply squares_of_length64; exact Hb]. Qed.

Theorem bb_iter_fuel : forall b n, b < 2 ^ 64 -> (64 <= n)%nat -> bb_iter n b = squares_of b.
Proof.
  intros b n Hb Hn. apply bb_iter_enough; [exact Hb|].
  pose proof (squares_of_length64 b Hb). lia.
Qed.

(** Consequences: the iterator yields each member exactly once, in ascending order, and as
    many items as [popcnt]. *)
Theorem bb_iter_members : forall b s, b < 2 ^ 64 -> (In s (bb_iter 64 b) <-> N.testbit b s = true).
Proof. intros b s Hb. rewrite (bb_iter_spec b Hb). apply squares_of_spec. Qed.

Theorem bb_iter_NoDup : forall b, b < 2 ^ 64 -> NoDup (bb_iter 64 b).
Proof. intros b Hb. rewrite (bb_iter_spec b Hb). apply squares_of_NoDup. Qed.

Theorem bb_iter_length : forall b, b < 2 ^ 64 -> N.of_nat (length (bb_iter 64 b)) = bb_popcnt b.
Proof. intros b Hb. rewrite (bb_iter_spec b Hb). symmetry. apply popcnt_length. Qed.

(** ** Examples *)
Example ex_next : bb_next 9295429630892703873 = Some (0, 9295429630892703872).
Proof. vm_compute. reflexivity. Qed.
Example ex_iter : bb_iter 64 9295429630892703873 = [0; 7; 56; 63].
Proof. vm_compute. reflexivity. Qed.
Example ex_iter_full : length (bb_iter 64 M64) = 64%nat /\ M64 < 2 ^ 64.
Proof. vm_compute. split; reflexivity. Qed.
(** with too little fuel the list is cut short, so the fuel bound matters *)
Example ex_iter_short : bb_iter 3 9295429630892703873 = [0; 7; 56].
Proof. vm_compute. reflexivity. Qed.
