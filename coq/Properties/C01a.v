(** * C01a — the iterator / legality-query half of C01, over the model [Model.MoveGen]:
    iterating the move generator of a board and asking the single-move legality query agree,
    no move is produced twice (given non-overlapping entries), and [len] of a fresh generator
    is the number of moves.

    Vocabulary:
    - [BoardWF b] ([Proofs.GenWF]): every bitboard field of [b] is below 2^64 and the recorded
      en-passant square is below 64 (pinned by [C01a_BoardWF_def] below).
    - [WF L] ([Proofs.IterCore]): every entry of [L] has a non-empty destination set below 2^64.
    - [moves_of b]: the result of a full iteration with the fixed fuel [drain_fuel];
      [expand L]: the moves of the entry list [L] in the iterator's order.
    The refinement of [expand (enumerate_moves b)] to the FIDE [legal_moves] is the other
    half of C01 and is not in this file. *)
From Coq Require Import NArith List Bool.
From Chess Require Import Model.MoveGen Model.Fen Proofs.IterCore Proofs.GenWF Proofs.GenWFBoard
  Proofs.StatusModel.
Import ListNotations.
Open Scope N_scope.

Theorem C01a_BoardWF_def : forall b, BoardWF b <->
  pP b < 2^64 /\ pN b < 2^64 /\ pB b < 2^64 /\ pR b < 2^64 /\ pQ b < 2^64 /\ pK b < 2^64 /\
  cW b < 2^64 /\ cB b < 2^64 /\ comb b < 2^64 /\ pinned b < 2^64 /\ checkers b < 2^64 /\
  match epsq b with Some e => e < 64 | None => True end.
Proof. exact (fun b => iff_refl _). Qed.
Check C01a_BoardWF_def : forall b, BoardWF b <->
  pP b < 2^64 /\ pN b < 2^64 /\ pB b < 2^64 /\ pR b < 2^64 /\ pQ b < 2^64 /\ pK b < 2^64 /\
  cW b < 2^64 /\ cB b < 2^64 /\ comb b < 2^64 /\ pinned b < 2^64 /\ checkers b < 2^64 /\
  match epsq b with Some e => e < 64 | None => True end.
Print Assumptions C01a_BoardWF_def.

(** ** G1 — the generated entry list is well-formed *)
Theorem C01a_enumerate_wf : forall b, BoardWF b -> WF (enumerate_moves b).
Proof. exact enumerate_wf. Qed.
Check C01a_enumerate_wf : forall b, BoardWF b -> WF (enumerate_moves b).
Print Assumptions C01a_enumerate_wf.

Theorem C01a_enumerate_entries : forall b, BoardWF b ->
  Forall (fun e => ebb e <> 0 /\ ebb e < 2^64 /\ esq e < 64) (enumerate_moves b).
Proof. exact enumerate_entries_ok. Qed.
Check C01a_enumerate_entries : forall b, BoardWF b ->
  Forall (fun e => ebb e <> 0 /\ ebb e < 2^64 /\ esq e < 64) (enumerate_moves b).
Print Assumptions C01a_enumerate_entries.

(** ** G4 — the boards one can obtain are 64-bit boards (no hypothesis on the builder) *)
Theorem C01a_from_builder_raw_wf : forall bb, BoardWF (from_builder_raw bb).
Proof. exact from_builder_raw_wf. Qed.
Check C01a_from_builder_raw_wf : forall bb, BoardWF (from_builder_raw bb).
Print Assumptions C01a_from_builder_raw_wf.

Theorem C01a_accepted_wf : forall bb b, try_from_builder bb = Some b -> BoardWF b.
Proof. exact try_from_builder_wf. Qed.
Check C01a_accepted_wf : forall bb b, try_from_builder bb = Some b -> BoardWF b.
Print Assumptions C01a_accepted_wf.

Theorem C01a_parsed_wf : forall s b, board_from_str s = Ok b -> BoardWF b /\ is_sane b = true.
Proof. exact board_from_str_wf. Qed.
Check C01a_parsed_wf : forall s b, board_from_str s = Ok b -> BoardWF b /\ is_sane b = true.
Print Assumptions C01a_parsed_wf.

(** ** G2 — a full iteration yields exactly the expansion of the entry list, then [None] *)
Theorem C01a_full_iteration : forall b fuel, BoardWF b -> is_sane b = true ->
  (4 * 64 * 18 + 1 <= fuel)%nat ->
  fst (drain fuel (new_legal b)) = expand (enumerate_moves b) /\
  next (snd (drain fuel (new_legal b))) = (None, snd (drain fuel (new_legal b))) /\
  len (snd (drain fuel (new_legal b))) = 0.
Proof. exact drain_new_legal. Qed.
Check C01a_full_iteration : forall b fuel, BoardWF b -> is_sane b = true ->
  (4 * 64 * 18 + 1 <= fuel)%nat ->
  fst (drain fuel (new_legal b)) = expand (enumerate_moves b) /\
  next (snd (drain fuel (new_legal b))) = (None, snd (drain fuel (new_legal b))) /\
  len (snd (drain fuel (new_legal b))) = 0.
Print Assumptions C01a_full_iteration.

Theorem C01a_moves_of_expand : forall b, BoardWF b -> is_sane b = true ->
  moves_of b = expand (enumerate_moves b).
Proof. exact moves_of_expand. Qed.
Check C01a_moves_of_expand : forall b, BoardWF b -> is_sane b = true ->
  moves_of b = expand (enumerate_moves b).
Print Assumptions C01a_moves_of_expand.

(** the legality query answers "yes" exactly for the iterated moves *)
Theorem C01a_legal_iff_iterated : forall b m, legal b m = true <-> In m (moves_of b).
Proof. exact legal_iff_moves_of. Qed.
Check C01a_legal_iff_iterated : forall b m, legal b m = true <-> In m (moves_of b).
Print Assumptions C01a_legal_iff_iterated.

Theorem C01a_legal_iff : forall b m, BoardWF b -> is_sane b = true ->
  (legal b m = true <-> In m (expand (enumerate_moves b))).
Proof. exact legal_iff. Qed.
Check C01a_legal_iff : forall b m, BoardWF b -> is_sane b = true ->
  (legal b m = true <-> In m (expand (enumerate_moves b))).
Print Assumptions C01a_legal_iff.

Theorem C01a_no_move_twice : forall b, BoardWF b -> is_sane b = true ->
  NoDup (expand (enumerate_moves b)) -> NoDup (moves_of b).
Proof. exact moves_of_NoDup. Qed.
Check C01a_no_move_twice : forall b, BoardWF b -> is_sane b = true ->
  NoDup (expand (enumerate_moves b)) -> NoDup (moves_of b).
Print Assumptions C01a_no_move_twice.

Theorem C01a_move_squares : forall b m, BoardWF b -> In m (expand (enumerate_moves b)) ->
  msrc m < 64 /\ mdst m < 64.
Proof. exact expand_squares. Qed.
Check C01a_move_squares : forall b m, BoardWF b -> In m (expand (enumerate_moves b)) ->
  msrc m < 64 /\ mdst m < 64.
Print Assumptions C01a_move_squares.

(** [len] of a fresh generator = the number of moves *)
Theorem C01a_len_new_legal : forall b, BoardWF b -> is_sane b = true ->
  len (new_legal b) = N.of_nat (length (moves_of b)).
Proof. exact len_new_legal. Qed.
Check C01a_len_new_legal : forall b, BoardWF b -> is_sane b = true ->
  len (new_legal b) = N.of_nat (length (moves_of b)).
Print Assumptions C01a_len_new_legal.

(** the deprecated array-filling form: a full iteration fills exactly [len] slots *)
Theorem C01a_full_iteration_count : forall b fuel, BoardWF b -> is_sane b = true ->
  (4 * 64 * 18 + 1 <= fuel)%nat ->
  N.of_nat (length (fst (drain fuel (new_legal b)))) = len (new_legal b).
Proof. exact full_iteration_count. Qed.
Check C01a_full_iteration_count : forall b fuel, BoardWF b -> is_sane b = true ->
  (4 * 64 * 18 + 1 <= fuel)%nat ->
  N.of_nat (length (fst (drain fuel (new_legal b)))) = len (new_legal b).
Print Assumptions C01a_full_iteration_count.
